/-
Element-order independence of the XMI reader on the whole format (`Properties/C05PermColl.lean`): assembly.

Layers (namespace `Cassis.Xmi.LPC`), built from the layers of `xmi_roundtrip_coll` (`RoundTripColl_NOTES.md`) the way
`LoadPerm.lean` is built from the layers of `xmi_roundtrip_flat`:
* `LoadPermCollDefs`   — `P1WP`: the tables of the first pass up to permutation, the `cas:NULL` object anywhere; lookups;
* `LoadPermCollPass1`  — `pass1_permC`: the first pass over ANY permutation of the written document (one element may
                         produce several objects; addresses read off the id table);
* `LoadPermCollPost`   — `postAll_permC`: the second pass (the per-structure statements `Post2Stmt` of the round-trip
                         proof, tables used through lookups; work list in any order);
* `LoadPermCollBuildC…F` — the third pass (`LoadPermBuildC…F` with the expectation functions `E2c`/`E3c`);
* this file            — `buildCas_permC`, `xmi_load_perm_coll_aux`.
The per-structure layers (`gen_elem1`, `arr_elem1`, `postInline_arr`, `postInline_list`, `CGM.gen_features`, `CAR.key_*`),
the passage from `Obj2` to `E2c` (`obj2_to_E2c`) and the comparison of the deep content (`CF.content_eq`) are reused as
they stand: they speak through the id-keyed map `na` and never about positions.
-/
import CassisModel.Proofs.LoadPermCollPass1
import CassisModel.Proofs.LoadPermCollPost
import CassisModel.Proofs.LoadPermCollBuildE
import CassisModel.Proofs.LoadPermCollBuildF
import CassisModel.Proofs.LoadPerm
import CassisModel.Proofs.RoundTripColl

namespace Cassis.Xmi.LPC
open Cassis.TS Cassis.Traverse Cassis.Lex Cassis.Xmi Cassis.Xmi.RTB Cassis.Xmi.LP

/-! ### the content of a loaded view -/

theorem view_contentC {K : Consts} {ts : TypeSystem} {cass : List Cas} {ci : Nat} {c : Cas} {hp H : Heap}
    {L : List (Int × Nat)} {na : Int → Nat} {n0 : Nat} {p : Pass1} (ctx : CtxC K ts cass ci c hp H L na n0 p)
    {E : Obj → String → Val → Val} {hpF : Heap} (hrel : HeapRel H L na E hpF)
    {nv : String × View} (hnv : nv ∈ c.views) {nv' : String × View} (hr : VRel H na nv nv') :
    viewContent hpF nv' = viewContent H nv := by
  obtain ⟨h1, _, h2, h3, h4, h5, _, h6⟩ := hr
  have hx : ∀ m ∈ (pviewOf H nv).members, xidOf hpF (na m) = some m := by
    intro m hm
    obtain ⟨e, _, hq⟩ := ctx.member hnv hm
    obtain ⟨o, o', _, ho', hrel'⟩ := hrel _ hq
    unfold xidOf
    rw [ho']
    exact hrel'.2.1
  have e1 : (Index.all nv'.2.idx).filterMap (fun e => xidOf hpF e.oid) =
      ((Index.all nv'.2.idx).map (·.oid)).filterMap (xidOf hpF) := by
    rw [List.filterMap_map]; rfl
  have e2 := h6.filterMap (xidOf hpF)
  have e3 : ((pviewOf H nv).members.map na).filterMap (xidOf hpF) = (pviewOf H nv).members := by
    rw [List.filterMap_map]
    exact RTB.filterMap_id_of _ _ hx
  rw [e3] at e2
  have e4 : sortInts ((Index.all nv'.2.idx).filterMap (fun e => xidOf hpF e.oid)) =
      sortInts ((Index.all nv.2.idx).filterMap (fun e => xidOf H e.oid)) := by
    rw [e1, RTB.sortInts_perm e2]
    exact RTB.sortInts_idem _
  unfold viewContent
  rw [h1, h2, h3, h4, h5, e4]

/-! ### the third pass -/

theorem buildCas_permC (K : Consts) (ts : TypeSystem) (cass : List Cas) (ci : Nat) (c : Cas) (hp H : Heap)
    (L : List (Int × Nat)) (na : Int → Nat) (ia : Int → String → Nat) (n0 ci' : Nat) (p : Pass1) (hp2 : Heap)
    (hc : cass[ci]? = some c) (hwf : RTWf c hp) (hL : LOkW ts c ci H L)
    (hna : NaOkP n0 L na) (hp1 : P1WP c H L na n0 p)
    (hmem : ∀ nv ∈ c.views, ∀ e ∈ Index.all nv.2.idx, slot H e.oid "sofa" ≠ some .none)
    (hmok : MembersOk c H)
    (hnull2 : hp2[n0]? = p.heap[n0]?)
    (hrel : HeapRel H L na (E2c K ts cass H na ia ci') hp2) :
    ∃ (ld : Loaded) (vs : List (String × View)), buildCas K ts ci' false p hp2 = .ok ld ∧
      HeapRel H L na (E3c K ts H na ia ci') ld.heap ∧ vs.Perm c.views ∧ All2 (VRel H na) vs ld.cas.views ∧
      (ld.cas.views.head?).map (·.1) = some Cas.INITIAL_VIEW ∧
      ld.cas.nextXid = p.maxId + 1 ∧ ld.cas.nextSofaNum = p.maxNum + 1 ∧ Frz hp2 ld.heap := by
  have ctx : CtxC K ts cass ci c hp H L na n0 p := ⟨hc, hwf, hL, hna, hp1, hmem, hmok⟩
  obtain ⟨o0, ho0, hty0, hx0, hs0⟩ := hp1.null
  have hb0 : BInvC K ts cass H L na ia ci' n0 o0 hp2 { cas := Cas.empty, heap := hp2 } := by
    refine ⟨?_, fun r hr => (by cases hr), fun x hx => (by cases hx), (by rw [hnull2]; exact ho0), Frz.refl _⟩
    intro q hq
    obtain ⟨o, o', ho, ho', h1, h2, h3, h4⟩ := hrel q hq
    refine ⟨o, o', ho, ho', h1, h2, h3, fun n v hv => ⟨_, h4 n v hv, ?_⟩⟩
    unfold RTCB.SlotOk
    split
    · rename_i hn
      subst hn
      exact Or.inl (RTCB.E2c_sofa ..)
    · exact ⟨fun hcv => (by cases hcv), fun _ => rfl⟩
  obtain ⟨b', vs, hbv, hb', hvs, hall, hhead⟩ := ctx.views_all hb0
  obtain ⟨hpR, hR, hinvR, hnullR, hfrzR⟩ :=
    ctx.rehome_ok (ia := ia) (ci' := ci') (fun x => x ∈ b'.converted) b'.memberSofas hb'.ms b'.heap hb'.heap hb'.null
  obtain ⟨hpF, hF, hinvF, hfrzF⟩ :=
    ctx.convRef_all (ia := ia) (ci' := ci') b'.converted hb'.cv hs0 hpR hinvR hnullR
  have hrel3 : HeapRel H L na (E3c K ts H na ia ci') hpF := by
    intro q hq
    obtain ⟨o, o', ho, ho', g1, g2, g3, g4⟩ := hinvF q hq
    refine ⟨o, o', ho, ho', g1, g2, g3, fun n v hv => ?_⟩
    obtain ⟨w, hw, hs⟩ := g4 n v hv
    rw [hw]
    unfold RTCB.SlotOk at hs
    split at hs
    · rcases hs with hs | ⟨hf, _⟩
      · rw [hs]
      · exact hf.elim
    · rw [hs.1 trivial]
  refine ⟨{ cas := { b'.cas with nextXid := p.maxId + 1, nextSofaNum := p.maxNum + 1 }, heap := hpF }, vs, ?_, hrel3,
    hvs, hall, hhead, rfl, rfl, (hb'.frz.trans hfrzR).trans hfrzF⟩
  unfold buildCas
  rw [hbv]
  dsimp only
  rw [hR]
  dsimp only
  rw [hF]

end Cassis.Xmi.LPC

namespace Cassis.Xmi
open Cassis.TS Cassis.Traverse Cassis.Lex Cassis.Xmi.RTB Cassis.Xmi.LP Cassis.Xmi.LPC

/-- **element-order independence of the XMI reader, collections included** -/
theorem xmi_load_perm_coll_aux (K : Consts) (ts : TypeSystem) (cass : List Cas) (ci : Nat) (c : Cas) (hp : Heap)
    (tsIdx ci' : Nat) (doc doc' : XDoc) (st : St)
    (hc : cass[ci]? = some c) (hwf : RTWf c hp) (hnull : NullOk ts)
    (hsave : saveXmi K ts cass ci hp = .ok (doc, st))
    (hcoll : ∀ q ∈ st.allFs, CollFs K ts c ci st.heap q.2)
    (_hdis : ∀ q ∈ st.allFs, ∀ nv ∈ c.views, q.1 ≠ nv.2.sofa.xid)
    (hmem : ∀ nv ∈ c.views, ∀ e ∈ Index.all nv.2.idx, slot st.heap e.oid "sofa" ≠ some .none)
    (hmok : MembersOk c st.heap)
    (hperm : doc'.Perm doc) :
    ∃ (p' : Pass1) (ld' : Loaded),
      pass1 K ts tsIdx false doc' { heap := st.heap } = .ok p' ∧
      loadXmi K ts tsIdx ci' false st.heap doc' = .ok ld' ∧
      (p'.fss.map (·.1)).Perm (0 :: (sortById st.allFs).map (·.1)) ∧
      (∀ q ∈ st.allFs, ∃ (a' : Nat) (o o' : Obj), lookupFs p'.fss q.1 = .ok a' ∧
          st.heap[q.2]? = some o ∧ ld'.heap[a']? = some o' ∧ o'.ty = o.ty ∧ o'.xid = some q.1 ∧
          ∀ t : TypeRec, find? ts o.ty = some t → ∀ f ∈ allFeatures t,
            featContentC K ld'.heap a' f = featContentC K st.heap q.2 f) ∧
      (ld'.cas.views.map (viewContent ld'.heap)).Perm (c.views.map (viewContent st.heap)) ∧
      (ld'.cas.views.head?).map (·.1) = some Cas.INITIAL_VIEW ∧
      (∀ q ∈ st.allFs, q.1 < ld'.cas.nextXid) ∧
      (∀ nv ∈ c.views, nv.2.sofa.xid < ld'.cas.nextXid ∧ nv.2.sofa.sofaNum < ld'.cas.nextSofaNum) := by
  have hL := lokC_of_save hc hwf hsave hcoll
  have hI := idsOk_of_lokC hL
  -- first pass
  have helem : Elem1Stmt K ts cass st.heap tsIdx (CollFs K ts c ci st.heap) := by
    intro a x hP hx
    rcases hP with hg | ha
    · exact gen_elem1 K ts cass ci c st.heap tsIdx hc a x hg hx
    · exact arr_elem1 K ts cass st.heap tsIdx a x ha hx
  obtain ⟨na, n0, p, hp1, hna, hp1w, hrel1⟩ :=
    pass1_permC K ts cass ci c hp tsIdx doc doc' st hc hwf.sofa_ids_nodup hsave hnull hL helem hperm
  -- second pass
  obtain ⟨hp2, hpa, _, hnull2, hrel2⟩ :=
    postAll_permC K ts cass ci c hp st.heap _ na n0 tsIdx ci' p hc hwf hnull hL hna hp1w hrel1
  obtain ⟨hE2, hcolls2⟩ := obj2_to_E2c hL hrel2
  -- third pass
  obtain ⟨ld, vs, hbuild, hrel3, hvs, hall, hhead, _, _, hfrz3⟩ :=
    buildCas_permC K ts cass ci c hp st.heap _ na (iaOf hp2 na) n0 ci' p hp2 hc hwf (lokW_of_lokC hL) hna hp1w
      hmem hmok hnull2 hE2
  have hcolls3 := collsAt_frz hcolls2 hfrz3
  have ctx : CtxC K ts cass ci c hp st.heap (sortById st.allFs) na n0 p :=
    ⟨hc, hwf, lokW_of_lokC hL, hna, hp1w, hmem, hmok⟩
  have hload : loadXmi K ts tsIdx ci' false st.heap doc' = .ok ld := by
    unfold loadXmi
    simp only [hp1, hpa, bind, Except.bind]
    exact hbuild
  have hxid : ∀ q ∈ sortById st.allFs, xidOf ld.heap (na q.1) = some q.1 := by
    intro q hq
    obtain ⟨o, o', _, ho', _, hx, _⟩ := hrel3 q hq
    unfold xidOf; rw [ho']; exact hx
  obtain ⟨p', hp1', hbnd, hnx, hns, hfssb, _, _⟩ := loadXmi_reseeds_aux K ts tsIdx ci' false st.heap doc' ld hload
  rw [hp1] at hp1'; cases hp1'
  refine ⟨p, ld, hp1, hload, ?_, ?_, ?_, hhead, ?_, ?_⟩
  · have := hp1w.fss.map (·.1)
    rw [List.map_cons, List.map_map] at this
    exact this
  · intro q hq0
    have hq := mem_sortById.mpr hq0
    obtain ⟨o, o', ho, ho', hty, hx, _, hslots⟩ := hrel3 q hq
    refine ⟨na q.1, o, o', hp1w.lookup hI hq, ho, ho', hty, hx, ?_⟩
    intro t ht f hf
    exact CF.content_eq hL hxid hcolls3 q hq o o' ho ho' hslots t ht f hf
  · exact All2.map_perm hall hvs (fun nv hnv nv' hr => view_contentC ctx hrel3 hnv hr)
  · intro q hq0
    have hq := mem_sortById.mpr hq0
    obtain ⟨_, _, _, hlt⟩ := hfssb _ (hp1w.mem_fss hq)
    exact hlt
  · intro nv hnv
    have := hbnd.1 _ (hp1w.mem_sofas hnv)
    simp only [psofaOf] at this
    rw [hnx, hns]
    omega

end Cassis.Xmi
