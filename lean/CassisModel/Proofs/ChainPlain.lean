/-
The sofas of a CAS built by the XMI reader have no byte array and no URI (`Cas.empty` / `createView` create them without,
and nothing the third pass does sets them).  Holds for every successful `loadXmi`.
-/
import CassisModel.Proofs.ChainDefs

namespace Cassis.Chain
open Cassis.TS Cassis.Traverse Cassis.Xmi

/-- every sofa of the CAS is without byte array and URI -/
def Plain (c : Cas) : Prop := ∀ nv ∈ c.views, nv.2.sofa.arr = .none ∧ nv.2.sofa.uri = none

theorem mem_alistSet {β} : ∀ (l : List (String × β)) (k : String) (v : β) (x : String × β),
    x ∈ alistSet l k v → x = (k, v) ∨ x ∈ l
  | [], k, v, x, h => by
    simp only [alistSet, List.mem_singleton] at h
    exact Or.inl h
  | (k', v') :: rest, k, v, x, h => by
    unfold alistSet at h
    by_cases hk : k' = k
    · rw [if_pos hk] at h
      rcases List.mem_cons.1 h with h | h
      · exact Or.inl h
      · exact Or.inr (List.mem_cons_of_mem _ h)
    · rw [if_neg hk] at h
      rcases List.mem_cons.1 h with h | h
      · exact Or.inr (h ▸ List.mem_cons_self)
      · rcases mem_alistSet rest k v x h with h | h
        · exact Or.inl h
        · exact Or.inr (List.mem_cons_of_mem _ h)

theorem plain_setViewRec {c : Cas} {n : String} {v : View} (hc : Plain c)
    (hv : v.sofa.arr = .none ∧ v.sofa.uri = none) : Plain (Cas.setViewRec c n v) := by
  intro nv hnv
  rcases mem_alistSet _ _ _ _ hnv with h | h
  · subst h; exact hv
  · exact hc nv h

theorem plain_of_views {c c' : Cas} (hc : Plain c) (h : c'.views = c.views) : Plain c' := by
  intro nv hnv
  rw [h] at hnv
  exact hc nv hnv

theorem plain_cur {c : Cas} {h : Handle} {v : View} (hc : Plain c) (hv : Cas.cur c h = .ok v) :
    v.sofa.arr = .none ∧ v.sofa.uri = none := by
  unfold Cas.cur at hv
  cases hg : Cas.getViewRec c h.view with
  | none => rw [hg] at hv; cases hv
  | some w =>
    rw [hg] at hv
    cases hv
    exact hc _ (alistGet?_mem _ _ _ hg)

theorem plain_updSofa {c c' : Cas} {h : Handle} {f : Sofa → Sofa} (hc : Plain c)
    (hf : ∀ s, (f s).arr = s.arr ∧ (f s).uri = s.uri) (hu : Cas.updSofa c h f = .ok c') : Plain c' := by
  unfold Cas.updSofa at hu
  obtain ⟨v, hv, hu⟩ := bind_ok hu
  cases hu
  have := plain_cur hc hv
  apply plain_setViewRec hc
  simp only [(hf v.sofa).1, (hf v.sofa).2]
  exact this

theorem plain_addView {c : Cas} {name : String} {xid num : Option Int} (hc : Plain c) :
    Plain (Cas.addView c name xid num) := by
  unfold Cas.addView
  cases xid <;> cases num <;> exact plain_setViewRec (plain_of_views hc rfl) ⟨rfl, rfl⟩

theorem plain_empty : Plain Cas.empty := by
  unfold Cas.empty
  apply plain_addView
  intro nv hnv
  cases hnv

theorem plain_createView {c c' : Cas} {h h' : Handle} {name : String} {xid num : Option Int} (hc : Plain c)
    (hv : Cas.createView c h name xid num = .ok (c', h')) : Plain c' := by
  unfold Cas.createView at hv
  split at hv
  · cases hv
  · cases hv
    exact plain_addView hc

theorem plain_add {ts : TypeSystem} {ci : Nat} {c c' : Cas} {hp hp' : Heap} {h : Handle} {a : Nat} {k : Bool}
    (hc : Plain c) (hv : Cas.add ts ci c hp h a k = .ok (c', hp')) : Plain c' := by
  obtain ⟨o, v, x, c1, e, -, -, hg, hc1, -, rfl, -⟩ := Cas.add_cases hv
  have hpv := hc _ (alistGet?_mem _ _ _ hg)
  have h1 : Plain c1 := by
    rcases hc1 with ⟨-, -, rfl⟩ | ⟨-, -, rfl⟩
    · exact hc
    · exact plain_of_views hc rfl
  exact plain_setViewRec h1 hpv

theorem plain_addMembers {ts : TypeSystem} {ci : Nat} {h : Handle} {conv : Offsets.Conv} {sofas : List (Int × PSofa)}
    {lenientIds : List Int} {fss : List (Int × Nat)} :
    ∀ (ms : List Int) (b b' : Build), Plain b.cas →
      addMembers ts ci h conv sofas lenientIds fss ms b = .ok b' → Plain b'.cas
  | [], b, b', hb, hr => by
    unfold addMembers at hr
    cases hr
    exact hb
  | m :: ms, b, b', hb, hr => by
    unfold addMembers at hr
    split at hr
    · exact plain_addMembers ms b b' hb hr
    · split at hr
      · cases hr
      · split at hr
        · cases hr
        · simp only at hr
          split at hr
          · cases hr
          · split at hr
            · cases hr
            · rename_i hadd
              exact plain_addMembers ms _ b' (plain_add hb hadd) hr

theorem plain_buildView {ts : TypeSystem} {ci : Nat} {lenient : Bool} {p : Pass1} {s : PSofa} {b b' : Build}
    (hb : Plain b.cas) (hr : buildView ts ci lenient p s b = .ok b') : Plain b'.cas := by
  unfold buildView at hr
  simp only at hr
  split at hr
  · cases hr
  · rename_i c1 hc1
    have h1 : Plain c1 := by
      split at hc1
      · exact plain_updSofa hb (by intro _; exact ⟨rfl, rfl⟩) hc1
      · split at hc1
        · cases hc1
        · rename_i hcv
          cases hc1
          exact plain_createView hb hcv
    split at hr
    · cases hr
    · rename_i c2 hc2
      have h2 : Plain c2 := plain_updSofa h1 (by intro _; exact ⟨rfl, rfl⟩) hc2
      exact plain_addMembers _ _ _ h2 hr

theorem plain_buildViews {ts : TypeSystem} {ci : Nat} {lenient : Bool} {p : Pass1} :
    ∀ (l : List (Int × PSofa)) (b b' : Build), Plain b.cas → buildViews ts ci lenient p l b = .ok b' → Plain b'.cas
  | [], b, b', hb, hr => by
    unfold buildViews at hr
    cases hr
    exact hb
  | (_, s) :: rest, b, b', hb, hr => by
    unfold buildViews at hr
    split at hr
    · cases hr
    · rename_i b1 hb1
      exact plain_buildViews rest b1 b' (plain_buildView hb hb1) hr

theorem plain_buildCas {K : Consts} {ts : TypeSystem} {ci : Nat} {lenient : Bool} {p : Pass1} {hp : Heap} {ld : Xmi.Loaded}
    (hr : buildCas K ts ci lenient p hp = .ok ld) : Plain ld.cas := by
  unfold buildCas at hr
  split at hr
  · cases hr
  · rename_i b0 hb0
    have h0 : Plain b0.cas := plain_buildViews _ _ _ plain_empty hb0
    split at hr
    · cases hr
    · simp only at hr
      split at hr
      · cases hr
      · cases hr
        exact plain_of_views h0 rfl

theorem loadXmi_plain {K : Consts} {ts : TypeSystem} {tsIdx ci : Nat} {lenient : Bool} {hp : Heap} {doc : XDoc}
    {ld : Xmi.Loaded} (h : loadXmi K ts tsIdx ci lenient hp doc = .ok ld) :
    ∀ nv ∈ ld.cas.views, nv.2.sofa.arr = .none ∧ nv.2.sofa.uri = none := by
  unfold loadXmi at h
  obtain ⟨p, -, h⟩ := bind_ok h
  obtain ⟨hp2, -, h⟩ := bind_ok h
  exact plain_buildCas h

end Cassis.Chain
