/-
Non-vacuity of `chain_xmi_json_coll` (`Properties/C16ChainColl.lean.proposed`): the test `chainCollAppliesB`
(`Spec/ChainCollCheck.lean`) answers `true` on the hand-built instance `CollDemo` (every collection kind, inlined and
shared), hence — by `chainCollAppliesB_hyps` (`Proofs/ChainCollCheck.lean`) — every hypothesis of the theorem holds
there.  The kernel evaluates the whole test (`saveXmi` and all checkers, `collTypesOkB` included) by `decide +kernel`.

The counterexamples for the two added hypotheses are evaluated in `Spec/ChainCollCheck.lean` (`#eval`; the chain runs
both readers, whose string primitives do not reduce in the kernel); here the kernel checks the *test* on them: the
hypotheses of the statement as first given hold (`chainBaseB`), the added one fails.
-/
import CassisModel.Proofs.ChainCollCheck

namespace Cassis.Json
open Cassis.Xmi

/-- the test applies to the demo instance -/
theorem chainCollDemo_applies : chainCollAppliesB CollDemo.K CollDemo.ts [CollDemo.cas] 0 CollDemo.hp = true := by
  decide +kernel

/-- the generated constants and the demo type system (built-in types plus `x.Doc`) satisfy `CollTypesOk` -/
theorem collDemo_types : CollTypesOk CollDemo.K CollDemo.ts := collTypesOkB_sound _ _ (by decide +kernel)

/-- … as do the generated constants and the built-in type system -/
theorem builtin_types : CollTypesOk Gen.consts Gen.builtinTS := collTypesOkB_sound _ _ (by decide +kernel)

/-- counterexample for `harr`: every hypothesis of the statement as first given holds, `harr` fails
    (the chain ends with a different `elements`: `ChainDemo.cx_obj_elements_none`, evaluated) -/
example : chainBaseB CollDemo.K CollDemo.ts [CollDemo.cas] 0
    (CollDemo.hp.set 24 (CollDemo.arr "uima.cas.IntegerArray" .none)) = true := by decide +kernel
example : chainCollAppliesB CollDemo.K CollDemo.ts [CollDemo.cas] 0
    (CollDemo.hp.set 24 (CollDemo.arr "uima.cas.IntegerArray" .none)) = false := by decide +kernel

/-- counterexample for `htys`: `collTypesOkB` fails for the type system without `uima.cas.NonEmptyIntegerList` (that
    the hypotheses of the statement as first given hold there and the chain raises is evaluated:
    `ChainDemo.cx_missing_node_type`; `getType` on a missing name does not reduce in the kernel) -/
example : collTypesOkB CollDemo.K (ChainDemo.tsWithout "uima.cas.NonEmptyIntegerList") = false := by decide +kernel

/-- the test of the converse chain applies to the demo instance -/
theorem chainJXDemo_applies : chainJXAppliesB CollDemo.K CollDemo.ts [CollDemo.cas] 0 CollDemo.hp = true := by
  decide +kernel

end Cassis.Json
