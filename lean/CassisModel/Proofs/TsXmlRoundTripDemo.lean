/-
Non-vacuity of the C12 round-trip statements: a concrete history (a chain declared subtypes-first in the emitted
descriptor, a padded and an empty description, a feature named `self`, an array feature with an element type declared
later; no name carries surrounding whitespace) satisfies every hypothesis.  The history is evaluated on the kernel-reducible copy `createFeatureS`.
-/
import CassisModel.Proofs.TsXmlRoundTrip
import CassisModel.Spec.TsXmlRoundTripCheck

namespace Cassis.TsXml.Demo
open Cassis.TS Cassis.TsXml Cassis.TsXml.Check

/-- `applyOp` on the structurally recursive copy of `createFeature` -/
def applyOpS (K : Consts) (ts : TypeSystem) : TsOp → TypeSystem
  | .createType n s d =>
    if hasExact ts n then ts
    else match createType K ts n s d with
      | .ok ts' => ts'
      | .error _ => ts
  | .createFeature dom n r e d m =>
    match createFeatureS ts dom n r e d m with
    | .ok ts' => ts'
    | .error _ => ts

theorem applyOp_eq_S (K : Consts) : applyOp K = applyOpS K := by
  funext ts op
  cases op <;> simp only [applyOp, applyOpS, createFeature_eq_S] <;> rfl

theorem noShadowB_sound (ts : TypeSystem) (h : noShadowB ts = true) : NoShadow ts := by
  intro t ht f hf g hg
  have := List.all_eq_true.mp (List.all_eq_true.mp (List.all_eq_true.mp h t ht) f hf) g hg
  simpa using this

/-- `StrippedNames` with the kernel-evaluable padding test `noPad` -/
def strippedNamesK (ts : TypeSystem) : Bool :=
  ts.types.all (fun t => Gen.consts.predefined.contains t.name || t.name == DOCUMENT_ANNOTATION ||
    (noPad t.name && t.own.all (fun f => noPad (renderFeat f).name)))

theorem strippedNamesK_sound (ts : TypeSystem) (h : strippedNamesK ts = true) : StrippedNames Gen.consts ts := by
  intro t ht hp hd
  have := List.all_eq_true.mp h t ht
  simp only [hp, Bool.false_or, Bool.or_eq_true, beq_iff_eq, hd, false_or, Bool.and_eq_true] at this
  exact ⟨strip_of_noPad this.1, fun f hf => strip_of_noPad (List.all_eq_true.mp this.2 f hf)⟩

def demoOps : List TsOp :=
  [.createType "x.A" ANNOTATION (some "  padded  "), .createType "x.B" "x.A" (some ""), .createType "a.C" "x.B" none,
   .createFeature "x.A" "self" "a.C" none (some " d ") (some true),
   .createFeature "a.C" "arr" "uima.cas.FSArray" (some "x.B") none none]

/-- what `to_xml` emits for the history: the subtype `a.C` first -/
def demoD : Descriptor :=
  [{ name := "a.C", super := "x.B",
     feats := [{ name := "arr", range := "uima.cas.FSArray", elem := some "x.B" }] },
   { name := "x.A", descr := some "  padded  ", super := "uima.tcas.Annotation",
     feats := [{ name := "self", descr := some " d ", range := "a.C", multi := some true }] },
   { name := "x.B", super := "x.A" }]

/-- another declaration order -/
def demoD' : Descriptor := [demoD[2]!, demoD[0]!, demoD[1]!]

theorem demo_user : UserOnlyNoDoc Gen.consts demoOps := by
  refine ⟨?_, ?_⟩
  · show Gen.consts.predefined.contains "x.A" = false ∧ "x.A".contains '.' = true ∧
      (Gen.consts.predefined.contains "a.C" = false ∧ "a.C".contains '.' = true ∧ True)
    exact ⟨by decide, by simp, by decide, by simp, trivial⟩
  · intro op hop
    simp only [demoOps, List.mem_cons, List.not_mem_nil, or_false] at hop
    rcases hop with rfl | rfl | rfl | rfl | rfl
    · trivial
    · trivial
    · trivial
    · show "x.A" ≠ DOCUMENT_ANNOTATION
      decide
    · show "a.C" ≠ DOCUMENT_ANNOTATION
      decide

theorem demo_noShadow : NoShadow (demoOps.foldl (applyOp Gen.consts) Gen.builtinTS) := by
  rw [applyOp_eq_S]
  exact noShadowB_sound _ (by decide +kernel)

theorem demo_stripped : StrippedNames Gen.consts (demoOps.foldl (applyOp Gen.consts) Gen.builtinTS) := by
  rw [applyOp_eq_S]
  exact strippedNamesK_sound _ (by decide +kernel)

theorem demo_descriptor : toDescriptor Gen.consts (demoOps.foldl (applyOp Gen.consts) Gen.builtinTS) = .ok demoD := by
  rw [applyOp_eq_S]
  apply ok_of_toOption
  decide +kernel

theorem demo_perm : demoD'.Perm demoD := by
  show [demoD[2]!, demoD[0]!, demoD[1]!].Perm [demoD[0]!, demoD[1]!, demoD[2]!]
  exact (List.Perm.swap _ _ _).trans (List.Perm.cons _ (List.Perm.swap _ _ _))

/-- the first statement applies to the example -/
theorem demo_roundtrip :
    ∃ ts', load Gen.consts demoD' = .ok ts' ∧
      SameXml (demoOps.foldl (applyOp Gen.consts) Gen.builtinTS) ts' ∧
      toDescriptor Gen.consts ts' = .ok (demoD.map trimT) :=
  tsxml_roundtrip_aux demoOps demo_user demo_noShadow demo_stripped demoD demoD' demo_descriptor demo_perm

/-- redeclared built-in types and a redeclared DocumentAnnotation, mixed into the descriptor -/
def demoPre : Descriptor :=
  [docEntry, renderType ((find? Gen.builtinTSNoDoc "uima.cas.FSArray").getD default),
   renderType ((find? Gen.builtinTSNoDoc "uima.cas.ArrayBase").getD default),
   renderType ((find? Gen.builtinTSNoDoc "uima.tcas.Annotation").getD default)]

theorem demo_pre : ∀ e ∈ demoPre, (Gen.consts.predefined.contains e.name = true ∧
    (find? Gen.builtinTSNoDoc e.name).map renderType = some e) ∨ e = docEntry := by
  have : demoPre.all (fun e => (Gen.consts.predefined.contains e.name &&
      decide ((find? Gen.builtinTSNoDoc e.name).map renderType = some e)) || decide (e = docEntry)) = true := by
    decide +kernel
  intro e he
  have := List.all_eq_true.mp this e he
  simp only [Bool.or_eq_true, Bool.and_eq_true, decide_eq_true_eq] at this
  exact this

theorem demo_pre_notop : ∀ e ∈ demoPre, e.name ≠ TOP := by
  have : demoPre.all (fun e => e.name != TOP) = true := by decide +kernel
  intro e he
  simpa using List.all_eq_true.mp this e he

theorem demo_pre_nodup : demoPre.Nodup := by decide +kernel

theorem demo_redeclared :
    ∃ ts' preOut, load Gen.consts (demoD' ++ demoPre) = .ok ts' ∧
      SameXml (demoOps.foldl (applyOp Gen.consts) Gen.builtinTS) ts' ∧
      toDescriptor Gen.consts ts' = .ok (preOut ++ demoD.map trimT) ∧
      preOut.map (·.name) = sortStrs (demoPre.map (·.name)).eraseDups ∧
      ∀ e ∈ preOut, (find? Gen.builtinTSNoDoc e.name).map renderType = some e ∨ e = docEntry :=
  tsxml_roundtrip_core demoOps demo_user demo_noShadow demo_stripped demoD (demoD' ++ demoPre) demoPre demo_descriptor
    demo_pre demo_pre_notop demo_pre_nodup
    ((List.perm_append_comm).trans (List.Perm.append_left _ demo_perm))

/-! ### recorded counterexamples, checked by the kernel -/

/-- forces `hnt` (`Check.counterTop`): the redeclaration of `uima.cas.TOP` has the supertype `""` -/
theorem counterTop_keyError :
    (match counterTop with | .ok _ => none | .error e => some e) = some Err.keyError := by
  have hd : ["uima.cas.TOP"].filterMap Check.builtinEntry = [{ name := "uima.cas.TOP", super := "" }] := by
    decide +kernel
  unfold counterTop load normalize
  rw [hd, List.map_cons, List.map_nil, stripT_of_noPad_nodescr (by decide) rfl (by decide)]
  decide +kernel

/-- forces `StrippedNames` (`Check.hPadType`): the other hypotheses hold, the history has a padded type name -/
theorem counterPadType_hyps : UserOnlyNoDoc Gen.consts hPadType ∧ NoShadow (hPadType.foldl (applyOp Gen.consts) Gen.builtinTS) := by
  refine ⟨⟨trivial, ?_⟩, ?_⟩
  · intro op hop
    simp only [hPadType, List.mem_singleton] at hop
    subst hop
    trivial
  · rw [applyOp_eq_S]
    exact noShadowB_sound _ (by decide +kernel)

end Cassis.TsXml.Demo
