/-
C20 across the JSON round trip, whole format: the hypothesis "the default traversal of the original succeeds" of
`render_json_roundtrip_coll` follows from the other hypotheses whenever the constants do not classify `uima.cas.FSList`
as an array type (`default_traversal_succeeds_aux`).

Why the proviso: the fragment `JCollFs` asks that the spine of an inlined list ends (J2) only where the content function
unrolls it (`isArray K f.range = false`); the default traversal walks the spine of an inlined `FSList` feature whatever
`K` says.  True for the generated constants; `K` is an arbitrary record in the theorems.
-/
import CassisModel.Proofs.ComparableIsoJsonColl
import CassisModel.Proofs.ChainCollTravGen
import CassisModel.Proofs.RoundTripCollTrav

namespace Cassis.Comparable
open Cassis.TS Cassis.Traverse Cassis.Xmi Cassis.Json Cassis.Json.CC

section
variable {K : Consts} {ts : TypeSystem} {c : Cas} {ci : Nat} {H : Heap} {L : List (Int × Nat)} {ci' : Nat} {HF : Heap}

/-- the successor computation of the default traversal succeeds on one feature of a general structure -/
theorem dfeature_ok (hK : isArray K FS_LIST = false) {a : Nat} {o : Obj} (ho : H[a]? = some o) {isAnn : Bool}
    {f : Feature} (hf : JFeatOk K ts c ci H isAnn o f) :
    ∃ r, featureSuccs K ts {} H [] (H.length + 1) a f = .ok r := by
  obtain ⟨_, _, _, _, _, v, hv, hcase⟩ := hf
  have hslot : Traverse.slot H a f.name = some v := jslot_of ho hv
  unfold featureSuccs
  rcases hcase with ⟨hn, _⟩ | ⟨hn, hprim, _⟩ | ⟨hn, hprim, _, _, _, hval⟩
  · simp only [hn, beq_self_eq_true, if_true]
    exact ⟨_, rfl⟩
  · have hn' : (f.name == "sofa") = false := by simpa using hn
    simp only [hn', hprim, Bool.false_eq_true, if_false, if_true]
    exact ⟨_, rfl⟩
  · have hn' : (f.name == "sofa") = false := by simpa using hn
    rcases hval with rfl | ⟨b, rfl, hsp⟩
    · simp only [hn', hprim, hslot, Bool.false_eq_true, if_false]
      exact ⟨_, rfl⟩
    · simp only [hn', hprim, hslot, Bool.false_eq_true, if_false]
      by_cases hc : (!({} : Traverse.Opts).includeInlinable && !(f.multi.getD false) &&
          (isArray K f.range || isList K f.range)) = true
      · rw [if_pos hc]
        by_cases hfa : (f.range == FS_ARRAY) = true
        · rw [if_pos hfa]
          have h1 := featureSuccs_fsarr (K := K) (ts := ts) (lf := H.length + 1) hn' hprim hslot hc hfa
          unfold featureSuccs at h1
          simp only [hn', hprim, hslot, Bool.false_eq_true, if_false] at h1
          rw [if_pos hc, if_pos hfa] at h1
          exact ⟨_, h1⟩
        · rw [if_neg hfa]
          by_cases hfl : (f.range == FS_LIST) = true
          · rw [if_pos hfl]
            have hinl : Xmi.isInline K f = true := by
              unfold Xmi.isInline
              simpa using hc
            have hna : isArray K f.range = false := by rw [eq_of_beq hfl]; exact hK
            obtain ⟨hs, hcs⟩ := hsp hinl hna
            obtain ⟨ps, n, hw, _⟩ := CT.walkList_collect H _ _ hs hcs
            rw [hw]
            exact ⟨_, rfl⟩
          · rw [if_neg hfl]
            exact ⟨_, rfl⟩
      · rw [if_neg hc]
        simp only [seenId_nil, Bool.false_eq_true, if_false]
        exact ⟨_, rfl⟩

theorem dfeatures_ok (hK : isArray K FS_LIST = false) {a : Nat} {o : Obj} (ho : H[a]? = some o) {isAnn : Bool} :
    ∀ (fs : List Feature), (∀ f ∈ fs, JFeatOk K ts c ci H isAnn o f) →
      ∃ r, featuresSuccs K ts {} H [] (H.length + 1) a fs = .ok r
  | [], _ => ⟨_, rfl⟩
  | f :: fs, hall => by
    obtain ⟨r1, h1⟩ := dfeature_ok hK ho (hall f List.mem_cons_self)
    obtain ⟨r2, h2⟩ := dfeatures_ok hK ho fs (fun g hg => hall g (List.mem_cons_of_mem _ hg))
    unfold featuresSuccs
    simp only [bind, Except.bind, pure, Except.pure, h1, h2]
    exact ⟨_, rfl⟩

/-- … on a structure of the JSON fragment -/
theorem dnode_ok (hK : isArray K FS_LIST = false) {a : Nat} (hcoll : JCollFs K ts c ci H a) :
    ∃ (o : Obj) (t : TypeRec) (r : List Nat × Nat), H[a]? = some o ∧ getType ts o.ty = .ok t ∧
      nodeSuccs K ts {} H [] (H.length + 1) a t = .ok r := by
  rcases hcoll.1 with hg | ha
  · obtain ⟨o, t, ho, ht, _, _, _, hsup, _, _, _, _, _, _, _, hfeat, _⟩ := hg
    have hs : (t.super == some ARRAY_BASE) = false := by
      cases hh : (t.super == some ARRAY_BASE)
      · rfl
      · exact absurd (eq_of_beq hh) hsup
    obtain ⟨r, hr⟩ := dfeatures_ok hK ho (allFeatures t) hfeat
    refine ⟨o, t, r, ho, getType_of_find ht, ?_⟩
    unfold nodeSuccs
    rw [hs]
    exact hr
  · obtain ⟨o, t, f, ev, ho, ht, _, hsup, _, _, _, _, _, _, _⟩ := ha
    have hs : (t.super == some ARRAY_BASE) = true := by rw [hsup]; exact beq_self_eq_true _
    by_cases hfa : (t.name == FS_ARRAY) = true
    · exact ⟨o, t, _, ho, getType_of_find ht, nodeSuccs_fsarr hs hfa⟩
    · refine ⟨o, t, ([], 0), ho, getType_of_find ht, ?_⟩
      unfold nodeSuccs
      rw [hs]
      simp only [if_true]
      rw [if_neg hfa]

/-- **the default traversal of the original succeeds** -/
theorem default_traversal_succeeds_of_jw (hK : isArray K FS_LIST = false) {hp : Heap}
    (x : JW K ts c ci H L ci' HF) (hwf : RTWf c hp) (sh : SameShape hp H) :
    ∃ std : St, findAllFs K ts {} hp c.nextXid (defaultSeeds c) = .ok std := by
  have hbelow := (idsBelow_iff hp c.nextXid).mp hwf.ids_below
  obtain ⟨std, hfa, _⟩ := findAllFs_succeeds_gen K ts {} rfl hp c.nextXid (defaultSeeds c) (InL H L)
    (by
      intro a ha
      obtain ⟨nv, hnv, ha⟩ := List.mem_flatMap.mp ha
      obtain ⟨e, he, rfl⟩ := List.mem_map.mp ha
      obtain ⟨y, hy⟩ := x.lok.members nv hnv e he
      exact ⟨y, (x.lok.ids _ hy).1, hy⟩)
    (by
      intro a ha
      obtain ⟨q, hq, rfl, _⟩ := inL_pair ha
      obtain ⟨o, t, r, ho, ht, hn⟩ := dnode_ok hK (x.lok.coll q hq)
      obtain ⟨ob, hob, hty, _⟩ := sh.get_back ho
      refine ⟨ob, t, r.1, r.2, hob, by rw [← hty]; exact ht, ?_, ?_⟩
      · rw [nodeSuccs_nil_eq K ts {} hp H (fun a n => (sh.slot a n).symm), ← sh.1]
        exact hn
      · exact (x.sim_node hq ho ht (Nat.le_refl _) (ps := r.1) (n := r.2) hn).1)
    (fun a _ y hy => hbelow a y hy)
    (by
      intro a b ha hb y hya hyb
      obtain ⟨qa, hqa, rfl, hxa⟩ := inL_pair ha
      obtain ⟨qb, hqb, rfl, hxb⟩ := inL_pair hb
      rw [sh.xidOf hya] at hxa
      rw [sh.xidOf hyb] at hxb
      have e : qa.1 = qb.1 := by rw [← Option.some.inj hxa, ← Option.some.inj hxb]
      rw [pair_eq_of_nodup_fst L x.lok.nodup qa hqa qb hqb e])
    hwf.next_pos
    (by
      intro a _ h0
      unfold xidOf at h0
      cases hob : hp[a]? with
      | none => rw [hob] at h0; cases h0
      | some ob =>
        rw [hob] at h0
        have := hwf.ids_pos a ob 0 hob h0
        omega)
  exact ⟨std, hfa⟩

end

theorem default_traversal_succeeds_aux (K : Consts) (ts : TypeSystem) (cass : List Cas) (ci : Nat) (c : Cas) (hp : Heap)
    (doc : JDoc) (st : St)
    (hc : cass[ci]? = some c) (hwf : RTWf c hp)
    (hsave : saveJson K ts cass ci hp .none = .ok (doc, st))
    (hcoll : ∀ q ∈ st.allFs, JCollFs K ts c ci st.heap q.2)
    (hids : ∀ nv ∈ c.views, ∀ e ∈ Index.all nv.2.idx, (xidOf hp e.oid).isSome = true)
    (hdis : ∀ q ∈ st.allFs, ∀ nv ∈ c.views, q.1 ≠ nv.2.sofa.xid)
    (hmem : ∀ nv ∈ c.views, ∀ e ∈ Index.all nv.2.idx, Xmi.slot st.heap e.oid "sofa" ≠ some .none)
    (hmok : MembersOk c st.heap)
    (hK : isArray K FS_LIST = false) :
    ∃ std : St, findAllFs K ts {} hp c.nextXid (defaultSeeds c) = .ok std := by
  obtain ⟨ld, _, _, jw, sh, _⟩ :=
    json_roundtrip_coll_jw K ts cass ci c hp 0 doc st hc hwf hsave hcoll hids hdis hmem hmok
  exact default_traversal_succeeds_of_jw hK jw hwf sh

end Cassis.Comparable
