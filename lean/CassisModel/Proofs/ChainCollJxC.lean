/-
C16 with collections, the converse chain, part C: the traversal of the XMI writer (options `{}`) on the CAS loaded from
JSON succeeds without touching the heap, what it collects satisfies `LOkC`, and it contains the counterpart of every
structure the XMI writer would collect from the CAS that was written first.
-/
import CassisModel.Proofs.ChainCollJxB
import CassisModel.Proofs.ChainCollLoadedG

namespace Cassis.ChainC
open Cassis.TS Cassis.Traverse Cassis.Xmi Cassis.Lex Cassis.Json Cassis.Json.CC

section
variable {K : Consts} {ts : TypeSystem} {c : Cas} {ci : Nat} {H : Heap} {L : List (Int × Nat)} {ci' : Nat}
  {ld : Json.Loaded}

/-- a reference in a slot of a counterpart points to a counterpart -/
theorem JLd.new_ref (x : JLd K ts c ci H L ci' ld) {q : Int × Nat} (hq : q ∈ L) {n : String} {b : Nat}
    (h : Xmi.slot ld.heap (naOf H L q.1) n = some (.ref b)) : ∃ q' ∈ L, b = naOf H L q'.1 := by
  rw [slot_new x.rel hq n] at h
  cases hv : Xmi.slot H q.2 n with
  | none => rw [hv] at h; cases h
  | some v =>
    rw [hv] at h
    simp only [Option.map_some, Option.some.injEq] at h
    by_cases hrf : ∃ b0, v = .ref b0
    · obtain ⟨b0, rfl⟩ := hrf
      obtain ⟨q', hq', _, hy⟩ := x.slot_ref hq hv
      rw [exp3J_ref hy] at h
      cases h
      exact ⟨q', hq', rfl⟩
    · exact absurd h (exp3J_not_ref H _ ci' v (fun b0 e => hrf ⟨b0, e⟩) b)

theorem JLd.new_elems (x : JLd K ts c ci H L ci' ld) {q : Int × Nat} (hq : q ∈ L) {l' : List (Option Nat)}
    (h : Xmi.slot ld.heap (naOf H L q.1) "elements" = some (.refs l')) : ∀ b, some b ∈ l' → ∃ q' ∈ L, b = naOf H L q'.1 := by
  rw [slot_new x.rel hq "elements"] at h
  cases hv : Xmi.slot H q.2 "elements" with
  | none => rw [hv] at h; cases h
  | some v =>
    rw [hv] at h
    simp only [Option.map_some, Option.some.injEq] at h
    obtain ⟨o, ho, hel⟩ : ∃ o, H[q.2]? = some o ∧ alistGet? o.slots "elements" = some v := by
      unfold Xmi.slot Traverse.slot at hv
      cases ho : H[q.2]? with
      | none => rw [ho] at hv; cases hv
      | some o => rw [ho] at hv; exact ⟨o, rfl, hv⟩
    cases v with
    | refs l =>
      simp only [exp3J, elemsExpJ, Val.refs.injEq] at h
      subst h
      intro b hb
      obtain ⟨r, hr, e⟩ := List.mem_map.mp hb
      cases r with
      | none => cases e
      | some b0 =>
        obtain ⟨y, hy, hyl⟩ := x.lok.closedE q hq o ho l hel b0 hr
        simp only [Option.bind_some, hy, Option.map_some, Option.some.injEq] at e
        exact ⟨(y, b0), hyl, e.symm⟩
    | ints l => simp only [exp3J, elemsExpJ] at h; split at h <;> cases h; intro b hb; cases hb
    | bools l => simp only [exp3J, elemsExpJ] at h; split at h <;> cases h; intro b hb; cases hb
    | floats l => simp only [exp3J, elemsExpJ] at h; split at h <;> cases h; intro b hb; cases hb
    | strs l => simp only [exp3J, elemsExpJ] at h; split at h <;> cases h; intro b hb; cases hb
    | ref a => simp only [exp3J, exp3] at h; split at h <;> cases h
    | _ => cases h

theorem JLd.new_heads (x : JLd K ts c ci H L ci' ld) : ∀ (f : Nat) (q : Int × Nat) (hs : List Val), q ∈ L →
    collectList ld.heap f (.ref (naOf H L q.1)) = .ok hs → ∀ b, Val.ref b ∈ hs → ∃ q' ∈ L, b = naOf H L q'.1
  | 0, _, _, _, h, _, _ => by simp [collectList] at h
  | f+1, q, hs, hq, h, b, hb => by
    unfold collectList at h
    cases hh : Xmi.slot ld.heap (naOf H L q.1) "head" with
    | none =>
      rw [hh] at h
      cases h
      cases hb
    | some hd =>
      rw [hh] at h
      simp only [bind, Except.bind, pure, Except.pure] at h
      cases hr : collectList ld.heap f ((Xmi.slot ld.heap (naOf H L q.1) "tail").getD .none) with
      | error e => rw [hr] at h; cases h
      | ok rest =>
        rw [hr] at h
        cases h
        rcases List.mem_cons.mp hb with hb | hb
        · subst hb
          exact x.new_ref hq hh
        · cases ht : Xmi.slot ld.heap (naOf H L q.1) "tail" with
          | none =>
            rw [ht] at hr
            obtain ⟨e, _⟩ := collectList_nonref ld.heap ld.heap f .none .none rest (by intro b h; cases h)
              (by intro b h; cases h) hr
            rw [e] at hb
            cases hb
          | some vt =>
            rw [ht] at hr
            simp only [Option.getD_some] at hr
            by_cases hrf : ∃ b', vt = .ref b'
            · obtain ⟨b', rfl⟩ := hrf
              obtain ⟨q', hq', rfl⟩ := x.new_ref hq ht
              exact x.new_heads f q' rest hq' hr b hb
            · have hnr : ∀ b', vt ≠ .ref b' := fun b' e => hrf ⟨b', e⟩
              obtain ⟨e, _⟩ := collectList_nonref ld.heap ld.heap f vt vt rest hnr hnr hr
              rw [e] at hb
              cases hb

/-- the pushes of a counterpart are counterparts -/
theorem JLd.succs_new (x : JLd K ts c ci H L ci' ld) {q : Int × Nat} (hq : q ∈ L) :
    ∃ (ob : Obj) (t : TypeRec) (ps : List Nat) (n : Nat), ld.heap[naOf H L q.1]? = some ob ∧ ob.xid = some q.1 ∧
      getType ts ob.ty = .ok t ∧ nodeSuccs K ts {} ld.heap [] (ld.heap.length + 1) (naOf H L q.1) t = .ok (ps, n) ∧
      (∀ b, Target K ts ld.heap (naOf H L q.1) b → b ∈ ps) ∧ ∀ b ∈ ps, ∃ q' ∈ L, b = naOf H L q'.1 := by
  have hcoll := x.coll_new hq
  obtain ⟨o1, t, ps, n, ho1, ht, hnode, hm⟩ := CT.nodeSuccs_coll hcoll
  obtain ⟨_, oN, _, hoN, _, hxN, _, _⟩ := x.obj hq
  have e1 : oN = o1 := by rw [hoN] at ho1; exact Option.some.inj ho1
  subst e1
  have hx := hxN
  refine ⟨oN, t, ps, n, hoN, hx, Cassis.Xmi.getType_of_find ht, hnode, hm, fun b hb => ?_⟩
  have hslot : ∀ m v, alistGet? oN.slots m = some v → Xmi.slot ld.heap (naOf H L q.1) m = some v := by
    intro m v hv
    unfold Xmi.slot Traverse.slot
    rw [hoN]
    exact hv
  rcases hcoll with hg | hA
  · obtain ⟨o2, t2, ho2, ht2, _, _, _, hsup, _, _, _, _, _, hnd, _, hfeat, _⟩ := hg
    rw [hoN] at ho2; cases ho2
    rw [ht] at ht2; cases ht2
    have hfs : featuresSuccs K ts {} ld.heap [] (ld.heap.length + 1) (naOf H L q.1) (allFeatures t) = .ok (ps, n) := by
      unfold nodeSuccs at hnode
      have : (t.super == some ARRAY_BASE) = false := by
        cases hh : (t.super == some ARRAY_BASE)
        · rfl
        · exact absurd (eq_of_beq hh) hsup
      rw [this] at hnode
      exact hnode
    obtain ⟨f, hf, hsrc⟩ := featuresSuccs0_sub hoN _ _ _ hfs b hb
    rcases hsrc with ⟨_, hv⟩ | ⟨_, _, cc, l, hv, hel, hbl⟩ | ⟨hi, hr, cc, ps', n', hv, hw, hbp⟩
    · exact x.new_ref hq (hslot _ _ hv)
    · obtain ⟨q', hq', rfl⟩ := x.new_ref hq (hslot _ _ hv)
      exact x.new_elems hq' hel b hbl
    · obtain ⟨q', hq', rfl⟩ := x.new_ref hq (hslot _ _ hv)
      obtain ⟨_, _, hcol⟩ := collFeat_fslist (hfeat f hf) hi hr
      obtain ⟨hs, hcs⟩ := hcol _ hv
      exact x.new_heads _ q' hs hq' hcs b (walk_sub_collect ld.heap _ _ ps' n' hs hw hcs b hbp)
  · obtain ⟨o2, t2, f, ev, ho2, ht2, htn, hsup, _, _, _, _, hsl, _, _⟩ := hA
    rw [hoN] at ho2; cases ho2
    rw [ht] at ht2; cases ht2
    have hel : alistGet? oN.slots "elements" = some ev := by rw [hsl]; simp [alistGet?]
    have h1 : (t.super == some ARRAY_BASE) = true := by rw [hsup]; exact beq_self_eq_true _
    unfold nodeSuccs at hnode
    rw [h1] at hnode
    simp only [if_true] at hnode
    by_cases hfa : (t.name == FS_ARRAY) = true
    · rw [if_pos hfa] at hnode
      have hs : Traverse.slot ld.heap (naOf H L q.1) "elements" = some ev := hslot _ _ hel
      rw [hs] at hnode
      cases ev with
      | refs l =>
        simp only [Except.ok.injEq, Prod.mk.injEq] at hnode
        rw [← hnode.1] at hb
        exact x.new_elems hq (hslot _ _ hel) b (mem_refsToPush_nil' hb)
      | _ =>
        simp only [Except.ok.injEq, Prod.mk.injEq] at hnode
        rw [← hnode.1] at hb
        cases hb
    · rw [if_neg hfa] at hnode
      simp only [Except.ok.injEq, Prod.mk.injEq] at hnode
      rw [← hnode.1] at hb
      cases hb

theorem JLd.seed_fwd (x : JLd K ts c ci H L ci' ld) {a : Nat} (ha : a ∈ defaultSeeds ld.cas) :
    ∃ q ∈ L, a = naOf H L q.1 := by
  unfold defaultSeeds at ha
  obtain ⟨nv', hnv', ha⟩ := List.mem_flatMap.mp ha
  obtain ⟨e', he', rfl⟩ := List.mem_map.mp ha
  obtain ⟨_, _, _, e, _, i, hi, hei⟩ := x.entry hnv' he'
  exact ⟨_, hi, hei⟩

theorem JLd.seed_bwd (x : JLd K ts c ci H L ci' ld) {y : Int} {a : Nat} (hy : (y, a) ∈ L)
    (ha : a ∈ defaultSeeds c) : naOf H L y ∈ defaultSeeds ld.cas := by
  unfold defaultSeeds at ha ⊢
  obtain ⟨nv, hnv, ha⟩ := List.mem_flatMap.mp ha
  obtain ⟨e, he, rfl⟩ := List.mem_map.mp ha
  obtain ⟨nv', hnv', hr⟩ := viewsRelJ_fwd H _ _ _ x.views nv hnv
  have hperm := hr.2.2
  refine List.mem_flatMap.mpr ⟨nv', hnv', hperm.mem_iff.mpr ?_⟩
  exact List.mem_map.mpr ⟨y, mem_members.mpr ⟨e, he, (x.lok.ids _ hy).1⟩, rfl⟩

/-- **the traversal of the XMI writer on the CAS loaded from JSON** -/
theorem JLd.traversal (x : JLd K ts c ci H L ci' ld) (hnx : 0 < ld.cas.nextXid) :
    ∃ st2 : St, findAllFs K ts {} ld.heap ld.cas.nextXid (defaultSeeds ld.cas) = .ok st2 ∧ st2.heap = ld.heap ∧
      (∀ r ∈ st2.allFs, ∃ q ∈ L, r = (q.1, naOf H L q.1)) ∧
      LOkC K ts ld.cas ci' ld.heap (sortById st2.allFs) := by
  obtain ⟨st2, hfa, hheap, hsub⟩ := findAllFs_succeeds K ts {} ld.heap ld.cas.nextXid (defaultSeeds ld.cas)
    (fun a => ∃ q ∈ L, a = naOf H L q.1) (fun a ha => x.seed_fwd ha)
    (by
      rintro a ⟨q, hq, rfl⟩
      obtain ⟨ob, t, ps, n, hob, hx, hty, hns, _, hps⟩ := x.succs_new hq
      refine ⟨ob, q.1, t, hob, hx, hty, fun allFs => ⟨ps.filter (keep ld.heap allFs), n, ?_, fun b hb => ?_⟩⟩
      · rw [nodeSuccs_filter K ts {} ld.heap ld.heap (fun _ _ => rfl), hns]
        rfl
      · exact hps b (List.mem_filter.mp hb).1)
    (by
      rintro a b ⟨q, hq, rfl⟩ ⟨q', hq', rfl⟩ h
      rw [xid_new x.rel hq, xid_new x.rel hq'] at h
      rw [Option.some.inj h])
  have hall : ∀ r ∈ st2.allFs, ∃ q ∈ L, r = (q.1, naOf H L q.1) := by
    intro r hr
    obtain ⟨q, hq, hr2⟩ := hsub r hr
    have h1 := findAllFs_ids_aux K ts {} ld.heap _ _ st2 hnx hfa r.1 r.2 hr
    rw [hheap, hr2, xid_new x.rel hq] at h1
    refine ⟨q, hq, ?_⟩
    have e : q.1 = r.1 := Option.some.inj h1.1
    exact Prod.ext e.symm hr2
  have hallS : ∀ r ∈ sortById st2.allFs, ∃ q ∈ L, r = (q.1, naOf H L q.1) :=
    fun r hr => hall r (mem_sortById.mp hr)
  refine ⟨st2, hfa, hheap, hall, ?_⟩
  have hids : ∀ r ∈ sortById st2.allFs, xidOf ld.heap r.2 = some r.1 ∧ r.1 ≠ 0 := fun r hr => by
    have := findAllFs_ids_aux K ts {} ld.heap _ _ st2 hnx hfa r.1 r.2 (mem_sortById.mp hr)
    rw [hheap] at this
    exact this
  refine ⟨?_, hids, ?_, ?_, ?_⟩
  · intro r hr
    obtain ⟨q, hq, rfl⟩ := hallS r hr
    exact x.coll_new hq
  · exact ((sortById_perm_aux st2.allFs).map (·.1)).nodup_iff.mpr (findAllFs_nodup_aux K ts {} ld.heap _ _ st2 hfa).1
  · intro r hr b hb
    obtain ⟨q, hq, rfl⟩ := hallS r hr
    obtain ⟨ob, t, ps, n, hob, _, hty, hns, hm, hps⟩ := x.succs_new hq
    have hsucc : b ∈ succsOf K ts {} st2.heap (ld.heap.length + 1) (naOf H L q.1) := by
      rw [hheap, succsOf_eq K ts {} hob hty hns]
      exact hm b hb
    obtain ⟨q', hq', rfl⟩ := hps b (hm b hb)
    have hnz : xidOf st2.heap (naOf H L q'.1) ≠ some 0 := by
      rw [hheap, xid_new x.rel hq']
      intro e
      exact (x.lok.ids q' hq').2 (Option.some.inj e)
    have hbm := findAllFs_closed_aux K ts {} ld.heap _ _ st2 hnx hfa q.1 _ _ (mem_sortById.mp hr) hsucc hnz
    obtain ⟨p, hp1, hp2⟩ := List.mem_map.mp hbm
    obtain ⟨y, b'⟩ := p
    simp only at hp2
    subst hp2
    exact ⟨y, (hids (y, _) (mem_sortById.mpr hp1)).1, mem_sortById.mpr hp1⟩
  · intro nv hnv e he
    have hseed : e.oid ∈ defaultSeeds ld.cas := by
      unfold defaultSeeds
      exact List.mem_flatMap.mpr ⟨nv, hnv, List.mem_map.mpr ⟨e, he, rfl⟩⟩
    obtain ⟨q, hq, hqe⟩ := x.seed_fwd hseed
    have hnz : xidOf st2.heap e.oid ≠ some 0 := by
      rw [hheap, hqe, xid_new x.rel hq]
      intro e'
      exact (x.lok.ids q hq).2 (Option.some.inj e')
    have hbm := findAllFs_complete_aux K ts {} ld.heap _ _ st2 hnx hfa e.oid (.seed _ hseed) hnz
    obtain ⟨p, hp1, hp2⟩ := List.mem_map.mp hbm
    obtain ⟨y, b'⟩ := p
    simp only at hp2
    subst hp2
    exact ⟨y, mem_sortById.mpr hp1⟩

end

end Cassis.ChainC
