/-
Element-order independence of the XMI reader on the whole format (`Properties/C05PermColl.lean`): shared definitions.

`P1WP` is `P1W` (`RoundTripCollDefs.lean`) up to permutation, as `P1SpecP` (`LoadPermDefs.lean`) is `P1Spec` up to
permutation: the `cas:NULL` object stands at an address `n0` anywhere behind the old heap, the three tables of the first
pass are permutations of the lists the writer order would give.  Everything the later passes need from the tables is a
lookup; the lookups are derived here from the two facts about the collected structures they rest on (ids pairwise
distinct, none of them 0).
-/
import CassisModel.Proofs.LoadPermDefs
import CassisModel.Proofs.RoundTripCollDefs

namespace Cassis.Xmi.LPC
open Cassis.TS Cassis.Traverse Cassis.Lex Cassis.Xmi Cassis.Xmi.LP

/-- the state of the reader after the first pass over a permutation of the written document, without the heap
    relation (cf. `P1W`, `P1SpecP`) -/
structure P1WP (c : Cas) (H : Heap) (L : List (Int × Nat)) (na : Int → Nat) (n0 : Nat) (p : Pass1) : Prop where
  fss : p.fss.Perm ((0, n0) :: L.map (fun q => (q.1, na q.1)))
  sofas : p.sofas.Perm (c.views.map (fun nv => (nv.2.sofa.xid, psofaOf nv)))
  views : p.views.Perm (c.views.map (fun nv => (nv.2.sofa.xid, pviewOf H nv)))
  lenient : p.lenientIds = []
  null : ∃ o0 : Obj, p.heap[n0]? = some o0 ∧ o0.ty = NULL_T ∧ o0.xid = some 0 ∧ o0.slots = []

/-- ids of collected structures: pairwise distinct, not 0 -/
structure IdsOk (L : List (Int × Nat)) : Prop where
  ne0 : ∀ q ∈ L, q.1 ≠ 0
  nodup : (L.map (·.1)).Nodup

theorem idsOk_of_lokC {K : Consts} {ts : TypeSystem} {c : Cas} {ci : Nat} {H : Heap} {L : List (Int × Nat)}
    (hL : LOkC K ts c ci H L) : IdsOk L := ⟨fun q hq => (hL.ids q hq).2, hL.nodup⟩

theorem idsOk_of_lokW {ts : TypeSystem} {c : Cas} {ci : Nat} {H : Heap} {L : List (Int × Nat)}
    (hL : LOkW ts c ci H L) : IdsOk L := ⟨fun q hq => (hL.ids q hq).2, hL.nodup⟩

section
variable {c : Cas} {H : Heap} {L : List (Int × Nat)} {na : Int → Nat} {n0 : Nat} {p : Pass1}

theorem keys_nodupW (hL : IdsOk L) :
    (((0 : Int), n0) :: L.map (fun q => (q.1, na q.1))).map (·.1) |>.Nodup := by
  rw [List.map_cons, List.map_map, List.nodup_cons]
  refine ⟨?_, hL.nodup⟩
  intro h
  obtain ⟨q, hq, e⟩ := List.mem_map.mp h
  exact hL.ne0 q hq e

theorem P1WP.fss_nodup (h : P1WP c H L na n0 p) (hL : IdsOk L) : (p.fss.map (·.1)).Nodup :=
  ((h.fss.map (·.1)).nodup_iff).mpr (keys_nodupW hL)

theorem P1WP.fss_entry (h : P1WP c H L na n0 p) : ∀ r ∈ p.fss, FssEntry n0 L na r := by
  intro r hr
  have := h.fss.mem_iff.mp hr
  rcases List.mem_cons.mp this with e | e
  · exact Or.inl e
  · obtain ⟨q, hq, e⟩ := List.mem_map.mp e
    exact Or.inr ⟨q, hq, e.symm⟩

theorem P1WP.mem_fss (h : P1WP c H L na n0 p) {q : Int × Nat} (hq : q ∈ L) : (q.1, na q.1) ∈ p.fss :=
  h.fss.mem_iff.mpr (List.mem_cons_of_mem _ (List.mem_map.mpr ⟨q, hq, rfl⟩))

theorem P1WP.mem_sofas (h : P1WP c H L na n0 p) {nv : String × View} (hnv : nv ∈ c.views) :
    (nv.2.sofa.xid, psofaOf nv) ∈ p.sofas :=
  h.sofas.mem_iff.mpr (List.mem_map.mpr ⟨nv, hnv, rfl⟩)

/-- looking up the id of a collected structure -/
theorem P1WP.lookup (h : P1WP c H L na n0 p) (hL : IdsOk L) {q : Int × Nat} (hq : q ∈ L) :
    lookupFs p.fss q.1 = .ok (na q.1) := by
  rw [lookupFs_perm_aux _ _ h.fss (h.fss_nodup hL)]
  unfold lookupFs
  rw [List.find?_cons]
  have h0 : ((0 : Int) == q.1) = false := by
    have := hL.ne0 q hq
    simpa using fun e : (0 : Int) = q.1 => this e.symm
  simp only [h0]
  have := RTB.find?_map_key (fun q : Int × Nat => q.1) (fun q => na q.1) L q hq hL.nodup
  rw [this]

/-- looking up the id 0 -/
theorem P1WP.lookup0 (h : P1WP c H L na n0 p) (hL : IdsOk L) : lookupFs p.fss 0 = .ok n0 := by
  rw [lookupFs_perm_aux _ _ h.fss (h.fss_nodup hL)]
  unfold lookupFs
  rw [List.find?_cons]
  simp

/-- the sofa table is used through `find?` by id only: every such lookup agrees with the one in the writer order -/
theorem P1WP.find_sofa_any (h : P1WP c H L na n0 p) (hnd : (c.views.map (·.2.sofa.xid)).Nodup) (i : Int) :
    p.sofas.find? (fun q => q.1 == i) =
      (c.views.map (fun nv => (nv.2.sofa.xid, psofaOf nv))).find? (fun q => q.1 == i) := by
  have hn : ((c.views.map (fun nv => (nv.2.sofa.xid, psofaOf nv))).map (fun q : Int × PSofa => q.1)).Nodup := by
    rw [List.map_map]; exact hnd
  have hu := nodup_map_inj (fun q : Int × PSofa => q.1) hn
  apply find?_perm_unique _ h.sofas
  intro a ha b hb pa pb
  have e1 : a.1 = i := by simpa using pa
  have e2 : b.1 = i := by simpa using pb
  exact hu a (h.sofas.mem_iff.mp ha) b (h.sofas.mem_iff.mp hb) (e1.trans e2.symm)

/-- the sofa record with a given name (third pass) -/
theorem P1WP.find_sofa_name (h : P1WP c H L na n0 p) (hnames : ∀ nv ∈ c.views, nv.2.sofa.sofaID = nv.1)
    (hnd : (c.views.map (·.1)).Nodup) {nv : String × View} (hnv : nv ∈ c.views) :
    p.sofas.find? (fun q => q.2.sofaID == nv.1) = some (nv.2.sofa.xid, psofaOf nv) := by
  have hn : ((c.views.map (fun nv => (nv.2.sofa.xid, psofaOf nv))).map (fun q : Int × PSofa => q.2.sofaID)).Nodup := by
    rw [List.map_map]
    have : (c.views.map ((fun q : Int × PSofa => q.2.sofaID) ∘ fun nv => (nv.2.sofa.xid, psofaOf nv))) = c.views.map (·.1) :=
      List.map_congr_left (fun nv hnv => hnames nv hnv)
    rw [this]; exact hnd
  have := find?_perm_key (fun q : Int × PSofa => q.2.sofaID) h.sofas hn (nv.2.sofa.xid, psofaOf nv)
    (List.mem_map.mpr ⟨nv, hnv, rfl⟩)
  have e : (psofaOf nv).sofaID = nv.1 := hnames nv hnv
  simp only [e] at this
  exact this

/-- the members the document lists for a view -/
theorem P1WP.members_of (h : P1WP c H L na n0 p) (hnd : (c.views.map (·.2.sofa.xid)).Nodup)
    {nv : String × View} (hnv : nv ∈ c.views) :
    membersOf p.views (psofaOf nv) = (pviewOf H nv).members := by
  have hn : ((c.views.map (fun nv => (nv.2.sofa.xid, pviewOf H nv))).map (fun q : Int × PView => q.1)).Nodup := by
    rw [List.map_map]; exact hnd
  have := find?_perm_key (fun q : Int × PView => q.1) h.views hn (nv.2.sofa.xid, pviewOf H nv)
    (List.mem_map.mpr ⟨nv, hnv, rfl⟩)
  unfold membersOf
  show (match p.views.find? (fun q : Int × PView => q.1 == nv.2.sofa.xid) with | some q => q.2.members | none => _) = _
  simp only at this
  rw [this]

end

end Cassis.Xmi.LPC
