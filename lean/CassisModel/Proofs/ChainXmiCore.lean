/-
The XMI round trip with the hypotheses the composition can supply (`Properties/C16Chain.lean`): the well-formedness of
the views is stated against an arbitrary heap `hp0` (instantiated with `[]`), and `LOk` for the collected structures is
a hypothesis instead of being derived from `RTWf.ids_below` / `RTWf.ids_pos`.
Re-assembly of `pass1_flat`, `roundtrip_core` and `xmi_roundtrip_flat_aux`.
-/
import CassisModel.Proofs.ChainDefs

namespace Cassis.Chain
open Cassis.TS Cassis.Traverse Cassis.Xmi Cassis.Lex

/-- `pass1_flat` without `RTWf c hp` for the heap that is saved -/
theorem pass1_flat_weak (K : Consts) (ts : TypeSystem) (cass : List Cas) (ci : Nat) (c : Cas) (hp : Heap) (tsIdx : Nat)
    (doc : XDoc) (st : St) (hc : cass[ci]? = some c) (hnd : (c.views.map (·.2.sofa.xid)).Nodup)
    (hsave : saveXmi K ts cass ci hp = .ok (doc, st)) (hnull : NullOk ts)
    (hL : LOk K ts c ci st.heap (sortById st.allFs)) :
    ∃ (na : Int → Nat) (p : Pass1), pass1 K ts tsIdx false doc { heap := st.heap } = .ok p ∧
      NaOk st.heap.length (sortById st.allFs) na ∧ P1Spec ts cass c st.heap (sortById st.allFs) na p := by
  obtain ⟨fsElems, hr, hdoc⟩ := saveXmi_doc K ts cass ci c hp doc st hc hsave
  generalize hLd : sortById st.allFs = L at hL hr ⊢
  generalize hHd : st.heap = H at hL hr hdoc ⊢
  obtain ⟨es, objs, hes, htrip⟩ := renderAll_trip K ts cass c ci H tsIdx hc L hL.flat (fun q hq => (hL.ids q hq).1)
  rw [hr] at hes
  cases hes
  obtain ⟨o0, h0ty, h0x, h0s, h0p⟩ := null_elem K ts tsIdx hnull
  -- the run
  have hstep0 := step1_fs K ts tsIdx { ty := NULL_T, attrs := [(ID, "0")] } { heap := H } o0 0
    (by decide) (by decide) (h0p H) (by intro h; cases h)
  obtain ⟨m1, hrun1⟩ := pass1_fs K ts cass H tsIdx
    (c.views.map (fun p => renderSofa p.2.sofa) ++ (c.views.map (fun p => renderView H p.2) ++ [])) L fsElems objs
    { heap := H ++ [o0], fss := [] ++ [((0 : Int), H.length)], maxId := max 0 0 } htrip hL.nodup
    (by
      intro q hq
      simp only [List.nil_append, List.map_cons, List.map_nil, List.mem_singleton]
      exact (hL.ids q hq).2)
  obtain ⟨m2, m2', hrun2⟩ := pass1_sofa_list K ts tsIdx (c.views.map (fun p => renderView H p.2) ++ []) c.views
    { heap := (H ++ [o0]) ++ objs, fss := ([] ++ [((0 : Int), H.length)]) ++ addrsFrom (H ++ [o0]).length L, maxId := m1 }
    hnd (by intro nv _ h; cases h)
  have hrun3 := pass1_view_list K ts tsIdx H [] c.views
    { heap := (H ++ [o0]) ++ objs, fss := ([] ++ [((0 : Int), H.length)]) ++ addrsFrom (H ++ [o0]).length L,
      sofas := [] ++ c.views.map (fun nv => (nv.2.sofa.xid, psofaOf nv)), maxId := m2, maxNum := m2' }
    hnd (by intro nv _ h; cases h)
  refine ⟨fun x => H.length + 1 + posOf x L,
    { heap := (H ++ [o0]) ++ objs, fss := ([] ++ [((0 : Int), H.length)]) ++ addrsFrom (H ++ [o0]).length L,
      sofas := [] ++ c.views.map (fun nv => (nv.2.sofa.xid, psofaOf nv)),
      views := [] ++ c.views.map (fun nv => (nv.2.sofa.xid, pviewOf H nv)), maxId := m2, maxNum := m2' }, ?_, ?_, ?_⟩
  · rw [hdoc, List.append_assoc, List.append_assoc, List.singleton_append, pass1_cons, hstep0]
    show pass1 K ts tsIdx false _ _ = _
    rw [← List.append_nil (c.views.map (fun p => renderView H p.2))]
    exact hrun1.trans (hrun2.trans (hrun3.trans (pass1_nil K ts tsIdx false _)))
  · refine ⟨?_, ?_⟩
    · intro q hq q' hq' h
      exact posOf_inj L q.1 q'.1 (List.mem_map_of_mem hq) (List.mem_map_of_mem hq') (by omega)
    · intro q _
      show H.length < H.length + 1 + posOf q.1 L
      omega
  · refine ⟨?_, ?_, ?_, rfl, ?_, ?_, ?_⟩
    · show ([] ++ [((0 : Int), H.length)]) ++ addrsFrom (H ++ [o0]).length L = _
      rw [addrsFrom_eq L _ hL.nodup, List.length_append, List.length_singleton]
      rfl
    · show [] ++ c.views.map (fun nv => (nv.2.sofa.xid, psofaOf nv)) = _
      rfl
    · show [] ++ c.views.map (fun nv => (nv.2.sofa.xid, pviewOf H nv)) = _
      rfl
    · show ((H ++ [o0]) ++ objs).length = _
      rw [List.length_append, List.length_append, List.length_singleton, htrip.length]
    · refine ⟨o0, ?_, h0ty, h0x, h0s⟩
      show ((H ++ [o0]) ++ objs)[H.length]? = some o0
      rw [List.append_assoc, List.getElem?_append_right (Nat.le_refl _), Nat.sub_self]
      rfl
    · intro q hq
      obtain ⟨e, o1, hget, _, _, _, o, ho, hrel⟩ := htrip.get hL.nodup q hq
      refine ⟨o, o1, ho, ?_, hrel⟩
      show ((H ++ [o0]) ++ objs)[H.length + 1 + posOf q.1 L]? = some o1
      rw [List.getElem?_append_right (by rw [List.length_append, List.length_singleton]; omega),
        List.length_append, List.length_singleton]
      rw [show H.length + 1 + posOf q.1 L - (H.length + 1) = posOf q.1 L by omega]
      exact hget

/-- `roundtrip_core` with `LOk` as a hypothesis and the views well-formed against any heap -/
theorem xmi_core_weak (K : Consts) (ts : TypeSystem) (cass : List Cas) (ci : Nat) (c : Cas) (hp0 hp : Heap)
    (tsIdx ci' : Nat) (doc : XDoc) (st : St)
    (hc : cass[ci]? = some c) (hwf : RTWf c hp0) (hnull : NullOk ts)
    (hsave : saveXmi K ts cass ci hp = .ok (doc, st))
    (hL : LOk K ts c ci st.heap (sortById st.allFs))
    (hmem : ∀ nv ∈ c.views, ∀ e ∈ Index.all nv.2.idx, Xmi.slot st.heap e.oid "sofa" ≠ some .none)
    (hmok : MembersOk c st.heap) :
    ∃ (na : Int → Nat) (p : Pass1) (ld : Xmi.Loaded),
      pass1 K ts tsIdx false doc { heap := st.heap } = .ok p ∧
      loadXmi K ts tsIdx ci' false st.heap doc = .ok ld ∧
      NaOk st.heap.length (sortById st.allFs) na ∧
      P1Spec ts cass c st.heap (sortById st.allFs) na p ∧
      HeapRel st.heap (sortById st.allFs) na (E3 st.heap na ci') ld.heap ∧
      ld.cas.views.map (viewContent ld.heap) = c.views.map (viewContent st.heap) ∧
      ViewsRel st.heap na c ld.cas := by
  obtain ⟨na, p, hp1, hna, hs1⟩ :=
    pass1_flat_weak K ts cass ci c hp tsIdx doc st hc hwf.sofa_ids_nodup hsave hnull hL
  obtain ⟨hp2, hpost, hlen2, hnull2, hrel2⟩ :=
    postAll_flat K ts cass ci c hp0 st.heap _ na tsIdx ci' p hc hwf hnull hL hna hs1
  obtain ⟨ld, hbuild, hrel3, hviews, hvrel⟩ :=
    buildCas_flat_strong K ts cass ci c hp0 st.heap _ na ci' p hp2 hc hwf hnull hL hna hs1 hmem hmok hlen2 hnull2 hrel2
  have hload : loadXmi K ts tsIdx ci' false st.heap doc = .ok ld := by
    unfold loadXmi
    simp only [hp1, hpost, bind, Except.bind]
    exact hbuild
  exact ⟨na, p, ld, hp1, hload, hna, hs1, hrel3, hviews, hvrel⟩

/-- the conclusions of `xmi_roundtrip_flat` the composition uses -/
theorem xmi_roundtrip_weak (K : Consts) (ts : TypeSystem) (cass : List Cas) (ci : Nat) (c : Cas) (hp0 hp : Heap)
    (tsIdx ci' : Nat) (doc : XDoc) (st : St)
    (hc : cass[ci]? = some c) (hwf : RTWf c hp0) (hnull : NullOk ts)
    (hsave : saveXmi K ts cass ci hp = .ok (doc, st))
    (hL : LOk K ts c ci st.heap (sortById st.allFs))
    (hmem : ∀ nv ∈ c.views, ∀ e ∈ Index.all nv.2.idx, Xmi.slot st.heap e.oid "sofa" ≠ some .none)
    (hmok : MembersOk c st.heap) :
    ∃ (p : Pass1) (ld : Xmi.Loaded),
      pass1 K ts tsIdx false doc { heap := st.heap } = .ok p ∧
      loadXmi K ts tsIdx ci' false st.heap doc = .ok ld ∧
      (∀ q ∈ sortById st.allFs, ∃ (a' : Nat) (o o' : Obj), lookupFs p.fss q.1 = .ok a' ∧
          st.heap[q.2]? = some o ∧ ld.heap[a']? = some o' ∧ o'.ty = o.ty ∧ o'.xid = some q.1 ∧
          ∀ t : TypeRec, find? ts o.ty = some t → ∀ f ∈ allFeatures t,
            featContent ld.heap a' f.name = featContent st.heap q.2 f.name) ∧
      ld.cas.views.map (viewContent ld.heap) = c.views.map (viewContent st.heap) := by
  obtain ⟨na, p, ld, hp1, hload, hna, hs1, hrel3, hviews, _⟩ :=
    xmi_core_weak K ts cass ci c hp0 hp tsIdx ci' doc st hc hwf hnull hsave hL hmem hmok
  have hxid : ∀ q ∈ sortById st.allFs, xidOf ld.heap (na q.1) = some q.1 := by
    intro q hq
    obtain ⟨o, o', _, ho', _, hx, _⟩ := hrel3 q hq
    unfold xidOf; rw [ho']; exact hx
  refine ⟨p, ld, hp1, hload, ?_, hviews⟩
  intro q hq
  obtain ⟨o, o', ho, ho', hty, hx, _, hslots⟩ := hrel3 q hq
  have hqm : q.1 ∈ (sortById st.allFs).map (·.1) := List.mem_map.mpr ⟨q, hq, rfl⟩
  refine ⟨na q.1, o, o', ?_, ho, ho', hty, hx, ?_⟩
  · rw [hs1.fss]
    exact lookupFs_fss_na na _ _ q.1 hqm (hL.ids q hq).2
  · intro t ht f hf
    obtain ⟨o2, t2, ho2, ht2, _, _, _, _, _, _, _, _, _, _, _, hfeat, _⟩ := hL.flat q hq
    rw [ho] at ho2; cases ho2
    rw [ht] at ht2; cases ht2
    have hff := hfeat f hf
    obtain ⟨_, _, _, _, _, _, _, _, _, _, _, v, hv, _⟩ := hfeat f hf
    have h1 : featContent st.heap q.2 f.name = dvalOf st.heap v := by
      unfold featContent Xmi.slot Traverse.slot
      rw [ho]; simp only [Option.bind_some, hv, Option.getD_some]
    have h2 : featContent ld.heap (na q.1) f.name = dvalOf ld.heap (exp3 st.heap na ci' v) := by
      unfold featContent Xmi.slot Traverse.slot
      rw [ho']; simp only [Option.bind_some, hslots f.name v hv, Option.getD_some, E3]
    rw [h1, h2]
    apply dval_exp3 hff v hv
    intro b hb
    subst hb
    obtain ⟨x, hxb, hxl⟩ := hL.closed q hq o ho f.name b hv
    exact ⟨x, hxb, hxid (x, b) hxl⟩

end Cassis.Chain
