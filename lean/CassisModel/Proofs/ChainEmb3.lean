/-
C16 with an embedded type system, the local coherence condition `FlagCoherentChain` (`Spec/ChainEmbLocal.lean`):
it follows from the global `FlagCoherent` as soon as every inherited record is an own record of some registered type
(`PInv`, an invariant of API-built type systems: `pinv_history`).
-/
import CassisModel.Spec.ChainEmbLocal
import CassisModel.Proofs.ChainEmbProvC

namespace Cassis.ChainE
open Cassis.TS

theorem flagCoherentChain_of_flagCoherent_aux {K : Consts} {ts : TypeSystem}
    (hinh : ∀ t ∈ ts.types, ∀ r ∈ t.inh, ∃ t2 ∈ ts.types, r ∈ t2.own)
    (hfc : FlagCoherent K ts) : FlagCoherentChain K ts := by
  intro t ht g hg h hh hn
  obtain ⟨t2, ht2, hh2⟩ := hinh t ht h hh
  exact hfc t ht t2 ht2 g hg h hh2 hn.symm

theorem flagCoherentChain_of_pinv {P : Feature → Prop} {K : Consts} {ts : TypeSystem} (hp : PInv P ts)
    (hfc : FlagCoherent K ts) : FlagCoherentChain K ts :=
  flagCoherentChain_of_flagCoherent_aux hp.inh hfc

theorem flagCoherentChain_of_history_aux (ops : List TsOp)
    (hfc : FlagCoherent Gen.consts (ops.foldl (applyOp Gen.consts) Gen.builtinTS)) :
    FlagCoherentChain Gen.consts (ops.foldl (applyOp Gen.consts) Gen.builtinTS) :=
  flagCoherentChain_of_pinv
    (pinv_history Gen.consts ops Gen.builtinTS (pinv_builtin (fun _ _ _ _ => trivial))) hfc

end Cassis.ChainE
