/-
The OPEN hypotheses of `json_full_ts_multi_chain_of_prov` (`InhAnc ts'`, `OwnLike o ts'` for the rebuilt type system)
evaluated on the instances: they hold on `UnrelDemo`, and also on the counterexample `RedefDemo` (there it is
`FlagCoherentChain` that fails).
-/
import CassisModel.Proofs.ChainEmb3Hist2

namespace Cassis.ChainE
open Cassis.TS Cassis.Json

def ownLikeB (o m : TypeSystem) : Bool :=
  m.types.all (fun t' => t'.own.all (fun r =>
    match find? o t'.name with
    | some t => t.own.any (fun g => r.name == g.name && r.multi == g.multi && r.reserved == g.reserved)
    | none => false))

#guard (match rebuiltTs Gen.consts UnrelDemo.ts [UnrelDemo.cas] 0 UnrelDemo.hp with
  | .ok m => inhAncB m && ownLikeB UnrelDemo.ts m && inhAncB UnrelDemo.ts | .error _ => false)
#guard (match rebuiltTs Gen.consts RedefDemo.ts [RedefDemo.cas] 0 RedefDemo.hp with
  | .ok m => inhAncB m && ownLikeB RedefDemo.ts m && inhAncB RedefDemo.ts | .error _ => false)

end Cassis.ChainE
