/-
C04, faithfulness of the JSON writer on the whole format (`Properties/C04FaithfulJson.lean`, `saveJson_faithful_coll`):
two CASes that are written to the same JSON document have the same content, collections included.

Method as in `Proofs/FaithfulJson.lean`, with the layers of `Proofs/RoundTripJsonColl.lean`: the fragment `JCollFs` and
the closure `LOkJ` survive the padding of the written heap by blank objects, the written elements do not change, and the
passes of the reader are reassembled over a base heap of the length of the padded heap (`load_baseJ`).
-/
import CassisModel.Proofs.FaithfulJson
import CassisModel.Proofs.RoundTripJsonColl
import CassisModel.Proofs.RoundTripJsonCollDemo

namespace Cassis.Json
open Cassis.TS Cassis.Traverse Cassis.Lex Cassis.Xmi Cassis.Xmi.RTB

namespace FaithfulC

variable {K : Consts} {ts : TypeSystem} {cass : List Cas} {c : Cas} {ci : Nat} {hp H : Heap} {L : List (Int × Nat)}

/-! ### the fragment and the closure over the padded heap -/

theorem jfeatOk_pad (n : Nat) {isAnn : Bool} {o : Obj} {f : Feature} (h : JFeatOk K ts c ci H isAnn o f) :
    JFeatOk K ts c ci (H ++ Pad.pad n) isAnn o f := by
  obtain ⟨h1, h2, h3, h4, h5, v, hv, hk⟩ := h
  refine ⟨h1, h2, h3, h4, h5, v, hv, ?_⟩
  rcases hk with hs | hp | ⟨g1, g2, g3, g4, g5, hr⟩
  · exact .inl hs
  · exact .inr (.inl hp)
  · refine .inr (.inr ⟨g1, g2, g3, g4, g5, ?_⟩)
    rcases hr with hn | ⟨b, hb, hsp⟩
    · exact .inl hn
    · refine .inr ⟨b, hb, fun hi ha => ?_⟩
      obtain ⟨hs, hcol⟩ := hsp hi ha
      exact ⟨hs, Pad.collectList_padded n hcol⟩

theorem jgenFs_pad (n : Nat) {a : Nat} (h : JGenFs K ts c ci H a) : JGenFs K ts c ci (H ++ Pad.pad n) a := by
  obtain ⟨o, t, ho, h2, h3, h4, h5, h6, h7, h8, h9, h10, h11, h12, h13, hfeat, hann⟩ := h
  exact ⟨o, t, Pad.get_some n ho, h2, h3, h4, h5, h6, h7, h8, h9, h10, h11, h12, h13,
    fun f hf => jfeatOk_pad n (hfeat f hf), hann⟩

theorem jarrFs_pad (n : Nat) {a : Nat} (h : JArrFs K ts H a) : JArrFs K ts (H ++ Pad.pad n) a := by
  obtain ⟨o, t, f, ev, ho, rest⟩ := h
  exact ⟨o, t, f, ev, Pad.get_some n ho, rest⟩

/-- the object of a structure of the fragment -/
theorem jcollFs_obj {a : Nat} (h : JCollFs K ts c ci H a) : ∃ o, H[a]? = some o := by
  rcases h.1 with ⟨o, _, ho, _⟩ | ⟨o, _, _, _, ho, _⟩ <;> exact ⟨o, ho⟩

theorem jcollFs_pad (n : Nat) {a : Nat} (h : JCollFs K ts c ci H a) : JCollFs K ts c ci (H ++ Pad.pad n) a := by
  obtain ⟨o, ho⟩ := jcollFs_obj h
  refine ⟨?_, Faithful.jsonFs_pad n ho h.2⟩
  rcases h.1 with hg | ha
  · exact .inl (jgenFs_pad n hg)
  · exact .inr (jarrFs_pad n ha)

theorem lokJ_pad (n : Nat) (hL : LOkJ K ts c ci H L) : LOkJ K ts c ci (H ++ Pad.pad n) L := by
  refine ⟨fun q hq => jcollFs_pad n (hL.coll q hq), fun q hq => ?_, hL.nodup, ?_, ?_, hL.members⟩
  · rw [Pad.xidOf_pad]; exact hL.ids q hq
  · intro q hq o ho k b hb
    obtain ⟨o0, ho0⟩ := jcollFs_obj (hL.coll q hq)
    have := Pad.get_eq n ho0 ho
    subst this
    rw [Pad.xidOf_pad]
    exact hL.closed q hq o ho0 k b hb
  · intro q hq o ho l hl b hb
    obtain ⟨o0, ho0⟩ := jcollFs_obj (hL.coll q hq)
    have := Pad.get_eq n ho0 ho
    subst this
    rw [Pad.xidOf_pad]
    exact hL.closedE q hq o ho0 l hl b hb

theorem gctxJ_pad (n : Nat) (g : GCtxJ K ts cass c ci hp H L) : GCtxJ K ts cass c ci hp (H ++ Pad.pad n) L :=
  ⟨g.hc, g.wf, lokJ_pad n g.lok, g.dis⟩

/-! ### the written elements -/

theorem refOf_pad (H : Heap) (n : Nat) : refOf (H ++ Pad.pad n) = refOf H := by
  funext r
  cases r with
  | none => rfl
  | some a => exact Pad.xidOf_pad H n a

theorem arrJFs_pad (H : Heap) (n : Nat) (x : Int) (o : Obj) : arrJFs (H ++ Pad.pad n) x o = arrJFs H x o := by
  unfold arrJFs arrElemsJ arrayElements
  simp only [refOf_pad]

theorem elemOfJ_pad (n : Nat) {q : Int × Nat} {o : Obj} (ho : H[q.2]? = some o) :
    elemOfJ K ts cass (H ++ Pad.pad n) q = elemOfJ K ts cass H q := by
  unfold elemOfJ
  rw [Pad.get_some n ho, ho]
  dsimp only
  rw [arrJFs_pad]
  cases find? ts o.ty with
  | none => rfl
  | some t => simp only [Faithful.flatJFs_pad]

/-- the element written for a collected structure carries its id -/
theorem elemOfJ_id (hL : LOkJ K ts c ci H L) (q : Int × Nat) (hq : q ∈ L) : (elemOfJ K ts cass H q).id = some q.1 := by
  obtain ⟨hcase, _⟩ := hL.coll q hq
  unfold elemOfJ
  rcases hcase with ⟨o, t, ho, ht, _⟩ | ⟨o, t, f, ev, ho, ht, _⟩
  · rw [ho]
    dsimp only
    split
    · rfl
    · rw [ht]; rfl
  · rw [ho]
    dsimp only
    split
    · rfl
    · rw [ht]; rfl

/-! ### where a list is unrolled, the spine ends -/

theorem featContentC_jcollFs (n : Nat) {a : Nat} {o : Obj} {t : TypeRec} {f : Feature} (h : JCollFs K ts c ci H a)
    (ho : H[a]? = some o) (ht : find? ts o.ty = some t) (hf : f ∈ allFeatures t) :
    featContentC K (H ++ Pad.pad n) a f = featContentC K H a f := by
  apply Pad.featContentC_pad
  intro hi ha cc hv
  rw [CF.slot_of f.name ho] at hv
  rcases h.1 with hgen | harr
  · obtain ⟨o2, t2, ho2, ht2, _, _, _, _, _, _, _, _, _, _, _, hfeat, _⟩ := hgen
    rw [ho] at ho2; cases ho2
    rw [ht] at ht2; cases ht2
    obtain ⟨_, _, _, _, _, v, hv', hk⟩ := hfeat f hf
    rw [hv] at hv'; cases hv'
    rcases hk with ⟨_, hs⟩ | ⟨_, _, h3⟩ | ⟨_, _, _, _, _, hr⟩
    · rcases hs with ⟨vn, e, _⟩ | ⟨e, _⟩ <;> cases e
    · rcases h3 with e | ⟨_, i, e⟩ | ⟨_, s, e⟩ | ⟨_, b', e⟩ | ⟨_, t', e⟩ <;> cases e
    · rcases hr with e | ⟨b, e, hsp⟩
      · cases e
      · cases e
        exact hsp hi ha
  · exfalso
    obtain ⟨o2, t2, f2, ev, ho2, ht2, _, _, hfs, hfn, _, hsl, _, _, hk⟩ := harr
    rw [ho] at ho2; cases ho2
    rw [ht] at ht2; cases ht2
    rw [hfs] at hf
    have : f = f2 := by simpa using hf
    subst this
    rw [hsl, hfn] at hv
    have hev : ev = .ref cc := by simpa [alistGet?] using hv
    subst hev
    rcases hk with ⟨_, _, l, e⟩ | ⟨_, _, hp⟩
    · cases e
    · rcases hp with e | ⟨_, l, e⟩ | ⟨_, l, e⟩ | ⟨_, _, ⟨l, e⟩ | ⟨l, e⟩ | ⟨l, e⟩⟩ <;> cases e

/-! ### the document -/

/-- the parts of the written document (first half of `json_core_coll`) -/
theorem doc_parts (K : Consts) (ts : TypeSystem) (cass : List Cas) (ci : Nat) (c : Cas) (hp : Heap)
    (doc : JDoc) (st : St)
    (hc : cass[ci]? = some c) (hwf : RTWf c hp)
    (hsave : saveJson K ts cass ci hp .none = .ok (doc, st))
    (hcoll : ∀ q ∈ st.allFs, JCollFs K ts c ci st.heap q.2)
    (hids : ∀ nv ∈ c.views, ∀ e ∈ Index.all nv.2.idx, (xidOf hp e.oid).isSome = true)
    (hdis : ∀ q ∈ st.allFs, ∀ nv ∈ c.views, q.1 ≠ nv.2.sofa.xid) :
    GCtxJ K ts cass c ci hp st.heap (sortById st.allFs) ∧
    doc.fss = c.views.map (fun p => renderSofa hp p.2.sofa) ++ (sortById st.allFs).map (elemOfJ K ts cass st.heap) ∧
    doc.views = c.views.map (jviewH st.heap) := by
  obtain ⟨hfa, fsElems, hr, hdfss, hdviews, _⟩ := saveJson_parts hc (fun nv hnv => (hwf.text_sofa nv hnv).1) hsave
  have hL : LOkJ K ts c ci st.heap (sortById st.allFs) := trav_collJ K ts ci c hp st hwf hfa hcoll
  have g : GCtxJ K ts cass c ci hp st.heap (sortById st.allFs) :=
    ⟨hc, hwf, hL, fun q hq => hdis q (mem_sortById.mp hq)⟩
  have hfs : fsElems = (sortById st.allFs).map (elemOfJ K ts cass st.heap) :=
    renderAll_eq_mapJ K ts cass st.heap _ _ fsElems hr
      (fun q hq e he => writer_collJ K ts cass c ci hp st.heap _ g q hq e he)
  subst hfs
  refine ⟨g, hdfss, ?_⟩
  rw [hdviews]
  apply List.map_congr_left
  intro nv hnv
  unfold jviewOf jviewH pviewOf
  congr 2
  apply filterMap_congr'
  intro e he
  obtain ⟨y, hy⟩ := Option.isSome_iff_exists.mp (hids nv hnv e he)
  show xidOf hp e.oid = xidOf st.heap e.oid
  rw [hy, jst_ids_kept hwf hfa e.oid y hy]

/-- the passes of the reader (second half of `json_core_coll`) on the document written from `H`, over a base heap `hb`
    as long as `H` -/
theorem load_baseJ (K : Consts) (ts : TypeSystem) (cass : List Cas) (ci : Nat) (c : Cas) (hp H hb : Heap)
    (L : List (Int × Nat)) (tsIdx ci' : Nat) (doc : JDoc)
    (g : GCtxJ K ts cass c ci hp H L)
    (hdfss : doc.fss = c.views.map (fun p => renderSofa hp p.2.sofa) ++ L.map (elemOfJ K ts cass H))
    (hviews : doc.views = c.views.map (jviewH H))
    (hlen : hb.length = H.length)
    (hmem : ∀ nv ∈ c.views, ∀ e ∈ Index.all nv.2.idx, Xmi.slot H e.oid "sofa" ≠ some .none)
    (hmok : MembersOk c H) :
    ∃ ld : Loaded, loadJson K ts tsIdx ci' false false hb doc = .ok ld ∧
      HeapRel H L (naOf H L) (E3J H (naOf H L) ci') ld.heap ∧
      ld.cas.views.map (viewContent ld.heap) = c.views.map (viewContent H) := by
  have hwf := g.wf
  have hL := g.lok
  -- the sofa pass
  obtain ⟨s1, hs1, h1heap, h1fss, h1def, h1views, _, _, _⟩ :=
    sofaPass_flat K ts tsIdx ci' c hp hb hwf (L.map (elemOfJ K ts cass H)) doc.fss (by
      intro e he
      obtain ⟨q, hq, rfl⟩ := List.mem_map.mp he
      exact elemOfJ_notSofa hL q hq)
  -- the structure pass
  have inv0 : FInvJ c H L ci' s1.cas s1.maxNum s1.maxId [] s1 := by
    refine ⟨rfl, rfl, by rw [h1heap, hlen]; rfl, by rw [h1fss]; unfold fsEntries; simp, ⟨Int.le_refl _, ?_⟩, ?_, ?_⟩
    · intro q hq; cases hq
    · intro q hq; cases hq
    · intro d hd; rw [h1def] at hd; cases hd
  obtain ⟨s2, hs2, inv⟩ := fsPass_collJ parseGen_collJ parseArr_collJ K ts cass c ci hp H _ g tsIdx ci' s1.cas h1views
    s1.maxNum s1.maxId L [] s1 rfl inv0
  -- the deferred entries
  have hfss : ∀ q ∈ L, lookup s2.fss q.1 = some (.ref (naOf H L q.1)) := by
    intro q hq
    rw [inv.fss, lookup_append]
    have : lookup (sofaEntries ci' c.views) q.1 = none := by
      apply lookup_none_of_not_mem
      rw [sofaEntries_keys]
      intro hin
      obtain ⟨nv, hnv, e⟩ := List.mem_map.mp hin
      exact g.dis q hq nv hnv e.symm
    rw [this]
    apply lookup_of_mem_nodup
    · rw [fsEntries_keys]; exact hL.nodup
    · unfold fsEntries
      exact List.mem_map.mpr ⟨q, hq, rfl⟩
  obtain ⟨HF, hfix, hrel⟩ := fixUps_collJ K ts cass c ci hp H _ g ci' s2.fss hfss s2.deferred s2.heap inv.defs inv.rel
  -- the views pass
  obtain ⟨v, hvp, hvheap, _, _, _, hvcontent⟩ :=
    views_collJ K ts c ci H L (naOf H L) ci' hwf.names hwf.names_nodup
      hL hmem hmok HF hrel s2.fss hfss { s2.cas with nextXid := s2.maxId + 1, nextSofaNum := s2.maxNum + 1 }
      (by show s2.cas.views = _; rw [inv.cas]; exact h1views)
  have hload : loadJson K ts tsIdx ci' false false hb doc = .ok { ts := ts, cas := v.cas, heap := v.heap } := by
    unfold loadJson loadTs
    simp only [Bool.false_eq_true, if_false]
    rw [hdfss] at hs1
    rw [hdfss, hs1]
    dsimp only
    rw [fsPass_skip_sofas tsIdx _ s1 _ (by
      intro e he
      obtain ⟨nv, _, rfl⟩ := List.mem_map.mp he
      rfl), hs2]
    dsimp only
    rw [hfix]
    dsimp only
    rw [hviews, hvp]
  refine ⟨_, hload, ?_, ?_⟩
  · show HeapRel _ _ _ _ v.heap
    rw [hvheap]; exact hrel
  · show v.cas.views.map (viewContent v.heap) = _
    rw [hvheap]; exact hvcontent

/-- the round trip of a CAS written in `H`, the document being read over a base heap as long as `H` padded by `n`
    blank objects; the structure with id `x` is built at `hb.length + posOf x L` -/
theorem concl_padJ (K : Consts) (ts : TypeSystem) (cass : List Cas) (ci : Nat) (c : Cas) (hp H hb : Heap) (n : Nat)
    (L : List (Int × Nat)) (tsIdx ci' : Nat) (doc : JDoc)
    (g : GCtxJ K ts cass c ci hp H L)
    (hdfss : doc.fss = c.views.map (fun p => renderSofa hp p.2.sofa) ++ L.map (elemOfJ K ts cass H))
    (hviews : doc.views = c.views.map (jviewH H))
    (hlen : hb.length = H.length + n)
    (hmem : ∀ nv ∈ c.views, ∀ e ∈ Index.all nv.2.idx, Xmi.slot H e.oid "sofa" ≠ some .none)
    (hmok : MembersOk c H) :
    ∃ ld : Loaded, loadJson K ts tsIdx ci' false false hb doc = .ok ld ∧
      Faithful.docIds doc.fss = (L.map (·.1)).map some ∧
      (∀ q ∈ L, ∃ (o o' : Obj), H[q.2]? = some o ∧ ld.heap[hb.length + posOf q.1 L]? = some o' ∧ o'.ty = o.ty ∧
          ∀ t : TypeRec, find? ts o.ty = some t → ∀ f ∈ allFeatures t,
            featContentC K ld.heap (hb.length + posOf q.1 L) f = featContentC K H q.2 f) ∧
      ld.cas.views.map (viewContent ld.heap) = c.views.map (viewContent H) := by
  have hL := g.lok
  have hids : Faithful.docIds doc.fss = (L.map (·.1)).map some := by
    rw [hdfss]
    apply Faithful.docIds_eq
    intro q hq
    exact ⟨elemOfJ_notSofa hL q hq, elemOfJ_id hL q hq⟩
  have g' := gctxJ_pad n g
  have hdfss' : doc.fss =
      c.views.map (fun p => renderSofa hp p.2.sofa) ++ L.map (elemOfJ K ts cass (H ++ Pad.pad n)) := by
    rw [hdfss]
    congr 1
    apply List.map_congr_left
    intro q hq
    obtain ⟨o, ho⟩ := jcollFs_obj (hL.coll q hq)
    exact (elemOfJ_pad n ho).symm
  have hviews' : doc.views = c.views.map (jviewH (H ++ Pad.pad n)) := by
    rw [hviews]
    apply List.map_congr_left
    intro nv _
    exact (Faithful.jviewH_pad H n nv).symm
  obtain ⟨ld, hload, hrel, hvc⟩ :=
    load_baseJ K ts cass ci c hp (H ++ Pad.pad n) hb L tsIdx ci' doc g' hdfss' hviews'
      (by rw [Pad.length_pad]; exact hlen) (Pad.hmem_pad n hmem) (Pad.membersOk_pad n hmok)
  have hna : ∀ x, naOf (H ++ Pad.pad n) L x = hb.length + posOf x L := by
    intro x
    unfold naOf
    rw [Pad.length_pad, hlen]
  refine ⟨ld, hload, hids, ?_, ?_⟩
  · intro q hq
    obtain ⟨o, o', ho, ho', hty, _, _, _⟩ := hrel q hq
    obtain ⟨oH, hoH⟩ := jcollFs_obj (hL.coll q hq)
    have := Pad.get_eq n hoH ho
    subst this
    refine ⟨o, o', hoH, by rw [← hna]; exact ho', hty, ?_⟩
    intro t ht f hf
    rw [← hna, content_collJ K ts c ci (H ++ Pad.pad n) L ci' ld.heap g'.lok hrel q hq o t ho ht f hf]
    exact featContentC_jcollFs n (hL.coll q hq) hoH ht hf
  · rw [hvc]
    apply List.map_congr_left
    intro nv _
    exact Pad.viewContent_pad H n nv

end FaithfulC

/-- **faithfulness of the JSON writer, collections included**: the same document, hence the same content -/
theorem saveJson_faithful_coll_aux (K : Consts) (ts : TypeSystem)
    (cass₁ cass₂ : List Cas) (ci₁ ci₂ : Nat) (c₁ c₂ : Cas) (hp₁ hp₂ : Heap) (doc : JDoc) (st₁ st₂ : St)
    (hc₁ : cass₁[ci₁]? = some c₁) (hwf₁ : RTWf c₁ hp₁) (hsave₁ : saveJson K ts cass₁ ci₁ hp₁ .none = .ok (doc, st₁))
    (hcoll₁ : ∀ q ∈ st₁.allFs, JCollFs K ts c₁ ci₁ st₁.heap q.2)
    (hids₁ : ∀ nv ∈ c₁.views, ∀ e ∈ Index.all nv.2.idx, (xidOf hp₁ e.oid).isSome = true)
    (hdis₁ : ∀ q ∈ st₁.allFs, ∀ nv ∈ c₁.views, q.1 ≠ nv.2.sofa.xid)
    (hmem₁ : ∀ nv ∈ c₁.views, ∀ e ∈ Index.all nv.2.idx, Xmi.slot st₁.heap e.oid "sofa" ≠ some .none)
    (hmok₁ : MembersOk c₁ st₁.heap)
    (hc₂ : cass₂[ci₂]? = some c₂) (hwf₂ : RTWf c₂ hp₂) (hsave₂ : saveJson K ts cass₂ ci₂ hp₂ .none = .ok (doc, st₂))
    (hcoll₂ : ∀ q ∈ st₂.allFs, JCollFs K ts c₂ ci₂ st₂.heap q.2)
    (hids₂ : ∀ nv ∈ c₂.views, ∀ e ∈ Index.all nv.2.idx, (xidOf hp₂ e.oid).isSome = true)
    (hdis₂ : ∀ q ∈ st₂.allFs, ∀ nv ∈ c₂.views, q.1 ≠ nv.2.sofa.xid)
    (hmem₂ : ∀ nv ∈ c₂.views, ∀ e ∈ Index.all nv.2.idx, Xmi.slot st₂.heap e.oid "sofa" ≠ some .none)
    (hmok₂ : MembersOk c₂ st₂.heap) :
    (sortById st₁.allFs).map (·.1) = (sortById st₂.allFs).map (·.1) ∧
    (∀ q₁ ∈ st₁.allFs, ∀ q₂ ∈ st₂.allFs, q₁.1 = q₂.1 →
      ∃ o₁ o₂ : Obj, st₁.heap[q₁.2]? = some o₁ ∧ st₂.heap[q₂.2]? = some o₂ ∧ o₁.ty = o₂.ty ∧
        ∀ t : TypeRec, find? ts o₁.ty = some t → ∀ f ∈ allFeatures t,
          featContentC K st₁.heap q₁.2 f = featContentC K st₂.heap q₂.2 f) ∧
    c₁.views.map (viewContent st₁.heap) = c₂.views.map (viewContent st₂.heap) := by
  obtain ⟨g₁, hdf₁, hdv₁⟩ := FaithfulC.doc_parts K ts cass₁ ci₁ c₁ hp₁ doc st₁ hc₁ hwf₁ hsave₁ hcoll₁ hids₁ hdis₁
  obtain ⟨g₂, hdf₂, hdv₂⟩ := FaithfulC.doc_parts K ts cass₂ ci₂ c₂ hp₂ doc st₂ hc₂ hwf₂ hsave₂ hcoll₂ hids₂ hdis₂
  -- both documents are read over the same base heap, as long as both padded heaps
  obtain ⟨ld, hload, hi₁, hq₁, hv₁⟩ :=
    FaithfulC.concl_padJ K ts cass₁ ci₁ c₁ hp₁ st₁.heap (st₁.heap ++ st₂.heap) st₂.heap.length (sortById st₁.allFs)
      0 0 doc g₁ hdf₁ hdv₁ (by rw [List.length_append]) hmem₁ hmok₁
  obtain ⟨ld', hload', hi₂, hq₂, hv₂⟩ :=
    FaithfulC.concl_padJ K ts cass₂ ci₂ c₂ hp₂ st₂.heap (st₁.heap ++ st₂.heap) st₁.heap.length (sortById st₂.allFs)
      0 0 doc g₂ hdf₂ hdv₂ (by rw [List.length_append, Nat.add_comm]) hmem₂ hmok₂
  rw [hload] at hload'
  cases hload'
  have hids : (sortById st₁.allFs).map (·.1) = (sortById st₂.allFs).map (·.1) :=
    Faithful.map_some_inj (hi₁.symm.trans hi₂)
  refine ⟨hids, ?_, ?_⟩
  · intro q₁ hm₁ q₂ hm₂ hid
    obtain ⟨o₁, o₁', ho₁, ho₁', hty₁, hfc₁⟩ := hq₁ q₁ (mem_sortById.mpr hm₁)
    obtain ⟨o₂, o₂', ho₂, ho₂', hty₂, hfc₂⟩ := hq₂ q₂ (mem_sortById.mpr hm₂)
    have hpos : posOf q₁.1 (sortById st₁.allFs) = posOf q₂.1 (sortById st₂.allFs) := by
      rw [hid]; exact Faithful.posOf_congr q₂.1 hids
    rw [hpos, ho₂'] at ho₁'
    cases ho₁'
    have hty : o₁.ty = o₂.ty := hty₁.symm.trans hty₂
    refine ⟨o₁, o₂, ho₁, ho₂, hty, ?_⟩
    intro t ht f hf
    have e₁ := hfc₁ t ht f hf
    rw [hpos] at e₁
    exact e₁.symm.trans (hfc₂ t (by rw [← hty]; exact ht) f hf)
  · rw [← hv₁, hv₂]

end Cassis.Json
