/-
C12 round trip, layer 2: invariants of type systems built by `createType` / `addFeature` that the descriptor round trip
needs beyond `Consistent` / `FeatInv`:

* `InhSub`: every inherited feature is (as a record) an own or inherited feature of the supertype;
* `OwnOK`: own features carry a well-formed stored name (`self_`/`type_` iff reserved) and registered range / element
  types;
* nothing is remembered as redeclared, and DocumentAnnotation keeps its built-in features.

Each is established for the built-in tables, preserved by the two operations, hence by every API history (`xhist_history`)
and by the loader.
-/
import CassisModel.Spec.TsXmlRoundTrip
import CassisModel.Proofs.TsXml
import CassisModel.Proofs.MergeSelf

namespace Cassis.TsXml
open Cassis.TS

/-! ### definitions -/

/-- inherited features are taken over unchanged from the supertype's record -/
def InhSub (ts : TypeSystem) : Prop :=
  ∀ t ∈ ts.types, ∀ s ps, t.super = some s → find? ts s = some ps → ∀ g ∈ t.inh, g ∈ ps.own ++ ps.inh

/-- the stored name is `self_`/`type_` exactly for the reserved features -/
def featWFB (f : Feature) : Bool :=
  if f.reserved then f.name == "self_" || f.name == "type_" else f.name != "self" && f.name != "type"

def OwnOK (ts : TypeSystem) : Prop :=
  ∀ t ∈ ts.types, ∀ f ∈ t.own, featWFB f = true ∧ hasExact ts f.range = true ∧
    ∀ e, f.elem = some e → hasExact ts e = true

/-- constants without predefined names (to use `Grow` without its last clause) -/
def K0 : Consts := ⟨[], [], [], [], [], [], []⟩

/-- the constants with DocumentAnnotation counted among the predefined names -/
def K1 : Consts := { Gen.consts with predefined := DOCUMENT_ANNOTATION :: Gen.consts.predefined }

/-! ### Boolean checkers for the built-in tables -/

def inhSubB (ts : TypeSystem) : Bool :=
  ts.types.all (fun t => match t.super with
    | none => true
    | some s => match find? ts s with
      | none => true
      | some ps => t.inh.all (fun g => (ps.own ++ ps.inh).contains g))

theorem inhSubB_sound (ts : TypeSystem) (h : inhSubB ts = true) : InhSub ts := by
  intro t ht s ps hs hps g hg
  have := List.all_eq_true.mp h t ht
  simp only [hs, hps] at this
  have := List.all_eq_true.mp this g hg
  exact List.contains_iff_mem.mp this

def ownOKB (ts : TypeSystem) : Bool :=
  ts.types.all (fun t => t.own.all (fun f => featWFB f && hasExact ts f.range &&
    (match f.elem with | none => true | some e => hasExact ts e)))

theorem ownOKB_sound (ts : TypeSystem) (h : ownOKB ts = true) : OwnOK ts := by
  intro t ht f hf
  have := List.all_eq_true.mp (List.all_eq_true.mp h t ht) f hf
  simp only [Bool.and_eq_true] at this
  refine ⟨this.1.1, this.1.2, ?_⟩
  intro e he
  have h3 := this.2
  rw [he] at h3
  exact h3

theorem inhSub_builtins : InhSub Gen.builtinTS ∧ InhSub Gen.builtinTSNoDoc :=
  ⟨inhSubB_sound _ (by decide +kernel), inhSubB_sound _ (by decide +kernel)⟩

theorem ownOK_builtins : OwnOK Gen.builtinTS ∧ OwnOK Gen.builtinTSNoDoc :=
  ⟨ownOKB_sound _ (by decide +kernel), ownOKB_sound _ (by decide +kernel)⟩

/-! ### `createType` -/

theorem hasExact_createType (K : Consts) (ts ts' : TypeSystem) (n s : String) (d : Option String)
    (hc : Consistent ts) (hf : FeatInv ts) (hnew : hasExact ts n = false)
    (h : createType K ts n s d = .ok ts') (x : String) (hx : hasExact ts x = true) : hasExact ts' x = true :=
  (createType_grow K ts ts' n s d hc hf hnew h).reg x hx

theorem inhSub_createType (K : Consts) (ts ts' : TypeSystem) (n s : String) (d : Option String)
    (hc : Consistent ts) (hf : FeatInv ts) (hnew : hasExact ts n = false)
    (h : createType K ts n s d = .ok ts') (hi : InhSub ts) : InhSub ts' := by
  obtain ⟨sup, _, hsm, rfl⟩ := createType_shape K ts ts' n s d hc hf hnew h
  have hfind := find_create ts ts.redeclared n sup.name
    { name := n, super := some sup.name, descr := d, inh := allFeatures sup } rfl hnew
  have hsupn : sup.name ≠ n := by
    intro e
    have : hasExact ts n = true := (hasExact_iff_mem ts n).mpr (List.mem_map.mpr ⟨sup, hsm, e⟩)
    rw [hnew] at this; cases this
  intro t' ht' s0 ps' hs0 hps' g hg
  simp only [List.mem_append, List.mem_map, List.mem_singleton] at ht'
  rcases ht' with ⟨t0, ht0, rfl⟩ | rfl
  · rw [upd_super] at hs0
    rw [upd_inh] at hg
    have hreg : hasExact ts s0 = true := hc.superReg t0 ht0 s0 hs0
    have hs0n : s0 ≠ n := by intro e; rw [e, hnew] at hreg; cases hreg
    rw [hfind, if_neg hs0n] at hps'
    obtain ⟨ps0, hps0⟩ := (hasExact_iff_find ts s0).mp hreg
    rw [hps0] at hps'
    simp only [Option.map_some, Option.some.injEq] at hps'
    subst hps'
    rw [upd_own, upd_inh]
    exact hi t0 ht0 s0 ps0 hs0 hps0 g hg
  · simp only [Option.some.injEq] at hs0
    subst hs0
    rw [hfind, if_neg hsupn, find?_of_mem hc.nodup hsm] at hps'
    simp only [Option.map_some, Option.some.injEq] at hps'
    subst hps'
    rw [upd_own, upd_inh]
    exact allFeatures_sub hg

theorem ownOK_createType (K : Consts) (ts ts' : TypeSystem) (n s : String) (d : Option String)
    (hc : Consistent ts) (hf : FeatInv ts) (hnew : hasExact ts n = false)
    (h : createType K ts n s d = .ok ts') (hi : OwnOK ts) : OwnOK ts' := by
  have hreg := hasExact_createType K ts ts' n s d hc hf hnew h
  obtain ⟨sup, _, hsm, rfl⟩ := createType_shape K ts ts' n s d hc hf hnew h
  intro t' ht' f hfm
  simp only [List.mem_append, List.mem_map, List.mem_singleton] at ht'
  rcases ht' with ⟨t0, ht0, rfl⟩ | rfl
  · rw [upd_own] at hfm
    obtain ⟨h1, h2, h3⟩ := hi t0 ht0 f hfm
    exact ⟨h1, hreg _ h2, fun e he => hreg _ (h3 e he)⟩
  · cases hfm

theorem redeclared_createType (K : Consts) (ts ts' : TypeSystem) (n s : String) (d : Option String)
    (hc : Consistent ts) (hf : FeatInv ts) (hnew : hasExact ts n = false)
    (h : createType K ts n s d = .ok ts') : ts'.redeclared = ts.redeclared := by
  obtain ⟨sup, _, _, rfl⟩ := createType_shape K ts ts' n s d hc hf hnew h
  rfl

/-! ### `addFeature` -/

theorem redeclared_pushInherited (f : Feature) (fuel : Nat) (ts : TypeSystem) (cs : List String) :
    ∀ ts', pushInherited f fuel ts cs = .ok ts' → ts'.redeclared = ts.redeclared := by
  fun_induction pushInherited f fuel ts cs with
  | case1 => intro ts' h; cases h
  | case2 => intro ts' h; cases h; rfl
  | case3 fuel ts c cs hf ih => exact ih
  | case4 fuel ts c cs t hf hchk => intro ts' h; cases h
  | case5 fuel ts c cs t hf hchk ih => exact ih
  | case6 fuel ts c cs t hf hchk ts1 ih2 ih1 =>
    intro ts' h
    cases h2 : pushInherited f fuel ts1 t.children with
    | error e => simp only [h2, bind, Except.bind] at h; cases h
    | ok ts2 =>
      simp only [h2, bind, Except.bind] at h
      rw [ih1 ts2 ts' h, ih2 ts2 h2]
      rfl

theorem redeclared_addFeature (ts ts' : TypeSystem) (dom : String) (f : Feature)
    (h : addFeature ts dom f = .ok ts') : ts'.redeclared = ts.redeclared := by
  obtain ⟨t, _, ⟨_, rfl⟩ | ⟨_, _, hpush⟩⟩ := addFeature_cases h
  · rfl
  · rw [redeclared_pushInherited _ _ _ _ ts' hpush]
    rfl

theorem inhSub_addFeature (ts ts' : TypeSystem) (dom : String) (f : Feature)
    (hc : Consistent ts) (hf : FeatInv ts) (h : addFeature ts dom f = .ok ts') (hi : InhSub ts) : InhSub ts' := by
  have hgrow : Grow K0 ts ts' := addFeature_grow K0 hc hf rfl h
  have hc' := consistent_addFeature_aux ts ts' dom f hc h
  obtain ⟨td, htd, ⟨_, rfl⟩ | ⟨hchk, _, hpush⟩⟩ := addFeature_cases h
  · exact hi
  · have hT := addFeature_target hc hf htd hpush
    intro t' ht' s ps' hs hps' g hg
    have hft' : find? ts' t'.name = some t' := find?_of_mem hc'.nodup ht'
    obtain ⟨t, hft, htr⟩ := find?_transfer hT.skel hft'
    obtain ⟨ps, hfps, _⟩ := find?_transfer hT.skel hps'
    have hts : t.super = some s := by rw [← hs]; exact ((tr_eq_iff t t').mp htr).2.1
    have htm : t ∈ ts.types := find?_mem hft
    -- what the supertype's record had, it still has
    have hold : ∀ g ∈ t.inh, g ∈ ps'.own ++ ps'.inh := by
      intro g hg
      obtain ⟨ps'', hps'', _, _, o1, i1, _⟩ := hgrow s ps hfps
      rw [hps'] at hps''; cases hps''
      rcases List.mem_append.mp (hi t htm s ps hts hfps g hg) with h1 | h1
      · exact List.mem_append_left _ (o1 g h1)
      · exact List.mem_append_right _ (i1 g h1)
    rcases hT.cases hft hft' with ⟨_, e⟩ | ⟨hxd, hanc, hnin, e⟩ | ⟨_, e, _⟩
    · rw [e] at hg; exact hold g hg
    · rw [e] at hg
      rcases List.mem_append.mp hg with hg | hg
      · exact hold g hg
      · simp only [List.mem_singleton] at hg
        subst hg
        rcases hanc.inv hft with e1 | ⟨s1, hs1, hanc1⟩
        · exact absurd e1.symm hxd
        · rw [hts] at hs1; cases hs1
          rcases hT.cases hfps hps' with ⟨_, e2⟩ | ⟨_, _, _, e2⟩ | ⟨_, e2, himp⟩
          · rw [e2]; simp
          · rw [e2]; simp
          · exfalso
            have hn : g.name ∈ fnames ps.inh := himp hanc1
            exact hnin ((hf.inherit' htm hts hfps g.name).mpr (Or.inr hn))
    · rw [e] at hg; exact hold g hg

theorem ownOK_addFeature (ts ts' : TypeSystem) (dom : String) (f : Feature)
    (hc : Consistent ts) (hf : FeatInv ts) (h : addFeature ts dom f = .ok ts') (hi : OwnOK ts)
    (hfw : featWFB f = true) (hfr : hasExact ts f.range = true)
    (hfe : ∀ e, f.elem = some e → hasExact ts e = true) : OwnOK ts' := by
  have hsk := skel_addFeature ts ts' dom f hc.nodup h
  have hreg : ∀ x, hasExact ts x = true → hasExact ts' x = true := fun x hx => hasExact_of_skel hsk hx
  have hc' := consistent_addFeature_aux ts ts' dom f hc h
  obtain ⟨td, htd, ⟨_, rfl⟩ | ⟨hchk, _, hpush⟩⟩ := addFeature_cases h
  · exact hi
  · have hT := addFeature_target hc hf htd hpush
    intro t' ht' g hg
    have hft' : find? ts' t'.name = some t' := find?_of_mem hc'.nodup ht'
    obtain ⟨t, hft, _⟩ := find?_transfer hT.skel hft'
    have hold : ∀ g ∈ t.own, featWFB g = true ∧ hasExact ts' g.range = true ∧
        ∀ e, g.elem = some e → hasExact ts' e = true := by
      intro g hg
      obtain ⟨h1, h2, h3⟩ := hi t (find?_mem hft) g hg
      exact ⟨h1, hreg _ h2, fun e he => hreg _ (h3 e he)⟩
    rcases hT.cases hft hft' with ⟨_, e⟩ | ⟨_, _, _, e⟩ | ⟨_, e, _⟩
    · rw [e] at hg
      rcases List.mem_append.mp hg with hg | hg
      · exact hold g hg
      · simp only [List.mem_singleton] at hg
        subst hg
        exact ⟨hfw, hreg _ hfr, fun e he => hreg _ (hfe e he)⟩
    · rw [e] at hg; exact hold g hg
    · rw [e] at hg; exact hold g hg

/-! ### what `createFeature` adds -/

theorem createFeature_shape (ts ts' : TypeSystem) (dom name range : String) (elem descr : Option String)
    (multi : Option Bool) (hdot : dom.contains '.' = true)
    (h : createFeature ts dom name range elem descr multi = .ok ts') :
    ∃ f, addFeature ts dom f = .ok ts' ∧ featWFB f = true ∧ hasExact ts f.range = true ∧
      ∀ e, f.elem = some e → hasExact ts e = true := by
  have hwf : ∀ (dn rn : String) (el ds : Option String),
      featWFB { name := if (name == "self" || name == "type") = true then name ++ "_" else name, domain := dn,
                range := rn, elem := el, descr := ds, multi := multi,
                reserved := name == "self" || name == "type" } = true := by
    intro dn rn el ds
    unfold featWFB
    simp only []
    by_cases h1 : name = "self"
    · subst h1; decide
    · by_cases h2 : name = "type"
      · subst h2; decide
      · simp [h1, h2]
  have hmem : ∀ {n : String} {t : TypeRec}, getType ts n = .ok t → hasExact ts t.name = true := by
    intro n t hg
    exact (hasExact_iff_mem ts t.name).mpr (List.mem_map.mpr ⟨t, getType_mem hg, rfl⟩)
  unfold createFeature at h
  simp only [bind, Except.bind] at h
  cases hd : getType ts dom with
  | error e => rw [hd] at h; cases h
  | ok d =>
    have hdn : d.name = dom := getType_dotted hdot hd
    rw [hd] at h; simp only at h
    rw [hdn] at h
    cases hr : getType ts range with
    | error e => rw [hr] at h; cases h
    | ok r =>
      rw [hr] at h; simp only at h
      cases elem with
      | none =>
        simp only [pure, Except.pure] at h
        exact ⟨_, h, hwf _ _ _ _, hmem hr, fun e he => by cases he⟩
      | some en =>
        simp only at h
        cases he : getType ts en with
        | error e => rw [he] at h; cases h
        | ok e =>
          rw [he] at h; simp only [pure, Except.pure] at h
          refine ⟨_, h, hwf _ _ _ _, hmem hr, ?_⟩
          intro e' he'
          simp only [Option.some.injEq] at he'
          subst he'
          exact hmem he

/-! ### histories -/

structure XHist (ts : TypeSystem) : Prop where
  hist : Hist ts
  inhSub : InhSub ts
  ownOK : OwnOK ts
  red : ts.redeclared = []
  growDoc : Grow K1 Gen.builtinTS ts

theorem xhist_builtin : XHist Gen.builtinTS :=
  ⟨hist_builtin, inhSub_builtins.1, ownOK_builtins.1, rfl, Grow.refl _ _⟩

theorem xhist_history : ∀ (ops : List TsOp) (ts : TypeSystem), XHist ts → UserOnlyNoDoc Gen.consts ops →
    XHist (ops.foldl (applyOp Gen.consts) ts) := by
  intro ops
  induction ops with
  | nil => intro ts h _; exact h
  | cons op ops ih =>
    intro ts h hu
    have hu1 : UserOnly Gen.consts [op] := by
      have := hu.1
      cases op with
      | createType n s d => trivial
      | createFeature dom nm r e d m => exact ⟨this.1, this.2.1, trivial⟩
    have hH : Hist (applyOp Gen.consts ts op) := hist_history [op] ts h.hist hu1
    have hu' : UserOnlyNoDoc Gen.consts ops := by
      refine ⟨?_, fun o ho => hu.2 o (List.mem_cons_of_mem _ ho)⟩
      have := hu.1
      cases op with
      | createType n s d => exact this
      | createFeature dom nm r e d m => exact this.2.2
    apply ih _ _ hu'
    cases op with
    | createType n s d =>
      simp only [applyOp] at hH ⊢
      cases hn : hasExact ts n with
      | true => simpa using h
      | false =>
        simp only [Bool.false_eq_true, if_false]
        cases hts : createType Gen.consts ts n s d with
        | error e => exact h
        | ok ts' =>
          simp only [hn, hts, Bool.false_eq_true, if_false] at hH
          exact ⟨hH, inhSub_createType _ ts ts' n s d h.hist.cons h.hist.feat hn hts h.inhSub,
            ownOK_createType _ ts ts' n s d h.hist.cons h.hist.feat hn hts h.ownOK,
            (redeclared_createType _ ts ts' n s d h.hist.cons h.hist.feat hn hts).trans h.red,
            h.growDoc.trans (createType_grow K1 ts ts' n s d h.hist.cons h.hist.feat hn (by
              -- `createType` consults `K.predefined` only for names that are already registered
              unfold createType at hts ⊢
              simp only [hn, Bool.false_and] at hts ⊢
              exact hts))⟩
    | createFeature dom nm r e d m =>
      have hdoc := hu.2 _ List.mem_cons_self
      simp only [] at hdoc
      obtain ⟨hp, hdot, _⟩ := hu.1
      simp only [applyOp] at hH ⊢
      cases hts : createFeature ts dom nm r e d m with
      | error e => exact h
      | ok ts' =>
        simp only [hts] at hH
        obtain ⟨f, hadd, hfw, hfr, hfe⟩ := createFeature_shape ts ts' dom nm r e d m hdot hts
        refine ⟨hH, inhSub_addFeature ts ts' dom f h.hist.cons h.hist.feat hadd h.inhSub,
          ownOK_addFeature ts ts' dom f h.hist.cons h.hist.feat hadd h.ownOK hfw hfr hfe,
          (redeclared_addFeature ts ts' dom f hadd).trans h.red,
          h.growDoc.trans (addFeature_grow K1 h.hist.cons h.hist.feat ?_ hadd)⟩
        show (DOCUMENT_ANNOTATION :: Gen.consts.predefined).contains dom = false
        rw [List.contains_cons, hp, Bool.or_false]
        exact beq_false_of_ne hdoc

end Cassis.TsXml
