/-
Helper lemmas for `Properties/C13Perm.lean`, part B: replaying, in any order and any number of times, declarations
that a type system `o` makes too (`DeclOkP`) never fails and keeps the simulation invariant `SubP o`.
(`Proofs/MergeSelfB.lean` without type descriptions, without the assumption that one pass suffices, and with the
document annotation type, whose first declaration may re-parent it.)
-/
import CassisModel.Proofs.MergePermT
import CassisModel.Proofs.MergePermR2
import CassisModel.Proofs.MergeSelfB

namespace Cassis.TS

variable {X : String → Prop}

/-- a declaration that `o` makes too (its description aside).  For the document annotation type, which exists from the
    start below `uima.tcas.Annotation`, the declared supertype is the final one and lies below `uima.tcas.Annotation`,
    or it lies above and the type has stayed where it was. -/
structure DeclOkP (K : Consts) (o : TypeSystem) (d : Decl) : Prop where
  ex : ∃ t, find? o d.name = some t ∧ (∀ f ∈ d.own, ∃ g ∈ eff t, featureEq g f = true) ∧
    ((t.super = some d.super ∧ (d.name = DOCUMENT_ANNOTATION → Anc o ANNOTATION d.super)) ∨
     (d.name = DOCUMENT_ANNOTATION ∧ t.super = some ANNOTATION ∧ Anc o d.super ANNOTATION))
  nonfinal : d.name ≠ DOCUMENT_ANNOTATION → K.finalTypes.contains d.super = false
  user : K.predefined.contains d.name = false

theorem addOwnFeatures_stepP (K : Consts) (o : TypeSystem) (hfo : FeatInv o) (n : String)
    (hn : K.predefined.contains n = false) :
    ∀ (fs : List Feature) (ts : TypeSystem), Consistent ts → FeatInv ts → SubP o X ts → hasExact ts n = true →
      (∀ f ∈ fs, CovIn o n f) →
      ∃ ts', addOwnFeatures ts n fs = .ok ts' ∧ Consistent ts' ∧ FeatInv ts' ∧ SubP o X ts' ∧ Grow K ts ts' ∧
        ∃ t', find? ts' n = some t' ∧ ∀ f ∈ fs, ∃ g ∈ eff t', featureEq g f = true := by
  intro fs
  induction fs with
  | nil =>
    intro ts hc hf hs hreg _
    obtain ⟨t, ht⟩ := (hasExact_iff_find ts n).mp hreg
    exact ⟨ts, rfl, hc, hf, hs, Grow.refl K ts, t, ht, fun f hf => by cases hf⟩
  | cons f fs ih =>
    intro ts hc hf hs hreg hcov
    have hcov' : CovIn o n { f with domain := n } := by
      obtain ⟨tc, htc, g, hg, hgf⟩ := hcov f List.mem_cons_self
      exact ⟨tc, htc, g, hg, hgf⟩
    obtain ⟨ts1, h1, hs1⟩ := addFeature_subP o hfo ts n { f with domain := n } hc hs hreg hcov'
    have hc1 := consistent_addFeature_aux ts ts1 n _ hc h1
    have hf1 := featInv_addFeature_aux ts ts1 n _ hc hf h1
    have hg1 : Grow K ts ts1 := addFeature_grow K hc hf hn h1
    obtain ⟨t1, ht1, g, hg, hgf⟩ := addFeature_covers hc hf h1
    obtain ⟨ts', h2, hc2, hf2, hs2, hg2, t', ht', hall⟩ :=
      ih ts1 hc1 hf1 hs1 (hg1.reg n hreg) (fun x hx => hcov x (List.mem_cons_of_mem _ hx))
    refine ⟨ts', ?_, hc2, hf2, hs2, hg1.trans hg2, t', ht', ?_⟩
    · simp only [addOwnFeatures, h1]
      exact h2
    · intro x hx
      rcases List.mem_cons.mp hx with rfl | hx
      · obtain ⟨t'', ht'', hsub⟩ := grow_cov hg2 ht1
        rw [ht'] at ht''; cases ht''
        exact ⟨g, hsub g hg, hgf⟩
      · exact hall x hx


/-- what the three tree-preserving branches of a step establish -/
structure StepOut (K : Consts) (o : TypeSystem) (X : String → Prop) (s : MState) (d : Decl) (s' : MState) : Prop where
  cons : Consistent s'.ts
  feat : FeatInv s'.ts
  sub : SubP o X s'.ts
  grow : Grow K s.ts s'.ts
  merged : s'.merged = (if s.merged.contains d.name then s.merged else s.merged ++ [d.name])
  reg : hasExact s'.ts d.name = true
  back : ∀ y, hasExact s'.ts y = true → hasExact s.ts y = true ∨ y = d.name
  kidsKeep : ∀ y ty, find? s.ts y = some ty → y ≠ d.super →
    ∃ ty', find? s'.ts y = some ty' ∧ ty'.children = ty.children
  newLeaf : hasExact s.ts d.name = false → ∃ t', find? s'.ts d.name = some t' ∧ t'.children = []

/-- a name seen for the first time -/
theorem stepP_new (K : Consts) (o : TypeSystem) (hfo : FeatInv o) (s : MState) (d : Decl)
    (hc : Consistent s.ts) (hf : FeatInv s.ts) (hs : SubP o X s.ts)
    (hx : hasExact s.ts d.name = false) (hsup : hasExact s.ts d.super = true)
    (tn : TypeRec) (htn : find? o d.name = some tn) (hex : ¬ X d.name → tn.super = some d.super)
    (hanc : Anc o d.super d.name)
    (hcov : ∀ f ∈ d.own, ∃ g ∈ eff tn, featureEq g f = true)
    (hnf : K.finalTypes.contains d.super = false) (hu : K.predefined.contains d.name = false) :
    ∃ s', processDecl K s d = .ok s' ∧ StepOut K o X s d s' := by
  have hcovIn : ∀ f ∈ d.own, CovIn o d.name f := fun f hf => ⟨tn, htn, hcov f hf⟩
  obtain ⟨sup, hsupf⟩ := (hasExact_iff_find _ _).mp hsup
  obtain ⟨ts1, h1, hc1, hf1, hs1, hg1, hreg1⟩ :=
    createType_stepP K o hfo s.ts d.name d.super d.descr tn sup hc hf hs hx hsupf hnf htn hex hanc
  obtain ⟨ts2, h2, hc2, hf2, hs2, hg2, t', ht', _⟩ :=
    addOwnFeatures_stepP K o hfo d.name hu d.own ts1 hc1 hf1 hs1 hreg1 hcovIn
  obtain ⟨b1, ⟨tl, htl, hkl⟩, k1⟩ := create_frame K s.ts ts1 d.name d.super d.descr sup hc hf hx hsupf h1
  obtain ⟨b2, k2⟩ := addOwn_frame ts1 ts2 d.name d.own hc1 h2
  refine ⟨{ ts := ts2, merged := if s.merged.contains d.name then s.merged else s.merged ++ [d.name] },
    ?_, hc2, hf2, hs2, hg1.trans hg2, rfl, (hasExact_iff_find _ _).mpr ⟨t', ht'⟩, ?_, ?_, ?_⟩
  · simp only [processDecl, hx, bind, Except.bind, pure, Except.pure, Bool.not_false, if_true, h1, h2]
  · intro y hy
    exact b1 y (by rw [← b2 y]; exact hy)
  · intro y ty hy hys
    obtain ⟨t1, ht1, hk1⟩ := k1 y ty hy hys
    obtain ⟨t2, ht2, hk2, _⟩ := k2 y t1 ht1
    exact ⟨t2, ht2, hk2.trans hk1⟩
  · intro _
    obtain ⟨t2, ht2, hk2, _⟩ := k2 d.name tl htl
    exact ⟨t2, ht2, hk2.trans hkl⟩

/-- the features of a registered name (the tree stays as it is) -/
theorem stepP_feats (K : Consts) (o : TypeSystem) (hfo : FeatInv o) (s : MState) (d : Decl)
    (hc : Consistent s.ts) (hf : FeatInv s.ts) (hs : SubP o X s.ts)
    (hx : hasExact s.ts d.name = true)
    (tn : TypeRec) (htn : find? o d.name = some tn)
    (hcov : ∀ f ∈ d.own, ∃ g ∈ eff tn, featureEq g f = true) (hu : K.predefined.contains d.name = false) :
    ∃ ts2, addOwnFeatures s.ts d.name d.own = .ok ts2 ∧
      StepOut K o X s d { ts := ts2, merged := if s.merged.contains d.name then s.merged else s.merged ++ [d.name] } := by
  have hcovIn : ∀ f ∈ d.own, CovIn o d.name f := fun f hf => ⟨tn, htn, hcov f hf⟩
  obtain ⟨ts2, h2, hc2, hf2, hs2, hg2, t', ht', _⟩ :=
    addOwnFeatures_stepP K o hfo d.name hu d.own s.ts hc hf hs hx hcovIn
  obtain ⟨b2, k2⟩ := addOwn_frame s.ts ts2 d.name d.own hc h2
  refine ⟨ts2, h2, hc2, hf2, hs2, hg2, rfl, (hasExact_iff_find _ _).mpr ⟨t', ht'⟩, ?_, ?_, ?_⟩
  · intro y hy
    exact Or.inl (by rw [← b2 y]; exact hy)
  · intro y ty hy _
    obtain ⟨t2, ht2, hk2, _⟩ := k2 y ty hy
    exact ⟨t2, ht2, hk2⟩
  · intro hn
    rw [hx] at hn; cases hn

/-- a registered name declared with its registered supertype -/
theorem stepP_same (K : Consts) (o : TypeSystem) (hfo : FeatInv o) (s : MState) (d : Decl)
    (hc : Consistent s.ts) (hf : FeatInv s.ts) (hs : SubP o X s.ts)
    (ex : TypeRec) (he : find? s.ts d.name = some ex) (hss : ex.super = some d.super)
    (tn : TypeRec) (htn : find? o d.name = some tn)
    (hcov : ∀ f ∈ d.own, ∃ g ∈ eff tn, featureEq g f = true) (hu : K.predefined.contains d.name = false) :
    ∃ s', processDecl K s d = .ok s' ∧ StepOut K o X s d s' := by
  have hx : hasExact s.ts d.name = true := (hasExact_iff_find _ _).mpr ⟨ex, he⟩
  obtain ⟨ts2, h2, hout⟩ := stepP_feats K o hfo s d hc hf hs hx tn htn hcov hu
  refine ⟨_, ?_, hout⟩
  simp only [processDecl, hx, he, hss, bind, Except.bind, pure, Except.pure, Bool.not_true,
    Option.getD_some, bne_self_eq_false, Bool.false_eq_true, if_false, h2]

/-- a registered name declared with a proper ancestor of its registered supertype -/
theorem stepP_noop (K : Consts) (o : TypeSystem) (hfo : FeatInv o) (s : MState) (d : Decl)
    (hc : Consistent s.ts) (hf : FeatInv s.ts) (hs : SubP o X s.ts)
    (ex : TypeRec) (exSup : String) (he : find? s.ts d.name = some ex) (hss : ex.super = some exSup)
    (hne : d.super ≠ exSup) (r1 : hasExact s.ts exSup = true) (r2 : hasExact s.ts d.super = true)
    (h1 : ¬ Anc s.ts exSup d.super) (h2 : Anc s.ts d.super exSup)
    (tn : TypeRec) (htn : find? o d.name = some tn)
    (hcov : ∀ f ∈ d.own, ∃ g ∈ eff tn, featureEq g f = true) (hu : K.predefined.contains d.name = false) :
    ∃ s', processDecl K s d = .ok s' ∧ StepOut K o X s d s' := by
  have hx : hasExact s.ts d.name = true := (hasExact_iff_find _ _).mpr ⟨ex, he⟩
  obtain ⟨ts2, h2', hout⟩ := stepP_feats K o hfo s d hc hf hs hx tn htn hcov hu
  refine ⟨_, ?_, hout⟩
  have s1 : subsumes s.ts exSup d.super = false := by
    cases hsb : subsumes s.ts exSup d.super with
    | false => rfl
    | true => exact absurd ((subsumes_iff_ancestor_aux s.ts hc _ _ r1 r2).mp hsb) h1
  have s2 : subsumes s.ts d.super exSup = true := (subsumes_iff_ancestor_aux s.ts hc _ _ r2 r1).mpr h2
  rw [processDecl_noop K s d ex exSup he hss hne r1 r2 s1 s2, h2']

end Cassis.TS
