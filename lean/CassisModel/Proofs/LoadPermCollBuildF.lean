/-
Element-order independence on the whole format (`C05PermColl`), third pass, part F: `rehome` and `convertReferenced`.
`LoadPermBuildF.lean` with the expectation functions `E2c`/`E3c`; both loops also keep the objects without id frozen
(as `RoundTripCollBuildF.lean`).
-/
import CassisModel.Proofs.LoadPermCollBuildC

namespace Cassis.Xmi.LPC
open Cassis.TS Cassis.Traverse Cassis.Lex Cassis.Xmi Cassis.Xmi.RTB Cassis.Xmi.LP

section
variable {K : Consts} {ts : TypeSystem} {cass : List Cas} {ci : Nat} {c : Cas} {hp H : Heap}
  {L : List (Int × Nat)} {na : Int → Nat} {n0 : Nat} {p : Pass1} {ia : Int → String → Nat} {ci' : Nat} {o0 : Obj} {hp0 : Heap}

/-- `rehome`: every recorded own sofa is written back -/
theorem CtxC.rehome_ok (ctx : CtxC K ts cass ci c hp H L na n0 p) (Cp : Int → Prop) :
    ∀ (ms : List (Int × Val)), (∀ r ∈ ms, RTCB.MSOk K ts H L na ia ci' r) → ∀ (hpX : Heap),
      RTCB.HInv K ts cass H L na ia ci' Cp (fun x => x ∈ ms.map (·.1)) hpX → hpX[n0]? = some o0 →
      ∃ hpR, rehome p.fss ms hpX = .ok hpR ∧ RTCB.HInv K ts cass H L na ia ci' Cp (fun _ => False) hpR ∧
        hpR[n0]? = some o0 ∧ Frz hpX hpR := by
  intro ms
  induction ms with
  | nil =>
    intro _ hpX hinv hnull
    refine ⟨hpX, by rw [rehome], hinv.mono (fun _ _ => Iff.rfl) (fun _ _ h => by cases h), hnull, Frz.refl _⟩
  | cons r ms ih =>
    intro hms hpX hinv hnull
    obtain ⟨m, v⟩ := r
    obtain ⟨am, o, v0, vn, hq, ho, hv0, h4, h5⟩ := hms (m, v) List.mem_cons_self
    simp only at hq h4 h5
    subst h5
    obtain ⟨o_, o', ho_, ho', hok⟩ := hinv (m, am) hq
    simp only at ho_ ho' hok
    rw [ho] at ho_; cases ho_
    have hs' : (alistGet? o'.slots "sofa").isSome = true := (hok.isSome_iff "sofa").mpr (by rw [hv0]; rfl)
    obtain ⟨w, hw⟩ := Option.isSome_iff_exists.mp hs'
    have hgt : n0 ≠ na m := ctx.nok.ne0 (m, am) hq
    have hok1 : RTCB.ObjOk K ts cass H na ia ci' (Cp m) (m ∈ ms.map (·.1)) o
        { o' with slots := alistSet o'.slots "sofa" (.sofa ci' vn) } m := by
      have := hok.rehome (Kp' := m ∈ ms.map (·.1)) hv0
      rw [← h4] at this
      exact this
    have hinv1 := stepP ctx.nok ctx.lok.nodup hinv hq ho ho' hok1 (fun _ _ _ => Iff.rfl)
      (fun q _ hne hk => by
        rw [List.map_cons, List.mem_cons] at hk
        exact hk.resolve_left hne)
    obtain ⟨hpR, h1, h2, h3, h6⟩ := ih (fun r hr => hms r (List.mem_cons_of_mem _ hr)) _ hinv1
      (by rw [set_get_ne hgt.symm]; exact hnull)
    refine ⟨hpR, ?_, h2, h3, (RTCB.Frz.set_some ho' hok.2.1).trans h6⟩
    rw [rehome]
    rw [ctx.lookup hq]
    dsimp only
    rw [setSlot_existing _ ho' hw]
    exact h1

/-- `convertReferenced` over a work list of entries of the table of structures with pairwise distinct keys -/
theorem CtxC.convRef_loop (ctx : CtxC K ts cass ci c hp H L na n0 p) (cv : List Int) (hcv : ∀ x ∈ cv, x ∈ L.map (·.1))
    (hs0 : o0.slots = []) :
    ∀ (w : List (Int × Nat)), (∀ r ∈ w, FssEntry n0 L na r) → (w.map (·.1)).Nodup → ∀ (hpX : Heap),
      RTCB.HInv K ts cass H L na ia ci' (fun x => x ∈ cv ∨ x ∉ w.map (·.1)) (fun _ => False) hpX → hpX[n0]? = some o0 →
      ∃ hpF, convertReferenced ts p cv w hpX = .ok hpF ∧
        RTCB.HInv K ts cass H L na ia ci' (fun _ => True) (fun _ => False) hpF ∧ Frz hpX hpF := by
  intro w
  induction w with
  | nil =>
    intro _ _ hpX hinv _
    refine ⟨hpX, by rw [convertReferenced], hinv.mono (fun _ _ => ?_) (fun _ _ h => h), Frz.refl _⟩
    simp
  | cons r l ih =>
    intro hent hnd hpX hinv hnull
    have hent' : ∀ r ∈ l, FssEntry n0 L na r := fun r hr => hent r (List.mem_cons_of_mem _ hr)
    rw [List.map_cons, List.nodup_cons] at hnd
    obtain ⟨hil, hnd'⟩ := hnd
    rcases hent r List.mem_cons_self with e | ⟨q, hqL, e⟩
    · -- the `cas:NULL` entry
      subst e
      have h0c : cv.contains 0 = false := by
        cases h : cv.contains 0
        · rfl
        · exact absurd (hcv 0 (List.contains_iff_mem.mp h)) ctx.zero_not_id
      have hinv' : RTCB.HInv K ts cass H L na ia ci' (fun x => x ∈ cv ∨ x ∉ l.map (·.1)) (fun _ => False) hpX := by
        refine hinv.mono (fun q hq => ?_) (fun _ _ h => h)
        have hne : q.1 ≠ 0 := (ctx.lok.ids q hq).2
        simp [hne]
      obtain ⟨hpF, hF, hinvF, hfrzF⟩ := ih hent' hnd' hpX hinv' hnull
      refine ⟨hpF, ?_, hinvF, hfrzF⟩
      rw [convertReferenced, h0c]
      simp only [Bool.false_eq_true, if_false]
      rw [hnull]
      dsimp only
      have hslot : slot hpX n0 "sofa" = none := by
        show (hpX[n0]?).bind _ = _
        rw [hnull]
        show alistGet? o0.slots "sofa" = none
        rw [hs0]; rfl
      rw [hslot]
      dsimp only
      rw [ite_self]
      exact hF
    · -- the entry of a collected structure
      obtain ⟨i, ai⟩ := q
      simp only at e
      subst e
      have hq : (i, ai) ∈ L := hqL
      simp only at hil
      obtain ⟨o, o', ho, ho', hok⟩ := hinv (i, ai) hq
      simp only at ho ho' hok
      rw [convertReferenced]
      by_cases hc : cv.contains i = true
      · rw [if_pos hc]
        have hic : i ∈ cv := List.contains_iff_mem.mp hc
        refine ih hent' hnd' hpX (hinv.mono (fun q _ => ?_) (fun _ _ h => h)) hnull
        by_cases e : q.1 = i
        · rw [e]; simp [hic]
        · simp [e]
      · rw [if_neg hc]
        have hic : i ∉ cv := fun h => hc (List.contains_iff_mem.mpr h)
        have hnC : ¬ (i ∈ cv ∨ i ∉ ((i, na i) :: l).map (·.1)) := by simp [hic]
        rw [ho']
        dsimp only
        cases hann : isInstanceOf ts o.ty ANNOTATION
        · rw [hok.1, hann]
          simp only [Bool.false_eq_true, if_false]
          refine ih hent' hnd' hpX (hinv.mono2 (fun q hq' => ?_) (fun _ _ h => h)) hnull
          by_cases e : q.1 = i
          · right
            intro o2 ho2
            obtain ⟨x, a⟩ := q
            simp only at e
            subst e
            have := addr_unique ctx.lok.nodup hq' hq
            subst this
            rw [ho] at ho2; cases ho2
            exact hann
          · left; simp [e]
        · rw [hok.1, hann]
          simp only [if_true]
          obtain ⟨vn, v, text, o1, hs, hv, ht, hconv, hok1⟩ := ctx.convert_ann hq ho ho' hok hnC hann
          have hslot : slot hpX (na i) "sofa" = some (.sofa ci' vn) := by
            show (hpX[na i]?).bind _ = _
            rw [ho']
            obtain ⟨w, hw, hso⟩ := hok.2.2.2 "sofa" _ hs
            unfold RTCB.SlotOk at hso
            rw [if_pos rfl] at hso
            have : w = E3c K ts H na ia ci' o "sofa" (.sofa ci vn) := hso.resolve_right (fun h => h.1)
            rw [this] at hw
            exact hw
          rw [hslot]
          dsimp only
          rw [ctx.find_sofa hv]
          dsimp only
          have htext : (psofaOf (vn, v)).text = some (docText text) := by
            show (v.sofa.text).map docText = _
            rw [ht]; rfl
          rw [htext, hconv]
          dsimp only
          have hgt : n0 ≠ na i := ctx.nok.ne0 (i, ai) hq
          obtain ⟨hpF, g1, g2, g3⟩ := ih hent' hnd' _ (stepP ctx.nok ctx.lok.nodup hinv hq ho ho' (hok1 _ (Or.inr hil))
            (fun q _ hne => by simp [hne]) (fun _ _ _ h => h)) (by rw [set_get_ne hgt.symm]; exact hnull)
          exact ⟨hpF, g1, g2, (RTCB.Frz.set_some ho' hok.2.1).trans g3⟩

/-- `convertReferenced` over the whole table of structures (any order, the `cas:NULL` entry anywhere) -/
theorem CtxC.convRef_all (ctx : CtxC K ts cass ci c hp H L na n0 p) (cv : List Int) (hcv : ∀ x ∈ cv, x ∈ L.map (·.1))
    (hs0 : o0.slots = []) (hpX : Heap)
    (hinv : RTCB.HInv K ts cass H L na ia ci' (fun x => x ∈ cv) (fun _ => False) hpX) (hnull : hpX[n0]? = some o0) :
    ∃ hpF, convertReferenced ts p cv p.fss hpX = .ok hpF ∧
      RTCB.HInv K ts cass H L na ia ci' (fun _ => True) (fun _ => False) hpF ∧ Frz hpX hpF := by
  refine ctx.convRef_loop cv hcv hs0 p.fss ctx.p1.fss_entry (ctx.p1.fss_nodup (idsOk_of_lokW ctx.lok)) hpX
    (hinv.mono (fun q hq => ?_) (fun _ _ h => h)) hnull
  have : q.1 ∈ p.fss.map (·.1) := List.mem_map.mpr ⟨(q.1, na q.1), ctx.p1.mem_fss hq, rfl⟩
  simp [this]

end

end Cassis.Xmi.LPC
