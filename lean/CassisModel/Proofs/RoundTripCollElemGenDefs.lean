/-
Round trip with collections, layer G1 (first pass on a general structure): shared definitions.

Per feature `f` of the structure the writer contributes at most one attribute (`ca f : Option String`, key `f.name`)
and a list of child elements (`ck f : List (Option String)`, all with the tag `f.name`), never both.  The element
is `{ attrs := (ID, id) :: gAttrs ca fs, kids := gKids ck fs }`; the reader layer (`…ElemGenR`) is proved for arbitrary
`ca`/`ck` (under `ROk`), the writer layer (`…ElemGenW`) shows the shape per kind of feature.
-/
import CassisModel.Proofs.RoundTripCollStmts
import CassisModel.Proofs.RoundTripElem

namespace Cassis.Xmi.CG1
open Cassis.TS Cassis.Traverse Cassis.Lex

/-- the attributes, given the attribute value per feature -/
def gAttrs (ca : Feature → Option String) : List Feature → List (String × String)
  | [] => []
  | f :: fs => (match ca f with | some s => [(f.name, s)] | none => []) ++ gAttrs ca fs

/-- the child elements, given the texts per feature -/
def gKids (ck : Feature → List (Option String)) : List Feature → List (String × Option String)
  | [] => []
  | f :: fs => (ck f).map (fun e => (f.name, e)) ++ gKids ck fs

/-- the head `buildPrimList` stores for the text of a child element (string lists) -/
def txtHead : Option String → Val
  | some s => .str s
  | none => .none

/-- the text of the child element the writer emits for a head of a string list -/
def kidTxt : Val → Option String
  | .str s => normTxt (some s)
  | _ => none

/-- the collection the reader builds at once for the child elements `l` of feature `f` stands in `hp`, `w` refers to it -/
def KidAt (K : Consts) (hp : Heap) (f : Feature) (l : List (Option String)) (w : Val) : Prop :=
  ∃ addr : Nat, w = .ref addr ∧
    ((isPrimitiveArray K f.range = true ∧ ArrAt hp addr (.strs l)) ∨
     (isPrimitiveArray K f.range = false ∧ ListAt hp addr (l.map txtHead) ∧ l.length < hp.length))

theorem KidAt.frz {K : Consts} {hp hp' : Heap} {f : Feature} {l : List (Option String)} {w : Val}
    (h : KidAt K hp f l w) (fr : Frz hp hp') : KidAt K hp' f l w := by
  obtain ⟨addr, hw, h⟩ := h
  refine ⟨addr, hw, ?_⟩
  rcases h with ⟨h1, h2⟩ | ⟨h1, h2, h3⟩
  · exact Or.inl ⟨h1, h2.frz fr⟩
  · exact Or.inr ⟨h1, h2.frz fr, Nat.lt_of_lt_of_le h3 fr.1⟩

/-- what the reader needs to know about the contributions of the features of `t` -/
structure ROk (K : Consts) (t : TypeRec) (ca : Feature → Option String) (ck : Feature → List (Option String)) :
    Prop where
  nodup : (ctorFields t).Nodup
  names : ∀ f ∈ allFeatures t, f.name ≠ ID ∧ f.name ≠ "self" ∧ f.name ≠ "type"
  /-- a feature writes an attribute or children, never both -/
  excl : ∀ f ∈ allFeatures t, ck f ≠ [] → ca f = none
  /-- children only for StringArray / StringList ranges -/
  kid : ∀ f ∈ allFeatures t, ck f ≠ [] → f.name ≠ "sofa" ∧
    (isPrimitiveArray K f.range = true ∨ (isPrimitiveList K f.range = true ∧ f.range = STRING_LIST))
  /-- the `sofa` attribute is an integer literal -/
  sofa : ∀ f ∈ allFeatures t, f.name = "sofa" → ∀ s, ca f = some s → (parseInt s).isSome = true

/-- the element with the contributions `ca`/`ck` -/
def gElem (ty : String) (x : Int) (ca : Feature → Option String) (ck : Feature → List (Option String))
    (fs : List Feature) : XElem :=
  { ty := ty, attrs := (ID, showInt x) :: gAttrs ca fs, kids := gKids ck fs }

/-- the attributes as written: under the names `xmlName` -/
def gAttrsW (ca : Feature → Option String) : List Feature → List (String × String)
  | [] => []
  | f :: fs => (match ca f with | some s => [(xmlName f, s)] | none => []) ++ gAttrsW ca fs

/-- the child elements as written: with the tags `xmlName` -/
def gKidsW (ck : Feature → List (Option String)) : List Feature → List (String × Option String)
  | [] => []
  | f :: fs => (ck f).map (fun e => (xmlName f, e)) ++ gKidsW ck fs

/-- the element as written (`gElem`: the same with every name replaced by the stored name, which is what the reader
    makes of it) -/
def gElemW (ty : String) (x : Int) (ca : Feature → Option String) (ck : Feature → List (Option String))
    (fs : List Feature) : XElem :=
  { ty := ty, attrs := (ID, showInt x) :: gAttrsW ca fs, kids := gKidsW ck fs }

/-- READER LAYER statement -/
def ParseGenStmt : Prop :=
  ∀ (K : Consts) (ts : TypeSystem) (tsIdx : Nat) (t : TypeRec) (x : Int) (ty : String)
    (ca : Feature → Option String) (ck : Feature → List (Option String)),
    getTypeExact ts ty = .ok t → isPrimitiveArray K ty = false → ROk K t ca ck → ∀ hpCur : Heap,
    ∃ (ext : List Obj) (o1 : Obj),
      parseFsElem K ts tsIdx hpCur (gElem ty x ca ck (allFeatures t))
        = .ok (hpCur ++ ext ++ [o1], x, (hpCur ++ ext).length) ∧
      (∀ ob ∈ ext, ob.xid = none) ∧ o1.ty = t.name ∧ o1.xid = some x ∧
      o1.slots.map (·.1) = (ctorFields t).eraseDups ∧
      ∀ f ∈ allFeatures t, ∃ w, alistGet? o1.slots f.name = some w ∧
        (ck f = [] → w = (alistGet? (mergedOf (gAttrs ca (allFeatures t))) f.name).getD .none) ∧
        (ck f ≠ [] → KidAt K (hpCur ++ ext) f (ck f) w)

/-- the contribution (`av`, `ks`) of an inlined collection feature with slot value `v` -/
def InlW (K : Consts) (H : Heap) (f : Feature) (v : Val) (av : Option String) (ks : List (Option String)) : Prop :=
  (v = .none ∧ av = none ∧ ks = []) ∨
  ∃ c : Nat, v = .ref c ∧
    ( (∃ s : String, av = some s ∧ ks = [] ∧ ∀ hpX : Heap, Inl1R H hpX f.range c (.str s))
    ∨ (av = none ∧ ks ≠ [] ∧ f.range = STRING_ARRAY ∧ isPrimitiveArray K f.range = true ∧
        ∃ l : List (Option String), slot H c "elements" = some (.strs l) ∧ l ≠ [] ∧ ks = l.map normTxt)
    ∨ (av = none ∧ ks ≠ [] ∧ f.range = STRING_LIST ∧ isPrimitiveArray K f.range = false ∧
        isPrimitiveList K f.range = true ∧
        ∃ hs : List Val, collectList H (H.length + 1) (.ref c) = .ok hs ∧ hs ≠ [] ∧ ks = hs.map kidTxt ∧
          ks.map txtHead = hs.map strHead) )

/-- the canonical shape of the output of `renderFeature` -/
def featOut (f : Feature) (av : Option String) (ks : List (Option String)) :
    List (String × String) × List (String × Option String) :=
  ((match av with | some s => [(xmlName f, s)] | none => []), ks.map (fun e => (xmlName f, e)))

/-- WRITER LAYER statement, shared features: like a flat reference -/
def RenderSharedStmt : Prop :=
  ∀ (K : Consts) (ts : TypeSystem) (cass : List Cas) (H : Heap) (a : Nat) (isAnn : Bool) (f : Feature) (o : Obj),
    H[a]? = some o → NameOk f → SharedFeat K ts H o f → AnnSofa cass isAnn o →
    ∃ v : Val, alistGet? o.slots f.name = some v ∧ (v = .none ∨ ∃ b : Nat, v = .ref b) ∧
      renderFeature K ts cass H a isAnn f = .ok (featOut f (flatTok cass H isAnn o f.name v) [])

/-- WRITER LAYER statement, inlined features -/
def RenderInlineStmt : Prop :=
  ∀ (K : Consts) (ts : TypeSystem) (cass : List Cas) (H : Heap) (a : Nat) (isAnn : Bool) (f : Feature) (o : Obj),
    H[a]? = some o → NameOk f → InlineFeat K ts H o f → AnnSofa cass isAnn o →
    ∃ (v : Val) (av : Option String) (ks : List (Option String)), alistGet? o.slots f.name = some v ∧
      renderFeature K ts cass H a isAnn f = .ok (featOut f av ks) ∧ InlW K H f v av ks

end Cassis.Xmi.CG1
