/-
Proofs for C20 (`cas_to_comparable_text`): the `_aux` lemmas used by `Properties/C20.lean`.
-/
import CassisModel.Spec.Comparable

namespace Cassis.Comparable
open Cassis.TS Cassis.Traverse

/-! ### insertion sort: permutation -/

theorem insertFs_perm (lt : Nat → Nat → Bool) (x : Nat) (l : List Nat) :
    (insertFs lt x l).Perm (x :: l) := by
  induction l with
  | nil => exact List.Perm.refl _
  | cons y ys ih =>
    simp only [insertFs]
    split
    · exact List.Perm.refl _
    · exact (List.Perm.cons y ih).trans (List.Perm.swap x y ys)

theorem foldl_insertFs_perm (lt : Nat → Nat → Bool) (l acc : List Nat) :
    (l.foldl (fun acc x => insertFs lt x acc) acc).Perm (l ++ acc) := by
  induction l generalizing acc with
  | nil => exact List.Perm.refl _
  | cons a l ih =>
    simp only [List.foldl_cons, List.cons_append]
    refine (ih (insertFs lt a acc)).trans ?_
    refine (List.Perm.append_left l (insertFs_perm lt a acc)).trans ?_
    exact List.perm_middle

theorem sortFs_perm_aux (lt : Nat → Nat → Bool) (l : List Nat) : (sortFs lt l).Perm l := by
  have := foldl_insertFs_perm lt l []
  simpa [sortFs] using this

/-! ### insertion sort: sortedness w.r.t. `¬ lt b a`, for an `lt` that is asymmetric and transitive on
the members -/

theorem insertFs_sorted (lt : Nat → Nat → Bool) (S : Nat → Prop)
    (hasym : ∀ a b, S a → S b → lt a b = true → lt b a = false)
    (htrans : ∀ a b c, S a → S b → S c → lt a b = true → lt b c = true → lt a c = true)
    (x : Nat) (l : List Nat) (hx : S x) (hl : ∀ a ∈ l, S a)
    (hs : l.Pairwise (fun a b => lt b a = false)) :
    (insertFs lt x l).Pairwise (fun a b => lt b a = false) := by
  induction l with
  | nil => simp [insertFs]
  | cons y ys ih =>
    simp only [insertFs]
    have hy : S y := hl y List.mem_cons_self
    have hys : ∀ a ∈ ys, S a := fun a h => hl a (List.mem_cons_of_mem _ h)
    have hs' := List.pairwise_cons.1 hs
    split
    · rename_i hxy
      refine List.pairwise_cons.2 ⟨?_, hs⟩
      intro z hz
      rcases List.mem_cons.1 hz with hzy | hz
      · subst hzy
        exact hasym _ _ hx hy hxy
      · cases hzx : lt z x with
        | false => rfl
        | true =>
          have h1 := htrans z x y (hys z hz) hx hy hzx hxy
          have h2 := hs'.1 z hz
          rw [h1] at h2
          cases h2
    · rename_i hxy
      refine List.pairwise_cons.2 ⟨?_, ih hys hs'.2⟩
      intro z hz
      have hz' := (insertFs_perm lt x ys).subset hz
      rcases List.mem_cons.1 hz' with hzx | hz
      · subst hzx
        simpa using hxy
      · exact hs'.1 z hz

theorem foldl_insertFs_sorted (lt : Nat → Nat → Bool) (S : Nat → Prop)
    (hasym : ∀ a b, S a → S b → lt a b = true → lt b a = false)
    (htrans : ∀ a b c, S a → S b → S c → lt a b = true → lt b c = true → lt a c = true)
    (l acc : List Nat) (hl : ∀ a ∈ l, S a) (hacc : ∀ a ∈ acc, S a)
    (hs : acc.Pairwise (fun a b => lt b a = false)) :
    (l.foldl (fun acc x => insertFs lt x acc) acc).Pairwise (fun a b => lt b a = false) := by
  induction l generalizing acc with
  | nil => exact hs
  | cons a l ih =>
    simp only [List.foldl_cons]
    have ha : S a := hl a List.mem_cons_self
    refine ih (insertFs lt a acc) (fun b hb => hl b (List.mem_cons_of_mem _ hb)) ?_ ?_
    · intro b hb
      rcases List.mem_cons.1 ((insertFs_perm lt a acc).subset hb) with h | h
      · subst h; exact ha
      · exact hacc b h
    · exact insertFs_sorted lt S hasym htrans a acc ha hacc hs

theorem sortFs_sorted_gen (lt : Nat → Nat → Bool) (S : Nat → Prop)
    (hasym : ∀ a b, S a → S b → lt a b = true → lt b a = false)
    (htrans : ∀ a b c, S a → S b → S c → lt a b = true → lt b c = true → lt a c = true)
    (l : List Nat) (hl : ∀ a ∈ l, S a) :
    (sortFs lt l).Pairwise (fun a b => lt b a = false) :=
  foldl_insertFs_sorted lt S hasym htrans l [] hl (by simp) List.Pairwise.nil

/-! ### the comparator -/

theorem ltFs_self (hp : Heap) (hsh : Nat → Int) (a : Nat) : ltFs hp hsh a a = false := by
  simp [ltFs, cmpFs]

/-- for two structures with offsets `_compare_fs` is the lexicographic order of (begin, −end, hash) -/
theorem ltFs_annot (hp : Heap) (hsh : Nat → Int) (a b : Nat)
    (ha : isAnnot hp a = true) (hb : isAnnot hp b = true) :
    ltFs hp hsh a b = true ↔
      a ≠ b ∧ (beginOf hp a < beginOf hp b ∨ (beginOf hp a = beginOf hp b ∧
        (endOf hp b < endOf hp a ∨ (endOf hp a = endOf hp b ∧ hsh a < hsh b)))) := by
  unfold ltFs cmpFs
  simp only [ha, hb]
  generalize beginOf hp a = ba
  generalize beginOf hp b = bb
  generalize endOf hp a = ea
  generalize endOf hp b = eb
  generalize hsh a = ha'
  generalize hsh b = hb'
  by_cases hab : a = b
  · simp [hab]
  · simp only [beq_iff_eq, hab, if_false, bne_self_eq_false, Bool.false_eq_true, Bool.and_self,
      if_true, decide_eq_true_eq, ne_eq, not_false_eq_true, true_and]
    by_cases h1 : ba - bb = 0
    · have h1' : ((ba - bb) != 0) = false := by simp [h1]
      simp only [h1', Bool.false_eq_true, if_false]
      by_cases h2 : eb - ea = 0
      · have h2' : ((eb - ea) != 0) = false := by simp [h2]
        simp only [h2', Bool.false_eq_true, if_false]
        by_cases h3 : ha' = hb'
        · simp [h3]; omega
        · simp only [h3, if_false]
          by_cases h4 : ha' < hb'
          · simp [h4]; omega
          · simp [h4]; omega
      · have h2' : ((eb - ea) != 0) = true := by simp [h2]
        simp only [h2', if_true]
        omega
    · have h1' : ((ba - bb) != 0) = true := by simp [h1]
      simp only [h1', if_true]
      omega

/-! ### `sortFs_sorted` -/

theorem sortFs_sorted_aux (hp : Heap) (hsh : Nat → Int) (l : List Nat) (ha : ∀ a ∈ l, isAnnot hp a = true) :
    (sortFs (ltFs hp hsh) l).Pairwise (offsetLe hp) := by
  have hs := sortFs_sorted_gen (ltFs hp hsh) (fun a => isAnnot hp a = true)
    (by
      intro a b sa sb hab
      rw [ltFs_annot hp hsh a b sa sb] at hab
      apply Bool.eq_false_iff.2
      rw [Ne, ltFs_annot hp hsh b a sb sa]
      omega)
    (by
      intro a b c sa sb sc hab hbc
      rw [ltFs_annot hp hsh a b sa sb] at hab
      rw [ltFs_annot hp hsh b c sb sc] at hbc
      rw [ltFs_annot hp hsh a c sa sc]
      refine ⟨?_, by omega⟩
      intro hac
      subst hac
      omega)
    l ha
  refine hs.imp_of_mem ?_
  intro a b hma hmb hab
  have sa := ha a ((sortFs_perm_aux _ l).subset hma)
  have sb := ha b ((sortFs_perm_aux _ l).subset hmb)
  have hab' := Bool.eq_false_iff.1 hab
  rw [Ne, ltFs_annot hp hsh b a sb sa] at hab'
  unfold offsetLe
  by_cases h : b = a
  · subst h; omega
  · omega

/-! ### `sortFs_perm_invariant` -/

/-- strict version of `offsetLe` -/
def offsetLt (hp : Heap) (a b : Nat) : Prop :=
  beginOf hp a < beginOf hp b ∨ (beginOf hp a = beginOf hp b ∧ endOf hp b < endOf hp a)

theorem ltFs_distinct (hp : Heap) (hsh : Nat → Int) (l : List Nat) (hd : Distinct hp l)
    (hty : ∀ a ∈ l, ∀ b ∈ l, tyOf hp a = tyOf hp b) (a b : Nat) (ha : a ∈ l) (hb : b ∈ l) :
    ltFs hp hsh a b = true ↔ offsetLt hp a b := by
  by_cases hab : a = b
  · subst hab
    rw [ltFs_self]
    unfold offsetLt
    constructor
    · intro h; cases h
    · intro h; omega
  · obtain ⟨sa, sb, hne⟩ := hd a ha b hb hab (hty a ha b hb)
    rw [ltFs_annot hp hsh a b sa sb]
    unfold offsetLt
    constructor
    · intro h; omega
    · intro h; exact ⟨hab, by omega⟩

theorem sortFs_sorted_distinct (hp : Heap) (hsh : Nat → Int) (l l' : List Nat) (hd : Distinct hp l)
    (hty : ∀ a ∈ l, ∀ b ∈ l, tyOf hp a = tyOf hp b) (hsub : ∀ a ∈ l', a ∈ l) :
    (sortFs (ltFs hp hsh) l').Pairwise (fun a b => ¬ offsetLt hp b a) := by
  have hs := sortFs_sorted_gen (ltFs hp hsh) (fun a => a ∈ l)
    (by
      intro a b sa sb hab
      rw [ltFs_distinct hp hsh l hd hty a b sa sb] at hab
      apply Bool.eq_false_iff.2
      rw [Ne, ltFs_distinct hp hsh l hd hty b a sb sa]
      unfold offsetLt at *
      omega)
    (by
      intro a b c sa sb sc hab hbc
      rw [ltFs_distinct hp hsh l hd hty a b sa sb] at hab
      rw [ltFs_distinct hp hsh l hd hty b c sb sc] at hbc
      rw [ltFs_distinct hp hsh l hd hty a c sa sc]
      unfold offsetLt at *
      omega)
    l' hsub
  refine hs.imp_of_mem ?_
  intro a b hma hmb hab
  have sa := hsub a ((sortFs_perm_aux _ l').subset hma)
  have sb := hsub b ((sortFs_perm_aux _ l').subset hmb)
  have hab' := Bool.eq_false_iff.1 hab
  rwa [Ne, ltFs_distinct hp hsh l hd hty b a sb sa] at hab'

theorem sortFs_perm_invariant_aux (hp : Heap) (hsh hsh' : Nat → Int) (l l' : List Nat) (hperm : l.Perm l')
    (_hn : l.Nodup) (hd : Distinct hp l) (hty : ∀ a ∈ l, ∀ b ∈ l, tyOf hp a = tyOf hp b) :
    sortFs (ltFs hp hsh) l = sortFs (ltFs hp hsh') l' := by
  have h1 := sortFs_sorted_distinct hp hsh l l hd hty (fun _ h => h)
  have h2 := sortFs_sorted_distinct hp hsh' l l' hd hty (fun _ h => hperm.symm.subset h)
  have hp12 : (sortFs (ltFs hp hsh) l).Perm (sortFs (ltFs hp hsh') l') :=
    ((sortFs_perm_aux _ l).trans hperm).trans (sortFs_perm_aux _ l').symm
  refine List.Perm.eq_of_pairwise (le := fun a b => ¬ offsetLt hp b a) ?_ h1 h2 hp12
  intro a b hma hmb hab hba
  have sa : a ∈ l := (sortFs_perm_aux _ l).subset hma
  have sb : b ∈ l := hperm.symm.subset ((sortFs_perm_aux _ l').subset hmb)
  apply Classical.byContradiction
  intro hne
  obtain ⟨_, _, hoff⟩ := hd a sa b sb hne (hty a sa b sb)
  unfold offsetLt at hab hba
  omega

/-! ### grouping -/

theorem group_perm_aux (hp : Heap) (addrs addrs' : List Nat) (h : addrs.Perm addrs') (t : String) :
    (group hp addrs t).Perm (group hp addrs' t) :=
  List.Perm.filter _ h

theorem nodup_eraseDups_len {α : Type} [BEq α] [LawfulBEq α] (n : Nat) (l : List α) (hl : l.length ≤ n) :
    l.eraseDups.Nodup := by
  induction n generalizing l with
  | zero =>
    have : l = [] := List.eq_nil_of_length_eq_zero (Nat.le_zero.1 hl)
    subst this
    simp
  | succ n ih =>
    cases l with
    | nil => simp
    | cons a as =>
      rw [List.eraseDups_cons, List.nodup_cons]
      refine ⟨?_, ih _ ?_⟩
      · rw [List.mem_eraseDups, List.mem_filter]
        simp
      · have := List.length_filter_le (fun b => !b == a) as
        simp only [List.length_cons] at hl
        omega

theorem nodup_eraseDups {α : Type} [BEq α] [LawfulBEq α] (l : List α) : l.eraseDups.Nodup :=
  nodup_eraseDups_len l.length l (Nat.le_refl _)

theorem typeKeys_perm' (hp : Heap) (addrs addrs' : List Nat) (h : addrs.Perm addrs') :
    (typeKeys hp addrs).Perm (typeKeys hp addrs') := by
  unfold typeKeys
  rw [List.perm_ext_iff_of_nodup (nodup_eraseDups _) (nodup_eraseDups _)]
  intro t
  rw [List.mem_eraseDups, List.mem_eraseDups]
  exact (h.map (tyOf hp)).mem_iff

theorem insertName_perm (x : String) (l : List String) : (insertName x l).Perm (x :: l) := by
  induction l with
  | nil => exact List.Perm.refl _
  | cons y ys ih =>
    simp only [insertName]
    split
    · exact List.Perm.refl _
    · exact (List.Perm.cons y ih).trans (List.Perm.swap x y ys)

theorem sortNames_perm (l : List String) : (sortNames l).Perm l := by
  induction l with
  | nil => exact List.Perm.refl _
  | cons a l ih =>
    simp only [sortNames, List.foldr_cons]
    exact (insertName_perm a _).trans (List.Perm.cons a ih)

theorem insertName_sorted (x : String) (l : List String) (hs : l.Pairwise (· ≤ ·)) :
    (insertName x l).Pairwise (· ≤ ·) := by
  induction l with
  | nil => simp [insertName]
  | cons y ys ih =>
    simp only [insertName]
    have hs' := List.pairwise_cons.1 hs
    split
    · rename_i hxy
      refine List.pairwise_cons.2 ⟨?_, hs⟩
      intro z hz
      rcases List.mem_cons.1 hz with hzy | hz
      · subst hzy; exact hxy
      · exact String.le_trans hxy (hs'.1 z hz)
    · rename_i hxy
      refine List.pairwise_cons.2 ⟨?_, ih hs'.2⟩
      intro z hz
      rcases List.mem_cons.1 ((insertName_perm x ys).subset hz) with hzx | hz
      · subst hzx
        rcases String.le_total y z with h | h
        · exact h
        · exact absurd h hxy
      · exact hs'.1 z hz

theorem sortNames_sorted (l : List String) : (sortNames l).Pairwise (· ≤ ·) := by
  induction l with
  | nil => exact List.Pairwise.nil
  | cons a l ih =>
    simp only [sortNames, List.foldr_cons]
    exact insertName_sorted a _ ih

theorem sortNames_perm_eq (l l' : List String) (h : l.Perm l') : sortNames l = sortNames l' := by
  refine List.Perm.eq_of_pairwise (le := (· ≤ ·)) ?_ (sortNames_sorted l) (sortNames_sorted l')
    (((sortNames_perm l).trans h).trans (sortNames_perm l').symm)
  intro a b _ _ hab hba
  exact String.le_antisymm hab hba

theorem typeKeys_perm_aux (hp : Heap) (addrs addrs' : List Nat) (h : addrs.Perm addrs') :
    sortNames (typeKeys hp addrs) = sortNames (typeKeys hp addrs') :=
  sortNames_perm_eq _ _ (typeKeys_perm' hp addrs addrs' h)

/-! ### the table -/

theorem anchorOf_congr (cass : List Cas) (hp : Heap) (o : Opts) (indexed indexed' : List Nat)
    (hidx : ∀ a, a ∈ indexed ↔ a ∈ indexed') :
    anchorOf cass hp indexed o = anchorOf cass hp indexed' o := by
  funext a
  have hc : indexed.contains a = indexed'.contains a := by
    rw [Bool.eq_iff_iff, List.contains_iff_mem, List.contains_iff_mem]
    exact hidx a
  unfold anchorOf
  rw [hc]

theorem anchorStep_congr (cass : List Cas) (hp : Heap) (o : Opts) (indexed indexed' : List Nat)
    (hidx : ∀ a, a ∈ indexed ↔ a ∈ indexed') :
    anchorStep cass hp indexed o = anchorStep cass hp indexed' o := by
  funext st a
  unfold anchorStep
  rw [anchorOf_congr cass hp o indexed indexed' hidx]

theorem anchorsOfList_congr (cass : List Cas) (hp : Heap) (o : Opts) (indexed indexed' : List Nat)
    (hidx : ∀ a, a ∈ indexed ↔ a ∈ indexed') (l : List Nat) (st : AnchorSt) :
    anchorsOfList cass hp indexed o l st = anchorsOfList cass hp indexed' o l st := by
  induction l generalizing st with
  | nil => rfl
  | cons a as ih =>
    simp only [anchorsOfList]
    rw [anchorStep_congr cass hp o indexed indexed' hidx]
    split
    · rfl
    · exact ih _

theorem genAnchors_congr (ts : TypeSystem) (cass : List Cas) (hp : Heap) (o : Opts) (indexed indexed' : List Nat)
    (hidx : ∀ a, a ∈ indexed ↔ a ∈ indexed') (sorted l : List (String × List Nat)) (st : AnchorSt) :
    genAnchors ts cass hp indexed o sorted l st = genAnchors ts cass hp indexed' o sorted l st := by
  induction l generalizing st with
  | nil => rfl
  | cons p rest ih =>
    obtain ⟨t, fss⟩ := p
    simp only [genAnchors]
    rw [anchorsOfList_congr cass hp o indexed indexed' hidx]
    split
    · rfl
    · split
      · rfl
      · exact ih _

theorem renderFrom_perm_invariant_aux (K : Consts) (ts : TypeSystem) (cass : List Cas) (hp : Heap) (o : Opts)
    (hsh hsh' : Nat → Int) (indexed indexed' addrs addrs' : List Nat)
    (hperm : addrs.Perm addrs') (hidx : ∀ a, a ∈ indexed ↔ a ∈ indexed')
    (hn : addrs.Nodup) (hd : Distinct hp addrs) :
    renderFrom K ts cass hp o hsh indexed addrs = renderFrom K ts cass hp o hsh' indexed' addrs' := by
  have hfun : (fun t => (t, sortFs (ltFs hp hsh) (group hp addrs t))) =
      (fun t => (t, sortFs (ltFs hp hsh') (group hp addrs' t))) := by
    funext t
    have : sortFs (ltFs hp hsh) (group hp addrs t) = sortFs (ltFs hp hsh') (group hp addrs' t) := by
      apply sortFs_perm_invariant_aux hp hsh hsh' _ _ (group_perm_aux hp addrs addrs' hperm t)
      · exact hn.sublist List.filter_sublist
      · intro a ha b hb hab hty
        exact hd a (List.mem_filter.1 ha).1 b (List.mem_filter.1 hb).1 hab hty
      · intro a ha b hb
        have h1 := (List.mem_filter.1 ha).2
        have h2 := (List.mem_filter.1 hb).2
        rw [beq_iff_eq] at h1 h2
        rw [h1, h2]
    rw [this]
  unfold renderFrom
  simp only []
  rw [typeKeys_perm_aux hp addrs addrs' hperm, hfun, genAnchors_congr ts cass hp o indexed indexed' hidx]

/-! ### sensitivity to primitive values -/

theorem renderVal_prim_injective_aux (K : Consts) (hp hp' : Heap) (byId byId' : List (Option Int × String))
    (f f' : Nat) (p p' : Val) (hk : SameKindPrim p p') (c : Cell)
    (h : renderVal K hp byId f p = .ok c) (h' : renderVal K hp' byId' f' p' = .ok c) : p = p' := by
  cases p <;> cases p' <;> simp only [SameKindPrim] at hk <;>
    simp only [renderVal, Except.ok.injEq] at h h' <;> subst h <;>
    simp only [Cell.int.injEq, Cell.str.injEq, Cell.bool.injEq, Cell.float.injEq] at h' <;>
    rw [h']

theorem renderCols_prim_sensitive_aux (K : Consts) (hp hp' : Heap) (byId byId' : List (Option Int × String))
    (a a' : Nat) (cols : List String) (f : String) (p p' : Val) (hf : f ∈ cols)
    (hs : slot hp a f = some p) (hs' : slot hp' a' f = some p') (hk : SameKindPrim p p') (hne : p ≠ p')
    (cs cs' : List Cell) (h : renderCols K hp byId a cols = .ok cs)
    (h' : renderCols K hp' byId' a' cols = .ok cs') : cs ≠ cs' := by
  induction cols generalizing cs cs' with
  | nil => cases hf
  | cons n ns ih =>
    -- decompose both runs
    have dec : ∀ (hp : Heap) (byId : List (Option Int × String)) (a : Nat) (cs : List Cell),
        renderCols K hp byId a (n :: ns) = .ok cs →
        ∃ c cs0, renderVal K hp byId (2 * hp.length + 2) ((slot hp a n).getD .none) = .ok c ∧
          renderCols K hp byId a ns = .ok cs0 ∧ cs = c :: cs0 := by
      intro hp byId a cs h
      rw [renderCols] at h
      split at h
      · cases h
      · rename_i c hc
        split at h
        · cases h
        · rename_i cs0 hcs0
          cases h
          exact ⟨c, cs0, hc, hcs0, rfl⟩
    obtain ⟨c, cs0, hc, hcs0, rfl⟩ := dec hp byId a cs h
    obtain ⟨c', cs0', hc', hcs0', rfl⟩ := dec hp' byId' a' cs' h'
    intro heq
    rw [List.cons.injEq] at heq
    by_cases hnf : n = f
    · subst hnf
      rw [hs] at hc
      rw [hs'] at hc'
      simp only [Option.getD_some] at hc hc'
      rw [← heq.1] at hc'
      exact hne (renderVal_prim_injective_aux K hp hp' byId byId' _ _ p p' hk c hc hc')
    · have hf' : f ∈ ns := by
        rcases List.mem_cons.1 hf with h | h
        · exact absurd h.symm hnf
        · exact h
      exact ih hf' cs0 cs0' hcs0 hcs0' heq.2

end Cassis.Comparable
