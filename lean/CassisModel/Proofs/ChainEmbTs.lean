/-
C16 with an embedded type system, the chain JSON → CAS → XMI → CAS, part 1: what the XMI codec, the traversal and the
fragment `CollFs` consult of a type system, and when two type systems answer alike (`TsLe`).

The XMI writer, the traversal `_find_all_fs`, the XMI reader and the fragment predicates look at a type through its name,
its supertype chain (`is_instance_of`, `is_primitive`) and, of each effective feature, the name, the range,
`multipleReferencesAllowed` (inlined or a structure of its own) and the reserved-name flag — never at domain, element
type or description.  `SameTs` (what `json_full_ts_same` delivers) compares effective features up to
`Feature.__eq__`: name, description, range, element type — NOT `multipleReferencesAllowed`, NOT the reserved flag.  The
missing part is `MultiResAgree`; with it, `SameTs` type systems (each name registered once) are `TsLe` in both directions.
-/
import CassisModel.Proofs.RoundTripJsonEmbTs
import CassisModel.Proofs.EmbeddedTs
import CassisModel.Spec.RoundTripCollFrag
import CassisModel.Spec.ChainEmb

namespace Cassis.ChainE
open Cassis.TS Cassis.Json

/-- the two features answer the XMI codec alike: name, range, reserved or not, and — for an array or list range —
    `multipleReferencesAllowed` (inlined or a structure of its own) -/
def FeatLike (K : Consts) (f f' : Feature) : Prop :=
  f'.name = f.name ∧ f'.range = f.range ∧
  ((isArray K f.range = true ∨ isList K f.range = true) → f'.multi.getD false = f.multi.getD false) ∧
  f'.reserved = f.reserved

theorem FeatLike.symm {K : Consts} {f f' : Feature} (h : FeatLike K f f') : FeatLike K f' f :=
  ⟨h.1.symm, h.2.1.symm, fun hc => (h.2.2.1 (by rw [← h.2.1]; exact hc)).symm, h.2.2.2.symm⟩

/-- `MultiResAgree` the other way round, for features with the same range -/
def MultiResAgree' (K : Consts) (ts ts' : TypeSystem) : Prop :=
  ∀ t ∈ ts.types, ∀ t' ∈ ts'.types, t'.name = t.name → ∀ f ∈ allFeatures t, ∀ f' ∈ allFeatures t',
    f'.name = f.name → f'.range = f.range → FeatLike K f f'

theorem multiResAgree' {K : Consts} {ts ts' : TypeSystem} (h : MultiResAgree K ts ts') : MultiResAgree' K ts ts' := by
  intro t ht t' ht' hn f hf f' hf' hfn hr
  obtain ⟨h1, h2⟩ := h t ht t' ht' hn f hf f' hf' hfn
  exact ⟨hfn, hr, h2, h1⟩

/-- every answer `ts` gives to the XMI codec about a registered type, `ts'` gives as well -/
structure TsLe (K : Consts) (ts ts' : TypeSystem) : Prop where
  find : ∀ n t, find? ts n = some t → ∃ t', find? ts' n = some t' ∧ t'.name = t.name ∧ t'.super = t.super ∧
    (ctorFields t').Perm (ctorFields t) ∧
    (∀ f ∈ allFeatures t, ∃ f' ∈ allFeatures t', FeatLike K f f') ∧
    (∀ f' ∈ allFeatures t', ∃ f ∈ allFeatures t, FeatLike K f f')
  inst : ∀ a b, isInstanceOf ts' a b = isInstanceOf ts a b
  prim : ∀ r, isPrimitive K ts' r = isPrimitive K ts r

theorem sameDecl_symm {t t' : TypeRec} (h : SameDecl t t') : SameDecl t' t :=
  ⟨h.1.symm, h.2.1.symm, h.2.2.1.symm, h.2.2.2.1.symm, h.2.2.2.2.symm⟩

theorem sameTs_symm {ts ts' : TypeSystem} (h : SameTs ts ts') : SameTs ts' ts := by
  intro n
  have := h n
  cases h1 : find? ts n with
  | none =>
    cases h2 : find? ts' n with
    | none => trivial
    | some t' => rw [h1, h2] at this; exact this.elim
  | some t =>
    cases h2 : find? ts' n with
    | none => rw [h1, h2] at this; exact this.elim
    | some t' => rw [h1, h2] at this; exact sameDecl_symm this

theorem isPrimitiveAux_congr (K : Consts) {ts ts' : TypeSystem} (h : SameTs ts ts') :
    ∀ (fuel : Nat) (x : Option String), isPrimitiveAux K ts' fuel x = isPrimitiveAux K ts fuel x := by
  intro fuel
  induction fuel with
  | zero => intro x; rfl
  | succ f ih =>
    intro x
    cases x with
    | none => rfl
    | some t =>
      unfold isPrimitiveAux
      rw [sameTs_superOf h, ih]

theorem sameTs_isPrimitive (K : Consts) {ts ts' : TypeSystem} (h : SameTs ts ts') (hc : Consistent ts)
    (hc' : Consistent ts') (r : String) : isPrimitive K ts' r = isPrimitive K ts r := by
  unfold isPrimitive
  have hl : ts'.types.length = ts.types.length := by
    have := (sameTs_names_perm h hc hc').length_eq
    simpa using this
  rw [hl, isPrimitiveAux_congr K h]

theorem featKey_like {f f' : Feature} (h : featKey f' = featKey f) : f'.name = f.name ∧ f'.range = f.range := by
  unfold featKey at h
  simp only [Prod.mk.injEq] at h
  exact ⟨h.1, h.2.2.1⟩

/-- `SameTs` type systems that also agree on `multipleReferencesAllowed` and the reserved flag answer the XMI codec alike -/
theorem tsLe_of_same (K : Consts) {ts ts' : TypeSystem} (h : SameTs ts ts') (hc : Consistent ts) (hc' : Consistent ts')
    (hm : MultiResAgree K ts ts') : TsLe K ts ts' := by
  have hm' := multiResAgree' hm
  refine ⟨?_, sameTs_isInstanceOf h hc hc', sameTs_isPrimitive K h hc hc'⟩
  intro n t ht
  rcases sameTs_find h n with ⟨h1, _⟩ | ⟨t0, t', h1, h2, hd⟩
  · rw [ht] at h1; cases h1
  · rw [ht] at h1; cases h1
    obtain ⟨hn, hs, _, _, hp⟩ := hd
    have hnn : t'.name = t.name := by rw [find?_name ht, find?_name h2]
    refine ⟨t', h2, hn, hs, ?_, ?_, ?_⟩
    · unfold ctorFields
      have := hp.map (fun k : String × Option String × String × String => k.1)
      simp only [List.map_map] at this
      exact this
    · intro f hf
      have : featKey f ∈ (allFeatures t').map featKey := hp.mem_iff.mpr (List.mem_map_of_mem hf)
      obtain ⟨f', hf', hk⟩ := List.mem_map.mp this
      obtain ⟨k1, k2⟩ := featKey_like hk
      exact ⟨f', hf', hm' t (find?_mem ht) t' (find?_mem h2) hnn f hf f' hf' k1 k2⟩
    · intro f' hf'
      have : featKey f' ∈ (allFeatures t).map featKey := hp.mem_iff.mp (List.mem_map_of_mem hf')
      obtain ⟨f, hf, hk⟩ := List.mem_map.mp this
      obtain ⟨k1, k2⟩ := featKey_like hk.symm
      exact ⟨f, hf, hm' t (find?_mem ht) t' (find?_mem h2) hnn f hf f' hf' k1 k2⟩

/-- … in both directions -/
theorem tsLe_of_same' (K : Consts) {ts ts' : TypeSystem} (h : SameTs ts ts') (hc : Consistent ts) (hc' : Consistent ts')
    (hm : MultiResAgree K ts ts') : TsLe K ts' ts := by
  have hm' := multiResAgree' hm
  have hs := sameTs_symm h
  refine ⟨?_, sameTs_isInstanceOf hs hc' hc, sameTs_isPrimitive K hs hc' hc⟩
  intro n t' ht'
  rcases sameTs_find h n with ⟨_, h2⟩ | ⟨t, t0, h1, h2, hd⟩
  · rw [ht'] at h2; cases h2
  · rw [ht'] at h2; cases h2
    obtain ⟨hn, hsup, _, _, hp⟩ := hd
    have hnn : t'.name = t.name := by rw [find?_name h1, find?_name ht']
    refine ⟨t, h1, hn.symm, hsup.symm, ?_, ?_, ?_⟩
    · unfold ctorFields
      have := hp.symm.map (fun k : String × Option String × String × String => k.1)
      simp only [List.map_map] at this
      exact this
    · intro f' hf'
      have : featKey f' ∈ (allFeatures t).map featKey := hp.mem_iff.mp (List.mem_map_of_mem hf')
      obtain ⟨f, hf, hk⟩ := List.mem_map.mp this
      obtain ⟨k1, k2⟩ := featKey_like hk.symm
      exact ⟨f, hf, (hm' t (find?_mem h1) t' (find?_mem ht') hnn f hf f' hf' k1 k2).symm⟩
    · intro f hf
      have : featKey f ∈ (allFeatures t').map featKey := hp.mem_iff.mpr (List.mem_map_of_mem hf)
      obtain ⟨f', hf', hk⟩ := List.mem_map.mp this
      obtain ⟨k1, k2⟩ := featKey_like hk
      exact ⟨f', hf', (hm' t (find?_mem h1) t' (find?_mem ht') hnn f hf f' hf' k1 k2).symm⟩

/-- `NullOk` carries over -/
theorem nullOk_of_same {ts ts' : TypeSystem} (h : SameTs ts ts') (hn : Cassis.Xmi.NullOk ts) : Cassis.Xmi.NullOk ts' := by
  obtain ⟨t0, ht0, hf0⟩ := hn
  rcases sameTs_find h Cassis.Xmi.NULL_T with ⟨h1, _⟩ | ⟨t, t', h1, h2, hd⟩
  · rw [ht0] at h1; cases h1
  · rw [ht0] at h1; cases h1
    refine ⟨t', h2, ?_⟩
    have := hd.2.2.2.2.length_eq
    rw [hf0] at this
    simp only [List.map_nil, List.length_nil, List.length_map] at this
    exact List.eq_nil_of_length_eq_zero this

end Cassis.ChainE
