/-
C09, document level (4): the JSON writer.  Decomposition of a successful `saveJson` (the sofa part is rendered
before the traversal), the id list of the document, the duplicate corollary, distinctness of all ids, kept ids.
-/
import CassisModel.Proofs.IdsWrite3
import CassisModel.Proofs.Json

namespace Cassis.Json
open Cassis.TS

/-- the sofa part of `saveJson`: per view the byte array (if any) and the sofa -/
def sofaStep (K : Consts) (ts : TypeSystem) (cass : List Cas) (hp : Heap) (acc : List JFs) (p : String × View) :
    Except Err (List JFs) := do
  let arr ← match p.2.sofa.arr with
    | .ref a => do let e ← renderFs K ts cass hp a; pure [e]
    | _ => pure []
  pure (acc ++ arr ++ [renderSofa hp p.2.sofa])

theorem sofaFss_ids (K : Consts) (ts : TypeSystem) (cass : List Cas) (hp : Heap) (l : List (String × View))
    (acc r : List JFs) (h : l.foldlM (sofaStep K ts cass hp) acc = .ok r) :
    r.map (·.id) = acc.map (·.id) ++
      l.flatMap (fun p => (match p.2.sofa.arr with | .ref a => [idOf hp a] | _ => []) ++ [some p.2.sofa.xid]) := by
  induction l generalizing acc with
  | nil =>
    simp only [List.foldlM_nil, pure, Except.pure] at h
    cases h
    simp
  | cons p l ih =>
    rw [List.foldlM_cons] at h
    cases hs : sofaStep K ts cass hp acc p with
    | error e => rw [hs] at h; cases h
    | ok acc' =>
      rw [hs] at h
      have := ih acc' h
      rw [this, List.flatMap_cons]
      unfold sofaStep at hs
      simp only [bind, Except.bind, pure, Except.pure] at hs
      split at hs
      · rename_i a ha
        cases hr : renderFs K ts cass hp a with
        | error e => rw [hr] at hs; cases hs
        | ok e =>
          rw [hr] at hs
          cases hs
          obtain ⟨o, ho, hid⟩ := renderFs_id K ts cass hp a e hr
          have : e.id = idOf hp a := by rw [hid]; unfold idOf; rw [ho]; rfl
          simp only [List.map_append, List.map_cons, List.map_nil, this, renderSofa, List.append_assoc]
      · rename_i hna
        cases hs
        simp only [List.map_append, List.map_cons, List.map_nil, renderSofa, List.append_nil, List.nil_append,
          List.append_assoc]

theorem sofaFss_ok (K : Consts) (ts : TypeSystem) (cass : List Cas) (hp : Heap) (l : List (String × View))
    (hs : ∀ p ∈ l, ∀ a, p.2.sofa.arr = .ref a → ∃ e, renderFs K ts cass hp a = .ok e) (acc : List JFs) :
    ∃ r, l.foldlM (sofaStep K ts cass hp) acc = .ok r := by
  induction l generalizing acc with
  | nil => exact ⟨acc, rfl⟩
  | cons p l ih =>
    rw [List.foldlM_cons]
    have : ∃ acc', sofaStep K ts cass hp acc p = .ok acc' := by
      unfold sofaStep
      simp only [bind, Except.bind, pure, Except.pure]
      split
      · rename_i a ha
        obtain ⟨e, he⟩ := hs p List.mem_cons_self a ha
        rw [he]
        exact ⟨_, rfl⟩
      · exact ⟨_, rfl⟩
    obtain ⟨acc', ha'⟩ := this
    rw [ha']
    exact ih (fun q hq => hs q (List.mem_cons_of_mem _ hq)) acc'

theorem saveJson_ok_inv (K : Consts) (ts : TypeSystem) (cass : List Cas) (ci : Nat) (hp : Heap) (mode : Mode)
    (doc : JDoc) (st : Traverse.St) (h : saveJson K ts cass ci hp mode = .ok (doc, st)) :
    ∃ (c : Cas) (sofaFss fsElems : List JFs), cass[ci]? = some c ∧
      c.views.foldlM (sofaStep K ts cass hp) [] = .ok sofaFss ∧
      Traverse.findAllFs K ts { includeInlinable := true } hp c.nextXid (Traverse.defaultSeeds c) = .ok st ∧
      renderAll K ts cass st.heap (Xmi.sortById st.allFs) = .ok fsElems ∧
      doc.fss = sofaFss ++ fsElems := by
  unfold saveJson at h
  cases hc : cass[ci]? with
  | none => rw [hc] at h; cases h
  | some c =>
    rw [hc] at h
    simp only [bind, Except.bind, pure, Except.pure] at h
    split at h
    · cases h
    · rename_i sofaFss hsofa
      cases hst : Traverse.findAllFs K ts { includeInlinable := true } hp c.nextXid (Traverse.defaultSeeds c) with
      | error err => rw [hst] at h; cases h
      | ok st' =>
        rw [hst] at h
        simp only at h
        cases hr : renderAll K ts cass st'.heap (Xmi.sortById st'.allFs) with
        | error err => rw [hr] at h; cases h
        | ok fsElems =>
          rw [hr] at h
          simp only at h
          cases mode
          all_goals
            simp only [renderTypes] at h
            try (split at h; (· cases h))
            cases h
            exact ⟨c, sofaFss, fsElems, rfl, hsofa, hst, hr, rfl⟩

theorem saveJson_error_of (K : Consts) (ts : TypeSystem) (cass : List Cas) (ci : Nat) (hp : Heap) (mode : Mode)
    (c : Cas) (e : Err) (hc : cass[ci]? = some c)
    (hs : ∀ p ∈ c.views, ∀ a, p.2.sofa.arr = .ref a → ∃ e, renderFs K ts cass hp a = .ok e)
    (h : Traverse.findAllFs K ts { includeInlinable := true } hp c.nextXid (Traverse.defaultSeeds c) = .error e) :
    saveJson K ts cass ci hp mode = .error e := by
  obtain ⟨r, hr⟩ := sofaFss_ok K ts cass hp c.views hs []
  unfold saveJson
  rw [hc]
  simp only [bind, Except.bind, pure, Except.pure]
  split
  · rename_i err heq
    have : (Except.ok r : Except Err (List JFs)) = .error err := hr.symm.trans heq
    cases this
  · simp only [h]

theorem saveJson_duplicate_not_ok_aux (K : Consts) (ts : TypeSystem) (cass : List Cas) (ci : Nat) (hp : Heap)
    (mode : Mode) (c : Cas) (hc : cass[ci]? = some c) (hnx : 0 < c.nextXid)
    (hd : Traverse.ReachableDuplicate K ts { includeInlinable := true } hp (Traverse.defaultSeeds c))
    (doc : JDoc) (st : Traverse.St) : saveJson K ts cass ci hp mode ≠ .ok (doc, st) := by
  intro h
  obtain ⟨c', _, _, hc', _, hst, _, _⟩ := saveJson_ok_inv K ts cass ci hp mode doc st h
  rw [hc] at hc'
  cases hc'
  exact Traverse.findAllFs_duplicate_not_ok_aux K ts _ hp c.nextXid _ hnx hd st hst

theorem saveJson_duplicate_raises_aux (K : Consts) (ts : TypeSystem) (cass : List Cas) (ci : Nat) (hp : Heap)
    (mode : Mode) (c : Cas) (hc : cass[ci]? = some c) (hnx : 0 < c.nextXid)
    (hd : Traverse.ReachableDuplicate K ts { includeInlinable := true } hp (Traverse.defaultSeeds c))
    (hsafe : ∀ a, Traverse.Reach K ts { includeInlinable := true } hp (hp.length + 1) (Traverse.defaultSeeds c) a →
      Traverse.Expandable K ts { includeInlinable := true } hp (hp.length + 1) a)
    (hs : ∀ p ∈ c.views, ∀ a, p.2.sofa.arr = .ref a → ∃ e, renderFs K ts cass hp a = .ok e) :
    saveJson K ts cass ci hp mode = .error .valueError :=
  saveJson_error_of K ts cass ci hp mode c _ hc hs
    (Traverse.findAllFs_duplicate_raises_aux K ts _ hp c.nextXid _ hnx hd hsafe)

/-! ### the id list of the document -/

theorem saveJson_docIds_aux (K : Consts) (ts : TypeSystem) (cass : List Cas) (ci : Nat) (hp : Heap) (mode : Mode)
    (c : Cas) (doc : JDoc) (st : Traverse.St) (hc : cass[ci]? = some c)
    (h : saveJson K ts cass ci hp mode = .ok (doc, st)) :
    docIds doc = sofaPartIds hp c ++ (Xmi.sortById st.allFs).map (fun p => some p.1) := by
  obtain ⟨c', sofaFss, fsElems, hc', hsofa, hst, hr, hdoc⟩ := saveJson_ok_inv K ts cass ci hp mode doc st h
  rw [hc] at hc'
  cases hc'
  obtain ⟨inv, _⟩ := Traverse.findAllFs_inv K ts _ hp c.nextXid (Traverse.defaultSeeds c) st hst
  have hperm := Xmi.sortById_perm_aux st.allFs
  have hids : fsElems.map (·.id) = (Xmi.sortById st.allFs).map (fun p => some p.1) := by
    apply renderAll_ids K ts cass st.heap _ _ hr
    intro p hp'
    exact inv.link p.1 p.2 (hperm.mem_iff.mp hp')
  have h1 := sofaFss_ids K ts cass hp c.views [] sofaFss hsofa
  unfold docIds sofaPartIds
  rw [hdoc, List.map_append, hids, h1]
  rfl

theorem nodup_map_some {α} (l : List α) : (l.map some).Nodup ↔ l.Nodup := by
  constructor
  · intro h
    unfold List.Nodup at h
    rw [List.pairwise_map] at h
    exact h.imp (fun hne he => hne (by rw [he]))
  · intro h
    exact List.Pairwise.map some (fun _ _ hne he => hne (Option.some.inj he)) h

theorem saveJson_ids_distinct_iff_aux (K : Consts) (ts : TypeSystem) (cass : List Cas) (ci : Nat) (hp : Heap)
    (mode : Mode) (c : Cas) (doc : JDoc) (st : Traverse.St) (hc : cass[ci]? = some c)
    (h : saveJson K ts cass ci hp mode = .ok (doc, st)) :
    (docIds doc).Nodup ↔ (sofaPartIds hp c ++ st.allFs.map (fun p => some p.1)).Nodup := by
  rw [saveJson_docIds_aux K ts cass ci hp mode c doc st hc h]
  exact (((Xmi.sortById_perm_aux st.allFs).map (fun p => some p.1)).append_left _).nodup_iff

theorem sofaPartIds_noArray (hp : Heap) (c : Cas) (hna : NoSofaArray c) :
    sofaPartIds hp c = (Cas.sofaIds c).map some := by
  unfold sofaPartIds Cas.sofaIds
  have : ∀ l : List (String × View), (∀ p ∈ l, ∀ a, p.2.sofa.arr ≠ .ref a) →
      l.flatMap (fun p => (match p.2.sofa.arr with | .ref a => [idOf hp a] | _ => []) ++ [some p.2.sofa.xid]) =
      (l.map (fun p => p.2.sofa.xid)).map some := by
    intro l
    induction l with
    | nil => intro _; rfl
    | cons p l ih =>
      intro hl
      rw [List.flatMap_cons, ih (fun q hq => hl q (List.mem_cons_of_mem _ hq))]
      have : (match p.2.sofa.arr with | .ref a => [idOf hp a] | _ => ([] : List (Option Int))) = [] := by
        split
        · rename_i a ha; exact absurd ha (hl p List.mem_cons_self a)
        · rfl
      rw [this]
      rfl
  exact this c.views hna

/-- exact condition for a CAS without sofa byte arrays (there is no NULL element in a JSON document) -/
theorem saveJson_ids_distinct_iff'_aux (K : Consts) (ts : TypeSystem) (cass : List Cas) (ci : Nat) (hp : Heap)
    (mode : Mode) (c : Cas) (doc : JDoc) (st : Traverse.St) (hc : cass[ci]? = some c) (hna : NoSofaArray c)
    (h : saveJson K ts cass ci hp mode = .ok (doc, st)) :
    (docIds doc).Nodup ↔ ((Cas.sofaIds c).Nodup ∧ ∀ p ∈ st.allFs, p.1 ∉ Cas.sofaIds c) := by
  rw [saveJson_ids_distinct_iff_aux K ts cass ci hp mode c doc st hc h, sofaPartIds_noArray hp c hna]
  obtain ⟨c', _, _, hc', _, hst, _, _⟩ := saveJson_ok_inv K ts cass ci hp mode doc st h
  rw [hc] at hc'
  cases hc'
  obtain ⟨inv, _⟩ := Traverse.findAllFs_inv K ts _ hp c.nextXid (Traverse.defaultSeeds c) st hst
  have : st.allFs.map (fun p => some p.1) = (st.allFs.map (·.1)).map some := by rw [List.map_map]; rfl
  rw [this, ← List.map_append, nodup_map_some, List.nodup_append]
  constructor
  · rintro ⟨hs, _, hdis⟩
    refine ⟨hs, ?_⟩
    intro p hp' hm
    exact hdis p.1 hm p.1 (List.mem_map.mpr ⟨p, hp', rfl⟩) rfl
  · rintro ⟨hs, hdis⟩
    refine ⟨hs, inv.nodupK, ?_⟩
    intro x hx y hy e
    obtain ⟨p, hp', rfl⟩ := List.mem_map.mp hy
    exact hdis p hp' (by rw [← e]; exact hx)

theorem saveJson_ids_distinct_aux (K : Consts) (ts : TypeSystem) (cass : List Cas) (ci : Nat) (hp : Heap)
    (mode : Mode) (c : Cas) (doc : JDoc) (st : Traverse.St) (hc : cass[ci]? = some c) (hnx : 0 < c.nextXid)
    (hna : NoSofaArray c)
    (hs : (Cas.sofaIds c).Nodup) (hsb : ∀ x ∈ Cas.sofaIds c, x < c.nextXid)
    (hfs : ∀ a x, Traverse.Reach K ts { includeInlinable := true } hp (hp.length + 1) (Traverse.defaultSeeds c) a →
      Traverse.xidOf hp a = some x → x ∉ Cas.sofaIds c)
    (h : saveJson K ts cass ci hp mode = .ok (doc, st)) : (docIds doc).Nodup := by
  rw [saveJson_ids_distinct_iff'_aux K ts cass ci hp mode c doc st hc hna h]
  obtain ⟨c', _, _, hc', _, hst, _, _⟩ := saveJson_ok_inv K ts cass ci hp mode doc st h
  rw [hc] at hc'
  cases hc'
  refine ⟨hs, ?_⟩
  intro p hp' hm
  obtain ⟨hr, _, _, hor⟩ := Traverse.findAllFs_id_origin K ts _ hp c.nextXid _ st hnx hst p.1 p.2 hp'
  rcases hor with hk | ⟨_, hge⟩
  · exact hfs p.2 p.1 hr hk hm
  · have := hsb p.1 hm
    omega

/-! ### kept ids -/

theorem renderAll_mem (K : Consts) (ts : TypeSystem) (cass : List Cas) (hp : Heap) (l : List (Int × Nat))
    (es : List JFs) (h : renderAll K ts cass hp l = .ok es) (p : Int × Nat) (hp' : p ∈ l) :
    ∃ e ∈ es, renderFs K ts cass hp p.2 = .ok e := by
  induction l generalizing es with
  | nil => cases hp'
  | cons q qs ih =>
    unfold renderAll at h
    cases h1 : renderFs K ts cass hp q.2 with
    | error err => rw [h1] at h; cases h
    | ok e =>
      cases h2 : renderAll K ts cass hp qs with
      | error err => rw [h1, h2] at h; cases h
      | ok es' =>
        rw [h1, h2] at h
        cases h
        rcases List.mem_cons.mp hp' with rfl | hq
        · exact ⟨e, List.mem_cons_self, h1⟩
        · obtain ⟨e', he', hr'⟩ := ih es' h2 hq
          exact ⟨e', List.mem_cons_of_mem _ he', hr'⟩

theorem saveJson_kept_ids_aux (K : Consts) (ts : TypeSystem) (cass : List Cas) (ci : Nat) (hp : Heap) (mode : Mode)
    (c : Cas) (doc : JDoc) (st : Traverse.St) (hc : cass[ci]? = some c) (hnx : 0 < c.nextXid)
    (h : saveJson K ts cass ci hp mode = .ok (doc, st)) (a : Nat) (x : Int) (hx : x ≠ 0)
    (hr : Traverse.Reach K ts { includeInlinable := true } hp (hp.length + 1) (Traverse.defaultSeeds c) a)
    (hxa : Traverse.xidOf hp a = some x) :
    Traverse.xidOf st.heap a = some x ∧
    ∃ e ∈ doc.fss, renderFs K ts cass st.heap a = .ok e ∧ e.id = some x := by
  obtain ⟨c', sofaFss, fsElems, hc', _, hst, hra, hdoc⟩ := saveJson_ok_inv K ts cass ci hp mode doc st h
  rw [hc] at hc'
  cases hc'
  obtain ⟨hm, hxa'⟩ := Traverse.findAllFs_kept_collected K ts _ hp c.nextXid _ st hnx hst a x hx hr hxa
  refine ⟨hxa', ?_⟩
  obtain ⟨e, he, hre⟩ := renderAll_mem K ts cass st.heap _ fsElems hra (x, a)
    ((Xmi.sortById_perm_aux st.allFs).mem_iff.mpr hm)
  refine ⟨e, ?_, hre, ?_⟩
  · rw [hdoc]
    exact List.mem_append_right _ he
  · obtain ⟨o, ho, hid⟩ := renderFs_id K ts cass st.heap a e hre
    rw [hid]
    unfold Traverse.xidOf at hxa'
    rw [ho] at hxa'
    exact hxa'

end Cassis.Json
