/-
Interface statements between the layers of the proof of the XMI round trip with collections, as `Prop`-valued
definitions: a layer proves its statement, the layers that use it take it as a hypothesis, and
`Proofs/RoundTripColl.lean` plugs everything together.  (This lets the layers be proved independently.)
-/
import CassisModel.Proofs.RoundTripCollDefs
import CassisModel.Proofs.RoundTripPost

namespace Cassis.Xmi
open Cassis.TS Cassis.Traverse Cassis.Lex

/-- the id of the structure at `b` is in the id table of the reader, at its new address -/
def Resolves (H : Heap) (fss : List (Int × Nat)) (na : Int → Nat) (b : Nat) : Prop :=
  ∃ x : Int, xidOf H b = some x ∧ lookupFs fss x = .ok (na x)

/-- `hpY` is `hpX` with new objects without id appended and then slot `n` of the object at `a` set to `w` -/
def StepX (hpX hpY : Heap) (a : Nat) (n : String) (w : Val) : Prop :=
  ∃ t : List Obj, (∀ ob ∈ t, ob.xid = none) ∧ Step (hpX ++ t) hpY a n w

/-- first pass on one collected structure of kind `P` (`GenFs …`, `ArrFs …`, `CollFs …`): the element the writer
    produces, and what `parseFsElem` makes of it on any heap: some objects without id (`ext`), then the object -/
def Elem1Stmt (K : Consts) (ts : TypeSystem) (cass : List Cas) (H : Heap) (tsIdx : Nat) (P : Nat → Prop) : Prop :=
  ∀ (a : Nat) (x : Int), P a → xidOf H a = some x →
    ∃ (o : Obj) (e : XElem), H[a]? = some o ∧ renderFs K ts cass H a = .ok e ∧ e.ty ≠ SOFA ∧ e.ty ≠ VIEW_T ∧
      ∀ hpCur : Heap, ∃ (ext : List Obj) (o1 : Obj),
        parseFsElem K ts tsIdx hpCur e = .ok (hpCur ++ ext ++ [o1], x, (hpCur ++ ext).length) ∧
        (∀ ob ∈ ext, ob.xid = none) ∧ Obj1 K ts cass H (hpCur ++ ext ++ [o1]) o o1 x

/-- second pass on one collected structure of kind `P` -/
def Post2Stmt (K : Consts) (ts : TypeSystem) (cass : List Cas) (H : Heap) (L : List (Int × Nat)) (na : Int → Nat)
    (tsIdx ci' : Nat) (sofas : List (Int × PSofa)) (fss : List (Int × Nat)) (P : Nat → Prop) : Prop :=
  ∀ q ∈ L, P q.2 → ∀ (hpX : Heap) (o o1 : Obj), H[q.2]? = some o → hpX[na q.1]? = some o1 →
    Obj1 K ts cass H hpX o o1 q.1 →
    ∃ (t : TypeRec) (hpY : Heap), getType ts o1.ty = .ok t ∧
      postFeatures K ts tsIdx ci' sofas fss (na q.1) o1.ty (isInstanceOf ts o1.ty STRING_ARRAY) (allFeatures t) hpX
        = .ok hpY ∧
      Ext hpX hpY (na q.1) ∧ ∃ o2 : Obj, hpY[na q.1]? = some o2 ∧ Obj2 K ts cass H na ci' hpY o o2 q.1

/-- second pass on one inlined collection feature of a general structure (the object `o` at `a` in `H`, its
    counterpart `o'` at `a'` in `hpX`) -/
def PostInlineStmt (K : Consts) (ts : TypeSystem) (cass : List Cas) (H : Heap) (na : Int → Nat)
    (tsIdx ci' : Nat) (sofas : List (Int × PSofa)) (fss : List (Int × Nat)) (Q : Feature → Prop) : Prop :=
  ∀ (a : Nat) (o : Obj) (t : TypeRec) (f : Feature), H[a]? = some o → find? ts o.ty = some t → f ∈ allFeatures t →
    (ctorFields t).Nodup → NameOk f → InlineFeat K ts H o f → Q f →
    isPrimitiveArray K o.ty = false → o.ty ≠ FS_ARRAY →
    (∀ b, Target K ts H a b → Resolves H fss na b) →
    ∀ (hpX : Heap) (a' : Nat) (o' : Obj), hpX[a']? = some o' → o'.xid ≠ none →
    ∀ (v w : Val), alistGet? o.slots f.name = some v → alistGet? o'.slots f.name = some w →
      Slot1 K ts cass H hpX o f.name v w →
      ∃ (hpY : Heap) (w' : Val), postFeature K ts tsIdx ci' sofas fss hpX a' o.ty false f = .ok hpY ∧
        StepX hpX hpY a' f.name w' ∧ Slot2 K ts cass H na ci' hpY o f.name v w'

/-- the ranges of inlined arrays / of inlined lists -/
def ArrRange (f : Feature) : Prop := PrimArrTy f.range ∨ f.range = STRING_ARRAY ∨ f.range = FS_ARRAY
def ListRange (f : Feature) : Prop :=
  f.range = INTEGER_LIST ∨ f.range = FLOAT_LIST ∨ f.range = STRING_LIST ∨ f.range = FS_LIST

end Cassis.Xmi
