/-
Helper lemmas for `Properties/C13Self.lean`, part A: features up to `Feature.__eq__`, the simulation
invariant `Sub o m` ("the merged type system so far is a part of the original `o`"), and what one
successful `addFeature` / `createType` does record by record (`Grow`).
-/
import CassisModel.Spec.MergeSelf
import CassisModel.Proofs.Features
import CassisModel.Proofs.Merge

namespace Cassis.TS

/-! ### `featKey` is the key of `featureEq` -/

theorem featKey_eq_iff (f g : Feature) : featKey f = featKey g ↔ featureEq f g = true := by
  rw [featureEq_iff]
  unfold featKey
  simp only [Prod.mk.injEq]

/-- own and inherited features of a record -/
abbrev eff (t : TypeRec) : List Feature := t.own ++ t.inh

theorem dedup_keys_nodup : ∀ (l seen : List Feature), ((dedupFeatures l seen).map featKey).Nodup := by
  intro l
  induction l with
  | nil => intro seen; simp [dedupFeatures]
  | cons f fs ih =>
    intro seen
    unfold dedupFeatures
    split
    · exact ih seen
    · simp only [List.map_cons, List.nodup_cons]
      refine ⟨?_, ih _⟩
      intro hmem
      obtain ⟨x, hx, hxk⟩ := List.mem_map.mp hmem
      have h1 : featureEq f x = true := (featKey_eq_iff f x).mp hxk.symm
      have h2 := dedup_not_seen fs (seen ++ [f]) x hx f (by simp)
      rw [h1] at h2; cases h2

theorem mem_keys_allFeatures (t : TypeRec) (k : String × Option String × String × String) :
    k ∈ (allFeatures t).map featKey ↔ ∃ f ∈ eff t, featKey f = k := by
  constructor
  · intro h
    obtain ⟨x, hx, e⟩ := List.mem_map.mp h
    exact ⟨x, allFeatures_sub hx, e⟩
  · rintro ⟨f, hf, e⟩
    obtain ⟨y, hy, hyf⟩ := allFeatures_cover hf
    exact List.mem_map.mpr ⟨y, hy, ((featKey_eq_iff y f).mpr hyf).trans e⟩

/-- mutual coverage up to `featureEq` gives the same effective features up to `featKey` -/
theorem keys_perm_of_cover (t t' : TypeRec)
    (h1 : ∀ f ∈ eff t, ∃ g ∈ eff t', featureEq g f = true)
    (h2 : ∀ f ∈ eff t', ∃ g ∈ eff t, featureEq g f = true) :
    ((allFeatures t').map featKey).Perm ((allFeatures t).map featKey) := by
  have n1 : ((allFeatures t').map featKey).Nodup := dedup_keys_nodup _ _
  have n2 : ((allFeatures t).map featKey).Nodup := dedup_keys_nodup _ _
  rw [List.perm_ext_iff_of_nodup n1 n2]
  intro k
  rw [mem_keys_allFeatures, mem_keys_allFeatures]
  constructor
  · rintro ⟨f, hf, e⟩
    obtain ⟨g, hg, hgf⟩ := h2 f hf
    exact ⟨g, hg, ((featKey_eq_iff g f).mpr hgf).trans e⟩
  · rintro ⟨f, hf, e⟩
    obtain ⟨g, hg, hgf⟩ := h1 f hf
    exact ⟨g, hg, ((featKey_eq_iff g f).mpr hgf).trans e⟩

theorem featureEq_setDomain (g f : Feature) (n : String) :
    featureEq g { f with domain := n } = featureEq g f := rfl

/-! ### `addCheck`: the conflicting witness -/

theorem addCheck_true_conflict {t : TypeRec} {f : Feature} (h : addCheck t f true = .conflict) :
    ∃ g ∈ t.inh, g.name = f.name ∧ featureEq g f = false := by
  unfold addCheck at h
  simp only [if_true] at h
  split at h
  · rename_i g hg
    split at h
    · cases h
    · rename_i he
      exact ⟨g, (find_name_some hg).1, (find_name_some hg).2, by simpa using he⟩
  · simp at h

theorem addCheck_false_conflict_inv {t : TypeRec} {f : Feature} (h : addCheck t f false = .conflict) :
    ∃ g ∈ eff t, g.name = f.name ∧ featureEq g f = false := by
  unfold addCheck at h
  simp only [Bool.false_eq_true, if_false] at h
  split at h
  · rename_i g hg
    split at h
    · cases h
    · rename_i he
      exact ⟨g, List.mem_append_left _ (find_name_some hg).1, (find_name_some hg).2, by simpa using he⟩
  · split at h
    · rename_i g hg
      split at h
      · cases h
      · rename_i he
        exact ⟨g, List.mem_append_right _ (find_name_some hg).1, (find_name_some hg).2, by simpa using he⟩
    · cases h

/-! ### The simulation invariant -/

/-- the record `tm` (named `n`) of the merged type system against the record `to` of the original -/
structure SubRec (o : TypeSystem) (n : String) (tm to : TypeRec) : Prop where
  super : to.super = tm.super
  descr : to.descr = tm.descr
  feats : ∀ f ∈ eff tm, ∃ g ∈ eff to, featureEq g f = true
  kids : ∀ c ∈ tm.children, ∃ tc, find? o c = some tc ∧ tc.super = some n

/-- everything `m` declares, `o` declares too -/
def Sub (o m : TypeSystem) : Prop :=
  ∀ n tm, find? m n = some tm → ∃ to, find? o n = some to ∧ SubRec o n tm to

/-- `f` is (up to `featureEq`) an effective feature of the type named `c` in `o` -/
def CovIn (o : TypeSystem) (c : String) (f : Feature) : Prop :=
  ∃ tc, find? o c = some tc ∧ ∃ g ∈ eff tc, featureEq g f = true

theorem covIn_child {o : TypeSystem} (hfo : FeatInv o) {c d : String} {td : TypeRec} {f : Feature}
    (h : CovIn o c f) (htd : find? o d = some td) (hsd : td.super = some c) : CovIn o d f := by
  obtain ⟨tc, htc, g, hg, hgf⟩ := h
  have hreg : hasExact o c = true := (hasExact_iff_find o c).mpr ⟨tc, htc⟩
  have hanc : Anc o c d := Anc.step c d c td htd hsd (Anc.refl c hreg)
  obtain ⟨g', hg', hgg, _⟩ := chain_down hfo hanc htc htd g hg
  exact ⟨td, htd, g', hg', featureEq_trans hgg hgf⟩

theorem covIn_anc {o : TypeSystem} (hfo : FeatInv o) {a b : String} {f : Feature}
    (h : CovIn o a f) (hab : Anc o a b) : CovIn o b f := by
  obtain ⟨ta, hta, g, hg, hgf⟩ := h
  obtain ⟨tb, htb⟩ := (hasExact_iff_find o b).mp hab.right_reg
  obtain ⟨g', hg', hgg, _⟩ := chain_down hfo hab hta htb g hg
  exact ⟨tb, htb, g', hg', featureEq_trans hgg hgf⟩

/-- two same-named features covered at one type of `o` are identical definitions -/
theorem cov_agree {o : TypeSystem} (hfo : FeatInv o) {n : String} {to : TypeRec} (hto : find? o n = some to)
    {g0 f0 g f : Feature} (hg0 : g0 ∈ eff to) (hf0 : f0 ∈ eff to)
    (hg : featureEq g0 g = true) (hf : featureEq f0 f = true) (hn : g.name = f.name) :
    featureEq g f = true := by
  have hn0 : g0.name = f0.name := by
    rw [featureEq_name hg, featureEq_name hf, hn]
  have := hfo.coherent (find?_mem hto) g0 hg0 f0 hf0 hn0
  exact featureEq_trans (featureEq_symm hg) (featureEq_trans this hf)

theorem anc_sub {o m : TypeSystem} (hs : Sub o m) {a b : String} (h : Anc m a b) : Anc o a b := by
  induction h with
  | refl ha =>
    obtain ⟨ta, hta⟩ := (hasExact_iff_find m a).mp ha
    obtain ⟨to, hto, _⟩ := hs a ta hta
    exact Anc.refl a ((hasExact_iff_find o a).mpr ⟨to, hto⟩)
  | step b s tb hfb hsb _ ih =>
    obtain ⟨to, hto, hr⟩ := hs b tb hfb
    exact Anc.step _ b s to hto (by rw [hr.super]; exact hsb) ih

theorem find_setRec_other (ts : TypeSystem) (r : TypeRec) (x : String) (h : x ≠ r.name) :
    find? (setRec ts r) x = find? ts x := by
  first | exact find?_setRec_ne ts r h | exact find?_setRec_ne ts r x h

/-- `Sub` after replacing one record -/
theorem sub_setRec {o ts : TypeSystem} (hs : Sub o ts) {c : String} {t r to : TypeRec}
    (hf : find? ts c = some t) (hrn : r.name = c) (hto : find? o c = some to) (hr : SubRec o c r to) :
    Sub o (setRec ts r) := by
  intro n tm hn
  by_cases hnc : n = c
  · subst hnc
    rw [find?_setRec_eq ts r t hrn hf] at hn
    cases hn
    exact ⟨to, hto, hr⟩
  · rw [find_setRec_other ts r n (by rw [hrn]; exact hnc)] at hn
    exact hs n tm hn

/-! ### `pushInherited` neither clashes nor leaves the invariant -/

theorem push_sub (o : TypeSystem) (hfo : FeatInv o) (f : Feature) (fuel : Nat) (ts : TypeSystem)
    (cs : List String) :
    Sub o ts → (∀ c ∈ cs, CovIn o c f) →
      (∀ e, pushInherited f fuel ts cs = .error e → e = .outOfFuel) ∧
      (∀ ts', pushInherited f fuel ts cs = .ok ts' → Sub o ts') := by
  fun_induction pushInherited f fuel ts cs with
  | case1 =>
    intro _ _
    exact ⟨fun e h => (by cases h; rfl), fun ts' h => (by cases h)⟩
  | case2 =>
    intro hs _
    exact ⟨fun e h => (by cases h), fun ts' h => (by cases h; exact hs)⟩
  | case3 fuel ts c cs hf ih =>
    intro hs hcov
    exact ih hs (fun c' hc' => hcov c' (List.mem_cons_of_mem _ hc'))
  | case4 fuel ts c cs t hf hchk =>
    intro hs hcov
    exfalso
    obtain ⟨g, hg, hgn, hgf⟩ := addCheck_true_conflict hchk
    obtain ⟨to, hto, hr⟩ := hs c t hf
    obtain ⟨g0, hg0, hgg⟩ := hr.feats g (List.mem_append_right _ hg)
    obtain ⟨tc, htc, f0, hf0, hff⟩ := hcov c List.mem_cons_self
    rw [hto] at htc; cases htc
    have := cov_agree hfo hto hg0 hf0 hgg hff hgn
    rw [this] at hgf; cases hgf
  | case5 fuel ts c cs t hf hchk ih =>
    intro hs hcov
    exact ih hs (fun c' hc' => hcov c' (List.mem_cons_of_mem _ hc'))
  | case6 fuel ts c cs t hf hchk ts1 ih2 ih1 =>
    intro hs hcov
    obtain ⟨to, hto, hr⟩ := hs c t hf
    have hcovc := hcov c List.mem_cons_self
    have hs1 : Sub o ts1 := by
      show Sub o (setRec ts { t with inh := t.inh ++ [f] })
      have htn : t.name = c := find?_name hf
      apply sub_setRec (r := { t with inh := t.inh ++ [f] }) hs hf htn hto
      refine ⟨hr.super, hr.descr, ?_, hr.kids⟩
      intro x hx
      rcases List.mem_append.mp hx with hx | hx
      · exact hr.feats x (List.mem_append_left _ hx)
      · rcases List.mem_append.mp hx with hx | hx
        · exact hr.feats x (List.mem_append_right _ hx)
        · simp only [List.mem_singleton] at hx; subst hx
          obtain ⟨tc, htc, f0, hf0, hff⟩ := hcovc
          rw [hto] at htc; cases htc
          exact ⟨f0, hf0, hff⟩
    have hkids : ∀ d ∈ t.children, CovIn o d f := by
      intro d hd
      obtain ⟨td, htd, hsd⟩ := hr.kids d hd
      exact covIn_child hfo hcovc htd hsd
    obtain ⟨a1, a2⟩ := ih2 hs1 hkids
    cases h2 : pushInherited f fuel ts1 t.children with
    | error e =>
      simp only [bind, Except.bind]
      refine ⟨?_, fun ts' h => by cases h⟩
      intro e' h; cases h; exact a1 e h2
    | ok ts2 =>
      simp only [bind, Except.bind]
      exact ih1 ts2 (a2 ts2 h2) (fun c' hc' => hcov c' (List.mem_cons_of_mem _ hc'))

/-! ### Record-by-record growth -/

/-- record by record, `ts'` extends `ts`; the own features of predefined types stay as they are -/
def Grow (K : Consts) (ts ts' : TypeSystem) : Prop :=
  ∀ x t, find? ts x = some t → ∃ t', find? ts' x = some t' ∧ t'.super = t.super ∧ t'.descr = t.descr ∧
    (∀ g ∈ t.own, g ∈ t'.own) ∧ (∀ g ∈ t.inh, g ∈ t'.inh) ∧ (K.predefined.contains x = true → t'.own = t.own)

theorem Grow.refl (K : Consts) (ts : TypeSystem) : Grow K ts ts :=
  fun _ t hx => ⟨t, hx, rfl, rfl, fun _ h => h, fun _ h => h, fun _ => rfl⟩

theorem Grow.trans {K : Consts} {a b c : TypeSystem} (h1 : Grow K a b) (h2 : Grow K b c) : Grow K a c := by
  intro x t hx
  obtain ⟨t1, ht1, s1, d1, o1, i1, p1⟩ := h1 x t hx
  obtain ⟨t2, ht2, s2, d2, o2, i2, p2⟩ := h2 x t1 ht1
  exact ⟨t2, ht2, s2.trans s1, d2.trans d1, fun g hg => o2 g (o1 g hg), fun g hg => i2 g (i1 g hg),
    fun hp => (p2 hp).trans (p1 hp)⟩

theorem Grow.reg {K : Consts} {a b : TypeSystem} (h : Grow K a b) (x : String) (hx : hasExact a x = true) :
    hasExact b x = true := by
  obtain ⟨t, ht⟩ := (hasExact_iff_find a x).mp hx
  obtain ⟨t', ht', _⟩ := h x t ht
  exact (hasExact_iff_find b x).mpr ⟨t', ht'⟩

theorem addFeature_grow (K : Consts) {ts ts' : TypeSystem} {dom : String} {f : Feature}
    (hc : Consistent ts) (hf : FeatInv ts) (hdom : K.predefined.contains dom = false)
    (h : addFeature ts dom f = .ok ts') : Grow K ts ts' := by
  obtain ⟨t, ht, ⟨_, rfl⟩ | ⟨_, _, hpush⟩⟩ := addFeature_cases h
  · exact Grow.refl K _
  · have hT := addFeature_target hc hf ht hpush
    intro x tx hx
    obtain ⟨t', ht', _⟩ := hT.recs x tx hx
    refine ⟨t', ht', ?_⟩
    rcases hT.cases hx ht' with ⟨hxd, rfl⟩ | ⟨_, _, _, rfl⟩ | ⟨_, rfl, _⟩
    · refine ⟨rfl, rfl, fun g hg => List.mem_append_left _ hg, fun g hg => hg, ?_⟩
      intro hp; rw [hxd, hdom] at hp; cases hp
    · exact ⟨rfl, rfl, fun g hg => hg, fun g hg => List.mem_append_left _ hg, fun _ => rfl⟩
    · exact ⟨rfl, rfl, fun g hg => hg, fun g hg => hg, fun _ => rfl⟩

theorem addFeature_covers {ts ts' : TypeSystem} {dom : String} {f : Feature}
    (hc : Consistent ts) (hf : FeatInv ts) (h : addFeature ts dom f = .ok ts') :
    ∃ t', find? ts' dom = some t' ∧ ∃ g ∈ eff t', featureEq g f = true := by
  obtain ⟨t, ht, ⟨hsame, rfl⟩ | ⟨_, _, hpush⟩⟩ := addFeature_cases h
  · obtain ⟨g, hg, _, hgf⟩ := addCheck_false_same hsame
    exact ⟨t, ht, g, hg, hgf⟩
  · have hT := addFeature_target hc hf ht hpush
    obtain ⟨t', ht', h1, _⟩ := hT.recs dom t ht
    refine ⟨t', ht', f, ?_, featureEq_refl f⟩
    rw [h1 rfl]
    exact List.mem_append_left _ (List.mem_append_right _ (List.mem_singleton.mpr rfl))

/-! ### `addFeature` succeeds on what the original declares -/

theorem addFeature_sub (o : TypeSystem) (hfo : FeatInv o) (ts : TypeSystem) (dom : String) (f : Feature)
    (hc : Consistent ts) (hs : Sub o ts) (hreg : hasExact ts dom = true)
    (hcov : CovIn o dom f) : ∃ ts', addFeature ts dom f = .ok ts' ∧ Sub o ts' := by
  obtain ⟨t, ht⟩ := (hasExact_iff_find ts dom).mp hreg
  obtain ⟨to, hto, hr⟩ := hs dom t ht
  obtain ⟨tc, htc, f0, hf0, hff⟩ := hcov
  rw [hto] at htc; cases htc
  unfold addFeature
  rw [ht]
  simp only
  cases hchk : addCheck t f false with
  | conflict =>
    exfalso
    obtain ⟨g, hg, hgn, hgf⟩ := addCheck_false_conflict_inv hchk
    obtain ⟨g0, hg0, hgg⟩ := hr.feats g hg
    have := cov_agree hfo hto hg0 hf0 hgg hff hgn
    rw [this] at hgf; cases hgf
  | same => exact ⟨ts, rfl, hs⟩
  | fresh =>
    simp only
    have hdc : descendantConflict ts dom f = false := by
      cases hd : descendantConflict ts dom f with
      | false => rfl
      | true =>
        exfalso
        unfold descendantConflict at hd
        obtain ⟨d, hdm, hdp⟩ := List.any_eq_true.mp hd
        simp only [Bool.and_eq_true] at hdp
        obtain ⟨_, hdp⟩ := hdp
        cases hfd : find? ts d with
        | none => rw [hfd] at hdp; cases hdp
        | some td =>
          rw [hfd] at hdp
          simp only at hdp
          cases hfg : td.own.find? (·.name == f.name) with
          | none => rw [hfg] at hdp; cases hdp
          | some g =>
            rw [hfg] at hdp
            simp only at hdp
            have hanc : Anc ts dom d := (descendants_eq_closure_aux ts hc dom d hreg).mp hdm
            have hanco : Anc o dom d := anc_sub hs hanc
            obtain ⟨tdo, htdo, f1, hf1, hff1⟩ := covIn_anc hfo ⟨to, hto, f0, hf0, hff⟩ hanco
            obtain ⟨tdo', htdo', hrd⟩ := hs d td hfd
            rw [htdo] at htdo'; cases htdo'
            obtain ⟨g0, hg0, hgg⟩ := hrd.feats g (List.mem_append_left _ (find_name_some hfg).1)
            have := cov_agree hfo htdo hg0 hf1 hgg hff1 (find_name_some hfg).2
            rw [this] at hdp; cases hdp
    rw [hdc]
    simp only [Bool.false_eq_true, if_false]
    have htn : t.name = dom := find?_name ht
    have hs1 : Sub o (setRec ts { t with own := t.own ++ [f] }) := by
      apply sub_setRec (r := { t with own := t.own ++ [f] }) hs ht htn hto
      refine ⟨hr.super, hr.descr, ?_, hr.kids⟩
      intro x hx
      rcases List.mem_append.mp hx with hx | hx
      · rcases List.mem_append.mp hx with hx | hx
        · exact hr.feats x (List.mem_append_left _ hx)
        · simp only [List.mem_singleton] at hx; subst hx
          exact ⟨f0, hf0, hff⟩
      · exact hr.feats x (List.mem_append_right _ hx)
    have hkids : ∀ d ∈ t.children, CovIn o d f := by
      intro d hd
      obtain ⟨td, htd, hsd⟩ := hr.kids d hd
      exact covIn_child hfo ⟨to, hto, f0, hf0, hff⟩ htd hsd
    obtain ⟨a1, a2⟩ := push_sub o hfo f (ts.types.length + 1) _ t.children hs1 hkids
    cases hp : pushInherited f (ts.types.length + 1) (setRec ts { t with own := t.own ++ [f] }) t.children with
    | ok ts' => exact ⟨ts', rfl, a2 ts' hp⟩
    | error e =>
      exfalso
      have he := a1 e hp
      subst he
      have := pushInherited_ne_fuel f (setRec ts { t with own := t.own ++ [f] }) t.children
      have hl : (setRec ts { t with own := t.own ++ [f] }).types.length = ts.types.length := by
        simp [setRec]
      rw [hl] at this
      exact this hp

/-! ### `createType` succeeds below a registered, non-final supertype -/

theorem inheritAll_ok : ∀ (fs : List Feature) (t : TypeRec), (fnames fs).Nodup →
    (∀ n ∈ fnames fs, n ∉ fnames t.inh) → inheritAll fs t = .ok { t with inh := t.inh ++ fs } := by
  intro fs
  induction fs with
  | nil => intro t _ _; unfold inheritAll; simp
  | cons f fs ih =>
    intro t hn hd
    have hfresh : addCheck t f true = .fresh :=
      addCheck_true_of_not_mem (hd f.name (by simp [fnames]))
    unfold inheritAll
    rw [hfresh]
    simp only
    simp only [fnames, List.map_cons, List.nodup_cons] at hn
    rw [ih { t with inh := t.inh ++ [f] } hn.2 (by
      intro n hnm
      simp only [fnames_append, List.mem_append, not_or]
      refine ⟨hd n (by simp only [fnames, List.map_cons]; exact List.mem_cons_of_mem _ hnm), ?_⟩
      simp only [fnames, List.map_cons, List.map_nil, List.mem_singleton]
      intro e; subst e; exact hn.1 hnm)]
    simp

@[simp] theorem upd_descr (sup n : String) (t : TypeRec) : (upd sup n t).descr = t.descr := by
  unfold upd; split <;> rfl

theorem upd_children (sup n : String) (t : TypeRec) (c : String) (h : c ∈ (upd sup n t).children) :
    c ∈ t.children ∨ (t.name = sup ∧ c = n) := by
  unfold upd at h
  split at h
  · rename_i hn
    rcases List.mem_append.mp h with h | h
    · exact Or.inl h
    · exact Or.inr ⟨by simpa using hn, by simpa using h⟩
  · exact Or.inl h

theorem createType_succeeds (K : Consts) (ts : TypeSystem) (n s : String) (d : Option String) (sup : TypeRec)
    (hf : FeatInv ts) (hnew : hasExact ts n = false) (hsup : find? ts s = some sup)
    (hnf : K.finalTypes.contains s = false) : ∃ ts', createType K ts n s d = .ok ts' := by
  have hsn : sup.name = s := find?_name hsup
  have hia := inheritAll_ok (allFeatures sup) { name := n, super := some sup.name, descr := d }
    (effective_names_nodup_aux ts hf sup (find?_mem hsup)) (by intro m _; simp [fnames])
  unfold createType
  simp only [hnf, hnew, getType_of_find hsup, hsn, bind, Except.bind, pure, Except.pure, Bool.false_eq_true,
    if_false, Bool.false_and]
  rw [hsn] at hia
  rw [hia]
  exact ⟨_, rfl⟩

theorem createType_step (K : Consts) (o : TypeSystem) (hfo : FeatInv o) (ts : TypeSystem) (n s : String)
    (tn sup : TypeRec) (hc : Consistent ts) (hf : FeatInv ts) (hs : Sub o ts)
    (hnew : hasExact ts n = false) (hsup : find? ts s = some sup) (hnf : K.finalTypes.contains s = false)
    (htn : find? o n = some tn) (htns : tn.super = some s) :
    ∃ ts', createType K ts n s tn.descr = .ok ts' ∧ Consistent ts' ∧ FeatInv ts' ∧ Sub o ts' ∧ Grow K ts ts' ∧
      hasExact ts' n = true := by
  obtain ⟨ts', h⟩ := createType_succeeds K ts n s tn.descr sup hf hnew hsup hnf
  refine ⟨ts', h, consistent_createType_aux K ts ts' n s _ hc hnew h,
    featInv_createType_aux K ts ts' n s _ hc hf hnew h, ?_⟩
  obtain ⟨sup', hsup', _, rfl⟩ := createType_shape K ts ts' n s _ hc hf hnew h
  rw [getType_of_find hsup] at hsup'
  have e : sup = sup' := by injection hsup'
  subst e
  have hsn : sup.name = s := find?_name hsup
  have hfind := find_create ts ts.redeclared n sup.name
    { name := n, super := some sup.name, descr := tn.descr, inh := allFeatures sup } rfl hnew
  refine ⟨?_, ?_, ?_⟩
  · -- Sub
    intro x tm hx
    rw [hfind] at hx
    by_cases hxn : x = n
    · subst hxn
      simp only [if_true, Option.some.injEq] at hx
      subst hx
      refine ⟨tn, htn, ?_, rfl, ?_, ?_⟩
      · rw [htns, hsn]
      · intro g hg
        simp only [eff, List.nil_append] at hg
        have hg' : g ∈ eff sup := allFeatures_sub hg
        obtain ⟨so, hso, hrs⟩ := hs s sup hsup
        obtain ⟨g0, hg0, hgg⟩ := hrs.feats g hg'
        obtain ⟨tn', htn', g1, hg1, hgg1⟩ := covIn_child hfo ⟨so, hso, g0, hg0, hgg⟩ htn htns
        rw [htn] at htn'; cases htn'
        exact ⟨g1, hg1, hgg1⟩
      · intro c hc; cases hc
    · simp only [hxn, if_false] at hx
      cases hfx : find? ts x with
      | none => rw [hfx] at hx; cases hx
      | some t0 =>
        rw [hfx] at hx
        simp only [Option.map_some, Option.some.injEq] at hx
        subst hx
        obtain ⟨to, hto, hr⟩ := hs x t0 hfx
        refine ⟨to, hto, ?_, ?_, ?_, ?_⟩
        · rw [upd_super]; exact hr.super
        · rw [upd_descr]; exact hr.descr
        · intro g hg
          simp only [eff, upd_own, upd_inh] at hg
          exact hr.feats g hg
        · intro c hc
          rcases upd_children _ _ _ _ hc with hc | ⟨h1, h2⟩
          · exact hr.kids c hc
          · subst h2
            refine ⟨tn, htn, ?_⟩
            rw [htns, ← hsn, ← h1, find?_name hfx]
  · -- Grow
    intro x t hx
    have hxn : x ≠ n := by
      intro e; subst e
      rw [find?_none_of_not_has hnew] at hx; cases hx
    refine ⟨upd sup.name n t, ?_, upd_super _ _ _, upd_descr _ _ _, ?_, ?_, ?_⟩
    · rw [hfind, if_neg hxn, hx]; rfl
    · intro g hg; rw [upd_own]; exact hg
    · intro g hg; rw [upd_inh]; exact hg
    · intro _; rw [upd_own]
  · rw [hasExact_iff_find]
    exact ⟨_, by rw [hfind, if_pos rfl]⟩

end Cassis.TS
