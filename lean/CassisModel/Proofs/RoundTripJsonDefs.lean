/-
Shared definitions of the proof of the JSON round trip on the flat fragment (`Properties/C02RoundTrip.lean`).

Notation as in `RoundTripDefs.lean`: `H` the heap that is written (`st.heap`), `L` the collected structures
`(id, address in H)` in document order (`sortById st.allFs`), `na` the new address of the structure with a given id,
`ci'` the index of the CAS that is being loaded.  The JSON reader has no `cas:NULL` object: the `k`-th structure of the
document sits at `H.length + k`.
-/
import CassisModel.Proofs.RoundTripJsonGlue
import CassisModel.Proofs.RoundTripPass1
import CassisModel.Proofs.RoundTripBuildD
import CassisModel.Proofs.RoundTripBuild

namespace Cassis.Json
open Cassis.TS Cassis.Traverse Cassis.Lex Cassis.Xmi

/-- the new address of the structure with id `x` -/
def naOf (H : Heap) (L : List (Int × Nat)) (x : Int) : Nat := H.length + posOf x L

/-- the entries of the reader's id map after the sofa pass -/
def sofaEntries (ci' : Nat) (views : List (String × View)) : List (Int × Val) :=
  views.map (fun nv => (nv.2.sofa.xid, Val.sofa ci' nv.1))

/-- the views after the sofa pass: the sofas are back, the indexes are empty -/
def bareViews (views : List (String × View)) : List (String × View) :=
  views.map (fun nv => (nv.1, ({ sofa := nv.2.sofa, idx := [] } : View)))

/-- the view record of the document, members named by the ids of the heap that was written -/
def jviewH (H : Heap) (nv : String × View) : JView :=
  { name := nv.2.sofa.sofaID, sofa := some nv.2.sofa.xid, members := (pviewOf H nv).members }

/-- a loaded view against the view that was written: same key, same sofa, the index holds exactly the members, at
    their new addresses -/
def ViewRelJ (H : Heap) (na : Int → Nat) (nv nv' : String × View) : Prop :=
  nv'.1 = nv.1 ∧ nv'.2.sofa = nv.2.sofa ∧
  ((Index.all nv'.2.idx).map (·.oid)).Perm ((pviewOf H nv).members.map na)

def ViewsRelJ (H : Heap) (na : Int → Nat) : List (String × View) → List (String × View) → Prop
  | [], [] => True
  | nv :: r, nv' :: r' => ViewRelJ H na nv nv' ∧ ViewsRelJ H na r r'
  | _, _ => False

end Cassis.Json
