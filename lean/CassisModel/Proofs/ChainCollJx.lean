/-
C16 with collections — the converse chain JSON → CAS → XMI → CAS (`chain_json_xmi_coll`,
`Properties/C16ChainColl.lean.proposed`).

The JSON writer collects *every* collection object as a structure of its own, the XMI writer does not collect the
inlined ones; so the conclusion speaks about the structures the XMI writer collects from the CAS written first (`stx`: the
traversal with the options of the XMI writer, on the heap after the JSON writer's id assignment).  The first half is the
reader part of the JSON round trip (`json_core_coll_weak`) with the heap relation kept (`JLd`, `ChainCollJxA.lean`); the
loaded CAS is in the XMI fragment (`JLd.coll_new`), is traversed without touching the heap (`JLd.traversal`), the
counterparts of the structures of `stx` are collected (`JLd.complete`), and the second half is the XMI round trip in
the form `xmi_roundtrip_coll_weak` (`ChainCollJxE.lean`).
-/
import CassisModel.Proofs.ChainCollJxD
import CassisModel.Proofs.ChainCollJxE
import CassisModel.Proofs.Chain

namespace Cassis.ChainC
open Cassis.TS Cassis.Traverse Cassis.Xmi Cassis.Lex Cassis.Json Cassis.Json.CC Cassis.Chain

section
variable {K : Consts} {ts : TypeSystem} {c : Cas} {ci : Nat} {H : Heap} {L : List (Int × Nat)} {ci' : Nat}
  {ld : Json.Loaded}

theorem JLd.slot_map (x : JLd K ts c ci H L ci' ld) {q : Int × Nat} (hq : q ∈ L) {o o' : Obj}
    (ho : H[q.2]? = some o) (ho' : ld.heap[naOf H L q.1]? = some o') (n : String) :
    alistGet? o'.slots n = (alistGet? o.slots n).map (exp3J H (naOf H L) ci') := by
  obtain ⟨o1, o1', h1, h1', hr⟩ := x.rel q hq
  rw [ho] at h1; cases h1
  rw [ho'] at h1'; cases h1'
  exact ObjRel.slot_mapJ hr n

/-- the `sofa` slot of a structure of the XMI fragment holds a sofa of the CAS or `None` -/
theorem collFs_sofa_shape {a : Nat} (h : CollFs K ts c ci H a) {o : Obj} (ho : H[a]? = some o) {v : Val}
    (hv : alistGet? o.slots "sofa" = some v) : v = .none ∨ ∃ vn, v = .sofa ci vn := by
  rcases h with hgen | harr
  · obtain ⟨o2, t, ho2, _, _, _, _, _, _, _, _, _, _, _, hsl, hfeat, _⟩ := hgen
    rw [ho] at ho2; cases ho2
    obtain ⟨f, hf, hfn⟩ := flat_slot_feature hsl hv
    rcases hfeat f hf with hflat | ⟨hname, _⟩
    · obtain ⟨_, _, _, _, _, _, _, _, _, _, _, v', hv', hcase⟩ := hflat
      rw [hfn, hv] at hv'; cases hv'
      rcases hcase with ⟨_, h1⟩ | ⟨hne, _⟩ | ⟨hne, _⟩
      · rcases h1 with ⟨vn, e, _⟩ | ⟨e, _⟩
        · exact Or.inr ⟨vn, e⟩
        · exact Or.inl e
      · exact absurd hfn hne
      · exact absurd hfn hne
    · exact absurd hfn hname.2.2.2.2.2
  · obtain ⟨o2, t, f, ev, ho2, _, _, _, _, _, _, _, hsl, _⟩ := harr
    rw [ho] at ho2; cases ho2
    rw [hsl] at hv
    simp [alistGet?] at hv

theorem JLd.mem_sofa (x : JLd K ts c ci H L ci' ld)
    (h : ∀ nv ∈ c.views, ∀ e ∈ Index.all nv.2.idx, Xmi.slot H e.oid "sofa" ≠ some .none) :
    ∀ nv ∈ ld.cas.views, ∀ e ∈ Index.all nv.2.idx, Xmi.slot ld.heap e.oid "sofa" ≠ some .none := by
  intro nv' hnv' e' he'
  obtain ⟨nv, hnv, _, e, he, i, hi, hei⟩ := x.entry hnv' he'
  obtain ⟨o, o', ho, ho', _⟩ := x.obj hi
  have h0 := h nv hnv e he
  rw [hei, slotOf "sofa" ho', x.slot_map hi ho ho' "sofa"]
  rw [slotOf "sofa" ho] at h0
  cases hv : alistGet? o.slots "sofa" with
  | none => simp
  | some v =>
    rw [hv] at h0
    rcases collFs_sofa_shape (x.collx _ hi) ho hv with rfl | ⟨vn, rfl⟩
    · exact absurd rfl h0
    · simp [exp3J, exp3]

theorem JLd.membersOk (x : JLd K ts c ci H L ci' ld) (h : MembersOk c H) : MembersOk ld.cas ld.heap := by
  intro nv' hnv'
  obtain ⟨nv, hnv, hr⟩ := viewsRelJ_bwd H _ _ _ x.views nv' hnv'
  have key : ∀ e' ∈ Index.all nv'.2.idx, ∃ e ∈ Index.all nv.2.idx, ∃ (o o' : Obj) (k : Index.Entry),
      H[e.oid]? = some o ∧ Cas.entryOf o e.oid = .ok k ∧ ld.heap[e'.oid]? = some o' ∧ o'.ty = o.ty ∧
      Cas.entryOf o' e'.oid = .ok { k with oid := e'.oid } := by
    intro e' he'
    obtain ⟨e, he, i, hi, hei⟩ := x.entry_of hnv hr he'
    obtain ⟨o, o', ho, ho', hty, _⟩ := x.obj hi
    obtain ⟨o1, k, ho1, hk⟩ := (h nv hnv).1 e he
    rw [show H[((i, e.oid) : Int × Nat).2]? = H[e.oid]? from rfl] at ho
    rw [ho] at ho1; cases ho1
    refine ⟨e, he, o, o', k, ho, hk, by rw [hei]; exact ho', hty, ?_⟩
    exact Json.JVC.entryOf_relJ H _ ci' (x.slot_map hi ho ho' "begin") (x.slot_map hi ho ho' "end") hk
  refine ⟨?_, ?_⟩
  · intro e' he'
    obtain ⟨_, _, _, o', k, _, _, ho', _, hk'⟩ := key e' he'
    exact ⟨o', _, ho', hk'⟩
  · intro e1' he1' e2' he2' o1' o2' k1' k2' ho1' ho2' hty hk1' hk2'
    obtain ⟨e1, he1, o1, o1'', k1, ho1, hk1, ho1'', hty1, hk1''⟩ := key e1' he1'
    obtain ⟨e2, he2, o2, o2'', k2, ho2, hk2, ho2'', hty2, hk2''⟩ := key e2' he2'
    rw [ho1'] at ho1''; cases ho1''
    rw [ho2'] at ho2''; cases ho2''
    rw [hk1'] at hk1''; cases hk1''
    rw [hk2'] at hk2''; cases hk2''
    exact (h nv hnv).2 e1 he1 e2 he2 o1 o2 k1 k2 ho1 ho2 (by rw [← hty1, ← hty2]; exact hty) hk1 hk2

end

end Cassis.ChainC

namespace Cassis
open Cassis.TS Cassis.Traverse Cassis.Xmi Cassis.Chain Cassis.ChainC

/-- JSON → CAS → XMI → CAS, collections included -/
theorem chain_json_xmi_coll_aux (K : Consts) (ts : TypeSystem) (cass : List Cas) (ci : Nat) (c : Cas) (hp : Heap)
    (tsIdx : Nat) (docj : Json.JDoc) (st stx : St)
    (hc : cass[ci]? = some c) (hwf : RTWf c hp) (hnull : NullOk ts)
    (hsave : Json.saveJson K ts cass ci hp .none = .ok (docj, st))
    (hcoll : ∀ q ∈ st.allFs, CollFs K ts c ci st.heap q.2)
    (hjson : ∀ q ∈ st.allFs, Json.JsonFs ts st.heap q.2)
    (harr : ∀ q ∈ st.allFs, Json.ArrElemsSome st.heap q.2)
    (hids : ∀ nv ∈ c.views, ∀ e ∈ Index.all nv.2.idx, (xidOf hp e.oid).isSome = true)
    (hdis : ∀ q ∈ st.allFs, ∀ nv ∈ c.views, q.1 ≠ nv.2.sofa.xid)
    (hmem : ∀ nv ∈ c.views, ∀ e ∈ Index.all nv.2.idx, Xmi.slot st.heap e.oid "sofa" ≠ some .none)
    (hmok : MembersOk c st.heap)
    (hx : findAllFs K ts {} st.heap c.nextXid (defaultSeeds c) = .ok stx) :
    ∃ (ld1 : Json.Loaded) (docx : XDoc) (st2 : St) (p2 : Pass1) (ld2 : Xmi.Loaded),
      Json.loadJson K ts tsIdx cass.length false false st.heap docj = .ok ld1 ∧
      saveXmi K ts (cass ++ [ld1.cas]) cass.length ld1.heap = .ok (docx, st2) ∧
      pass1 K ts tsIdx false docx { heap := st2.heap } = .ok p2 ∧
      loadXmi K ts tsIdx (cass.length + 1) false st2.heap docx = .ok ld2 ∧
      ld2.cas.views.map (viewContent ld2.heap) = c.views.map (viewContent st.heap) ∧
      (∀ q ∈ stx.allFs, ∃ (a2 : Nat) (o o2 : Obj), lookupFs p2.fss q.1 = .ok a2 ∧
          st.heap[q.2]? = some o ∧ ld2.heap[a2]? = some o2 ∧ o2.ty = o.ty ∧ o2.xid = some q.1 ∧
          ∀ t : TypeRec, find? ts o.ty = some t → ∀ f ∈ allFeatures t,
            featContentC K ld2.heap a2 f = featContentC K st.heap q.2 f) := by
  -- the first half
  have harr0 : ∀ nv ∈ c.views, nv.2.sofa.arr = .none := fun nv hnv => (hwf.text_sofa nv hnv).1
  obtain ⟨hfa, fsElems, hr, hdfss, hdviews, _⟩ := Json.saveJson_parts hc harr0 hsave
  have hjcoll : ∀ q ∈ st.allFs, Json.JCollFs K ts c ci st.heap q.2 := fun q hq =>
    Json.jcollFs_of_collFs_aux K ts c ci st.heap q.2 (hcoll q hq) (hjson q hq) (harr q hq)
  have hLJ : Json.LOkJ K ts c ci st.heap (sortById st.allFs) := Json.trav_collJ K ts ci c hp st hwf hfa hjcoll
  have hdisL : ∀ q ∈ sortById st.allFs, ∀ nv ∈ c.views, q.1 ≠ nv.2.sofa.xid :=
    fun q hq => hdis q (mem_sortById.mp hq)
  have g : Json.GCtxJ K ts cass c ci hp st.heap (sortById st.allFs) := ⟨hc, hwf, hLJ, hdisL⟩
  have hfs : fsElems = (sortById st.allFs).map (Json.elemOfJ K ts cass st.heap) :=
    Json.renderAll_eq_mapJ K ts cass st.heap _ _ fsElems hr
      (fun q hq e he => Json.writer_collJ K ts cass c ci hp st.heap _ g q hq e he)
  subst hfs
  have hviewsJ : docj.views = c.views.map (Json.jviewH st.heap) := by
    rw [hdviews]
    apply List.map_congr_left
    intro nv hnv
    unfold Json.jviewOf Json.jviewH pviewOf
    congr 2
    apply Json.filterMap_congr'
    intro e he
    obtain ⟨y, hy⟩ := Option.isSome_iff_exists.mp (hids nv hnv e he)
    show xidOf hp e.oid = xidOf st.heap e.oid
    rw [hy, Json.jst_ids_kept hwf hfa e.oid y hy]
  obtain ⟨ld1, hload1, hrel, hvc1, hvrelJ, m, hnx, hm0, hmq, hms⟩ :=
    json_core_coll_weak K ts cass ci c hp st.heap (sortById st.allFs) tsIdx cass.length docj hc hwf hLJ hdisL hmem hmok
      hdfss hviewsJ
  have x : JLd K ts c ci st.heap (sortById st.allFs) cass.length ld1 :=
    ⟨hLJ, fun q hq => hcoll q (mem_sortById.mp hq), hrel, hvrelJ⟩
  have hnx2 : 0 < ld1.cas.nextXid := by omega
  -- the loaded CAS is traversed …
  obtain ⟨st2, hfa2, hheap2, _, hL2⟩ := x.traversal hnx2
  have hcomp := x.complete hwf.next_pos hx hnx2 hfa2 hheap2 hL2
  have hc' : (cass ++ [ld1.cas])[cass.length]? = some ld1.cas := List.getElem?_concat_length
  -- … and written
  have helem : Elem1Stmt K ts (cass ++ [ld1.cas]) ld1.heap tsIdx (CollFs K ts ld1.cas cass.length ld1.heap) := by
    intro a y hP hy
    rcases hP with hg | ha
    · exact gen_elem1 K ts _ cass.length ld1.cas ld1.heap tsIdx hc' a y hg hy
    · exact arr_elem1 K ts _ ld1.heap tsIdx a y ha hy
  obtain ⟨es, hes, _⟩ := Cassis.Xmi.CAS.renderAll_pair K ts (cass ++ [ld1.cas]) ld1.heap tsIdx _ helem
    (sortById st2.allFs) hL2.coll (fun q hq => (hL2.ids q hq).1)
  have hsave2 : saveXmi K ts (cass ++ [ld1.cas]) cass.length ld1.heap =
      .ok ([{ ty := NULL_T, attrs := [(ID, "0")] }] ++ es ++
        ld1.cas.views.map (fun p => renderSofa p.2.sofa) ++ ld1.cas.views.map (fun p => renderView st2.heap p.2), st2) := by
    unfold saveXmi
    rw [hc']
    simp only [bind, Except.bind, pure, Except.pure, hfa2, hheap2, hes]
  -- the views of the loaded CAS are well-formed (the JSON reader restores the sofas as they were)
  have hvrl : VRL st.heap (Json.naOf st.heap (sortById st.allFs)) c.views ld1.cas.views := VRL.of_json hvrelJ
  obtain ⟨w1, w2, w3, w4, w5, w6⟩ := views_wf hwf hvrl
  have hwf' : RTWf ld1.cas [] :=
    { init_first := w1, names := w2, names_nodup := w3, sofa_ids_nodup := w4,
      text_sofa := by
        intro nv' hnv'
        obtain ⟨nv, hnv, hr⟩ := Json.viewsRelJ_bwd _ _ _ _ hvrelJ nv' hnv'
        rw [hr.2.1]; exact hwf.text_sofa nv hnv
      conv := by
        intro nv' hnv' t ht
        obtain ⟨nv, hnv, hr⟩ := Json.viewsRelJ_bwd _ _ _ _ hvrelJ nv' hnv'
        rw [hr.2.1] at ht ⊢; exact hwf.conv nv hnv t ht
      conv_none := by
        intro nv' hnv' ht
        obtain ⟨nv, hnv, hr⟩ := Json.viewsRelJ_bwd _ _ _ _ hvrelJ nv' hnv'
        rw [hr.2.1] at ht ⊢; exact hwf.conv_none nv hnv ht
      scalar := w5
      next_pos := hnx2
      ids_below := by intro a ob _ ha; cases ha
      sofa_ids := by
        intro nv' hnv'
        refine ⟨w6 nv' hnv', ?_⟩
        obtain ⟨nv, hnv, hr⟩ := VRL.bwd hvrl nv' hnv'
        rw [hr.2.2.1]
        have := hms nv hnv
        omega
      ids_pos := by intro a ob _ ha; cases ha }
  obtain ⟨p2, ld2, hp2, hload2, hfs2, hvc2⟩ :=
    xmi_roundtrip_coll_weak K ts (cass ++ [ld1.cas]) cass.length ld1.cas [] ld1.heap tsIdx (cass.length + 1) _ st2
      hc' hwf' hnull hsave2 (by rw [hheap2]; exact hL2) (by rw [hheap2]; exact x.mem_sofa hmem)
      (by rw [hheap2]; exact x.membersOk hmok)
  refine ⟨ld1, _, st2, p2, ld2, hload1, hsave2, hp2, hload2, ?_, ?_⟩
  · rw [hvc2, hheap2, hvc1]
  · intro q hq0
    obtain ⟨hq, hq2⟩ := hcomp q hq0
    obtain ⟨o, o', ho, ho', hty, _, _, _⟩ := x.obj hq
    obtain ⟨a2, o1, o2, hlk, ho1, ho2, hty2, hx2, hfc2⟩ := hfs2 _ hq2
    have e1 : o1 = o' := by
      have : ld1.heap[Json.naOf st.heap (sortById st.allFs) q.1]? = some o1 := by rw [← hheap2]; exact ho1
      rw [ho'] at this
      exact (Option.some.inj this).symm
    subst e1
    refine ⟨a2, o, o2, hlk, ho, ho2, hty2.trans hty, hx2, ?_⟩
    intro t ht f hf
    rw [hfc2 t (by rw [hty]; exact ht) f hf, hheap2]
    exact Json.content_collJ K ts c ci st.heap (sortById st.allFs) cass.length ld1.heap hLJ hrel q hq o t ho ht f hf

end Cassis
