/-
The skeleton shared by the sensitivity theorems: two successful runs that give the same table give, for every
collected structure of a section that is shown, the same row (when the sort order agrees) or a row that some structure
of the same type has in the other table (always).
-/
import CassisModel.Proofs.ComparableSensVal

namespace Cassis.Comparable
open Cassis.TS Cassis.Traverse

theorem mem_sortFs_group (lt : Nat → Nat → Bool) (hp : Heap) (addrs : List Nat) (a : Nat) (t : String) :
    a ∈ sortFs lt (group hp addrs t) ↔ a ∈ addrs ∧ tyOf hp a = t := by
  constructor
  · intro h
    have := List.mem_filter.1 ((sortFs_perm_aux lt _).subset h)
    exact ⟨this.1, by simpa using this.2⟩
  · intro h
    apply (sortFs_perm_aux lt _).symm.subset
    unfold group
    rw [List.mem_filter]
    exact ⟨h.1, by simp [h.2]⟩

/-- the genAnchors run of `renderFrom` on a heap -/
def AnchorsOf (ts : TypeSystem) (cass : List Cas) (hp : Heap) (o : Opts) (hsh : Nat → Int) (indexed addrs : List Nat)
    (st : AnchorSt) : Prop :=
  genAnchors ts cass hp indexed o (sortedOf (ltFs hp hsh) hp addrs) (sortedOf (ltFs hp hsh) hp addrs) {} = .ok st

/-- equal tables, same sort order: the row of every shown structure is the same -/
theorem rows_pos {K : Consts} {ts : TypeSystem} {cass : List Cas} {hp hp' : Heap} {o : Opts} {hsh : Nat → Int}
    {indexed indexed' addrs : List Nat} {secs : List Section} (ag : AgreeSort hp hp')
    (h : renderFrom K ts cass hp o hsh indexed addrs = .ok secs)
    (h' : renderFrom K ts cass hp' o hsh indexed' addrs = .ok secs)
    (a : Nat) (ha : a ∈ addrs) (hex : o.exclude.contains (tyOf hp a) = false) :
    ∃ st st' t r, AnchorsOf ts cass hp o hsh indexed addrs st ∧ AnchorsOf ts cass hp' o hsh indexed' addrs st' ∧
      getType ts (tyOf hp a) = .ok t ∧
      renderRow K cass hp st.byId t (annFlag ts o t) a = .ok r ∧
      renderRow K cass hp' st'.byId t (annFlag ts o t) a = .ok r := by
  obtain ⟨st, hg, hs⟩ := renderFrom_ok h
  obtain ⟨st', hg', hs'⟩ := renderFrom_ok h'
  refine ⟨st, st', ?_⟩
  rw [ag.sortedOf] at hs'
  obtain ⟨t, rows, ht, hr, hr'⟩ := renderSections_rows
    (fun t => sortFs (ltFs hp hsh) (group hp addrs t)) (fun t => sortFs (ltFs hp hsh) (group hp addrs t))
    (sortNames (typeKeys hp addrs)) secs hs hs' (tyOf hp a) (mem_typeKeys hp addrs a ha) hex
  obtain ⟨r, h1, h2⟩ := renderRows_pos _ rows hr hr' a ((mem_sortFs_group _ hp addrs a _).2 ⟨ha, rfl⟩)
  exact ⟨t, r, hg, hg', ht, h1, h2⟩

/-- equal tables: the row of a shown structure in the second table is the row of a structure of the same type in the
    first -/
theorem rows_nonpos {K : Consts} {ts : TypeSystem} {cass : List Cas} {hp hp' : Heap} {o : Opts} {hsh : Nat → Int}
    {indexed indexed' addrs : List Nat} {secs : List Section} (hty : ∀ c, tyOf hp' c = tyOf hp c)
    (h : renderFrom K ts cass hp o hsh indexed addrs = .ok secs)
    (h' : renderFrom K ts cass hp' o hsh indexed' addrs = .ok secs)
    (a : Nat) (ha : a ∈ addrs) (hex : o.exclude.contains (tyOf hp a) = false) :
    ∃ st st' t, AnchorsOf ts cass hp o hsh indexed addrs st ∧ AnchorsOf ts cass hp' o hsh indexed' addrs st' ∧
      getType ts (tyOf hp a) = .ok t ∧
      ∃ c r, c ∈ addrs ∧ tyOf hp c = tyOf hp a ∧
        renderRow K cass hp st.byId t (annFlag ts o t) c = .ok r ∧
        renderRow K cass hp' st'.byId t (annFlag ts o t) a = .ok r := by
  obtain ⟨st, hg, hs⟩ := renderFrom_ok h
  obtain ⟨st', hg', hs'⟩ := renderFrom_ok h'
  refine ⟨st, st', ?_⟩
  have e : sortedOf (ltFs hp' hsh) hp' addrs =
      (sortNames (typeKeys hp addrs)).map (fun t => (t, sortFs (ltFs hp' hsh) (group hp addrs t))) := by
    unfold sortedOf
    rw [typeKeys_congr hty]
    simp only [group_congr hty]
  rw [e] at hs'
  obtain ⟨t, rows, ht, hr, hr'⟩ := renderSections_rows
    (fun t => sortFs (ltFs hp hsh) (group hp addrs t)) (fun t => sortFs (ltFs hp' hsh) (group hp addrs t))
    (sortNames (typeKeys hp addrs)) secs hs hs' (tyOf hp a) (mem_typeKeys hp addrs a ha) hex
  obtain ⟨r, hr1, hr2⟩ := (renderRows_mem _ rows hr').1 a ((mem_sortFs_group _ hp addrs a _).2 ⟨ha, rfl⟩)
  obtain ⟨c, hc1, hc2⟩ := (renderRows_mem _ rows hr).2 r hr1
  obtain ⟨hc3, hc4⟩ := (mem_sortFs_group _ hp addrs c _).1 hc1
  exact ⟨t, hg, hg', ht, c, r, hc3, hc4, hc2, hr2⟩

theorem XidInj.congr {hp hp' : Heap} {addrs : List Nat} (hx : XidInj hp addrs) (h : ∀ c, xidOf hp' c = xidOf hp c) :
    XidInj hp' addrs := by
  intro a ha b hb e
  rw [h, h] at e
  exact hx a ha b hb e

/-- the second run brought to the order, hash and indexed list of the first -/
theorem normalise {K : Consts} {ts : TypeSystem} {cass : List Cas} {hp' : Heap} {o : Opts} {hsh hsh' : Nat → Int}
    {indexed indexed' addrs addrs' : List Nat} (hperm : addrs.Perm addrs') (hidx : ∀ x, x ∈ indexed ↔ x ∈ indexed')
    (hn : addrs.Nodup) (hd' : Distinct hp' addrs) {secs' : List Section}
    (h' : renderFrom K ts cass hp' o hsh' indexed' addrs' = .ok secs') :
    renderFrom K ts cass hp' o hsh indexed addrs = .ok secs' := by
  rw [renderFrom_perm_invariant_aux K ts cass hp' o hsh hsh' indexed indexed' addrs addrs' hperm hidx hn hd']
  exact h'

/-! ### three generic sensitivity statements -/

/-- a feature cell that cannot be the same makes the tables differ -/
theorem col_sens {K : Consts} {ts : TypeSystem} {cass : List Cas} {hp hp' : Heap} {o : Opts} {hsh : Nat → Int}
    {indexed indexed' addrs : List Nat} {secs secs' : List Section} (ag : AgreeSort hp hp')
    (h : renderFrom K ts cass hp o hsh indexed addrs = .ok secs)
    (h' : renderFrom K ts cass hp' o hsh indexed' addrs = .ok secs')
    (a : Nat) (ha : a ∈ addrs) (hex : o.exclude.contains (tyOf hp a) = false) (harr : isArrayFs K hp a = false)
    (t : TypeRec) (ht : getType ts (tyOf hp a) = .ok t) (f : String) (hf : f ∈ columns t)
    (hne : ∀ st st', AnchorsOf ts cass hp o hsh indexed addrs st → AnchorsOf ts cass hp' o hsh indexed' addrs st' →
      CellNe K hp hp' st.byId st'.byId ((slot hp a f).getD .none) ((slot hp' a f).getD .none)) :
    secs ≠ secs' := by
  intro heq
  subst heq
  obtain ⟨st, st', t', r, hg, hg', ht', hr, hr'⟩ := rows_pos ag h h' a ha hex
  rw [ht] at ht'
  have : t' = t := (Except.ok.inj ht').symm
  subst this
  have harr' : isArrayFs K hp' a = false := by rw [isArrayFs_congr ag.ty]; exact harr
  obtain ⟨cs, hcs, hcs'⟩ := row_cols_eq hr hr' harr harr'
  obtain ⟨c, hc, hc'⟩ := renderCols_cell _ cs hcs hcs' f hf
  exact hne st st' hg hg' _ _ c hc hc'

/-- an `elements` cell of a collected array that cannot be the same makes the tables differ -/
theorem elems_sens {K : Consts} {ts : TypeSystem} {cass : List Cas} {hp hp' : Heap} {o : Opts} {hsh : Nat → Int}
    {indexed indexed' addrs : List Nat} {secs secs' : List Section} (ag : AgreeSort hp hp')
    (h : renderFrom K ts cass hp o hsh indexed addrs = .ok secs)
    (h' : renderFrom K ts cass hp' o hsh indexed' addrs = .ok secs')
    (a : Nat) (ha : a ∈ addrs) (hex : o.exclude.contains (tyOf hp a) = false) (harr : isArrayFs K hp a = true)
    (v v' : Val) (hv : slot hp a "elements" = some v) (hv' : slot hp' a "elements" = some v')
    (hne : ∀ st st', AnchorsOf ts cass hp o hsh indexed addrs st → AnchorsOf ts cass hp' o hsh indexed' addrs st' →
      CellNe K hp hp' st.byId st'.byId v v') :
    secs ≠ secs' := by
  intro heq
  subst heq
  obtain ⟨st, st', t, r, hg, hg', _, hr, hr'⟩ := rows_pos ag h h' a ha hex
  have harr' : isArrayFs K hp' a = true := by rw [isArrayFs_congr ag.ty]; exact harr
  obtain ⟨w, w', c, hw, hw', hc, hc'⟩ := row_elems_eq hr hr' harr harr'
  rw [hv] at hw
  rw [hv'] at hw'
  cases hw
  cases hw'
  exact hne st st' hg hg' _ _ c hc hc'

/-- an anchor that cannot be the same makes the tables differ -/
theorem anchor_sens {K : Consts} {ts : TypeSystem} {cass : List Cas} {hp hp' : Heap} {o : Opts} {hsh : Nat → Int}
    {indexed indexed' addrs : List Nat} {secs secs' : List Section} (ag : AgreeSort hp hp')
    (h : renderFrom K ts cass hp o hsh indexed addrs = .ok secs)
    (h' : renderFrom K ts cass hp' o hsh indexed' addrs = .ok secs')
    (a : Nat) (ha : a ∈ addrs) (hex : o.exclude.contains (tyOf hp a) = false)
    (hne : ∀ st st', AnchorsOf ts cass hp o hsh indexed addrs st → AnchorsOf ts cass hp' o hsh indexed' addrs st' →
      anchorCell hp st.byId a ≠ anchorCell hp' st'.byId a) :
    secs ≠ secs' := by
  intro heq
  subst heq
  obtain ⟨st, st', t, r, hg, hg', _, hr, hr'⟩ := rows_pos ag h h' a ha hex
  have e1 := renderRow_head hr
  have e2 := renderRow_head hr'
  rw [e1] at e2
  exact hne st st' hg hg' (Option.some.inj e2)

/-- with an update that does not touch offsets, sofa or ids, both runs build the same anchor map -/
theorem anchors_same {ts : TypeSystem} {cass : List Cas} {hp hp' : Heap} {o : Opts} {hsh : Nat → Int}
    {indexed addrs : List Nat} (ag : AgreeAnchor hp hp') {st st' : AnchorSt}
    (hg : AnchorsOf ts cass hp o hsh indexed addrs st) (hg' : AnchorsOf ts cass hp' o hsh indexed addrs st') :
    st' = st := by
  unfold AnchorsOf at hg hg'
  rw [ag.toAgreeSort.sortedOf, ag.genAnchors, hg] at hg'
  exact (Except.ok.inj hg').symm

end Cassis.Comparable
