/-
C20 across two heaps, assembly: `renderFrom` gives the same result on two isomorphic sides (`renderFrom_iso_aux`).
-/
import CassisModel.Proofs.ComparableIsoRender

namespace Cassis.Comparable
open Cassis.TS Cassis.Traverse

theorem sorted_mem (hp : Heap) (hsh : Nat → Int) (addrs : List Nat) :
    ∀ p ∈ (sortNames (typeKeys hp addrs)).map (fun t => (t, sortFs (ltFs hp hsh) (group hp addrs t))),
      ∀ a ∈ p.2, a ∈ addrs := by
  intro p hp' a ha
  obtain ⟨t, _, rfl⟩ := List.mem_map.mp hp'
  have h1 := (sortFs_perm_aux (ltFs hp hsh) (group hp addrs t)).subset ha
  exact (List.mem_filter.1 h1).1

theorem renderFrom_iso_aux (K : Consts) (ts : TypeSystem) (cass cass' : List Cas) (hp hp' : Heap) (o : Opts)
    (hsh hsh' : Nat → Int) (indexed indexed' addrs addrs' : List Nat) (φ : Nat → Nat)
    (hiso : Iso K cass cass' hp hp' indexed indexed' addrs addrs' φ) (hd : Distinct hp addrs) :
    renderFrom K ts cass' hp' o hsh' indexed' addrs' = renderFrom K ts cass hp o hsh indexed addrs := by
  rw [← renderFrom_perm_invariant_aux K ts cass' hp' o hsh' hsh' indexed' indexed' (addrs.map φ) addrs' hiso.bij
    (fun _ => Iff.rfl) hiso.nodup_map (hiso.distinct_map hd)]
  unfold renderFrom
  simp only []
  rw [hiso.sorted_map hd hsh hsh']
  have hmem := sorted_mem hp hsh addrs
  generalize (sortNames (typeKeys hp addrs)).map (fun t => (t, sortFs (ltFs hp hsh) (group hp addrs t))) = S at hmem
  have h1 := hiso.genAnchors ts o S (S.map (fun p => (p.1, p.2.map φ))) S hmem (StRel.init hp hp' addrs φ)
  cases hs : genAnchors ts cass hp indexed o S S {} with
  | error e =>
    cases hs' : genAnchors ts cass' hp' indexed' o (S.map (fun p => (p.1, p.2.map φ)))
        (S.map (fun p => (p.1, p.2.map φ))) {} with
    | error e' => rw [hs, hs'] at h1; rw [show e' = e from h1.symm]
    | ok s' => rw [hs, hs'] at h1; exact h1.elim
  | ok s =>
    cases hs' : genAnchors ts cass' hp' indexed' o (S.map (fun p => (p.1, p.2.map φ)))
        (S.map (fun p => (p.1, p.2.map φ))) {} with
    | error e' => rw [hs, hs'] at h1; exact h1.elim
    | ok s' =>
      rw [hs, hs'] at h1
      exact hiso.renderSections ts o (AnchRel.of_keysRel h1.2) S hmem

/-- the side condition transfers to the image -/
theorem distinct_iso_aux (K : Consts) (cass cass' : List Cas) (hp hp' : Heap)
    (indexed indexed' addrs addrs' : List Nat) (φ : Nat → Nat)
    (hiso : Iso K cass cass' hp hp' indexed indexed' addrs addrs' φ) (hd : Distinct hp addrs) :
    Distinct hp' addrs' := hiso.distinct hd

/-! ### the condition on ids in the two simple cases -/

/-- collected ids pairwise distinct on both sides: every collected structure has the same key as its image -/
theorem sameKey_of_ids_distinct_aux (hp hp' : Heap) (addrs : List Nat) (φ : Nat → Nat)
    (h1 : ∀ a ∈ addrs, ∀ b ∈ addrs, xidOf hp a = xidOf hp b → a = b)
    (h2 : ∀ a ∈ addrs, ∀ b ∈ addrs, xidOf hp' (φ a) = xidOf hp' (φ b) → a = b) :
    ∀ a ∈ addrs, SameKey hp hp' addrs φ a (φ a) := by
  intro a ha b hb
  constructor
  · intro h; rw [h1 b hb a ha h]
  · intro h; rw [h2 b hb a ha h]

/-- a structure whose id is no collected structure's id, on both sides -/
theorem sameKey_fresh_aux (hp hp' : Heap) (addrs : List Nat) (φ : Nat → Nat) (a a' : Nat)
    (h1 : ∀ b ∈ addrs, xidOf hp b ≠ xidOf hp a) (h2 : ∀ b ∈ addrs, xidOf hp' (φ b) ≠ xidOf hp' a') :
    SameKey hp hp' addrs φ a a' := by
  intro b hb
  exact ⟨fun h => absurd h (h1 b hb), fun h => absurd h (h2 b hb)⟩

end Cassis.Comparable
