/-
C16 with collections, the CAS loaded from XMI, part C: every structure of `SAll` is a structure of the JSON fragment
(`JGenFs` / `JArrFs`, `JsonFs`) in the loaded CAS, and `SAll` is closed under the references and FSArray elements its
structures hold.
-/
import CassisModel.Proofs.ChainCollLoadedB
import CassisModel.Proofs.RoundTripJsonCollTrav

namespace Cassis.ChainC
open Cassis.TS Cassis.Traverse Cassis.Xmi Cassis.Lex Cassis.Json

theorem single_slot {β} : ∀ (l : List (String × β)) (k : String) (v : β), l.map (·.1) = [k] → alistGet? l k = some v →
    l = [(k, v)]
  | [], _, _, h, _ => by cases h
  | [(k', v')], k, v, h, hg => by
    simp only [List.map_cons, List.map_nil, List.cons.injEq, and_true] at h
    subst h
    unfold alistGet? at hg
    rw [if_pos rfl] at hg
    cases hg
    rfl
  | _ :: _ :: _, _, _, h, _ => by simp at h

theorem e3c_list {K : Consts} {ts : TypeSystem} {H : Heap} {na : Int → Nat} {ia : Int → String → Nat} {ci' : Nat}
    (o : Obj) (n : String) (v : Val) (h : isListV v = true) : E3c K ts H na ia ci' o n v = elemsExp H na v := by
  cases v <;> first | rfl | cases h

/-- an object of an array type with `elements` as the JSON fragment wants them; `R` is where the elements of an
    FSArray point -/
def ArrShape (K : Consts) (R : Nat → Prop) (o : Obj) (ev : Val) : Prop :=
  (o.ty = FS_ARRAY ∧ isPrimitiveArray K FS_ARRAY = false ∧ ∃ l : List (Option Nat), ev = .refs l ∧ ∀ b, some b ∈ l → R b)
  ∨ (o.ty ≠ FS_ARRAY ∧ (PrimArrTy o.ty ∨ o.ty = STRING_ARRAY) ∧ isPrimitiveArray K o.ty = true ∧ JPrimElems o.ty ev)

theorem arrTy_ne_sofa {n : String} (h : PrimArrTy n ∨ n = STRING_ARRAY ∨ n = FS_ARRAY) : n ≠ SOFA := by
  rcases h with ((h | h | h) | h | h | (h | h)) | h | h <;> subst h <;> decide

theorem arrTy_json {n : String} (h : PrimArrTy n ∨ n = STRING_ARRAY ∨ n = FS_ARRAY) : n.endsWith "[]" = false := by
  rcases h with ((h | h | h) | h | h | (h | h)) | h | h <;> subst h <;> decide +kernel

theorem jarr_of_shape {K : Consts} {ts : TypeSystem} {hp : Heap} {a : Nat} {o : Obj} {ev : Val} {R : Nat → Prop}
    (ho : hp[a]? = some o) (hsl : o.slots = [("elements", ev)]) (hs : ArrShape K R o ev)
    {t : TypeRec} {f : Feature} (ht : find? ts o.ty = some t) (htn : t.name = o.ty) (hsup : t.super = some ARRAY_BASE)
    (hall : allFeatures t = [f]) (hfn : f.name = "elements") (hres : f.reserved = false)
    (hann : isInstanceOf ts o.ty ANNOTATION = false) :
    JArrFs K ts hp a ∧ JsonFs ts hp a := by
  have hname : PrimArrTy o.ty ∨ o.ty = STRING_ARRAY ∨ o.ty = FS_ARRAY := by
    rcases hs with ⟨h, _⟩ | ⟨_, h | h, _⟩
    · exact .inr (.inr h)
    · exact .inl h
    · exact .inr (.inl h)
  refine ⟨⟨o, t, f, ev, ho, ht, htn, hsup, hall, hfn, hres, hsl, hann, arrTy_ne_sofa hname, ?_⟩, ?_⟩
  · rcases hs with ⟨h1, h2, l, h3, _⟩ | ⟨h1, _, h3, h4⟩
    · exact .inl ⟨h1, h2, l, h3⟩
    · exact .inr ⟨h1, h3, h4⟩
  · intro o' t' ho' ht'
    rw [ho] at ho'; cases ho'
    rw [ht] at ht'; cases ht'
    refine ⟨arrTy_json hname, fun g hg => ?_⟩
    rw [hall] at hg
    rw [List.mem_singleton.mp hg, hfn]
    exact ⟨by decide +kernel, by decide +kernel, by decide +kernel, fun h => by rcases h with h | h <;> exact absurd h (by decide)⟩

/-! ### the inlined array objects and list nodes -/

theorem sarr_j {K : Consts} {ts : TypeSystem} {hp : Heap} {L : List (Int × Nat)} {na : Int → Nat} {a : Nat}
    (htys : CollTypesOk K ts) (h : SArr K hp L na a) :
    JArrFs K ts hp a ∧ JsonFs ts hp a ∧
    ∀ o, hp[a]? = some o → (∀ n b, alistGet? o.slots n ≠ some (.ref b)) ∧
      ∀ l, alistGet? o.slots "elements" = some (.refs l) → ∀ b, some b ∈ l → SMain L na b := by
  obtain ⟨o, ev, ho, _, hsl, hk⟩ := h
  have hshape : ArrShape K (SMain L na) o ev := by
    rcases hk with ⟨h1, h2, l, h3, h4⟩ | h
    · refine .inl ⟨h1, h2, l, h3, fun b hb => ?_⟩
      obtain ⟨q, hq, e⟩ := h4 _ hb
      cases e
      exact ⟨q, hq, rfl⟩
    · exact .inr h
  have hname : PrimArrTy o.ty ∨ o.ty = STRING_ARRAY ∨ o.ty = FS_ARRAY := by
    rcases hk with ⟨h, _⟩ | ⟨_, h | h, _⟩
    · exact .inr (.inr h)
    · exact .inl h
    · exact .inr (.inl h)
  obtain ⟨t, f, ht, htn, hsup, hall, hfn, hres, hann⟩ := htys.arr o.ty hname
  obtain ⟨j1, j2⟩ := jarr_of_shape ho hsl hshape ht htn hsup hall hfn hres hann
  refine ⟨j1, j2, fun o' ho' => ?_⟩
  rw [ho] at ho'; cases ho'
  refine ⟨fun n b hb => ?_, fun l hl b hb => ?_⟩
  · rw [hsl] at hb
    obtain ⟨_, e⟩ := alistGet?_single hb
    subst e
    rcases hk with ⟨_, _, l, e, _⟩ | ⟨_, _, _, hp_⟩
    · cases e
    · rcases hp_ with e | ⟨_, l, e⟩ | ⟨_, l, e⟩ | ⟨_, _, ⟨l, e⟩ | ⟨l, e⟩ | ⟨l, e⟩⟩ <;> cases e
  · rw [hsl, get_elements] at hl
    cases hl
    rcases hshape with ⟨_, _, l', e, hR⟩ | ⟨_, _, _, hp_⟩
    · cases e
      exact hR b hb
    · rcases hp_ with e | ⟨_, l', e⟩ | ⟨_, l', e⟩ | ⟨_, _, ⟨l', e⟩ | ⟨l', e⟩ | ⟨l', e⟩⟩
      · cases e; cases hb
      all_goals cases e

/-- the kind of the `head` feature of the node type of a list kind -/
def headOk (K : Consts) (ts : TypeSystem) : LK → Feature → Prop
  | .fs => fun f => RefRange K ts f ∧ isInline K f = false
  | .int => fun f => isPrimitive K ts f.range = true ∧ isIntRange f.range = true
  | .flt => fun f => isPrimitive K ts f.range = true ∧ (f.range = "uima.cas.Float" ∨ f.range = "uima.cas.Double")
  | .str => fun f => isPrimitive K ts f.range = true ∧ f.range = "uima.cas.String"

theorem _root_.Cassis.Json.CollTypesOk.empty {K : Consts} {ts : TypeSystem} (h : CollTypesOk K ts) (k : LK) : NodeTyOk K ts k.emptyT [] := by
  cases k
  · exact h.emptyFs
  · exact h.emptyInt
  · exact h.emptyFlt
  · exact h.emptyStr

theorem _root_.Cassis.Json.CollTypesOk.ne {K : Consts} {ts : TypeSystem} (h : CollTypesOk K ts) (k : LK) :
    NeNodeOk K ts k.neT (headOk K ts k) := by
  cases k
  · exact h.neFs
  · exact h.neInt
  · exact h.neFlt
  · exact h.neStr

theorem nodeTy_names (k : LK) :
    (k.emptyT ≠ FS_ARRAY ∧ k.emptyT ≠ SOFA ∧ k.emptyT ≠ VIEW_T ∧ k.emptyT.endsWith "[]" = false) ∧
    (k.neT ≠ FS_ARRAY ∧ k.neT ≠ SOFA ∧ k.neT ≠ VIEW_T ∧ k.neT.endsWith "[]" = false) := by
  cases k <;> exact ⟨⟨by decide, by decide, by decide, by decide +kernel⟩, ⟨by decide, by decide, by decide, by decide +kernel⟩⟩

theorem snode_j {K : Consts} {ts : TypeSystem} {hp : Heap} {L : List (Int × Nat)} {na : Int → Nat} {a : Nat}
    (htys : CollTypesOk K ts) (c' : Cas) (ci' : Nat) (h : SNode hp L na a) :
    JGenFs K ts c' ci' hp a ∧ JsonFs ts hp a ∧
    ∀ o, hp[a]? = some o → (∀ n b, alistGet? o.slots n = some (.ref b) → SMain L na b ∨ SNode hp L na b) ∧
      ∀ l, alistGet? o.slots "elements" ≠ some (.refs l) := by
  obtain ⟨k, vs, hv, hlen, hgood⟩ := h
  obtain ⟨⟨e1, e2, e3, e4⟩, ⟨n1, n2, n3, n4⟩⟩ := nodeTy_names k
  cases hv with
  | @nil _ o g1 g2 g3 g4 =>
    obtain ⟨t, ht, htn, hall, s1, s2, s3, s4, s5, s6⟩ := htys.empty k
    rw [← g3] at ht htn s1 s2 s4 s5 s6 e1 e2 e3 e4
    refine ⟨⟨o, t, g1, ht, htn, s1, s2, s3, s4, e1, s5, e2, e3, ?_, ?_, ?_, ?_⟩, ?_, ?_⟩
    · unfold ctorFields; rw [hall]; exact List.nodup_nil
    · unfold ctorFields; rw [hall, g4]; rfl
    · intro f hf; rw [hall] at hf; cases hf
    · intro hA; rw [s6] at hA; cases hA
    · intro o' t' ho' ht'
      rw [g1] at ho'; cases ho'
      rw [ht] at ht'; cases ht'
      exact ⟨e4, fun f hf => by rw [hall] at hf; cases hf⟩
    · intro o' ho'
      rw [g1] at ho'; cases ho'
      rw [g4]
      exact ⟨fun n b hb => (by cases hb), fun l hl => (by cases hl)⟩
  | @cons _ o v a' vs' g1 g2 g3 g4 g5 =>
    obtain ⟨fh, ft, ⟨t, ht, htn, hall, s1, s2, s3, s4, s5, s6⟩, hfh, hft, rh, rt, hph, hpt⟩ := htys.ne k
    rw [← g3] at ht htn s1 s2 s4 s5 s6 n1 n2 n3 n4
    have hvgood : HeadGood L na k v := hgood v List.mem_cons_self
    have hlen' : vs'.length < hp.length := by simp only [List.length_cons] at hlen; omega
    have htail : SNode hp L na a' := ⟨k, vs', g5, hlen', fun w hw => hgood w (List.mem_cons_of_mem _ hw)⟩
    refine ⟨⟨o, t, g1, ht, htn, s1, s2, s3, s4, n1, s5, n2, n3, ?_, ?_, ?_, ?_⟩, ?_, ?_⟩
    · unfold ctorFields; rw [hall]
      simp only [List.map_cons, List.map_nil, hfh, hft]
      decide
    · unfold ctorFields; rw [hall, g4]
      simp only [List.map_cons, List.map_nil, hfh, hft]
      decide
    · intro f hf
      rw [hall] at hf
      rcases List.mem_cons.mp hf with rfl | hf
      · -- head
        refine ⟨.inl rh, by rw [hfh]; decide, by rw [hfh]; decide, by rw [hfh]; decide, by rw [hfh]; decide,
          v, by rw [hfh, g4, get_head], ?_⟩
        have hns : f.name ≠ "sofa" := by rw [hfh]; decide
        cases k with
        | fs =>
          obtain ⟨q, _, rfl⟩ := hvgood
          obtain ⟨⟨p1, p2, p3, p4⟩, hni⟩ := hph
          exact .inr (.inr ⟨hns, p1, p2, p3, p4, .inr ⟨_, rfl, fun hi => by rw [hni] at hi; cases hi⟩⟩)
        | int =>
          obtain ⟨i, rfl⟩ := hvgood
          exact .inr (.inl ⟨hns, hph.1, .inr (.inl ⟨hph.2, i, rfl⟩)⟩)
        | flt =>
          obtain ⟨t', rfl⟩ := hvgood
          exact .inr (.inl ⟨hns, hph.1, .inr (.inr (.inr (.inr ⟨hph.2, t', rfl⟩)))⟩)
        | str =>
          rcases hvgood with rfl | ⟨s, rfl⟩
          · exact .inr (.inl ⟨hns, hph.1, .inl rfl⟩)
          · exact .inr (.inl ⟨hns, hph.1, .inr (.inr (.inl ⟨hph.2, s, rfl⟩))⟩)
      · -- tail
        rw [List.mem_singleton] at hf
        subst hf
        obtain ⟨p1, p2, p3, p4⟩ := hpt
        refine ⟨.inl rt, by rw [hft]; decide, by rw [hft]; decide, by rw [hft]; decide, by rw [hft]; decide,
          .ref a', by rw [hft, g4, get_tail], ?_⟩
        exact .inr (.inr ⟨by rw [hft]; decide, p1, p2, p3, p4, .inr ⟨a', rfl, fun _ _ =>
          ⟨vs', collectList_vlist g5 _ (by omega)⟩⟩⟩)
    · intro hA; rw [s6] at hA; cases hA
    · intro o' t' ho' ht'
      rw [g1] at ho'; cases ho'
      rw [ht] at ht'; cases ht'
      refine ⟨n4, fun f hf => ?_⟩
      rw [hall] at hf
      rcases List.mem_cons.mp hf with rfl | hf
      · rw [hfh]
        exact ⟨by decide +kernel, by decide +kernel, by decide +kernel, fun h => by rcases h with h | h <;> exact absurd h (by decide)⟩
      · rw [List.mem_singleton] at hf
        subst hf
        rw [hft]
        exact ⟨by decide +kernel, by decide +kernel, by decide +kernel, fun h => by rcases h with h | h <;> exact absurd h (by decide)⟩
    · intro o' ho'
      rw [g1] at ho'; cases ho'
      rw [g4]
      refine ⟨fun n b hb => ?_, fun l hl => ?_⟩
      · unfold alistGet? at hb
        split at hb
        · cases hb
          cases k with
          | fs => obtain ⟨q, hq, e⟩ := hvgood; cases e; exact .inl ⟨q, hq, rfl⟩
          | int => obtain ⟨i, e⟩ := hvgood; cases e
          | flt => obtain ⟨i, e⟩ := hvgood; cases e
          | str => rcases hvgood with e | ⟨s, e⟩ <;> cases e
        · unfold alistGet? at hb
          split at hb
          · cases hb; exact .inr htail
          · cases hb
      · simp [alistGet?] at hl

end Cassis.ChainC
