/-
Fixpoint of the round trip: serialising the loaded CAS again yields the identical document.
-/
import CassisModel.Proofs.RoundTripDefs
import CassisModel.Proofs.RoundTripGlue
import CassisModel.Proofs.RoundTripPass1
import CassisModel.Proofs.RoundTripFixTrav
import CassisModel.Proofs.RoundTripFixFlat
import CassisModel.Proofs.Determinism
import CassisModel.Proofs.RoundTripFixAux

namespace Cassis.Xmi
open Cassis.TS Cassis.Traverse Cassis.Lex

theorem saveXmi_again (K : Consts) (ts : TypeSystem) (cass : List Cas) (ci : Nat) (c : Cas) (hp : Heap)
    (na : Int → Nat) (doc : XDoc) (st : St) (ld : Loaded)
    (hc : cass[ci]? = some c) (hwf : RTWf c hp)
    (hsave : saveXmi K ts cass ci hp = .ok (doc, st))
    (hL : LOk K ts c ci st.heap (sortById st.allFs))
    (hna : NaOk st.heap.length (sortById st.allFs) na)
    (hrel : HeapRel st.heap (sortById st.allFs) na (E3 st.heap na cass.length) ld.heap)
    (hviews : ViewsRel st.heap na c ld.cas)
    (hvc : ld.cas.views.map (viewContent ld.heap) = c.views.map (viewContent st.heap))
    (hnx : 0 < ld.cas.nextXid) :
    ∃ st' : St, saveXmi K ts (cass ++ [ld.cas]) cass.length ld.heap = .ok (doc, st') := by
  have hc' : (cass ++ [ld.cas])[cass.length]? = some ld.cas := List.getElem?_concat_length
  have hfa := saveXmi_findAllFs hc hsave
  obtain ⟨st', hfa', hheap, hS⟩ := new_traversal hc hwf hL hrel hviews
  have hperm := new_allFs_perm hc hwf hfa hL hrel hviews hnx hfa' hheap hS
  have hnd' : (st'.allFs.map (·.1)).Nodup := (findAllFs_inv K ts {} _ _ _ st' hfa').1.nodupK
  have hsort : sortById st'.allFs = (sortById st.allFs).map (fun q => (q.1, na q.1)) := by
    rw [sortById_perm_invariant_aux _ _ hperm hnd']
    exact sortById_map (fun q => (q.1, na q.1)) (fun _ => rfl) _
  obtain ⟨fsElems, hren, hdoc⟩ := saveXmi_doc K ts cass ci c hp doc st hc hsave
  have hren' := renderAll_transfer hc hc' hwf hL hrel hviews _ (fun _ h => h) fsElems hren
  refine ⟨st', ?_⟩
  unfold saveXmi
  rw [hc']
  simp only [bind, Except.bind, pure, Except.pure, hfa', hsort, hheap, hren']
  rw [hdoc, viewsRelL_sofas _ _ _ _ hviews, renderView_map st.heap ld.heap _ _ hvc]

end Cassis.Xmi
