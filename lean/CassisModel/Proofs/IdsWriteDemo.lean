/-
Non-vacuity and evaluated counterexamples for `Properties/C09Write.lean`.

Type system `demoTS'` (`Proofs/RoundTripDemo.lean`): built-ins plus the annotation type `x.Tok` (features `n : Integer`,
`next : x.Tok`).  One view (sofa id 1, sofaNum 1), structures `tok id next`.

* `hpDup`/`casDup`: chain `0 → 1 → 2`, structures 1 and 2 both on id 5 — a reachable duplicate; every structure is
  `Expandable`; `findAllFs`, `saveXmi`, `saveJson` return `.error .valueError` (also evaluated directly).
* `hpOk`/`casOk`: chain `0 → 1`, ids 2 and none: all hypotheses of `saveXmi_ids_distinct` / `saveJson_ids_distinct` /
  `kept_ids_written` / `findAllFs_ok_iff` hold, documents are written with ids `0 2 3 1` / `1 2 3`.
* counterexamples (evaluated): a structure on the sofa's id (I3) is written next to the sofa, in XMI and in JSON;
  a sofa id that is not below the generator collides with a generated id; a sofa byte array forced onto the id of an
  indexed structure is written next to it (JSON; the duplicate check looks neither at sofas nor at their arrays).
-/
import CassisModel.Proofs.IdsWrite5
import CassisModel.Proofs.IdsWrite6
import CassisModel.Proofs.RoundTripDemo

namespace Cassis.IdsWriteDemo
open Cassis Cassis.TS Cassis.Traverse Cassis.Xmi.Demo

def tok (x : Option Int) (next : Val) : Obj :=
  { ty := "x.Tok", ts := 0, xid := x,
    slots := [("n", .int 7), ("next", next), ("begin", .int 0), ("end", .int 0), ("sofa", .sofa 0 "_InitialView")] }

def sofa1 : Sofa := { sofaID := "_InitialView", sofaNum := 1, xid := 1, text := some [97], mime := none }

/-- one view indexing the structure at address 0 -/
def cas1 (s : Sofa) (nx : Int) : Cas :=
  { views := [("_InitialView", { sofa := s, idx := [("x.Tok", [{ b := 0, e := 0, oid := 0 }])] })],
    nextXid := nx, nextSofaNum := 2 }

/-! ### Boolean checkers for `Reach`-quantified hypotheses -/

def expandableB (K : Consts) (ts : TypeSystem) (o : Opts) (hp : Heap) (lf a : Nat) : Bool :=
  match hp[a]? with
  | none => false
  | some ob =>
    ob.xid == some 0 ||
    match getType ts ob.ty with
    | .error _ => false
    | .ok t => match nodeSuccs K ts o hp [] lf a t with
      | .ok _ => true
      | .error _ => false

theorem expandableB_sound (K : Consts) (ts : TypeSystem) (o : Opts) (hp : Heap) (lf a : Nat)
    (h : expandableB K ts o hp lf a = true) : Expandable K ts o hp lf a := by
  unfold expandableB at h
  split at h
  · cases h
  · rename_i ob hob
    refine ⟨ob, hob, ?_⟩
    rw [Bool.or_eq_true] at h
    rcases h with h | h
    · exact Or.inl (by simpa using h)
    · right
      split at h
      · cases h
      · rename_i t ht
        split at h
        · rename_i r hr
          exact ⟨t, r, ht, hr⟩
        · cases h

/-- seeds and all successors stay inside the heap -/
def closedB (K : Consts) (ts : TypeSystem) (o : Opts) (hp : Heap) (lf : Nat) (seeds : List Nat) : Bool :=
  seeds.all (fun a => decide (a < hp.length)) &&
  (List.range hp.length).all (fun a => (succsOf K ts o hp lf a).all (fun b => decide (b < hp.length)))

theorem reach_lt (K : Consts) (ts : TypeSystem) (o : Opts) (hp : Heap) (lf : Nat) (seeds : List Nat)
    (h : closedB K ts o hp lf seeds = true) (a : Nat) (hr : Reach K ts o hp lf seeds a) : a < hp.length := by
  unfold closedB at h
  rw [Bool.and_eq_true] at h
  induction hr with
  | seed a hs => exact of_decide_eq_true (List.all_eq_true.mp h.1 a hs)
  | step a b _ _ hb ih =>
    have := List.all_eq_true.mp h.2 a (List.mem_range.mpr ih)
    exact of_decide_eq_true (List.all_eq_true.mp this b hb)

theorem safe_of_check (K : Consts) (ts : TypeSystem) (o : Opts) (hp : Heap) (lf : Nat) (seeds : List Nat)
    (hc : closedB K ts o hp lf seeds = true)
    (he : (List.range hp.length).all (expandableB K ts o hp lf) = true) :
    ∀ a, Reach K ts o hp lf seeds a → Expandable K ts o hp lf a := by
  intro a hr
  exact expandableB_sound K ts o hp lf a
    (List.all_eq_true.mp he a (List.mem_range.mpr (reach_lt K ts o hp lf seeds hc a hr)))

def noSofaIdB (hp : Heap) (c : Cas) : Bool :=
  hp.all (fun ob => match ob.xid with | some x => !(Cas.sofaIds c).contains x | none => true)

theorem noSofaId_sound (hp : Heap) (c : Cas) (h : noSofaIdB hp c = true) (a : Nat) (x : Int)
    (hx : xidOf hp a = some x) : x ∉ Cas.sofaIds c := by
  unfold xidOf at hx
  cases ho : hp[a]? with
  | none => rw [ho] at hx; cases hx
  | some ob =>
    rw [ho] at hx
    have := List.all_eq_true.mp h ob (List.mem_of_getElem? ho)
    simp only [Option.bind_some] at hx
    rw [hx] at this
    intro hm
    have hc : (Cas.sofaIds c).contains x = true := List.contains_iff_mem.mpr hm
    have this' : (!(Cas.sofaIds c).contains x) = true := this
    rw [hc] at this'
    cases this'

theorem ok_of_toBool {α} {r : Except Err α} (h : r.toBool = true) : ∃ a, r = .ok a := by
  cases r with
  | ok a => exact ⟨a, rfl⟩
  | error e => cases h

def errOf {α} : Except Err α → Option Err
  | .ok _ => none
  | .error e => some e

/-! ### a reachable duplicate -/

def hpDup : Heap := [tok (some 2) (.ref 1), tok (some 5) (.ref 2), tok (some 5) .none]
def casDup : Cas := cas1 sofa1 6

theorem reach0 (o : Opts) (hp : Heap) (c : Cas) (h : 0 ∈ defaultSeeds c) :
    Reach K demoTS' o hp (hp.length + 1) (defaultSeeds c) 0 := .seed 0 h

theorem dup_reach1 (o : Opts) : Reach K demoTS' o hpDup (hpDup.length + 1) (defaultSeeds casDup) 1 :=
  .step 0 1 (.seed 0 (by decide +kernel)) (by decide +kernel) (by obtain ⟨g, i⟩ := o; cases g <;> cases i <;> decide +kernel)

theorem dup_reach2 (o : Opts) : Reach K demoTS' o hpDup (hpDup.length + 1) (defaultSeeds casDup) 2 :=
  .step 1 2 (dup_reach1 o) (by decide +kernel) (by obtain ⟨g, i⟩ := o; cases g <;> cases i <;> decide +kernel)

theorem dup_duplicate (o : Opts) : ReachableDuplicate K demoTS' o hpDup (defaultSeeds casDup) :=
  ⟨1, 2, 5, by decide, by decide, dup_reach1 o, dup_reach2 o, by decide +kernel, by decide +kernel⟩

theorem dup_safe_xmi : ∀ a, Reach K demoTS' {} hpDup (hpDup.length + 1) (defaultSeeds casDup) a →
    Expandable K demoTS' {} hpDup (hpDup.length + 1) a :=
  safe_of_check K demoTS' {} hpDup _ _ (by decide +kernel) (by decide +kernel)

theorem dup_safe_json : ∀ a, Reach K demoTS' { includeInlinable := true } hpDup (hpDup.length + 1) (defaultSeeds casDup) a →
    Expandable K demoTS' { includeInlinable := true } hpDup (hpDup.length + 1) a :=
  safe_of_check K demoTS' _ hpDup _ _ (by decide +kernel) (by decide +kernel)

/-- the conclusion of `findAllFs_duplicate_raises`, evaluated directly — in both orders of meeting the two -/
theorem dup_eval :
    errOf (findAllFs K demoTS' {} hpDup 6 [0]) = some .valueError ∧
    errOf (findAllFs K demoTS' {} hpDup 6 [2, 1]) = some .valueError ∧
    errOf (findAllFs K demoTS' {} hpDup 6 [1, 2]) = some .valueError ∧
    errOf (Xmi.saveXmi K demoTS' [casDup] 0 hpDup) = some .valueError ∧
    errOf (Json.saveJson K demoTS' [casDup] 0 hpDup .none) = some .valueError := by decide +kernel

/-- a generated id that collides with a kept one is reported as well (never written): without `IdsBelow` the
    traversal may raise although no two structures of the heap share an id -/
theorem fresh_collision_eval :
    errOf (findAllFs K demoTS' {} [tok none (.ref 1), tok (some 5) .none] 5 [0]) = some .valueError := by
  decide +kernel

/-! ### a CAS that is written -/

def hpOk : Heap := [tok (some 2) (.ref 1), tok none .none]
def casOk : Cas := cas1 sofa1 3

theorem ok_reach1 (o : Opts) : Reach K demoTS' o hpOk (hpOk.length + 1) (defaultSeeds casOk) 1 :=
  .step 0 1 (.seed 0 (by decide +kernel)) (by decide +kernel) (by obtain ⟨g, i⟩ := o; cases g <;> cases i <;> decide +kernel)

theorem ok_saveXmi : ∃ doc st, Xmi.saveXmi K demoTS' [casOk] 0 hpOk = .ok (doc, st) := by
  obtain ⟨r, hr⟩ := ok_of_toBool (r := Xmi.saveXmi K demoTS' [casOk] 0 hpOk) (by decide +kernel)
  exact ⟨r.1, r.2, hr⟩

theorem ok_saveJson (mode : Json.Mode) : ∃ doc st, Json.saveJson K demoTS' [casOk] 0 hpOk mode = .ok (doc, st) := by
  obtain ⟨r, hr⟩ := ok_of_toBool (r := Json.saveJson K demoTS' [casOk] 0 hpOk mode) (by cases mode <;> decide +kernel)
  exact ⟨r.1, r.2, hr⟩

/-- **non-vacuity** of `saveXmi_ids_distinct` and `kept_ids_written`: every hypothesis holds on the instance -/
theorem ok_hyps_xmi : ∃ doc st,
    [casOk][0]? = some casOk ∧ 0 < casOk.nextXid ∧ (Cas.sofaIds casOk).Nodup ∧
    (∀ x ∈ Cas.sofaIds casOk, 0 < x ∧ x < casOk.nextXid) ∧
    (∀ a x, Reach K demoTS' {} hpOk (hpOk.length + 1) (defaultSeeds casOk) a → xidOf hpOk a = some x →
      x ∉ Cas.sofaIds casOk) ∧
    Xmi.saveXmi K demoTS' [casOk] 0 hpOk = .ok (doc, st) ∧
    Reach K demoTS' {} hpOk (hpOk.length + 1) (defaultSeeds casOk) 0 ∧ xidOf hpOk 0 = some 2 := by
  obtain ⟨doc, st, h⟩ := ok_saveXmi
  exact ⟨doc, st, rfl, by decide, by decide, by decide,
    fun a x _ hx => noSofaId_sound hpOk casOk (by decide +kernel) a x hx, h,
    .seed 0 (by decide +kernel), by decide +kernel⟩

/-- **non-vacuity** of `saveJson_ids_distinct` and `kept_ids_written_json` -/
theorem ok_hyps_json (mode : Json.Mode) : ∃ doc st,
    [casOk][0]? = some casOk ∧ 0 < casOk.nextXid ∧ Json.NoSofaArray casOk ∧ (Cas.sofaIds casOk).Nodup ∧
    (∀ x ∈ Cas.sofaIds casOk, x < casOk.nextXid) ∧
    (∀ a x, Reach K demoTS' { includeInlinable := true } hpOk (hpOk.length + 1) (defaultSeeds casOk) a →
      xidOf hpOk a = some x → x ∉ Cas.sofaIds casOk) ∧
    Json.saveJson K demoTS' [casOk] 0 hpOk mode = .ok (doc, st) ∧
    Reach K demoTS' { includeInlinable := true } hpOk (hpOk.length + 1) (defaultSeeds casOk) 0 ∧
    xidOf hpOk 0 = some 2 := by
  obtain ⟨doc, st, h⟩ := ok_saveJson mode
  refine ⟨doc, st, rfl, by decide, ?_, by decide, by decide,
    fun a x _ hx => noSofaId_sound hpOk casOk (by decide +kernel) a x hx, h,
    .seed 0 (by decide +kernel), by decide +kernel⟩
  intro p hp a ha
  simp only [casOk, cas1, List.mem_singleton] at hp
  subst hp
  cases ha

/-- the documents of the instance: the kept id 2, the generated id 3, the sofa's id 1 -/
theorem ok_eval :
    (Xmi.saveXmi K demoTS' [casOk] 0 hpOk).toOption.map (fun r => Xmi.docIds r.1) = some ["0", "2", "3", "1"] ∧
    (Json.saveJson K demoTS' [casOk] 0 hpOk .none).toOption.map (fun r => Json.docIds r.1) =
      some [some 1, some 2, some 3] := by decide +kernel

/-- **non-vacuity** of `findAllFs_ok_iff`: hypotheses hold and the traversal succeeds -/
theorem ok_hyps_iff : 0 < (3 : Int) ∧ ({} : Opts).generateIds = true ∧ IdsBelow hpOk 3 ∧
    (∀ c, Reach K demoTS' {} hpOk (hpOk.length + 1) [0] c → Expandable K demoTS' {} hpOk (hpOk.length + 1) c) ∧
    (findAllFs K demoTS' {} hpOk 3 [0]).toBool = true := by
  refine ⟨by decide, rfl, ?_, safe_of_check K demoTS' {} hpOk _ _ (by decide +kernel) (by decide +kernel),
    by decide +kernel⟩
  rw [idsBelow_iff]
  intro a x hx
  match a, hx with
  | 0, hx => cases hx; decide
  | 1, hx => cases hx
  | n+2, hx => cases hx

/-! ### evaluated counterexamples: what the hypotheses of the distinctness theorems exclude -/

/-- **I3** (XMI and JSON): an indexed structure forced onto the sofa's id 1 is written next to the sofa -/
theorem cx_fs_on_sofa_id :
    (Xmi.saveXmi K demoTS' [cas1 sofa1 3] 0 [tok (some 1) .none]).toOption.map (fun r => Xmi.docIds r.1) =
      some ["0", "1", "1"] ∧
    (Json.saveJson K demoTS' [cas1 sofa1 3] 0 [tok (some 1) .none] .none).toOption.map (fun r => Json.docIds r.1) =
      some [some 1, some 1] := by decide +kernel

/-- a sofa id that is not below the generator (5, generator at 5) is taken again by a generated id -/
theorem cx_sofa_not_below :
    (Xmi.saveXmi K demoTS' [cas1 { sofa1 with xid := 5 } 5] 0 [tok none .none]).toOption.map (fun r => Xmi.docIds r.1) =
      some ["0", "5", "5"] := by decide +kernel

/-- a sofa on id 0 collides with the `cas:NULL` element -/
theorem cx_sofa_zero :
    (Xmi.saveXmi K demoTS' [cas1 { sofa1 with xid := 0 } 3] 0 [tok (some 2) .none]).toOption.map (fun r => Xmi.docIds r.1) =
      some ["0", "2", "0"] := by decide +kernel

/-- **JSON, sofa byte array** forced onto the id 3 of an indexed structure: both are written under `%ID` 3 (the
    array is rendered before the traversal and is not seen by the duplicate check); reproduced on the Python code -/
theorem cx_sofa_array_on_fs_id :
    (Json.saveJson K demoTS' [cas1 { sofa1 with arr := .ref 1, mime := some "x/y" } 4] 0
        [tok (some 3) .none, { ty := "uima.cas.ByteArray", ts := 0, xid := some 3, slots := [("elements", .ints [1, 2])] }]
        .none).toOption.map (fun r => Json.docIds r.1) = some [some 3, some 1, some 3] := by decide +kernel

/-! ### a history -/

/-- a history on a lenient CAS: a second view, a structure, added with its (missing) id generated -/
def hist : List Cas.COp :=
  [.createView 0 "v2", .newFs "x.Tok" [("n", .int 7), ("begin", .int 0), ("end", .int 0)], .add 1 0 false]

theorem hist_eval :
    (let s := hist.foldl (Cas.cstep K demoTS') (Cas.init true)
     (Xmi.saveXmi K demoTS' [s.cas] 0 s.heap).toOption.map (fun r => Xmi.docIds r.1)) =
      some ["0", "3", "1", "2"] := by decide +kernel

end Cassis.IdsWriteDemo
