/-
Helper lemmas for `Properties/C13FeatInv.lean`, part D: `inheritFrom`, `relink` and `reparent` against the weakened
invariant: after `relink` the re-parented type `r` still has the inherited features of its old supertype (`WInv` with
`L` = the effective features of the old supertype); `inheritFrom` appends the effective features of the new supertype;
the old supertype being an ancestor of the new one, `L` is absorbed and `FeatInv` holds again.
-/
import CassisModel.Proofs.MergeFeatInvC

namespace Cassis.TS

theorem wInv_inheritFrom (r a : String) : ∀ (fs : List Feature) (ts ts' : TypeSystem) (L : List Feature) (tr : TypeRec),
    Consistent ts → WInv ts r L → find? ts r = some tr → tr.super = some a →
    (∀ f ∈ fs, ∀ g ∈ L ++ fs, g.name = f.name → featureEq g f = true) →
    inheritFrom ts r fs = .ok ts' →
    WInv ts' r (L ++ fs) ∧ skel ts' = skel ts ∧ (∀ x, ¬ Anc ts r x → find? ts' x = find? ts x) := by
  intro fs
  induction fs with
  | nil =>
    intro ts ts' L tr _ hw _ _ _ h
    simp only [inheritFrom] at h
    cases h
    rw [List.append_nil]
    exact ⟨hw, rfl, fun _ _ => rfl⟩
  | cons f fs ih =>
    intro ts ts' L tr hc hw htr hsr hco h
    simp only [inheritFrom] at h
    split at h
    · cases h
    · rename_i hclash
      have hdc : subtreeClash ts r f = false := by simpa using hclash
      split at h
      · cases h
      · rename_i ts1 hpush
        have hT : PushTarget ts r f ts1 :=
          pushTarget_of_push _ hc htr hsr (fun y hy => hw.downOK hc hy) hpush
        have hw1 : WInv ts1 r (L ++ [f]) :=
          wInv_of_pushTarget hc hw htr hsr hdc
            (fun g hg e => hco f List.mem_cons_self g (List.mem_append_left _ hg) e) hT
        have hc1 : Consistent ts1 := consistent_of_skel hT.skel hc
        obtain ⟨tr1, htr1, he1⟩ := find?_transfer hT.skel.symm htr
        rw [tr_eq_iff] at he1
        have hsr1 : tr1.super = some a := by rw [he1.2.1]; exact hsr
        obtain ⟨hw2, hsk2, hun2⟩ := ih ts1 ts' (L ++ [f]) tr1 hc1 hw1 htr1 hsr1
          (by
            intro f' hf' g hg e
            apply hco f' (List.mem_cons_of_mem _ hf') g _ e
            rw [List.append_assoc] at hg
            exact hg) h
        refine ⟨?_, hsk2.trans hT.skel, ?_⟩
        · rw [List.append_assoc] at hw2; exact hw2
        · intro x hx
          have hx1 : ¬ Anc ts1 r x := fun h' => hx ((anc_skel_iff hT.skel r x).mp h')
          rw [hun2 x hx1]
          cases hfx : find? ts x with
          | none =>
            cases hfx1 : find? ts1 x with
            | none => rfl
            | some t1 =>
              have : hasExact ts1 x = true := (hasExact_iff_find _ _).mpr ⟨t1, hfx1⟩
              rw [hasExact_transfer hT.skel] at this
              obtain ⟨t0, ht0⟩ := (hasExact_iff_find _ _).mp this
              rw [hfx] at ht0; cases ht0
          | some t =>
            obtain ⟨t', ht', _⟩ := hT.recs x t hfx
            rcases hT.cases hfx ht' with ⟨hax, _, _⟩ | ⟨e, _⟩
            · exact absurd hax hx
            · rw [ht', e]

theorem wInv_relink (ts : TypeSystem) (name oldSup newSup : String) (ex pa : TypeRec)
    (hc : Consistent ts) (hf : FeatInv ts) (hex : find? ts name = some ex) (hsup : ex.super = some oldSup)
    (hpa : find? ts oldSup = some pa) :
    WInv (relink ts name oldSup newSup) name (allFeatures pa) := by
  have hfind := fun y => find_relink ts name oldSup newSup y hc.nodup
  have hmem : ∀ t, t ∈ (relink ts name oldSup newSup).types →
      ∃ t0 ∈ ts.types, relinkRec name oldSup newSup t0 = t := by
    intro t ht
    rw [(relink_perm ts name oldSup newSup).mem_iff, List.mem_map] at ht
    exact ht
  have hsrc : ∀ s ps, find? (relink ts name oldSup newSup) s = some ps →
      ∃ ps0, find? ts s = some ps0 ∧ ps = relinkRec name oldSup newSup ps0 := by
    intro s ps h
    rw [hfind] at h
    cases h0 : find? ts s with
    | none => rw [h0] at h; cases h
    | some ps0 =>
      rw [h0] at h
      exact ⟨ps0, rfl, (Option.some.inj h).symm⟩
  refine ⟨?_, ?_, ?_, ?_, ?_, ?_, ?_, ?_⟩
  · intro t ht
    obtain ⟨t0, ht0, rfl⟩ := hmem t ht
    rw [relinkRec_own]; exact hf.ownNodup t0 ht0
  · intro t ht
    obtain ⟨t0, ht0, rfl⟩ := hmem t ht
    rw [relinkRec_inh]; exact hf.inhNodup t0 ht0
  · intro t ht
    obtain ⟨t0, ht0, rfl⟩ := hmem t ht
    rw [relinkRec_own, relinkRec_inh]; exact hf.compat t0 ht0
  · intro t ht hnr s ps hs hps n
    obtain ⟨t0, ht0, rfl⟩ := hmem t ht
    obtain ⟨ps0, hps0, rfl⟩ := hsrc s ps hps
    rw [relinkRec_name] at hnr
    rw [relinkRec_super, if_neg hnr] at hs
    rw [relinkRec_inh, allFeatures_relinkRec]
    exact hf.inherit t0 ht0 s ps0 hs hps0 n
  · intro t ht hnr s ps hs hps
    obtain ⟨t0, ht0, rfl⟩ := hmem t ht
    obtain ⟨ps0, hps0, rfl⟩ := hsrc s ps hps
    rw [relinkRec_name] at hnr
    rw [relinkRec_super, if_neg hnr] at hs
    rw [relinkRec_inh, allFeatures_relinkRec]
    exact hf.inheritEq t0 ht0 s ps0 hs hps0
  · intro t ht hs
    obtain ⟨t0, ht0, rfl⟩ := hmem t ht
    rw [relinkRec_super] at hs
    split at hs
    · cases hs
    · rw [relinkRec_inh]; exact hf.rootInh t0 ht0 hs
  · intro t ht n
    obtain ⟨t0, ht0, rfl⟩ := hsrc name t ht
    have e0 : t0 = ex := by rw [hex] at ht0; exact (Option.some.inj ht0).symm
    rw [e0, relinkRec_inh]
    exact hf.inherit ex (find?_mem hex) oldSup pa hsup hpa n
  · intro t ht
    obtain ⟨t0, ht0, rfl⟩ := hsrc name t ht
    have e0 : t0 = ex := by rw [hex] at ht0; exact (Option.some.inj ht0).symm
    rw [e0, relinkRec_inh]
    exact hf.inheritEq ex (find?_mem hex) oldSup pa hsup hpa

/-- **re-parenting a type — with its whole subtree — below a descendant of its supertype keeps the feature
    bookkeeping invariant** -/
theorem featInv_reparent (ts ts' : TypeSystem) (name oldSup newSup : String) (ex : TypeRec)
    (hc : Consistent ts) (hf : FeatInv ts) (hex : find? ts name = some ex) (hsup : ex.super = some oldSup)
    (hne : newSup ≠ oldSup) (hanc : Anc ts oldSup newSup)
    (h : reparent ts name oldSup newSup = .ok ts') : FeatInv ts' := by
  obtain ⟨hs, ns, hns, hi⟩ := reparent_ok ts ts' name oldSup newSup h
  have hregn : hasExact ts name = true := (hasExact_iff_find _ _).mpr ⟨ex, hex⟩
  have hreg : hasExact ts newSup = true := (hasExact_iff_find _ _).mpr ⟨ns, hns⟩
  have hna : ¬ Anc ts name newSup := by
    intro ha
    have := (subsumes_iff_ancestor_aux ts hc name newSup hregn hreg).mpr ha
    rw [hs] at this; cases this
  obtain ⟨pa, hpa⟩ := (hasExact_iff_find ts oldSup).mp (hc.superReg ex (find?_mem hex) oldSup hsup)
  have hc1 := consistent_relink ts name oldSup newSup ex hc hex hsup (fun e => hne e.symm) hreg hna
  have hw1 := wInv_relink ts name oldSup newSup ex pa hc hf hex hsup hpa
  have hfind := fun y => find_relink ts name oldSup newSup y hc.nodup
  have hex1 : find? (relink ts name oldSup newSup) name = some (relinkRec name oldSup newSup ex) := by
    rw [hfind, hex]; rfl
  have hsup1 : (relinkRec name oldSup newSup ex).super = some newSup :=
    relinkRec_super_self name oldSup newSup ex (find?_name hex)
  have hns1 : find? (relink ts name oldSup newSup) newSup = some (relinkRec name oldSup newSup ns) := by
    rw [hfind, hns]; rfl
  -- the features of the old supertype and of the new one agree
  have hco : ∀ f ∈ allFeatures ns, ∀ g ∈ allFeatures pa ++ allFeatures ns, g.name = f.name →
      featureEq g f = true := by
    intro f hfm g hg e
    have hcoh := hf.coherent (find?_mem hns)
    rcases List.mem_append.mp hg with hg | hg
    · obtain ⟨g', hg', hgg, _⟩ := chain_down hf hanc hpa hns g (allFeatures_sub hg)
      have := hcoh g' hg' f (allFeatures_sub hfm) ((featureEq_name hgg).trans e)
      exact featureEq_trans (featureEq_symm hgg) this
    · exact hcoh g (allFeatures_sub hg) f (allFeatures_sub hfm) e
  obtain ⟨hw, hsk, hun⟩ := wInv_inheritFrom name newSup (allFeatures ns) _ ts' (allFeatures pa) _ hc1 hw1 hex1 hsup1
    hco hi
  have hc' : Consistent ts' := consistent_of_skel hsk hc1
  -- the record of the new supertype is untouched
  have hnot1 : ¬ Anc (relink ts name oldSup newSup) name newSup := not_anc_of_super hc1 hex1 hsup1
  have hns' : find? ts' newSup = some (relinkRec name oldSup newSup ns) := by rw [hun newSup hnot1]; exact hns1
  -- the record of `name`
  have hname : ∀ t ∈ ts'.types, t.name = name → find? ts' name = some t ∧ t.super = some newSup := by
    intro t ht hn
    have h1 := find?_of_mem hc'.nodup ht
    rw [hn] at h1
    obtain ⟨t1, ht1, he⟩ := find?_transfer hsk h1
    rw [tr_eq_iff] at he
    rw [hex1] at ht1; cases ht1
    exact ⟨h1, by rw [← he.2.1]; exact hsup1⟩
  refine ⟨hw.ownNodup, hw.inhNodup, hw.compat, ?_, ?_, hw.rootInh⟩
  · intro t ht s ps hss hps n
    by_cases hn : t.name = name
    · obtain ⟨h1, h2⟩ := hname t ht hn
      have es : s = newSup := by rw [hss] at h2; exact Option.some.inj h2
      subst es
      have eps : ps = relinkRec name oldSup s ns := by rw [hns'] at hps; exact (Option.some.inj hps).symm
      subst eps
      rw [hw.top t h1 n, allFeatures_relinkRec, fnames_append, List.mem_append]
      constructor
      · rintro (h | h)
        · exact inherited_down_aux ts hf oldSup s pa ns hanc hpa hns n h
        · exact h
      · intro h; exact Or.inr h
    · exact hw.inherit t ht hn s ps hss hps n
  · intro t ht s ps hss hps g hg f hfm e
    by_cases hn : t.name = name
    · obtain ⟨h1, h2⟩ := hname t ht hn
      have es : s = newSup := by rw [hss] at h2; exact Option.some.inj h2
      subst es
      have eps : ps = relinkRec name oldSup s ns := by rw [hns'] at hps; exact (Option.some.inj hps).symm
      subst eps
      rw [allFeatures_relinkRec] at hfm
      exact hw.topEq t h1 g hg f (List.mem_append_right _ hfm) e
    · exact hw.inheritEq t ht hn s ps hss hps g hg f hfm e

end Cassis.TS
