/-
C16 with collections, the CAS loaded from XMI, part F: what the traversal of the JSON writer collected from the loaded
CAS satisfies `LOkJ`, and it contains the counterpart of every written structure (under the id of the written one).
-/
import CassisModel.Proofs.ChainCollLoadedE

namespace Cassis.ChainC
open Cassis.TS Cassis.Traverse Cassis.Xmi Cassis.Lex Cassis.Json

/-! ### the successors of the first traversal (options `{}`), from the pushes back to the slots -/

/-- where a push of feature `f` comes from -/
def Src (K : Consts) (H : Heap) (fuel : Nat) (o : Obj) (f : Feature) (b : Nat) : Prop :=
  (isInline K f = false ∧ alistGet? o.slots f.name = some (.ref b))
  ∨ (isInline K f = true ∧ f.range = FS_ARRAY ∧ ∃ (cc : Nat) (l : List (Option Nat)),
      alistGet? o.slots f.name = some (.ref cc) ∧ Xmi.slot H cc "elements" = some (.refs l) ∧ some b ∈ l)
  ∨ (isInline K f = true ∧ f.range = FS_LIST ∧ ∃ (cc : Nat) (ps : List Nat) (n : Nat),
      alistGet? o.slots f.name = some (.ref cc) ∧ walkList H [] fuel (.ref cc) = some (ps, n) ∧ b ∈ ps)

theorem featureSuccs0_sub {K : Consts} {ts : TypeSystem} {H : Heap} {fuel a : Nat} {o : Obj} {f : Feature}
    {ps : List Nat} {n : Nat} (ho : H[a]? = some o) (h : featureSuccs K ts {} H [] fuel a f = .ok (ps, n)) :
    ∀ b ∈ ps, Src K H fuel o f b := by
  have hslot : Traverse.slot H a f.name = alistGet? o.slots f.name := by
    unfold Traverse.slot; rw [ho]; rfl
  unfold featureSuccs at h
  split at h
  · cases h; intro b hb; cases hb
  · split at h
    · cases h; intro b hb; cases hb
    · rw [hslot] at h
      cases hv : alistGet? o.slots f.name with
      | none =>
        rw [hv] at h
        first
          | (cases h; done)
          | (cases h; intro b hb; cases hb)
      | some v =>
        rw [hv] at h
        cases v with
        | none => cases h; intro b hb; cases hb
        | ref t =>
          dsimp only at h
          by_cases hc : (!f.multi.getD false && (isArray K f.range || isList K f.range)) = true
          · have hi : isInline K f = true := hc
            simp only [Bool.not_false, Bool.true_and, hc, if_true] at h
            split at h
            · rename_i hfa
              split at h
              · rename_i l hel
                cases h
                intro b hb
                exact .inr (.inl ⟨hi, eq_of_beq hfa, t, l, hv, hel, mem_refsToPush_nil' hb⟩)
              · cases h; intro b hb; cases hb
            · split at h
              · rename_i hfl
                split at h
                · rename_i r hw
                  cases h
                  intro b hb
                  exact .inr (.inr ⟨hi, eq_of_beq hfl, t, ps, n, hv, hw, hb⟩)
                · cases h
              · cases h; intro b hb; cases hb
          · have hi : isInline K f = false := by
              unfold isInline
              simpa using hc
            simp only [Bool.not_false, Bool.true_and, hc, Bool.false_eq_true, if_false, seenId_nil] at h
            cases h
            intro b hb
            rw [List.mem_singleton.mp hb]
            exact .inl ⟨hi, hv⟩
        | _ =>
          dsimp only at h
          split at h
          · split at h
            · cases h
            · split at h
              · split at h
                · rename_i r hw
                  cases h
                  intro b hb
                  cases fuel with
                  | zero => simp [walkList] at hw
                  | succ fu =>
                    simp [walkList] at hw
                    rw [hw.1] at hb
                    cases hb
                · cases h
              · cases h; intro b hb; cases hb
          · cases h

theorem featuresSuccs0_sub {K : Consts} {ts : TypeSystem} {H : Heap} {fuel a : Nat} {o : Obj} (ho : H[a]? = some o) :
    ∀ (fs : List Feature) (ps : List Nat) (n : Nat), featuresSuccs K ts {} H [] fuel a fs = .ok (ps, n) →
      ∀ b ∈ ps, ∃ f ∈ fs, Src K H fuel o f b
  | [], ps, n, h, b, hb => by
    unfold featuresSuccs at h
    cases h
    cases hb
  | f :: fs, ps, n, h, b, hb => by
    unfold featuresSuccs at h
    simp only [bind, Except.bind, pure, Except.pure] at h
    cases h1 : featureSuccs K ts {} H [] fuel a f with
    | error e => rw [h1] at h; cases h
    | ok r1 =>
      rw [h1] at h
      dsimp only at h
      cases h2 : featuresSuccs K ts {} H [] fuel a fs with
      | error e => rw [h2] at h; cases h
      | ok r2 =>
        rw [h2] at h
        dsimp only at h
        cases h
        obtain ⟨p1, n1⟩ := r1
        obtain ⟨p2, n2⟩ := r2
        rcases List.mem_append.mp hb with hb | hb
        · exact ⟨f, List.mem_cons_self, featureSuccs0_sub ho h1 b hb⟩
        · obtain ⟨g, hg, hs⟩ := featuresSuccs0_sub ho fs p2 n2 h2 b hb
          exact ⟨g, List.mem_cons_of_mem _ hg, hs⟩

/-- the heads the walk pushes are heads the writer collects -/
theorem walk_sub_collect (H : Heap) : ∀ (fuel : Nat) (v : Val) (ps : List Nat) (n : Nat) (hs : List Val),
    walkList H [] fuel v = some (ps, n) → collectList H fuel v = .ok hs → ∀ b ∈ ps, Val.ref b ∈ hs
  | 0, _, _, _, _, h, _, _, _ => by simp [walkList] at h
  | fuel+1, v, ps, n, hs, h, hc, b, hb => by
    cases v with
    | ref a =>
      unfold walkList at h
      unfold collectList at hc
      have e : Xmi.slot H a "head" = Traverse.slot H a "head" := rfl
      have e2 : Xmi.slot H a "tail" = Traverse.slot H a "tail" := rfl
      rw [e, e2] at hc
      cases hh : Traverse.slot H a "head" with
      | none =>
        rw [hh] at h
        cases h
        cases hb
      | some hd =>
        rw [hh] at h hc
        dsimp only at h
        simp only [bind, Except.bind, pure, Except.pure] at hc
        cases hw : walkList H [] fuel ((Traverse.slot H a "tail").getD .none) with
        | none => rw [hw] at h; cases h
        | some r =>
          obtain ⟨ps', n'⟩ := r
          rw [hw] at h
          cases hcr : collectList H fuel ((Traverse.slot H a "tail").getD .none) with
          | error e' => rw [hcr] at hc; cases hc
          | ok rest =>
            rw [hcr] at hc
            cases hc
            cases h
            rcases List.mem_append.mp hb with hb | hb
            · cases hd with
              | ref t =>
                simp only [seenId_nil, Bool.false_eq_true, if_false] at hb
                rw [List.mem_singleton.mp hb]
                exact List.mem_cons_self
              | _ => cases hb
            · exact List.mem_cons_of_mem _ (walk_sub_collect H fuel _ ps' n' rest hw hcr b hb)
    | _ =>
      unfold walkList at h
      cases h
      cases hb

/-! ### `LOkJ` for what the second traversal collects -/

section
variable {K : Consts} {ts : TypeSystem} {c : Cas} {ci : Nat} {H : Heap} {L : List (Int × Nat)} {ci' : Nat}
  {na : Int → Nat} {ia : Int → String → Nat} {ld : Xmi.Loaded}

/-- everything known after the traversal of the JSON writer on the loaded CAS -/
structure JTrav (K : Consts) (ts : TypeSystem) (L : List (Int × Nat)) (na : Int → Nat) (ld : Xmi.Loaded) (st2 : St) :
    Prop where
  fa : findAllFs K ts jop ld.heap ld.cas.nextXid (defaultSeeds ld.cas) = .ok st2
  shape : SameShape ld.heap st2.heap
  sub : ∀ r ∈ st2.allFs, SAll K ld.heap L na r.2
  nz : ∀ a, SAll K ld.heap L na a → xidOf st2.heap a ≠ some 0
  fresh : ∀ a, SAll K ld.heap L na a → ∀ y, xidOf st2.heap a = some y → xidOf ld.heap a = some y ∨ ld.cas.nextXid ≤ y

theorem slots_back {hp hp' : Heap} (sh : SameShape hp hp') {a : Nat} {o' : Obj} (ho' : hp'[a]? = some o') :
    ∃ o, hp[a]? = some o ∧ o'.slots = o.slots ∧ o'.ty = o.ty := by
  obtain ⟨o, ho, hty, hsl⟩ := sh.get_back ho'
  exact ⟨o, ho, hsl, hty⟩

theorem XLd.lokJ (x : XLd K ts c ci H L ci' na ia ld) (htys : CollTypesOk K ts)
    (hjson : ∀ q ∈ L, JsonFs ts H q.2) (harr : ∀ q ∈ L, ArrElemsSome H q.2) {st2 : St} (j : JTrav K ts L na ld st2) :
    LOkJ K ts ld.cas ci' st2.heap (sortById st2.allFs) := by
  have hpos := x.next_pos
  have hcollS : ∀ r ∈ sortById st2.allFs, SAll K ld.heap L na r.2 := fun r hr => j.sub r (mem_sortById.mp hr)
  have hcoll : ∀ r ∈ sortById st2.allFs, JCollFs K ts ld.cas ci' st2.heap r.2 := fun r hr =>
    jcollFs_shape j.shape (x.sall_j (ci' := ci') htys hjson harr (hcollS r hr)).1
  have hids : ∀ r ∈ sortById st2.allFs, xidOf st2.heap r.2 = some r.1 ∧ r.1 ≠ 0 := fun r hr =>
    findAllFs_ids_aux K ts jop ld.heap _ _ st2 hpos j.fa r.1 r.2 (mem_sortById.mp hr)
  have hclosed : ∀ r ∈ sortById st2.allFs, ∀ b : Nat, b ∈ succsOf K ts jop st2.heap (ld.heap.length + 1) r.2 →
      SAll K ld.heap L na b → ∃ y : Int, xidOf st2.heap b = some y ∧ (y, b) ∈ sortById st2.allFs := by
    intro r hr b hsucc hSb
    have hbm := findAllFs_closed_aux K ts jop ld.heap _ _ st2 hpos j.fa r.1 r.2 b (mem_sortById.mp hr) hsucc
      (j.nz b hSb)
    obtain ⟨p, hp1, hp2⟩ := List.mem_map.mp hbm
    obtain ⟨y, b'⟩ := p
    simp only at hp2
    subst hp2
    exact ⟨y, (hids (y, b') (mem_sortById.mpr hp1)).1, mem_sortById.mpr hp1⟩
  refine ⟨hcoll, hids, ?_, ?_, ?_, ?_⟩
  · exact ((sortById_perm_aux st2.allFs).map (·.1)).nodup_iff.mpr
      (findAllFs_nodup_aux K ts jop ld.heap _ _ st2 j.fa).1
  · intro r hr o ho n b hb
    obtain ⟨o0, ho0, hsl, _⟩ := slots_back j.shape ho
    have hSb : SAll K ld.heap L na b :=
      ((x.sall_j (ci' := ci') htys hjson harr (hcollS r hr)).2 o0 ho0).1 n b (by rw [← hsl]; exact hb)
    rcases (hcoll r hr).1 with hg | ha
    · exact hclosed r hr b (jsuccs_gen (ld.heap.length + 1) hg ho hb) hSb
    · exact (jarr_no_ref ha ho hb).elim
  · intro r hr o ho l hl b hb
    obtain ⟨o0, ho0, hsl, _⟩ := slots_back j.shape ho
    have hSb : SAll K ld.heap L na b :=
      ((x.sall_j (ci' := ci') htys hjson harr (hcollS r hr)).2 o0 ho0).2 l (by rw [← hsl]; exact hl) b hb
    rcases (hcoll r hr).1 with hg | ha
    · exact (jgen_no_refs hg ho hl).elim
    · exact hclosed r hr b (jsuccs_arr (ld.heap.length + 1) ha ho hl hb) hSb
  · intro nv hnv e he
    have hseed : e.oid ∈ defaultSeeds ld.cas := by
      unfold defaultSeeds
      exact List.mem_flatMap.mpr ⟨nv, hnv, List.mem_map.mpr ⟨e, he, rfl⟩⟩
    obtain ⟨q, hq, hqe⟩ := x.seed_fwd hseed
    have hbm := findAllFs_complete_aux K ts jop ld.heap _ _ st2 hpos j.fa e.oid (.seed _ hseed)
      (j.nz _ (.inl ⟨q, hq, hqe⟩))
    obtain ⟨p, hp1, hp2⟩ := List.mem_map.mp hbm
    obtain ⟨y, b'⟩ := p
    simp only at hp2
    subst hp2
    exact ⟨y, mem_sortById.mpr hp1⟩

/-- the counterpart of a written structure, once collected, is collected under the id of the written one -/
theorem XLd.main_id (x : XLd K ts c ci H L ci' na ia ld) {st2 : St} (j : JTrav K ts L na ld st2)
    {q : Int × Nat} (hq : q ∈ L) {y : Int} (h : xidOf st2.heap (na q.1) = some y) : y = q.1 := by
  have := j.shape.xidOf (x.xid_new hq)
  rw [this] at h
  exact (Option.some.inj h).symm

end

end Cassis.ChainC
