/-
C12 round trip, layer 7a: the records of the loaded type system against the records of the original:
same names, supertype, stripped description, and exactly the declared own features.
-/
import CassisModel.Proofs.TsXmlRoundTripDecl

namespace Cassis.TsXml
open Cassis.TS

/-- the context of the comparison: `ts` is the API-built original, `ts2` (with some `redeclared` list) what the loader
    returns for a faithful descriptor `d0` -/
structure Loaded (ts : TypeSystem) (d0 : Descriptor) (ts2 : TypeSystem) (R : List String) : Prop where
  hx : XHist ts
  ns : NoShadow ts
  faith : Faithful ts (effective d0)
  load : load Gen.consts d0 = .ok { ts2 with redeclared := R }
  inv : LInv (trTs ts) ts2
  grow : Grow Gen.consts Gen.builtinTSNoDoc ts2

theorem find?_red (ts2 : TypeSystem) (R : List String) (n : String) :
    find? { ts2 with redeclared := R } n = find? ts2 n := rfl

theorem sub_trTs {ts ts2 : TypeSystem} (hs : Sub (trTs ts) ts2) {n : String} {t' : TypeRec}
    (h : find? ts2 n = some t') : ∃ t, find? ts n = some t ∧ SubRec (trTs ts) n t' (trRec t) := by
  obtain ⟨to, hto, hr⟩ := hs n t' h
  rw [find?_trTs] at hto
  cases ht : find? ts n with
  | none => rw [ht] at hto; cases hto
  | some t =>
    rw [ht] at hto
    simp only [Option.map_some, Option.some.injEq] at hto
    subst hto
    exact ⟨t, rfl, hr⟩

/-- inherited names of a loaded record are inherited names of the original record -/
theorem inh_names {ts : TypeSystem} {d0 : Descriptor} {ts2 : TypeSystem} {R : List String}
    (L : Loaded ts d0 ts2 R) {n : String} {t t' : TypeRec}
    (ht' : find? ts2 n = some t') (ht : find? ts n = some t) :
    ∀ g ∈ t'.inh, g.name ∈ fnames t.inh := by
  intro g hg
  obtain ⟨t0, ht0, hr⟩ := sub_trTs L.inv.sub ht'
  rw [ht] at ht0; cases ht0
  have hsup : t.super = t'.super := hr.super
  cases hs : t'.super with
  | none =>
    rw [L.inv.feat.rootInh t' (find?_mem ht') hs] at hg
    cases hg
  | some s =>
    have hreg : hasExact ts2 s = true := L.inv.cons.superReg t' (find?_mem ht') s hs
    obtain ⟨ps', hps'⟩ := (hasExact_iff_find ts2 s).mp hreg
    obtain ⟨ps, hps, hrp⟩ := sub_trTs L.inv.sub hps'
    have h1 := (L.inv.feat.inherit' (find?_mem ht') hs hps' g.name).mp (mem_fnames_of_mem hg)
    rw [← List.mem_append, ← fnames_append] at h1
    obtain ⟨h, hh, hhn⟩ := mem_fnames.mp h1
    obtain ⟨h0, hh0, hh0e⟩ := hrp.feats h hh
    have hh0' : h0 ∈ (ps.own ++ ps.inh).map trFeat := by rw [← eff_trRec]; exact hh0
    obtain ⟨h00, hh00, rfl⟩ := List.mem_map.mp hh0'
    have hname : h00.name = g.name := by
      have := featureEq_name hh0e
      rw [trFeat_name] at this
      rw [this, hhn]
    have h2 : g.name ∈ fnames ps.own ∨ g.name ∈ fnames ps.inh := by
      rw [← List.mem_append, ← fnames_append]
      exact mem_fnames.mpr ⟨h00, hh00, hname⟩
    exact (L.hx.hist.feat.inherit' (find?_mem ht) (by rw [hsup]; exact hs) hps g.name).mpr h2

/-- the own features of a loaded user type are exactly the declared ones -/
theorem own_user {ts : TypeSystem} {d0 : Descriptor} {ts2 : TypeSystem} {R : List String}
    (L : Loaded ts d0 ts2 R) {t : TypeRec} (ht : t ∈ ts.types)
    (hu : Gen.consts.predefined.contains t.name = false) :
    ∃ t', find? ts2 t.name = some t' ∧
      t'.own = t.own.map (fun f0 => mkFeat t.name (normF (renderFeat f0))) := by
  have hft : find? ts t.name = some t := find?_of_mem L.hx.hist.cons.nodup ht
  have he := L.faith.user_in t ht hu
  obtain ⟨r, hr, _, _, sel, hown, _, _, hex⟩ :=
    load_declares_core d0 _ L.load (normT (renderType t)) he hu
  rw [find?_red] at hr
  have hrn : find? ts2 t.name = some r := hr
  refine ⟨r, hrn, ?_⟩
  have hst : ∀ f0 ∈ t.own, storedName (normF (renderFeat f0)).name = f0.name := by
    intro f0 hf0
    exact (featWFB_spec (L.hx.ownOK t ht f0 hf0).1).1
  have hsel := hex (by
      intro f hf
      obtain ⟨f1, hf1, rfl⟩ := List.mem_map.mp hf
      obtain ⟨f0, hf0, rfl⟩ := List.mem_map.mp hf1
      refine ⟨by simp [fnames], ?_⟩
      rw [hst f0 hf0]
      intro hm
      obtain ⟨g, hg, hgn⟩ := mem_fnames.mp hm
      obtain ⟨g1, hg1, hg1n⟩ := mem_fnames.mp (inh_names L hrn hft g hg)
      exact L.ns t ht f0 hf0 g1 hg1 (hg1n.trans hgn))
    (by
      have : (normT (renderType t)).feats.map (fun f => storedName f.name) = fnames t.own := by
        show ((t.own.map renderFeat).map normF).map (fun f => storedName f.name) = t.own.map (·.name)
        rw [List.map_map, List.map_map]
        apply List.map_congr_left
        intro f0 hf0
        exact hst f0 hf0
      rw [this]
      exact L.hx.hist.feat.ownNodup t ht)
  have : r.own = sel := by simpa using hown
  rw [this, hsel]
  show ((t.own.map renderFeat).map normF).map (mkFeat t.name) = _
  rw [List.map_map, List.map_map]
  rfl

/-- the own features of a built-in type stay what the table says, on both sides -/
theorem own_predef {ts : TypeSystem} {d0 : Descriptor} {ts2 : TypeSystem} {R : List String}
    (L : Loaded ts d0 ts2 R) {n : String} (hp : Gen.consts.predefined.contains n = true) :
    ∃ t t', find? ts n = some t ∧ find? ts2 n = some t' ∧ t'.own = t.own ∧
      ∀ f ∈ t.own, f.descr = none := by
  obtain ⟨tm, htm⟩ := (hasExact_iff_find _ n).mp (base_predef_reg n hp)
  obtain ⟨tb, htb, _, _, _, ho, _, hfn⟩ := base_vs_builtin htm
  obtain ⟨t', ht', _, _, _, _, ho'⟩ := L.grow n tm htm
  obtain ⟨t, ht, _, _, _, _, ho2⟩ := L.hx.hist.grow n tb htb
  refine ⟨t, t', ht, ht', ?_, ?_⟩
  · rw [ho' hp, ho2 hp, ho]
  · intro f hf
    rw [ho2 hp, ho] at hf
    exact (hfn f (List.mem_append_left _ hf)).1

/-- both type systems register the same names -/
theorem names_iff {ts : TypeSystem} {d0 : Descriptor} {ts2 : TypeSystem} {R : List String}
    (L : Loaded ts d0 ts2 R) (n : String) : hasExact ts2 n = true ↔ hasExact ts n = true := by
  constructor
  · intro h
    obtain ⟨t', ht'⟩ := (hasExact_iff_find ts2 n).mp h
    obtain ⟨t, ht, _⟩ := sub_trTs L.inv.sub ht'
    exact (hasExact_iff_find ts n).mpr ⟨t, ht⟩
  · intro h
    cases hp : Gen.consts.predefined.contains n with
    | true => exact L.grow.reg n (base_predef_reg n hp)
    | false =>
      obtain ⟨t, ht⟩ := (hasExact_iff_find ts n).mp h
      have hn := find?_name ht
      obtain ⟨t', ht', _⟩ := own_user L (find?_mem ht) (by rw [hn]; exact hp)
      rw [hn] at ht'
      exact (hasExact_iff_find ts2 n).mpr ⟨t', ht'⟩

theorem trimF_render_mk (dom : String) (f0 : Feature) :
    renderFeat (mkFeat dom (normF (renderFeat f0))) = trimF (renderFeat f0) := by
  rw [renderFeat_mkFeat]
  rfl

/-- record by record -/
theorem rec_corr {ts : TypeSystem} {d0 : Descriptor} {ts2 : TypeSystem} {R : List String}
    (L : Loaded ts d0 ts2 R) {n : String} {t : TypeRec} (ht : find? ts n = some t) :
    ∃ t', find? ts2 n = some t' ∧ t'.super = t.super ∧ t'.descr = trD t.descr ∧
      t'.own.map renderFeat = (t.own.map renderFeat).map trimF ∧ fnames t'.own = fnames t.own := by
  have hreg : hasExact ts2 n = true := (names_iff L n).mpr ((hasExact_iff_find ts n).mpr ⟨t, ht⟩)
  obtain ⟨t', ht'⟩ := (hasExact_iff_find ts2 n).mp hreg
  obtain ⟨t0, ht0, hr⟩ := sub_trTs L.inv.sub ht'
  rw [ht] at ht0; cases ht0
  refine ⟨t', ht', hr.super.symm, hr.descr.symm, ?_⟩
  cases hp : Gen.consts.predefined.contains n with
  | true =>
    obtain ⟨t1, t1', h1, h1', ho, hdn⟩ := own_predef L hp
    rw [ht] at h1; cases h1
    rw [ht'] at h1'; cases h1'
    rw [ho]
    refine ⟨?_, rfl⟩
    rw [List.map_map]
    apply List.map_congr_left
    intro f hf
    show renderFeat f = trimF (renderFeat f)
    unfold trimF renderFeat
    simp only [hdn f hf]
    rfl
  | false =>
    have hn := find?_name ht
    obtain ⟨t1', h1', ho⟩ := own_user L (find?_mem ht) (by rw [hn]; exact hp)
    rw [hn, ht'] at h1'; cases h1'
    rw [ho]
    refine ⟨?_, ?_⟩
    · rw [List.map_map, List.map_map]
      apply List.map_congr_left
      intro f0 _
      exact trimF_render_mk t.name f0
    · show fnames (t.own.map (fun f0 => mkFeat t.name (normF (renderFeat f0)))) = fnames t.own
      unfold fnames
      rw [List.map_map]
      apply List.map_congr_left
      intro f0 hf0
      exact (featWFB_spec (L.hx.ownOK t (find?_mem ht) f0 hf0).1).1

/-- the loaded type system shadows nothing either -/
theorem noShadow_loaded {ts : TypeSystem} {d0 : Descriptor} {ts2 : TypeSystem} {R : List String}
    (L : Loaded ts d0 ts2 R) : NoShadow ts2 := by
  intro t' ht' f hf g hg e
  have hft' : find? ts2 t'.name = some t' := find?_of_mem L.inv.cons.nodup ht'
  obtain ⟨t, ht, _⟩ := sub_trTs L.inv.sub hft'
  obtain ⟨t'', ht'', _, _, _, hfn⟩ := rec_corr L ht
  rw [hft'] at ht''; cases ht''
  have h1 : f.name ∈ fnames t.own := by rw [← hfn]; exact mem_fnames_of_mem hf
  obtain ⟨f0, hf0, hf0n⟩ := mem_fnames.mp h1
  obtain ⟨g0, hg0, hg0n⟩ := mem_fnames.mp (inh_names L hft' ht g hg)
  exact L.ns t (find?_mem ht) f0 hf0 g0 hg0 (by rw [hg0n, hf0n, e])

end Cassis.TsXml
