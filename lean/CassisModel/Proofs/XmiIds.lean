/-
Helper lemmas for `Properties/C09Doc.lean`: the XMI loader reseeds the id generators above every id of the
document and every id carried by an object it created.
-/
import CassisModel.Spec.XmiDoc
import CassisModel.Proofs.XmiLoad2

namespace Cassis.Xmi
open Cassis.TS Cassis.Lex

/-! ### the first pass keeps `maxId` / `maxNum` above everything it records -/

theorem step1_bounded (K : Consts) (ts : TypeSystem) (tsIdx : Nat) (b : Bool) (e : XElem) (s s' : Pass1)
    (h : step1 K ts tsIdx b e s = .ok s') (hs : P1Bounded s) :
    P1Bounded s' ∧ s.maxId ≤ s'.maxId ∧ s.maxNum ≤ s'.maxNum := by
  obtain ⟨hs1, hs2⟩ := hs
  unfold step1 at h
  by_cases h1 : (e.ty == SOFA) = true
  · rw [if_pos h1] at h
    cases hp : parseSofa e with
    | error err => rw [hp] at h; cases h
    | ok p =>
      rw [hp] at h
      cases h
      refine ⟨⟨?_, ?_⟩, Int.le_max_left _ _, Int.le_max_left _ _⟩
      · intro q hq
        show q.2.xid ≤ max s.maxId p.xid ∧ q.2.num ≤ max s.maxNum p.num
        rcases mem_alistSetI hq with hq | rfl
        · have := hs1 q hq
          exact ⟨Int.le_trans this.1 (Int.le_max_left _ _), Int.le_trans this.2 (Int.le_max_left _ _)⟩
        · exact ⟨Int.le_max_right _ _, Int.le_max_right _ _⟩
      · intro q hq
        exact Int.le_trans (hs2 q hq) (Int.le_max_left _ _)
  · rw [if_neg h1] at h
    by_cases h2 : (e.ty == VIEW_T) = true
    · rw [if_pos h2] at h
      cases hp : parseView e with
      | error err => rw [hp] at h; cases h
      | ok p => rw [hp] at h; cases h; exact ⟨⟨hs1, hs2⟩, Int.le_refl _, Int.le_refl _⟩
    · rw [if_neg h2] at h
      cases hp : parseFsElem K ts tsIdx s.heap e with
      | ok r =>
        obtain ⟨hp', i, a⟩ := r
        rw [hp] at h
        cases h
        refine ⟨⟨?_, ?_⟩, Int.le_max_left _ _, Int.le_refl _⟩
        · intro q hq
          have := hs1 q hq
          exact ⟨Int.le_trans this.1 (Int.le_max_left _ _), this.2⟩
        · intro q hq
          show q.1 ≤ max s.maxId i
          rcases mem_alistSetI hq with hq | rfl
          · exact Int.le_trans (hs2 q hq) (Int.le_max_left _ _)
          · exact Int.le_max_right _ _
      | error err =>
        rw [hp] at h
        cases err <;> cases b <;> first | (cases h; done) | (cases h; exact ⟨⟨hs1, hs2⟩, Int.le_refl _, Int.le_refl _⟩)

theorem pass1_bounded_aux (K : Consts) (ts : TypeSystem) (tsIdx : Nat) (lenient : Bool) (doc : XDoc) (s r : Pass1)
    (hs : P1Bounded s) (h : pass1 K ts tsIdx lenient doc s = .ok r) :
    P1Bounded r ∧ s.maxId ≤ r.maxId ∧ s.maxNum ≤ r.maxNum := by
  induction doc generalizing s with
  | nil => rw [pass1_nil] at h; cases h; exact ⟨hs, Int.le_refl _, Int.le_refl _⟩
  | cons e es ih =>
    rw [pass1_cons] at h
    cases h1 : step1 K ts tsIdx lenient e s with
    | error err => rw [h1] at h; cases h
    | ok s1 =>
      rw [h1] at h
      obtain ⟨hb1, hi1, hn1⟩ := step1_bounded K ts tsIdx lenient e s s1 h1 hs
      obtain ⟨hb2, hi2, hn2⟩ := ih s1 hb1 h
      exact ⟨hb2, Int.le_trans hi1 hi2, Int.le_trans hn1 hn2⟩

/-! ### frames -/

/-- the later heap is the earlier one followed by objects without an id -/
def NExt (hp hp' : Heap) : Prop := ∃ t : List Obj, hp' = hp ++ t ∧ ∀ o ∈ t, o.xid = none

theorem NExt.refl (hp : Heap) : NExt hp hp := ⟨[], (List.append_nil _).symm, fun _ h => by cases h⟩

theorem NExt.trans {h1 h2 h3 : Heap} (a : NExt h1 h2) (b : NExt h2 h3) : NExt h1 h3 := by
  obtain ⟨t1, rfl, ht1⟩ := a
  obtain ⟨t2, rfl, ht2⟩ := b
  refine ⟨t1 ++ t2, List.append_assoc _ _ _, ?_⟩
  intro o ho
  rcases List.mem_append.mp ho with ho | ho
  · exact ht1 o ho
  · exact ht2 o ho

theorem NExt.snoc (hp : Heap) {o : Obj} (ho : o.xid = none) : NExt hp (hp ++ [o]) :=
  ⟨[o], rfl, fun x hx => by rw [List.mem_singleton.mp hx]; exact ho⟩

theorem NExt.old {hp hp' : Heap} (h : NExt hp hp') {a : Nat} {o : Obj} (ho : hp[a]? = some o) : hp'[a]? = some o := by
  obtain ⟨t, rfl, _⟩ := h
  rw [List.getElem?_append_left (List.getElem?_eq_some_iff.mp ho).1]
  exact ho

theorem NExt.new {hp hp' : Heap} (h : NExt hp hp') {a : Nat} {o : Obj} (hl : hp.length ≤ a) (ho : hp'[a]? = some o) :
    o.xid = none := by
  obtain ⟨t, rfl, ht⟩ := h
  rw [List.getElem?_append_right hl] at ho
  exact ht o (List.mem_of_getElem? ho)

theorem foldl_next {α} (g : Heap × Nat → α → Obj) (hg : ∀ acc v, (g acc v).xid = none) (l : List α) :
    ∀ (acc : Heap × Nat), NExt acc.1 (l.foldl (fun acc v => (acc.1 ++ [g acc v], acc.1.length)) acc).1 := by
  induction l with
  | nil => intro acc; exact NExt.refl _
  | cons v l ih =>
    intro acc
    rw [List.foldl_cons]
    exact (NExt.snoc acc.1 (hg acc v)).trans (ih (acc.1 ++ [g acc v], acc.1.length))

theorem listFold_next {α} {hp hp' : Heap} {l : Nat} (e0 : Obj) (he0 : e0.xid = none) (g : Heap × Nat → α → Obj)
    (hg : ∀ acc v, (g acc v).xid = none) (vals : List α)
    (h : vals.foldl (fun acc v => (acc.1 ++ [g acc v], acc.1.length)) (hp ++ [e0], hp.length) = (hp', l)) :
    NExt hp hp' := by
  have := foldl_next g hg vals (hp ++ [e0], hp.length)
  rw [h] at this
  exact (NExt.snoc hp he0).trans this

theorem buildFsList_next {hp hp' : Heap} {tsIdx : Nat} {targets : List Nat} {l : Nat}
    (h : buildFsList hp tsIdx targets = (hp', l)) : NExt hp hp' := by
  unfold buildFsList at h
  exact listFold_next _ rfl (fun (acc : Heap × Nat) (t : Nat) =>
      ({ ty := "uima.cas.NonEmptyFSList", ts := tsIdx, xid := none,
         slots := [("head", Val.ref t), ("tail", Val.ref acc.2)] } : Obj)) (fun _ _ => rfl) targets.reverse h

theorem buildPrimList_next {hp hp' : Heap} {tsIdx : Nat} {rn : String} {elems : List (Option String)} {l : Nat}
    (h : buildPrimList hp tsIdx rn elems = .ok (hp', l)) : NExt hp hp' := by
  unfold buildPrimList at h
  simp only [bind, Except.bind, pure, Except.pure, throw, throwThe, MonadExceptOf.throw] at h
  repeat' split at h
  all_goals first
    | (cases h; done)
    | (rename_i vals _
       exact listFold_next _ rfl (fun (acc : Heap × Nat) (v : Val) =>
         ({ ty := _, ts := tsIdx, xid := none, slots := [("head", v), ("tail", Val.ref acc.2)] } : Obj))
         (fun _ _ => rfl) vals.reverse (Except.ok.inj h))

/-! ### the object `construct` builds has a slot for every feature of its type -/

/-- every feature the second pass will visit has a slot -/
def SlotsOK (ts : TypeSystem) (o : Obj) : Prop :=
  ∀ t, getType ts o.ty = .ok t → ∀ f ∈ allFeatures t, (alistGet? o.slots f.name).isSome = true

theorem getType_idem {ts : TypeSystem} {n : String} {t : TypeRec} (h : getType ts n = .ok t) :
    getType ts t.name = .ok t := by
  unfold getType at h
  split at h
  · rename_i t' hf
    cases h
    rw [find?_name hf]
    unfold getType
    rw [hf]
  · split at h
    · cases h
    · split at h
      · rename_i t' hflt
        cases h
        have hm : t ∈ ts.types.filter (fun t => shortName t.name == n) := by rw [hflt]; exact List.mem_singleton.mpr rfl
        obtain ⟨hm1, hm2⟩ := List.mem_filter.mp hm
        unfold getType
        cases hf : find? ts t.name with
        | none =>
          exfalso
          have := List.find?_eq_none.mp hf t hm1
          simp at this
        | some t2 =>
          have hn2 : t2.name = t.name := find?_name hf
          have hm' : t2 ∈ ts.types.filter (fun t => shortName t.name == n) :=
            List.mem_filter.mpr ⟨find?_mem hf, by rw [hn2]; exact hm2⟩
          rw [hflt] at hm'
          rw [List.mem_singleton.mp hm']
      · cases h

theorem alistGet?_map_isSome (g : String → Val) (l : List String) (k : String) (hk : k ∈ l) :
    (alistGet? (l.map (fun n => (n, g n))) k).isSome = true := by
  rw [Cas.alistGet?_isSome_iff, List.map_map]
  have : ((fun x : String × Val => x.1) ∘ fun n => (n, g n)) = id := rfl
  rw [this, List.map_id]
  exact hk

theorem construct_res {ts : TypeSystem} {n : String} {t : TypeRec} {ti : Nat} {x : Option Int}
    {kw : List (String × Val)} {o : Obj} (ht : getType ts n = .ok t) (h : construct t ti x kw = .ok o) :
    o.xid = x ∧ SlotsOK ts o := by
  unfold construct at h
  simp only at h
  split at h
  · cases h
  · cases h
    refine ⟨rfl, ?_⟩
    intro t' ht' f hf
    have ht2 : getType ts t.name = .ok t' := ht'
    rw [getType_idem ht] at ht2
    cases ht2
    apply alistGet?_map_isSome
    rw [List.mem_eraseDups]
    exact List.mem_map_of_mem hf

/-- what matters about the result of `parseFsElem` -/
def FsRes2 (ts : TypeSystem) (hp : Heap) (r : Heap × Int × Nat) : Prop :=
  ∃ (X : Heap) (o : Obj), NExt hp X ∧ r.1 = X ++ [o] ∧ r.2.2 = X.length ∧ o.xid = some r.2.1 ∧ SlotsOK ts o

theorem fs_tail2 {ts : TypeSystem} {n : String} {t : TypeRec} {tsIdx : Nat} {idV : Int} {hp X : Heap}
    {merged : List (String × Val)} (ht : getType ts n = .ok t) (hX : NExt hp X) :
    OkP (FsRes2 ts hp) (do let o ← construct t tsIdx (some idV) merged; pure (X ++ [o], idV, X.length)) := by
  refine OkP.bind (fun o ho => ?_)
  apply OkP.pure
  obtain ⟨h1, h2⟩ := construct_res ht ho
  exact ⟨X, o, hX, rfl, rfl, h1, h2⟩

theorem parseFsElem_res (K : Consts) (ts : TypeSystem) (tsIdx : Nat) (hp : Heap) (e : XElem) :
    OkP (FsRes2 ts hp) (parseFsElem K ts tsIdx hp e) := by
  unfold parseFsElem
  refine OkP.bind (fun t ht => ?_)
  dsimp only
  split
  all_goals (
    refine OkP.bind (fun idV _ => ?_)
    refine OkP.bind (fun merged _ => ?_)
    split
    · refine OkP.bind (fun x hx => ?_)
      cases hx
      exact fs_tail2 (getType_of_getTypeExact ht) (NExt.refl _)
    · refine OkP.bind (fun x hx => ?_)
      refine fs_tail2 (getType_of_getTypeExact ht) ?_
      refine foldlM_inv (fun a b => NExt a.1 b.1) (fun _ => NExt.refl _)
        (fun _ _ _ => NExt.trans) _ ?_ _ _ _ hx
      intro acc p
      show OkP (fun (acc' : Heap × List (String × Val)) => NExt acc.1 acc'.1) _
      split
      · refine OkP.bind (fun f _ => ?_)
        split
        · exact OkP.pure (NExt.snoc _ rfl)
        · split
          · refine OkP.bind (fun y hy => ?_)
            exact OkP.pure (buildPrimList_next (l := y.2) hy)
          · exact OkP.pure (NExt.refl _)
      · refine OkP.bind (fun f hf => ?_)
        cases hf)

/-! ### what one step of the first pass does to the heap and the id table -/

theorem step1_heap (K : Consts) (ts : TypeSystem) (tsIdx : Nat) (b : Bool) (e : XElem) (s s' : Pass1)
    (h : step1 K ts tsIdx b e s = .ok s') :
    (s'.heap = s.heap ∧ s'.fss = s.fss ∧ s.maxId ≤ s'.maxId) ∨
    (∃ (X : Heap) (o : Obj) (i : Int), NExt s.heap X ∧ s'.heap = X ++ [o] ∧
      s'.fss = pass1.alistSetI s.fss i X.length ∧ s'.maxId = max s.maxId i ∧ o.xid = some i ∧ SlotsOK ts o) := by
  unfold step1 at h
  by_cases h1 : (e.ty == SOFA) = true
  · rw [if_pos h1] at h
    cases hp : parseSofa e with
    | error err => rw [hp] at h; cases h
    | ok p => rw [hp] at h; cases h; exact Or.inl ⟨rfl, rfl, Int.le_max_left _ _⟩
  · rw [if_neg h1] at h
    by_cases h2 : (e.ty == VIEW_T) = true
    · rw [if_pos h2] at h
      cases hp : parseView e with
      | error err => rw [hp] at h; cases h
      | ok p => rw [hp] at h; cases h; exact Or.inl ⟨rfl, rfl, Int.le_refl _⟩
    · rw [if_neg h2] at h
      cases hp : parseFsElem K ts tsIdx s.heap e with
      | ok r =>
        obtain ⟨hp', i, a⟩ := r
        rw [hp] at h
        cases h
        obtain ⟨X, o, hX, e1, e2, e3, e4⟩ := parseFsElem_res K ts tsIdx s.heap e _ hp
        dsimp only at e1 e2 e3
        subst e1 e2
        exact Or.inr ⟨X, o, i, hX, rfl, rfl, rfl, e3, e4⟩
      | error err =>
        rw [hp] at h
        cases err <;> cases b <;> first | (cases h; done) | (cases h; exact Or.inl ⟨rfl, rfl, Int.le_refl _⟩)

theorem pass1_inv (K : Consts) (ts : TypeSystem) (tsIdx : Nat) (b : Bool) (P : Pass1 → Prop)
    (hstep : ∀ e s s', step1 K ts tsIdx b e s = .ok s' → P s → P s') (d : XDoc) :
    ∀ (s s' : Pass1), pass1 K ts tsIdx b d s = .ok s' → P s → P s' := by
  induction d with
  | nil => intro s s' h hg; rw [pass1_nil] at h; cases h; exact hg
  | cons e es ih =>
    intro s s' h hg
    rw [pass1_cons] at h
    cases hs : step1 K ts tsIdx b e s with
    | error err => rw [hs] at h; cases h
    | ok s1 =>
      rw [hs] at h
      exact ih s1 s' h (hstep e s s1 hs hg)

/-- every registered structure sits in the heap under its id -/
def FssIds (fss : List (Int × Nat)) (hp : Heap) : Prop :=
  ∀ q ∈ fss, ∃ o : Obj, hp[q.2]? = some o ∧ o.xid = some q.1

/-- every registered structure has the slots the second pass visits -/
def AllSlots (ts : TypeSystem) (fss : List (Int × Nat)) (hp : Heap) : Prop :=
  ∀ q ∈ fss, ∃ o : Obj, hp[q.2]? = some o ∧ SlotsOK ts o

/-- every object above address `n` has no id or a bounded one -/
def NewB (n : Nat) (hp : Heap) (m : Int) : Prop :=
  ∀ (a : Nat) (o : Obj) (x : Int), n ≤ a → hp[a]? = some o → o.xid = some x → x ≤ m

theorem getElem?_snoc_length {α} (X : List α) (o : α) : (X ++ [o])[X.length]? = some o := by
  rw [List.getElem?_append_right (Nat.le_refl _), Nat.sub_self]
  rfl

theorem snoc_old {α} {X : List α} {o x : α} {a : Nat} (h : X[a]? = some x) : (X ++ [o])[a]? = some x := by
  rw [List.getElem?_append_left (List.getElem?_eq_some_iff.mp h).1]
  exact h

theorem step1_fssIds (K : Consts) (ts : TypeSystem) (tsIdx : Nat) (b : Bool) (e : XElem) (s s' : Pass1)
    (h : step1 K ts tsIdx b e s = .ok s') (hg : FssIds s.fss s.heap) : FssIds s'.fss s'.heap := by
  rcases step1_heap K ts tsIdx b e s s' h with ⟨e1, e2, _⟩ | ⟨X, o, i, hX, e1, e2, _, e3, _⟩
  · rw [e1, e2]; exact hg
  · rw [e1, e2]
    intro q hq
    rcases mem_alistSetI hq with hq | rfl
    · obtain ⟨o', ho', hx⟩ := hg q hq
      exact ⟨o', snoc_old (hX.old ho'), hx⟩
    · exact ⟨o, getElem?_snoc_length X o, e3⟩

theorem step1_allSlots (K : Consts) (ts : TypeSystem) (tsIdx : Nat) (b : Bool) (e : XElem) (s s' : Pass1)
    (h : step1 K ts tsIdx b e s = .ok s') (hg : AllSlots ts s.fss s.heap) : AllSlots ts s'.fss s'.heap := by
  rcases step1_heap K ts tsIdx b e s s' h with ⟨e1, e2, _⟩ | ⟨X, o, i, hX, e1, e2, _, _, e4⟩
  · rw [e1, e2]; exact hg
  · rw [e1, e2]
    intro q hq
    rcases mem_alistSetI hq with hq | rfl
    · obtain ⟨o', ho', hx⟩ := hg q hq
      exact ⟨o', snoc_old (hX.old ho'), hx⟩
    · exact ⟨o, getElem?_snoc_length X o, e4⟩

theorem step1_newB (K : Consts) (ts : TypeSystem) (tsIdx : Nat) (b : Bool) (n : Nat) (e : XElem) (s s' : Pass1)
    (h : step1 K ts tsIdx b e s = .ok s') (hg : NewB n s.heap s.maxId) : NewB n s'.heap s'.maxId := by
  rcases step1_heap K ts tsIdx b e s s' h with ⟨e1, _, e3⟩ | ⟨X, o, i, hX, e1, _, e2, e3, _⟩
  · rw [e1]
    intro a o x hn ho hx
    exact Int.le_trans (hg a o x hn ho hx) e3
  · rw [e1, e2]
    intro a o' x hn ho' hx
    rcases Nat.lt_or_ge a X.length with hlt | hge
    · rw [List.getElem?_append_left hlt] at ho'
      rcases Nat.lt_or_ge a s.heap.length with hlt2 | hge2
      · obtain ⟨o0, ho0⟩ : ∃ o0, s.heap[a]? = some o0 := ⟨s.heap[a], List.getElem?_eq_getElem hlt2⟩
        have := hX.old ho0
        rw [this] at ho'
        cases ho'
        exact Int.le_trans (hg a _ x hn ho0 hx) (Int.le_max_left _ _)
      · have := hX.new hge2 ho'
        rw [this] at hx
        cases hx
    · have hlen : (X ++ [o]).length = X.length + 1 := by rw [List.length_append]; rfl
      have hlt := (List.getElem?_eq_some_iff.mp ho').1
      have : a = X.length := by omega
      subst this
      rw [getElem?_snoc_length] at ho'
      cases ho'
      rw [e3] at hx
      cases hx
      exact Int.le_max_right _ _

theorem pass1_fss_ids_aux (K : Consts) (ts : TypeSystem) (tsIdx : Nat) (lenient : Bool) (doc : XDoc) (s r : Pass1)
    (hs : ∀ q ∈ s.fss, ∃ o : Obj, s.heap[q.2]? = some o ∧ o.xid = some q.1)
    (h : pass1 K ts tsIdx lenient doc s = .ok r) :
    ∀ q ∈ r.fss, ∃ o : Obj, r.heap[q.2]? = some o ∧ o.xid = some q.1 :=
  pass1_inv K ts tsIdx lenient (fun s => FssIds s.fss s.heap) (step1_fssIds K ts tsIdx lenient) doc s r h hs

/-! ### second pass: ids of existing objects are kept, new objects carry none -/

def XExt (hp hp' : Heap) : Prop :=
  (∀ (a : Nat) (o : Obj), hp[a]? = some o → ∃ o', hp'[a]? = some o' ∧ o'.ty = o.ty ∧ o'.xid = o.xid ∧
    ∀ n, (alistGet? o.slots n).isSome = true → (alistGet? o'.slots n).isSome = true) ∧
  (∀ (a : Nat) (o' : Obj), hp.length ≤ a → hp'[a]? = some o' → o'.xid = none)

theorem XExt.refl (hp : Heap) : XExt hp hp :=
  ⟨fun _ o h => ⟨o, h, rfl, rfl, fun _ h => h⟩, fun a o' hl h => by
    rw [List.getElem?_eq_none hl] at h; cases h⟩

theorem XExt.trans {h1 h2 h3 : Heap} (a : XExt h1 h2) (b : XExt h2 h3) : XExt h1 h3 := by
  refine ⟨?_, ?_⟩
  · intro i o1 h
    obtain ⟨o2, h2', e2, x2, s2⟩ := a.1 i o1 h
    obtain ⟨o3, h3', e3, x3, s3⟩ := b.1 i o2 h2'
    exact ⟨o3, h3', e3.trans e2, x3.trans x2, fun n hn => s3 n (s2 n hn)⟩
  · intro i o3 hl h
    rcases Nat.lt_or_ge i h2.length with hlt | hge
    · obtain ⟨o2, ho2⟩ : ∃ o2, h2[i]? = some o2 := ⟨h2[i], List.getElem?_eq_getElem hlt⟩
      have hx2 := a.2 i o2 hl ho2
      obtain ⟨o3', h3', _, x3, _⟩ := b.1 i o2 ho2
      rw [h3'] at h
      cases h
      rw [x3, hx2]
    · exact b.2 i o3 hge h

theorem NExt.toX {hp hp' : Heap} (h : NExt hp hp') : XExt hp hp' :=
  ⟨fun _ o ho => ⟨o, h.old ho, rfl, rfl, fun _ h => h⟩, fun _ _ hl ho => h.new hl ho⟩

theorem alistSet_isSome {β} (l : List (String × β)) (k : String) (v : β) (n : String)
    (h : (alistGet? l n).isSome = true) : (alistGet? (alistSet l k v) n).isSome = true := by
  by_cases hn : n = k
  · subst hn; rw [alistGet?_set_same]; rfl
  · rw [alistGet?_set_other _ _ _ _ hn]; exact h

theorem setSlot_x {hp X : Heap} {a : Nat} {n : String} {v : Val} {o : Obj} (hX : NExt hp X) (ho : hp[a]? = some o)
    (hs : (alistGet? o.slots n).isSome = true) : OkP (XExt hp) (Heap.setSlot X a n v) := by
  intro X' h
  refine hX.toX.trans ?_
  have hoX := hX.old ho
  obtain ⟨o1, ho1, hc⟩ := Heap.setSlot_ok_cases X X' a n v h
  rw [hoX] at ho1
  cases ho1
  have hlt : a < X.length := (List.getElem?_eq_some_iff.mp hoX).1
  rcases hc with ⟨w, _, rfl⟩ | ⟨hnone, _, _⟩
  · refine ⟨?_, ?_⟩
    · intro i oi hi
      by_cases hia : a = i
      · subst hia
        rw [hoX] at hi
        cases hi
        exact ⟨_, List.getElem?_set_self hlt, rfl, rfl, fun m hm => alistSet_isSome _ _ _ _ hm⟩
      · exact ⟨oi, by rw [List.getElem?_set_ne hia]; exact hi, rfl, rfl, fun _ h => h⟩
    · intro i oi hl hi
      have : i < (X.set a _).length := (List.getElem?_eq_some_iff.mp hi).1
      rw [List.length_set] at this
      omega
  · rw [hnone] at hs
    cases hs

theorem postFeature_x (K : Consts) (ts : TypeSystem) (tsIdx ci : Nat) (sofas : List (Int × PSofa))
    (fss : List (Int × Nat)) (hp : Heap) (a : Nat) (tyName : String) (isStrArr : Bool) (f : Feature) (o : Obj)
    (ho : hp[a]? = some o) (hs : (alistGet? o.slots f.name).isSome = true) :
    OkP (XExt hp) (postFeature K ts tsIdx ci sofas fss hp a tyName isStrArr f) := by
  have hsS : (f.name == "sofa") = true → (alistGet? o.slots "sofa").isSome = true := by
    intro h; rw [← eq_of_beq h]; exact hs
  have hsE : (f.name == "elements") = true → (alistGet? o.slots "elements").isSome = true := by
    intro h; rw [← eq_of_beq h]; exact hs
  have hsE1 : ∀ b : Bool, (f.name == "elements" && b) = true → (alistGet? o.slots "elements").isSome = true := by
    intro b h; exact hsE (Bool.and_eq_true_iff.mp h).1
  have hsE2 : ∀ b : Bool, (b && f.name == "elements") = true → (alistGet? o.slots "elements").isSome = true := by
    intro b h; exact hsE (Bool.and_eq_true_iff.mp h).2
  unfold postFeature
  dsimp only
  repeat' (first
    | exact OkP.pure (XExt.refl _)
    | exact OkP.throw _
    | exact OkP.err _
    | exact setSlot_x (NExt.refl _) ho hs
    | exact setSlot_x (NExt.refl _) ho (hsS ‹_›)
    | exact setSlot_x (NExt.refl _) ho (hsE1 _ ‹_›)
    | exact setSlot_x (NExt.refl _) ho (hsE2 _ ‹_›)
    | exact setSlot_x (NExt.snoc _ rfl) ho hs
    | exact setSlot_x (buildPrimList_next (l := Prod.snd _) ‹_›) ho hs
    | exact setSlot_x (buildFsList_next (l := (buildFsList _ _ _).2) rfl) ho hs
    | refine OkP.bind (fun _ _ => ?_)
    | split)

theorem postFeatures_x (K : Consts) (ts : TypeSystem) (tsIdx ci : Nat) (sofas : List (Int × PSofa))
    (fss : List (Int × Nat)) (a : Nat) (tyName : String) (isStrArr : Bool) (fs : List Feature) :
    ∀ (hp : Heap) (o : Obj), hp[a]? = some o → (∀ f ∈ fs, (alistGet? o.slots f.name).isSome = true) →
      OkP (XExt hp) (postFeatures K ts tsIdx ci sofas fss a tyName isStrArr fs hp) := by
  induction fs with
  | nil => intro hp o _ _; rw [postFeatures]; exact OkP.ok (XExt.refl _)
  | cons f fs ih =>
    intro hp o ho hs
    rw [postFeatures]
    refine OkP.bind (fun hp1 h1 => ?_)
    intro hp2 h2
    have hx := postFeature_x K ts tsIdx ci sofas fss hp a tyName isStrArr f o ho (hs f List.mem_cons_self) hp1 h1
    obtain ⟨o1, ho1, _, _, hs1⟩ := hx.1 a o ho
    exact hx.trans (ih hp1 o1 ho1 (fun g hg => hs1 _ (hs g (List.mem_cons_of_mem _ hg))) hp2 h2)

theorem AllSlots.ext {ts : TypeSystem} {fss : List (Int × Nat)} {hp hp' : Heap} (h : AllSlots ts fss hp)
    (t : XExt hp hp') : AllSlots ts fss hp' := by
  intro q hq
  obtain ⟨o, ho, hc⟩ := h q hq
  obtain ⟨o', ho', e, _, hs⟩ := t.1 q.2 o ho
  refine ⟨o', ho', ?_⟩
  intro t ht f hf
  rw [e] at ht
  exact hs _ (hc t ht f hf)

theorem FssIds.ext {fss : List (Int × Nat)} {hp hp' : Heap} (h : FssIds fss hp) (t : XExt hp hp') :
    FssIds fss hp' := by
  intro q hq
  obtain ⟨o, ho, hc⟩ := h q hq
  obtain ⟨o', ho', _, e, _⟩ := t.1 q.2 o ho
  exact ⟨o', ho', e.trans hc⟩

theorem postAll_x (K : Consts) (ts : TypeSystem) (tsIdx ci : Nat) (sofas : List (Int × PSofa))
    (fss : List (Int × Nat)) (l : List (Int × Nat)) :
    ∀ hp : Heap, AllSlots ts l hp → OkP (XExt hp) (postAll K ts tsIdx ci sofas fss l hp) := by
  induction l with
  | nil => intro hp _; rw [postAll]; exact OkP.ok (XExt.refl _)
  | cons q rest ih =>
    intro hp hall
    obtain ⟨i, a⟩ := q
    rw [postAll]
    split
    · rename_i o0 ho0
      refine OkP.bind (fun o ho => ?_)
      cases ho
      refine OkP.bind (fun t ht => ?_)
      refine OkP.bind (fun hp1 h1 => ?_)
      intro hp2 h2
      obtain ⟨o', ho', hs'⟩ := hall (i, a) List.mem_cons_self
      have ho0' : hp[a]? = some o0 := ho0
      rw [ho0'] at ho'
      cases ho'
      have hx := postFeatures_x K ts tsIdx ci sofas fss a _ _ _ hp o0 ho0' (hs' t ht) hp1 h1
      have hall1 : AllSlots ts rest hp1 :=
        AllSlots.ext (fun q hq => hall q (List.mem_cons_of_mem _ hq)) hx
      exact hx.trans (ih hp1 hall1 hp2 h2)
    · refine OkP.bind (fun o ho => ?_)
      cases ho

/-! ### third pass: no object is created, no id changes -/

def XSame (hp hp' : Heap) : Prop :=
  hp'.length = hp.length ∧ ∀ (a : Nat) (o : Obj), hp[a]? = some o → ∃ o', hp'[a]? = some o' ∧ o'.xid = o.xid

theorem XSame.refl (hp : Heap) : XSame hp hp := ⟨rfl, fun _ o h => ⟨o, h, rfl⟩⟩

theorem XSame.trans {h1 h2 h3 : Heap} (a : XSame h1 h2) (b : XSame h2 h3) : XSame h1 h3 := by
  refine ⟨b.1.trans a.1, ?_⟩
  intro i o1 h
  obtain ⟨o2, h2', x2⟩ := a.2 i o1 h
  obtain ⟨o3, h3', x3⟩ := b.2 i o2 h2'
  exact ⟨o3, h3', x3.trans x2⟩

theorem XSame.back {hp hp' : Heap} (h : XSame hp hp') {a : Nat} {o' : Obj} (ho' : hp'[a]? = some o') :
    ∃ o, hp[a]? = some o ∧ o.xid = o'.xid := by
  have hlt : a < hp.length := by rw [← h.1]; exact (List.getElem?_eq_some_iff.mp ho').1
  obtain ⟨o2, ho2, hx⟩ := h.2 a hp[a] (List.getElem?_eq_getElem hlt)
  rw [ho'] at ho2
  cases ho2
  exact ⟨hp[a], List.getElem?_eq_getElem hlt, hx.symm⟩

theorem set_xsame {hp : Heap} {a : Nat} {o o1 : Obj} (ho : hp[a]? = some o) (hx : o1.xid = o.xid) :
    XSame hp (hp.set a o1) := by
  have hlt : a < hp.length := (List.getElem?_eq_some_iff.mp ho).1
  refine ⟨List.length_set, ?_⟩
  intro i oi hi
  by_cases hia : a = i
  · subst hia
    rw [ho] at hi
    cases hi
    exact ⟨o1, List.getElem?_set_self hlt, hx⟩
  · exact ⟨oi, by rw [List.getElem?_set_ne hia]; exact hi, rfl⟩

theorem FssIds.same {fss : List (Int × Nat)} {hp hp' : Heap} (h : FssIds fss hp) (t : XSame hp hp') :
    FssIds fss hp' := by
  intro q hq
  obtain ⟨o, ho, hc⟩ := h q hq
  obtain ⟨o', ho', e⟩ := t.2 q.2 o ho
  exact ⟨o', ho', e.trans hc⟩

theorem setSlot_xsame {hp hp' : Heap} {a : Nat} {n : String} {v w : Val} (hs : slot hp a n = some w)
    (h : Heap.setSlot hp a n v = .ok hp') : XSame hp hp' := by
  obtain ⟨o, ho, hc⟩ := Heap.setSlot_ok_cases hp hp' a n v h
  rcases hc with ⟨w', _, rfl⟩ | ⟨hnone, _, _⟩
  · exact set_xsame ho rfl
  · have : slot hp a n = alistGet? o.slots n := by
      show (hp[a]?).bind _ = _
      rw [ho]; rfl
    rw [this, hnone] at hs
    cases hs

theorem convertOffsets_xsame {conv : Offsets.Conv} {hp hp' : Heap} {a : Nat}
    (h : convertOffsets conv hp a = .ok hp') : XSame hp hp' := by
  unfold convertOffsets at h
  simp only [bind, Except.bind, throw, throwThe, MonadExceptOf.throw] at h
  split at h
  · rename_i v hv
    split at h
    · cases h
    · rename_i hp1 h1
      split at h
      · rename_i v2 hv2
        exact (setSlot_xsame hv h1).trans (setSlot_xsame hv2 h)
      · cases h
  · cases h

/-- the sofa of every view is kept -/
def SofaSame (c c' : Cas) : Prop :=
  ∀ (w : String) (v : View), Cas.getViewRec c w = some v → ∃ v', Cas.getViewRec c' w = some v' ∧ v'.sofa = v.sofa

theorem SofaSame.refl (c : Cas) : SofaSame c c := fun _ v h => ⟨v, h, rfl⟩

theorem SofaSame.trans {c1 c2 c3 : Cas} (a : SofaSame c1 c2) (b : SofaSame c2 c3) : SofaSame c1 c3 := by
  intro w v h
  obtain ⟨v2, h2, e2⟩ := a w v h
  obtain ⟨v3, h3, e3⟩ := b w v2 h2
  exact ⟨v3, h3, e3.trans e2⟩

theorem add_x {ts : TypeSystem} {ci : Nat} {c c' : Cas} {hp hp' : Heap} {h : Handle} {a : Nat} {o : Obj} {x : Int}
    (ho : hp[a]? = some o) (hx : o.xid = some x) (hadd : Cas.add ts ci c hp h a true = .ok (c', hp')) :
    XSame hp hp' ∧ SofaSame c c' := by
  constructor
  · obtain ⟨o1, v, x1, c1, e, ho1, _, hv, hcase, he, rfl, rfl⟩ := Cas.add_cases hadd
    rw [ho] at ho1
    cases ho1
    rcases hcase with ⟨_, hx1, _⟩ | ⟨hk | hn, _, _⟩
    · rw [hx] at hx1
      cases hx1
      exact set_xsame ho (by show some x = o.xid; rw [hx])
    · cases hk
    · rw [hx] at hn; cases hn
  · obtain ⟨h1, ⟨v, v', _, _, hv, hv', _, hs, _, _⟩, _⟩ := Cas.add_frame_aux ts ci c c' hp hp' h a true hadd
    intro w vw hw
    by_cases hwv : w = h.view
    · subst hwv
      rw [hv] at hw
      cases hw
      exact ⟨v', hv', hs⟩
    · rw [← h1 w hwv] at hw
      exact ⟨vw, hw, rfl⟩

theorem addMember1_x {ts : TypeSystem} {ci : Nat} {h : Handle} {conv : Offsets.Conv} {sofas : List (Int × PSofa)}
    {fss : List (Int × Nat)} {m : Int} {b b' : Build} (hf : FssIds fss b.heap)
    (hb : addMember1 ts ci h conv sofas fss m b = .ok b') :
    XSame b.heap b'.heap ∧ SofaSame b.cas b'.cas := by
  unfold addMember1 at hb
  cases hl : lookupFs fss m with
  | error e => rw [hl] at hb; cases hb
  | ok a =>
    rw [hl] at hb
    dsimp only at hb
    obtain ⟨q, hq, rfl⟩ := lookupFs_mem hl
    obtain ⟨o, ho, hox⟩ := hf q hq
    rw [ho] at hb
    dsimp only at hb
    by_cases hi : (!(b.converted.contains m) && isInstanceOf ts o.ty ANNOTATION) = true
    · rw [if_pos hi] at hb
      cases hc : convertOffsets (ownConv sofas conv (memberOwn m q.2 b).1) b.heap q.2 with
      | error e => rw [hc] at hb; cases hb
      | ok hp' =>
        rw [hc] at hb
        dsimp only at hb
        cases hadd : Cas.add ts ci b.cas hp' h q.2 true with
        | error e => rw [hadd] at hb; cases hb
        | ok r =>
          obtain ⟨c', hp2⟩ := r
          rw [hadd] at hb
          cases hb
          have hx1 := convertOffsets_xsame hc
          obtain ⟨o1, ho1, hox1⟩ := hx1.2 q.2 o ho
          obtain ⟨hx2, hs2⟩ := add_x ho1 (hox1.trans hox) hadd
          exact ⟨hx1.trans hx2, hs2⟩
    · rw [if_neg hi] at hb
      dsimp only at hb
      cases hadd : Cas.add ts ci b.cas b.heap h q.2 true with
      | error e => rw [hadd] at hb; cases hb
      | ok r =>
        obtain ⟨c', hp2⟩ := r
        rw [hadd] at hb
        cases hb
        exact add_x ho hox hadd

theorem addMembers_x {ts : TypeSystem} {ci : Nat} {h : Handle} {conv : Offsets.Conv} {sofas : List (Int × PSofa)}
    {L : List Int} {fss : List (Int × Nat)} {ms : List Int} {b b' : Build} (hf : FssIds fss b.heap)
    (hb : addMembers ts ci h conv sofas L fss ms b = .ok b') : XSame b.heap b'.heap ∧ SofaSame b.cas b'.cas := by
  induction ms generalizing b with
  | nil => rw [addMembers_nil] at hb; cases hb; exact ⟨XSame.refl _, SofaSame.refl _⟩
  | cons m ms ih =>
    rw [addMembers_cons] at hb
    by_cases hm : L.contains m = true
    · rw [if_pos hm] at hb; exact ih hf hb
    · rw [if_neg hm] at hb
      cases h1 : addMember1 ts ci h conv sofas fss m b with
      | error e => rw [h1] at hb; cases hb
      | ok b1 =>
        rw [h1] at hb
        obtain ⟨x1, s1⟩ := addMember1_x hf h1
        obtain ⟨x2, s2⟩ := ih (hf.same x1) hb
        exact ⟨x1.trans x2, s1.trans s2⟩

/-! ### the views created from the sofas of the document -/

/-- the view named `n` exists and its sofa id / number are bounded -/
def VB (M N : Int) (c : Cas) (n : String) : Prop :=
  ∃ v : View, Cas.getViewRec c n = some v ∧ v.sofa.xid ≤ M ∧ v.sofa.sofaNum ≤ N

theorem VB.same {M N : Int} {c c' : Cas} {n : String} (h : VB M N c n) (s : SofaSame c c') : VB M N c' n := by
  obtain ⟨v, hv, h1, h2⟩ := h
  obtain ⟨v', hv', e⟩ := s n v hv
  exact ⟨v', hv', by rw [e]; exact h1, by rw [e]; exact h2⟩

theorem viewCas_x {s : PSofa} {c c2 : Cas} {M N : Int} (h : viewCas s c = .ok c2) (h1 : s.xid ≤ M) (h2 : s.num ≤ N) :
    VB M N c2 s.sofaID ∧ ∀ n, VB M N c n → VB M N c2 n := by
  unfold viewCas at h
  dsimp only at h
  -- the state after the first step
  have key : ∃ (c1 : Cas) (v1 : View), (∀ n, n ≠ s.sofaID → Cas.getViewRec c1 n = Cas.getViewRec c n) ∧
      Cas.getViewRec c1 s.sofaID = some v1 ∧ v1.sofa.xid = s.xid ∧ v1.sofa.sofaNum = s.num ∧
      Cas.updSofa c1 { view := s.sofaID, lenient := false }
        (fun so => { so with text := s.text.map (fun t => t.toList.map Char.toNat), conv := convOfText s.text,
                             mime := s.mime }) = .ok c2 := by
    by_cases hv : (s.sofaID == Cas.INITIAL_VIEW) = true
    · rw [if_pos hv] at h
      have hid : s.sofaID = Cas.INITIAL_VIEW := eq_of_beq hv
      cases hu : Cas.updSofa c { view := Cas.INITIAL_VIEW, lenient := false }
          (fun so => { so with xid := s.xid, sofaNum := s.num }) with
      | error e => rw [hu] at h; cases h
      | ok c1 =>
        rw [hu] at h
        obtain ⟨v, hv0, rfl⟩ := Cas.updSofa_ok hu
        refine ⟨_, { v with sofa := { v.sofa with xid := s.xid, sofaNum := s.num } }, ?_, ?_, rfl, rfl, h⟩
        · intro n hn
          rw [hid] at hn
          exact Cas.getViewRec_set_other _ _ _ _ hn
        · rw [hid]
          exact Cas.getViewRec_set_same _ _ _
    · rw [if_neg hv] at h
      unfold Cas.createView at h
      by_cases hs : (Cas.getViewRec c s.sofaID).isSome = true
      · rw [if_pos hs] at h; cases h
      · rw [if_neg hs] at h
        refine ⟨Cas.addView c s.sofaID (some s.xid) (some s.num),
          { sofa := { sofaID := s.sofaID, sofaNum := s.num, xid := s.xid } }, ?_, ?_, rfl, rfl, h⟩
        · intro n hn
          exact Cas.getViewRec_set_other c s.sofaID n _ hn
        · exact Cas.getViewRec_set_same c _ _
  obtain ⟨c1, v1, hoth, hv1, hx1, hn1, hu⟩ := key
  obtain ⟨v, hv0, rfl⟩ := Cas.updSofa_ok hu
  have hv0' : Cas.getViewRec c1 s.sofaID = some v := hv0
  rw [hv1] at hv0'
  cases hv0'
  have hnew' : ∀ v' : View, v'.sofa.xid = s.xid → v'.sofa.sofaNum = s.num →
      VB M N (Cas.setViewRec c1 s.sofaID v') s.sofaID := by
    intro v' e1 e2
    exact ⟨v', Cas.getViewRec_set_same _ _ _, by rw [e1]; exact h1, by rw [e2]; exact h2⟩
  refine ⟨hnew' _ hx1 hn1, ?_⟩
  intro n hn
  by_cases hns : n = s.sofaID
  · rw [hns]; exact hnew' _ hx1 hn1
  · obtain ⟨v, hv, b1, b2⟩ := hn
    refine ⟨v, ?_, b1, b2⟩
    exact (Cas.getViewRec_set_other c1 s.sofaID n _ hns).trans ((hoth n hns).trans hv)

theorem buildView_x {ts : TypeSystem} {ci : Nat} {lenient : Bool} {p : Pass1} {s : PSofa} {b b' : Build} {M N : Int}
    (hf : FssIds p.fss b.heap) (h1 : s.xid ≤ M) (h2 : s.num ≤ N) (hb : buildView ts ci lenient p s b = .ok b') :
    XSame b.heap b'.heap ∧ VB M N b'.cas s.sofaID ∧ ∀ n, VB M N b.cas n → VB M N b'.cas n := by
  rw [buildView_eq] at hb
  cases hv : viewCas s b.cas with
  | error e => rw [hv] at hb; cases hb
  | ok c2 =>
    rw [hv] at hb
    obtain ⟨v1, v2⟩ := viewCas_x (M := M) (N := N) hv h1 h2
    obtain ⟨x1, s1⟩ := addMembers_x (b := { b with cas := c2 }) hf hb
    exact ⟨x1, v1.same s1, fun n hn => (v2 n hn).same s1⟩

theorem buildViews_x {ts : TypeSystem} {ci : Nat} {lenient : Bool} {p : Pass1} {M N : Int} (l : List (Int × PSofa)) :
    ∀ {b b' : Build}, FssIds p.fss b.heap → (∀ q ∈ l, q.2.xid ≤ M ∧ q.2.num ≤ N) →
      buildViews ts ci lenient p l b = .ok b' →
      XSame b.heap b'.heap ∧ (∀ q ∈ l, VB M N b'.cas q.2.sofaID) ∧ ∀ n, VB M N b.cas n → VB M N b'.cas n := by
  induction l with
  | nil =>
    intro b b' _ _ hb
    rw [buildViews] at hb
    cases hb
    exact ⟨XSame.refl _, (fun q hq => by cases hq), fun _ h => h⟩
  | cons q rest ih =>
    intro b b' hf hl hb
    obtain ⟨i, s⟩ := q
    rw [buildViews] at hb
    cases h1 : buildView ts ci lenient p s b with
    | error e => rw [h1] at hb; cases hb
    | ok b1 =>
      rw [h1] at hb
      have hq := hl (i, s) List.mem_cons_self
      obtain ⟨x1, v1, k1⟩ := buildView_x (M := M) (N := N) hf hq.1 hq.2 h1
      obtain ⟨x2, v2, k2⟩ := ih (hf.same x1) (fun q hq => hl q (List.mem_cons_of_mem _ hq)) hb
      refine ⟨x1.trans x2, ?_, fun n hn => k2 n (k1 n hn)⟩
      intro q hq
      rcases List.mem_cons.mp hq with rfl | hq
      · exact k2 _ v1
      · exact v2 q hq

theorem convertReferenced_x (ts : TypeSystem) (p : Pass1) (cv : List Int) (l : List (Int × Nat)) :
    ∀ (hp hp' : Heap), convertReferenced ts p cv l hp = .ok hp' → XSame hp hp' := by
  induction l with
  | nil => intro hp hp' h; rw [convertReferenced] at h; cases h; exact XSame.refl _
  | cons q rest ih =>
    intro hp hp' h
    obtain ⟨i, a⟩ := q
    rw [convertReferenced] at h
    repeat' split at h
    all_goals first
      | exact ih _ _ h
      | (cases h; done)
      | (rename_i hc; exact (convertOffsets_xsame hc).trans (ih _ _ h))

/-- setting a slot other than `xmiID` never touches an id (the `xmiID` fallback of `setSlot` is out of reach) -/
theorem setSlot_xsame_of_ne {hp hp' : Heap} {a : Nat} {n : String} {v : Val} (hn : n ≠ "xmiID")
    (h : Heap.setSlot hp a n v = .ok hp') : XSame hp hp' := by
  obtain ⟨o, ho, hc⟩ := Heap.setSlot_ok_cases hp hp' a n v h
  rcases hc with ⟨w', _, rfl⟩ | ⟨_, hx, _⟩
  · exact set_xsame ho rfl
  · exact absurd hx hn

theorem rehome_x (fss : List (Int × Nat)) (l : List (Int × Val)) :
    ∀ (hp hp' : Heap), rehome fss l hp = .ok hp' → XSame hp hp' := by
  induction l with
  | nil => intro hp hp' h; rw [rehome] at h; cases h; exact XSame.refl _
  | cons q rest ih =>
    intro hp hp' h
    obtain ⟨m, v⟩ := q
    unfold rehome at h
    repeat' split at h
    all_goals first
      | exact ih _ _ h
      | (cases h; done)
      | (rename_i hc; exact (setSlot_xsame_of_ne (by decide) hc).trans (ih _ _ h))

/-! ### end to end -/

theorem loadXmi_reseeds_aux (K : Consts) (ts : TypeSystem) (tsIdx ci : Nat) (lenient : Bool) (hp : Heap) (doc : XDoc)
    (ld : Loaded) (h : loadXmi K ts tsIdx ci lenient hp doc = .ok ld) :
    ∃ p : Pass1, pass1 K ts tsIdx lenient doc { heap := hp } = .ok p ∧ P1Bounded p ∧
      ld.cas.nextXid = p.maxId + 1 ∧ ld.cas.nextSofaNum = p.maxNum + 1 ∧
      (∀ q ∈ p.fss, ∃ o : Obj, ld.heap[q.2]? = some o ∧ o.xid = some q.1 ∧ q.1 < ld.cas.nextXid) ∧
      (∀ (a : Nat) (o : Obj) (x : Int), hp.length ≤ a → ld.heap[a]? = some o → o.xid = some x → x < ld.cas.nextXid) ∧
      (∀ q ∈ p.sofas, ∃ v : View, Cas.getViewRec ld.cas q.2.sofaID = some v ∧
        v.sofa.xid < ld.cas.nextXid ∧ v.sofa.sofaNum < ld.cas.nextSofaNum) := by
  unfold loadXmi at h
  obtain ⟨p, hp1, h⟩ := bind_ok h
  obtain ⟨hp2, hpost, h⟩ := bind_ok h
  refine ⟨p, hp1, ?_⟩
  have hB : P1Bounded p :=
    (pass1_bounded_aux K ts tsIdx lenient doc { heap := hp } p
      ⟨(fun q hq => by cases hq), (fun q hq => by cases hq)⟩ hp1).1
  have hF : FssIds p.fss p.heap :=
    pass1_fss_ids_aux K ts tsIdx lenient doc { heap := hp } p (fun q hq => by cases hq) hp1
  have hA : AllSlots ts p.fss p.heap :=
    pass1_inv K ts tsIdx lenient (fun s => AllSlots ts s.fss s.heap) (step1_allSlots K ts tsIdx lenient) doc
      { heap := hp } p hp1 (fun q hq => by cases hq)
  have hN : NewB hp.length p.heap p.maxId :=
    pass1_inv K ts tsIdx lenient (fun s => NewB hp.length s.heap s.maxId) (step1_newB K ts tsIdx lenient hp.length)
      doc { heap := hp } p hp1 (fun a o x hl ho _ => by
        have ho' : hp[a]? = some o := ho
        rw [List.getElem?_eq_none hl] at ho'; cases ho')
  have hX : XExt p.heap hp2 := postAll_x K ts tsIdx ci p.sofas p.fss p.fss p.heap hA hp2 hpost
  unfold buildCas at h
  cases hbv : buildViews ts ci lenient p p.sofas { cas := Cas.empty, heap := hp2 } with
  | error e => rw [hbv] at h; cases h
  | ok b =>
    rw [hbv] at h
    dsimp only at h
    cases hre : rehome p.fss b.memberSofas b.heap with
    | error e => rw [hre] at h; cases h
    | ok hpR =>
    rw [hre] at h
    dsimp only at h
    cases hcr : convertReferenced ts p b.converted p.fss hpR with
    | error e => rw [hcr] at h; cases h
    | ok heap =>
      rw [hcr] at h
      cases h
      obtain ⟨x1, v1, _⟩ := buildViews_x (M := p.maxId) (N := p.maxNum) p.sofas
        (b := { cas := Cas.empty, heap := hp2 }) (hF.ext hX) hB.1 hbv
      have xR := rehome_x p.fss b.memberSofas b.heap hpR hre
      have x2 := convertReferenced_x ts p b.converted p.fss hpR heap hcr
      have hS : XSame hp2 heap := (x1.trans xR).trans x2
      refine ⟨hB, rfl, rfl, ?_, ?_, ?_⟩
      · intro q hq
        obtain ⟨o, ho, hx⟩ := ((hF.ext hX).same hS) q hq
        refine ⟨o, ho, hx, ?_⟩
        show q.1 < p.maxId + 1
        have := hB.2 q hq
        omega
      · intro a o x hl ho hx
        show x < p.maxId + 1
        obtain ⟨o2, ho2, hx2⟩ := hS.back (a := a) (o' := o) ho
        rw [hx] at hx2
        rcases Nat.lt_or_ge a p.heap.length with hlt | hge
        · obtain ⟨o2', ho2', _, hx2', _⟩ := hX.1 a p.heap[a] (List.getElem?_eq_getElem hlt)
          rw [ho2] at ho2'
          cases ho2'
          have := hN a p.heap[a] x hl (List.getElem?_eq_getElem hlt) (hx2'.symm.trans hx2)
          omega
        · have := hX.2 a o2 hge ho2
          rw [this] at hx2
          cases hx2
      · intro q hq
        obtain ⟨v, hv, b1, b2⟩ := v1 q hq
        refine ⟨v, hv, ?_, ?_⟩
        · show v.sofa.xid < p.maxId + 1
          omega
        · show v.sofa.sofaNum < p.maxNum + 1
          omega

end Cassis.Xmi
