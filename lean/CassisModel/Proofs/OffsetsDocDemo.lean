/-
Non-vacuity of the statements of `Properties/C03DocJson.lean` and `Properties/C03DocWrite.lean`: the instance of
`RoundTripDemo.lean` (built-in type system plus the annotation type `x.Tok`; a CAS over the text `a😀b` with one astral
code point; two `x.Tok` structures, `(0, 2)` indexed and `(2, 3)` only referenced) satisfies the hypotheses, and the
conclusions are the expected concrete offsets.  A second instance has a type `x.Span` under TOP with its own integer
features `begin` / `end`.  Everything is evaluated by the kernel.
-/
import CassisModel.Proofs.RoundTripJsonDemo
import CassisModel.Proofs.OffsetsDocFinal
import CassisModel.Proofs.OffsetsDocJsonP

namespace Cassis.OffsetsDoc.Demo
open Cassis Cassis.TS Cassis.Xmi Cassis.Json Cassis.Traverse Cassis.Xmi.Demo Cassis.OffsetsDoc Cassis.Lex

/-! ### the oracle on the text `a😀b` -/

example : extOffset txt 0 = 0 ∧ extOffset txt 1 = 1 ∧ extOffset txt 2 = 3 ∧ extOffset txt 3 = 4 := by decide
example : extOffset txt (-1) = -1 ∧ extOffset txt 9 = 9 := by decide

/-! ### the sofa element and the JSON reader -/

def jSofa : JFs :=
  { id := some 1, ty := SOFA,
    feats := [("sofaNum", .int 1), ("sofaID", .str "_InitialView"), ("mimeType", .str "text/plain"),
              ("sofaString", .str (docText txt))] }
def s0 : RState := { cas := Cas.empty, heap := [] }

theorem jSofa_ok : (parseSofa 0 s0 jSofa).toOption.isSome = true := by decide +kernel
theorem jSofa_id : sofaIdOf jSofa = some "_InitialView" := by decide +kernel
theorem jSofa_text : (jSofa.feats.find? (fun p => p.1 == "sofaString")).map (·.2) = some (.str (docText txt)) := rfl
theorem txt_scalar : ∀ c ∈ txt, Offsets.IsScalar c := by decide

/-! ### the annotation type `x.Tok` -/

def fBegin : Feature := { name := "begin", domain := ANNOTATION, range := "uima.cas.Integer" }
def fEnd : Feature := { name := "end", domain := ANNOTATION, range := "uima.cas.Integer" }
def tokRec : TypeRec := (find? demoTS' "x.Tok").getD default

theorem tok_find : find? demoTS' "x.Tok" = some tokRec := by decide +kernel
theorem tok_getType : getType demoTS' "x.Tok" = .ok tokRec := by
  unfold getType; rw [tok_find]
theorem tok_begin : fBegin ∈ allFeatures tokRec := by decide +kernel
theorem tok_end : fEnd ∈ allFeatures tokRec := by decide +kernel
theorem tok_ann : isInstanceOf demoTS' "x.Tok" ANNOTATION = true := by decide +kernel
theorem tok_noarr : isPrimitiveArray K "x.Tok" = false ∧ "x.Tok" ≠ FS_ARRAY := by decide +kernel
theorem int_prim : isPrimitive K demoTS' "uima.cas.Integer" = true := by decide +kernel
theorem int_super : superOf demoTS' "uima.cas.Integer" = some TOP := by decide +kernel

def viewL : View := (Cas.getViewRec casL "_InitialView").getD default

theorem viewL_get : Cas.getViewRec casL "_InitialView" = some viewL := by decide +kernel
theorem viewL_text : viewL.sofa.text = some txt := by decide +kernel
theorem viewL_conv : viewL.sofa.conv = some (Offsets.table txt) := by decide +kernel
theorem sofaL_ok : SofaConvOk viewL.sofa := by
  intro t ht
  rw [viewL_text] at ht
  cases ht
  exact Or.inl viewL_conv

/-- the collected structures of the two writers on the instance -/
theorem allFs_json {doc : JDoc} {st : St} (h : saveJson K demoTS' [casL] 0 hpL .none = .ok (doc, st)) :
    st.allFs = [(2, 0), (3, 1)] := by
  have hs := Json.Demo.save_litJ
  rw [h] at hs
  simp only [Except.toOption, Option.map_some, Option.some.injEq, Prod.mk.injEq] at hs
  exact hs.2

theorem allFs_xmi {doc : XDoc} {st : St} (h : saveXmi K demoTS' [casL] 0 hpL = .ok (doc, st)) :
    st.allFs = [(2, 0), (3, 1)] := by
  have hs := save_lit
  rw [h] at hs
  simp only [Except.toOption, Option.map_some, Option.some.injEq, Prod.mk.injEq] at hs
  exact hs.2

theorem saveJson_ok : ∃ doc st, saveJson K demoTS' [casL] 0 hpL .none = .ok (doc, st) := by
  cases h : saveJson K demoTS' [casL] 0 hpL .none with
  | error e =>
    have hs := Json.Demo.save_litJ
    rw [h] at hs
    simp [Except.toOption] at hs
  | ok r => exact ⟨r.1, r.2, rfl⟩

theorem saveXmi_ok : ∃ doc st, saveXmi K demoTS' [casL] 0 hpL = .ok (doc, st) := by
  cases h : saveXmi K demoTS' [casL] 0 hpL with
  | error e =>
    have hs := save_lit
    rw [h] at hs
    simp [Except.toOption] at hs
  | ok r => exact ⟨r.1, r.2, rfl⟩

/-! ### a structure that is not an annotation, with integer features `begin` / `end` of its own -/

def tsP : TypeSystem :=
  match (do
    let ts ← createType K Gen.builtinTS "x.Span" TOP none
    let ts ← createFeatureLeaf ts "x.Span" "begin" "uima.cas.Integer"
    createFeatureLeaf ts "x.Span" "end" "uima.cas.Integer") with
  | .ok ts => ts
  | .error _ => Gen.builtinTS

def gBegin : Feature := { name := "begin", domain := "x.Span", range := "uima.cas.Integer" }
def spanRec : TypeRec := (find? tsP "x.Span").getD default
def hpP : Heap := [ { ty := "x.Span", ts := 0, xid := none, slots := [("begin", .int 2), ("end", .int 3)] } ]
def casP : Cas :=
  { casL with views := casL.views.map (fun nv => (nv.1, { nv.2 with idx := [("x.Span", [{ b := 2, e := 3, oid := 0 }])] })) }

theorem span_find : find? tsP "x.Span" = some spanRec := by decide +kernel
theorem span_getType : getType tsP "x.Span" = .ok spanRec := by
  unfold getType; rw [span_find]
theorem span_begin : gBegin ∈ allFeatures spanRec := by decide +kernel
theorem span_notann : isInstanceOf tsP "x.Span" ANNOTATION = false := by decide +kernel
theorem span_noarr : isPrimitiveArray K "x.Span" = false ∧ "x.Span" ≠ FS_ARRAY := by decide +kernel
theorem intP_super : superOf tsP "uima.cas.Integer" = some TOP := by decide +kernel

theorem saveP_json : (saveJson K tsP [casP] 0 hpP .none).toOption.map (fun r => r.2.allFs) = some [(3, 0)] := by
  decide +kernel
theorem saveP_xmi : (saveXmi K tsP [casP] 0 hpP).toOption.map (fun r => r.2.allFs) = some [(3, 0)] := by
  decide +kernel

/-! ### the text is replaced: the written offsets follow the new text -/

def casR : Cas :=
  match Cas.setSofaString casL { view := "_InitialView", lenient := false } (some [0x1F600, 0x1F600, 98]) with
  | .ok c => c
  | .error _ => casL

/-- in memory `(0, 2)` and `(2, 3)`; over `a😀b` the documents carry `(0, 3)`, `(3, 4)`, over `😀😀b` they carry
    `(0, 4)`, `(4, 5)` -/
example : ((saveXmi K demoTS' [casL] 0 hpL).toOption.map (fun r => (r.1.filter (·.ty == "x.Tok")).map (·.attrs))) =
    some [[("xmi:id", "2"), ("n", "7"), ("next", "3"), ("begin", "0"), ("end", "3"), ("sofa", "1")],
          [("xmi:id", "3"), ("next", "2"), ("begin", "3"), ("end", "4"), ("sofa", "1")]] := by decide +kernel
example : ((saveXmi K demoTS' [casR] 0 hpL).toOption.map (fun r => (r.1.filter (·.ty == "x.Tok")).map (·.attrs))) =
    some [[("xmi:id", "2"), ("n", "7"), ("next", "3"), ("begin", "0"), ("end", "4"), ("sofa", "1")],
          [("xmi:id", "3"), ("next", "2"), ("begin", "4"), ("end", "5"), ("sofa", "1")]] := by decide +kernel

end Cassis.OffsetsDoc.Demo
