/-
C09, document level (2): which exception the traversal raises.

On a heap whose reachable structures are all `Expandable` (existing, of a registered type, with references that can
be enumerated) an iteration can only fail with `ValueError` — the duplicate report, or the missing id when id
generation is switched off — and the loop never runs out of its budget.  Together with `IdsWrite1`: a reachable
duplicate makes `findAllFs` return exactly `.error .valueError`.
-/
import CassisModel.Proofs.IdsWrite1

namespace Cassis.Traverse
open Cassis.TS

theorem stepCore_error_value (K : Consts) (ts : TypeSystem) (o : Opts) (hp0 : Heap) (lf : Nat) (s : St) (a : Nat)
    (rest : List Nat) (x : Int) (ty : String) (hslot : ∀ b n, slot s.heap b n = slot hp0 b n)
    (t : TypeRec) (r : List Nat × Nat) (ht : getType ts ty = .ok t) (hn : nodeSuccs K ts o hp0 [] lf a t = .ok r)
    (e : Err) (h : stepCore K ts o lf s a rest x ty = .error e) : e = .valueError := by
  unfold stepCore at h
  rw [ht] at h
  simp only [nodeSuccs_filter K ts o s.heap hp0 hslot _ lf a t, hn, filt] at h
  repeat' split at h
  all_goals first
    | (cases h; done)
    | (cases h; rfl)

theorem step_error_value (K : Consts) (ts : TypeSystem) (o : Opts) (hp0 : Heap) (lf : Nat) (s : St) (a : Nat)
    (rest : List Nat) (sh : SameShape hp0 s.heap) (hpos : 0 < s.nextXid) (hexp : Expandable K ts o hp0 lf a)
    (e : Err) (h : step K ts o lf s a rest = .error e) : e = .valueError := by
  obtain ⟨ob0, hob0, hcase⟩ := hexp
  obtain ⟨ob, hob, hty, _, hxid⟩ := sh.2 a ob0 hob0
  have hslot : ∀ b n, slot s.heap b n = slot hp0 b n := fun b n => sh.slot b n
  cases hx : ob.xid with
  | some x =>
    rw [step_some K ts o lf s a rest ob x hob hx] at h
    rcases hcase with h0 | ⟨t, r, ht, hn⟩
    · have := hxid (by rw [h0]; exact fun e => nomatch e)
      rw [h0, hx] at this
      cases this
      unfold stepCore at h
      simp at h
    · exact stepCore_error_value K ts o hp0 lf s a rest x ob.ty hslot t r (by rw [hty]; exact ht) hn e h
  | none =>
    rw [step_none K ts o lf s a rest ob hob hx (by omega)] at h
    split at h
    · rcases hcase with h0 | ⟨t, r, ht, hn⟩
      · have := hxid (by rw [h0]; exact fun e => nomatch e)
        rw [h0, hx] at this
        cases this
      · refine stepCore_error_value K ts o hp0 lf _ a rest _ ob.ty ?_ t r (by rw [hty]; exact ht) hn e h
        intro b n
        exact (slot_set_xid hob _ b n).trans (hslot b n)
    · cases h
      rfl

theorem run_error_value (K : Consts) (ts : TypeSystem) (o : Opts) (hp0 : Heap) (n0 : Nat) (seeds : List Nat)
    (hsafe : ∀ c, Reach K ts o hp0 (hp0.length + 1) seeds c → Expandable K ts o hp0 (hp0.length + 1) c)
    (f : Nat) (s : St) (inv : Inv K ts o hp0 (hp0.length + 1) n0 s) (r : RInv K ts o hp0 (hp0.length + 1) seeds s)
    (hf : n0 + totalOut K ts o hp0 (hp0.length + 1) ≤ f + s.pops)
    (e : Err) (h : run K ts o (hp0.length + 1) f s = .error e) : e = .valueError := by
  induction f generalizing s with
  | zero =>
    unfold run at h
    have h1 := inv.count
    have h2 := inv.pot
    have : s.openl.length = 0 := by omega
    have : s.openl = [] := List.eq_nil_of_length_eq_zero this
    rw [this] at h
    cases h
  | succ f ih =>
    unfold run at h
    split at h
    · cases h
    · rename_i a rest ho
      cases hs : step K ts o (hp0.length + 1) s a rest with
      | error e' =>
        rw [hs] at h
        cases h
        have hra : Reach K ts o s.heap (hp0.length + 1) seeds a := r.sound a (Or.inr (by rw [ho]; exact List.mem_cons_self))
        exact step_error_value K ts o hp0 _ s a rest inv.shape r.pos (hsafe a (Reach.back inv.shape hra)) e hs
      | ok s1 =>
        rw [hs] at h
        obtain ⟨inv1, hp1⟩ := inv_step K ts o hp0 _ n0 s a rest s1 ho inv hs
        exact ih s1 inv1 (rinv_step K ts o hp0 _ n0 seeds s a rest s1 ho inv r hs) (by rw [hp1]; omega) h

/-- on a heap whose reachable structures can all be visited, the only exception of the traversal is `ValueError` -/
theorem findAllFs_error_value_aux (K : Consts) (ts : TypeSystem) (o : Opts) (hp : Heap) (nx : Int) (seeds : List Nat)
    (hnx : 0 < nx)
    (hsafe : ∀ c, Reach K ts o hp (hp.length + 1) seeds c → Expandable K ts o hp (hp.length + 1) c)
    (e : Err) (h : findAllFs K ts o hp nx seeds = .error e) : e = .valueError :=
  run_error_value K ts o hp seeds.length seeds hsafe _ _ (inv_init K ts o hp _ nx seeds)
    (rinv_init K ts o hp _ nx seeds hnx) (Nat.le_refl _) e h

theorem findAllFs_duplicate_raises_aux (K : Consts) (ts : TypeSystem) (o : Opts) (hp : Heap) (nx : Int)
    (seeds : List Nat) (hnx : 0 < nx) (hd : ReachableDuplicate K ts o hp seeds)
    (hsafe : ∀ c, Reach K ts o hp (hp.length + 1) seeds c → Expandable K ts o hp (hp.length + 1) c) :
    findAllFs K ts o hp nx seeds = .error .valueError := by
  cases h : findAllFs K ts o hp nx seeds with
  | ok st => exact absurd h (findAllFs_duplicate_not_ok_aux K ts o hp nx seeds hnx hd st)
  | error e => rw [findAllFs_error_value_aux K ts o hp nx seeds hnx hsafe e h]

end Cassis.Traverse
