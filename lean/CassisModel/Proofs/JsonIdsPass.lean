/-
Helper lemmas for `Properties/C09DocJson.lean`, part 2: the two parsing passes (`sofaPass`, `fsPass`).
-/
import CassisModel.Proofs.JsonIds

namespace Cassis.Json.Ids
open Cassis.TS Cassis.Lex Cassis.Xmi

/-! ### reflexive-transitive relations carried through the passes -/

structure StepRelP (K : Consts) (ts : TypeSystem) (tsIdx ci : Nat) (P : JFs → Prop) (R : RState → RState → Prop) :
    Prop where
  refl : ∀ s, R s s
  trans : ∀ a b c, R a b → R b c → R a c
  sofa : ∀ s s' j, parseSofa ci s j = .ok s' → R s s'
  fs : ∀ s s' j, P j → parseFs K ts tsIdx s j = .ok s' → R s s'

/-- a relation every step keeps, whatever the element -/
structure StepRel (K : Consts) (ts : TypeSystem) (tsIdx ci : Nat) (R : RState → RState → Prop) : Prop where
  refl : ∀ s, R s s
  trans : ∀ a b c, R a b → R b c → R a c
  sofa : ∀ s s' j, parseSofa ci s j = .ok s' → R s s'
  fs : ∀ s s' j, parseFs K ts tsIdx s j = .ok s' → R s s'

theorem StepRel.toP {K : Consts} {ts : TypeSystem} {tsIdx ci : Nat} {R : RState → RState → Prop}
    (h : StepRel K ts tsIdx ci R) : StepRelP K ts tsIdx ci (fun _ => True) R :=
  ⟨h.refl, h.trans, h.sofa, fun s s' j _ hj => h.fs s s' j hj⟩

theorem parseById_relP {K : Consts} {ts : TypeSystem} {tsIdx ci : Nat} {P : JFs → Prop} {R : RState → RState → Prop}
    (hR : StepRelP K ts tsIdx ci P R) (i : Int) (l : List JFs) (hl : ∀ j ∈ l, P j) :
    ∀ s r, parseById K ts tsIdx i l s = .ok r → R s r := by
  induction l with
  | nil => intro s r h; rw [parseById] at h; cases h; exact hR.refl _
  | cons j rest ih =>
    intro s r h
    rw [parseById] at h
    split at h
    · split at h
      · cases h
      · rename_i s1 h1
        exact hR.trans _ _ _ (hR.fs _ _ _ (hl j List.mem_cons_self) h1)
          (ih (fun x hx => hl x (List.mem_cons_of_mem _ hx)) _ _ h)
    · exact ih (fun x hx => hl x (List.mem_cons_of_mem _ hx)) _ _ h

/-- one step of the sofa pass: an optional `parseById`, then `parseSofa` -/
theorem sofaPass_cons_ok {K : Consts} {ts : TypeSystem} {tsIdx ci : Nat} {all : List JFs} {j : JFs} {rest : List JFs}
    {s r : RState} (hty : j.ty = SOFA) (h : sofaPass K ts tsIdx ci all (j :: rest) s = .ok r) :
    ∃ s1 s2, (s1 = s ∨ ∃ i, parseById K ts tsIdx i all s = .ok s1) ∧ parseSofa ci s1 j = .ok s2 ∧
      sofaPass K ts tsIdx ci all rest s2 = .ok r := by
  rw [sofaPass] at h
  have : (j.ty == SOFA) = true := by rw [hty]; exact beq_self_eq_true _
  rw [if_pos this] at h
  dsimp only at h
  split at h
  · cases h
  · rename_i s1 h1
    split at h
    · cases h
    · rename_i s2 h2
      refine ⟨s1, s2, ?_, h2, h⟩
      split at h1
      · split at h1
        · rename_i i _ _
          exact Or.inr ⟨i, h1⟩
        · cases h1; exact Or.inl rfl
      · cases h1; exact Or.inl rfl

theorem sofaPass_cons_skip {K : Consts} {ts : TypeSystem} {tsIdx ci : Nat} {all : List JFs} {j : JFs} {rest : List JFs}
    {s : RState} (hty : j.ty ≠ SOFA) :
    sofaPass K ts tsIdx ci all (j :: rest) s = sofaPass K ts tsIdx ci all rest s := by
  rw [sofaPass]
  have : (j.ty == SOFA) = false := by simpa using hty
  rw [this]
  rfl

theorem sofaPass_relP {K : Consts} {ts : TypeSystem} {tsIdx ci : Nat} {P : JFs → Prop} {R : RState → RState → Prop}
    (hR : StepRelP K ts tsIdx ci P R) (all : List JFs) (hall : ∀ j ∈ all, P j) (l : List JFs) :
    ∀ s r, sofaPass K ts tsIdx ci all l s = .ok r → R s r := by
  induction l with
  | nil => intro s r h; rw [sofaPass] at h; cases h; exact hR.refl _
  | cons j rest ih =>
    intro s r h
    by_cases hty : j.ty = SOFA
    · obtain ⟨s1, s2, h1, h2, h3⟩ := sofaPass_cons_ok hty h
      have r1 : R s s1 := by
        rcases h1 with rfl | ⟨i, h1⟩
        · exact hR.refl _
        · exact parseById_relP hR i all hall _ _ h1
      exact hR.trans _ _ _ r1 (hR.trans _ _ _ (hR.sofa _ _ _ h2) (ih _ _ h3))
    · rw [sofaPass_cons_skip hty] at h
      exact ih _ _ h

theorem sofaPass_rel {K : Consts} {ts : TypeSystem} {tsIdx ci : Nat} {R : RState → RState → Prop}
    (hR : StepRel K ts tsIdx ci R) (all : List JFs) (l : List JFs) :
    ∀ s r, sofaPass K ts tsIdx ci all l s = .ok r → R s r :=
  sofaPass_relP hR.toP all (fun _ _ => trivial) l

theorem fsPass_cons_ok {K : Consts} {ts : TypeSystem} {tsIdx : Nat} {j : JFs} {rest : List JFs}
    {s r : RState} (hty : j.ty ≠ SOFA) (h : fsPass K ts tsIdx (j :: rest) s = .ok r) :
    ∃ s1, parseFs K ts tsIdx s j = .ok s1 ∧ fsPass K ts tsIdx rest s1 = .ok r := by
  rw [fsPass] at h
  have : (j.ty != SOFA) = true := by simpa using hty
  rw [if_pos this] at h
  split at h
  · cases h
  · rename_i s1 h1
    exact ⟨s1, h1, h⟩

theorem fsPass_cons_skip {K : Consts} {ts : TypeSystem} {tsIdx : Nat} {j : JFs} {rest : List JFs}
    {s : RState} (hty : j.ty = SOFA) : fsPass K ts tsIdx (j :: rest) s = fsPass K ts tsIdx rest s := by
  rw [fsPass]
  have : (j.ty != SOFA) = false := by rw [hty]; simp
  rw [this]
  rfl

theorem fsPass_relP {K : Consts} {ts : TypeSystem} {tsIdx ci : Nat} {P : JFs → Prop} {R : RState → RState → Prop}
    (hR : StepRelP K ts tsIdx ci P R) (l : List JFs) (hl : ∀ j ∈ l, P j) :
    ∀ s r, fsPass K ts tsIdx l s = .ok r → R s r := by
  induction l with
  | nil => intro s r h; rw [fsPass] at h; cases h; exact hR.refl _
  | cons j rest ih =>
    intro s r h
    by_cases hty : j.ty = SOFA
    · rw [fsPass_cons_skip hty] at h
      exact ih (fun x hx => hl x (List.mem_cons_of_mem _ hx)) _ _ h
    · obtain ⟨s1, h1, h2⟩ := fsPass_cons_ok hty h
      exact hR.trans _ _ _ (hR.fs _ _ _ (hl j List.mem_cons_self) h1)
        (ih (fun x hx => hl x (List.mem_cons_of_mem _ hx)) _ _ h2)

theorem fsPass_rel {K : Consts} {ts : TypeSystem} {tsIdx ci : Nat} {R : RState → RState → Prop}
    (hR : StepRel K ts tsIdx ci R) (l : List JFs) :
    ∀ s r, fsPass K ts tsIdx l s = .ok r → R s r :=
  fsPass_relP hR.toP l (fun _ _ => trivial)

/-! ### the bounds -/

def RB (s r : RState) : Prop := (JBounded s → JBounded r) ∧ s.maxId ≤ r.maxId ∧ s.maxNum ≤ r.maxNum

theorem RB.stepRel (K : Consts) (ts : TypeSystem) (tsIdx ci : Nat) : StepRel K ts tsIdx ci RB where
  refl := fun _ => ⟨fun h => h, Int.le_refl _, Int.le_refl _⟩
  trans := fun _ _ _ x y => ⟨fun h => y.1 (x.1 h), Int.le_trans x.2.1 y.2.1, Int.le_trans x.2.2 y.2.2⟩
  sofa := by
    intro s s' j h
    obtain ⟨fsId, name, w, _, _, hfss, _, _, hw, hwx, hoth, hmi, hmn⟩ := parseSofa_res ci s s' j h
    refine ⟨?_, by rw [hmi]; exact Int.le_max_left _ _, by rw [hmn]; exact Int.le_max_left _ _⟩
    intro hb
    have hname : ∃ v : View, Cas.getViewRec s'.cas name = some v ∧ v.sofa.xid ≤ s'.maxId ∧
        v.sofa.sofaNum ≤ s'.maxNum :=
      ⟨w, hw, by rw [hmi]; exact Int.le_max_right _ _, by rw [hmn]; exact Int.le_max_right _ _⟩
    refine ⟨?_, ?_⟩
    · intro q hq
      rw [hfss] at hq
      rw [hmi]
      rcases mem_setFs hq with hq | rfl
      · exact Int.le_trans (hb.1 q hq) (Int.le_max_left _ _)
      · exact Int.le_max_right _ _
    · intro q hq cI vn hqv
      rw [hfss] at hq
      by_cases hvn : vn = name
      · rw [hvn]; exact hname
      · rcases mem_setFs hq with hq | rfl
        · obtain ⟨v, hv, b1, b2⟩ := hb.2 q hq cI vn hqv
          refine ⟨v, (hoth vn hvn).trans hv, ?_, ?_⟩
          · rw [hmi]; exact Int.le_trans b1 (Int.le_max_left _ _)
          · rw [hmn]; exact Int.le_trans b2 (Int.le_max_left _ _)
        · cases hqv
          exact absurd rfl hvn
  fs := by
    intro s s' j h
    obtain ⟨fsId, _, hfss, hcas, hmi, hmn, _⟩ := parseFs_res K ts tsIdx s s' j h
    refine ⟨?_, by rw [hmi]; exact Int.le_max_left _ _, by rw [hmn]; exact Int.le_refl _⟩
    intro hb
    refine ⟨?_, ?_⟩
    · intro q hq
      rw [hfss] at hq
      rw [hmi]
      rcases mem_setFs hq with hq | rfl
      · exact Int.le_trans (hb.1 q hq) (Int.le_max_left _ _)
      · exact Int.le_max_right _ _
    · intro q hq cI vn hqv
      rw [hfss] at hq
      rcases mem_setFs hq with hq | rfl
      · obtain ⟨v, hv, b1, b2⟩ := hb.2 q hq cI vn hqv
        refine ⟨v, by rw [hcas]; exact hv, ?_, ?_⟩
        · rw [hmi]; exact Int.le_trans b1 (Int.le_max_left _ _)
        · rw [hmn]; exact b2
      · cases hqv

/-! ### the heap -/

def RH (n : Nat) (s r : RState) : Prop :=
  FssVals s.fss → (FssVals r.fss ∧ (FssIds s.fss s.heap → FssIds r.fss r.heap) ∧
    (NewB n s.heap s.maxId → NewB n r.heap r.maxId))

theorem RH.stepRel (K : Consts) (ts : TypeSystem) (tsIdx ci : Nat) (n : Nat) : StepRel K ts tsIdx ci (RH n) where
  refl := fun _ hv => ⟨hv, fun h => h, fun h => h⟩
  trans := by
    intro a b c x y hv
    obtain ⟨hv1, i1, n1⟩ := x hv
    obtain ⟨hv2, i2, n2⟩ := y hv1
    exact ⟨hv2, fun h => i2 (i1 h), fun h => n2 (n1 h)⟩
  sofa := by
    intro s s' j h hv
    obtain ⟨fsId, name, w, _, _, hfss, hheap, _, _, _, _, hmi, _⟩ := parseSofa_res ci s s' j h
    refine ⟨?_, ?_, ?_⟩
    · rw [hfss]; exact fssVals_setFs hv _ _ (Or.inr ⟨ci, name, rfl⟩)
    · intro hi q hq a hqa
      rw [hfss] at hq
      rw [hheap]
      rcases mem_setFs hq with hq | rfl
      · exact hi q hq a hqa
      · cases hqa
    · intro hn a o x hl ho hx
      rw [hheap] at ho
      rw [hmi]
      exact Int.le_trans (hn a o x hl ho hx) (Int.le_max_left _ _)
  fs := by
    intro s s' j h hv
    obtain ⟨fsId, _, hfss, _, hmi, _, hheap⟩ := parseFs_res K ts tsIdx s s' j h
    obtain ⟨o, hox, hX⟩ := hheap hv
    refine ⟨?_, ?_, ?_⟩
    · rw [hfss]; exact fssVals_setFs hv _ _ (Or.inl ⟨_, rfl⟩)
    · intro hi q hq a hqa
      rw [hfss] at hq
      rcases mem_setFs hq with hq | rfl
      · obtain ⟨o0, ho0, hx0⟩ := hi q hq a hqa
        obtain ⟨o', ho', hx'⟩ := hX.2 a o0 (snoc_old ho0)
        exact ⟨o', ho', hx'.trans hx0⟩
      · cases hqa
        obtain ⟨o', ho', hx'⟩ := hX.2 s.heap.length o (getElem?_snoc_length s.heap o)
        exact ⟨o', ho', hx'.trans hox⟩
    · intro hn a o' x hl ho' hx
      rw [hmi]
      obtain ⟨o2, ho2, hx2⟩ := hX.back ho'
      rw [hx] at hx2
      rcases Nat.lt_or_ge a s.heap.length with hlt | hge
      · rw [List.getElem?_append_left hlt] at ho2
        exact Int.le_trans (hn a o2 x hl ho2 hx2) (Int.le_max_left _ _)
      · have hlen : (s.heap ++ [o]).length = s.heap.length + 1 := by rw [List.length_append]; rfl
        have hlt := (List.getElem?_eq_some_iff.mp ho2).1
        have : a = s.heap.length := by omega
        subst this
        rw [getElem?_snoc_length] at ho2
        cases ho2
        rw [hox] at hx2
        cases hx2
        exact Int.le_max_right _ _

/-! ### registered ids and the views of the sofas -/

def RK (s r : RState) : Prop :=
  (∀ i, i ∈ s.fss.map (·.1) → i ∈ r.fss.map (·.1)) ∧
  (∀ n, VB s.maxId s.maxNum s.cas n → VB r.maxId r.maxNum r.cas n)

theorem RK.stepRel (K : Consts) (ts : TypeSystem) (tsIdx ci : Nat) : StepRel K ts tsIdx ci RK where
  refl := fun _ => ⟨fun _ h => h, fun _ h => h⟩
  trans := fun _ _ _ x y => ⟨fun i h => y.1 i (x.1 i h), fun n h => y.2 n (x.2 n h)⟩
  sofa := by
    intro s s' j h
    obtain ⟨fsId, name, w, _, _, hfss, _, _, hw, hwx, hoth, hmi, hmn⟩ := parseSofa_res ci s s' j h
    refine ⟨?_, ?_⟩
    · intro i hi
      rw [hfss]
      exact setFs_keys _ _ _ _ hi
    · intro n hn
      by_cases hnn : n = name
      · rw [hnn]
        exact ⟨w, hw, by rw [hmi]; exact Int.le_max_right _ _, by rw [hmn]; exact Int.le_max_right _ _⟩
      · obtain ⟨v, hv, b1, b2⟩ := hn
        refine ⟨v, (hoth n hnn).trans hv, ?_, ?_⟩
        · rw [hmi]; exact Int.le_trans b1 (Int.le_max_left _ _)
        · rw [hmn]; exact Int.le_trans b2 (Int.le_max_left _ _)
  fs := by
    intro s s' j h
    obtain ⟨fsId, _, hfss, hcas, hmi, hmn, _⟩ := parseFs_res K ts tsIdx s s' j h
    refine ⟨?_, ?_⟩
    · intro i hi
      rw [hfss]
      exact setFs_keys _ _ _ _ hi
    · intro n hn
      obtain ⟨v, hv, b1, b2⟩ := hn
      refine ⟨v, by rw [hcas]; exact hv, ?_, ?_⟩
      · rw [hmi]; exact Int.le_trans b1 (Int.le_max_left _ _)
      · rw [hmn]; exact b2

theorem setFs_key_self (l : List (Int × Val)) (k : Int) (v : Val) : k ∈ (setFs l k v).map (·.1) :=
  List.mem_map.mpr ⟨(k, v), setFs_self l k v, rfl⟩

/-- the view of every sofa element the sofa pass went over is bounded -/
theorem sofaPass_doc (K : Consts) (ts : TypeSystem) (tsIdx ci : Nat) (all : List JFs) (l : List JFs) :
    ∀ s r, sofaPass K ts tsIdx ci all l s = .ok r →
      ∀ j ∈ l, j.ty = SOFA → ∃ (i : Int) (n : String), j.id = some i ∧ sofaIdOf j = some n ∧
        VB r.maxId r.maxNum r.cas n := by
  induction l with
  | nil => intro s r _ j hj; cases hj
  | cons j0 rest ih =>
    intro s r h j hj hty
    by_cases hty0 : j0.ty = SOFA
    · obtain ⟨s1, s2, _, h2, h3⟩ := sofaPass_cons_ok hty0 h
      rcases List.mem_cons.mp hj with rfl | hj
      · obtain ⟨fsId, name, w, hid, hnm, hfss, _, _, hw, hwx, _, hmi, hmn⟩ := parseSofa_res ci s1 s2 j h2
        have hk := sofaPass_rel (RK.stepRel K ts tsIdx ci) all rest s2 r h3
        refine ⟨fsId, name, hid, hnm, hk.2 _ ?_⟩
        exact ⟨w, hw, by rw [hmi]; exact Int.le_max_right _ _, by rw [hmn]; exact Int.le_max_right _ _⟩
      · exact ih s2 r h3 j hj hty
    · rw [sofaPass_cons_skip hty0] at h
      rcases List.mem_cons.mp hj with rfl | hj
      · exact absurd hty hty0
      · exact ih s r h j hj hty

/-! ### distinct sofa names: every sofa element is registered under its own id -/

theorem parseById_cas {K : Consts} {ts : TypeSystem} {tsIdx : Nat} (i : Int) (l : List JFs) :
    ∀ s r, parseById K ts tsIdx i l s = .ok r → r.cas = s.cas := by
  induction l with
  | nil => intro s r h; rw [parseById] at h; cases h; rfl
  | cons j rest ih =>
    intro s r h
    rw [parseById] at h
    split at h
    · split at h
      · cases h
      · rename_i s1 h1
        obtain ⟨_, _, _, hcas, _⟩ := parseFs_res K ts tsIdx s s1 j h1
        exact (ih _ _ h).trans hcas
    · exact ih _ _ h

/-- under `SofaNamesDistinct`, as long as no view other than the initial one that a sofa element of the list names
    exists yet, every sofa element is registered under its own id -/
theorem sofaPass_doc_distinct (K : Consts) (ts : TypeSystem) (tsIdx ci : Nat) (all : List JFs) (l : List JFs) :
    ∀ s r, sofaPass K ts tsIdx ci all l s = .ok r → SofaNamesDistinct l →
      (∀ j ∈ l, j.ty = SOFA → ∀ n, sofaIdOf j = some n → n ≠ Cas.INITIAL_VIEW → Cas.getViewRec s.cas n = none) →
      ∀ j ∈ l, j.ty = SOFA → ∃ i : Int, j.id = some i ∧ i ∈ r.fss.map (·.1) := by
  induction l with
  | nil => intro s r _ _ _ j hj; cases hj
  | cons j0 rest ih =>
    intro s r h hd hnew j hj hty
    have hd' := List.pairwise_cons.mp hd
    by_cases hty0 : j0.ty = SOFA
    · obtain ⟨s1, s2, h1, h2, h3⟩ := sofaPass_cons_ok hty0 h
      have hc1 : s1.cas = s.cas := by
        rcases h1 with rfl | ⟨i, h1⟩
        · rfl
        · exact parseById_cas i all _ _ h1
      obtain ⟨fsId, name, w, hid, hnm, hfss, _, _, hw, hwx, hoth, _, _⟩ := parseSofa_res ci s1 s2 j0 h2
      rcases List.mem_cons.mp hj with rfl | hj
      · have hk := sofaPass_rel (RK.stepRel K ts tsIdx ci) all rest s2 r h3
        refine ⟨fsId, hid, hk.1 _ ?_⟩
        rcases hwx with hwx | ⟨hni, v0, hv0, _, _⟩
        · rw [hfss, hwx]; exact setFs_key_self _ _ _
        · rw [hc1, hnew j List.mem_cons_self hty name hnm hni] at hv0
          cases hv0
      · refine ih s2 r h3 hd'.2 ?_ j hj hty
        intro j' hj' hty' n hn' hni'
        have hne : n ≠ name := by
          intro e
          subst e
          exact hni' (hd'.1 j' hj' hty0 hty' n hnm hn')
        rw [hoth n hne, hc1]
        exact hnew j' (List.mem_cons_of_mem _ hj') hty' n hn' hni'
    · rw [sofaPass_cons_skip hty0] at h
      rcases List.mem_cons.mp hj with rfl | hj
      · exact absurd hty hty0
      · exact ih s r h hd'.2 (fun j' hj' => hnew j' (List.mem_cons_of_mem _ hj')) j hj hty

/-- every other element the structure pass went over is registered -/
theorem fsPass_doc (K : Consts) (ts : TypeSystem) (tsIdx ci : Nat) (l : List JFs) :
    ∀ s r, fsPass K ts tsIdx l s = .ok r →
      ∀ j ∈ l, j.ty ≠ SOFA → ∃ i : Int, j.id = some i ∧ i ∈ r.fss.map (·.1) := by
  induction l with
  | nil => intro s r _ j hj; cases hj
  | cons j0 rest ih =>
    intro s r h j hj hty
    by_cases hty0 : j0.ty = SOFA
    · rw [fsPass_cons_skip hty0] at h
      rcases List.mem_cons.mp hj with rfl | hj
      · exact absurd hty0 hty
      · exact ih s r h j hj hty
    · obtain ⟨s1, h1, h2⟩ := fsPass_cons_ok hty0 h
      rcases List.mem_cons.mp hj with rfl | hj
      · obtain ⟨fsId, hid, hfss, _⟩ := parseFs_res K ts tsIdx s s1 j h1
        have hk := fsPass_rel (RK.stepRel K ts tsIdx ci) rest s1 r h2
        exact ⟨fsId, hid, hk.1 _ (by rw [hfss]; exact setFs_key_self _ _ _)⟩
      · exact ih s1 r h2 j hj hty

end Cassis.Json.Ids
