/-
The anchor text taken apart: short type name, offsets, index mark, view.
-/
import CassisModel.Proofs.ComparableSensSkel

namespace Cassis.Comparable
open Cassis.TS Cassis.Traverse Cassis.Lex

def viewPart (cass : List Cas) (hp : Heap) (a : Nat) : Except Err String :=
  match slot hp a "sofa" with
  | none => .ok ""
  | some (.sofa ci vn) =>
    match cass[ci]? with
    | some c => match Cas.getViewRec c vn with
      | some v => .ok ("@" ++ v.sofa.sofaID)
      | none => .error .keyError
    | none => .error .keyError
  | some _ => .error .attributeError

def offPart (hp : Heap) (a : Nat) : String :=
  if isAnnot hp a then "[" ++ Lex.showInt (beginOf hp a) ++ "-" ++ Lex.showInt (endOf hp a) ++ "]" else ""

def markPart (indexed : List Nat) (o : Opts) (a : Nat) : String :=
  if o.markIndexed && indexed.contains a then "*" else ""

theorem anchorOf_eq (cass : List Cas) (hp : Heap) (indexed : List Nat) (o : Opts) (a : Nat) :
    anchorOf cass hp indexed o a =
      match viewPart cass hp a with
      | .error e => .error e
      | .ok view => .ok (shortName (tyOf hp a) ++ offPart hp a ++ markPart indexed o a ++ view) := by
  unfold anchorOf viewPart offPart markPart
  simp only [bind, Except.bind, pure, Except.pure, throw, throwThe, MonadExceptOf.throw]
  cases slot hp a "sofa" with
  | none => rfl
  | some v =>
    cases v with
    | sofa ci vn =>
      simp only []
      cases cass[ci]? with
      | none => rfl
      | some c =>
        simp only []
        cases Cas.getViewRec c vn with
        | none => rfl
        | some v => rfl
    | _ => rfl

theorem anchorOf_ok {cass : List Cas} {hp : Heap} {indexed : List Nat} {o : Opts} {a : Nat} {s : String}
    (h : anchorOf cass hp indexed o a = .ok s) :
    ∃ view, viewPart cass hp a = .ok view ∧
      s = shortName (tyOf hp a) ++ offPart hp a ++ markPart indexed o a ++ view := by
  rw [anchorOf_eq] at h
  cases hv : viewPart cass hp a with
  | error e => rw [hv] at h; cases h
  | ok view =>
    rw [hv] at h
    exact ⟨view, rfl, (Except.ok.inj h).symm⟩

/-- the view part is empty or `@` + sofaID -/
theorem viewPart_shape {cass : List Cas} {hp : Heap} {a : Nat} {view : String} (h : viewPart cass hp a = .ok view) :
    view = "" ∨ ∃ sid : String, view = "@" ++ sid := by
  unfold viewPart at h
  split at h
  · exact Or.inl (Except.ok.inj h).symm
  · split at h
    · split at h
      · exact Or.inr ⟨_, (Except.ok.inj h).symm⟩
      · cases h
    · cases h
  · cases h

theorem viewPart_sofa {cass : List Cas} {hp : Heap} {a ci : Nat} {vn : String} {c : Cas} {v : View}
    (hs : slot hp a "sofa" = some (.sofa ci vn)) (hc : cass[ci]? = some c) (hv : Cas.getViewRec c vn = some v) :
    viewPart cass hp a = .ok ("@" ++ v.sofa.sofaID) := by
  unfold viewPart
  simp only [hs, hc, hv]

theorem offPart_annot {hp : Heap} {a : Nat} (h : isAnnot hp a = true) :
    (offPart hp a).toList = '[' :: (showIntL (beginOf hp a) ++ '-' :: (showIntL (endOf hp a) ++ [']'])) := by
  unfold offPart
  simp only [h, if_true, String.toList_append, showInt, String.toList_ofList]
  have e1 : ("[" : String).toList = ['['] := rfl
  have e2 : ("-" : String).toList = ['-'] := rfl
  have e3 : ("]" : String).toList = [']'] := rfl
  rw [e1, e2, e3]
  simp only [List.append_assoc, List.cons_append, List.nil_append]

/-- the character list of the anchor text of a structure with offsets -/
theorem anchor_annot_toList {cass : List Cas} {hp : Heap} {indexed : List Nat} {o : Opts} {a : Nat} {s : String}
    (hann : isAnnot hp a = true) (h : anchorOf cass hp indexed o a = .ok s) :
    ∃ rest, s.toList = (shortName (tyOf hp a)).toList ++
      '[' :: (showIntL (beginOf hp a) ++ '-' :: (showIntL (endOf hp a) ++ ']' :: rest)) := by
  obtain ⟨view, _, hs⟩ := anchorOf_ok h
  refine ⟨(markPart indexed o a).toList ++ view.toList, ?_⟩
  rw [hs]
  simp only [String.toList_append, offPart_annot hann, List.append_assoc, List.cons_append, List.nil_append]

theorem noParenEnd_of_sofa (pre sid : String) (h : NoParenEnd sid) : NoParenEnd (pre ++ ("@" ++ sid)) := by
  unfold NoParenEnd at h ⊢
  simp only [String.toList_append]
  change (pre.toList ++ ('@' :: sid.toList)).getLast? ≠ some ')'
  cases hs : sid.toList with
  | nil =>
    rw [show pre.toList ++ ['@'] = pre.toList ++ ['@'] from rfl, List.getLast?_concat]
    decide
  | cons c cs =>
    rw [hs] at h
    rw [List.getLast?_append]
    have : ('@' :: c :: cs).getLast? = (c :: cs).getLast? := by simp [List.getLast?_cons_cons]
    rw [this]
    cases hl : (c :: cs).getLast? with
    | none => simp at hl
    | some d =>
      rw [hl] at h
      simpa using h

/-- a structure that has a sofa whose id does not end in `)` has a plain anchor text -/
theorem anchorPlain_of_sofa {cass : List Cas} {hp : Heap} {indexed : List Nat} {o : Opts} {a ci : Nat} {vn : String}
    {c : Cas} {v : View} (hs : slot hp a "sofa" = some (.sofa ci vn)) (hc : cass[ci]? = some c)
    (hv : Cas.getViewRec c vn = some v) (hp' : NoParenEnd v.sofa.sofaID) : AnchorPlain cass hp indexed o a := by
  intro s h
  obtain ⟨view, h1, h2⟩ := anchorOf_ok h
  rw [viewPart_sofa hs hc hv] at h1
  cases h1
  rw [h2]
  exact noParenEnd_of_sofa _ _ hp'

end Cassis.Comparable
