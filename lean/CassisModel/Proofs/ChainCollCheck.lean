/-
Soundness of the computable test `chainCollAppliesB` (`Spec/ChainCollCheck.lean`) for the hypotheses of
`chain_xmi_json_coll` (`Properties/C16ChainColl.lean.proposed`), in particular of `collTypesOkB` for `CollTypesOk`
(`Spec/ChainCollFrag.lean`).
-/
import CassisModel.Spec.ChainCollCheck
import CassisModel.Proofs.RoundTripCollCheck
import CassisModel.Proofs.RoundTripJsonCollCheck

namespace Cassis.Json
open Cassis.TS Cassis.Traverse Cassis.Xmi

theorem refRangeB_sound {K : Consts} {ts : TypeSystem} {f : Feature} (h : refRangeB K ts f = true) : RefRange K ts f := by
  unfold refRangeB at h
  simp only [Bool.and_eq_true, Bool.not_eq_true', decide_eq_true_eq] at h
  exact ⟨h.1.1.1, h.1.1.2, h.1.2, h.2⟩

theorem arrTyOkB_sound {ts : TypeSystem} {n : String} (h : arrTyOkB ts n = true) : ArrTyOk ts n := by
  unfold arrTyOkB at h
  cases hf : find? ts n with
  | none => rw [hf] at h; cases h
  | some t =>
    rw [hf] at h
    dsimp only at h
    cases hall : allFeatures t with
    | nil => rw [hall] at h; cases h
    | cons f rest =>
      cases rest with
      | cons g r => rw [hall] at h; cases h
      | nil =>
        rw [hall] at h
        simp only [Bool.and_eq_true, Bool.not_eq_true', decide_eq_true_eq] at h
        exact ⟨t, f, hf, h.1.1.1.1, h.1.1.1.2, hall, h.1.1.2, h.1.2, h.2⟩

theorem nodeStaticB_sound {K : Consts} {ts : TypeSystem} {n : String} {t : TypeRec} (hf : find? ts n = some t)
    (h : nodeStaticB K ts n t = true) : NodeTyOk K ts n (allFeatures t) := by
  unfold nodeStaticB at h
  simp only [Bool.and_eq_true, Bool.not_eq_true', decide_eq_true_eq] at h
  exact ⟨t, hf, h.1.1.1.1.1.1, rfl, h.1.1.1.1.1.2, h.1.1.1.1.2, h.1.1.1.2, h.1.1.2, h.1.2, h.2⟩

theorem emptyNodeOkB_sound {K : Consts} {ts : TypeSystem} {n : String} (h : emptyNodeOkB K ts n = true) :
    NodeTyOk K ts n [] := by
  unfold emptyNodeOkB at h
  cases hf : find? ts n with
  | none => rw [hf] at h; cases h
  | some t =>
    rw [hf] at h
    simp only [Bool.and_eq_true, List.isEmpty_iff] at h
    have := nodeStaticB_sound hf h.2
    rw [h.1] at this
    exact this

theorem neNodeOkB_sound {K : Consts} {ts : TypeSystem} {n : String} {ph : Feature → Bool} {Ph : Feature → Prop}
    (hph : ∀ f, ph f = true → Ph f) (h : neNodeOkB K ts n ph = true) : NeNodeOk K ts n Ph := by
  unfold neNodeOkB at h
  cases hf : find? ts n with
  | none => rw [hf] at h; cases h
  | some t =>
    rw [hf] at h
    dsimp only at h
    cases hall : allFeatures t with
    | nil => rw [hall] at h; cases h
    | cons fh rest =>
      cases rest with
      | nil => rw [hall] at h; cases h
      | cons ft r =>
        cases r with
        | cons g r' => rw [hall] at h; cases h
        | nil =>
          rw [hall] at h
          simp only [Bool.and_eq_true, decide_eq_true_eq] at h
          obtain ⟨⟨⟨⟨⟨⟨h1, h2⟩, h3⟩, h4⟩, h5⟩, h6⟩, h7⟩ := h
          have := nodeStaticB_sound hf h1
          rw [hall] at this
          exact ⟨fh, ft, this, h2, h3, h4, h5, hph fh h6, refRangeB_sound h7⟩

theorem collTypesOkB_sound (K : Consts) (ts : TypeSystem) (h : collTypesOkB K ts = true) : CollTypesOk K ts := by
  unfold collTypesOkB at h
  simp only [Bool.and_eq_true] at h
  obtain ⟨⟨⟨⟨⟨⟨⟨⟨ha, e1⟩, e2⟩, e3⟩, e4⟩, n1⟩, n2⟩, n3⟩, n4⟩ := h
  have hall := List.all_eq_true.mp ha
  refine
    { arr := ?_, emptyFs := emptyNodeOkB_sound e1, emptyInt := emptyNodeOkB_sound e2, emptyFlt := emptyNodeOkB_sound e3,
      emptyStr := emptyNodeOkB_sound e4, neFs := ?_, neInt := ?_, neFlt := ?_, neStr := ?_ }
  · intro n hn
    apply arrTyOkB_sound
    apply hall
    rcases hn with ((h | h | h) | h | h | (h | h)) | h | h <;> subst h <;> simp [arrTypeNames]
  · refine neNodeOkB_sound (fun f hf => ?_) n1
    simp only [Bool.and_eq_true, Bool.not_eq_true'] at hf
    exact ⟨refRangeB_sound hf.1, hf.2⟩
  · refine neNodeOkB_sound (fun f hf => ?_) n2
    simp only [Bool.and_eq_true] at hf
    exact hf
  · refine neNodeOkB_sound (fun f hf => ?_) n3
    simp only [Bool.and_eq_true, Bool.or_eq_true, decide_eq_true_eq] at hf
    exact hf
  · refine neNodeOkB_sound (fun f hf => ?_) n4
    simp only [Bool.and_eq_true, decide_eq_true_eq] at hf
    exact hf

theorem sofaRangeB_sound {K : Consts} {ts : TypeSystem} {hp : Heap} {a : Nat} (h : sofaRangeB K ts hp a = true) :
    ∀ o t, hp[a]? = some o → find? ts o.ty = some t → ∀ f ∈ allFeatures t,
      f.name = "sofa" → (alistGet? o.slots f.name).getD .none ≠ .none →
      f.range ≠ "uima.cas.Double" ∧ f.range ≠ "uima.cas.Float" ∧ isPrimitive K ts f.range = false := by
  intro o t ho ht f hf hn hne
  unfold sofaRangeB at h
  rw [ho] at h
  dsimp only at h
  rw [ht] at h
  dsimp only at h
  have := List.all_eq_true.mp h f hf
  simp only [Bool.or_eq_true, Bool.and_eq_true, decide_eq_true_eq, Bool.not_eq_true'] at this
  rcases this with (h1 | h1) | h1
  · exact absurd hn h1
  · exact absurd h1 hne
  · exact ⟨h1.1.1, h1.1.2, h1.2⟩

theorem arrElemsSomeB_sound {hp : Heap} {a : Nat} (h : arrElemsSomeB hp a = true) : ArrElemsSome hp a := by
  intro o ho
  unfold arrElemsSomeB at h
  rw [ho] at h
  simpa using h

/-- the test implies every hypothesis of `chain_xmi_json_coll` -/
theorem chainCollAppliesB_hyps (K : Consts) (ts : TypeSystem) (cass : List Cas) (ci : Nat) (hp : Heap)
    (h : chainCollAppliesB K ts cass ci hp = true) :
    ∃ (c : Cas) (doc : XDoc) (st : Traverse.St), cass[ci]? = some c ∧ saveXmi K ts cass ci hp = .ok (doc, st) ∧
      RTWf c hp ∧ NullOk ts ∧ (∀ q ∈ st.allFs, CollFs K ts c ci st.heap q.2) ∧
      (∀ q ∈ st.allFs, JsonFs ts st.heap q.2) ∧
      (∀ q ∈ st.allFs, ∀ o t, st.heap[q.2]? = some o → find? ts o.ty = some t → ∀ f ∈ allFeatures t,
        f.name = "sofa" → (alistGet? o.slots f.name).getD .none ≠ .none →
        f.range ≠ "uima.cas.Double" ∧ f.range ≠ "uima.cas.Float" ∧ isPrimitive K ts f.range = false) ∧
      (∀ q ∈ st.allFs, ∀ nv ∈ c.views, q.1 ≠ nv.2.sofa.xid) ∧
      (∀ nv ∈ c.views, ∀ e ∈ Index.all nv.2.idx, Xmi.slot st.heap e.oid "sofa" ≠ some .none) ∧
      MembersOk c st.heap ∧ (∀ q ∈ st.allFs, ArrElemsSome st.heap q.2) ∧ CollTypesOk K ts := by
  unfold chainCollAppliesB chainBaseB at h
  simp only [Bool.and_eq_true] at h
  obtain ⟨⟨⟨hx, hb⟩, ht⟩, ha⟩ := h
  obtain ⟨c, doc, st, hc, hs, h1, h2, h3, h4, h5, h6⟩ := collAppliesB_hyps K ts cass ci hp hx
  rw [hs] at hb ha
  simp only [List.all_eq_true, Bool.and_eq_true] at hb ha
  exact ⟨c, doc, st, hc, hs, h1, h2, h3, fun q hq => jsonOkB_sound ts st.heap q.2 (hb q hq).1,
    fun q hq => sofaRangeB_sound (hb q hq).2, h4, h5, h6, fun q hq => arrElemsSomeB_sound (ha q hq),
    collTypesOkB_sound K ts ht⟩

/-- the test implies every hypothesis of `chain_json_xmi_coll` -/
theorem chainJXAppliesB_hyps (K : Consts) (ts : TypeSystem) (cass : List Cas) (ci : Nat) (hp : Heap)
    (h : chainJXAppliesB K ts cass ci hp = true) :
    ∃ (c : Cas) (doc : JDoc) (st stx : Traverse.St), cass[ci]? = some c ∧
      saveJson K ts cass ci hp .none = .ok (doc, st) ∧
      findAllFs K ts {} st.heap c.nextXid (defaultSeeds c) = .ok stx ∧ RTWf c hp ∧ NullOk ts ∧
      (∀ q ∈ st.allFs, CollFs K ts c ci st.heap q.2) ∧ (∀ q ∈ st.allFs, JsonFs ts st.heap q.2) ∧
      (∀ q ∈ st.allFs, ArrElemsSome st.heap q.2) ∧
      (∀ nv ∈ c.views, ∀ e ∈ Index.all nv.2.idx, (xidOf hp e.oid).isSome = true) ∧
      (∀ q ∈ st.allFs, ∀ nv ∈ c.views, q.1 ≠ nv.2.sofa.xid) ∧
      (∀ nv ∈ c.views, ∀ e ∈ Index.all nv.2.idx, Xmi.slot st.heap e.oid "sofa" ≠ some .none) ∧
      MembersOk c st.heap := by
  unfold chainJXAppliesB at h
  cases hc : cass[ci]? with
  | none => rw [hc] at h; exact absurd h (by simp)
  | some c =>
    rw [hc] at h
    simp only at h
    cases hs : saveJson K ts cass ci hp .none with
    | error e => rw [hs] at h; exact absurd h (by simp)
    | ok r =>
      obtain ⟨doc, st⟩ := r
      rw [hs] at h
      simp only [Bool.and_eq_true, List.all_eq_true] at h
      obtain ⟨⟨⟨⟨⟨⟨⟨h1, h2⟩, h3⟩, h4⟩, h5⟩, h6⟩, h7⟩, h8⟩ := h
      cases hx : findAllFs K ts {} st.heap c.nextXid (defaultSeeds c) with
      | error e => rw [hx] at h8; cases h8
      | ok stx =>
      exact ⟨c, doc, st, stx, rfl, rfl, hx, rtWfB_sound c hp h1, nullOkB_sound ts h2,
        fun q hq => collFsB_sound K ts c ci st.heap q.2 (h3 q hq).1.1,
        fun q hq => jsonOkB_sound ts st.heap q.2 (h3 q hq).1.2,
        fun q hq => arrElemsSomeB_sound (h3 q hq).2,
        memberIdsB_sound c hp h4, disjointB_sound st.allFs c h5, memSofaB_sound c st.heap h6,
        membersOkB_sound c st.heap h7⟩

end Cassis.Json
