/-
Faithfulness of the writers beyond the flat XMI fragment (`Properties/C04FaithfulColl.lean`,
`Properties/C04FaithfulJson.lean`): padding of the written heap.

As in `Proofs/Faithful.lean` the two written heaps are brought to a common length and the document is loaded over one
base heap of that length.  Here the written heap `H` is extended by *blank* objects (`pad n`: no id, no slots): then
`slot` and `xidOf` — through which the writers, the fragments and the content functions read the heap — do not change at
all, at any address; what changes is the length of the heap (the budget of the list unrolling `collectList` /
`listVals`, which is monotone once the spine ends) and the direct reads `H[a]?` (kept at the addresses of `H`).
-/
import CassisModel.Proofs.Faithful
import CassisModel.Proofs.RoundTripCollFinal

namespace Cassis.Xmi
open Cassis.TS Cassis.Traverse Cassis.Lex

namespace Pad

/-- an object without id and without slots -/
def blank : Obj := { ty := "", ts := 0, xid := none, slots := [] }

/-- `n` blank objects -/
def pad (n : Nat) : Heap := List.replicate n blank

theorem length_pad (H : Heap) (n : Nat) : (H ++ pad n).length = H.length + n := by
  rw [List.length_append, pad, List.length_replicate]

theorem get_some {H : Heap} (n : Nat) {a : Nat} {o : Obj} (h : H[a]? = some o) : (H ++ pad n)[a]? = some o :=
  Faithful.get_append (pad n) h

/-- an object of the padded heap is an object of `H` or blank -/
theorem get_inv {H : Heap} {n : Nat} {a : Nat} {o : Obj} (h : (H ++ pad n)[a]? = some o) :
    H[a]? = some o ∨ (H[a]? = none ∧ o = blank) := by
  rcases Nat.lt_or_ge a H.length with hlt | hge
  · rw [List.getElem?_append_left hlt] at h
    exact .inl h
  · rw [List.getElem?_append_right hge] at h
    refine .inr ⟨List.getElem?_eq_none hge, ?_⟩
    have := List.mem_of_getElem? h
    exact (List.mem_replicate.mp this).2

/-- at an address of `H` the padded heap holds what `H` holds -/
theorem get_eq {H : Heap} (n : Nat) {a : Nat} {o : Obj} (h : H[a]? = some o) {o' : Obj}
    (h' : (H ++ pad n)[a]? = some o') : o' = o := by
  rw [get_some n h] at h'
  exact (Option.some.inj h').symm

theorem xidOf_pad (H : Heap) (n : Nat) (a : Nat) : xidOf (H ++ pad n) a = xidOf H a := by
  unfold xidOf
  cases h : (H ++ pad n)[a]? with
  | none =>
    cases h0 : H[a]? with
    | none => rfl
    | some o => rw [get_some n h0] at h; cases h
  | some o =>
    rcases get_inv h with h0 | ⟨h0, rfl⟩
    · rw [h0]
    · rw [h0]; rfl

theorem tslot_pad (H : Heap) (n : Nat) (a : Nat) (k : String) :
    Traverse.slot (H ++ pad n) a k = Traverse.slot H a k := by
  unfold Traverse.slot
  cases h : (H ++ pad n)[a]? with
  | none =>
    cases h0 : H[a]? with
    | none => rfl
    | some o => rw [get_some n h0] at h; cases h
  | some o =>
    rcases get_inv h with h0 | ⟨h0, rfl⟩
    · rw [h0]
    · rw [h0]; rfl

theorem slot_pad (H : Heap) (n : Nat) (a : Nat) (k : String) : slot (H ++ pad n) a k = slot H a k :=
  tslot_pad H n a k

/-! ### the list unrolling -/

theorem collectList_pad (H : Heap) (n : Nat) : ∀ (fuel : Nat) (v : Val),
    collectList (H ++ pad n) fuel v = collectList H fuel v
  | 0, _ => rfl
  | f+1, v => by
    cases v with
    | ref a =>
      unfold collectList
      rw [slot_pad, slot_pad]
      cases slot H a "head" with
      | none => rfl
      | some hd =>
        dsimp only
        rw [collectList_pad H n f]
    | _ => simp only [collectList]

/-- once the spine has ended, a larger budget changes nothing -/
theorem collectList_mono (H : Heap) : ∀ (fuel : Nat) (v : Val) (hs : List Val) (k : Nat),
    collectList H fuel v = .ok hs → collectList H (fuel + k) v = .ok hs
  | 0, v, hs, k, h => by simp [collectList] at h
  | f+1, v, hs, k, h => by
    rw [show f + 1 + k = (f + k) + 1 by omega]
    cases v with
    | ref a =>
      unfold collectList at h ⊢
      cases hh : slot H a "head" with
      | none => rw [hh] at h; exact h
      | some hd =>
        rw [hh] at h
        dsimp only at h ⊢
        cases hr : collectList H f ((slot H a "tail").getD .none) with
        | error e => rw [hr] at h; cases h
        | ok rest =>
          rw [hr] at h
          rw [collectList_mono H f _ rest k hr]
          exact h
    | _ => simp only [collectList] at h ⊢; exact h

/-- the budget of the padded heap -/
theorem collectList_padded {H : Heap} (n : Nat) {v : Val} {hs : List Val}
    (h : collectList H (H.length + 1) v = .ok hs) :
    collectList (H ++ pad n) ((H ++ pad n).length + 1) v = .ok hs := by
  rw [collectList_pad, length_pad, show H.length + n + 1 = (H.length + 1) + n by omega]
  exact collectList_mono H _ v hs n h

/-- … and back, when the spine ends within the budget of `H` -/
theorem collectList_unpad {H : Heap} (n : Nat) {v : Val} {hs hs' : List Val}
    (h : collectList H (H.length + 1) v = .ok hs)
    (h' : collectList (H ++ pad n) ((H ++ pad n).length + 1) v = .ok hs') : hs' = hs := by
  rw [collectList_padded n h] at h'
  cases h'
  rfl

theorem headVal_pad (H : Heap) (n : Nat) (isStr : Bool) (v : Val) : headVal (H ++ pad n) isStr v = headVal H isStr v := by
  cases v <;> simp only [headVal, xidOf_pad]

theorem listVals_pad (H : Heap) (n : Nat) (isStr : Bool) : ∀ (fuel : Nat) (v : Val),
    listVals (H ++ pad n) isStr fuel v = listVals H isStr fuel v
  | 0, _ => rfl
  | f+1, v => by
    cases v with
    | ref a =>
      unfold listVals
      rw [slot_pad, slot_pad]
      cases slot H a "head" with
      | none => rfl
      | some hd =>
        dsimp only
        rw [listVals_pad H n isStr f, headVal_pad]
    | _ => simp only [listVals]

theorem elemVals_pad (H : Heap) (n : Nat) (v : Val) : elemVals (H ++ pad n) v = elemVals H v := by
  cases v <;> simp only [elemVals, xidOf_pad]

theorem cvalOf_pad (H : Heap) (n : Nat) (v : Val) : cvalOf (H ++ pad n) v = cvalOf H v := by
  cases v <;> simp only [cvalOf, xidOf_pad, elemVals_pad]

/-- the deep content of a feature in the padded heap, when the spine of an inlined list ends -/
theorem featContentC_pad (K : Consts) (H : Heap) (n : Nat) (a : Nat) (f : Feature)
    (hsp : isInline K f = true → isArray K f.range = false → ∀ c, slot H a f.name = some (.ref c) →
      ∃ hs, collectList H (H.length + 1) (.ref c) = .ok hs) :
    featContentC K (H ++ pad n) a f = featContentC K H a f := by
  unfold featContentC
  rw [slot_pad]
  dsimp only
  cases hi : isInline K f with
  | false => simp only [Bool.false_eq_true, if_false, cvalOf_pad]
  | true =>
    simp only [if_true]
    cases hv : slot H a f.name with
    | none => simp only [Option.getD_none, cvalOf_pad]
    | some v =>
      simp only [Option.getD_some]
      cases v with
      | ref c =>
        dsimp only
        cases ha : isArray K f.range with
        | true => simp only [if_true, slot_pad, elemVals_pad]
        | false =>
          simp only [Bool.false_eq_true, if_false]
          obtain ⟨hs, hcol⟩ := hsp hi ha c hv
          rw [listVals_pad, length_pad, CF.listVals_collect H _ _ _ hs hcol,
            CF.listVals_collect H _ (H.length + n + 1) _ hs (by
              rw [show H.length + n + 1 = (H.length + 1) + n by omega]
              exact collectList_mono H _ _ hs n hcol)]
      | _ => simp only [cvalOf_pad]

/-! ### views and members -/

theorem renderView_pad (H : Heap) (n : Nat) (v : View) : renderView (H ++ pad n) v = renderView H v := by
  have e : ∀ (e : Index.Entry), ((H ++ pad n)[e.oid]?).bind (·.xid) = (H[e.oid]?).bind (·.xid) :=
    fun e => xidOf_pad H n e.oid
  unfold renderView
  simp only [e]

theorem viewContent_pad (H : Heap) (n : Nat) (nv : String × View) : viewContent (H ++ pad n) nv = viewContent H nv := by
  unfold viewContent
  simp only [xidOf_pad]

theorem pviewOf_pad (H : Heap) (n : Nat) (nv : String × View) : pviewOf (H ++ pad n) nv = pviewOf H nv := by
  unfold pviewOf
  simp only [xidOf_pad]

/-! ### the members -/

theorem membersOk_pad {c : Cas} {H : Heap} (n : Nat) (h : MembersOk c H) : MembersOk c (H ++ pad n) :=
  Faithful.membersOk_append (pad n) h

theorem hmem_pad {c : Cas} {H : Heap} (n : Nat)
    (hmem : ∀ nv ∈ c.views, ∀ e ∈ Index.all nv.2.idx, slot H e.oid "sofa" ≠ some .none) :
    ∀ nv ∈ c.views, ∀ e ∈ Index.all nv.2.idx, slot (H ++ pad n) e.oid "sofa" ≠ some .none := by
  intro nv hnv e he
  rw [slot_pad]
  exact hmem nv hnv e he

end Pad

end Cassis.Xmi
