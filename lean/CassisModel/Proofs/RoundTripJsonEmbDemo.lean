/-
Non-vacuity of `Properties/C02RoundTripEmbedded.lean`.

The type system is the result of an API history with a chain `x.A > x.B > x.C` whose features are declared bottom-up
(`fc` on `x.C`, then `fb` on `x.B`, then `fa` and the reserved name `self` on `x.A`): in the original the features of
`x.C` come in the order `fc, begin, end, sofa, fb, fa, self_`, in the type system rebuilt from the `%TYPES` section in the
order `fc, fb, fa, self_, begin, end, sofa` — the instance on which the loaded heaps differ in the order of the slots
(`HeapSim` is not equality; evaluated below).  The CAS has the text `a😀b`, two `x.C` structures that refer to each
other (one indexed, one only referenced) and an indexed `x.B`.  `embTsC` / `hpC` add an inlined IntegerArray and a shared
FSArray feature for the theorems with collections; `embTsZ` adds a type `x.Z` the CAS does not use, so that the MINIMAL
document declares a proper part of the type system (`typesZ`).  Everything is checked by kernel evaluation of the sound
Boolean tests (`jflatAppliesB` below, `jcollAppliesB`).
-/
import CassisModel.Proofs.RoundTripJsonEmb
import CassisModel.Proofs.EmbeddedTsDemo
import CassisModel.Proofs.RoundTripJsonCollCheck
import CassisModel.Proofs.RoundTripCheck

namespace Cassis.Json.EmbDemo
open Cassis Cassis.TS Cassis.Xmi Cassis.Traverse

def embOps : List TsOp :=
  [ .createType "x.A" "uima.tcas.Annotation" none,
    .createType "x.B" "x.A" (some "middle"),
    .createType "x.C" "x.B" none,
    .createFeature "x.C" "fc" "uima.cas.Integer" none none none,
    .createFeature "x.B" "fb" "uima.cas.String" none (some "a string") none,
    .createFeature "x.A" "fa" "x.C" none none none,
    .createFeature "x.A" "self" "uima.cas.Boolean" none none none ]

def embOpsC : List TsOp := embOps ++
  [ .createFeature "x.A" "ia" "uima.cas.IntegerArray" none none none,
    .createFeature "x.B" "fsa" "uima.cas.FSArray" (some "x.C") none (some true) ]

def embTs : TypeSystem := embOps.foldl (applyOpS Gen.consts) Gen.builtinTS
def embTsC : TypeSystem := embOpsC.foldl (applyOpS Gen.consts) Gen.builtinTS

theorem embTs_eq : embOps.foldl (applyOp Gen.consts) Gen.builtinTS = embTs := by unfold embTs; rw [applyOp_eq_S]
theorem embTsC_eq : embOpsC.foldl (applyOp Gen.consts) Gen.builtinTS = embTsC := by unfold embTsC; rw [applyOp_eq_S]

/-- the feature order of `x.C` in the original -/
example : ((find? embTs "x.C").map (fun t => (allFeatures t).map (·.name))) =
    some ["fc", "begin", "end", "sofa", "fb", "fa", "self_"] := by decide +kernel

def cas : Cas :=
  { views := [("_InitialView",
      { sofa := { sofaID := "_InitialView", sofaNum := 1, xid := 1, text := some [97, 128512, 98],
                  mime := some "text/plain", uri := none, arr := .none, conv := some [0, 1, 3, 4] },
        idx := [("x.C", [{ b := 0, e := 2, oid := 0 }]), ("x.B", [{ b := 1, e := 3, oid := 2 }])] })],
    nextXid := 4, nextSofaNum := 2 }

def tailSlots (b e : Int) : List (String × Val) :=
  [("begin", .int b), ("end", .int e), ("sofa", .sofa 0 "_InitialView")]

/-- the flat instance (as `Cas.new`, the constructors and two `Cas.add` leave it) -/
def hpF : Heap :=
  [ { ty := "x.C", ts := 0, xid := some 2,
      slots := [("fc", .int 7)] ++ tailSlots 0 2 ++ [("fb", .str "u"), ("fa", .ref 1), ("self_", .bool true)] },
    { ty := "x.C", ts := 0, xid := none,
      slots := [("fc", .none)] ++ tailSlots 2 3 ++ [("fb", .none), ("fa", .ref 0), ("self_", .none)] },
    { ty := "x.B", ts := 0, xid := some 3,
      slots := [("fb", .str "w")] ++ tailSlots 1 3 ++ [("fa", .ref 1), ("self_", .none)] } ]

/-- the instance with collections: an inlined IntegerArray and a shared (multipleReferencesAllowed) FSArray -/
def hpC : Heap :=
  [ { ty := "x.C", ts := 0, xid := some 2,
      slots := [("fc", .int 7)] ++ tailSlots 0 2 ++
        [("fb", .str "u"), ("fa", .ref 1), ("self_", .bool true), ("ia", .ref 3), ("fsa", .ref 4)] },
    { ty := "x.C", ts := 0, xid := none,
      slots := [("fc", .none)] ++ tailSlots 2 3 ++
        [("fb", .none), ("fa", .ref 0), ("self_", .none), ("ia", .none), ("fsa", .none)] },
    { ty := "x.B", ts := 0, xid := some 3,
      slots := [("fb", .str "w"), ("fsa", .ref 4)] ++ tailSlots 1 3 ++ [("fa", .ref 1), ("self_", .none), ("ia", .none)] },
    { ty := "uima.cas.IntegerArray", ts := 0, xid := none, slots := [("elements", .ints [1, -2, 30])] },
    { ty := "uima.cas.FSArray", ts := 0, xid := none, slots := [("elements", .refs [some 1, some 0])] } ]

/-! ### the hypotheses about the history -/

theorem userOnly_base : UserOnly Gen.consts embOps := by
  have hA : Gen.consts.predefined.contains "x.A" = false ∧ "x.A".contains '.' = true :=
    ⟨by decide, contains_dot _ (by decide)⟩
  have hB : Gen.consts.predefined.contains "x.B" = false ∧ "x.B".contains '.' = true :=
    ⟨by decide, contains_dot _ (by decide)⟩
  have hC : Gen.consts.predefined.contains "x.C" = false ∧ "x.C".contains '.' = true :=
    ⟨by decide, contains_dot _ (by decide)⟩
  exact ⟨hC.1, hC.2, hB.1, hB.2, hA.1, hA.2, hA.1, hA.2, trivial⟩

theorem userOnly_coll : UserOnly Gen.consts embOpsC := by
  have hA : Gen.consts.predefined.contains "x.A" = false ∧ "x.A".contains '.' = true :=
    ⟨by decide, contains_dot _ (by decide)⟩
  have hB : Gen.consts.predefined.contains "x.B" = false ∧ "x.B".contains '.' = true :=
    ⟨by decide, contains_dot _ (by decide)⟩
  have hC : Gen.consts.predefined.contains "x.C" = false ∧ "x.C".contains '.' = true :=
    ⟨by decide, contains_dot _ (by decide)⟩
  exact ⟨hC.1, hC.2, hB.1, hB.2, hA.1, hA.2, hA.1, hA.2, hA.1, hA.2, hB.1, hB.2, trivial⟩

theorem noDoc_coll : ∀ op ∈ embOpsC, match op with
    | .createFeature dom _ _ _ _ _ => dom ≠ DOCUMENT_ANNOTATION
    | .createType _ _ _ => True := by
  intro op hop
  simp only [embOpsC, embOps, List.cons_append, List.nil_append, List.mem_cons, List.not_mem_nil, or_false] at hop
  rcases hop with rfl | rfl | rfl | rfl | rfl | rfl | rfl | rfl | rfl
  all_goals first
    | trivial
    | decide

theorem noDoc_base : ∀ op ∈ embOps, match op with
    | .createFeature dom _ _ _ _ _ => dom ≠ DOCUMENT_ANNOTATION
    | .createType _ _ _ => True :=
  fun op hop => noDoc_coll op (List.mem_append_left _ hop)

theorem writable_base : Writable Gen.consts embTs := by decide +kernel
theorem writable_coll : Writable Gen.consts embTsC := by decide +kernel
theorem noPct_base : NoPercentNames embTs := by decide +kernel
theorem noPct_coll : NoPercentNames embTsC := by decide +kernel

/-! ### the hypotheses about the CAS -/

/-- every hypothesis of `json_roundtrip_flat` about the CAS, as a Boolean test (the flat counterpart of `jcollAppliesB`) -/
def jflatAppliesB (K : Consts) (ts : TypeSystem) (cass : List Cas) (ci : Nat) (hp : Heap) : Bool :=
  match cass[ci]? with
  | none => false
  | some c =>
    match saveJson K ts cass ci hp .none with
    | .error _ => false
    | .ok (_, st) =>
      rtWfB c hp && st.allFs.all (fun q => flatFsB K ts c ci st.heap q.2 && jsonOkB ts st.heap q.2) && memberIdsB c hp &&
      disjointB st.allFs c && memSofaB c st.heap && membersOkB c st.heap

theorem jflatAppliesB_hyps (K : Consts) (ts : TypeSystem) (cass : List Cas) (ci : Nat) (hp : Heap)
    (h : jflatAppliesB K ts cass ci hp = true) :
    ∃ (c : Cas) (doc : JDoc) (st : Traverse.St), cass[ci]? = some c ∧
      saveJson K ts cass ci hp .none = .ok (doc, st) ∧ RTWf c hp ∧
      (∀ q ∈ st.allFs, FlatFs K ts c ci st.heap q.2) ∧
      (∀ q ∈ st.allFs, JsonFs ts st.heap q.2) ∧
      (∀ nv ∈ c.views, ∀ e ∈ Index.all nv.2.idx, (xidOf hp e.oid).isSome = true) ∧
      (∀ q ∈ st.allFs, ∀ nv ∈ c.views, q.1 ≠ nv.2.sofa.xid) ∧
      (∀ nv ∈ c.views, ∀ e ∈ Index.all nv.2.idx, Xmi.slot st.heap e.oid "sofa" ≠ some .none) ∧
      MembersOk c st.heap := by
  unfold jflatAppliesB at h
  cases hc : cass[ci]? with
  | none => rw [hc] at h; exact absurd h (by simp)
  | some c =>
    rw [hc] at h
    simp only at h
    cases hs : saveJson K ts cass ci hp .none with
    | error e => rw [hs] at h; exact absurd h (by simp)
    | ok r =>
      obtain ⟨doc, st⟩ := r
      rw [hs] at h
      simp only [Bool.and_eq_true, List.all_eq_true] at h
      obtain ⟨⟨⟨⟨⟨h1, h2⟩, h3⟩, h4⟩, h5⟩, h6⟩ := h
      exact ⟨c, doc, st, rfl, rfl, rtWfB_sound c hp h1,
        fun q hq => flatFsB_sound K ts c ci st.heap q.2 (h2 q hq).1,
        fun q hq => jsonOkB_sound ts st.heap q.2 (h2 q hq).2,
        memberIdsB_sound c hp h3,
        disjointB_sound st.allFs c h4, memSofaB_sound c st.heap h5, membersOkB_sound c st.heap h6⟩

theorem flat_applies : jflatAppliesB Gen.consts embTs [cas] 0 hpF = true := by decide +kernel
theorem coll_applies : jcollAppliesB Gen.consts embTsC [cas] 0 hpC = true := by decide +kernel

/-- **non-vacuity of `json_roundtrip_full_flat`**: all its hypotheses hold on the instance -/
theorem full_flat_hyps : ∃ (doc : JDoc) (st : Traverse.St),
    UserOnly Gen.consts embOps ∧ (∀ op ∈ embOps, match op with
      | .createFeature dom _ _ _ _ _ => dom ≠ DOCUMENT_ANNOTATION
      | .createType _ _ _ => True) ∧
    Writable Gen.consts embTs ∧ NoPercentNames embTs ∧ [cas][0]? = some cas ∧ RTWf cas hpF ∧
    saveJson Gen.consts embTs [cas] 0 hpF .full = .ok (doc, st) ∧
    (∀ q ∈ st.allFs, FlatFs Gen.consts embTs cas 0 st.heap q.2) ∧
    (∀ q ∈ st.allFs, JsonFs embTs st.heap q.2) ∧
    (∀ nv ∈ cas.views, ∀ e ∈ Index.all nv.2.idx, (xidOf hpF e.oid).isSome = true) ∧
    (∀ q ∈ st.allFs, ∀ nv ∈ cas.views, q.1 ≠ nv.2.sofa.xid) ∧
    (∀ nv ∈ cas.views, ∀ e ∈ Index.all nv.2.idx, Xmi.slot st.heap e.oid "sofa" ≠ some .none) ∧
    MembersOk cas st.heap := by
  obtain ⟨c, doc0, st, hc, hs, hwf, hf, hj, hi, hd, hm, hmo⟩ := jflatAppliesB_hyps _ _ _ _ _ flat_applies
  cases hc
  obtain ⟨doc, hsave, _, _⟩ := saveJson_mode_fss_aux Gen.consts embTs noPct_base [cas] 0 hpF .none .full doc0 st hs
  exact ⟨doc, st, userOnly_base, noDoc_base, writable_base, noPct_base, rfl, hwf, hsave, hf, hj, hi, hd, hm, hmo⟩

/-- **non-vacuity of `json_roundtrip_full_coll`** -/
theorem full_coll_hyps : ∃ (doc : JDoc) (st : Traverse.St),
    UserOnly Gen.consts embOpsC ∧ (∀ op ∈ embOpsC, match op with
      | .createFeature dom _ _ _ _ _ => dom ≠ DOCUMENT_ANNOTATION
      | .createType _ _ _ => True) ∧
    Writable Gen.consts embTsC ∧ NoPercentNames embTsC ∧ [cas][0]? = some cas ∧ RTWf cas hpC ∧
    saveJson Gen.consts embTsC [cas] 0 hpC .full = .ok (doc, st) ∧
    (∀ q ∈ st.allFs, JCollFs Gen.consts embTsC cas 0 st.heap q.2) ∧
    (∀ nv ∈ cas.views, ∀ e ∈ Index.all nv.2.idx, (xidOf hpC e.oid).isSome = true) ∧
    (∀ q ∈ st.allFs, ∀ nv ∈ cas.views, q.1 ≠ nv.2.sofa.xid) ∧
    (∀ nv ∈ cas.views, ∀ e ∈ Index.all nv.2.idx, Xmi.slot st.heap e.oid "sofa" ≠ some .none) ∧
    MembersOk cas st.heap := by
  obtain ⟨c, doc0, st, hc, hs, hwf, hf, hi, hd, hm, hmo⟩ := jcollAppliesB_hyps _ _ _ _ _ coll_applies
  cases hc
  obtain ⟨doc, hsave, _, _⟩ := saveJson_mode_fss_aux Gen.consts embTsC noPct_coll [cas] 0 hpC .none .full doc0 st hs
  exact ⟨doc, st, userOnly_coll, noDoc_coll, writable_coll, noPct_coll, rfl, hwf, hsave, hf, hi, hd, hm, hmo⟩

/-- **non-vacuity of `loadJson_congr_sameTs`**: the original and the type system rebuilt from the `%TYPES` section of
    its FULL document are `SameTs` and both consistent (they differ: see the evaluation below) -/
theorem congr_hyps : ∃ (doc : JDoc) (st : Traverse.St) (ts' : TypeSystem),
    saveJson Gen.consts embTs [cas] 0 hpF .full = .ok (doc, st) ∧
    loadTs Gen.consts Gen.builtinTS true doc = .ok ts' ∧
    SameTs embTs ts' ∧ Consistent embTs ∧ Consistent ts' := by
  obtain ⟨doc, st, hu, hn, hw, hpc, _, _, hsave, _⟩ := full_flat_hyps
  rw [← embTs_eq] at hw hpc hsave ⊢
  obtain ⟨ts', h1, h2, h3, h4⟩ := json_full_ts_same_cons embOps ⟨hu, hn⟩ hw hpc _ _ _ doc st hsave
  exact ⟨doc, st, ts', hsave, h1, h2, h3, h4⟩

/-- **non-vacuity of `json_roundtrip_minimal_flat`** -/
theorem min_flat_hyps : ∃ (doc : JDoc) (st : Traverse.St),
    UserOnly Gen.consts embOps ∧ (∀ op ∈ embOps, match op with
      | .createFeature dom _ _ _ _ _ => dom ≠ DOCUMENT_ANNOTATION
      | .createType _ _ _ => True) ∧
    Writable Gen.consts embTs ∧ NoPercentNames embTs ∧ [cas][0]? = some cas ∧ RTWf cas hpF ∧
    saveJson Gen.consts embTs [cas] 0 hpF .minimal = .ok (doc, st) ∧
    (∀ q ∈ st.allFs, FlatFs Gen.consts embTs cas 0 st.heap q.2) ∧
    (∀ q ∈ st.allFs, JsonFs embTs st.heap q.2) ∧
    (∀ nv ∈ cas.views, ∀ e ∈ Index.all nv.2.idx, (xidOf hpF e.oid).isSome = true) ∧
    (∀ q ∈ st.allFs, ∀ nv ∈ cas.views, q.1 ≠ nv.2.sofa.xid) ∧
    (∀ nv ∈ cas.views, ∀ e ∈ Index.all nv.2.idx, Xmi.slot st.heap e.oid "sofa" ≠ some .none) ∧
    MembersOk cas st.heap := by
  obtain ⟨c, doc0, st, hc, hs, hwf, hf, hj, hi, hd, hm, hmo⟩ := jflatAppliesB_hyps _ _ _ _ _ flat_applies
  cases hc
  obtain ⟨doc, hsave, _, _⟩ := saveJson_mode_fss_aux Gen.consts embTs noPct_base [cas] 0 hpF .none .minimal doc0 st hs
  exact ⟨doc, st, userOnly_base, noDoc_base, writable_base, noPct_base, rfl, hwf, hsave, hf, hj, hi, hd, hm, hmo⟩

/-- **non-vacuity of `json_roundtrip_minimal_coll`** -/
theorem min_coll_hyps : ∃ (doc : JDoc) (st : Traverse.St),
    UserOnly Gen.consts embOpsC ∧ (∀ op ∈ embOpsC, match op with
      | .createFeature dom _ _ _ _ _ => dom ≠ DOCUMENT_ANNOTATION
      | .createType _ _ _ => True) ∧
    Writable Gen.consts embTsC ∧ NoPercentNames embTsC ∧ [cas][0]? = some cas ∧ RTWf cas hpC ∧
    saveJson Gen.consts embTsC [cas] 0 hpC .minimal = .ok (doc, st) ∧
    (∀ q ∈ st.allFs, JCollFs Gen.consts embTsC cas 0 st.heap q.2) ∧
    (∀ nv ∈ cas.views, ∀ e ∈ Index.all nv.2.idx, (xidOf hpC e.oid).isSome = true) ∧
    (∀ q ∈ st.allFs, ∀ nv ∈ cas.views, q.1 ≠ nv.2.sofa.xid) ∧
    (∀ nv ∈ cas.views, ∀ e ∈ Index.all nv.2.idx, Xmi.slot st.heap e.oid "sofa" ≠ some .none) ∧
    MembersOk cas st.heap := by
  obtain ⟨c, doc0, st, hc, hs, hwf, hf, hi, hd, hm, hmo⟩ := jcollAppliesB_hyps _ _ _ _ _ coll_applies
  cases hc
  obtain ⟨doc, hsave, _, _⟩ := saveJson_mode_fss_aux Gen.consts embTsC noPct_coll [cas] 0 hpC .none .minimal doc0 st hs
  exact ⟨doc, st, userOnly_coll, noDoc_coll, writable_coll, noPct_coll, rfl, hwf, hsave, hf, hi, hd, hm, hmo⟩

/-! ### an instance on which MINIMAL drops a type -/

/-- the flat history plus a type the CAS does not use -/
def embOpsZ : List TsOp := embOps ++
  [ .createType "x.Z" "uima.cas.TOP" (some "not needed by the document"),
    .createFeature "x.Z" "z" "uima.cas.Integer" none none none ]

def embTsZ : TypeSystem := embOpsZ.foldl (applyOpS Gen.consts) Gen.builtinTS

theorem embTsZ_eq : embOpsZ.foldl (applyOp Gen.consts) Gen.builtinTS = embTsZ := by unfold embTsZ; rw [applyOp_eq_S]

theorem userOnly_Z : UserOnly Gen.consts embOpsZ := by
  have hA : Gen.consts.predefined.contains "x.A" = false ∧ "x.A".contains '.' = true :=
    ⟨by decide, contains_dot _ (by decide)⟩
  have hB : Gen.consts.predefined.contains "x.B" = false ∧ "x.B".contains '.' = true :=
    ⟨by decide, contains_dot _ (by decide)⟩
  have hC : Gen.consts.predefined.contains "x.C" = false ∧ "x.C".contains '.' = true :=
    ⟨by decide, contains_dot _ (by decide)⟩
  have hZ : Gen.consts.predefined.contains "x.Z" = false ∧ "x.Z".contains '.' = true :=
    ⟨by decide, contains_dot _ (by decide)⟩
  exact ⟨hC.1, hC.2, hB.1, hB.2, hA.1, hA.2, hA.1, hA.2, hZ.1, hZ.2, trivial⟩

theorem noDoc_Z : ∀ op ∈ embOpsZ, match op with
    | .createFeature dom _ _ _ _ _ => dom ≠ DOCUMENT_ANNOTATION
    | .createType _ _ _ => True := by
  intro op hop
  simp only [embOpsZ, embOps, List.cons_append, List.nil_append, List.mem_cons, List.not_mem_nil, or_false] at hop
  rcases hop with rfl | rfl | rfl | rfl | rfl | rfl | rfl | rfl | rfl
  all_goals first
    | trivial
    | decide

theorem writable_Z : Writable Gen.consts embTsZ := by decide +kernel
theorem noPct_Z : NoPercentNames embTsZ := by decide +kernel
theorem flatZ_applies : jflatAppliesB Gen.consts embTsZ [cas] 0 hpF = true := by decide +kernel

/-- the FULL document declares `x.Z`, the MINIMAL one does not -/
theorem typesZ :
    (saveJson Gen.consts embTsZ [cas] 0 hpF .full).toOption.map (fun r => (r.1.types.getD []).map (·.name)) =
      some ["x.A", "x.B", "x.C", "x.Z"] ∧
    (saveJson Gen.consts embTsZ [cas] 0 hpF .minimal).toOption.map (fun r => (r.1.types.getD []).map (·.name)) =
      some ["x.A", "x.B", "x.C"] := by
  constructor <;> decide +kernel

/-- **non-vacuity of `json_roundtrip_minimal_flat`** on an instance where the closure is a proper part of the type system -/
theorem minZ_flat_hyps : ∃ (doc : JDoc) (st : Traverse.St),
    UserOnly Gen.consts embOpsZ ∧ (∀ op ∈ embOpsZ, match op with
      | .createFeature dom _ _ _ _ _ => dom ≠ DOCUMENT_ANNOTATION
      | .createType _ _ _ => True) ∧
    Writable Gen.consts embTsZ ∧ NoPercentNames embTsZ ∧ [cas][0]? = some cas ∧ RTWf cas hpF ∧
    saveJson Gen.consts embTsZ [cas] 0 hpF .minimal = .ok (doc, st) ∧
    (∀ q ∈ st.allFs, FlatFs Gen.consts embTsZ cas 0 st.heap q.2) ∧
    (∀ q ∈ st.allFs, JsonFs embTsZ st.heap q.2) ∧
    (∀ nv ∈ cas.views, ∀ e ∈ Index.all nv.2.idx, (xidOf hpF e.oid).isSome = true) ∧
    (∀ q ∈ st.allFs, ∀ nv ∈ cas.views, q.1 ≠ nv.2.sofa.xid) ∧
    (∀ nv ∈ cas.views, ∀ e ∈ Index.all nv.2.idx, Xmi.slot st.heap e.oid "sofa" ≠ some .none) ∧
    MembersOk cas st.heap := by
  obtain ⟨c, doc0, st, hc, hs, hwf, hf, hj, hi, hd, hm, hmo⟩ := jflatAppliesB_hyps _ _ _ _ _ flatZ_applies
  cases hc
  obtain ⟨doc, hsave, _, _⟩ := saveJson_mode_fss_aux Gen.consts embTsZ noPct_Z [cas] 0 hpF .none .minimal doc0 st hs
  exact ⟨doc, st, userOnly_Z, noDoc_Z, writable_Z, noPct_Z, rfl, hwf, hsave, hf, hj, hi, hd, hm, hmo⟩

end Cassis.Json.EmbDemo
