/-
The statement of `Properties/C02EmbeddedTs.lean` as given (hypothesis `UserOnlyNoDoc` only) is false: a kernel-checked
refutation on the history `create_type("x.A", "uima.cas.TOP", description="")`.  The document is written (evaluated by
the kernel), its `%TYPES` section is the single declaration of `x.A` without a description, and every type system the
reader can build from it gives `x.A` the description `None` — the original has `""`.

(`toposort` is evaluated by rewriting with `toposort_go_step1`, the merge through its structurally recursive copy
`mergeDeclsG pushS`: the kernel does not unfold the well-founded recursions of `Array.qsort` and `pushInherited`.)
-/
import CassisModel.Proofs.EmbeddedTsC

namespace Cassis.Json
open Cassis.TS

def cexOps : List TsOp := [.createType "x.A" "uima.cas.TOP" (some "")]
def cexTs : TypeSystem := cexOps.foldl (applyOp Gen.consts) Gen.builtinTS
def cexTypes : List JType := [{ name := "x.A", super := "uima.cas.TOP" }]

theorem cex_types : (fullRecs Gen.consts cexTs).map (renderTypeDecl Gen.consts) = cexTypes := by
  have h : ((fullRecs Gen.consts cexTs).map (renderTypeDecl Gen.consts)).map
      (fun j => (j.name, j.super, j.descr, j.feats.length)) = [("x.A", "uima.cas.TOP", none, 0)] := by
    decide +kernel
  generalize (fullRecs Gen.consts cexTs).map (renderTypeDecl Gen.consts) = l at h
  cases l with
  | nil => cases h
  | cons j l =>
    cases l with
    | cons j' l' => simp at h
    | nil =>
      obtain ⟨n, s, d, fs⟩ := j
      simp only [List.map_cons, List.map_nil, List.cons.injEq, Prod.mk.injEq, and_true] at h
      obtain ⟨rfl, rfl, rfl, hf⟩ := h
      have : fs = [] := List.eq_nil_of_length_eq_zero hf
      subst this
      rfl

theorem cex_toposort : toposort cexTypes = .ok ["uima.cas.TOP", "x.A"] := by
  unfold toposort
  simp only []
  rw [toposort_go_step1 _ _ 2 _ _ "uima.cas.TOP" (by decide) (by decide) (by decide)]
  rw [toposort_go_step1 _ _ 1 _ _ "x.A" (by decide) (by decide) (by decide)]
  rfl

/-- the check, as a function of the embedded type system the reader arrives at -/
def cexFinal (emb? : Except Err TypeSystem) : Bool :=
  match emb? with
  | .error _ => true
  | .ok emb =>
    match mergeDeclsG pushS Gen.consts Gen.builtinTS ([Gen.builtinTS, emb].flatMap (declsOf Gen.consts)) with
    | .error _ => true
    | .ok ts' => (find? ts' "x.A").bind (·.descr) == none

/-- whatever the reader builds from the document gives `x.A` no description -/
theorem cex_load (doc : JDoc) (hdoc : doc.types = some cexTypes) (ts' : TypeSystem)
    (h : loadTs Gen.consts Gen.builtinTS true doc = .ok ts') :
    (find? ts' "x.A").bind (·.descr) = none := by
  unfold loadTs at h
  simp only [hdoc, if_true] at h
  cases hemb : loadEmbeddedTs Gen.consts cexTypes with
  | error e => rw [hemb] at h; cases h
  | ok emb =>
    rw [hemb] at h
    simp only [merge, mergeDecls_eq_S] at h
    have hnp : ∀ jt ∈ cexTypes, ∀ jf ∈ jt.feats, jf.name.startsWith "%" = false := by
      intro jt hjt jf hjf
      simp only [cexTypes, List.mem_singleton] at hjt
      subst hjt
      cases hjf
    rw [loadEmbeddedTs_eq _ _ (by decide) hnp, cex_toposort] at hemb
    have key : cexFinal (do
        let order ← (Except.ok ["uima.cas.TOP", "x.A"] : Except Err (List String))
        let ts1 ← order.foldlM (typeStep Gen.consts cexTypes) Gen.builtinTS
        cexTypes.foldlM (featsStep Gen.consts) ts1) = true := by decide +kernel
    rw [hemb] at key
    simp only [cexFinal, h] at key
    simpa using key

/-- **the statement as given is false** -/
theorem json_full_ts_same_as_given_false :
    ¬ (∀ (ops : List TsOp),
        (UserOnly Gen.consts ops ∧ ∀ op ∈ ops, match op with
          | .createFeature dom _ _ _ _ _ => dom ≠ DOCUMENT_ANNOTATION
          | .createType _ _ _ => True) →
        ∀ (cass : List Cas) (ci : Nat) (hp : Heap) (doc : JDoc) (st : Traverse.St),
          saveJson Gen.consts (ops.foldl (applyOp Gen.consts) Gen.builtinTS) cass ci hp .full = .ok (doc, st) →
          ∃ ts', loadTs Gen.consts Gen.builtinTS true doc = .ok ts' ∧
            SameTs (ops.foldl (applyOp Gen.consts) Gen.builtinTS) ts') := by
  intro H
  have hsaveB : (match saveJson Gen.consts cexTs [Cas.empty] 0 [] .full with
    | .ok _ => true | .error _ => false) = true := by decide +kernel
  cases hs : saveJson Gen.consts cexTs [Cas.empty] 0 [] .full with
  | error e => rw [hs] at hsaveB; cases hsaveB
  | ok p =>
    obtain ⟨doc, st⟩ := p
    have hdoc : doc.types = some cexTypes := by
      obtain ⟨decls, hdecls, htypes⟩ := saveJson_full_types _ _ _ _ _ _ _ hs
      have hany : (fullRecs Gen.consts cexTs).any
          (fun t => t.own.any (fun f => (renderFeatDecl Gen.consts f).name == "%NAME")) = false := by decide +kernel
      unfold renderTypeDecls at hdecls
      rw [hany] at hdecls
      simp only [Bool.false_eq_true, if_false] at hdecls
      cases hdecls
      rw [htypes, cex_types]
    obtain ⟨ts', hl, hsame⟩ := H cexOps ⟨trivial, fun op hop => by
      simp only [cexOps, List.mem_singleton] at hop; subst hop; trivial⟩ [Cas.empty] 0 [] doc st hs
    have hd := cex_load doc hdoc ts' hl
    have hx := hsame "x.A"
    have ho : (find? cexTs "x.A").bind (·.descr) = some "" := by decide +kernel
    change match find? cexTs "x.A", find? ts' "x.A" with
      | some t, some t' => SameDecl t t'
      | none, none => True
      | _, _ => False at hx
    cases h1 : find? cexTs "x.A" with
    | none => rw [h1] at ho; cases ho
    | some t =>
      cases h2 : find? ts' "x.A" with
      | none => rw [h1, h2] at hx; exact hx
      | some t' =>
        rw [h1, h2] at hx
        rw [h1] at ho; rw [h2] at hd
        simp only [Option.bind_some] at ho hd
        have := hx.2.2.1
        rw [ho, hd] at this
        cases this

end Cassis.Json
