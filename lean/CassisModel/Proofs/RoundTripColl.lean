/-
The XMI round trip with collections: assembly of the layers (`Proofs/RoundTripColl_NOTES.md` lists them).
-/
import CassisModel.Proofs.RoundTripCollTrav
import CassisModel.Proofs.RoundTripCollElemGen
import CassisModel.Proofs.RoundTripCollArr
import CassisModel.Proofs.RoundTripCollAsm
import CassisModel.Proofs.RoundTripCollPostArr
import CassisModel.Proofs.RoundTripCollPostList
import CassisModel.Proofs.RoundTripCollPostGen
import CassisModel.Proofs.RoundTripCollBuild
import CassisModel.Proofs.RoundTripCollFinal
import CassisModel.Proofs.RoundTrip

namespace Cassis.Xmi
open Cassis.TS Cassis.Traverse Cassis.Lex

/-- an inlined collection feature is an array feature or a list feature -/
theorem inlineFeat_range {K : Consts} {ts : TypeSystem} {H : Heap} {o : Obj} {f : Feature}
    (h : InlineFeat K ts H o f) : ArrRange f ∨ ListRange f := by
  obtain ⟨_, v, _, hk⟩ := h
  rcases hk with ⟨h, _⟩ | ⟨h, _⟩ | ⟨h, _⟩ | ⟨h, _⟩ | ⟨h, _⟩ | ⟨h, _⟩ | ⟨h, _⟩
  · exact .inl (.inl h)
  · exact .inl (.inr (.inl h))
  · exact .inl (.inr (.inr h))
  · exact .inr (.inl h)
  · exact .inr (.inr (.inl h))
  · exact .inr (.inr (.inr (.inl h)))
  · exact .inr (.inr (.inr (.inr h)))

/-- **XMI round trip, collections included** -/
theorem xmi_roundtrip_coll_aux (K : Consts) (ts : TypeSystem) (cass : List Cas) (ci : Nat) (c : Cas) (hp : Heap)
    (tsIdx ci' : Nat) (doc : XDoc) (st : St)
    (hc : cass[ci]? = some c) (hwf : RTWf c hp) (hnull : NullOk ts)
    (hsave : saveXmi K ts cass ci hp = .ok (doc, st))
    (hcoll : ∀ q ∈ st.allFs, CollFs K ts c ci st.heap q.2)
    (_hdis : ∀ q ∈ st.allFs, ∀ nv ∈ c.views, q.1 ≠ nv.2.sofa.xid)
    (hmem : ∀ nv ∈ c.views, ∀ e ∈ Index.all nv.2.idx, slot st.heap e.oid "sofa" ≠ some .none)
    (hmok : MembersOk c st.heap) :
    ∃ (p : Pass1) (ld : Loaded),
      pass1 K ts tsIdx false doc { heap := st.heap } = .ok p ∧
      loadXmi K ts tsIdx ci' false st.heap doc = .ok ld ∧
      p.fss.map (·.1) = 0 :: (sortById st.allFs).map (·.1) ∧
      (∀ q ∈ st.allFs, ∃ (a' : Nat) (o o' : Obj), lookupFs p.fss q.1 = .ok a' ∧
          st.heap[q.2]? = some o ∧ ld.heap[a']? = some o' ∧ o'.ty = o.ty ∧ o'.xid = some q.1 ∧
          ∀ t : TypeRec, find? ts o.ty = some t → ∀ f ∈ allFeatures t,
            featContentC K ld.heap a' f = featContentC K st.heap q.2 f) ∧
      ld.cas.views.map (viewContent ld.heap) = c.views.map (viewContent st.heap) ∧
      (∀ q ∈ st.allFs, q.1 < ld.cas.nextXid) ∧
      (∀ nv ∈ c.views, nv.2.sofa.xid < ld.cas.nextXid ∧ nv.2.sofa.sofaNum < ld.cas.nextSofaNum) := by
  have hL := lokC_of_save hc hwf hsave hcoll
  -- first pass
  have helem : Elem1Stmt K ts cass st.heap tsIdx (CollFs K ts c ci st.heap) := by
    intro a x hP hx
    rcases hP with hg | ha
    · exact gen_elem1 K ts cass ci c st.heap tsIdx hc a x hg hx
    · exact arr_elem1 K ts cass st.heap tsIdx a x ha hx
  obtain ⟨na, p, hp1, hna, hp1w, hrel1⟩ := pass1_coll K ts cass ci c hp tsIdx doc st hc hwf hsave hnull hL helem
  -- second pass
  have hI : PostInlineStmt K ts cass st.heap na tsIdx ci' p.sofas p.fss (fun _ => True) := by
    intro a o t f h1 h2 h3 h4 h5 h6 _
    rcases inlineFeat_range h6 with h | h
    · exact postInline_arr K ts cass st.heap na tsIdx ci' p.sofas p.fss a o t f h1 h2 h3 h4 h5 h6 h
    · exact postInline_list K ts cass st.heap na tsIdx ci' p.sofas p.fss a o t f h1 h2 h3 h4 h5 h6 h
  have hpost : Post2Stmt K ts cass st.heap (sortById st.allFs) na tsIdx ci' p.sofas p.fss
      (CollFs K ts c ci st.heap) := by
    intro q hq hP
    rcases hP with hg | ha
    · exact gen_post K ts cass ci c hp st.heap _ na tsIdx ci' p.sofas p.fss hc hwf hL hp1w.sofas hp1w.fss hI q hq hg
    · exact arr_post K ts cass ci c st.heap _ na tsIdx ci' p.sofas p.fss hL hp1w.fss q hq ha
  obtain ⟨hp2, hpa, hnull2, _, hrel2⟩ :=
    postAll_coll K ts cass ci c st.heap _ na tsIdx ci' p hnull hL hna hp1w hrel1 hpost
  obtain ⟨hE2, hcolls2⟩ := obj2_to_E2c hL hrel2
  -- third pass
  obtain ⟨ld, hbuild, hrel3, hviews, _, hfrz3⟩ :=
    buildCas_coll K ts cass ci c hp st.heap _ na (iaOf hp2 na) ci' p hp2 hc hwf hnull (lokW_of_lokC hL) hna hp1w
      hmem hmok hnull2 hE2
  have hcolls3 := collsAt_frz hcolls2 hfrz3
  have hload : loadXmi K ts tsIdx ci' false st.heap doc = .ok ld := by
    unfold loadXmi
    simp only [hp1, hpa, bind, Except.bind]
    exact hbuild
  have hxid : ∀ q ∈ sortById st.allFs, xidOf ld.heap (na q.1) = some q.1 := by
    intro q hq
    obtain ⟨o, o', _, ho', _, hx, _⟩ := hrel3 q hq
    unfold xidOf; rw [ho']; exact hx
  obtain ⟨p', hp1', hbnd, hnx, hns, hfssb, _, _⟩ := loadXmi_reseeds_aux K ts tsIdx ci' false st.heap doc ld hload
  rw [hp1] at hp1'; cases hp1'
  refine ⟨p, ld, hp1, hload, ?_, ?_, hviews, ?_, ?_⟩
  · rw [hp1w.fss]
    simp only [List.map_cons, List.map_map]
    rfl
  · intro q hq0
    have hq := mem_sortById.mpr hq0
    obtain ⟨o, o', ho, ho', hty, hx, _, hslots⟩ := hrel3 q hq
    have hqm : q.1 ∈ (sortById st.allFs).map (·.1) := List.mem_map.mpr ⟨q, hq, rfl⟩
    refine ⟨na q.1, o, o', ?_, ho, ho', hty, hx, ?_⟩
    · rw [hp1w.fss]
      exact lookupFs_fss_na na _ _ q.1 hqm (hL.ids q hq).2
    · intro t ht f hf
      exact CF.content_eq hL hxid hcolls3 q hq o o' ho ho' hslots t ht f hf
  · intro q hq0
    have hq := mem_sortById.mpr hq0
    have hm : (q.1, na q.1) ∈ p.fss := by
      rw [hp1w.fss]
      exact List.mem_cons_of_mem _ (List.mem_map.mpr ⟨q, hq, rfl⟩)
    obtain ⟨_, _, _, hlt⟩ := hfssb _ hm
    exact hlt
  · intro nv hnv
    have hm : (nv.2.sofa.xid, psofaOf nv) ∈ p.sofas := by
      rw [hp1w.sofas]
      exact List.mem_map.mpr ⟨nv, hnv, rfl⟩
    have := hbnd.1 _ hm
    simp only [psofaOf] at this
    rw [hnx, hns]
    omega

end Cassis.Xmi
