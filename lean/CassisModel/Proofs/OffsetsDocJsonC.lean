/-
C03, written-document level, JSON: nothing else is written under the names `begin` / `end` — every member of an
element with one of these names is the one member a feature written under that name contributes.
-/
import CassisModel.Proofs.OffsetsDocFinal

namespace Cassis.Json
open Cassis.Offsets Cassis.TS Cassis.OffsetsDoc

theorem prefixed_ne (p n s : String) (c : Char) (hp : p.toList = [c]) (hc : s.toList.head? ≠ some c) : p ++ n ≠ s := by
  intro h
  apply hc
  rw [← h, String.toList_append, hp]
  rfl

/-- the second stage writes one member, under the name or the name with the prefix `#` / `@` -/
theorem stage2_keys (K : Consts) (ts : TypeSystem) (cass : List Cas) (hp : Heap) (f : Feature) (name : String) (v : Val)
    (out : List (String × JV)) (h : stage2 K ts cass hp f name v = .ok out) :
    ∃ k jv, out = [(k, jv)] ∧ (k = name ∨ k = "#" ++ name ∨ k = "@" ++ name) := by
  unfold stage2 at h
  split at h
  · split at h
    · split at h
      · cases h; exact ⟨_, _, rfl, Or.inr (Or.inl rfl)⟩
      · cases h; exact ⟨_, _, rfl, Or.inl rfl⟩
    · cases h; exact ⟨_, _, rfl, Or.inl rfl⟩
    · cases h
  · split at h
    · simp only [bind, Except.bind] at h
      split at h
      · cases h
      · cases h; exact ⟨_, _, rfl, Or.inl rfl⟩
    · split at h
      · cases h; exact ⟨_, _, rfl, Or.inr (Or.inr rfl)⟩
      · split at h
        · cases h; exact ⟨_, _, rfl, Or.inr (Or.inr rfl)⟩
        · cases h
      · cases h

/-- a member named `begin` / `end` is the single member of a feature written under that name -/
theorem renderFeature_offset_member_aux (K : Consts) (ts : TypeSystem) (cass : List Cas) (hp : Heap) (a : Nat)
    (f : Feature) (out : List (String × JV)) (h : renderFeature K ts cass hp a f = .ok out)
    (m : String × JV) (hm : m ∈ out) (hn : m.1 = "begin" ∨ m.1 = "end") : xmlName f = m.1 ∧ out = [m] := by
  rw [renderFeature_eq] at h
  split at h
  · cases h; cases hm
  · dsimp only at h
    split at h
    · cases h; cases hm
    · rw [xmlName_def] at h
      obtain ⟨v', _, h2⟩ := bind_ok' h
      obtain ⟨k, jv, rfl, hk⟩ := stage2_keys K ts cass hp f _ _ _ h2
      have : m = (k, jv) := List.mem_singleton.mp hm
      subst this
      refine ⟨?_, rfl⟩
      rcases hk with hk | hk | hk
      · exact hk.symm
      · exfalso
        dsimp only at hn
        rw [hk] at hn
        rcases hn with hn | hn
        · exact prefixed_ne "#" _ _ '#' (by decide) (by decide) hn
        · exact prefixed_ne "#" _ _ '#' (by decide) (by decide) hn
      · exfalso
        dsimp only at hn
        rw [hk] at hn
        rcases hn with hn | hn
        · exact prefixed_ne "@" _ _ '@' (by decide) (by decide) hn
        · exact prefixed_ne "@" _ _ '@' (by decide) (by decide) hn

/-- **nothing else is carried**: every member named `begin` / `end` of the element written for a collected structure is
    the single member that a feature of its type, written under that name, contributes -/
theorem saveJson_offset_members_aux (K : Consts) (ts : TypeSystem) (cass : List Cas) (ci : Nat) (hp : Heap)
    (mode : Mode) (doc : JDoc) (st : Traverse.St) (hs : saveJson K ts cass ci hp mode = .ok (doc, st))
    (p : Int × Nat) (hp' : p ∈ st.allFs) (o : Obj) (ho : hp[p.2]? = some o)
    (hna : isPrimitiveArray K o.ty = false) (hnf : o.ty ≠ FS_ARRAY) (tr : TypeRec) (htr : getType ts o.ty = .ok tr) :
    ∃ j ∈ doc.fss, j.id = some p.1 ∧ j.ty = o.ty ∧ (∀ n, Xmi.slot st.heap p.2 n = alistGet? o.slots n) ∧
      ∀ m ∈ j.feats, (m.1 = "begin" ∨ m.1 = "end") →
        ∃ f ∈ allFeatures tr, xmlName f = m.1 ∧ renderFeature K ts cass st.heap p.2 f = .ok [m] := by
  obtain ⟨j, hj, hid, hty, hslots, _, m2⟩ := saveJson_element_aux hs hp' ho hna hnf htr
  refine ⟨j, hj, hid, hty, hslots, ?_⟩
  intro m hm hn
  obtain ⟨f, hf, out, hout, hmo⟩ := m2 m hm
  obtain ⟨h1, h2⟩ := renderFeature_offset_member_aux K ts cass st.heap p.2 f out hout m hmo hn
  rw [h2] at hout
  exact ⟨f, hf, h1, hout⟩

end Cassis.Json
