/-
C03, written-document level, the XMI writer: what `Xmi.renderFeature` emits for `begin`/`end`.
-/
import CassisModel.Proofs.OffsetsDocConv

namespace Cassis.Xmi
open Cassis.Offsets Cassis.TS Cassis.OffsetsDoc Cassis.Lex

theorem isIntRange_cases {r : String} (h : isIntRange r = true) :
    r = "uima.cas.Integer" ∨ r = "uima.cas.Short" ∨ r = "uima.cas.Long" ∨ r = "uima.cas.Byte" := by
  unfold isIntRange at h
  simp only [Bool.or_eq_true, beq_iff_eq] at h
  rcases h with ((h | h) | h) | h
  · exact Or.inl h
  · exact Or.inr (Or.inl h)
  · exact Or.inr (Or.inr (Or.inl h))
  · exact Or.inr (Or.inr (Or.inr h))

theorem _root_.Cassis.OffsetsDoc.IntFeat.noColl {K : Consts} {ts : TypeSystem} {f : Feature} (h : IntFeat K ts f)
    (hname : f.name = "begin" ∨ f.name = "end") : NoColl K ts f := by
  obtain ⟨hres, hr, _, hpa, hpl, hsa, hsl⟩ := h
  refine { res := Or.inl hres, n1 := ?_, n2 := ?_, pa := hpa, pl := hpl, fa := ?_, fl := ?_, sa := hsa, sl := hsl }
  · rcases hname with h | h <;> rw [h] <;> decide
  · rcases hname with h | h <;> rw [h] <;> decide
  · rcases isIntRange_cases hr with h | h | h | h <;> rw [h] <;> decide
  · rcases isIntRange_cases hr with h | h | h | h <;> rw [h] <;> decide

theorem slot_obj {hp : Heap} {a : Nat} {n : String} {v : Val} (h : slot hp a n = some v) :
    ∃ o, hp[a]? = some o ∧ alistGet? o.slots n = some v := by
  unfold slot Traverse.slot at h
  cases ho : hp[a]? with
  | none => rw [ho] at h; cases h
  | some o => rw [ho] at h; exact ⟨o, rfl, h⟩

theorem renderFeature_offset_aux (K : Consts) (ts : TypeSystem) (cass : List Cas) (hp : Heap) (a : Nat) (f : Feature)
    (ci : Nat) (vn : String) (c : Cas) (view : View) (t : List Nat) (i : Int)
    (hf : IntFeat K ts f) (hname : f.name = "begin" ∨ f.name = "end")
    (hsofa : slot hp a "sofa" = some (.sofa ci vn)) (hc : cass[ci]? = some c)
    (hv : Cas.getViewRec c vn = some view) (ht : view.sofa.text = some t) (hok : SofaConvOk view.sofa)
    (hval : slot hp a f.name = some (.int i)) :
    renderFeature K ts cass hp a true f = .ok ([(f.name, showInt (extOffset t i))], []) := by
  obtain ⟨o, ho, hvo⟩ := slot_obj hval
  obtain ⟨o', ho', hso⟩ := slot_obj hsofa
  rw [ho] at ho'
  cases ho'
  have hview : (cass[ci]?).bind (fun c => Cas.getViewRec c vn) = some view := by rw [hc]; exact hv
  have hns : f.name ≠ "sofa" := by rcases hname with h | h <;> rw [h] <;> decide
  rw [renderFeature_int K ts cass hp a true f o i ho (IntFeat.noColl hf hname) hvo hns hf.2.1 hf.2.2.1
    (fun _ => ⟨ci, vn, view, hso, hview⟩), xmlName_of_not_reserved f hf.1]
  have hbe : (true && (f.name == "begin" || f.name == "end")) = true := by
    rcases hname with h | h <;> rw [h] <;> decide
  unfold extInt
  rw [if_pos hbe, hso]
  dsimp only
  rw [hview]
  dsimp only
  rw [conv_ext view.sofa t ht hok i]

/-- a structure that is not an annotation: integer features named `begin` / `end` are written as they are -/
theorem renderFeature_plain_aux (K : Consts) (ts : TypeSystem) (cass : List Cas) (hp : Heap) (a : Nat) (f : Feature)
    (i : Int) (hf : IntFeat K ts f) (hname : f.name = "begin" ∨ f.name = "end")
    (hval : slot hp a f.name = some (.int i)) :
    renderFeature K ts cass hp a false f = .ok ([(f.name, showInt i)], []) := by
  obtain ⟨o, ho, hvo⟩ := slot_obj hval
  have hns : f.name ≠ "sofa" := by rcases hname with h | h <;> rw [h] <;> decide
  rw [renderFeature_int K ts cass hp a false f o i ho (IntFeat.noColl hf hname) hvo hns hf.2.1 hf.2.2.1
    (fun h => by cases h), xmlName_of_not_reserved f hf.1]
  rfl

/-- the four built-in integer types, declared directly under TOP, with the generated constants -/
theorem intFeat_builtin_aux (ts : TypeSystem) (f : Feature) (hres : f.reserved = false)
    (hr : isIntRange f.range = true) (hsup : superOf ts f.range = some TOP) : IntFeat Gen.consts ts f := by
  have hlen : ∃ m, ts.types.length = m + 1 := by
    unfold superOf find? at hsup
    cases hts : ts.types with
    | nil => rw [hts] at hsup; cases hsup
    | cons x xs => exact ⟨xs.length, rfl⟩
  obtain ⟨m, hm⟩ := hlen
  have hinst : ∀ p : String, f.range ≠ p → TOP ≠ p → isInstanceOf ts f.range p = false := by
    intro p h1 h2
    unfold isInstanceOf
    rw [hm]
    have hnt : f.range ≠ TOP := by rcases isIntRange_cases hr with h | h | h | h <;> rw [h] <;> decide
    show (if (f.range == p) = true then true else if (f.range == TOP) = true then false
      else isInstanceOfAux ts p (m + 1) (superOf ts f.range)) = false
    rw [if_neg (by simpa using h1), if_neg (by simpa using hnt), hsup]
    show (if (TOP == p) = true then true else if (TOP == TOP) = true then false else _) = false
    rw [if_neg (by simpa using h2), if_pos (by decide)]
  refine ⟨hres, hr, ?_, ?_, ?_, ?_, ?_⟩
  · unfold isPrimitive
    rw [hm]
    rcases isIntRange_cases hr with h | h | h | h <;> rw [h] <;> rfl
  · rcases isIntRange_cases hr with h | h | h | h <;> rw [h] <;> decide
  · rcases isIntRange_cases hr with h | h | h | h <;> rw [h] <;> decide
  · apply hinst
    · rcases isIntRange_cases hr with h | h | h | h <;> rw [h] <;> decide
    · decide
  · apply hinst
    · rcases isIntRange_cases hr with h | h | h | h <;> rw [h] <;> decide
    · decide

end Cassis.Xmi
