/-
C16 with collections, layer TY: the objects the XMI reader makes for *inlined* collections are typed by the range of the
feature that holds them.

The round-trip proof (`Proofs/RoundTripColl*.lean`) describes these objects by their content only (`ArrAt`, `ListAt`:
no id, the `elements` / the heads).  The JSON writer, which runs on the loaded CAS in the conversion chain, looks at
their types.  This file proves an invariant of the first two passes of the reader (`pass1`, `postAll`) that is
independent of the round trip: whenever slot `f.name` of an object that carries an id holds a reference to an object
without id, that object is an array object of type `f.range` with the single slot `elements` (`TArr`), or the first
node of a list whose nodes have the node types of the list type `f.range` and the slots `head`, `tail` (`TList`).
-/
import CassisModel.Proofs.RoundTripCollDefs
import CassisModel.Proofs.RoundTripCollElemGenR1
import CassisModel.Proofs.XmiLoad
import CassisModel.Proofs.XmiLoad2
import CassisModel.Proofs.RoundTripPost

namespace Cassis.ChainC
open Cassis.TS Cassis.Traverse Cassis.Xmi Cassis.Lex

variable {K : Consts}

/-! ### the objects the reader makes -/

/-- the four list kinds -/
inductive LK where
  | fs | int | flt | str
deriving DecidableEq, Repr

def LK.range : LK → String
  | .fs => FS_LIST
  | .int => INTEGER_LIST
  | .flt => FLOAT_LIST
  | .str => STRING_LIST

def LK.emptyT : LK → String
  | .fs => "uima.cas.EmptyFSList"
  | .int => "uima.cas.EmptyIntegerList"
  | .flt => "uima.cas.EmptyFloatList"
  | .str => "uima.cas.EmptyStringList"

def LK.neT : LK → String
  | .fs => "uima.cas.NonEmptyFSList"
  | .int => "uima.cas.NonEmptyIntegerList"
  | .flt => "uima.cas.NonEmptyFloatList"
  | .str => "uima.cas.NonEmptyStringList"

/-- a list of kind `k` made by the reader: nodes without id, of the node types of the kind, with exactly the slots
    `head`, `tail` (none for the empty node) -/
inductive TList (hp : Heap) (k : LK) : Nat → Prop
  | nil {a : Nat} {o : Obj} : hp[a]? = some o → o.xid = none → o.ty = k.emptyT → o.slots = [] → TList hp k a
  | cons {a : Nat} {o : Obj} {v : Val} {a' : Nat} : hp[a]? = some o → o.xid = none → o.ty = k.neT →
      o.slots = [("head", v), ("tail", .ref a')] → TList hp k a' → TList hp k a

/-- an array object made by the reader: no id, type `r`, the single slot `elements` -/
def TArr (hp : Heap) (r : String) (a : Nat) : Prop :=
  ∃ (o : Obj) (ev : Val), hp[a]? = some o ∧ o.xid = none ∧ o.ty = r ∧ o.slots = [("elements", ev)]

/-- the object at `a` is a collection object the reader made for a feature of range `r` -/
def NewFor (K : Consts) (hp : Heap) (r : String) (a : Nat) : Prop :=
  (TArr hp r a ∧ (isPrimitiveArray K r = true ∨ r = FS_ARRAY)) ∨ ∃ k : LK, r = k.range ∧ TList hp k a

theorem TList.frz {hp hp' : Heap} (f : Frz hp hp') {k : LK} : ∀ {a : Nat}, TList hp k a → TList hp' k a := by
  intro a h
  induction h with
  | nil h1 h2 h3 h4 => exact .nil (f.2 _ _ h1 h2) h2 h3 h4
  | cons h1 h2 h3 h4 _ ih => exact .cons (f.2 _ _ h1 h2) h2 h3 h4 ih

theorem TArr.frz {hp hp' : Heap} (f : Frz hp hp') {r : String} {a : Nat} (h : TArr hp r a) : TArr hp' r a := by
  obtain ⟨o, ev, h1, h2, h3, h4⟩ := h
  exact ⟨o, ev, f.2 _ _ h1 h2, h2, h3, h4⟩

theorem NewFor.frz {hp hp' : Heap} (f : Frz hp hp') {r : String} {a : Nat} (h : NewFor K hp r a) : NewFor K hp' r a := by
  rcases h with ⟨h, hr⟩ | ⟨k, hk, h⟩
  · exact .inl ⟨h.frz f, hr⟩
  · exact .inr ⟨k, hk, h.frz f⟩

/-! ### later heaps -/

def HasId (hp : Heap) (b : Nat) : Prop := ∃ ob : Obj, hp[b]? = some ob ∧ ob.xid ≠ none

/-- `hp'` is a later heap of the reader: every object is still there with its type and id, unchanged if it has no id -/
def Later (hp hp' : Heap) : Prop :=
  ∀ (b : Nat) (o : Obj), hp[b]? = some o → ∃ o' : Obj, hp'[b]? = some o' ∧ o'.ty = o.ty ∧ o'.xid = o.xid ∧
    (o.xid = none → o' = o)

theorem Later.refl (hp : Heap) : Later hp hp := fun _ o h => ⟨o, h, rfl, rfl, fun _ => rfl⟩

theorem Later.trans {h1 h2 h3 : Heap} (a : Later h1 h2) (b : Later h2 h3) : Later h1 h3 := by
  intro i o ho
  obtain ⟨o2, g1, g2, g3, g4⟩ := a i o ho
  obtain ⟨o3, k1, k2, k3, k4⟩ := b i o2 g1
  refine ⟨o3, k1, k2.trans g2, k3.trans g3, fun hn => ?_⟩
  have := g4 hn
  subst this
  exact k4 hn

theorem Later.length {hp hp' : Heap} (l : Later hp hp') : hp.length ≤ hp'.length := by
  rcases Nat.lt_or_ge hp'.length hp.length with h | h
  · have hlt : hp'.length < hp.length := h
    obtain ⟨o', h1, _⟩ := l hp'.length (hp[hp'.length]) (List.getElem?_eq_getElem hlt)
    rw [List.getElem?_eq_none (Nat.le_refl _)] at h1
    cases h1
  · exact h

theorem Later.toFrz {hp hp' : Heap} (l : Later hp hp') : Frz hp hp' :=
  ⟨l.length, fun a o h hx => by
    obtain ⟨o', h1, _, _, h4⟩ := l a o h
    rw [h1, h4 hx]⟩

theorem Later.hasId {hp hp' : Heap} (l : Later hp hp') {b : Nat} (h : HasId hp b) : HasId hp' b := by
  obtain ⟨ob, h1, h2⟩ := h
  obtain ⟨o', g1, _, g3, _⟩ := l b ob h1
  exact ⟨o', g1, by rw [g3]; exact h2⟩

theorem Later.append (hp t : Heap) : Later hp (hp ++ t) := by
  intro b o h
  refine ⟨o, ?_, rfl, rfl, fun _ => rfl⟩
  rw [List.getElem?_append_left (List.getElem?_eq_some_iff.mp h).1]
  exact h

/-- replacing an object by one of the same type and id; the object carries an id -/
theorem Later.set {hp : Heap} {a : Nat} {o o' : Obj} (h : hp[a]? = some o) (hx : o.xid ≠ none) (hty : o'.ty = o.ty)
    (hxid : o'.xid = o.xid) : Later hp (hp.set a o') := by
  intro b ob hb
  by_cases e : a = b
  · subst e
    rw [h] at hb
    cases hb
    refine ⟨o', ?_, hty, hxid, fun hn => absurd hn hx⟩
    rw [List.getElem?_set_self (List.getElem?_eq_some_iff.mp h).1]
  · exact ⟨ob, by rw [List.getElem?_set_ne e]; exact hb, rfl, rfl, fun _ => rfl⟩

/-! ### the invariant -/

/-- the target of a reference held by a feature of range `r`: a structure with an id, or a collection the reader made
    for the range -/
def RefOK (K : Consts) (hp : Heap) (r : String) (b : Nat) : Prop := HasId hp b ∨ NewFor K hp r b

theorem RefOK.later {hp hp' : Heap} (l : Later hp hp') {r : String} {b : Nat} (h : RefOK K hp r b) : RefOK K hp' r b := by
  rcases h with h | h
  · exact .inl (l.hasId h)
  · exact .inr (h.frz l.toFrz)

/-- every reference slot of `o` is fine -/
def OwnerOk (K : Consts) (ts : TypeSystem) (hp : Heap) (o : Obj) : Prop :=
  ∀ t : TypeRec, getType ts o.ty = .ok t → ∀ f ∈ allFeatures t, ∀ b : Nat,
    alistGet? o.slots f.name = some (.ref b) → RefOK K hp f.range b

/-- the typing invariant of the reader: the objects behind the old heap (`n0` objects) that carry an id -/
def TI (K : Consts) (ts : TypeSystem) (n0 : Nat) (hp : Heap) : Prop :=
  ∀ (a : Nat) (o : Obj), n0 ≤ a → hp[a]? = some o → o.xid ≠ none → OwnerOk K ts hp o

theorem OwnerOk.later {ts : TypeSystem} {hp hp' : Heap} (l : Later hp hp') {o : Obj} (h : OwnerOk K ts hp o) :
    OwnerOk K ts hp' o :=
  fun t ht f hf b hb => (h t ht f hf b hb).later l

theorem TI.init (ts : TypeSystem) (hp : Heap) : TI K ts hp.length hp := by
  intro a o ha ho
  rw [List.getElem?_eq_none ha] at ho
  cases ho

/-- objects without id are appended -/
theorem TI.append {ts : TypeSystem} {n0 : Nat} {hp : Heap} (h : TI K ts n0 hp) (ext : List Obj)
    (hext : ∀ ob ∈ ext, ob.xid = none) : TI K ts n0 (hp ++ ext) := by
  intro a o ha ho hx
  rcases Nat.lt_or_ge a hp.length with hlt | hge
  · rw [List.getElem?_append_left hlt] at ho
    exact (h a o ha ho hx).later (Later.append hp ext)
  · rw [List.getElem?_append_right hge] at ho
    exact absurd (hext o (List.mem_of_getElem? ho)) hx

/-- a new object whose reference slots are fine is appended -/
theorem TI.snoc {ts : TypeSystem} {n0 : Nat} {hp : Heap} (h : TI K ts n0 hp) (o1 : Obj)
    (h1 : OwnerOk K ts (hp ++ [o1]) o1) : TI K ts n0 (hp ++ [o1]) := by
  intro a o ha ho hx
  rcases Nat.lt_or_ge a hp.length with hlt | hge
  · rw [List.getElem?_append_left hlt] at ho
    exact (h a o ha ho hx).later (Later.append hp [o1])
  · rw [List.getElem?_append_right hge] at ho
    have : o = o1 := by
      have := List.mem_of_getElem? ho
      simpa using this
    subst this
    exact h1

theorem alistGet?_alistSet' {β} (l : List (String × β)) (k n : String) (v : β) :
    alistGet? (alistSet l k v) n = if n = k then some v else alistGet? l n := by
  by_cases h : n = k
  · subst h; rw [if_pos rfl, alistGet?_set_same]
  · rw [if_neg h, alistGet?_set_other _ _ _ _ h]

/-- one slot of an object that carries an id is assigned -/
theorem TI.set {ts : TypeSystem} {n0 : Nat} {hp : Heap} (h : TI K ts n0 hp) {a : Nat} {o : Obj} {n : String} (w : Val)
    (ho : hp[a]? = some o) (hx : o.xid ≠ none)
    (hw : ∀ t : TypeRec, getType ts o.ty = .ok t → ∀ f ∈ allFeatures t, f.name = n → ∀ b : Nat, w = .ref b →
      RefOK K (hp.set a { o with slots := alistSet o.slots n w }) f.range b) :
    TI K ts n0 (hp.set a { o with slots := alistSet o.slots n w }) ∧
      Later hp (hp.set a { o with slots := alistSet o.slots n w }) := by
  have hl : Later hp (hp.set a { o with slots := alistSet o.slots n w }) := Later.set ho hx rfl rfl
  refine ⟨?_, hl⟩
  intro a2 o2 ha2 ho2 hx2
  by_cases e : a = a2
  · subst e
    rw [List.getElem?_set_self (List.getElem?_eq_some_iff.mp ho).1] at ho2
    cases ho2
    intro t ht f hf b hb
    have hb' : alistGet? (alistSet o.slots n w) f.name = some (.ref b) := hb
    rw [alistGet?_alistSet'] at hb'
    by_cases hn : f.name = n
    · rw [if_pos hn] at hb'
      exact hw t ht f hf hn b (Option.some.inj hb')
    · rw [if_neg hn] at hb'
      exact (h a o ha2 ho hx t ht f hf b hb').later hl
  · rw [List.getElem?_set_ne e] at ho2
    exact (h a2 o2 ha2 ho2 hx2).later hl

/-! ### `Heap.setSlot` -/

theorem setSlot_eq {hp hp' : Heap} {a : Nat} {n : String} {w : Val} (h : Heap.setSlot hp a n w = .ok hp')
    (hn : n ≠ "xmiID") :
    ∃ (o : Obj) (u : Val), hp[a]? = some o ∧ alistGet? o.slots n = some u ∧
      hp' = hp.set a { o with slots := alistSet o.slots n w } := by
  unfold Heap.setSlot at h
  cases ho : hp[a]? with
  | none => rw [ho] at h; cases h
  | some o =>
    rw [ho] at h
    dsimp only at h
    cases hs : alistGet? o.slots n with
    | some u =>
      rw [hs] at h
      cases h
      exact ⟨o, u, rfl, hs, rfl⟩
    | none =>
      rw [hs] at h
      dsimp only at h
      have : (n == "xmiID") = false := by simpa using hn
      rw [this] at h
      cases h

/-! ### the list builders -/

theorem getElem?_snoc_len (hp : Heap) (o : Obj) : (hp ++ [o])[hp.length]? = some o := by
  rw [List.getElem?_append_right (Nat.le_refl _), Nat.sub_self]
  rfl

theorem tlistFold {α} (k : LK) (g : Heap × Nat → α → Obj)
    (hg : ∀ acc v, (g acc v).xid = none ∧ (g acc v).ty = k.neT ∧
      ∃ hd : Val, (g acc v).slots = [("head", hd), ("tail", .ref acc.2)]) (vals : List α) :
    ∀ (acc : Heap × Nat), TList acc.1 k acc.2 →
      ∃ nodes : List Obj,
        (vals.foldl (fun acc v => (acc.1 ++ [g acc v], acc.1.length)) acc).1 = acc.1 ++ nodes ∧
        (∀ o ∈ nodes, o.xid = none) ∧
        TList (vals.foldl (fun acc v => (acc.1 ++ [g acc v], acc.1.length)) acc).1 k
          (vals.foldl (fun acc v => (acc.1 ++ [g acc v], acc.1.length)) acc).2 := by
  induction vals with
  | nil =>
    intro acc h
    exact ⟨[], (List.append_nil _).symm, fun _ h => (by cases h), h⟩
  | cons v vals ih =>
    intro acc h
    rw [List.foldl_cons]
    obtain ⟨g1, g2, hd, g3⟩ := hg acc v
    have hstep : TList (acc.1 ++ [g acc v]) k acc.1.length :=
      .cons (getElem?_snoc_len _ _) g1 g2 g3 (TList.frz (Frz.append _ _) h)
    obtain ⟨nodes, h1, h2, h3⟩ := ih (acc.1 ++ [g acc v], acc.1.length) hstep
    refine ⟨g acc v :: nodes, ?_, ?_, h3⟩
    · rw [h1]; simp only [List.append_assoc, List.singleton_append]
    · intro o ho
      rcases List.mem_cons.1 ho with rfl | ho
      · exact g1
      · exact h2 o ho

theorem tlistBuild {α} (k : LK) (hp : Heap) (e0 : Obj) (he0 : e0.xid = none) (he0t : e0.ty = k.emptyT)
    (he0s : e0.slots = []) (g : Heap × Nat → α → Obj)
    (hg : ∀ acc v, (g acc v).xid = none ∧ (g acc v).ty = k.neT ∧
      ∃ hd : Val, (g acc v).slots = [("head", hd), ("tail", .ref acc.2)]) (vals : List α) :
    ∃ (nodes : List Obj) (l : Nat),
      vals.foldl (fun acc v => (acc.1 ++ [g acc v], acc.1.length)) (hp ++ [e0], hp.length) = (hp ++ nodes, l) ∧
      (∀ o ∈ nodes, o.xid = none) ∧ TList (hp ++ nodes) k l := by
  have h0 : TList (hp ++ [e0], hp.length).1 k (hp ++ [e0], hp.length).2 :=
    .nil (getElem?_snoc_len _ _) he0 he0t he0s
  obtain ⟨nodes, h1, h2, h3⟩ := tlistFold k g hg vals (hp ++ [e0], hp.length) h0
  refine ⟨e0 :: nodes, _, Prod.ext (h1.trans (by simp only [List.append_assoc, List.singleton_append])) rfl,
    ?_, ?_⟩
  · intro o ho
    rcases List.mem_cons.1 ho with rfl | ho
    · exact he0
    · exact h2 o ho
  · rw [h1] at h3
    simpa only [List.append_assoc, List.singleton_append] using h3

theorem buildFsList_typed (hp : Heap) (tsIdx : Nat) (targets : List Nat) :
    ∃ (nodes : List Obj) (l : Nat), buildFsList hp tsIdx targets = (hp ++ nodes, l) ∧
      (∀ o ∈ nodes, o.xid = none) ∧ TList (hp ++ nodes) .fs l := by
  unfold buildFsList
  exact tlistBuild .fs hp _ rfl rfl rfl (fun (acc : Heap × Nat) (t : Nat) =>
      ({ ty := "uima.cas.NonEmptyFSList", ts := tsIdx, xid := none,
         slots := [("head", Val.ref t), ("tail", Val.ref acc.2)] } : Obj))
    (fun _ _ => ⟨rfl, rfl, _, rfl⟩) targets.reverse

theorem buildPrimList_typed {hp hp' : Heap} {tsIdx : Nat} {r : String} {elems : List (Option String)} {l : Nat}
    (h : buildPrimList hp tsIdx r elems = .ok (hp', l)) :
    ∃ (k : LK) (nodes : List Obj), r = k.range ∧ hp' = hp ++ nodes ∧ (∀ o ∈ nodes, o.xid = none) ∧ TList hp' k l := by
  unfold buildPrimList at h
  by_cases h1 : (r == INTEGER_LIST) = true
  · simp only [h1, if_true, bind, Except.bind, pure, Except.pure] at h
    split at h
    · cases h
    · rename_i vals _
      obtain ⟨nodes, l', e, g1, g2⟩ := tlistBuild .int hp
        { ty := "uima.cas.EmptyIntegerList", ts := tsIdx, xid := none, slots := [] } rfl rfl rfl
        (fun (acc : Heap × Nat) (v : Val) =>
          ({ ty := "uima.cas.NonEmptyIntegerList", ts := tsIdx, xid := none,
             slots := [("head", v), ("tail", Val.ref acc.2)] } : Obj))
        (fun _ _ => ⟨rfl, rfl, _, rfl⟩) vals.reverse
      rw [e] at h
      cases h
      exact ⟨.int, nodes, eq_of_beq h1, rfl, g1, g2⟩
  · by_cases h2 : (r == FLOAT_LIST) = true
    · simp only [h1, h2, if_true, Bool.false_eq_true, if_false, bind, Except.bind, pure, Except.pure] at h
      split at h
      · cases h
      · rename_i vals _
        obtain ⟨nodes, l', e, g1, g2⟩ := tlistBuild .flt hp
          { ty := "uima.cas.EmptyFloatList", ts := tsIdx, xid := none, slots := [] } rfl rfl rfl
          (fun (acc : Heap × Nat) (v : Val) =>
            ({ ty := "uima.cas.NonEmptyFloatList", ts := tsIdx, xid := none,
               slots := [("head", v), ("tail", Val.ref acc.2)] } : Obj))
          (fun _ _ => ⟨rfl, rfl, _, rfl⟩) vals.reverse
        rw [e] at h
        cases h
        exact ⟨.flt, nodes, eq_of_beq h2, rfl, g1, g2⟩
    · by_cases h3 : (r == STRING_LIST) = true
      · simp only [h1, h2, h3, if_true, Bool.false_eq_true, if_false, bind, Except.bind, pure, Except.pure] at h
        split at h
        · cases h
        · rename_i vals _
          obtain ⟨nodes, l', e, g1, g2⟩ := tlistBuild .str hp
            { ty := "uima.cas.EmptyStringList", ts := tsIdx, xid := none, slots := [] } rfl rfl rfl
            (fun (acc : Heap × Nat) (v : Val) =>
              ({ ty := "uima.cas.NonEmptyStringList", ts := tsIdx, xid := none,
                 slots := [("head", v), ("tail", Val.ref acc.2)] } : Obj))
            (fun _ _ => ⟨rfl, rfl, _, rfl⟩) vals.reverse
          rw [e] at h
          cases h
          exact ⟨.str, nodes, eq_of_beq h3, rfl, g1, g2⟩
      · simp only [h1, h2, h3, Bool.false_eq_true, if_false, bind, Except.bind, pure, Except.pure, throw, throwThe,
          MonadExceptOf.throw] at h
        cases h

end Cassis.ChainC
