/-
C20 across the XMI round trip, whole format, layer 1: the relation between the addresses of the written heap `H` and the
loaded heap `hpL` (`ARc`): a collected structure and its loaded counterpart; an inlined array and the array object the
reader made for it; the first node of an inlined list and the node the reader made.  `ARc` is a simulation
(`simStep_c`, `Proofs/ComparableSim.lean`), and corresponding slots hold related values (`slot_vrof`, next file).
-/
import CassisModel.Spec.ComparableIsoColl
import CassisModel.Proofs.ComparableSim
import CassisModel.Proofs.ComparableIsoR
import CassisModel.Proofs.ComparableIsoFlat
import CassisModel.Proofs.RoundTripCollFixObj
import CassisModel.Proofs.ChainCollXmiCore

namespace Cassis.Comparable
open Cassis.TS Cassis.Traverse Cassis.Xmi Cassis.ChainC

/-- an `elements` value the comparable text survives: a list value, no empty string, references to collected
    structures only -/
def ElemsOk (H : Heap) (L : List (Int × Nat)) (ev : Val) : Prop :=
  isListV ev = true ∧ NoEmptyStr ev ∧
  ∀ l, ev = .refs l → ∀ r ∈ l, ∃ (b : Nat) (x : Int), r = some b ∧ xidOf H b = some x ∧ (x, b) ∈ L

/-- related addresses -/
def ARc (K : Consts) (H hpL : Heap) (L : List (Int × Nat)) (na : Int → Nat) (addrs : List Nat) (a a' : Nat) : Prop :=
  (∃ q ∈ L, q.2 = a ∧ a' = na q.1) ∨
  (isArrayFs K H a = true ∧ isArrayFs K hpL a' = true ∧ ∃ ev : Val, Traverse.slot H a "elements" = some ev ∧
    Traverse.slot hpL a' "elements" = some (elemsExp H na ev) ∧ ElemsOk H L ev) ∨
  (isArrayFs K H a = false ∧ isArrayFs K hpL a' = false ∧ (∀ b ∈ addrs, xidOf H b ≠ xidOf H a) ∧
    xidOf hpL a' = none)

theorem map_normTxt_of_noEmpty : ∀ (l : List (Option String)), some "" ∉ l → l.map normTxt = l
  | [], _ => rfl
  | e :: l, h => by
    rw [List.map_cons, map_normTxt_of_noEmpty l (fun hm => h (List.mem_cons_of_mem _ hm))]
    have he : e ≠ some "" := fun he => h (by rw [he]; exact List.mem_cons_self)
    unfold normTxt
    rw [if_neg (by simpa using he)]

section
variable {K : Consts} {H hpL : Heap} {L : List (Int × Nat)} {na : Int → Nat} {addrs : List Nat}

theorem refsRel_exp : ∀ (l : List (Option Nat)),
    (∀ r ∈ l, ∃ (b : Nat) (x : Int), r = some b ∧ xidOf H b = some x ∧ (x, b) ∈ L) →
    RefsRel (ARc K H hpL L na addrs) l (l.map (fun r => r.bind (fun b => (xidOf H b).map na)))
  | [], _ => trivial
  | r :: l, h => by
    obtain ⟨b, x, rfl, hx, hxl⟩ := h r List.mem_cons_self
    rw [List.map_cons]
    simp only [Option.bind_some, hx, Option.map_some]
    exact ⟨Or.inl ⟨(x, b), hxl, rfl, rfl⟩, refsRel_exp l (fun r hr => h r (List.mem_cons_of_mem _ hr))⟩

/-- the reader's version of an `elements` value is related to the written one -/
theorem vrof_elems {ev : Val} (h : ElemsOk H L ev) : VRof (ARc K H hpL L na addrs) ev (elemsExp H na ev) := by
  obtain ⟨hl, hs, hr⟩ := h
  cases ev with
  | refs l => exact Or.inr (Or.inr (Or.inr ⟨l, _, rfl, rfl, refsRel_exp l (hr l rfl)⟩))
  | ints l =>
    cases l with
    | nil => exact Or.inr (Or.inl ⟨Or.inr (Or.inl rfl), Or.inl rfl⟩)
    | cons i l => exact Or.inl ⟨_, rfl, rfl⟩
  | bools l =>
    cases l with
    | nil => exact Or.inr (Or.inl ⟨Or.inr (Or.inr (Or.inr (Or.inl rfl))), Or.inl rfl⟩)
    | cons i l => exact Or.inl ⟨_, rfl, rfl⟩
  | floats l =>
    cases l with
    | nil => exact Or.inr (Or.inl ⟨Or.inr (Or.inr (Or.inl rfl)), Or.inl rfl⟩)
    | cons i l => exact Or.inl ⟨_, rfl, rfl⟩
  | strs l =>
    cases l with
    | nil => exact Or.inr (Or.inl ⟨Or.inr (Or.inr (Or.inr (Or.inr rfl))), Or.inl rfl⟩)
    | cons i l =>
      have : elemsExp H na (.strs (i :: l)) = .strs (i :: l) := by
        show Val.strs ((i :: l).map normTxt) = _
        rw [map_normTxt_of_noEmpty _ hs]
      rw [this]
      exact Or.inl ⟨_, rfl, rfl⟩
  | _ => cases hl

theorem elemsOk_ne_none {ev : Val} (h : ElemsOk H L ev) : ev ≠ .none := by
  intro e; subst e; cases h.1

theorem elemsExp_ne_none {ev : Val} (h : ElemsOk H L ev) : elemsExp H na ev ≠ .none := by
  obtain ⟨hl, _, _⟩ := h
  cases ev with
  | refs l => intro e; cases e
  | ints l => cases l <;> (intro e; cases e)
  | bools l => cases l <;> (intro e; cases e)
  | floats l => cases l <;> (intro e; cases e)
  | strs l => cases l <;> (intro e; cases e)
  | _ => cases hl

end

/-! ### the setting -/

/-- what the round-trip proof knows about the loaded heap (`XLd`, `Proofs/ChainCollXmiCore.lean`), the hypotheses of
    `render_xmi_roundtrip_coll`, and the collected addresses -/
structure CtxC (K : Consts) (ts : TypeSystem) (c : Cas) (ci : Nat) (H : Heap) (L : List (Int × Nat)) (na : Int → Nat)
    (ia : Int → String → Nat) (ci' : Nat) (hpL : Heap) (addrs : List Nat) : Prop where
  hL : LOkC K ts c ci H L
  hrel : HeapRel H L na (E3c K ts H na ia ci') hpL
  hcolls : CollsAt K ts H L na ia hpL
  typed : ∀ q ∈ L, ∀ (o : Obj), H[q.2]? = some o → ∀ (n : String) (cc : Nat), alistGet? o.slots n = some (.ref cc) →
    inlineSlot K ts o n = true → ∀ (t : TypeRec) (f : Feature), find? ts o.ty = some t → f ∈ allFeatures t →
    f.name = n → NewFor K hpL f.range (ia q.1 n)
  nodes : NodeTysNotArr K
  inl : ∀ q ∈ L, InlOk K ts H addrs q.2
  addrs_sub : ∀ b ∈ addrs, ∃ q ∈ L, q.2 = b

section
variable {K : Consts} {ts : TypeSystem} {c : Cas} {ci : Nat} {H : Heap} {L : List (Int × Nat)} {na : Int → Nat}
  {ia : Int → String → Nat} {ci' : Nat} {hpL : Heap} {addrs : List Nat}

theorem CtxC.xid (X : CtxC K ts c ci H L na ia ci' hpL addrs) {q : Int × Nat} (hq : q ∈ L) :
    xidOf hpL (na q.1) = some q.1 := by
  obtain ⟨_, o2, _, ho2, _, hx2, _⟩ := X.hrel q hq
  unfold xidOf; rw [ho2]; exact hx2

theorem CtxC.phi (X : CtxC K ts c ci H L na ia ci' hpL addrs) {q : Int × Nat} (hq : q ∈ L) :
    phiOf H na q.2 = na q.1 := by
  unfold phiOf
  rw [(X.hL.ids q hq).1]

theorem CtxC.sameKey (X : CtxC K ts c ci H L na ia ci' hpL addrs) {q : Int × Nat} (hq : q ∈ L) :
    SameKey H hpL addrs (phiOf H na) q.2 (na q.1) := by
  intro b hb
  obtain ⟨q2, hq2, rfl⟩ := X.addrs_sub b hb
  rw [X.phi hq2, (X.hL.ids q2 hq2).1, (X.hL.ids q hq).1, X.xid hq2, X.xid hq]

theorem CtxC.tyOf (X : CtxC K ts c ci H L na ia ci' hpL addrs) {q : Int × Nat} (hq : q ∈ L) :
    tyOf hpL (na q.1) = Comparable.tyOf H q.2 := by
  obtain ⟨o, o', ho, ho', hty, _⟩ := X.hrel q hq
  unfold Comparable.tyOf
  rw [ho, ho']
  exact hty

/-- the slots of a loaded structure: those of the written one, sent through `E3c` -/
theorem CtxC.slot (X : CtxC K ts c ci H L na ia ci' hpL addrs) {q : Int × Nat} (hq : q ∈ L) {o : Obj}
    (ho : H[q.2]? = some o) (n : String) :
    Traverse.slot hpL (na q.1) n = (alistGet? o.slots n).map (E3c K ts H na ia ci' o n) := by
  obtain ⟨o1, o', ho1, ho', _, _, hkeys, hslots⟩ := X.hrel q hq
  rw [ho] at ho1; cases ho1
  unfold Traverse.slot
  rw [ho']
  simp only [Option.bind_some]
  cases h : alistGet? o.slots n with
  | some v => rw [hslots n v h]; rfl
  | none =>
    cases h' : alistGet? o'.slots n with
    | none => rfl
    | some w =>
      obtain ⟨v, hv⟩ := alistGet?_of_keys o.slots o'.slots n w hkeys.symm h'
      rw [h] at hv; cases hv

theorem E3c_list {o : Obj} {n : String} {ev : Val} (h : isListV ev = true) :
    E3c K ts H na ia ci' o n ev = elemsExp H na ev := by
  cases ev <;> first | rfl | cases h

theorem isArrayFs_of_obj {hp : Heap} {a : Nat} {o : Obj} (ho : hp[a]? = some o) :
    isArrayFs K hp a = isArray K o.ty := by
  unfold isArrayFs Comparable.tyOf
  rw [ho]

/-- the `elements` of a collected array object: `None`, or a value the comparable text survives -/
theorem CtxC.arrFs_elems (X : CtxC K ts c ci H L na ia ci' hpL addrs) {q : Int × Nat} (hq : q ∈ L)
    (harr : ArrFs K ts H q.2) :
    ∃ (o : Obj) (ev : Val), H[q.2]? = some o ∧ o.slots = [("elements", ev)] ∧ (ev = .none ∨ ElemsOk H L ev) := by
  obtain ⟨o, t, f, ev, ho, ht, htn, hsup, hall, hfn, hfr, hres, hsl, hna, hshape⟩ := harr
  refine ⟨o, ev, ho, hsl, ?_⟩
  have hel : alistGet? o.slots "elements" = some ev := by rw [hsl]; exact CAR.get_elems _
  have hstr : NoEmptyStr ev := (X.inl q hq).strs ev (CT.slot_of ho hel)
  rcases hshape with ⟨hty, _, _, hev⟩ | ⟨_, _, hev⟩ | ⟨_, _, _, hev⟩
  · rcases hev with rfl | ⟨l, rfl, hl⟩
    · exact Or.inl rfl
    · refine Or.inr ⟨rfl, trivial, ?_⟩
      intro l' hl' r hr
      cases hl'
      obtain ⟨b, hb, rfl⟩ := List.mem_map.mp hr
      obtain ⟨x, hx, hxl⟩ := X.hL.closed q hq b ⟨o, t, ho, ht, Or.inr (Or.inr (Or.inr ⟨hty, _, hel, hr⟩))⟩
      exact ⟨b, x, rfl, hx, hxl⟩
  · rcases hev with rfl | ⟨l, rfl⟩
    · exact Or.inr ⟨rfl, trivial, fun l' hl' r hr => by cases hl'; cases hr⟩
    · exact Or.inr ⟨rfl, hstr, fun l' hl' => by cases hl'⟩
  · rcases hev with rfl | hev
    · exact Or.inl rfl
    · rcases hev with rfl | ⟨_, l, rfl⟩ | ⟨_, l, rfl, _⟩ | ⟨_, l, rfl⟩ | ⟨_, l, rfl, _⟩
      · exact Or.inr ⟨rfl, trivial, fun l' hl' r hr => by cases hl'; cases hr⟩
      all_goals exact Or.inr ⟨rfl, trivial, fun l' hl' => by cases hl'⟩

/-- **`ARc` is a simulation**, for anchor maps that answer alike for the same key -/
theorem simStep_c (X : CtxC K ts c ci H L na ia ci' hpL addrs) {byId byId' : List (Option Int × String)}
    (hA : AnchRel H hpL addrs (phiOf H na) byId byId') :
    SimStep K H hpL byId byId' (ARc K H hpL L na addrs) := by
  intro a a' hr
  rcases hr with ⟨q, hq, rfl, rfl⟩ | ⟨h1, h2, ev, e1, e2, hok⟩ | ⟨h1, h2, hf, hn⟩
  · have hty : isArrayFs K hpL (na q.1) = isArrayFs K H q.2 := by
      unfold isArrayFs; rw [X.tyOf hq]
    by_cases harr : isArrayFs K H q.2 = true
    · refine Or.inr ⟨harr, by rw [hty]; exact harr, ?_⟩
      rcases X.hL.coll q hq with hg | ha
      · obtain ⟨o, t, ho, _, _, g1, _⟩ := hg
        rw [isArrayFs_of_obj ho, g1] at harr
        cases harr
      · obtain ⟨o, ev, ho, hsl, hev⟩ := X.arrFs_elems hq ha
        have hel : alistGet? o.slots "elements" = some ev := by rw [hsl]; exact CAR.get_elems _
        rw [CT.slot_of ho hel, X.slot hq ho, hel]
        rcases hev with rfl | hok
        · exact Or.inr (Or.inl ⟨rfl, rfl⟩)
        · refine Or.inr (Or.inr ⟨ev, _, rfl, rfl, elemsOk_ne_none hok, ?_, ?_⟩)
          · rw [E3c_list hok.1]; exact elemsExp_ne_none hok
          · rw [E3c_list hok.1]; exact vrof_elems hok
    · have harr' : isArrayFs K H q.2 = false := by simpa using harr
      exact Or.inl ⟨harr', by rw [hty]; exact harr', hA _ _ (X.sameKey hq)⟩
  · exact Or.inr ⟨h1, h2, Or.inr (Or.inr ⟨ev, _, e1, e2, elemsOk_ne_none hok, elemsExp_ne_none hok, vrof_elems hok⟩)⟩
  · refine Or.inl ⟨h1, h2, hA a a' (sameKey_fresh_aux H hpL addrs _ a a' hf ?_)⟩
    intro b hb
    obtain ⟨q, hq, rfl⟩ := X.addrs_sub b hb
    rw [X.phi hq, X.xid hq, hn]
    exact fun h => by cases h

end

end Cassis.Comparable
