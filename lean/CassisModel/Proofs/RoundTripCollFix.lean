/-
Fixpoint of the XMI round trip with collections (`Properties/C01FixpointColl.lean`): serialising the loaded CAS again
yields the identical document.

Layers (all in the namespace `CFX`):

| file | content |
|---|---|
| `RoundTripCollFixVals.lean` | values: `elemsExp` / `headExp` stay in the fragment and are written like the originals |
| `RoundTripCollFixSucc.lean` | on a `CollFs` structure the successors of `_find_all_fs` are exactly the `Target`s |
| `RoundTripCollFixFeat*.lean` | per feature (`FeatFix`): in the fragment again, rendered identically, same targets |
| `RoundTripCollFixObj.lean` | per structure (`ObjFix`) |
| `RoundTripCollFixTrav.lean` | the second traversal collects the same ids; `saveXmi_again_c` |
| this file | the reader's relations (from the layers of `xmi_roundtrip_coll`) plugged into `saveXmi_again_c` |

By-product (`xmi_roundtrip_coll_again`): the loaded structures are in the fragment `CollFs` again (in the loaded CAS).
-/
import CassisModel.Proofs.RoundTripColl
import CassisModel.Proofs.RoundTripCollFixTrav

namespace Cassis.Xmi
open Cassis.TS Cassis.Traverse Cassis.Lex

/-- the relations between the written and the loaded heap after the three passes of the reader (the internal
    statement of `xmi_roundtrip_coll_aux`) -/
theorem roundtrip_coll_core (K : Consts) (ts : TypeSystem) (cass : List Cas) (ci : Nat) (c : Cas) (hp : Heap)
    (tsIdx ci' : Nat) (doc : XDoc) (st : St)
    (hc : cass[ci]? = some c) (hwf : RTWf c hp) (hnull : NullOk ts)
    (hsave : saveXmi K ts cass ci hp = .ok (doc, st))
    (hcoll : ∀ q ∈ st.allFs, CollFs K ts c ci st.heap q.2)
    (hmem : ∀ nv ∈ c.views, ∀ e ∈ Index.all nv.2.idx, slot st.heap e.oid "sofa" ≠ some .none)
    (hmok : MembersOk c st.heap) :
    ∃ (na : Int → Nat) (ia : Int → String → Nat) (ld : Loaded),
      loadXmi K ts tsIdx ci' false st.heap doc = .ok ld ∧
      LOkC K ts c ci st.heap (sortById st.allFs) ∧
      HeapRel st.heap (sortById st.allFs) na (E3c K ts st.heap na ia ci') ld.heap ∧
      CollsAt K ts st.heap (sortById st.allFs) na ia ld.heap ∧
      ViewsRel st.heap na c ld.cas ∧
      ld.cas.views.map (viewContent ld.heap) = c.views.map (viewContent st.heap) := by
  have hL := lokC_of_save hc hwf hsave hcoll
  -- first pass
  have helem : Elem1Stmt K ts cass st.heap tsIdx (CollFs K ts c ci st.heap) := by
    intro a x hP hx
    rcases hP with hg | ha
    · exact gen_elem1 K ts cass ci c st.heap tsIdx hc a x hg hx
    · exact arr_elem1 K ts cass st.heap tsIdx a x ha hx
  obtain ⟨na, p, hp1, hna, hp1w, hrel1⟩ := pass1_coll K ts cass ci c hp tsIdx doc st hc hwf hsave hnull hL helem
  -- second pass
  have hI : PostInlineStmt K ts cass st.heap na tsIdx ci' p.sofas p.fss (fun _ => True) := by
    intro a o t f h1 h2 h3 h4 h5 h6 _
    rcases inlineFeat_range h6 with h | h
    · exact postInline_arr K ts cass st.heap na tsIdx ci' p.sofas p.fss a o t f h1 h2 h3 h4 h5 h6 h
    · exact postInline_list K ts cass st.heap na tsIdx ci' p.sofas p.fss a o t f h1 h2 h3 h4 h5 h6 h
  have hpost : Post2Stmt K ts cass st.heap (sortById st.allFs) na tsIdx ci' p.sofas p.fss
      (CollFs K ts c ci st.heap) := by
    intro q hq hP
    rcases hP with hg | ha
    · exact gen_post K ts cass ci c hp st.heap _ na tsIdx ci' p.sofas p.fss hc hwf hL hp1w.sofas hp1w.fss hI q hq hg
    · exact arr_post K ts cass ci c st.heap _ na tsIdx ci' p.sofas p.fss hL hp1w.fss q hq ha
  obtain ⟨hp2, hpa, hnull2, _, hrel2⟩ :=
    postAll_coll K ts cass ci c st.heap _ na tsIdx ci' p hnull hL hna hp1w hrel1 hpost
  obtain ⟨hE2, hcolls2⟩ := obj2_to_E2c hL hrel2
  -- third pass
  obtain ⟨ld, hbuild, hrel3, hvc, hviews, hfrz3⟩ :=
    buildCas_coll K ts cass ci c hp st.heap _ na (iaOf hp2 na) ci' p hp2 hc hwf hnull (lokW_of_lokC hL) hna hp1w
      hmem hmok hnull2 hE2
  have hcolls3 := collsAt_frz hcolls2 hfrz3
  have hload : loadXmi K ts tsIdx ci' false st.heap doc = .ok ld := by
    unfold loadXmi
    simp only [hp1, hpa, bind, Except.bind]
    exact hbuild
  exact ⟨na, iaOf hp2 na, ld, hload, hL, hrel3, hcolls3, hviews, hvc⟩

/-- serialising the loaded CAS again yields the identical document — and the loaded structures are in the fragment
    `CollFs` again -/
theorem xmi_roundtrip_coll_again (K : Consts) (ts : TypeSystem) (cass : List Cas) (ci : Nat) (c : Cas)
    (hp : Heap) (tsIdx : Nat) (doc : XDoc) (st : St) (ld : Loaded)
    (hc : cass[ci]? = some c) (hwf : RTWf c hp) (hnull : NullOk ts)
    (hsave : saveXmi K ts cass ci hp = .ok (doc, st))
    (hcoll : ∀ q ∈ st.allFs, CollFs K ts c ci st.heap q.2)
    (hmem : ∀ nv ∈ c.views, ∀ e ∈ Index.all nv.2.idx, slot st.heap e.oid "sofa" ≠ some .none)
    (hmok : MembersOk c st.heap)
    (hload : loadXmi K ts tsIdx cass.length false st.heap doc = .ok ld) :
    ∃ st' : St, saveXmi K ts (cass ++ [ld.cas]) cass.length ld.heap = .ok (doc, st') ∧
      st'.heap = ld.heap ∧
      ∀ r ∈ st'.allFs, CollFs K ts ld.cas cass.length st'.heap r.2 := by
  obtain ⟨na, ia, ld', hload', hL, hrel3, hcolls3, hviews, hvc⟩ :=
    roundtrip_coll_core K ts cass ci c hp tsIdx cass.length doc st hc hwf hnull hsave hcoll hmem hmok
  rw [hload] at hload'; cases hload'
  obtain ⟨⟨st', hs'⟩, hcoll'⟩ := CFX.saveXmi_again_c K ts cass ci c hp na ia doc st ld hc hwf hsave hL hrel3 hcolls3
    hviews hvc (loadXmi_nextXid_pos hload)
  -- the second traversal collects loaded counterparts only
  have hc' : (cass ++ [ld.cas])[cass.length]? = some ld.cas := List.getElem?_concat_length
  have hfa' := saveXmi_findAllFs hc' hs'
  have hxid : ∀ q ∈ sortById st.allFs, xidOf ld.heap (na q.1) = some q.1 := by
    intro q hq
    obtain ⟨_, o2, _, ho2, _, hx2, _⟩ := hrel3 q hq
    unfold xidOf; rw [ho2]; exact hx2
  obtain ⟨st2, hfa2, hheap2, hS2⟩ := CFX.new_traversal_c (cass := cass) (cass' := cass ++ [ld.cas]) hL hxid hviews
    (fun q hq => CFX.fix_obj hc hc' hwf hL hrel3 hcolls3 hviews q hq)
  rw [hfa'] at hfa2; cases hfa2
  refine ⟨st', hs', hheap2, ?_⟩
  intro r hr
  obtain ⟨q, hq, hrq⟩ := hS2 r hr
  rw [hheap2, hrq]
  exact hcoll' q hq

/-- serialising the loaded CAS again yields the identical document -/
theorem xmi_roundtrip_coll_fixpoint_aux (K : Consts) (ts : TypeSystem) (cass : List Cas) (ci : Nat) (c : Cas)
    (hp : Heap) (tsIdx : Nat) (doc : XDoc) (st : St) (ld : Loaded)
    (hc : cass[ci]? = some c) (hwf : RTWf c hp) (hnull : NullOk ts)
    (hsave : saveXmi K ts cass ci hp = .ok (doc, st))
    (hcoll : ∀ q ∈ st.allFs, CollFs K ts c ci st.heap q.2)
    (_hdis : ∀ q ∈ st.allFs, ∀ nv ∈ c.views, q.1 ≠ nv.2.sofa.xid)
    (hmem : ∀ nv ∈ c.views, ∀ e ∈ Index.all nv.2.idx, slot st.heap e.oid "sofa" ≠ some .none)
    (hmok : MembersOk c st.heap)
    (hload : loadXmi K ts tsIdx cass.length false st.heap doc = .ok ld) :
    ∃ st' : St, saveXmi K ts (cass ++ [ld.cas]) cass.length ld.heap = .ok (doc, st') := by
  obtain ⟨st', hs', _⟩ :=
    xmi_roundtrip_coll_again K ts cass ci c hp tsIdx doc st ld hc hwf hnull hsave hcoll hmem hmok hload
  exact ⟨st', hs'⟩

end Cassis.Xmi
