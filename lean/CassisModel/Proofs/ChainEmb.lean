/-
C16 with an embedded type system, the chain XMI → CAS → JSON → CAS (`Properties/C16ChainEmbedded.lean`): the XMI document is
read with the original type system, the JSON document is written with mode FULL / MINIMAL and read back WITHOUT a type
system.

Composition of
* `chain_xmi_json_coll_aux` (`Proofs/ChainColl.lean`): the chain with the original type system supplied at every step,
* `saveJson_mode_fss_aux`: the mode of the writer influences the `%TYPES` section only (same structures, views, ids),
* `full_load_of_none_load` / `emb_load_of_none_load` (`Proofs/RoundTripJsonEmb.lean`): loading the FULL / MINIMAL document
  without a type system yields what loading the NONE document with the original yields, up to slot order (`HeapSim`),
* for MINIMAL `json_minimal_ts_agree_aux`, which needs that every structure the JSON writer collects from the CAS loaded
  from XMI has a registered type not named `…[]`: `chain_xmi_json_jfrag` below (the first half of the proof of
  `chain_xmi_json_coll_aux`, with the JSON fragment of the loaded CAS exported).
-/
import CassisModel.Proofs.ChainColl
import CassisModel.Proofs.RoundTripJsonEmb
import CassisModel.Proofs.RoundTripJsonEmbMin

namespace Cassis
open Cassis.TS Cassis.Traverse Cassis.Xmi Cassis.Chain Cassis.ChainC Cassis.Json

/-- the conclusion of the chain theorems is invariant under "the same CAS and the same heap up to slot order" -/
theorem chain_transfer (K : Consts) (ts : TypeSystem) (c : Cas) (st : St) (ld ld' : Json.Loaded)
    (fss : List (Int × Val)) (hcas : ld'.cas = ld.cas) (hh : HeapSim ld.heap ld'.heap)
    (H1 : ld.cas.views.map (viewContent ld.heap) = c.views.map (viewContent st.heap))
    (H2 : ∀ q ∈ st.allFs, ∃ (a2 : Nat) (o o2 : Obj), Json.lookup fss q.1 = some (.ref a2) ∧
          st.heap[q.2]? = some o ∧ ld.heap[a2]? = some o2 ∧ o2.ty = o.ty ∧ o2.xid = some q.1 ∧
          ∀ t : TypeRec, find? ts o.ty = some t → ∀ f ∈ allFeatures t,
            featContentC K ld.heap a2 f = featContentC K st.heap q.2 f) :
    ld'.cas.views.map (viewContent ld'.heap) = c.views.map (viewContent st.heap) ∧
    (∀ q ∈ st.allFs, ∃ (a2 : Nat) (o o2 : Obj), Json.lookup fss q.1 = some (.ref a2) ∧
          st.heap[q.2]? = some o ∧ ld'.heap[a2]? = some o2 ∧ o2.ty = o.ty ∧ o2.xid = some q.1 ∧
          ∀ t : TypeRec, find? ts o.ty = some t → ∀ f ∈ allFeatures t,
            featContentC K ld'.heap a2 f = featContentC K st.heap q.2 f) := by
  refine ⟨?_, ?_⟩
  · rw [hcas, ← H1]
    apply List.map_congr_left
    intro nv _
    exact viewContent_sim hh nv
  · intro q hq
    obtain ⟨a2, o, o2, h1, h2, h3, h4, h5, h6⟩ := H2 q hq
    rcases hh.get a2 with ⟨g1, _⟩ | ⟨x, x', g1, g2, gx⟩
    · rw [g1] at h3; cases h3
    · rw [g1] at h3; cases h3
      refine ⟨a2, o, x', h1, h2, g2, by rw [gx.1]; exact h4, by rw [gx.2.2.1]; exact h5, ?_⟩
      intro t ht f hf
      rw [featContentC_sim K hh]
      exact h6 t ht f hf

/-- the first half of `chain_xmi_json_coll_aux` with the JSON fragment of the loaded CAS exported: every structure
    the JSON writer collects from the CAS loaded from XMI is a structure of the JSON fragment (`JCollFs`), over the
    heap after the writer's id assignment -/
theorem chain_xmi_json_jfrag (K : Consts) (ts : TypeSystem) (cass : List Cas) (ci : Nat) (c : Cas) (hp : Heap)
    (tsIdx : Nat) (doc : XDoc) (st : St)
    (hc : cass[ci]? = some c) (hwf : RTWf c hp) (hnull : NullOk ts)
    (hsave : saveXmi K ts cass ci hp = .ok (doc, st))
    (hcoll : ∀ q ∈ st.allFs, CollFs K ts c ci st.heap q.2)
    (hjson : ∀ q ∈ st.allFs, Json.JsonFs ts st.heap q.2)
    (hsr : ∀ q ∈ st.allFs, ∀ o t, st.heap[q.2]? = some o → find? ts o.ty = some t → ∀ f ∈ allFeatures t,
      f.name = "sofa" → (alistGet? o.slots f.name).getD .none ≠ .none →
      f.range ≠ "uima.cas.Double" ∧ f.range ≠ "uima.cas.Float" ∧ isPrimitive K ts f.range = false)
    (hmem : ∀ nv ∈ c.views, ∀ e ∈ Index.all nv.2.idx, Xmi.slot st.heap e.oid "sofa" ≠ some .none)
    (hmok : MembersOk c st.heap)
    (harr : ∀ q ∈ st.allFs, Json.ArrElemsSome st.heap q.2)
    (htys : Json.CollTypesOk K ts) :
    ∃ (ld1 : Xmi.Loaded) (docj : Json.JDoc) (st2 : St),
      loadXmi K ts tsIdx cass.length false st.heap doc = .ok ld1 ∧
      Json.saveJson K ts (cass ++ [ld1.cas]) cass.length ld1.heap .none = .ok (docj, st2) ∧
      (∀ nv ∈ ld1.cas.views, nv.2.sofa.arr = .none) ∧
      ∀ r ∈ st2.allFs, Json.JCollFs K ts ld1.cas cass.length st2.heap r.2 := by
  obtain ⟨na, ia, ld1, hload1, x⟩ :=
    xmi_core_coll K ts cass ci c hp tsIdx cass.length doc st hc hwf hnull hsave hcoll hmem hmok
  have hjsonL : ∀ q ∈ sortById st.allFs, Json.JsonFs ts st.heap q.2 := fun q hq => hjson q (mem_sortById.mp hq)
  have harrL : ∀ q ∈ sortById st.allFs, Json.ArrElemsSome st.heap q.2 := fun q hq => harr q (mem_sortById.mp hq)
  have hsrL : ∀ q ∈ sortById st.allFs, ∀ o t, st.heap[q.2]? = some o → find? ts o.ty = some t →
      ∀ f ∈ allFeatures t, Json.SofaRangeOk K ts o f := fun q hq => hsr q (mem_sortById.mp hq)
  obtain ⟨st2, hfa2, hsh, hsub, hnz, hfresh⟩ := x.traversal htys hjsonL harrL
  have j : JTrav K ts (sortById st.allFs) na ld1 st2 := ⟨hfa2, hsh, hsub, hnz, hfresh⟩
  have hL2 := x.lokJ htys hjsonL harrL j
  have hc' : (cass ++ [ld1.cas])[cass.length]? = some ld1.cas := List.getElem?_concat_length
  have hSr : ∀ r ∈ sortById st2.allFs, SAll K ld1.heap (sortById st.allFs) na r.2 :=
    fun r hr => hsub r (mem_sortById.mp hr)
  have hrA := renderAll_ok K ts (cass ++ [ld1.cas]) st2.heap (Json.elemOfJ K ts (cass ++ [ld1.cas]) st2.heap)
    (sortById st2.allFs) (renderFs_ok hc' hL2 (fun r hr => x.sofaRange j hsrL (hSr r hr)))
  have hplain := loadXmi_plain hload1
  have harr' : ∀ nv ∈ ld1.cas.views, nv.2.sofa.arr = .none := fun nv hnv => (hplain nv hnv).1
  have hsave2 := Json.saveJson_intro (K := K) (ts := ts) hc' harr' hfa2 hrA
  exact ⟨ld1, _, st2, hload1, hsave2, harr', fun r hr => hL2.coll r (mem_sortById.mpr hr)⟩

/-- XMI → CAS → JSON (FULL) → CAS without a type system, collections included -/
theorem chain_xmi_json_full_coll_aux (ops : List TsOp) (ts : TypeSystem)
    (hts : ts = ops.foldl (applyOp Gen.consts) Gen.builtinTS)
    (hu : UserOnly Gen.consts ops ∧ ∀ op ∈ ops, match op with
      | .createFeature dom _ _ _ _ _ => dom ≠ DOCUMENT_ANNOTATION
      | .createType _ _ _ => True)
    (hw : Writable Gen.consts ts) (hpc : NoPercentNames ts)
    (cass : List Cas) (ci : Nat) (c : Cas) (hp : Heap) (tsIdx : Nat) (doc : XDoc) (st : St)
    (hc : cass[ci]? = some c) (hwf : RTWf c hp) (hnull : NullOk ts)
    (hsave : saveXmi Gen.consts ts cass ci hp = .ok (doc, st))
    (hcoll : ∀ q ∈ st.allFs, CollFs Gen.consts ts c ci st.heap q.2)
    (hjson : ∀ q ∈ st.allFs, Json.JsonFs ts st.heap q.2)
    (hsr : ∀ q ∈ st.allFs, ∀ o t, st.heap[q.2]? = some o → find? ts o.ty = some t → ∀ f ∈ allFeatures t,
      f.name = "sofa" → (alistGet? o.slots f.name).getD .none ≠ .none →
      f.range ≠ "uima.cas.Double" ∧ f.range ≠ "uima.cas.Float" ∧ isPrimitive Gen.consts ts f.range = false)
    (hdis : ∀ q ∈ st.allFs, ∀ nv ∈ c.views, q.1 ≠ nv.2.sofa.xid)
    (hmem : ∀ nv ∈ c.views, ∀ e ∈ Index.all nv.2.idx, Xmi.slot st.heap e.oid "sofa" ≠ some .none)
    (hmok : MembersOk c st.heap)
    (harr : ∀ q ∈ st.allFs, Json.ArrElemsSome st.heap q.2)
    (htys : Json.CollTypesOk Gen.consts ts) :
    ∃ (ld1 : Xmi.Loaded) (docj : Json.JDoc) (st2 : St) (ld2 : Json.Loaded) (fss2 : List (Int × Val)),
      loadXmi Gen.consts ts tsIdx cass.length false st.heap doc = .ok ld1 ∧
      Json.saveJson Gen.consts ts (cass ++ [ld1.cas]) cass.length ld1.heap .full = .ok (docj, st2) ∧
      Json.loadJson Gen.consts Gen.builtinTS tsIdx (cass.length + 1) false true st2.heap docj = .ok ld2 ∧
      SameTs ts ld2.ts ∧
      ld2.cas.views.map (viewContent ld2.heap) = c.views.map (viewContent st.heap) ∧
      (∀ q ∈ st.allFs, ∃ (a2 : Nat) (o o2 : Obj), Json.lookup fss2 q.1 = some (.ref a2) ∧
          st.heap[q.2]? = some o ∧ ld2.heap[a2]? = some o2 ∧ o2.ty = o.ty ∧ o2.xid = some q.1 ∧
          ∀ t : TypeRec, find? ts o.ty = some t → ∀ f ∈ allFeatures t,
            featContentC Gen.consts ld2.heap a2 f = featContentC Gen.consts st.heap q.2 f) := by
  obtain ⟨ld1, docj0, st2, ld20, fss2, h1, h2, h3, h4, h5⟩ :=
    chain_xmi_json_coll_aux Gen.consts ts cass ci c hp tsIdx doc st hc hwf hnull hsave hcoll hjson hsr hdis hmem hmok
      harr htys
  obtain ⟨docj, hsF, hf, hv⟩ :=
    saveJson_mode_fss_aux Gen.consts ts hpc (cass ++ [ld1.cas]) cass.length ld1.heap .none .full docj0 st2 h2
  obtain ⟨ld2, hl, hsame, hcas, hheap⟩ :=
    full_load_of_none_load ops ts hts hu hw hpc (cass ++ [ld1.cas]) cass.length ld1.heap tsIdx (cass.length + 1)
      docj docj0 st2 ld20 hsF hf.symm hv.symm h3
  obtain ⟨g1, g2⟩ := chain_transfer Gen.consts ts c st ld20 ld2 fss2 hcas hheap h4 h5
  exact ⟨ld1, docj, st2, ld2, fss2, h1, hsF, hl, hsame, g1, g2⟩

/-- XMI → CAS → JSON (MINIMAL) → CAS without a type system, collections included -/
theorem chain_xmi_json_minimal_coll_aux (ops : List TsOp) (ts : TypeSystem)
    (hts : ts = ops.foldl (applyOp Gen.consts) Gen.builtinTS)
    (hu : UserOnly Gen.consts ops ∧ ∀ op ∈ ops, match op with
      | .createFeature dom _ _ _ _ _ => dom ≠ DOCUMENT_ANNOTATION
      | .createType _ _ _ => True)
    (hw : Writable Gen.consts ts) (hpc : NoPercentNames ts)
    (cass : List Cas) (ci : Nat) (c : Cas) (hp : Heap) (tsIdx : Nat) (doc : XDoc) (st : St)
    (hc : cass[ci]? = some c) (hwf : RTWf c hp) (hnull : NullOk ts)
    (hsave : saveXmi Gen.consts ts cass ci hp = .ok (doc, st))
    (hcoll : ∀ q ∈ st.allFs, CollFs Gen.consts ts c ci st.heap q.2)
    (hjson : ∀ q ∈ st.allFs, Json.JsonFs ts st.heap q.2)
    (hsr : ∀ q ∈ st.allFs, ∀ o t, st.heap[q.2]? = some o → find? ts o.ty = some t → ∀ f ∈ allFeatures t,
      f.name = "sofa" → (alistGet? o.slots f.name).getD .none ≠ .none →
      f.range ≠ "uima.cas.Double" ∧ f.range ≠ "uima.cas.Float" ∧ isPrimitive Gen.consts ts f.range = false)
    (hdis : ∀ q ∈ st.allFs, ∀ nv ∈ c.views, q.1 ≠ nv.2.sofa.xid)
    (hmem : ∀ nv ∈ c.views, ∀ e ∈ Index.all nv.2.idx, Xmi.slot st.heap e.oid "sofa" ≠ some .none)
    (hmok : MembersOk c st.heap)
    (harr : ∀ q ∈ st.allFs, Json.ArrElemsSome st.heap q.2)
    (htys : Json.CollTypesOk Gen.consts ts) :
    ∃ (ld1 : Xmi.Loaded) (docj : Json.JDoc) (st2 : St) (ld2 : Json.Loaded) (fss2 : List (Int × Val)),
      loadXmi Gen.consts ts tsIdx cass.length false st.heap doc = .ok ld1 ∧
      Json.saveJson Gen.consts ts (cass ++ [ld1.cas]) cass.length ld1.heap .minimal = .ok (docj, st2) ∧
      Json.loadJson Gen.consts Gen.builtinTS tsIdx (cass.length + 1) false true st2.heap docj = .ok ld2 ∧
      (∀ j ∈ docj.fss, TypeAgree ts ld2.ts (fsTypeName j)) ∧
      ld2.cas.views.map (viewContent ld2.heap) = c.views.map (viewContent st.heap) ∧
      (∀ q ∈ st.allFs, ∃ (a2 : Nat) (o o2 : Obj), Json.lookup fss2 q.1 = some (.ref a2) ∧
          st.heap[q.2]? = some o ∧ ld2.heap[a2]? = some o2 ∧ o2.ty = o.ty ∧ o2.xid = some q.1 ∧
          ∀ t : TypeRec, find? ts o.ty = some t → ∀ f ∈ allFeatures t,
            featContentC Gen.consts ld2.heap a2 f = featContentC Gen.consts st.heap q.2 f) := by
  obtain ⟨ld1, docj0, st2, ld20, fss2, h1, h2, h3, h4, h5⟩ :=
    chain_xmi_json_coll_aux Gen.consts ts cass ci c hp tsIdx doc st hc hwf hnull hsave hcoll hjson hsr hdis hmem hmok
      harr htys
  obtain ⟨ld1', docj0', st2', k1, k2, harr', hfrag⟩ :=
    chain_xmi_json_jfrag Gen.consts ts cass ci c hp tsIdx doc st hc hwf hnull hsave hcoll hjson hsr hmem hmok harr htys
  have e1 : ld1' = ld1 := by rw [h1] at k1; exact (Except.ok.inj k1).symm
  subst e1
  have e2 : st2' = st2 := by rw [h2] at k2; exact (congrArg Prod.snd (Except.ok.inj k2)).symm
  subst e2
  obtain ⟨docj, hsM, hf, hv⟩ :=
    saveJson_mode_fss_aux Gen.consts ts hpc (cass ++ [ld1'.cas]) cass.length ld1'.heap .none .minimal docj0 st2' h2
  have hc' : (cass ++ [ld1'.cas])[cass.length]? = some ld1'.cas := List.getElem?_concat_length
  subst hts
  have hreg : ∀ q ∈ st2'.allFs, ∀ ob : Obj, st2'.heap[q.2]? = some ob →
      (find? (ops.foldl (applyOp Gen.consts) Gen.builtinTS) ob.ty).isSome = true ∧ ob.ty.endsWith "[]" = false := by
    intro q hq ob hob
    obtain ⟨hk, hj⟩ := hfrag q hq
    rcases hk with ⟨o, t, ho, ht, _⟩ | ⟨o, t, f, ev, ho, ht, _⟩
    · rw [hob] at ho; cases ho
      exact ⟨by rw [ht]; rfl, (hj ob t hob ht).1⟩
    · rw [hob] at ho; cases ho
      exact ⟨by rw [ht]; rfl, (hj ob t hob ht).1⟩
  obtain ⟨ts', hlts, _, hag⟩ := json_minimal_ts_agree_aux ops hu hw hpc (cass ++ [ld1'.cas]) cass.length ld1'.cas
    ld1'.heap docj st2' hc' harr' hsM hreg
  obtain ⟨ld2, hl, hlt, hcas, hheap⟩ :=
    emb_load_of_none_load Gen.consts _ ts' Gen.builtinTS tsIdx (cass.length + 1) false st2'.heap docj docj0 ld20
      hlts hag hf.symm hv.symm h3
  obtain ⟨g1, g2⟩ := chain_transfer Gen.consts _ c st ld20 ld2 fss2 hcas hheap h4 h5
  exact ⟨ld1', docj, st2', ld2, fss2, h1, hsM, hl, by rw [hlt]; exact hag, g1, g2⟩

end Cassis
