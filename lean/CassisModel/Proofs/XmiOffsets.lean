/-
Helper lemmas for `Properties/C03Doc.lean`: the offset conversion of the XMI writer and reader cancel.
-/
import CassisModel.Spec.XmiDoc
import CassisModel.Proofs.Offsets

namespace Cassis.Xmi
open Cassis.Offsets

theorem toNat_ofNat_scalar (c : Nat) (h : IsScalar c) : (Char.ofNat c).toNat = c := by
  have hv : c.isValidChar := by
    unfold IsScalar at h
    rcases h with h | ⟨h1, h2⟩
    · exact Or.inl h
    · exact Or.inr ⟨by omega, h2⟩
  rw [Char.ofNat, dif_pos hv]
  rfl

theorem docText_toList (t : List Nat) (hs : ∀ c ∈ t, IsScalar c) : (docText t).toList.map Char.toNat = t := by
  unfold docText
  rw [String.toList_ofList, List.map_map]
  induction t with
  | nil => rfl
  | cons c t ih =>
    rw [List.map_cons, ih (fun x hx => hs x (List.mem_cons_of_mem _ hx))]
    show (Char.ofNat c).toNat :: t = _
    rw [toNat_ofNat_scalar c (hs c List.mem_cons_self)]

theorem docText_isEmpty (t : List Nat) (hne : t ≠ []) : (docText t).isEmpty = false := by
  cases h : (docText t).isEmpty with
  | false => rfl
  | true =>
    exfalso
    rw [String.isEmpty_iff] at h
    have h2 := congrArg String.toList h
    unfold docText at h2
    rw [String.toList_ofList] at h2
    cases t with
    | nil => exact hne rfl
    | cons c t => cases h2

theorem docText_nil : docText [] = "" := rfl

theorem convOfText_docText_aux (t : List Nat) (hs : ∀ c ∈ t, IsScalar c) (hne : t ≠ []) :
    convOfText (some (docText t)) = createMapping none (some t) := by
  unfold convOfText
  dsimp only
  rw [docText_isEmpty t hne, docText_toList t hs]
  rfl

theorem written_offset_is_utf16_aux (t : List Nat) (i : Nat) (hi : i ≤ t.length) :
    pythonToExternal (createMapping none (some t)) i = (utf16Encode (t.take i)).length := by
  show p2e t i = _
  exact p2e_eq_len t i hi

theorem xmi_offset_roundtrip_aux (t : List Nat) (hs : ∀ c ∈ t, IsScalar c) (i : Nat) (hi : i ≤ t.length) :
    externalToPython (convOfText (some (docText t))) (pythonToExternal (createMapping none (some t)) i) = i := by
  by_cases hne : t = []
  · subst hne
    have : i = 0 := by simpa using hi
    subst this
    rfl
  · rw [convOfText_docText_aux t hs hne]
    show e2p t (p2e t i) = i
    exact e2p_p2e_aux t i hi

theorem setSlot_existing {hp : Heap} {a : Nat} {o : Obj} {n : String} {w : Val} (v : Val) (ha : hp[a]? = some o)
    (hw : alistGet? o.slots n = some w) :
    Heap.setSlot hp a n v = .ok (hp.set a { o with slots := alistSet o.slots n v }) := by
  unfold Heap.setSlot
  rw [ha]
  dsimp only
  rw [hw]

theorem cv_nat (conv : Conv) (n : Nat) :
    (if (n : Int) < 0 then (n : Int) else ((externalToPython conv (n : Int).toNat : Nat) : Int)) =
      ((externalToPython conv n : Nat) : Int) := by
  have h : ¬ ((n : Int) < 0) := by omega
  rw [if_neg h, Int.toNat_natCast]

theorem convertOffsets_restores_aux (t : List Nat) (hs : ∀ c ∈ t, IsScalar c) (hp : Heap) (a : Nat) (o : Obj)
    (b e : Nat) (hb : b ≤ t.length) (he : e ≤ t.length) (ha : hp[a]? = some o)
    (hsb : alistGet? o.slots "begin" = some (.int (pythonToExternal (createMapping none (some t)) b : Nat)))
    (hse : alistGet? o.slots "end" = some (.int (pythonToExternal (createMapping none (some t)) e : Nat))) :
    ∃ hp' : Heap, convertOffsets (convOfText (some (docText t))) hp a = .ok hp' ∧
      Traverse.slot hp' a "begin" = some (.int b) ∧ Traverse.slot hp' a "end" = some (.int e) := by
  have hlt : a < hp.length := (List.getElem?_eq_some_iff.mp ha).1
  have rb := xmi_offset_roundtrip_aux t hs b hb
  have re := xmi_offset_roundtrip_aux t hs e he
  generalize convOfText (some (docText t)) = conv at rb re ⊢
  generalize pythonToExternal (createMapping none (some t)) b = xb at rb hsb
  generalize pythonToExternal (createMapping none (some t)) e = xe at re hse
  have hne : ("end" : String) ≠ "begin" := by decide
  have hne' : ("begin" : String) ≠ "end" := by decide
  let o1 : Obj := { o with slots := alistSet o.slots "begin" (.int b) }
  let hp1 : Heap := hp.set a o1
  have h1 : hp1[a]? = some o1 := List.getElem?_set_self hlt
  have hse1 : alistGet? o1.slots "end" = some (.int (xe : Nat)) := by
    show alistGet? (alistSet o.slots "begin" (.int b)) "end" = _
    rw [alistGet?_set_other _ _ _ _ hne, hse]
  let o2 : Obj := { o1 with slots := alistSet o1.slots "end" (.int e) }
  have hlt1 : a < hp1.length := by show a < (hp.set a o1).length; rw [List.length_set]; exact hlt
  refine ⟨hp1.set a o2, ?_, ?_, ?_⟩
  · unfold convertOffsets
    have s1 : slot hp a "begin" = some (.int (xb : Nat)) := by
      show (hp[a]?).bind _ = _
      rw [ha]; exact hsb
    simp only [bind, Except.bind]
    rw [s1]
    dsimp only
    rw [cv_nat, rb, setSlot_existing _ ha hsb]
    dsimp only
    have s2 : slot hp1 a "end" = some (.int (xe : Nat)) := by
      show (hp1[a]?).bind _ = _
      rw [h1]; exact hse1
    show (match slot hp1 a "end" with | some v => _ | none => _) = _
    rw [s2]
    dsimp only
    rw [cv_nat, re, setSlot_existing _ h1 hse1]
  · show ((hp1.set a o2)[a]?).bind _ = _
    rw [List.getElem?_set_self hlt1]
    show alistGet? (alistSet (alistSet o.slots "begin" (.int b)) "end" (.int e)) "begin" = _
    rw [alistGet?_set_other _ _ _ _ hne', alistGet?_set_same]
  · show ((hp1.set a o2)[a]?).bind _ = _
    rw [List.getElem?_set_self hlt1]
    show alistGet? (alistSet (alistSet o.slots "begin" (.int b)) "end" (.int e)) "end" = _
    rw [alistGet?_set_same]

end Cassis.Xmi
