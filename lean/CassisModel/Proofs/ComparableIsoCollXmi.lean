/-
C20 across the XMI round trip, whole format: `cas_to_comparable_text` of the loaded CAS is that of the written one
(`render_xmi_roundtrip_coll_aux`).  Assembly of
* `xmi_core_coll` (`Proofs/ChainCollXmiCore.lean`): what the reader makes of the document, types of the inlined collection
  objects included;
* `new_traversal_c` / `new_allFs_perm_c` (`Proofs/RoundTripCollFixTrav.lean`): the traversal of the loaded CAS;
* `isoR_of_ctx` (`Proofs/ComparableIsoCollIso.lean`) and `renderFrom_isoR` (`Proofs/ComparableIsoR.lean`).
-/
import CassisModel.Proofs.ComparableIsoCollIso
import CassisModel.Proofs.ComparableIsoXmi
import CassisModel.Proofs.RoundTripCollFix

namespace Cassis.Comparable
open Cassis.TS Cassis.Traverse Cassis.Xmi Cassis.ChainC

/-- an indexed structure of the loaded CAS is the image of an indexed structure of the written one -/
theorem seed_fwd_c' {K : Consts} {ts : TypeSystem} {c : Cas} {ci : Nat} {H : Heap} {L : List (Int × Nat)}
    {na : Int → Nat} {c' : Cas} (hL : LOkC K ts c ci H L) (hviews : ViewsRel H na c c') {a : Nat}
    (ha : a ∈ defaultSeeds c') : ∃ q ∈ L, a = na q.1 ∧ q.2 ∈ defaultSeeds c := by
  unfold defaultSeeds at ha
  obtain ⟨nv', hnv', ha⟩ := List.mem_flatMap.mp ha
  obtain ⟨nv, hnv, hr⟩ := viewsRelL_bwd H na _ _ hviews nv' hnv'
  have hperm := hr.2.2.2.2.2.2.2
  have := hperm.mem_iff.mp ha
  obtain ⟨m, hm, rfl⟩ := List.mem_map.mp this
  obtain ⟨e0, he0, hx0⟩ := mem_members.mp hm
  obtain ⟨x, hx⟩ := hL.members nv hnv e0 he0
  have := (hL.ids _ hx).1
  rw [show ((x, e0.oid) : Int × Nat).2 = e0.oid from rfl, hx0] at this
  cases this
  refine ⟨_, hx, rfl, ?_⟩
  unfold defaultSeeds
  exact List.mem_flatMap.mpr ⟨nv, hnv, List.mem_map.mpr ⟨e0, he0, rfl⟩⟩

/-- the XMI round trip on the whole format produces a CAS that is isomorphic in the sense `IsoR` -/
theorem xmi_roundtrip_coll_isoR (K : Consts) (ts : TypeSystem) (cass : List Cas) (ci : Nat) (c : Cas) (hp : Heap)
    (tsIdx : Nat) (doc : XDoc) (st : St)
    (hc : cass[ci]? = some c) (hwf : RTWf c hp) (hnull : NullOk ts)
    (hsave : saveXmi K ts cass ci hp = .ok (doc, st))
    (hcoll : ∀ q ∈ st.allFs, CollFs K ts c ci st.heap q.2)
    (hmem : ∀ nv ∈ c.views, ∀ e ∈ Index.all nv.2.idx, Xmi.slot st.heap e.oid "sofa" ≠ some .none)
    (hmok : MembersOk c st.heap)
    (hnodes : NodeTysNotArr K)
    (hinl : ∀ q ∈ st.allFs, InlOk K ts st.heap (st.allFs.map (·.2)) q.2) :
    ∃ (ld : Loaded) (φ : Nat → Nat) (st' : St),
      loadXmi K ts tsIdx cass.length false st.heap doc = .ok ld ∧
      findAllFs K ts {} ld.heap ld.cas.nextXid (defaultSeeds ld.cas) = .ok st' ∧ st'.heap = ld.heap ∧
      IsoR K cass (cass ++ [ld.cas]) st.heap ld.heap (defaultSeeds c) (defaultSeeds ld.cas)
        (st.allFs.map (·.2)) (st'.allFs.map (·.2)) φ := by
  obtain ⟨na, ia, ld, hload, hX⟩ :=
    xmi_core_coll K ts cass ci c hp tsIdx cass.length doc st hc hwf hnull hsave hcoll hmem hmok
  have hc' : (cass ++ [ld.cas])[cass.length]? = some ld.cas := List.getElem?_concat_length
  have hfa := saveXmi_findAllFs hc hsave
  have hL := hX.lok
  have X : CtxC K ts c ci st.heap (sortById st.allFs) na ia cass.length ld.heap (st.allFs.map (·.2)) :=
    { hL := hL, hrel := hX.rel, hcolls := hX.colls, typed := hX.typed, nodes := hnodes,
      inl := fun q hq => hinl q (mem_sortById.mp hq),
      addrs_sub := by
        intro b hb
        obtain ⟨q, hq, rfl⟩ := List.mem_map.mp hb
        exact ⟨q, mem_sortById.mpr hq, rfl⟩ }
  have hxid : ∀ q ∈ sortById st.allFs, xidOf ld.heap (na q.1) = some q.1 := fun q hq => X.xid hq
  have hobj : ∀ q ∈ sortById st.allFs,
      CFX.ObjFix K ts cass (cass ++ [ld.cas]) ld.cas cass.length st.heap ld.heap (sortById st.allFs) na q :=
    fun q hq => CFX.fix_obj hc hc' hwf hL hX.rel hX.colls hX.views q hq
  obtain ⟨st', hfa', hheap, hS⟩ :=
    CFX.new_traversal_c (cass := cass) (cass' := cass ++ [ld.cas]) hL hxid hX.views hobj
  have hperm := CFX.new_allFs_perm_c hwf hfa hL hxid hX.views hobj hX.next_pos hfa' hheap hS
  have hseed : ∀ q ∈ sortById st.allFs, (q.2 ∈ defaultSeeds c ↔ na q.1 ∈ defaultSeeds ld.cas) := by
    intro q hq
    constructor
    · exact fun h => CFX.seed_bwd_c (x := q.1) (a := q.2) hL hX.views hq h
    · intro h
      obtain ⟨q', hq', e, hs⟩ := seed_fwd_c' hL hX.views h
      have he : q.1 = q'.1 := by
        have h1 := hxid q hq
        rw [e, hxid q' hq'] at h1
        exact (Option.some.inj h1).symm
      rw [pair_eq_of_nodup_fst _ hL.nodup q hq q' hq' he]
      exact hs
  have hiso := isoR_of_ctx X hc hc' (viewsSame_of_rel hX.views) hseed (st'.allFs.map (·.2))
    ((sortById_perm_aux st.allFs).symm.map _)
    (by
      have h1 := hperm.map (·.2)
      rw [List.map_map] at h1
      exact h1.trans ((sortById_perm_aux st.allFs).symm.map (fun q : Int × Nat => na q.1)))
  exact ⟨ld, phiOf st.heap na, st', hload, hfa', hheap, hiso⟩

/-- **C20 across the XMI round trip (whole format)** -/
theorem render_xmi_roundtrip_coll_aux (K : Consts) (ts : TypeSystem) (cass : List Cas) (ci : Nat) (c : Cas) (hp : Heap)
    (tsIdx : Nat) (doc : XDoc) (st : St) (o : Opts) (hsh hsh' : Nat → Int)
    (hc : cass[ci]? = some c) (hwf : RTWf c hp) (hnull : NullOk ts)
    (hsave : saveXmi K ts cass ci hp = .ok (doc, st))
    (hcoll : ∀ q ∈ st.allFs, CollFs K ts c ci st.heap q.2)
    (hmem : ∀ nv ∈ c.views, ∀ e ∈ Index.all nv.2.idx, Xmi.slot st.heap e.oid "sofa" ≠ some .none)
    (hmok : MembersOk c st.heap)
    (hd : Distinct st.heap (st.allFs.map (·.2)))
    (hnodes : NodeTysNotArr K)
    (hinl : ∀ q ∈ st.allFs, InlOk K ts st.heap (st.allFs.map (·.2)) q.2) :
    ∃ ld : Loaded,
      loadXmi K ts tsIdx cass.length false st.heap doc = .ok ld ∧
      (render K ts (cass ++ [ld.cas]) cass.length ld.heap o hsh' none).map (·.1)
        = (render K ts cass ci hp o hsh none).map (·.1) := by
  obtain ⟨ld, φ, st', hload, hfa', hheap, hiso⟩ :=
    xmi_roundtrip_coll_isoR K ts cass ci c hp tsIdx doc st hc hwf hnull hsave hcoll hmem hmok hnodes hinl
  have hc' : (cass ++ [ld.cas])[cass.length]? = some ld.cas := List.getElem?_concat_length
  refine ⟨ld, hload, ?_⟩
  rw [render_eq o hsh hc (saveXmi_findAllFs hc hsave), render_eq o hsh' hc' hfa', hheap]
  exact renderFrom_isoR K ts cass (cass ++ [ld.cas]) st.heap ld.heap o hsh hsh' _ _ _ _ _ hiso hd

end Cassis.Comparable
