/-
C20 across the JSON round trip, whole format, layer 1: the successor computation of the *default* traversal
(`include_inlinable_arrays_and_lists=False`, what `cas_to_comparable_text` runs) on a structure the JSON writer collected,
against the same computation on its counterpart in the loaded heap.

The JSON writer collects every collection object as a structure of its own (`L`), and the reader restores each of them
under its id (`HeapRel … E3J`); the default traversal looks *through* the inlined arrays and lists.  `sim_node`: whenever
the successor computation succeeds on the written side (`nodeSuccs … = .ok (ps, n)`), all successors are structures of
`L`, and the computation on the counterpart succeeds with the counterparts of the successors (`ps.map φ`), whatever the
(larger) list budget.
-/
import CassisModel.Proofs.RoundTripJsonCollContent
import CassisModel.Proofs.RoundTripJsonCollTrav
import CassisModel.Proofs.ComparableIsoFlat

namespace Cassis.Comparable
open Cassis.TS Cassis.Traverse Cassis.Xmi Cassis.Json Cassis.Json.CC

/-- what is known about the heap `HF` loaded from the JSON document written for the structures `L` of the heap `H` -/
structure JW (K : Consts) (ts : TypeSystem) (c : Cas) (ci : Nat) (H : Heap) (L : List (Int × Nat)) (ci' : Nat)
    (HF : Heap) : Prop where
  lok : LOkJ K ts c ci H L
  rel : HeapRel H L (naOf H L) (E3J H (naOf H L) ci') HF

/-- `b` is (the address of) a collected structure -/
def InL (H : Heap) (L : List (Int × Nat)) (b : Nat) : Prop := ∃ y : Int, xidOf H b = some y ∧ (y, b) ∈ L

/-- the heads a list node contributes -/
def refHead : Val → List Nat
  | .ref t => [t]
  | _ => []

theorem walkList_succ_ref (hp : Heap) (f a : Nat) :
    walkList hp [] (f + 1) (.ref a) =
      match Traverse.slot hp a "head" with
      | none => some ([], 0)
      | some hd =>
        match walkList hp [] f ((Traverse.slot hp a "tail").getD .none) with
        | none => none
        | some r => some (refHead hd ++ r.1, r.2 + 1) := by
  rw [walkList]
  cases Traverse.slot hp a "head" with
  | none => rfl
  | some hd =>
    simp only
    cases walkList hp [] f ((Traverse.slot hp a "tail").getD .none) with
    | none => rfl
    | some r =>
      obtain ⟨ps, n⟩ := r
      cases hd <;> simp only [seenId_nil, refHead, Bool.false_eq_true, if_false]

theorem walkList_nonref (hp : Heap) (f : Nat) (v : Val) (h : ∀ b, v ≠ .ref b) :
    walkList hp [] (f + 1) v = some ([], 0) := by
  cases v with
  | ref b => exact absurd rfl (h b)
  | _ => unfold walkList; rfl

section
variable {K : Consts} {ts : TypeSystem} {c : Cas} {ci : Nat} {H : Heap} {L : List (Int × Nat)} {ci' : Nat} {HF : Heap}

theorem JW.inL (x : JW K ts c ci H L ci' HF) {q : Int × Nat} (hq : q ∈ L) : InL H L q.2 :=
  ⟨q.1, (x.lok.ids q hq).1, hq⟩

theorem phiOf_inL {b : Nat} {y : Int} (hy : xidOf H b = some y) : phiOf H (naOf H L) b = naOf H L y := by
  unfold phiOf; rw [hy]

/-- a reference in a slot of a collected structure points to a collected structure -/
theorem JW.slot_ref (x : JW K ts c ci H L ci' HF) {q : Int × Nat} (hq : q ∈ L) {n : String} {b : Nat}
    (h : Traverse.slot H q.2 n = some (.ref b)) : InL H L b := by
  unfold Traverse.slot at h
  cases ho : H[q.2]? with
  | none => rw [ho] at h; cases h
  | some o =>
    rw [ho] at h
    exact x.lok.closed q hq o ho n b h

/-- the elements of a collected FSArray are collected -/
theorem JW.elems_ref (x : JW K ts c ci H L ci' HF) {q : Int × Nat} (hq : q ∈ L) {l : List (Option Nat)}
    (h : Traverse.slot H q.2 "elements" = some (.refs l)) : ∀ b, some b ∈ l → InL H L b := by
  unfold Traverse.slot at h
  cases ho : H[q.2]? with
  | none => rw [ho] at h; cases h
  | some o =>
    rw [ho] at h
    exact fun b hb => x.lok.closedE q hq o ho l h b hb

theorem refHead_exp (v : Val) (hv : ∀ b, v = .ref b → InL H L b) :
    refHead (exp3J H (naOf H L) ci' v) = (refHead v).map (phiOf H (naOf H L)) ∧ ∀ b ∈ refHead v, InL H L b := by
  by_cases hr : ∃ b, v = .ref b
  · obtain ⟨b, rfl⟩ := hr
    obtain ⟨y, hy, hyl⟩ := hv b rfl
    rw [exp3J_ref hy]
    refine ⟨by simp only [refHead, List.map_cons, List.map_nil, phiOf_inL hy], ?_⟩
    intro b' hb'
    simp only [refHead, List.mem_singleton] at hb'
    subst hb'
    exact ⟨y, hy, hyl⟩
  · have hnr : ∀ b, v ≠ .ref b := fun b e => hr ⟨b, e⟩
    have h1 : refHead v = [] := by cases v <;> first | rfl | exact absurd rfl (hnr _)
    have h2 : refHead (exp3J H (naOf H L) ci' v) = [] := by
      have := exp3J_not_ref H (naOf H L) ci' v hnr
      generalize exp3J H (naOf H L) ci' v = w at this
      cases w <;> first | rfl | exact absurd rfl (this _)
    rw [h1, h2]
    exact ⟨rfl, fun b hb => by cases hb⟩

/-- the walk along the spine of a list: the nodes are collected structures, the loaded heap holds their counterparts -/
theorem JW.walk (x : JW K ts c ci H L ci' HF) : ∀ (f : Nat) (v : Val) (ps : List Nat) (n : Nat),
    (∀ b, v = .ref b → InL H L b) → walkList H [] f v = some (ps, n) →
    (∀ b ∈ ps, InL H L b) ∧
    ∀ f', f ≤ f' → walkList HF [] f' (exp3J H (naOf H L) ci' v) = some (ps.map (phiOf H (naOf H L)), n)
  | 0, _, _, _, _, h => by unfold walkList at h; cases h
  | f+1, v, ps, n, hv, h => by
    by_cases hr : ∃ a, v = .ref a
    · obtain ⟨a, rfl⟩ := hr
      obtain ⟨y, hy, hyl⟩ := hv a rfl
      rw [walkList_succ_ref] at h
      have hhead := CC.slot_new x.rel hyl "head"
      have htail := CC.slot_new_getD x.rel hyl "tail"
      simp only [Xmi.slot] at hhead htail
      cases hh : Traverse.slot H a "head" with
      | none =>
        rw [hh] at h hhead
        simp only [Option.some.injEq, Prod.mk.injEq] at h
        obtain ⟨rfl, rfl⟩ := h
        refine ⟨fun b hb => (by cases hb), ?_⟩
        intro f' hle
        obtain ⟨g, rfl⟩ : ∃ g, f' = g + 1 := ⟨f' - 1, by omega⟩
        rw [exp3J_ref hy, walkList_succ_ref, hhead]
        rfl
      | some hd =>
        rw [hh] at h hhead
        simp only at h
        cases hw : walkList H [] f ((Traverse.slot H a "tail").getD .none) with
        | none => rw [hw] at h; cases h
        | some r =>
          rw [hw] at h
          simp only [Option.some.injEq, Prod.mk.injEq] at h
          obtain ⟨rfl, rfl⟩ := h
          have htl : ∀ b, (Traverse.slot H a "tail").getD .none = .ref b → InL H L b := by
            intro b hb
            cases hs : Traverse.slot H a "tail" with
            | none => rw [hs] at hb; cases hb
            | some w =>
              rw [hs] at hb
              simp only [Option.getD_some] at hb
              subst hb
              exact x.slot_ref hyl hs
          obtain ⟨ih1, ih2⟩ := x.walk f _ r.1 r.2 htl hw
          obtain ⟨hd1, hd2⟩ := refHead_exp (ci' := ci') hd (fun b hb => by subst hb; exact x.slot_ref hyl hh)
          refine ⟨?_, ?_⟩
          · intro b hb
            rcases List.mem_append.mp hb with hb | hb
            · exact hd2 b hb
            · exact ih1 b hb
          · intro f' hle
            obtain ⟨g, rfl⟩ : ∃ g, f' = g + 1 := ⟨f' - 1, by omega⟩
            rw [exp3J_ref hy, walkList_succ_ref, hhead]
            simp only [Option.map_some]
            rw [htail, ih2 g (by omega), hd1, List.map_append]
    · have hnr : ∀ b, v ≠ .ref b := fun b e => hr ⟨b, e⟩
      rw [walkList_nonref H f v hnr] at h
      simp only [Option.some.injEq, Prod.mk.injEq] at h
      obtain ⟨rfl, rfl⟩ := h
      refine ⟨fun b hb => (by cases hb), ?_⟩
      intro f' hle
      obtain ⟨g, rfl⟩ : ∃ g, f' = g + 1 := ⟨f' - 1, by omega⟩
      exact walkList_nonref HF g _ (exp3J_not_ref H (naOf H L) ci' v hnr)

/-- what the elements of an array contribute -/
def elemsPush (hp : Heap) (sv : Option Val) : List Nat :=
  match sv with
  | some (.refs l) => refsToPush hp [] l
  | _ => []

theorem refsToPush_exp : ∀ (l : List (Option Nat)), (∀ b, some b ∈ l → InL H L b) →
    refsToPush HF [] (l.map (fun r => r.bind (fun b => (xidOf H b).map (naOf H L))))
      = (refsToPush H [] l).map (phiOf H (naOf H L)) ∧ ∀ b ∈ refsToPush H [] l, InL H L b
  | [], _ => ⟨rfl, fun b hb => by cases hb⟩
  | none :: l, hl => by
    obtain ⟨ih1, ih2⟩ := refsToPush_exp l (fun b hb => hl b (List.mem_cons_of_mem _ hb))
    unfold refsToPush at ih1 ih2 ⊢
    simp only [List.map_cons, Option.bind_none, List.filterMap_cons_none]
    exact ⟨ih1, ih2⟩
  | some a :: l, hl => by
    obtain ⟨ih1, ih2⟩ := refsToPush_exp l (fun b hb => hl b (List.mem_cons_of_mem _ hb))
    obtain ⟨y, hy, hyl⟩ := hl a List.mem_cons_self
    unfold refsToPush at ih1 ih2 ⊢
    simp only [List.map_cons, Option.bind_some, hy, Option.map_some, List.filterMap_cons, seenId_nil,
      Bool.false_eq_true, if_false, phiOf_inL hy, List.cons.injEq, true_and] at ih1 ih2 ⊢
    refine ⟨ih1, ?_⟩
    intro b hb
    rcases List.mem_cons.mp hb with rfl | hb
    · exact ⟨y, hy, hyl⟩
    · exact ih2 b hb

/-- the elements of a collected array object, on both sides -/
theorem JW.elemsPush_exp (x : JW K ts c ci H L ci' HF) {q : Int × Nat} (hq : q ∈ L) :
    elemsPush HF (Traverse.slot HF (naOf H L q.1) "elements")
      = (elemsPush H (Traverse.slot H q.2 "elements")).map (phiOf H (naOf H L)) ∧
    ∀ b ∈ elemsPush H (Traverse.slot H q.2 "elements"), InL H L b := by
  have hs := CC.slot_new x.rel hq "elements"
  simp only [Xmi.slot] at hs
  rw [hs]
  cases hv : Traverse.slot H q.2 "elements" with
  | none => exact ⟨rfl, fun b hb => by cases hb⟩
  | some ev =>
    cases ev with
    | refs l =>
      simp only [Option.map_some, elemsPush, exp3J, elemsExpJ]
      exact refsToPush_exp l (x.elems_ref hq hv)
    | ints l =>
      cases l with
      | nil => exact ⟨rfl, fun b hb => by cases hb⟩
      | cons i l => exact ⟨rfl, fun b hb => by cases hb⟩
    | bools l =>
      cases l with
      | nil => exact ⟨rfl, fun b hb => by cases hb⟩
      | cons i l => exact ⟨rfl, fun b hb => by cases hb⟩
    | floats l =>
      cases l with
      | nil => exact ⟨rfl, fun b hb => by cases hb⟩
      | cons i l => exact ⟨rfl, fun b hb => by cases hb⟩
    | strs l =>
      cases l with
      | nil => exact ⟨rfl, fun b hb => by cases hb⟩
      | cons i l => exact ⟨rfl, fun b hb => by cases hb⟩
    | ref a =>
      refine ⟨?_, fun b hb => by cases hb⟩
      simp only [Option.map_some, elemsPush, exp3J, exp3]
      cases xidOf H a <;> rfl
    | _ => exact ⟨rfl, fun b hb => by cases hb⟩

/-- the inlined FSArray feature `f` of the structure at `a`, holding the array object at `b` -/
theorem featureSuccs_fsarr {K : Consts} {ts : TypeSystem} {hp : Heap} {lf a b : Nat} {f : Feature}
    (hn : (f.name == "sofa") = false) (hprim : isPrimitive K ts f.range = false)
    (hslot : Traverse.slot hp a f.name = some (.ref b))
    (hc : (!({} : Traverse.Opts).includeInlinable && !(f.multi.getD false) &&
      (isArray K f.range || isList K f.range)) = true)
    (hfa : (f.range == FS_ARRAY) = true) :
    featureSuccs K ts {} hp [] lf a f = .ok (elemsPush hp (Traverse.slot hp b "elements"), 0) := by
  unfold featureSuccs
  simp only [hn, hprim, hslot, Bool.false_eq_true, if_false]
  rw [if_pos hc, if_pos hfa]
  cases Traverse.slot hp b "elements" with
  | none => rfl
  | some ev => cases ev <;> rfl

/-- an FSArray object -/
theorem nodeSuccs_fsarr {K : Consts} {ts : TypeSystem} {hp : Heap} {lf a : Nat} {t : TypeRec}
    (hs : (t.super == some ARRAY_BASE) = true) (hfa : (t.name == FS_ARRAY) = true) :
    nodeSuccs K ts {} hp [] lf a t = .ok (elemsPush hp (Traverse.slot hp a "elements"), 0) := by
  unfold nodeSuccs
  rw [hs, hfa]
  simp only [if_true]
  cases Traverse.slot hp a "elements" with
  | none => rfl
  | some ev => cases ev <;> rfl

end

end Cassis.Comparable
