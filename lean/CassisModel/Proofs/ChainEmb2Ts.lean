/-
C16 with an embedded type system, the chain JSON → CAS → XMI → CAS for a rebuilt type system that is only a PART of the
original (mode MINIMAL), part 1: the relation `TsLe` of `Proofs/ChainEmbTs.lean` restricted to a list `N` of type names
(`TsLeOn`), and when two type systems are in that relation: they agree on `N` (`PartOn`: every name of `N` is registered
in both with the same supertype and the same effective features up to `Feature.__eq__`, and `N` is closed under
supertypes and feature ranges of the first) and on `multipleReferencesAllowed` / the reserved flag (`MultiResAgree`).

`is_instance_of` and `is_primitive` walk the supertype chain with a fuel that depends on the size of the registry; for a
consistent type system the fuel is irrelevant (`instAux_fuel`, `primAux_fuel`), hence two type systems whose chains
agree on `N` answer alike on `N` although their registries differ in size.
-/
import CassisModel.Proofs.ChainEmbTs

namespace Cassis.ChainE
open Cassis.TS Cassis.Json

/-- the two type systems agree on the names of `N`, and `N` is closed under supertypes and feature ranges -/
def PartOn (N : List String) (ts ts' : TypeSystem) : Prop :=
  ∀ n ∈ N, ∃ t t', find? ts n = some t ∧ find? ts' n = some t' ∧ t'.super = t.super ∧
    ((allFeatures t').map featKey).Perm ((allFeatures t).map featKey) ∧
    (∀ s, t.super = some s → s ∈ N) ∧ (∀ f ∈ allFeatures t, f.range ∈ N)

/-- `TsLe` restricted to the names of `N` -/
structure TsLeOn (K : Consts) (N : List String) (ts ts' : TypeSystem) : Prop where
  find : ∀ n t, n ∈ N → find? ts n = some t → ∃ t', find? ts' n = some t' ∧ t'.name = t.name ∧ t'.super = t.super ∧
    (ctorFields t').Perm (ctorFields t) ∧
    (∀ f ∈ allFeatures t, ∃ f' ∈ allFeatures t', FeatLike K f f') ∧
    (∀ f' ∈ allFeatures t', ∃ f ∈ allFeatures t, FeatLike K f f') ∧
    (∀ f ∈ allFeatures t, f.range ∈ N)
  inst : ∀ a b, a ∈ N → isInstanceOf ts' a b = isInstanceOf ts a b
  prim : ∀ r, r ∈ N → isPrimitive K ts' r = isPrimitive K ts r

/-! ### the fuel of the walks up the supertype chain is irrelevant -/

theorem instAux_fuel {ts : TypeSystem} (hc : Consistent ts) (p x : String) (hx : hasExact ts x = true) (f : Nat)
    (hf : ts.types.length + 1 ≤ f) : isInstanceOfAux ts p f (some x) = isInstanceOf ts x p := by
  obtain ⟨t, ht⟩ := (hasExact_iff_find ts x).mp hx
  obtain ⟨i, hi, e⟩ := find?_idx ht
  have h1 := isInstanceOfAux_spec hc p i hi f (by omega)
  have h2 := isInstanceOfAux_spec hc p i hi (ts.types.length + 1) (by omega)
  rw [e, find?_name ht] at h1 h2
  unfold isInstanceOf
  rw [Bool.eq_iff_iff, h1, h2]

theorem isPrimitiveAux_none (K : Consts) (ts : TypeSystem) (f : Nat) : isPrimitiveAux K ts f none = false := by
  cases f <;> rfl

theorem primAux_spec (K : Consts) {ts : TypeSystem} (hc : Consistent ts) :
    ∀ i (hi : i < ts.types.length) fuel, i + 1 ≤ fuel →
      isPrimitiveAux K ts fuel (some (ts.types[i]).name) = isPrimitiveAux K ts (i + 1) (some (ts.types[i]).name) := by
  intro i
  induction i using Nat.strongRecOn with
  | ind i ih =>
    intro hi fuel hfuel
    obtain ⟨f, rfl⟩ : ∃ f, fuel = f + 1 := ⟨fuel - 1, by omega⟩
    simp only [isPrimitiveAux]
    rw [superOf_getElem hc i hi]
    cases hs : (ts.types[i]).super with
    | none => rw [isPrimitiveAux_none, isPrimitiveAux_none]
    | some s =>
      obtain ⟨j, hj, hjl, hjn⟩ := hc.topo i hi s hs
      have h1 := ih j hj hjl f (by omega)
      have h2 := ih j hj hjl i (by omega)
      rw [hjn] at h1 h2
      rw [h1, h2]

theorem primAux_fuel (K : Consts) {ts : TypeSystem} (hc : Consistent ts) (x : String) (hx : hasExact ts x = true) (f : Nat)
    (hf : ts.types.length + 1 ≤ f) : isPrimitiveAux K ts f (some x) = isPrimitive K ts x := by
  obtain ⟨t, ht⟩ := (hasExact_iff_find ts x).mp hx
  obtain ⟨i, hi, e⟩ := find?_idx ht
  have h1 := primAux_spec K hc i hi f (by omega)
  have h2 := primAux_spec K hc i hi (ts.types.length + 1) (by omega)
  rw [e, find?_name ht] at h1 h2
  unfold isPrimitive
  rw [h1, h2]

/-! ### walks along chains that agree -/

theorem partOn_superOf {N : List String} {ts ts' : TypeSystem} (h : PartOn N ts ts') {x : String} (hx : x ∈ N) :
    superOf ts' x = superOf ts x ∧ ∀ s, superOf ts x = some s → s ∈ N := by
  obtain ⟨t, t', h1, h2, hs, _, hsn, _⟩ := h x hx
  unfold superOf
  rw [h1, h2]
  exact ⟨hs, hsn⟩

theorem instAux_on {N : List String} {ts ts' : TypeSystem} (h : PartOn N ts ts') (p : String) :
    ∀ (fuel : Nat) (x : String), x ∈ N → isInstanceOfAux ts' p fuel (some x) = isInstanceOfAux ts p fuel (some x) := by
  intro fuel
  induction fuel with
  | zero => intro x _; rfl
  | succ f ih =>
    intro x hx
    obtain ⟨e, hcl⟩ := partOn_superOf h hx
    simp only [isInstanceOfAux]
    rw [e]
    cases hs : superOf ts x with
    | none => rw [isInstanceOfAux_none, isInstanceOfAux_none]
    | some s => rw [ih s (hcl s hs)]

theorem primAux_on (K : Consts) {N : List String} {ts ts' : TypeSystem} (h : PartOn N ts ts') :
    ∀ (fuel : Nat) (x : String), x ∈ N → isPrimitiveAux K ts' fuel (some x) = isPrimitiveAux K ts fuel (some x) := by
  intro fuel
  induction fuel with
  | zero => intro x _; rfl
  | succ f ih =>
    intro x hx
    obtain ⟨e, hcl⟩ := partOn_superOf h hx
    simp only [isPrimitiveAux]
    rw [e]
    cases hs : superOf ts x with
    | none => rw [isPrimitiveAux_none, isPrimitiveAux_none]
    | some s => rw [ih s (hcl s hs)]

theorem partOn_reg {N : List String} {ts ts' : TypeSystem} (h : PartOn N ts ts') {x : String} (hx : x ∈ N) :
    hasExact ts x = true ∧ hasExact ts' x = true := by
  obtain ⟨t, t', h1, h2, _⟩ := h x hx
  exact ⟨(hasExact_iff_find _ _).mpr ⟨t, h1⟩, (hasExact_iff_find _ _).mpr ⟨t', h2⟩⟩

theorem partOn_isInstanceOf {N : List String} {ts ts' : TypeSystem} (h : PartOn N ts ts') (hc : Consistent ts)
    (hc' : Consistent ts') (a b : String) (ha : a ∈ N) : isInstanceOf ts' a b = isInstanceOf ts a b := by
  obtain ⟨r, r'⟩ := partOn_reg h ha
  rw [← instAux_fuel hc' b a r' (ts.types.length + ts'.types.length + 1) (by omega),
    ← instAux_fuel hc b a r (ts.types.length + ts'.types.length + 1) (by omega)]
  exact instAux_on h b _ a ha

theorem partOn_isPrimitive (K : Consts) {N : List String} {ts ts' : TypeSystem} (h : PartOn N ts ts') (hc : Consistent ts)
    (hc' : Consistent ts') (a : String) (ha : a ∈ N) : isPrimitive K ts' a = isPrimitive K ts a := by
  obtain ⟨r, r'⟩ := partOn_reg h ha
  rw [← primAux_fuel K hc' a r' (ts.types.length + ts'.types.length + 1) (by omega),
    ← primAux_fuel K hc a r (ts.types.length + ts'.types.length + 1) (by omega)]
  exact primAux_on K h _ a ha

/-! ### `TsLeOn` in both directions -/

theorem keys_to_ctor {t t' : TypeRec} (hp : ((allFeatures t').map featKey).Perm ((allFeatures t).map featKey)) :
    (ctorFields t').Perm (ctorFields t) := by
  unfold ctorFields
  have := hp.map (fun k : String × Option String × String × String => k.1)
  simp only [List.map_map] at this
  exact this

theorem tsLeOn_of_part (K : Consts) {N : List String} {ts ts' : TypeSystem} (h : PartOn N ts ts') (hc : Consistent ts)
    (hc' : Consistent ts') (hm : MultiResAgree K ts ts') : TsLeOn K N ts ts' := by
  have hm' := multiResAgree' hm
  refine ⟨?_, fun a b ha => partOn_isInstanceOf h hc hc' a b ha, fun r hr => partOn_isPrimitive K h hc hc' r hr⟩
  intro n t hn ht
  obtain ⟨t0, t', h1, h2, hs, hp, _, hrn⟩ := h n hn
  rw [ht] at h1; cases h1
  have hnn : t'.name = t.name := by rw [find?_name ht, find?_name h2]
  refine ⟨t', h2, hnn, hs, keys_to_ctor hp, ?_, ?_, hrn⟩
  · intro f hf
    have : featKey f ∈ (allFeatures t').map featKey := hp.mem_iff.mpr (List.mem_map_of_mem hf)
    obtain ⟨f', hf', hk⟩ := List.mem_map.mp this
    obtain ⟨k1, k2⟩ := featKey_like hk
    exact ⟨f', hf', hm' t (find?_mem ht) t' (find?_mem h2) hnn f hf f' hf' k1 k2⟩
  · intro f' hf'
    have : featKey f' ∈ (allFeatures t).map featKey := hp.mem_iff.mp (List.mem_map_of_mem hf')
    obtain ⟨f, hf, hk⟩ := List.mem_map.mp this
    obtain ⟨k1, k2⟩ := featKey_like hk.symm
    exact ⟨f, hf, hm' t (find?_mem ht) t' (find?_mem h2) hnn f hf f' hf' k1 k2⟩

theorem tsLeOn_of_part' (K : Consts) {N : List String} {ts ts' : TypeSystem} (h : PartOn N ts ts') (hc : Consistent ts)
    (hc' : Consistent ts') (hm : MultiResAgree K ts ts') : TsLeOn K N ts' ts := by
  have hm' := multiResAgree' hm
  refine ⟨?_, fun a b ha => (partOn_isInstanceOf h hc hc' a b ha).symm,
    fun r hr => (partOn_isPrimitive K h hc hc' r hr).symm⟩
  intro n t' hn ht'
  obtain ⟨t, t0, h1, h2, hs, hp, _, hrn⟩ := h n hn
  rw [ht'] at h2; cases h2
  have hnn : t'.name = t.name := by rw [find?_name h1, find?_name ht']
  refine ⟨t, h1, hnn.symm, hs.symm, keys_to_ctor hp.symm, ?_, ?_, ?_⟩
  · intro f' hf'
    have : featKey f' ∈ (allFeatures t).map featKey := hp.mem_iff.mp (List.mem_map_of_mem hf')
    obtain ⟨f, hf, hk⟩ := List.mem_map.mp this
    obtain ⟨k1, k2⟩ := featKey_like hk.symm
    exact ⟨f, hf, (hm' t (find?_mem h1) t' (find?_mem ht') hnn f hf f' hf' k1 k2).symm⟩
  · intro f hf
    have : featKey f ∈ (allFeatures t').map featKey := hp.mem_iff.mpr (List.mem_map_of_mem hf)
    obtain ⟨f', hf', hk⟩ := List.mem_map.mp this
    obtain ⟨k1, k2⟩ := featKey_like hk
    exact ⟨f', hf', (hm' t (find?_mem h1) t' (find?_mem ht') hnn f hf f' hf' k1 k2).symm⟩
  · intro f' hf'
    have : featKey f' ∈ (allFeatures t).map featKey := hp.mem_iff.mp (List.mem_map_of_mem hf')
    obtain ⟨f, hf, hk⟩ := List.mem_map.mp this
    obtain ⟨_, k2⟩ := featKey_like hk.symm
    rw [k2]
    exact hrn f hf

end Cassis.ChainE
