/-
Helper lemmas for C18 (feature paths): `getPath.go` over appended paths, `follow`, `setPath`, `setSlot`.
-/
import CassisModel.Spec.Heap

namespace Cassis.Heap

/-! ### `getPath.go` -/

theorem go_nil (RA : List String) (ext : Val → String → Val) (h : Heap) (cur : Val) :
    getPath.go RA ext h cur [] = cur := by
  simp only [getPath.go]

theorem go_cons_of_none (RA : List String) (ext : Val → String → Val) (h : Heap) (cur : Val)
    (p : String) (ps : List String) (hv : stepGet RA ext h cur p = .none) :
    getPath.go RA ext h cur (p :: ps) = .none := by
  simp only [getPath.go, hv]

theorem go_cons_of_ne (RA : List String) (ext : Val → String → Val) (h : Heap) (cur v : Val)
    (p : String) (ps : List String) (hv : stepGet RA ext h cur p = v) (hne : v ≠ .none) :
    getPath.go RA ext h cur (p :: ps) = getPath.go RA ext h v ps := by
  cases v <;> simp_all [getPath.go]

/-- a singleton path is one step -/
theorem go_singleton (RA : List String) (ext : Val → String → Val) (h : Heap) (cur : Val) (p : String) :
    getPath.go RA ext h cur [p] = stepGet RA ext h cur p := by
  by_cases hv : stepGet RA ext h cur p = .none
  · rw [go_cons_of_none RA ext h cur p [] hv, hv]
  · rw [go_cons_of_ne RA ext h cur _ p [] rfl hv, go_nil]

/-- once a non-empty prefix evaluates to `None`, every extension does -/
theorem go_append_of_none (RA : List String) (ext : Val → String → Val) (h : Heap)
    (pre post : List String) (cur : Val) (hne : pre ≠ [])
    (hp : getPath.go RA ext h cur pre = .none) :
    getPath.go RA ext h cur (pre ++ post) = .none := by
  induction pre generalizing cur with
  | nil => exact absurd rfl hne
  | cons p ps ih =>
    rw [List.cons_append]
    by_cases hv : stepGet RA ext h cur p = .none
    · exact go_cons_of_none RA ext h cur p _ hv
    · rw [go_cons_of_ne RA ext h cur _ p _ rfl hv]
      rw [go_cons_of_ne RA ext h cur _ p _ rfl hv] at hp
      by_cases hps : ps = []
      · subst hps
        rw [go_nil] at hp
        exact absurd hp hv
      · exact ih _ hps hp

/-- a prefix evaluating to a non-`None` value can be cut off -/
theorem go_append_of_ne (RA : List String) (ext : Val → String → Val) (h : Heap)
    (pre post : List String) (cur v : Val)
    (hp : getPath.go RA ext h cur pre = v) (hv : v ≠ .none) :
    getPath.go RA ext h cur (pre ++ post) = getPath.go RA ext h v post := by
  induction pre generalizing cur with
  | nil =>
    rw [go_nil] at hp
    rw [List.nil_append, hp]
  | cons p ps ih =>
    rw [List.cons_append]
    by_cases hs : stepGet RA ext h cur p = .none
    · rw [go_cons_of_none RA ext h cur p _ hs] at hp
      exact absurd hp.symm hv
    · rw [go_cons_of_ne RA ext h cur _ p _ rfl hs]
      rw [go_cons_of_ne RA ext h cur _ p _ rfl hs] at hp
      exact ih _ hp

/-! ### `follow` -/

theorem stepGet_none (RA : List String) (ext : Val → String → Val) (hext : ∀ p, ext .none p = .none)
    (h : Heap) (p : String) : stepGet RA ext h .none p = .none := by
  simp only [stepGet, hext]

theorem follow_none (RA : List String) (ext : Val → String → Val) (hext : ∀ p, ext .none p = .none)
    (h : Heap) (parts : List String) : follow RA ext h .none parts = .none := by
  induction parts with
  | nil => rfl
  | cons p ps ih =>
    unfold follow at ih ⊢
    rw [List.foldl_cons, stepGet_none RA ext hext h p]
    exact ih

theorem go_eq_follow (RA : List String) (ext : Val → String → Val) (hext : ∀ p, ext .none p = .none)
    (h : Heap) (parts : List String) (cur : Val) :
    getPath.go RA ext h cur parts = follow RA ext h cur parts := by
  induction parts generalizing cur with
  | nil => rw [go_nil]; rfl
  | cons p ps ih =>
    have hf : follow RA ext h cur (p :: ps) = follow RA ext h (stepGet RA ext h cur p) ps := by
      unfold follow; rw [List.foldl_cons]
    rw [hf]
    by_cases hv : stepGet RA ext h cur p = .none
    · rw [go_cons_of_none RA ext h cur p _ hv, hv, follow_none RA ext hext h ps]
    · rw [go_cons_of_ne RA ext h cur _ p _ rfl hv]
      exact ih _

theorem go_snoc (RA : List String) (ext : Val → String → Val) (hext : ∀ p, ext .none p = .none)
    (h : Heap) (pre : List String) (p : String) (cur : Val) :
    getPath.go RA ext h cur (pre ++ [p]) = stepGet RA ext h (getPath.go RA ext h cur pre) p := by
  by_cases hv : getPath.go RA ext h cur pre = .none
  · by_cases hpre : pre = []
    · subst hpre
      rw [List.nil_append, go_singleton, go_nil]
    · rw [go_append_of_none RA ext h pre [p] cur hpre hv, hv, stepGet_none RA ext hext h p]
  · rw [go_append_of_ne RA ext h pre [p] cur _ rfl hv, go_singleton]

/-! ### the `_aux` lemmas on `getPath` -/

theorem get_eq_stepwise_aux (RA : List String) (ext : Val → String → Val) (hext : ∀ p, ext .none p = .none)
    (h : Heap) (a : Nat) (parts : List String) :
    getPath RA ext h a parts = follow RA ext h (.ref a) parts :=
  go_eq_follow RA ext hext h parts (.ref a)

theorem get_none_of_prefix_none_aux (RA : List String) (ext : Val → String → Val) (h : Heap) (a : Nat)
    (pre post : List String) (hne : pre ≠ []) (hp : getPath RA ext h a pre = .none) :
    getPath RA ext h a (pre ++ post) = .none :=
  go_append_of_none RA ext h pre post (.ref a) hne hp

theorem get_none_of_unknown_aux (RA : List String) (ext : Val → String → Val) (h : Heap) (a t : Nat)
    (pre : List String) (p : String) (post : List String)
    (hp : getPath RA ext h a pre = .ref t) (hu : getattr RA h t p = none) :
    getPath RA ext h a (pre ++ p :: post) = .none := by
  unfold getPath at hp ⊢
  rw [go_append_of_ne RA ext h pre (p :: post) (.ref a) (.ref t) hp (by intro hc; cases hc)]
  apply go_cons_of_none
  simp only [stepGet, hu, Option.getD_none]

theorem get_snoc_aux (RA : List String) (ext : Val → String → Val) (hext : ∀ p, ext .none p = .none)
    (h : Heap) (a : Nat) (pre : List String) (p : String) :
    getPath RA ext h a (pre ++ [p]) = stepGet RA ext h (getPath RA ext h a pre) p :=
  go_snoc RA ext hext h pre p (.ref a)

/-! ### `setPath` -/

theorem setPath_singleton (RA : List String) (ext : Val → String → Val) (h : Heap) (a : Nat)
    (last : String) (v : Val) :
    setPath RA ext h a [last] v = setSlot h a last v := by
  simp [setPath]

theorem setPath_snoc (RA : List String) (ext : Val → String → Val) (h : Heap) (a : Nat)
    (pre : List String) (last : String) (v : Val) (hne : pre ≠ []) :
    setPath RA ext h a (pre ++ [last]) v =
      match getPath RA ext h a pre with
      | .ref t => setSlot h t last v
      | _ => .error .attributeError := by
  have hrev : (pre ++ [last]).reverse = last :: pre.reverse := by
    simp
  unfold setPath
  rw [hrev]
  cases hr : pre.reverse with
  | nil =>
    exact absurd (List.reverse_eq_nil_iff.mp hr) hne
  | cons x xs =>
    have hpre : (x :: xs).reverse = pre := by rw [← hr, List.reverse_reverse]
    simp only [hpre]
    cases getPath RA ext h a pre <;> rfl

theorem set_spec_aux (RA : List String) (ext : Val → String → Val) (h h' : Heap) (a : Nat)
    (pre : List String) (last : String) (v : Val)
    (hs : setPath RA ext h a (pre ++ [last]) v = .ok h') :
    ∃ t, (if pre = [] then t = a else getPath RA ext h a pre = .ref t) ∧ setSlot h t last v = .ok h' := by
  by_cases hpre : pre = []
  · subst hpre
    rw [List.nil_append, setPath_singleton] at hs
    exact ⟨a, by simp, hs⟩
  · rw [setPath_snoc RA ext h a pre last v hpre] at hs
    cases hg : getPath RA ext h a pre with
    | ref t =>
      rw [hg] at hs
      exact ⟨t, by simp [hpre], hs⟩
    | _ => rw [hg] at hs; cases hs

theorem set_error_of_prefix_aux (RA : List String) (ext : Val → String → Val) (h : Heap) (a : Nat)
    (pre : List String) (last : String) (v : Val) (hne : pre ≠ [])
    (hp : ∀ t, getPath RA ext h a pre ≠ .ref t) :
    setPath RA ext h a (pre ++ [last]) v = .error .attributeError := by
  rw [setPath_snoc RA ext h a pre last v hne]
  cases hg : getPath RA ext h a pre with
  | ref t => exact absurd hg (hp t)
  | _ => rfl

theorem setSlot_error_of_unknown (h : Heap) (t : Nat) (last : String) (v : Val) (hl : last ≠ "xmiID")
    (hslot : ∀ o, h[t]? = some o → alistGet? o.slots last = none) :
    setSlot h t last v = .error .attributeError := by
  unfold setSlot
  cases ho : h[t]? with
  | none => rfl
  | some o =>
    have hx : (last == "xmiID") = false := by simpa using hl
    simp only [hslot o ho, hx]
    rfl

theorem set_error_of_unknown_last_aux (RA : List String) (ext : Val → String → Val) (h : Heap) (a t : Nat)
    (pre : List String) (last : String) (v : Val) (hl : last ≠ "xmiID")
    (ht : if pre = [] then t = a else getPath RA ext h a pre = .ref t)
    (hslot : ∀ o, h[t]? = some o → alistGet? o.slots last = none) :
    setPath RA ext h a (pre ++ [last]) v = .error .attributeError := by
  by_cases hpre : pre = []
  · subst hpre
    simp only [if_true] at ht
    subst ht
    rw [List.nil_append, setPath_singleton]
    exact setSlot_error_of_unknown h t last v hl hslot
  · simp only [hpre, if_false] at ht
    rw [setPath_snoc RA ext h a pre last v hpre, ht]
    exact setSlot_error_of_unknown h t last v hl hslot

/-! ### `setSlot` -/

/-- the shape of a successful `setSlot` -/
theorem setSlot_ok_cases (h h' : Heap) (t : Nat) (name : String) (v : Val)
    (hs : setSlot h t name v = .ok h') :
    ∃ o, h[t]? = some o ∧
      ((∃ w, alistGet? o.slots name = some w ∧ h' = h.set t { o with slots := alistSet o.slots name v }) ∨
       (alistGet? o.slots name = none ∧ name = "xmiID" ∧ ∃ x, h' = h.set t { o with xid := x })) := by
  unfold setSlot at hs
  cases ho : h[t]? with
  | none => rw [ho] at hs; cases hs
  | some o =>
    simp only [ho] at hs
    refine ⟨o, rfl, ?_⟩
    cases hg : alistGet? o.slots name with
    | some w =>
      simp only [hg, Except.ok.injEq] at hs
      exact Or.inl ⟨w, rfl, hs.symm⟩
    | none =>
      simp only [hg] at hs
      by_cases hx : name = "xmiID"
      · refine Or.inr ⟨rfl, hx, ?_⟩
        have hb : (name == "xmiID") = true := by simpa using hx
        simp only [hb, if_true] at hs
        cases v with
        | int i => simp only [Except.ok.injEq] at hs; exact ⟨some i, hs.symm⟩
        | none => simp only [Except.ok.injEq] at hs; exact ⟨Option.none, hs.symm⟩
        | _ => cases hs
      · have hb : (name == "xmiID") = false := by simpa using hx
        simp only [hb] at hs
        cases hs

theorem lt_length_of_getElem?_eq_some {α} {l : List α} {i : Nat} {x : α} (hx : l[i]? = some x) :
    i < l.length := by
  rcases Nat.lt_or_ge i l.length with hlt | hge
  · exact hlt
  · rw [List.getElem?_eq_none hge] at hx; cases hx

theorem setSlot_get_aux (RA : List String) (h h' : Heap) (t : Nat) (name : String) (v : Val)
    (hn : name ≠ "xmiID") (hs : setSlot h t name v = .ok h') : getattr RA h' t name = some v := by
  obtain ⟨o, ho, hc⟩ := setSlot_ok_cases h h' t name v hs
  rcases hc with ⟨w, _, hh⟩ | ⟨_, hx, _⟩
  · subst hh
    unfold getattr
    rw [List.getElem?_set_self (lt_length_of_getElem?_eq_some ho)]
    simp only [alistGet?_set_same]
  · exact absurd hx hn

theorem setSlot_frame_aux (RA : List String) (h h' : Heap) (t : Nat) (name : String) (v : Val)
    (hs : setSlot h t name v = .ok h') (b : Nat) (n : String) (hne : b ≠ t ∨ n ≠ name) :
    getattr RA h' b n = getattr RA h b n ∧ h'.length = h.length := by
  obtain ⟨o, ho, hc⟩ := setSlot_ok_cases h h' t name v hs
  have hlt := lt_length_of_getElem?_eq_some ho
  rcases hc with ⟨w, _, hh⟩ | ⟨hnone, hx, x, hh⟩
  · subst hh
    refine ⟨?_, List.length_set⟩
    by_cases hb : b = t
    · subst hb
      have hn : n ≠ name := by
        rcases hne with h1 | h1
        · exact absurd rfl h1
        · exact h1
      unfold getattr
      rw [List.getElem?_set_self hlt, ho]
      simp only [alistGet?_set_other _ _ _ _ hn]
    · unfold getattr
      rw [List.getElem?_set_ne (Ne.symm hb)]
  · subst hh
    refine ⟨?_, List.length_set⟩
    by_cases hb : b = t
    · subst hb
      have hn : n ≠ "xmiID" := by
        rcases hne with h1 | h1
        · exact absurd rfl h1
        · rw [hx] at h1; exact h1
      have hbn : (n == "xmiID") = false := by simpa using hn
      unfold getattr
      rw [List.getElem?_set_self hlt, ho]
      simp only [hbn]
      rfl
    · unfold getattr
      rw [List.getElem?_set_ne (Ne.symm hb)]

/-! ### `set` then `get` -/

theorem set_then_get_aux (RA : List String) (ext : Val → String → Val) (hext : ∀ p, ext .none p = .none)
    (h h' : Heap) (a : Nat) (pre : List String) (last : String) (v : Val) (hn : last ≠ "xmiID")
    (hs : setPath RA ext h a (pre ++ [last]) v = .ok h')
    (hstable : getPath RA ext h' a pre = getPath RA ext h a pre) :
    getPath RA ext h' a (pre ++ [last]) = v := by
  obtain ⟨t, ht, hset⟩ := set_spec_aux RA ext h h' a pre last v hs
  have hget := setSlot_get_aux RA h h' t last v hn hset
  rw [get_snoc_aux RA ext hext h' a pre last]
  by_cases hpre : pre = []
  · subst hpre
    simp only [if_true] at ht
    subst ht
    simp only [getPath, go_nil, stepGet, hget, Option.getD_some]
  · simp only [hpre, if_false] at ht
    rw [hstable, ht]
    simp only [stepGet, hget, Option.getD_some]

end Cassis.Heap
