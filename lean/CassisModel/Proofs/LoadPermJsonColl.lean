/-
Entry-order independence of the JSON reader, collections included (`Properties/C05PermJsonColl.lean`): assembly.

The same plan as `LoadPermJson.lean`, over the layers of `json_roundtrip_coll` (`RoundTripJsonColl.lean`): the sofa pass
(`sofaPass_anyOrder`) and the loop over the `%VIEWS` entries (`viewsPass_anyOrder_gen`) are shared with the flat proof,
the structure pass is `fsPass_collJP` (`LoadPermJsonCollPass.lean`), the deferred references and FSArray elements
(`fixUps_collJ`) and the deep content (`content_collJ`) are order-free as they stand.
-/
import CassisModel.Proofs.LoadPermJson
import CassisModel.Proofs.LoadPermJsonCollPass

namespace Cassis.Json.LPJ
open Cassis.TS Cassis.Traverse Cassis.Lex Cassis.Xmi Cassis.Xmi.RTB Cassis.Xmi.LP

/-- the views pass over the entries of `%VIEWS` in any order, collections included -/
theorem viewsPass_anyOrderC (K : Consts) (ts : TypeSystem) (c : Cas) (ci : Nat) (H : Heap) (L : List (Int × Nat))
    (na : Int → Nat) (ci' : Nat)
    (hnames : ∀ nv ∈ c.views, nv.2.sofa.sofaID = nv.1) (hnd : (c.views.map (·.1)).Nodup)
    (hL : LOkJ K ts c ci H L)
    (hmem : ∀ nv ∈ c.views, ∀ e ∈ Index.all nv.2.idx, Xmi.slot H e.oid "sofa" ≠ some .none)
    (hmok : MembersOk c H)
    (HF : Heap) (hrel : HeapRel H L na (E3J H na ci') HF)
    (fss : List (Int × Val)) (hfss : ∀ q ∈ L, lookup fss q.1 = some (.ref (na q.1)))
    (c0 : Cas) (hc0 : c0.views = bareViews c.views)
    (τ : List (String × View)) (hτ : τ.Perm c.views) :
    ∃ v : VState,
      viewsPass ts ci' false fss (τ.map (jviewH H)) { cas := c0, heap := HF } = .ok v ∧
      v.heap = HF ∧ v.cas.nextXid = c0.nextXid ∧ v.cas.nextSofaNum = c0.nextSofaNum ∧
      All2 (ViewRelJ H na) c.views v.cas.views ∧
      v.cas.views.map (viewContent HF) = c.views.map (viewContent H) := by
  have ctx : JVC.VC K ts c ci H L na ci' HF fss := ⟨hL, hmem, hmok, hrel, hfss⟩
  exact viewsPass_anyOrder_gen ts c H na ci' hnames hnd HF fss
    (fun nv hnv pre post hpre => ctx.members_loop hnv (pre := pre) (post := post) hpre)
    (fun nv hnv nv' hr => ctx.view_content hnv hr) c0 hc0 τ hτ

end Cassis.Json.LPJ

namespace Cassis.Json
open Cassis.TS Cassis.Traverse Cassis.Lex Cassis.Xmi Cassis.Xmi.RTB Cassis.Xmi.LP Cassis.Json.LPJ

/-- **entry-order independence of the JSON reader, collections included** -/
theorem json_load_perm_coll_aux (K : Consts) (ts : TypeSystem) (cass : List Cas) (ci : Nat) (c : Cas) (hp : Heap)
    (tsIdx ci' : Nat) (doc doc' : JDoc) (st : St)
    (hc : cass[ci]? = some c) (hwf : RTWf c hp)
    (hsave : saveJson K ts cass ci hp .none = .ok (doc, st))
    (hcoll : ∀ q ∈ st.allFs, JCollFs K ts c ci st.heap q.2)
    (hids : ∀ nv ∈ c.views, ∀ e ∈ Index.all nv.2.idx, (xidOf hp e.oid).isSome = true)
    (hdis : ∀ q ∈ st.allFs, ∀ nv ∈ c.views, q.1 ≠ nv.2.sofa.xid)
    (hmem : ∀ nv ∈ c.views, ∀ e ∈ Index.all nv.2.idx, Xmi.slot st.heap e.oid "sofa" ≠ some .none)
    (hmok : MembersOk c st.heap)
    (hpf : doc'.fss.Perm doc.fss) (hpv : doc'.views.Perm doc.views) :
    ∃ (s1 s : RState) (ld' : Loaded),
      sofaPass K ts tsIdx ci' doc'.fss doc'.fss { cas := Cas.empty, heap := st.heap } = .ok s1 ∧
      fsPass K ts tsIdx doc'.fss s1 = .ok s ∧
      loadJson K ts tsIdx ci' false false st.heap doc' = .ok ld' ∧ ld'.ts = ts ∧
      (s.fss.map (·.1)).Perm (c.views.map (·.2.sofa.xid) ++ (sortById st.allFs).map (·.1)) ∧
      (∀ q ∈ st.allFs, ∃ (a' : Nat) (o o' : Obj), lookup s.fss q.1 = some (.ref a') ∧
          st.heap[q.2]? = some o ∧ ld'.heap[a']? = some o' ∧ o'.ty = o.ty ∧ o'.xid = some q.1 ∧
          ∀ t : TypeRec, find? ts o.ty = some t → ∀ f ∈ allFeatures t,
            featContentC K ld'.heap a' f = featContentC K st.heap q.2 f) ∧
      (∀ nv ∈ c.views, lookup s.fss nv.2.sofa.xid = some (.sofa ci' nv.1)) ∧
      (ld'.cas.views.map (viewContent ld'.heap)).Perm (c.views.map (viewContent st.heap)) ∧
      (ld'.cas.views.head?).map (·.1) = some Cas.INITIAL_VIEW ∧
      (∀ q ∈ st.allFs, q.1 < ld'.cas.nextXid) ∧
      (∀ nv ∈ c.views, nv.2.sofa.xid < ld'.cas.nextXid ∧ nv.2.sofa.sofaNum < ld'.cas.nextSofaNum) := by
  -- the written document
  obtain ⟨hfa, fsElems, hr, hdfss, hdviews0, _⟩ :=
    saveJson_parts hc (fun nv hnv => (hwf.text_sofa nv hnv).1) hsave
  have hL : LOkJ K ts c ci st.heap (sortById st.allFs) := trav_collJ K ts ci c hp st hwf hfa hcoll
  have g : GCtxJ K ts cass c ci hp st.heap (sortById st.allFs) :=
    ⟨hc, hwf, hL, fun q hq => hdis q (mem_sortById.mp hq)⟩
  have hfs : fsElems = (sortById st.allFs).map (elemOfJ K ts cass st.heap) :=
    renderAll_eq_mapJ K ts cass st.heap _ _ fsElems hr
      (fun q hq e he => writer_collJ K ts cass c ci hp st.heap _ g q hq e he)
  subst hfs
  have hdviews : doc.views = c.views.map (jviewH st.heap) := by
    rw [hdviews0]
    apply List.map_congr_left
    intro nv hnv
    unfold jviewOf jviewH pviewOf
    congr 2
    apply filterMap_congr'
    intro e he
    obtain ⟨y, hy⟩ := Option.isSome_iff_exists.mp (hids nv hnv e he)
    show xidOf hp e.oid = xidOf st.heap e.oid
    rw [hy, jst_ids_kept hwf hfa e.oid y hy]
  -- the parts of the permuted document
  obtain ⟨σ, L', hσ, hL', hσeq, hL'eq⟩ :=
    split_perm (fun p : String × View => renderSofa hp p.2.sofa) (elemOfJ K ts cass st.heap) c.views
      (sortById st.allFs) doc'.fss (fun _ _ => rfl) (fun q hq => elemOfJ_notSofa hL q hq)
      (by rw [← hdfss]; exact hpf)
  obtain ⟨τ, hτ, hτeq⟩ := perm_map_inv (jviewH st.heap) doc'.views c.views (by rw [← hdviews]; exact hpv)
  -- the initial view among the sofas
  obtain ⟨iv, hivm, hiv⟩ : ∃ iv ∈ c.views, iv.1 = Cas.INITIAL_VIEW := by
    have := hwf.init_first
    cases hv : c.views with
    | nil => rw [hv] at this; simp at this
    | cons nv rest =>
      rw [hv] at this
      exact ⟨nv, List.mem_cons_self, by simpa using this⟩
  obtain ⟨pre, post, hsplit⟩ := List.append_of_mem (hσ.mem_iff.mpr hivm)
  subst hsplit
  have hvs : (iv :: pre ++ post).Perm c.views :=
    (List.perm_middle (l₁ := pre) (a := iv) (l₂ := post)).symm.trans hσ
  -- the CAS the layers are instantiated with: the views in the order in which the reader creates them
  have hwf' : RTWf (withViews c (iv :: pre ++ post)) hp :=
    rtwf_withViews hwf hvs (by show some iv.1 = _; rw [hiv])
  have hLok' : LOkJ K ts (withViews c (iv :: pre ++ post)) ci st.heap L' :=
    lokJ_withViews hL hvs hwf.names_nodup hL'
  have hsv := sameViews_set hc hvs hwf.names_nodup
  have hlt : ci < cass.length := (List.getElem?_eq_some_iff.mp hc).1
  have g' : GCtxJ K ts (cass.set ci (withViews c (iv :: pre ++ post))) (withViews c (iv :: pre ++ post)) ci hp
      st.heap L' :=
    ⟨List.getElem?_set_self hlt, hwf', hLok',
      fun q hq nv hnv => g.dis q (hL'.mem_iff.mp hq) nv (hvs.mem_iff.mp hnv)⟩
  have helem : L'.map (elemOfJ K ts (cass.set ci (withViews c (iv :: pre ++ post))) st.heap) =
      L'.map (elemOfJ K ts cass st.heap) :=
    List.map_congr_left (fun q _ => elemOfJ_congr hsv K ts st.heap q)
  -- the sofa pass
  obtain ⟨s1, hs1, h1heap, h1fss, h1def, h1views, h1id, h1num, h1bound⟩ :=
    sofaPass_anyOrder K ts tsIdx ci' doc'.fss hp st.heap pre post iv
      (fun nv hnv => sofaOk_of_wf hwf nv (hσ.mem_iff.mp hnv))
      ((hσ.map (·.1)).nodup_iff.mpr hwf.names_nodup)
      ((hσ.map (·.2.sofa.xid)).nodup_iff.mpr hwf.sofa_ids_nodup) hiv
  have hs1' : sofaPass K ts tsIdx ci' doc'.fss doc'.fss { cas := Cas.empty, heap := st.heap } = .ok s1 := by
    rw [sofaPass_filter, hσeq]; exact hs1
  have hF0 : (sofaEntries ci' (pre ++ iv :: post)).Perm
      (sofaEntries ci' (withViews c (iv :: pre ++ post)).views) := by
    unfold sofaEntries
    exact (List.perm_middle (l₁ := pre) (a := iv) (l₂ := post)).map _
  have h1views' : s1.cas.views = bareViews (withViews c (iv :: pre ++ post)).views := h1views
  -- the structure pass
  have inv0 : FInvJP (sofaEntries ci' (pre ++ iv :: post)) st.heap L' ci' s1.cas s1.maxNum s1.maxId [] s1 := by
    refine ⟨rfl, rfl, by rw [h1heap]; rfl, by rw [h1fss]; unfold fsEntries; simp, ⟨Int.le_refl _, ?_⟩, ?_, ?_⟩
    · intro q hq; cases hq
    · intro q hq; cases hq
    · intro d hd; rw [h1def] at hd; cases hd
  obtain ⟨s2, hs2, inv⟩ :=
    fsPass_collJP g' tsIdx ci' s1.cas h1views' _ hF0 s1.maxNum s1.maxId L' [] s1 rfl inv0
  have hs2' : fsPass K ts tsIdx doc'.fss s1 = .ok s2 := by
    rw [fsPass_filter, hL'eq, ← helem]; exact hs2
  -- the deferred references and FSArray elements
  have hfss := inv.lookup_fs g' hF0
  obtain ⟨HF, hfix, hrel⟩ :=
    fixUps_collJ K ts _ _ ci hp st.heap L' g' ci' s2.fss hfss s2.deferred s2.heap inv.defs inv.rel
  -- the views pass
  obtain ⟨v, hvp, hvheap, hvx, hvn, hvall, hvcontent⟩ :=
    viewsPass_anyOrderC K ts (withViews c (iv :: pre ++ post)) ci st.heap L' (naOf st.heap L') ci'
      hwf'.names hwf'.names_nodup hLok'
      (fun nv hnv => hmem nv (hvs.mem_iff.mp hnv)) (membersOk_withViews hmok hvs) HF hrel s2.fss hfss
      { s2.cas with nextXid := s2.maxId + 1, nextSofaNum := s2.maxNum + 1 }
      (by show s2.cas.views = _; rw [inv.cas]; exact h1views') τ (hτ.trans hvs.symm)
  have hload : loadJson K ts tsIdx ci' false false st.heap doc' = .ok { ts := ts, cas := v.cas, heap := v.heap } := by
    unfold loadJson loadTs
    simp only [Bool.false_eq_true, if_false]
    rw [hs1']
    dsimp only
    rw [hs2']
    dsimp only
    rw [hfix]
    dsimp only
    rw [hτeq, hvp]
  refine ⟨s1, s2, _, hs1', hs2', hload, rfl, ?_, ?_, ?_, ?_, ?_, ?_, ?_⟩
  · -- the ids the reader registered
    rw [inv.fss, List.map_append, sofaEntries_keys, fsEntries_keys]
    exact List.Perm.append (hσ.map _) (hL'.map _)
  · -- the written structures
    intro q hq0
    have hq : q ∈ L' := hL'.mem_iff.mpr (mem_sortById.mpr hq0)
    obtain ⟨o, o', ho, ho', hty, hx, _, _⟩ := hrel q hq
    refine ⟨naOf st.heap L' q.1, o, o', hfss q hq, ho, ?_, hty, hx, ?_⟩
    · show v.heap[_]? = _
      rw [hvheap]; exact ho'
    · intro t ht f hf
      show featContentC K v.heap _ _ = _
      rw [hvheap]
      exact content_collJ K ts _ ci st.heap L' ci' HF hLok' hrel q hq o t ho ht f hf
  · -- the sofas
    intro nv hnv
    have := (pctxPJ g' ci' s1.cas h1views' _ hF0 L').fss_sofa nv (hvs.mem_iff.mpr hnv)
    rw [inv.fss]; exact this
  · -- the views
    show (v.cas.views.map (viewContent v.heap)).Perm _
    rw [hvheap, hvcontent]
    exact hvs.map _
  · -- the initial view is the first one
    show (v.cas.views.head?).map (·.1) = _
    have hall : All2 (ViewRelJ st.heap (naOf st.heap L')) (iv :: (pre ++ post)) v.cas.views := hvall
    cases hw : v.cas.views with
    | nil => rw [hw] at hall; exact hall.elim
    | cons w ws =>
      rw [hw] at hall
      show some w.1 = _
      rw [hall.1.1, hiv]
  · intro q hq0
    have hq : q ∈ L' := hL'.mem_iff.mpr (mem_sortById.mpr hq0)
    show q.1 < v.cas.nextXid
    rw [hvx]
    show q.1 < s2.maxId + 1
    have := inv.maxId.2 q hq
    omega
  · intro nv hnv
    obtain ⟨b1, b2⟩ := h1bound nv (hσ.mem_iff.mpr hnv)
    have := inv.maxId.1
    refine ⟨?_, ?_⟩
    · show _ < v.cas.nextXid
      rw [hvx]
      show _ < s2.maxId + 1
      omega
    · show _ < v.cas.nextSofaNum
      rw [hvn]
      show _ < s2.maxNum + 1
      rw [inv.num]
      omega

end Cassis.Json
