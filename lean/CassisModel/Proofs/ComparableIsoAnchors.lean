/-
C20 across two heaps, layer 2: the anchor maps of two isomorphic sides.  Both sides generate the same anchor texts in
the same order; the keys (xmi:ids) differ, but correspond: a lookup with "the same key" (`SameKey`) gives the same anchor.
-/
import CassisModel.Proofs.ComparableIsoBasic

namespace Cassis.Comparable
open Cassis.TS Cassis.Traverse

/-! ### `ExRel` -/

theorem ExRel.ok_ok {α β : Type} {P : α → β → Prop} {x : α} {y : β} (h : P x y) :
    ExRel P (.ok x) (.ok y) := h

theorem ExRel.err {α β : Type} {P : α → β → Prop} (e : Err) :
    ExRel P (.error e : Except Err α) (.error e : Except Err β) := rfl

/-! ### the anchor text -/

theorem anchorOf_eq_iso (cass : List Cas) (hp : Heap) (indexed : List Nat) (o : Opts) (a : Nat) :
    anchorOf cass hp indexed o a = (do
      let view ← viewTag cass hp a
      pure (shortName (tyOf hp a) ++
        (if isAnnot hp a then "[" ++ Lex.showInt (beginOf hp a) ++ "-" ++ Lex.showInt (endOf hp a) ++ "]" else "") ++
        (if o.markIndexed && indexed.contains a then "*" else "") ++ view)) := by
  unfold anchorOf viewTag
  cases slot hp a "sofa" with
  | none => rfl
  | some v =>
    cases v with
    | sofa ci vn =>
      simp only []
      cases cass[ci]? with
      | none => rfl
      | some c =>
        simp only []
        cases Cas.getViewRec c vn <;> rfl
    | _ => rfl

section
variable {K : Consts} {cass cass' : List Cas} {hp hp' : Heap} {indexed indexed' addrs addrs' : List Nat} {φ : Nat → Nat}

theorem Iso.anchorOf (h : Iso K cass cass' hp hp' indexed indexed' addrs addrs' φ) (o : Opts) {a : Nat}
    (ha : a ∈ addrs) : anchorOf cass' hp' indexed' o (φ a) = Comparable.anchorOf cass hp indexed o a := by
  have hc : indexed'.contains (φ a) = indexed.contains a := by
    rw [Bool.eq_iff_iff, List.contains_iff_mem, List.contains_iff_mem]
    exact (h.idx a ha).symm
  rw [anchorOf_eq_iso, anchorOf_eq_iso, h.view a ha, h.ty a ha, h.isAnnot ha, h.beginOf ha, h.endOf ha, hc]

end

/-! ### corresponding anchor maps -/

/-- the anchor maps of the two sides: entry by entry the same anchor text, under the ids of a collected structure
    and of its image -/
def KeysRel (hp hp' : Heap) (addrs : List Nat) (φ : Nat → Nat) :
    List (Option Int × String) → List (Option Int × String) → Prop
  | [], [] => True
  | kv :: l, kv' :: l' =>
    kv.2 = kv'.2 ∧ (∃ b ∈ addrs, kv.1 = xidOf hp b ∧ kv'.1 = xidOf hp' (φ b)) ∧ KeysRel hp hp' addrs φ l l'
  | _, _ => False

theorem beq_of_iff {k1 k2 j1 j2 : Option Int} (h : k1 = k2 ↔ j1 = j2) : (k1 == k2) = (j1 == j2) := by
  rw [Bool.eq_iff_iff, beq_iff_eq, beq_iff_eq]
  exact h

theorem getById_rel {hp hp' : Heap} {addrs : List Nat} {φ : Nat → Nat} {a a' : Nat}
    (hk : SameKey hp hp' addrs φ a a') :
    ∀ (l l' : List (Option Int × String)), KeysRel hp hp' addrs φ l l' →
      getById l' (xidOf hp' a') = getById l (xidOf hp a)
  | [], [], _ => rfl
  | [], _ :: _, h => h.elim
  | _ :: _, [], h => h.elim
  | (k, v) :: l, (k', v') :: l', h => by
    obtain ⟨hv, ⟨b, hb, hk1, hk2⟩, hrest⟩ := h
    simp only at hv hk1 hk2
    subst hv hk1 hk2
    simp only [getById]
    rw [beq_of_iff (hk b hb)]
    split
    · rfl
    · exact getById_rel hk l l' hrest

theorem setById_rel {hp hp' : Heap} {addrs : List Nat} {φ : Nat → Nat} {c : Nat} (hc : c ∈ addrs)
    (hk : SameKey hp hp' addrs φ c (φ c)) (s : String) :
    ∀ (l l' : List (Option Int × String)), KeysRel hp hp' addrs φ l l' →
      KeysRel hp hp' addrs φ (setById l (xidOf hp c) s) (setById l' (xidOf hp' (φ c)) s)
  | [], [], _ => ⟨rfl, ⟨c, hc, rfl, rfl⟩, trivial⟩
  | [], _ :: _, h => h.elim
  | _ :: _, [], h => h.elim
  | (k, v) :: l, (k', v') :: l', h => by
    obtain ⟨hv, ⟨b, hb, hk1, hk2⟩, hrest⟩ := h
    simp only at hv hk1 hk2
    subst hv hk1 hk2
    simp only [setById]
    rw [beq_of_iff (hk b hb)]
    split
    · exact ⟨rfl, ⟨c, hc, rfl, rfl⟩, hrest⟩
    · exact ⟨rfl, ⟨b, hb, rfl, rfl⟩, setById_rel hc hk s l l' hrest⟩

/-- corresponding anchor states: the same counters, corresponding maps -/
def StRel (hp hp' : Heap) (addrs : List Nat) (φ : Nat → Nat) (st st' : AnchorSt) : Prop :=
  st'.counts = st.counts ∧ KeysRel hp hp' addrs φ st.byId st'.byId

theorem StRel.init (hp hp' : Heap) (addrs : List Nat) (φ : Nat → Nat) : StRel hp hp' addrs φ {} {} :=
  ⟨rfl, trivial⟩

section
variable {K : Consts} {cass cass' : List Cas} {hp hp' : Heap} {indexed indexed' addrs addrs' : List Nat} {φ : Nat → Nat}

theorem Iso.anchorStep (h : Iso K cass cass' hp hp' indexed indexed' addrs addrs' φ) (o : Opts) {a : Nat}
    (ha : a ∈ addrs) {st st' : AnchorSt} (hst : StRel hp hp' addrs φ st st') :
    ExRel (StRel hp hp' addrs φ) (Comparable.anchorStep cass hp indexed o st a)
      (Comparable.anchorStep cass' hp' indexed' o st' (φ a)) := by
  unfold Comparable.anchorStep
  rw [h.anchorOf o ha, hst.1]
  cases Comparable.anchorOf cass hp indexed o a with
  | error e => exact ExRel.err e
  | ok s =>
    apply ExRel.ok_ok
    exact ⟨rfl, setById_rel ha (h.key a ha) _ _ _ hst.2⟩

theorem Iso.anchorsOfList (h : Iso K cass cass' hp hp' indexed indexed' addrs addrs' φ) (o : Opts) :
    ∀ (l : List Nat), (∀ a ∈ l, a ∈ addrs) → ∀ {st st' : AnchorSt}, StRel hp hp' addrs φ st st' →
      ExRel (StRel hp hp' addrs φ) (Comparable.anchorsOfList cass hp indexed o l st)
        (Comparable.anchorsOfList cass' hp' indexed' o (l.map φ) st')
  | [], _, _, _, hst => ExRel.ok_ok hst
  | a :: l, hl, st, st', hst => by
    have h1 := h.anchorStep o (hl a List.mem_cons_self) hst
    simp only [List.map_cons, Comparable.anchorsOfList]
    cases hs : Comparable.anchorStep cass hp indexed o st a with
    | error e =>
      cases hs' : Comparable.anchorStep cass' hp' indexed' o st' (φ a) with
      | error e' => rw [hs, hs'] at h1; exact h1
      | ok s' => rw [hs, hs'] at h1; exact h1.elim
    | ok s =>
      cases hs' : Comparable.anchorStep cass' hp' indexed' o st' (φ a) with
      | error e' => rw [hs, hs'] at h1; exact h1.elim
      | ok s' =>
        rw [hs, hs'] at h1
        exact Iso.anchorsOfList h o l (fun b hb => hl b (List.mem_cons_of_mem _ hb)) h1

theorem Iso.genAnchors (h : Iso K cass cass' hp hp' indexed indexed' addrs addrs' φ) (ts : TypeSystem) (o : Opts)
    (sorted sorted' : List (String × List Nat)) :
    ∀ (L : List (String × List Nat)), (∀ p ∈ L, ∀ a ∈ p.2, a ∈ addrs) → ∀ {st st' : AnchorSt},
      StRel hp hp' addrs φ st st' →
      ExRel (StRel hp hp' addrs φ) (Comparable.genAnchors ts cass hp indexed o sorted L st)
        (Comparable.genAnchors ts cass' hp' indexed' o sorted' (L.map (fun p => (p.1, p.2.map φ))) st')
  | [], _, _, _, hst => ExRel.ok_ok hst
  | (t, fss) :: L, hL, st, st', hst => by
    simp only [List.map_cons, Comparable.genAnchors]
    cases getType ts t with
    | error e => exact ExRel.err e
    | ok _ =>
      simp only
      have h1 := h.anchorsOfList o fss (hL (t, fss) List.mem_cons_self) hst
      cases hs : Comparable.anchorsOfList cass hp indexed o fss st with
      | error e =>
        cases hs' : Comparable.anchorsOfList cass' hp' indexed' o (fss.map φ) st' with
        | error e' => rw [hs, hs'] at h1; exact h1
        | ok s' => rw [hs, hs'] at h1; exact h1.elim
      | ok s =>
        cases hs' : Comparable.anchorsOfList cass' hp' indexed' o (fss.map φ) st' with
        | error e' => rw [hs, hs'] at h1; exact h1.elim
        | ok s' =>
          rw [hs, hs'] at h1
          exact Iso.genAnchors h ts o sorted sorted' L (fun p hp => hL p (List.mem_cons_of_mem _ hp)) h1

end

end Cassis.Comparable
