/-
C16 with collections, the converse chain JSON → CAS → XMI → CAS, part A: what `loadJson` makes of a written document
(`HeapRel … E3J`: every collected structure — collection objects included — has its counterpart with the slots mapped by
`exp3J`), and the XMI fragment `CollFs` for the counterparts (in the loaded CAS).
-/
import CassisModel.Proofs.ChainCollJsonCore
import CassisModel.Proofs.RoundTripFixFlat
import CassisModel.Proofs.RoundTripCollTrav

namespace Cassis.ChainC
open Cassis.TS Cassis.Traverse Cassis.Xmi Cassis.Lex Cassis.Json Cassis.Json.CC

/-- what is known about the CAS `ld` loaded from the JSON document written for `c` (heap `H`, collected structures `L`,
    all of them in the XMI fragment) -/
structure JLd (K : Consts) (ts : TypeSystem) (c : Cas) (ci : Nat) (H : Heap) (L : List (Int × Nat)) (ci' : Nat)
    (ld : Json.Loaded) : Prop where
  lok : LOkJ K ts c ci H L
  collx : ∀ q ∈ L, CollFs K ts c ci H q.2
  rel : HeapRel H L (naOf H L) (E3J H (naOf H L) ci') ld.heap
  views : ViewsRelJ H (naOf H L) c.views ld.cas.views

/-! ### `collectList` -/

theorem collectList_mono (hp : Heap) : ∀ (f f' : Nat) (v : Val) (hs : List Val), collectList hp f v = .ok hs → f ≤ f' →
    collectList hp f' v = .ok hs
  | 0, _, _, _, h, _ => by simp [collectList] at h
  | f+1, f', v, hs, h, hle => by
    cases f' with
    | zero => omega
    | succ f' =>
      cases v with
      | ref a =>
        unfold collectList at h ⊢
        cases hh : Xmi.slot hp a "head" with
        | none => rw [hh] at h; exact h
        | some hd =>
          rw [hh] at h
          simp only [bind, Except.bind, pure, Except.pure] at h ⊢
          cases hr : collectList hp f ((Xmi.slot hp a "tail").getD .none) with
          | error e => rw [hr] at h; cases h
          | ok rest =>
            rw [hr] at h
            rw [collectList_mono hp f f' _ rest hr (by omega)]
            exact h
      | _ => simp only [collectList] at h ⊢; exact h

theorem collectList_nonref (hp hp' : Heap) : ∀ (f : Nat) (v w : Val) (hs : List Val), (∀ b, v ≠ .ref b) →
    (∀ b, w ≠ .ref b) → collectList hp f v = .ok hs → hs = [] ∧ collectList hp' f w = .ok []
  | 0, _, _, _, _, _, h => by simp [collectList] at h
  | f+1, v, w, hs, hv, hw, h => by
    cases v with
    | ref a => exact absurd rfl (hv a)
    | _ =>
      simp only [collectList] at h
      cases h
      refine ⟨rfl, ?_⟩
      cases w with
      | ref a => exact absurd rfl (hw a)
      | _ => simp only [collectList]

section
variable {K : Consts} {ts : TypeSystem} {c : Cas} {ci : Nat} {H : Heap} {L : List (Int × Nat)} {ci' : Nat}
  {ld : Json.Loaded}

/-- a structure referenced by a slot of a collected structure is collected -/
theorem JLd.slot_ref (x : JLd K ts c ci H L ci' ld) {q : Int × Nat} (hq : q ∈ L) {n : String} {b : Nat}
    (h : Xmi.slot H q.2 n = some (.ref b)) : ∃ q' ∈ L, q'.2 = b ∧ xidOf H b = some q'.1 := by
  unfold Xmi.slot Traverse.slot at h
  cases ho : H[q.2]? with
  | none => rw [ho] at h; cases h
  | some o =>
    rw [ho] at h
    obtain ⟨y, hy, hyl⟩ := x.lok.closed q hq o ho n b h
    exact ⟨(y, b), hyl, rfl, hy⟩

/-- the list starting at a collected node, in the loaded heap -/
theorem JLd.collect_new (x : JLd K ts c ci H L ci' ld) : ∀ (f : Nat) (q : Int × Nat) (hs : List Val), q ∈ L →
    collectList H f (.ref q.2) = .ok hs →
    collectList ld.heap f (.ref (naOf H L q.1)) = .ok (hs.map (exp3J H (naOf H L) ci'))
  | 0, _, _, _, h => by simp [collectList] at h
  | f+1, q, hs, hq, h => by
    unfold collectList at h ⊢
    rw [slot_new x.rel hq "head", slot_new x.rel hq "tail"]
    cases hh : Xmi.slot H q.2 "head" with
    | none =>
      rw [hh] at h
      cases h
      rfl
    | some hd =>
      rw [hh] at h
      simp only [bind, Except.bind, pure, Except.pure, Option.map_some] at h ⊢
      cases hr : collectList H f ((Xmi.slot H q.2 "tail").getD .none) with
      | error e => rw [hr] at h; cases h
      | ok rest =>
        rw [hr] at h
        cases h
        have key : collectList ld.heap f (((Xmi.slot H q.2 "tail").map (exp3J H (naOf H L) ci')).getD .none) =
            .ok (rest.map (exp3J H (naOf H L) ci')) := by
          cases ht : Xmi.slot H q.2 "tail" with
          | none =>
            rw [ht] at hr
            obtain ⟨e, h2⟩ := collectList_nonref H ld.heap f .none .none rest (by intro b h; cases h)
              (by intro b h; cases h) hr
            rw [e]
            exact h2
          | some vt =>
            rw [ht] at hr
            simp only [Option.map_some, Option.getD_some] at hr ⊢
            by_cases hrf : ∃ b, vt = .ref b
            · obtain ⟨b, rfl⟩ := hrf
              obtain ⟨q', hq', hb, hy⟩ := x.slot_ref hq ht
              rw [exp3J_ref hy]
              subst hb
              exact x.collect_new f q' rest hq' hr
            · have hnr : ∀ b, vt ≠ .ref b := fun b e => hrf ⟨b, e⟩
              obtain ⟨e, h2⟩ := collectList_nonref H ld.heap f vt (exp3J H (naOf H L) ci' vt) rest hnr
                (exp3J_not_ref H _ ci' vt hnr) hr
              rw [e]
              exact h2
        rw [key]
        rfl

/-- the heads of the list starting at a collected node that are references point to collected structures -/
theorem JLd.collect_heads (x : JLd K ts c ci H L ci' ld) : ∀ (f : Nat) (q : Int × Nat) (hs : List Val), q ∈ L →
    collectList H f (.ref q.2) = .ok hs → ∀ b, Val.ref b ∈ hs → ∃ q2 ∈ L, q2.2 = b ∧ xidOf H b = some q2.1
  | 0, _, _, _, h, _, _ => by simp [collectList] at h
  | f+1, q, hs, hq, h, b, hb => by
    unfold collectList at h
    cases hh : Xmi.slot H q.2 "head" with
    | none =>
      rw [hh] at h
      cases h
      cases hb
    | some hd =>
      rw [hh] at h
      simp only [bind, Except.bind, pure, Except.pure] at h
      cases hr : collectList H f ((Xmi.slot H q.2 "tail").getD .none) with
      | error e => rw [hr] at h; cases h
      | ok rest =>
        rw [hr] at h
        cases h
        rcases List.mem_cons.mp hb with hb | hb
        · subst hb
          exact x.slot_ref hq hh
        · cases ht : Xmi.slot H q.2 "tail" with
          | none =>
            rw [ht] at hr
            obtain ⟨e, _⟩ := collectList_nonref H H f .none .none rest (by intro b h; cases h)
              (by intro b h; cases h) hr
            rw [e] at hb
            cases hb
          | some vt =>
            rw [ht] at hr
            simp only [Option.getD_some] at hr
            by_cases hrf : ∃ b', vt = .ref b'
            · obtain ⟨b', rfl⟩ := hrf
              obtain ⟨q', hq', hb', _⟩ := x.slot_ref hq ht
              subst hb'
              exact x.collect_heads f q' rest hq' hr b hb
            · have hnr : ∀ b', vt ≠ .ref b' := fun b' e => hrf ⟨b', e⟩
              obtain ⟨e, _⟩ := collectList_nonref H H f vt vt rest hnr hnr hr
              rw [e] at hb
              cases hb

theorem JLd.view_some (x : JLd K ts c ci H L ci' ld) {vn : String} {w : View} (h : Cas.getViewRec c vn = some w) :
    ∃ w', Cas.getViewRec ld.cas vn = some w' ∧ w'.sofa = w.sofa := by
  have : ∀ (l l' : List (String × View)), ViewsRelJ H (naOf H L) l l' → alistGet? l vn = some w →
      ∃ w', alistGet? l' vn = some w' ∧ w'.sofa = w.sofa := by
    intro l
    induction l with
    | nil => intro l' _ h; simp [alistGet?] at h
    | cons p r ih =>
      intro l' hr hg
      cases l' with
      | nil => exact hr.elim
      | cons p' r' =>
        obtain ⟨h1, h2⟩ := hr
        obtain ⟨k, v⟩ := p
        obtain ⟨k', v'⟩ := p'
        have hk : k' = k := h1.1
        unfold alistGet? at hg ⊢
        by_cases hkn : k = vn
        · rw [if_pos hkn] at hg
          rw [if_pos (hk.trans hkn)]
          cases hg
          exact ⟨v', rfl, h1.2.1⟩
        · rw [if_neg hkn] at hg
          rw [if_neg (by rw [hk]; exact hkn)]
          exact ih r' h2 hg
  exact this _ _ x.views h

theorem exp3J_plain' (H : Heap) (na : Int → Nat) (ci' : Nat) (v : Val) (h1 : ∀ b, v ≠ .ref b) (h2 : isListV v = false) :
    exp3J H na ci' v = exp3 H na ci' v := by
  cases v <;> first | rfl | cases h2

/-- the new object of a collected structure -/
theorem JLd.obj (x : JLd K ts c ci H L ci' ld) {q : Int × Nat} (hq : q ∈ L) :
    ∃ o o', H[q.2]? = some o ∧ ld.heap[naOf H L q.1]? = some o' ∧ o'.ty = o.ty ∧ o'.xid = some q.1 ∧
      o'.slots.map (·.1) = o.slots.map (·.1) ∧
      ∀ n v, alistGet? o.slots n = some v → alistGet? o'.slots n = some (exp3J H (naOf H L) ci' v) := by
  obtain ⟨o, o', ho, ho', h1, h2, h3, h4⟩ := x.rel q hq
  exact ⟨o, o', ho, ho', h1, h2, h3, h4⟩

theorem JLd.refOk_new (x : JLd K ts c ci H L ci' ld) {q' : Int × Nat} (hq' : q' ∈ L) :
    RefOk ld.heap (naOf H L q'.1) := by
  rw [RefOk, xid_new x.rel hq']
  exact ⟨rfl, fun e => (x.lok.ids q' hq').2 (Option.some.inj e)⟩

/-- one feature of a general structure, in the loaded heap -/
theorem JLd.feat_new (x : JLd K ts c ci H L ci' ld) {q : Int × Nat} (hq : q ∈ L) {o o' : Obj} (ho : H[q.2]? = some o)
    (hslots : ∀ n v, alistGet? o.slots n = some v → alistGet? o'.slots n = some (exp3J H (naOf H L) ci' v))
    {isAnn : Bool} {f : Feature} (hcf : CollFeat K ts c ci H isAnn o f) :
    CollFeat K ts ld.cas ci' ld.heap isAnn o' f := by
  have slotq : ∀ n v, alistGet? o.slots n = some v → Xmi.slot H q.2 n = some v := by
    intro n v hv
    unfold Xmi.slot Traverse.slot
    rw [ho]
    exact hv
  rcases hcf with hflat | ⟨hname, hsh | hin⟩
  · obtain ⟨a1, a2, a3, a4, a5, a6, a7, a8, a9, a10, a11, v, hv, hd⟩ := hflat
    refine .inl ⟨a1, a2, a3, a4, a5, a6, a7, a8, a9, a10, a11, _, hslots _ _ hv, ?_⟩
    rcases hd with ⟨hn, hs⟩ | ⟨hn, hp, hs⟩ | ⟨hn, hp, ha, hl, hb1, hb2, hb3, hs⟩
    · left
      refine ⟨hn, ?_⟩
      rcases hs with ⟨vn, rfl, hsome⟩ | ⟨rfl, hA⟩
      · left
        refine ⟨vn, rfl, ?_⟩
        cases hg : Cas.getViewRec c vn with
        | none => rw [hg] at hsome; cases hsome
        | some w =>
          obtain ⟨w', hw', _⟩ := x.view_some hg
          rw [hw']; rfl
      · right
        exact ⟨rfl, hA⟩
    · right; left
      refine ⟨hn, hp, ?_⟩
      rcases hs with rfl | ⟨hr, i, rfl⟩ | ⟨hr, s, rfl⟩ | ⟨hr, b, rfl⟩ | ⟨hr, t, rfl⟩
      · left; rfl
      · right; left; exact ⟨hr, i, rfl⟩
      · right; right; left; exact ⟨hr, s, rfl⟩
      · right; right; right; left; exact ⟨hr, b, rfl⟩
      · right; right; right; right; exact ⟨hr, t, rfl⟩
    · right; right
      refine ⟨hn, hp, ha, hl, hb1, hb2, hb3, ?_⟩
      rcases hs with rfl | ⟨b, rfl, _, _⟩
      · left; rfl
      · right
        obtain ⟨q', hq', _, hy⟩ := x.slot_ref hq (slotq _ _ hv)
        refine ⟨naOf H L q'.1, exp3J_ref hy, (x.refOk_new hq').1, (x.refOk_new hq').2⟩
  · obtain ⟨hm, hal, hp, r1, r2, r3, v, hv, hval⟩ := hsh
    refine .inr ⟨hname, .inl ⟨hm, hal, hp, r1, r2, r3, _, hslots _ _ hv, ?_⟩⟩
    rcases hval with rfl | ⟨b, rfl, _⟩
    · exact .inl rfl
    · obtain ⟨q', hq', _, hy⟩ := x.slot_ref hq (slotq _ _ hv)
      exact .inr ⟨naOf H L q'.1, exp3J_ref hy, x.refOk_new hq'⟩
  · obtain ⟨hm, v, hv, hkind⟩ := hin
    refine .inr ⟨hname, .inr ⟨hm, _, hslots _ _ hv, ?_⟩⟩
    -- arrays
    have arrCase : ∀ (P P' : Val → Prop), InlArr H P v →
        (∀ cc ev, v = .ref cc → ∀ q' ∈ L, q'.2 = cc → Xmi.slot H cc "elements" = some ev → P ev →
          P' (exp3J H (naOf H L) ci' ev)) →
        InlArr ld.heap P' (exp3J H (naOf H L) ci' v) := by
      intro P P' hia hP
      rcases hia with rfl | ⟨cc, ev, rfl, hev, hPe⟩
      · exact .inl rfl
      · obtain ⟨q', hq', hb, hy⟩ := x.slot_ref hq (slotq _ _ hv)
        refine .inr ⟨naOf H L q'.1, _, exp3J_ref hy, ?_, hP cc ev rfl q' hq' hb hev hPe⟩
        rw [slot_new x.rel hq' "elements", hb, hev]
        rfl
    -- lists
    have listCase : ∀ (P P' : List Val → Prop), InlList H P v →
        (∀ cc hs, v = .ref cc → ∀ q' ∈ L, q'.2 = cc → collectList H (H.length + 1) (.ref cc) = .ok hs → P hs →
          P' (hs.map (exp3J H (naOf H L) ci'))) →
        InlList ld.heap P' (exp3J H (naOf H L) ci' v) := by
      intro P P' hil hP
      rcases hil with rfl | ⟨cc, hs, rfl, hcol, hPh⟩
      · exact .inl rfl
      · obtain ⟨q', hq', hb, hy⟩ := x.slot_ref hq (slotq _ _ hv)
        refine .inr ⟨naOf H L q'.1, _, exp3J_ref hy, ?_, hP cc hs rfl q' hq' hb hcol hPh⟩
        rw [exp3J_ref hy]
        have hc1 : collectList H (H.length + 1) (.ref q'.2) = .ok hs := by rw [hb]; exact hcol
        exact collectList_mono ld.heap _ _ _ _ (x.collect_new _ q' hs hq' hc1)
          (by have := len_lt x.rel hq'; omega)
    rcases hkind with ⟨hr, rk, hia⟩ | ⟨hr, rk, hia⟩ | ⟨hr, rk, hia⟩ | ⟨hr, rk, hil⟩ | ⟨hr, rk, hil⟩ | ⟨hr, rk, hil⟩ |
      ⟨hr, rk, hil⟩
    · refine .inl ⟨hr, rk, arrCase _ _ hia (fun cc ev _ q' hq' hb hev hP => ?_)⟩
      rcases hP with rfl | ⟨h1, l, rfl⟩ | ⟨h1, l, rfl, h2⟩ | ⟨h1, l, rfl⟩ | ⟨h1, l, rfl, h2⟩
      · exact .inl rfl
      · cases l with
        | nil => exact .inl rfl
        | cons i l => exact .inr (.inl ⟨h1, _, rfl⟩)
      · cases l with
        | nil => exact .inl rfl
        | cons i l => exact .inr (.inr (.inl ⟨h1, _, rfl, h2⟩))
      · cases l with
        | nil => exact .inl rfl
        | cons i l => exact .inr (.inr (.inr (.inl ⟨h1, _, rfl⟩)))
      · cases l with
        | nil => exact .inl rfl
        | cons i l => exact .inr (.inr (.inr (.inr ⟨h1, _, rfl, h2⟩)))
    · refine .inr (.inl ⟨hr, rk, arrCase _ _ hia (fun cc ev _ q' hq' hb hev hP => ?_)⟩)
      rcases hP with rfl | ⟨l, rfl⟩
      · exact .inl rfl
      · cases l with
        | nil => exact .inl rfl
        | cons i l => exact .inr ⟨_, rfl⟩
    · refine .inr (.inr (.inl ⟨hr, rk, arrCase _ _ hia (fun cc ev _ q' hq' hb hev hP => ?_)⟩))
      obtain ⟨l, rfl, hok⟩ := hP
      obtain ⟨o2, ho2, hel2⟩ : ∃ o2, H[q'.2]? = some o2 ∧ alistGet? o2.slots "elements" = some (.refs (l.map some)) := by
        rw [← hb] at hev
        unfold Xmi.slot Traverse.slot at hev
        cases ho2 : H[q'.2]? with
        | none => rw [ho2] at hev; cases hev
        | some o2 => rw [ho2] at hev; exact ⟨o2, rfl, hev⟩
      have hmem : ∀ b ∈ l, ∃ q2 ∈ L, q2.2 = b ∧ xidOf H b = some q2.1 := by
        intro b hbl
        obtain ⟨y, hy, hyl⟩ := x.lok.closedE q' hq' o2 ho2 _ hel2 b (List.mem_map_of_mem hbl)
        exact ⟨(y, b), hyl, rfl, hy⟩
      refine ⟨l.map (fun b => naOf H L ((xidOf H b).getD 0)), ?_, ?_⟩
      · simp only [exp3J, elemsExpJ, List.map_map]
        congr 1
        apply List.map_congr_left
        intro b hbl
        obtain ⟨q2, _, _, hy⟩ := hmem b hbl
        simp only [Function.comp, Option.bind_some, hy, Option.map_some, Option.getD_some]
      · intro b' hb'
        obtain ⟨b, hbl, rfl⟩ := List.mem_map.mp hb'
        obtain ⟨q2, hq2, _, hy⟩ := hmem b hbl
        rw [hy]
        exact x.refOk_new hq2
    · refine .inr (.inr (.inr (.inl ⟨hr, rk, listCase _ _ hil (fun cc hs _ q' hq' hb hcol hP h hh => ?_)⟩)))
      obtain ⟨h0, hh0, rfl⟩ := List.mem_map.mp hh
      obtain ⟨i, rfl⟩ := hP h0 hh0
      exact ⟨i, rfl⟩
    · refine .inr (.inr (.inr (.inr (.inl ⟨hr, rk, listCase _ _ hil (fun cc hs _ q' hq' hb hcol hP h hh => ?_)⟩))))
      obtain ⟨h0, hh0, rfl⟩ := List.mem_map.mp hh
      obtain ⟨t', rfl, htok⟩ := hP h0 hh0
      exact ⟨t', rfl, htok⟩
    · refine .inr (.inr (.inr (.inr (.inr (.inl ⟨hr, rk, listCase _ _ hil (fun cc hs _ q' hq' hb hcol hP => ?_)⟩)))))
      refine ⟨fun e => hP.1 (List.map_eq_nil_iff.mp e), fun h hh => ?_⟩
      obtain ⟨h0, hh0, rfl⟩ := List.mem_map.mp hh
      rcases hP.2 h0 hh0 with rfl | ⟨s, rfl⟩
      · exact .inl rfl
      · exact .inr ⟨s, rfl⟩
    · refine .inr (.inr (.inr (.inr (.inr (.inr ⟨hr, rk, listCase _ _ hil (fun cc hs _ q' hq' hb hcol hP h hh => ?_)⟩)))))
      obtain ⟨h0, hh0, rfl⟩ := List.mem_map.mp hh
      obtain ⟨b, rfl, _⟩ := hP h0 hh0
      -- the head is referenced by a collected list node
      have hc1 : collectList H (H.length + 1) (.ref q'.2) = .ok hs := by rw [hb]; exact hcol
      obtain ⟨q2, hq2, _, hy⟩ := x.collect_heads _ q' hs hq' hc1 b hh0
      exact ⟨naOf H L q2.1, exp3J_ref hy, x.refOk_new hq2⟩

end

end Cassis.ChainC
