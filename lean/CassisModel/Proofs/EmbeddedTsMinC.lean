/-
The MINIMAL counterpart of `json_full_ts_same`, part C: the `%TYPES` section of a MINIMAL document is a closed list of
records (`RecsOk`, by `closure_sufficient`), every `%TYPE` of the document is declared by it or by a fresh type system,
hence the type system `loadTs` builds from a MINIMAL document agrees with the original on the type names of the
document (`json_minimal_ts_agree_aux`) — and the round trip follows by the composition step
(`json_roundtrip_embedded_flat_of_agree_aux`).
-/
import CassisModel.Proofs.EmbeddedTsMinB
import CassisModel.Proofs.Closure

namespace Cassis.Json
open Cassis.TS Cassis.Traverse Cassis.Xmi

theorem renderFs_ty {K : Consts} {ts : TypeSystem} {cass : List Cas} {hp : Heap} {a : Nat} {e : JFs}
    (h : renderFs K ts cass hp a = .ok e) : ∃ o, hp[a]? = some o ∧ e.ty = o.ty := by
  unfold renderFs at h
  simp only [bind, Except.bind, pure, Except.pure] at h
  cases ho : hp[a]? with
  | none => rw [ho] at h; cases h
  | some o =>
    rw [ho] at h
    dsimp only at h
    refine ⟨o, rfl, ?_⟩
    split at h
    · split at h
      · cases h
      · cases h; rfl
    · split at h
      · cases h
      · split at h
        · cases h
        · cases h; rfl

theorem renderAll_ty {K : Consts} {ts : TypeSystem} {cass : List Cas} {hp : Heap} :
    ∀ (l : List (Int × Nat)) (es : List JFs), renderAll K ts cass hp l = .ok es →
      ∀ e ∈ es, ∃ p ∈ l, ∃ o, hp[p.2]? = some o ∧ e.ty = o.ty := by
  intro l
  induction l with
  | nil => intro es h e he; cases h; cases he
  | cons p ps ih =>
    intro es h e he
    unfold renderAll at h
    simp only [bind, Except.bind, pure, Except.pure] at h
    cases h1 : renderFs K ts cass hp p.2 with
    | error err => rw [h1] at h; cases h
    | ok e1 =>
      rw [h1] at h
      dsimp only at h
      cases h2 : renderAll K ts cass hp ps with
      | error err => rw [h2] at h; cases h
      | ok es1 =>
        rw [h2] at h
        cases h
        rcases List.mem_cons.mp he with rfl | he
        · obtain ⟨o, ho, hty⟩ := renderFs_ty h1
          exact ⟨p, List.mem_cons_self, o, ho, hty⟩
        · obtain ⟨q, hq, o, ho, hty⟩ := ih es1 h2 e he
          exact ⟨q, List.mem_cons_of_mem _ hq, o, ho, hty⟩

theorem foldlM_sofas {f : List JFs → (String × View) → Except Err (List JFs)} {hp : Heap}
    (hf : ∀ acc p, p.2.sofa.arr = .none → f acc p = .ok (acc ++ [renderSofa hp p.2.sofa])) :
    ∀ (vs : List (String × View)) (acc res : List JFs), (∀ nv ∈ vs, nv.2.sofa.arr = .none) →
      vs.foldlM f acc = .ok res → res = acc ++ vs.map (fun nv => renderSofa hp nv.2.sofa) := by
  intro vs
  induction vs with
  | nil => intro acc res _ h; simp only [List.foldlM_nil, pure, Except.pure] at h; cases h; simp
  | cons v vs ih =>
    intro acc res hv h
    simp only [List.foldlM_cons, bind, Except.bind] at h
    rw [hf acc v (hv v List.mem_cons_self)] at h
    dsimp only at h
    rw [ih _ res (fun nv hnv => hv nv (List.mem_cons_of_mem _ hnv)) h]
    simp

/-- the names `saveJson` closes over in mode MINIMAL -/
def minNames (K : Consts) (ts : TypeSystem) (st : Traverse.St) : List String :=
  let used := ((Xmi.sortById st.allFs).filterMap (fun p => (st.heap[p.2]?).map (·.ty))).eraseDups
  closureStep K ts [] (closureFuel ts used) used

/-- the records `saveJson` writes in mode MINIMAL -/
def minRecs (K : Consts) (ts : TypeSystem) (st : Traverse.St) : List TypeRec :=
  (sortByName ((minNames K ts st).filterMap (find? ts))).filter (fun t => t.name != DOCUMENT_ANNOTATION)

/-- what a MINIMAL document consists of (text sofas only) -/
theorem saveJson_minimal_shape (K : Consts) (ts : TypeSystem) (cass : List Cas) (ci : Nat) (c : Cas) (hp : Heap)
    (doc : JDoc) (st : Traverse.St) (hc : cass[ci]? = some c) (harr : ∀ nv ∈ c.views, nv.2.sofa.arr = .none)
    (h : saveJson K ts cass ci hp .minimal = .ok (doc, st)) :
    (∃ decls, renderTypeDecls K (minRecs K ts st) = .ok decls ∧ doc.types = some decls) ∧
    ∃ fsElems, renderAll K ts cass st.heap (Xmi.sortById st.allFs) = .ok fsElems ∧
      doc.fss = c.views.map (fun nv => renderSofa hp nv.2.sofa) ++ fsElems := by
  unfold saveJson at h
  rw [hc] at h
  simp only [bind, Except.bind, pure, Except.pure] at h
  split at h
  · cases h
  · rename_i sofaFss hsf
    have hsofa := foldlM_sofas (hp := hp) (by
      intro acc p hp0
      simp only [hp0, List.append_nil]) c.views [] sofaFss harr hsf
    cases hst : Traverse.findAllFs K ts { includeInlinable := true } hp c.nextXid (Traverse.defaultSeeds c) with
    | error err => rw [hst] at h; cases h
    | ok st' =>
      rw [hst] at h
      simp only at h
      cases hr : renderAll K ts cass st'.heap (Xmi.sortById st'.allFs) with
      | error err => rw [hr] at h; cases h
      | ok fsElems =>
        rw [hr] at h
        simp only [renderTypes] at h
        split at h
        · cases h
        · rename_i v hv
          cases h
          split at hv
          · cases hv
          · rename_i decls hd
            cases hv
            refine ⟨⟨decls, hd, rfl⟩, fsElems, hr, ?_⟩
            rw [hsofa]; simp

/-! ### the written records are closed -/

theorem mem_minRecs {o : TypeSystem} {st : Traverse.St} {t : TypeRec} :
    t ∈ minRecs Gen.consts o st ↔ t.name ≠ DOCUMENT_ANNOTATION ∧ ∃ n ∈ minNames Gen.consts o st, find? o n = some t := by
  unfold minRecs
  rw [List.mem_filter, mem_sortByName, List.mem_filterMap]
  constructor
  · rintro ⟨⟨n, hn, hf⟩, hne⟩; exact ⟨by simpa using hne, n, hn, hf⟩
  · rintro ⟨hne, n, hn, hf⟩; exact ⟨⟨n, hn, hf⟩, by simpa using hne⟩

theorem minNames_members (o : TypeSystem) (st : Traverse.St) :
    ∀ n ∈ minNames Gen.consts o st, Gen.consts.predefined.contains n = false ∧ (find? o n).isSome = true :=
  (closure_members_aux Gen.consts o _ _).2

theorem minNames_closed (o : TypeSystem) (st : Traverse.St) : ClosedUnder Gen.consts o (minNames Gen.consts o st) :=
  (closure_sufficient_aux Gen.consts o _).2

/-- a covered, registered name is declared by the written records or by a fresh type system -/
theorem regName_of_covered {o : TypeSystem} {st : Traverse.St} {x : String}
    (hc : Covered Gen.consts o (minNames Gen.consts o st) x) (hreg : hasExact o x = true) :
    RegName (minRecs Gen.consts o st) x := by
  obtain ⟨tx, htx⟩ := (hasExact_iff_find _ _).mp hreg
  rcases hc with h | h | h
  · by_cases hd : x = DOCUMENT_ANNOTATION
    · left; rw [hd]; decide +kernel
    · right
      exact ⟨tx, mem_minRecs.mpr ⟨by rw [find?_name htx]; exact hd, x, h, htx⟩, find?_name htx⟩
  · left; exact builtin_pre x h
  · rw [htx] at h; cases h

theorem recsOk_min {o : TypeSystem} (ho : Hist o) (ho2 : Hist2 o) (st : Traverse.St) :
    RecsOk o (minRecs Gen.consts o st) := by
  refine ⟨?_, ?_, ?_⟩
  · intro t ht
    obtain ⟨hne, n, hn, hf⟩ := mem_minRecs.mp ht
    rw [mem_fullRecs]
    refine ⟨find?_mem hf, ?_, hne⟩
    rw [find?_name hf]
    exact (minNames_members o st n hn).1
  · intro t ht s hs
    obtain ⟨_, n, hn, hf⟩ := mem_minRecs.mp ht
    have hcl := (minNames_closed o st n hn t hf).1 s hs
    exact regName_of_covered hcl (ho.cons.superReg t (find?_mem hf) s hs)
  · intro t ht f hfo
    obtain ⟨_, n, hn, hf⟩ := mem_minRecs.mp ht
    have hok := ho2.ownOk n t hf f hfo
    unfold featOkB at hok
    simp only [Bool.and_eq_true] at hok
    obtain ⟨⟨hr, he⟩, _⟩ := hok
    -- `f` is (up to `Feature.__eq__`) one of the effective features the closure looked at
    have hk : featKey f ∈ (allFeatures t).map featKey :=
      (mem_keys_allFeatures t _).mpr ⟨f, List.mem_append_left _ hfo, rfl⟩
    obtain ⟨g, hg, hgk⟩ := List.mem_map.mp hk
    have hgr : g.range = f.range := by
      have := congrArg (fun k => k.2.2.1) hgk
      simpa [featKey] using this
    have hge : g.elem.getD TOP = f.elem.getD TOP := by
      have := congrArg (fun k => k.2.2.2) hgk
      simpa [featKey] using this
    obtain ⟨hcr, hce⟩ := (minNames_closed o st n hn t hf).2 g hg
    refine ⟨regName_of_covered (by rw [← hgr]; exact hcr) hr, ?_⟩
    intro e hfe
    rw [hfe] at he hge
    simp only [Option.all_some] at he
    simp only [Option.getD_some] at hge
    cases hgel : g.elem with
    | none =>
      rw [hgel] at hge
      simp only [Option.getD_none] at hge
      left; rw [← hge]; decide +kernel
    | some e' =>
      rw [hgel] at hge
      simp only [Option.getD_some] at hge
      have := hce e' hgel
      rw [hge] at this
      exact regName_of_covered this he

/-! ### the `%TYPE`s of the document -/

theorem fsTypeName_sofa (hp : Heap) (s : Sofa) : fsTypeName (renderSofa hp s) = SOFA := by
  unfold fsTypeName renderSofa
  have : SOFA.endsWith "[]" = false := by decide +kernel
  simp only [this, Bool.false_eq_true, if_false]

theorem minimal_fss_names {o : TypeSystem} (cass : List Cas) (ci : Nat) (c : Cas) (hp : Heap)
    (doc : JDoc) (st : Traverse.St) (hc : cass[ci]? = some c) (harr : ∀ nv ∈ c.views, nv.2.sofa.arr = .none)
    (h : saveJson Gen.consts o cass ci hp .minimal = .ok (doc, st))
    (hreg : ∀ q ∈ st.allFs, ∀ ob : Obj, st.heap[q.2]? = some ob →
      (find? o ob.ty).isSome = true ∧ ob.ty.endsWith "[]" = false) :
    ∀ j ∈ doc.fss, RegName (minRecs Gen.consts o st) (fsTypeName j) := by
  obtain ⟨_, fsElems, hr, hfss⟩ := saveJson_minimal_shape Gen.consts o cass ci c hp doc st hc harr h
  intro j hj
  rw [hfss] at hj
  rcases List.mem_append.mp hj with hj | hj
  · obtain ⟨nv, _, rfl⟩ := List.mem_map.mp hj
    rw [fsTypeName_sofa]
    left; decide +kernel
  · obtain ⟨p, hp', ob, hob, hty⟩ := renderAll_ty _ _ hr j hj
    have hp0 : p ∈ st.allFs := Xmi.mem_sortById.mp hp'
    obtain ⟨hsome, hends⟩ := hreg p hp0 ob hob
    have hname : fsTypeName j = ob.ty := by
      unfold fsTypeName
      rw [hty, hends]
      simp only [Bool.false_eq_true, if_false]
    rw [hname]
    have hexact : hasExact o ob.ty = true := hsome
    cases hpre : Gen.consts.predefined.contains ob.ty with
    | true => left; exact builtin_pre _ hpre
    | false =>
      apply regName_of_covered _ hexact
      left
      apply (closure_sufficient_aux Gen.consts o _).1 _ _ hpre hsome
      rw [List.mem_eraseDups, List.mem_filterMap]
      exact ⟨p, hp', by rw [hob]; rfl⟩

/-! ### the type system a MINIMAL document carries is sufficient -/

/-- **the MINIMAL counterpart of `json_full_ts_same`**: the type system the reader builds from the `%TYPES` section of a
    MINIMAL document (no type system supplied) agrees with the original on every `%TYPE` of the document -/
theorem json_minimal_ts_agree_aux (ops : List TsOp)
    (hu : UserOnly Gen.consts ops ∧ ∀ op ∈ ops, match op with
      | .createFeature dom _ _ _ _ _ => dom ≠ DOCUMENT_ANNOTATION
      | .createType _ _ _ => True)
    (hw : Writable Gen.consts (ops.foldl (applyOp Gen.consts) Gen.builtinTS))
    (hpc : NoPercentNames (ops.foldl (applyOp Gen.consts) Gen.builtinTS))
    (cass : List Cas) (ci : Nat) (c : Cas) (hp : Heap) (doc : JDoc) (st : Traverse.St)
    (hc : cass[ci]? = some c) (harr : ∀ nv ∈ c.views, nv.2.sofa.arr = .none)
    (hsave : saveJson Gen.consts (ops.foldl (applyOp Gen.consts) Gen.builtinTS) cass ci hp .minimal = .ok (doc, st))
    (hreg : ∀ q ∈ st.allFs, ∀ ob : Obj, st.heap[q.2]? = some ob →
      (find? (ops.foldl (applyOp Gen.consts) Gen.builtinTS) ob.ty).isSome = true ∧ ob.ty.endsWith "[]" = false) :
    ∃ ts', loadTs Gen.consts Gen.builtinTS true doc = .ok ts' ∧ Consistent ts' ∧
      ∀ j ∈ doc.fss, TypeAgree (ops.foldl (applyOp Gen.consts) Gen.builtinTS) ts' (fsTypeName j) := by
  have ho := hist_history ops _ hist_builtin hu.1
  have ho2 := hist2_history ops _ hist_builtin hist2_builtin hu.1 hu.2
  have hR := recsOk_min ho ho2 st
  obtain ⟨emb, m, hload, hm, hcm, hag⟩ := typeAgree_merged ho ho2 hw hpc hR
  obtain ⟨decls, hdecls, htypes⟩ := (saveJson_minimal_shape Gen.consts _ cass ci c hp doc st hc harr hsave).1
  -- no feature is named `%NAME`: the writer wrote the plain declarations
  rw [renderTypeDecls_noPct _ _ (fun t ht => hpc t ((mem_fullRecs _ _ _).mp (hR.sub t ht)).1)] at hdecls
  cases hdecls
  refine ⟨m, ?_, hcm, ?_⟩
  · unfold loadTs
    simp only [htypes, hload, if_true]
    exact hm
  · intro j hj
    exact hag _ (minimal_fss_names cass ci c hp doc st hc harr hsave hreg j hj)

end Cassis.Json
