/-
Soundness of the Boolean test `renderJsonCollAppliesB` (`Spec/ComparableIsoJsonCollCheck.lean`) for the hypotheses of
`render_json_roundtrip_coll`, and non-vacuity: the test answers `true` (evaluated by the kernel) on the instance `CollDemo`
(every collection kind, inlined and shared, `""` in a string array) and on `IsoJsonCollCheck.rich` (null elements of
FSArrays, an empty inlined StringList besides).
-/
import CassisModel.Spec.ComparableIsoJsonCollCheck
import CassisModel.Proofs.ComparableIsoCollChk
import CassisModel.Proofs.RoundTripJsonCollCheck

namespace Cassis.Comparable
open Cassis.TS Cassis.Traverse Cassis.Xmi Cassis.Json

/-- whenever the test says so, every hypothesis of `render_json_roundtrip_coll` holds -/
theorem renderJsonCollAppliesB_hyps (K : Consts) (ts : TypeSystem) (cass : List Cas) (ci : Nat) (hp : Heap)
    (h : renderJsonCollAppliesB K ts cass ci hp = true) :
    ∃ (c : Cas) (doc : JDoc) (st std : Traverse.St), cass[ci]? = some c ∧
      saveJson K ts cass ci hp .none = .ok (doc, st) ∧ RTWf c hp ∧
      (∀ q ∈ st.allFs, JCollFs K ts c ci st.heap q.2) ∧
      (∀ nv ∈ c.views, ∀ e ∈ Index.all nv.2.idx, (xidOf hp e.oid).isSome = true) ∧
      (∀ q ∈ st.allFs, ∀ nv ∈ c.views, q.1 ≠ nv.2.sofa.xid) ∧
      (∀ nv ∈ c.views, ∀ e ∈ Index.all nv.2.idx, Xmi.slot st.heap e.oid "sofa" ≠ some .none) ∧
      MembersOk c st.heap ∧
      findAllFs K ts {} hp c.nextXid (defaultSeeds c) = .ok std ∧
      Distinct std.heap (std.allFs.map (·.2)) := by
  unfold renderJsonCollAppliesB at h
  rw [Bool.and_eq_true] at h
  obtain ⟨h1, h2⟩ := h
  obtain ⟨c, doc, st, hc, hs, hwf, hf, hi, hd, hm, hmo⟩ := jcollAppliesB_hyps K ts cass ci hp h1
  unfold distinctDefB at h2
  rw [hc] at h2
  simp only at h2
  cases hD : findAllFs K ts {} hp c.nextXid (defaultSeeds c) with
  | error e => rw [hD] at h2; cases h2
  | ok std =>
    rw [hD] at h2
    exact ⟨c, doc, st, std, hc, hs, hwf, hf, hi, hd, hm, hmo, hD, distinctB_sound h2⟩

theorem jsonCollDemo_applies :
    renderJsonCollAppliesB CollDemo.K CollDemo.ts [CollDemo.cas] 0 CollDemo.hp = true := by
  decide +kernel

theorem jsonCollRich_applies :
    renderJsonCollAppliesB CollDemo.K CollDemo.ts [CollDemo.cas] 0 IsoJsonCollCheck.rich = true := by
  decide +kernel

/-- the test is not constantly true: two structures of one type without offsets (the first node of the inlined FSList
    is shared as well, so the default traversal collects it next to the first node of the shared list) -/
theorem jsonCollShared_rejected :
    renderJsonCollAppliesB CollDemo.K CollDemo.ts [CollDemo.cas] 0
      (CollDemo.setSlot0 CollDemo.hp "mfl" (.ref 13)) = false := by
  decide +kernel

end Cassis.Comparable
