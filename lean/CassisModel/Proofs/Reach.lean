/-
Proofs about what the worklist traversal `findAllFs` collects (C04): closure under the successor relation,
completeness and soundness with respect to `Reach` (`Spec/Reach.lean`), and the id link.

Structure: what a visit pushes is exactly the successor list computed against the empty visited map,
filtered by "not yet collected" (`nodeSuccs_filter`); that list only depends on the slots, hence is the
same in every heap of the run (`succsOf_shape`); the loop invariant `RInv` accounts for every seed and every
successor of a collected structure (collected, still open, or the NULL object) and keeps every collected or
open address reachable in the current heap (`Reach.mono`: assigned ids are positive, so no structure turns
into the NULL object).
-/
import CassisModel.Spec.Reach
import CassisModel.Proofs.Traverse

namespace Cassis.Traverse
open Cassis.TS

/-- `b` is not yet collected -/
def keep (hp : Heap) (allFs : List (Int × Nat)) (b : Nat) : Bool := !seenId allFs (xidOf hp b) b

def filt (q : Nat → Bool) : Except Err (List Nat × Nat) → Except Err (List Nat × Nat)
  | .ok r => .ok (r.1.filter q, r.2)
  | .error e => .error e

def filtW (q : Nat → Bool) : Option (List Nat × Nat) → Option (List Nat × Nat)
  | some r => some (r.1.filter q, r.2)
  | none => none

theorem refsToPush_filter (hp hp0 : Heap) (allFs : List (Int × Nat)) (l : List (Option Nat)) :
    refsToPush hp allFs l = (refsToPush hp0 [] l).filter (keep hp allFs) := by
  induction l with
  | nil => rfl
  | cons r l ih =>
    unfold refsToPush at *
    cases r with
    | none => simpa only [List.filterMap_cons_none] using ih
    | some a =>
      simp only [List.filterMap_cons, seenId_nil, Bool.false_eq_true, if_false] at ih ⊢
      by_cases hs : seenId allFs (xidOf hp a) a = true
      · have hk : keep hp allFs a = false := by unfold keep; rw [hs]; rfl
        simp only [hs, if_true, List.filter_cons, hk, Bool.false_eq_true, if_false]
        exact ih
      · have hs' : seenId allFs (xidOf hp a) a = false := by simpa using hs
        have hk : keep hp allFs a = true := by unfold keep; rw [hs']; rfl
        simp only [hs', Bool.false_eq_true, if_false, List.filter_cons, hk, if_true]
        rw [ih]

theorem walkList_filter (hp hp0 : Heap) (hslot : ∀ a n, slot hp a n = slot hp0 a n)
    (allFs : List (Int × Nat)) (f : Nat) (v : Val) :
    walkList hp allFs f v = filtW (keep hp allFs) (walkList hp0 [] f v) := by
  induction f generalizing v with
  | zero => unfold walkList; rfl
  | succ f ih =>
    cases v with
    | ref a =>
      unfold walkList
      rw [hslot a "head", hslot a "tail"]
      cases hh : slot hp0 a "head" with
      | none => rfl
      | some hd =>
        simp only
        rw [ih ((slot hp0 a "tail").getD .none)]
        cases h2 : walkList hp0 [] f ((slot hp0 a "tail").getD .none) with
        | none => rfl
        | some r0 =>
          obtain ⟨ps0, n0⟩ := r0
          simp only [filtW, seenId_nil, Bool.false_eq_true, if_false]
          cases hd <;> simp only [List.nil_append]
          rename_i t
          by_cases hs : seenId allFs (xidOf hp t) t = true
          · have hk : keep hp allFs t = false := by unfold keep; rw [hs]; rfl
            simp only [hs, if_true, List.nil_append, List.cons_append, List.filter_cons, hk,
              Bool.false_eq_true, if_false]
          · have hs' : seenId allFs (xidOf hp t) t = false := by simpa using hs
            have hk : keep hp allFs t = true := by unfold keep; rw [hs']; rfl
            simp only [hs', Bool.false_eq_true, if_false, List.nil_append, List.cons_append,
              List.filter_cons, hk, if_true]
    | _ => unfold walkList; rfl


theorem featureSuccs_filter (K : Consts) (ts : TypeSystem) (o : Opts) (hp hp0 : Heap)
    (hslot : ∀ a n, slot hp a n = slot hp0 a n) (allFs : List (Int × Nat)) (lf a : Nat) (f : Feature) :
    featureSuccs K ts o hp allFs lf a f = filt (keep hp allFs) (featureSuccs K ts o hp0 [] lf a f) := by
  unfold featureSuccs
  simp only [hslot, seenId_nil, walkList_filter hp hp0 hslot allFs, refsToPush_filter hp hp0 allFs]
  repeat' split
  all_goals first
    | rfl
    | contradiction
    | (simp_all [filt, filtW, keep]; done)

theorem featuresSuccs_filter (K : Consts) (ts : TypeSystem) (o : Opts) (hp hp0 : Heap)
    (hslot : ∀ a n, slot hp a n = slot hp0 a n) (allFs : List (Int × Nat)) (lf a : Nat) (fs : List Feature) :
    featuresSuccs K ts o hp allFs lf a fs = filt (keep hp allFs) (featuresSuccs K ts o hp0 [] lf a fs) := by
  induction fs with
  | nil => rfl
  | cons f fs ih =>
    unfold featuresSuccs
    rw [featureSuccs_filter K ts o hp hp0 hslot allFs lf a f, ih]
    cases featureSuccs K ts o hp0 [] lf a f with
    | error e => rfl
    | ok r1 =>
      cases featuresSuccs K ts o hp0 [] lf a fs with
      | error e => rfl
      | ok r2 =>
        obtain ⟨p1, n1⟩ := r1
        obtain ⟨p2, n2⟩ := r2
        show Except.ok (p1.filter _ ++ p2.filter _, n1 + n2) = Except.ok ((p1 ++ p2).filter _, n1 + n2)
        rw [List.filter_append]

theorem nodeSuccs_filter (K : Consts) (ts : TypeSystem) (o : Opts) (hp hp0 : Heap)
    (hslot : ∀ a n, slot hp a n = slot hp0 a n) (allFs : List (Int × Nat)) (lf a : Nat) (t : TypeRec) :
    nodeSuccs K ts o hp allFs lf a t = filt (keep hp allFs) (nodeSuccs K ts o hp0 [] lf a t) := by
  unfold nodeSuccs
  simp only [hslot, refsToPush_filter hp hp0 allFs, featuresSuccs_filter K ts o hp hp0 hslot allFs]
  repeat' split
  all_goals first
    | rfl
    | contradiction
    | (simp_all [filt]; done)

theorem keep_nil (hp : Heap) : keep hp [] = fun _ => true := by
  funext b
  unfold keep
  rw [seenId_nil]
  rfl

theorem filt_true (r : Except Err (List Nat × Nat)) : filt (fun _ => true) r = r := by
  cases r with
  | error e => rfl
  | ok r =>
    obtain ⟨ps, n⟩ := r
    show Except.ok (ps.filter (fun _ => true), n) = Except.ok (ps, n)
    rw [List.filter_eq_self.mpr (fun _ _ => rfl)]

/-- against the empty visited map the successors only depend on the slots -/
theorem nodeSuccs_nil_eq (K : Consts) (ts : TypeSystem) (o : Opts) (hp hp0 : Heap)
    (hslot : ∀ a n, slot hp a n = slot hp0 a n) (lf a : Nat) (t : TypeRec) :
    nodeSuccs K ts o hp [] lf a t = nodeSuccs K ts o hp0 [] lf a t := by
  rw [nodeSuccs_filter K ts o hp hp0 hslot [] lf a t, keep_nil, filt_true]

theorem succsOf_shape (K : Consts) (ts : TypeSystem) (o : Opts) {hp hp' : Heap} (sh : SameShape hp hp')
    (lf a : Nat) : succsOf K ts o hp' lf a = succsOf K ts o hp lf a := by
  unfold succsOf
  cases h : hp[a]? with
  | none =>
    have : hp'[a]? = none := by
      apply List.getElem?_eq_none
      rw [sh.1]
      exact List.getElem?_eq_none_iff.mp h
    rw [this]
  | some ob =>
    obtain ⟨ob', e, t, _, _⟩ := sh.2 a ob h
    rw [e]
    simp only [t]
    cases getType ts ob.ty with
    | error e => rfl
    | ok t =>
      simp only
      rw [nodeSuccs_nil_eq K ts o hp' hp (fun a n => sh.slot a n) lf a t]

theorem seenId_mem {allFs : List (Int × Nat)} {x : Option Int} {b : Nat} (h : seenId allFs x b = true) :
    b ∈ allFs.map (·.2) := by
  unfold seenId at h
  split at h
  · cases h
  · split at h
    · rename_i p hf
      have hm := List.mem_of_find?_eq_some hf
      have : p.2 = b := by simpa using h
      exact List.mem_map.mpr ⟨p, hm, this⟩
    · cases h

theorem succsOf_eq (K : Consts) (ts : TypeSystem) (o : Opts) {hp : Heap} {lf a : Nat} {ob : Obj} {t : TypeRec}
    {ps : List Nat} {n : Nat} (h : hp[a]? = some ob) (ht : getType ts ob.ty = .ok t)
    (hn : nodeSuccs K ts o hp [] lf a t = .ok (ps, n)) : succsOf K ts o hp lf a = ps := by
  unfold succsOf
  rw [h]
  simp only [ht, hn]

/-! ### refinements of `step` -/

theorem step_nextXid (K : Consts) (ts : TypeSystem) (o : Opts) (lf : Nat) (s : St) (a : Nat)
    (rest : List Nat) (s' : St) (h : step K ts o lf s a rest = .ok s') : s.nextXid ≤ s'.nextXid := by
  unfold step at h
  simp only [bind, Except.bind, pure, Except.pure, throw, throwThe, MonadExceptOf.throw] at h
  repeat' split at h
  all_goals first
    | (cases h; done)
    | (cases h; simp only; omega)
    | (cases h; rename_i hh; cases hh; simp only; omega)

theorem step_null (K : Consts) (ts : TypeSystem) (o : Opts) (lf : Nat) (s : St) (a : Nat)
    (rest : List Nat) (s' : St) (ob : Obj) (hob : s.heap[a]? = some ob) (hx : ob.xid = some 0)
    (h : step K ts o lf s a rest = .ok s') : s'.allFs = s.allFs := by
  unfold step at h
  simp only [bind, Except.bind, pure, Except.pure, throw, throwThe, MonadExceptOf.throw, hob, hx,
    beq_self_eq_true, if_true] at h
  cases h
  rfl

/-! ### ids that are assigned are never the NULL id -/

/-- no structure becomes the NULL object (id 0) -/
def NoNewNull (hp hp' : Heap) : Prop := ∀ a, xidOf hp' a = some 0 → xidOf hp a = some 0

theorem HeapStep.noNewNull {s : St} {a : Nat} {ob : Obj} {x : Int} {hp' : Heap}
    (hs : HeapStep s a ob x hp') (h : s.heap[a]? = some ob) (hpos : 0 < s.nextXid) :
    NoNewNull s.heap hp' := by
  rcases hs with ⟨_, rfl⟩ | ⟨_, _, rfl⟩
  · intro b hb; exact hb
  · intro b hb
    by_cases hab : a = b
    · subst hab
      have hlt : a < s.heap.length := by
        obtain ⟨hlt, _⟩ := List.getElem?_eq_some_iff.mp h
        exact hlt
      unfold xidOf at hb
      rw [List.getElem?_set_self hlt] at hb
      simp only [Option.bind_some, Option.some.injEq] at hb
      omega
    · unfold xidOf at hb ⊢
      rw [List.getElem?_set_ne hab] at hb
      exact hb

theorem Reach.mono {K : Consts} {ts : TypeSystem} {o : Opts} {hp hp' : Heap} {lf : Nat} {seeds : List Nat}
    (sh : SameShape hp hp') (nn : NoNewNull hp hp') {a : Nat} (h : Reach K ts o hp lf seeds a) :
    Reach K ts o hp' lf seeds a := by
  induction h with
  | seed a hs => exact .seed a hs
  | step a b _ hx hb ih =>
    exact .step a b ih (fun e => hx (nn a e)) (by rw [succsOf_shape K ts o sh]; exact hb)

/-! ### the reachability invariant -/

/-- `b` is accounted for: collected, still on the open list, or the NULL object -/
def Acc (s : St) (b : Nat) : Prop :=
  b ∈ s.allFs.map (·.2) ∨ b ∈ s.openl ∨ xidOf s.heap b = some 0

structure RInv (K : Consts) (ts : TypeSystem) (o : Opts) (hp0 : Heap) (lf : Nat) (seeds : List Nat) (s : St) :
    Prop where
  pos : 0 < s.nextXid
  ids : ∀ x a, (x, a) ∈ s.allFs → x ≠ 0
  seedsAcc : ∀ a, a ∈ seeds → Acc s a
  closed : ∀ x a, (x, a) ∈ s.allFs → ∀ b, b ∈ succsOf K ts o hp0 lf a → Acc s b
  sound : ∀ a, (a ∈ s.allFs.map (·.2) ∨ a ∈ s.openl) → Reach K ts o s.heap lf seeds a

theorem rinv_init (K : Consts) (ts : TypeSystem) (o : Opts) (hp : Heap) (lf : Nat) (nx : Int) (seeds : List Nat)
    (hnx : 0 < nx) : RInv K ts o hp lf seeds { heap := hp, nextXid := nx, openl := seeds } := by
  refine ⟨hnx, ?_, ?_, ?_, ?_⟩
  · intro x a h; cases h
  · intro a ha; exact Or.inr (Or.inl ha)
  · intro x a h; cases h
  · intro a ha
    rcases ha with ha | ha
    · cases ha
    · exact .seed a ha

theorem rinv_step (K : Consts) (ts : TypeSystem) (o : Opts) (hp0 : Heap) (lf n0 : Nat) (seeds : List Nat)
    (s : St) (a : Nat) (rest : List Nat) (s' : St) (ho : s.openl = a :: rest)
    (inv : Inv K ts o hp0 lf n0 s) (r : RInv K ts o hp0 lf seeds s)
    (h : step K ts o lf s a rest = .ok s') : RInv K ts o hp0 lf seeds s' := by
  obtain ⟨ob, x, hob, hstep, hpops, hcase⟩ := step_cases K ts o lf s a rest s' h
  obtain ⟨sh', hxid⟩ := hstep.shape hob
  have nn := hstep.noNewNull hob r.pos
  have hpos' : 0 < s'.nextXid := Int.lt_of_lt_of_le r.pos (step_nextXid K ts o lf s a rest s' h)
  have mono : ∀ b, Reach K ts o s.heap lf seeds b → Reach K ts o s'.heap lf seeds b :=
    fun b hb => Reach.mono sh' nn hb
  have ha_open : a ∈ s.openl := by rw [ho]; exact List.mem_cons_self
  rcases hcase with ⟨hall, hopen, _, hwhy⟩ | ⟨t, ps, n, hfind, ht, hn, hall, hopen, _⟩
  · have acc : ∀ b, Acc s b → Acc s' b := by
      intro b hb
      unfold Acc at hb ⊢
      rw [hall, hopen]
      rcases hb with hb | hb | hb
      · exact Or.inl hb
      · rw [ho] at hb
        rcases List.mem_cons.mp hb with hb | hb
        · subst hb
          rcases hwhy with h0 | ⟨y, hy, _⟩
          · rw [h0] at hxid; exact Or.inr (Or.inr hxid)
          · exact Or.inl (List.mem_map.mpr ⟨(y, b), hy, rfl⟩)
        · exact Or.inr (Or.inl hb)
      · exact Or.inr (Or.inr (sh'.xidOf hb))
    refine ⟨hpos', ?_, ?_, ?_, ?_⟩
    · intro y b hm; rw [hall] at hm; exact r.ids y b hm
    · intro b hb; exact acc b (r.seedsAcc b hb)
    · intro y c hm b hb; rw [hall] at hm; exact acc b (r.closed y c hm b hb)
    · intro b hb
      rw [hall, hopen] at hb
      apply mono
      apply r.sound
      rcases hb with hb | hb
      · exact Or.inl hb
      · rw [ho]; exact Or.inr (List.mem_cons_of_mem _ hb)
  · have hx0 : x ≠ 0 := by
      intro hx0
      rcases hstep with ⟨hx, _⟩ | ⟨_, hx, _⟩
      · rw [hx0] at hx
        have := step_null K ts o lf s a rest s' ob hob hx h
        rw [hall] at this
        have := congrArg List.length this
        simp only [List.length_append, List.length_cons, List.length_nil] at this
        omega
      · have := r.pos; omega
    have sh0 := inv.shape.trans sh'
    obtain ⟨ob0, h0, hty, _⟩ := inv.shape.get_back hob
    have ht0 : getType ts ob0.ty = .ok t := by rw [← hty]; exact ht
    rw [nodeSuccs_filter K ts o s'.heap hp0 (fun a n => sh0.slot a n) s'.allFs lf a t] at hn
    cases hn0 : nodeSuccs K ts o hp0 [] lf a t with
    | error e => rw [hn0] at hn; cases hn
    | ok r0 =>
      obtain ⟨ps0, n0'⟩ := r0
      rw [hn0] at hn
      have hps : ps = ps0.filter (keep s'.heap s'.allFs) := by
        simp only [filt, Except.ok.injEq, Prod.mk.injEq] at hn
        exact hn.1.symm
      have hsucc : succsOf K ts o hp0 lf a = ps0 := succsOf_eq K ts o h0 ht0 hn0
      have ha_new : a ∈ s'.allFs.map (·.2) := by
        rw [hall]; exact List.mem_map.mpr ⟨(x, a), List.mem_append_right _ (List.mem_singleton.mpr rfl), rfl⟩
      have acc : ∀ b, Acc s b → Acc s' b := by
        intro b hb
        unfold Acc at hb ⊢
        rcases hb with hb | hb | hb
        · left
          rw [hall, List.map_append]
          exact List.mem_append_left _ hb
        · rw [ho] at hb
          rcases List.mem_cons.mp hb with hb | hb
          · subst hb; exact Or.inl ha_new
          · rw [hopen]; exact Or.inr (Or.inl (List.mem_append_left _ hb))
        · exact Or.inr (Or.inr (sh'.xidOf hb))
      have hreach_a : Reach K ts o s'.heap lf seeds a := mono a (r.sound a (Or.inr ha_open))
      refine ⟨hpos', ?_, ?_, ?_, ?_⟩
      · intro y b hm
        rw [hall] at hm
        rcases List.mem_append.mp hm with hm | hm
        · exact r.ids y b hm
        · simp only [List.mem_singleton, Prod.mk.injEq] at hm
          rw [hm.1]; exact hx0
      · intro b hb; exact acc b (r.seedsAcc b hb)
      · intro y c hm b hb
        rw [hall] at hm
        rcases List.mem_append.mp hm with hm | hm
        · exact acc b (r.closed y c hm b hb)
        · simp only [List.mem_singleton, Prod.mk.injEq] at hm
          rw [hm.2, hsucc] at hb
          unfold Acc
          cases hk : keep s'.heap s'.allFs b with
          | true =>
            right; left
            rw [hopen, hps]
            exact List.mem_append_right _ (List.mem_filter.mpr ⟨hb, hk⟩)
          | false =>
            left
            unfold keep at hk
            have : seenId s'.allFs (xidOf s'.heap b) b = true := by
              cases hs : seenId s'.allFs (xidOf s'.heap b) b with
              | true => rfl
              | false => rw [hs] at hk; cases hk
            exact seenId_mem this
      · intro b hb
        rcases hb with hb | hb
        · rw [hall, List.map_append] at hb
          rcases List.mem_append.mp hb with hb | hb
          · exact mono b (r.sound b (Or.inl hb))
          · simp only [List.map_cons, List.map_nil, List.mem_singleton] at hb
            rw [hb]; exact hreach_a
        · rw [hopen] at hb
          rcases List.mem_append.mp hb with hb | hb
          · exact mono b (r.sound b (Or.inr (by rw [ho]; exact List.mem_cons_of_mem _ hb)))
          · rw [hps] at hb
            have hb0 := (List.mem_filter.mp hb).1
            refine .step a b hreach_a ?_ ?_
            · rw [hxid]; intro e; cases e; exact hx0 rfl
            · rw [succsOf_shape K ts o sh0, hsucc]; exact hb0

theorem run_rinv (K : Consts) (ts : TypeSystem) (o : Opts) (hp0 : Heap) (lf n0 : Nat) (seeds : List Nat)
    (f : Nat) (s s' : St) (inv : Inv K ts o hp0 lf n0 s) (r : RInv K ts o hp0 lf seeds s)
    (h : run K ts o lf f s = .ok s') : RInv K ts o hp0 lf seeds s' := by
  induction f generalizing s with
  | zero =>
    unfold run at h
    split at h
    · cases h; exact r
    · cases h
  | succ f ih =>
    unfold run at h
    split at h
    · cases h; exact r
    · rename_i a rest ho
      cases hs : step K ts o lf s a rest with
      | error e => rw [hs] at h; cases h
      | ok s1 =>
        rw [hs] at h
        exact ih s1 (inv_step K ts o hp0 lf n0 s a rest s1 ho inv hs).1
          (rinv_step K ts o hp0 lf n0 seeds s a rest s1 ho inv r hs) h

theorem findAllFs_rinv (K : Consts) (ts : TypeSystem) (o : Opts) (hp : Heap) (nx : Int) (seeds : List Nat)
    (st : St) (hnx : 0 < nx) (h : findAllFs K ts o hp nx seeds = .ok st) :
    RInv K ts o hp (hp.length + 1) seeds st :=
  run_rinv K ts o hp _ _ seeds _ _ st (inv_init K ts o hp _ nx seeds) (rinv_init K ts o hp _ nx seeds hnx) h

/-! ### the statements of C04 -/

theorem findAllFs_ids_aux (K : Consts) (ts : TypeSystem) (o : Opts) (hp : Heap) (nx : Int) (seeds : List Nat)
    (st : St) (hnx : 0 < nx) (h : findAllFs K ts o hp nx seeds = .ok st) (x : Int) (a : Nat) (ha : (x, a) ∈ st.allFs) :
    xidOf st.heap a = some x ∧ x ≠ 0 :=
  ⟨(findAllFs_inv K ts o hp nx seeds st h).1.link x a ha,
   (findAllFs_rinv K ts o hp nx seeds st hnx h).ids x a ha⟩

theorem findAllFs_closed_aux (K : Consts) (ts : TypeSystem) (o : Opts) (hp : Heap) (nx : Int) (seeds : List Nat)
    (st : St) (hnx : 0 < nx) (h : findAllFs K ts o hp nx seeds = .ok st) (x : Int) (a b : Nat)
    (ha : (x, a) ∈ st.allFs) (hb : b ∈ succsOf K ts o st.heap (hp.length + 1) a) (hnull : xidOf st.heap b ≠ some 0) :
    b ∈ st.allFs.map (·.2) := by
  obtain ⟨inv, ho⟩ := findAllFs_inv K ts o hp nx seeds st h
  have r := findAllFs_rinv K ts o hp nx seeds st hnx h
  rw [succsOf_shape K ts o inv.shape] at hb
  rcases r.closed x a ha b hb with hc | hc | hc
  · exact hc
  · rw [ho] at hc; cases hc
  · exact absurd hc hnull

theorem findAllFs_complete_aux (K : Consts) (ts : TypeSystem) (o : Opts) (hp : Heap) (nx : Int) (seeds : List Nat)
    (st : St) (hnx : 0 < nx) (h : findAllFs K ts o hp nx seeds = .ok st) (a : Nat)
    (hr : Reach K ts o st.heap (hp.length + 1) seeds a) (hnull : xidOf st.heap a ≠ some 0) :
    a ∈ st.allFs.map (·.2) := by
  obtain ⟨inv, ho⟩ := findAllFs_inv K ts o hp nx seeds st h
  have r := findAllFs_rinv K ts o hp nx seeds st hnx h
  induction hr with
  | seed a hs =>
    rcases r.seedsAcc a hs with hc | hc | hc
    · exact hc
    · rw [ho] at hc; cases hc
    · exact absurd hc hnull
  | step a b _ hx hb ih =>
    obtain ⟨p, hm, hpa⟩ := List.mem_map.mp (ih hx)
    obtain ⟨y, c⟩ := p
    simp only at hpa
    subst hpa
    exact findAllFs_closed_aux K ts o hp nx seeds st hnx h y c b hm hb hnull

theorem findAllFs_sound_aux (K : Consts) (ts : TypeSystem) (o : Opts) (hp : Heap) (nx : Int) (seeds : List Nat)
    (st : St) (hnx : 0 < nx) (h : findAllFs K ts o hp nx seeds = .ok st) (a : Nat) (ha : a ∈ st.allFs.map (·.2)) :
    Reach K ts o st.heap (hp.length + 1) seeds a :=
  (findAllFs_rinv K ts o hp nx seeds st hnx h).sound a (Or.inl ha)

end Cassis.Traverse
