/-
Layer 1 of `loadJson_congr` (`Properties/C02RoundTripEmbedded.lean`): objects and heaps up to slot order
(`ObjSim`, `HeapSim` of `Spec/ReaderSim.lean`) — reflexivity, reading a slot, `setSlot`, `construct`.
-/
import CassisModel.Spec.ReaderSim
import CassisModel.Proofs.Determinism

namespace Cassis.Json
open Cassis.TS

/-- two outcomes related by `R`: the same exception or related values -/
def ESim {α β : Type} (R : α → β → Prop) : Except Err α → Except Err β → Prop
  | .ok a, .ok b => R a b
  | .error e, .error e' => e' = e
  | _, _ => False

theorem ESim.elim {α β : Type} {R : α → β → Prop} {x : Except Err α} {y : Except Err β} (h : ESim R x y) :
    (∃ e, x = .error e ∧ y = .error e) ∨ (∃ a b, x = .ok a ∧ y = .ok b ∧ R a b) := by
  cases x with
  | error e =>
    cases y with
    | error e' => exact Or.inl ⟨e, rfl, by rw [show e' = e from h]⟩
    | ok b => exact absurd h (by simp [ESim])
  | ok a =>
    cases y with
    | error e' => exact absurd h (by simp [ESim])
    | ok b => exact Or.inr ⟨a, b, rfl, rfl, h⟩

theorem ESim.err {α β : Type} {R : α → β → Prop} (e : Err) : ESim R (.error e : Except Err α) (.error e : Except Err β) := rfl
theorem ESim.ok {α β : Type} {R : α → β → Prop} {a : α} {b : β} (h : R a b) : ESim R (.ok a) (.ok b) := h

/-! ### association lists -/

theorem alistSet_of_none {β} (l : List (String × β)) (k : String) (v : β) (h : alistGet? l k = none) :
    alistSet l k v = l ++ [(k, v)] := by
  induction l with
  | nil => rfl
  | cons p rest ih =>
    obtain ⟨k', v'⟩ := p
    unfold alistGet? at h
    split at h
    · cases h
    · rename_i hk
      unfold alistSet
      rw [if_neg hk, ih h]; rfl

theorem alistSet_perm_of_some {β} [DecidableEq β] (l : List (String × β)) (k : String) (v v0 : β)
    (h : alistGet? l k = some v0) : (alistSet l k v).Perm ((k, v) :: l.erase (k, v0)) := by
  induction l with
  | nil => cases h
  | cons p rest ih =>
    obtain ⟨k', v'⟩ := p
    unfold alistGet? at h
    unfold alistSet
    split at h
    · rename_i hk
      cases h; subst hk
      rw [if_pos rfl, List.erase_cons_head]
    · rename_i hk
      rw [if_neg hk]
      have hne : ((k', v') == (k, v0)) = false := by
        simp only [beq_eq_false_iff_ne, ne_eq, Prod.mk.injEq, not_and]
        intro hk'; exact absurd hk' hk
      rw [List.erase_cons_tail (by simpa using hne)]
      exact ((ih h).cons (k', v')).trans (List.Perm.swap _ _ _)

/-- the slot lists of two similar objects stay similar under an update -/
theorem alistSet_sim {β} [DecidableEq β] {l l' : List (String × β)} (hp : l'.Perm l)
    (hg : ∀ n, alistGet? l' n = alistGet? l n) (k : String) (v : β) :
    (alistSet l' k v).Perm (alistSet l k v) ∧ ∀ n, alistGet? (alistSet l' k v) n = alistGet? (alistSet l k v) n := by
  refine ⟨?_, ?_⟩
  · cases h : alistGet? l k with
    | none =>
      rw [alistSet_of_none l k v h, alistSet_of_none l' k v (by rw [hg]; exact h)]
      exact hp.append_right _
    | some v0 =>
      have h' : alistGet? l' k = some v0 := by rw [hg]; exact h
      exact (alistSet_perm_of_some l' k v v0 h').trans
        (((hp.erase (k, v0)).cons (k, v)).trans (alistSet_perm_of_some l k v v0 h).symm)
  · intro n
    by_cases hn : n = k
    · subst hn; rw [alistGet?_set_same, alistGet?_set_same]
    · rw [alistGet?_set_other _ _ _ _ hn, alistGet?_set_other _ _ _ _ hn, hg]

/-! ### objects and heaps -/

theorem ObjSim.refl (o : Obj) : ObjSim o o := ⟨rfl, rfl, rfl, List.Perm.refl _, fun _ => rfl⟩

theorem HeapSim.refl (hp : Heap) : HeapSim hp hp := by
  refine ⟨rfl, ?_⟩
  intro a o o' h h'
  rw [h] at h'; cases h'
  exact ObjSim.refl o

theorem HeapSim.get {hp hp' : Heap} (h : HeapSim hp hp') (a : Nat) :
    (hp[a]? = none ∧ hp'[a]? = none) ∨ ∃ o o', hp[a]? = some o ∧ hp'[a]? = some o' ∧ ObjSim o o' := by
  by_cases ha : a < hp.length
  · right
    have ha' : a < hp'.length := by rw [h.1]; exact ha
    exact ⟨hp[a], hp'[a], List.getElem?_eq_getElem ha, List.getElem?_eq_getElem ha',
      h.2 a _ _ (List.getElem?_eq_getElem ha) (List.getElem?_eq_getElem ha')⟩
  · left
    exact ⟨List.getElem?_eq_none (by omega), List.getElem?_eq_none (by rw [h.1]; omega)⟩

theorem HeapSim.set {hp hp' : Heap} (h : HeapSim hp hp') (a : Nat) {o o' : Obj} (ho : ObjSim o o') :
    HeapSim (hp.set a o) (hp'.set a o') := by
  refine ⟨by simp [h.1], ?_⟩
  intro b x x' hx hx'
  rw [List.getElem?_set] at hx hx'
  by_cases hab : a = b
  · subst hab
    rw [if_pos rfl] at hx hx'
    split at hx
    · split at hx'
      · cases hx; cases hx'; exact ho
      · cases hx'
    · cases hx
  · rw [if_neg hab] at hx hx'
    exact h.2 b x x' hx hx'

theorem HeapSim.push {hp hp' : Heap} (h : HeapSim hp hp') {o o' : Obj} (ho : ObjSim o o') :
    HeapSim (hp ++ [o]) (hp' ++ [o']) := by
  refine ⟨by simp [h.1], ?_⟩
  intro b x x' hx hx'
  by_cases hb : b < hp.length
  · rw [List.getElem?_append_left hb] at hx
    rw [List.getElem?_append_left (by rw [h.1]; exact hb)] at hx'
    exact h.2 b x x' hx hx'
  · rw [List.getElem?_append_right (by omega)] at hx
    rw [List.getElem?_append_right (by rw [h.1]; omega), h.1] at hx'
    cases hk : b - hp.length with
    | zero =>
      rw [hk] at hx hx'
      simp only [List.getElem?_cons_zero, Option.some.injEq] at hx hx'
      subst hx; subst hx'; exact ho
    | succ k => rw [hk] at hx; simp at hx

theorem HeapSim.slot {hp hp' : Heap} (h : HeapSim hp hp') (a : Nat) (n : String) :
    Traverse.slot hp' a n = Traverse.slot hp a n := by
  unfold Traverse.slot
  rcases h.get a with ⟨h1, h2⟩ | ⟨o, o', h1, h2, ho⟩
  · rw [h1, h2]
  · rw [h1, h2]; exact ho.2.2.2.2 n

theorem HeapSim.xidOf {hp hp' : Heap} (h : HeapSim hp hp') (a : Nat) : Traverse.xidOf hp' a = Traverse.xidOf hp a := by
  unfold Traverse.xidOf
  rcases h.get a with ⟨h1, h2⟩ | ⟨o, o', h1, h2, ho⟩
  · rw [h1, h2]
  · rw [h1, h2]; exact ho.2.2.1

/-- `setattr` on similar heaps: the same exception or similar heaps -/
theorem setSlot_sim {hp hp' : Heap} (h : HeapSim hp hp') (a : Nat) (n : String) (v : Val) :
    ESim HeapSim (Heap.setSlot hp a n v) (Heap.setSlot hp' a n v) := by
  unfold Heap.setSlot
  rcases h.get a with ⟨h1, h2⟩ | ⟨o, o', h1, h2, ho⟩
  · rw [h1, h2]; exact ESim.err _
  · rw [h1, h2]
    obtain ⟨hty, hts, hxid, hperm, hget⟩ := ho
    dsimp only
    rw [hget n]
    cases hs : alistGet? o.slots n with
    | some w =>
      dsimp only
      obtain ⟨p1, p2⟩ := alistSet_sim hperm hget n v
      exact ESim.ok (h.set a ⟨hty, hts, hxid, p1, p2⟩)
    | none =>
      dsimp only
      split
      · cases v with
        | int i => exact ESim.ok (h.set a ⟨hty, hts, rfl, hperm, hget⟩)
        | none => exact ESim.ok (h.set a ⟨hty, hts, rfl, hperm, hget⟩)
        | _ => exact ESim.err _
      · exact ESim.err _

/-- `setSlot` keeps the type of every object -/
theorem setSlot_ty {hp hp1 : Heap} {a : Nat} {n : String} {v : Val} (h : Heap.setSlot hp a n v = .ok hp1) (b : Nat) :
    (hp1[b]?).map (·.ty) = (hp[b]?).map (·.ty) := by
  unfold Heap.setSlot at h
  cases ho : hp[a]? with
  | none => rw [ho] at h; cases h
  | some o =>
    rw [ho] at h
    dsimp only at h
    have key : ∀ o2 : Obj, o2.ty = o.ty → ((hp.set a o2)[b]?).map (·.ty) = (hp[b]?).map (·.ty) := by
      intro o2 h2
      rw [List.getElem?_set]
      by_cases hab : a = b
      · subst hab
        rw [if_pos rfl]
        split
        · rw [ho]; simp [h2]
        · rw [List.getElem?_eq_none (by omega)]
      · rw [if_neg hab]
    split at h
    · cases h; exact key _ rfl
    · split at h
      · cases v with
        | int i => cases h; exact key _ rfl
        | none => cases h; exact key _ rfl
        | _ => cases h
      · cases h

/-! ### the constructor -/

theorem alistGet?_map_fields (g : String → Val) : ∀ (l : List String) (x : String),
    alistGet? (l.map (fun n => (n, g n))) x = if x ∈ l then some (g x) else none := by
  intro l
  induction l with
  | nil => intro x; rfl
  | cons n rest ih =>
    intro x
    simp only [List.map_cons, alistGet?]
    by_cases hn : n = x
    · subst hn; simp
    · rw [if_neg hn, ih]
      have : (x ∈ n :: rest) ↔ x ∈ rest := by
        simp only [List.mem_cons]
        constructor
        · rintro (h | h)
          · exact absurd h.symm hn
          · exact h
        · exact Or.inr
      by_cases hx : x ∈ rest
      · rw [if_pos hx, if_pos (this.mpr hx)]
      · rw [if_neg hx, if_neg (fun h => hx (this.mp h))]

theorem mem_eraseDups_iff (l : List String) (x : String) : x ∈ l.eraseDups ↔ x ∈ l := List.mem_eraseDups

/-- instances of two types with the same name and the same feature names, built from the same arguments -/
theorem construct_sim {t t' : TypeRec} (hn : t'.name = t.name) (hf : ∀ x, x ∈ ctorFields t' ↔ x ∈ ctorFields t)
    (tsIdx : Nat) (xid : Option Int) (kwargs : List (String × Val)) :
    ESim ObjSim (construct t tsIdx xid kwargs) (construct t' tsIdx xid kwargs) := by
  unfold construct
  have hmem : ∀ x, x ∈ (ctorFields t').eraseDups ↔ x ∈ (ctorFields t).eraseDups := by
    intro x; rw [mem_eraseDups_iff, mem_eraseDups_iff]; exact hf x
  have hany : kwargs.any (fun p => !((ctorFields t').eraseDups.contains p.1)) =
      kwargs.any (fun p => !((ctorFields t).eraseDups.contains p.1)) := by
    congr 1
    funext p
    congr 1
    rw [Bool.eq_iff_iff]
    simp only [List.contains_iff_mem]
    exact hmem p.1
  dsimp only
  rw [hany]
  split
  · exact ESim.err _
  · have hperm : ((ctorFields t').eraseDups).Perm ((ctorFields t).eraseDups) :=
      (List.perm_ext_iff_of_nodup (Cassis.Det.nodup_eraseDups _) (Cassis.Det.nodup_eraseDups _)).mpr hmem
    refine ESim.ok ⟨hn, rfl, rfl, hperm.map _, ?_⟩
    intro n
    dsimp only
    rw [alistGet?_map_fields (fun n => (alistGet? kwargs n).getD .none),
      alistGet?_map_fields (fun n => (alistGet? kwargs n).getD .none)]
    by_cases hx : n ∈ (ctorFields t).eraseDups
    · rw [if_pos hx, if_pos ((hmem n).mpr hx)]
    · rw [if_neg hx, if_neg (fun h => hx ((hmem n).mp h))]

end Cassis.Json
