/-
Proofs of `Properties/C02RoundTripEmbedded.lean`: the JSON round trip with an embedded FULL type system, composed from
* `json_roundtrip_flat_aux` / `json_roundtrip_coll_aux` (configuration NONE, original type system supplied),
* `saveJson_to_none_aux` / `saveJson_mode_fss_aux`: the type-system mode of the writer influences the `%TYPES` section only,
* `json_full_ts_same_aux` (here with the additional conclusion that the rebuilt type system is `Consistent`),
* `loadJson_congr_aux` (`Proofs/RoundTripJsonEmbViews.lean`) with `typeAgree_of_sameTs` (`Proofs/RoundTripJsonEmbTs.lean`).
-/
import CassisModel.Proofs.RoundTripJsonEmbViews
import CassisModel.Proofs.RoundTripJsonEmbTs
import CassisModel.Proofs.RoundTripJson
import CassisModel.Proofs.RoundTripJsonColl
import CassisModel.Proofs.EmbeddedTs
import CassisModel.Proofs.EmbeddedTsPct

namespace Cassis.Json
open Cassis.TS Cassis.Traverse Cassis.Xmi

/-! ### the writer: the mode influences the `%TYPES` section only -/

/-- every successful `to_json` also succeeds in mode NONE, with the same traversal result, feature structures and views
    (the `%TYPES` section is rendered last and is the only thing the mode influences) -/
theorem saveJson_to_none_aux (K : Consts) (ts : TypeSystem) (cass : List Cas) (ci : Nat) (hp : Heap) (m : Mode)
    (doc : JDoc) (st : Traverse.St) (h : saveJson K ts cass ci hp m = .ok (doc, st)) :
    ∃ doc', saveJson K ts cass ci hp .none = .ok (doc', st) ∧ doc'.fss = doc.fss ∧ doc'.views = doc.views := by
  unfold saveJson at h ⊢
  cases hc : cass[ci]? with
  | none => rw [hc] at h; cases h
  | some c =>
    rw [hc] at h
    simp only [bind, Except.bind, pure, Except.pure] at h ⊢
    split at h
    · cases h
    · rename_i sofaFss hsf
      cases hst : Traverse.findAllFs K ts { includeInlinable := true } hp c.nextXid (Traverse.defaultSeeds c) with
      | error err => rw [hst] at h; cases h
      | ok st' =>
        rw [hst] at h
        simp only at h ⊢
        cases hr : renderAll K ts cass st'.heap (Xmi.sortById st'.allFs) with
        | error err => rw [hr] at h; cases h
        | ok fsElems =>
          rw [hr] at h
          simp only [renderTypes] at h ⊢
          cases m <;>
          · simp only at h
            first
              | (cases h; exact ⟨_, rfl, rfl, rfl⟩)
              | (split at h
                 · cases h
                 · cases h; exact ⟨_, rfl, rfl, rfl⟩)

/-- the records `saveJson` hands to the `%TYPES` writer are records of the type system -/
theorem renderTypeDecls_of_noPct (K : Consts) (ts : TypeSystem) (hnp : NoPercentNames ts) (l : List TypeRec)
    (hl : ∀ t ∈ l, t ∈ ts.types) : renderTypeDecls K l = .ok (l.map (renderTypeDecl0 K)) :=
  renderTypeDecls_noPct K l (fun t ht => hnp t (hl t ht))

theorem mem_types_of_filterMap_find {ts : TypeSystem} {names : List String} {t : TypeRec}
    (h : t ∈ names.filterMap (find? ts)) : t ∈ ts.types := by
  obtain ⟨n, _, hn⟩ := List.mem_filterMap.mp h
  exact find?_mem hn

/-- **the mode influences the `%TYPES` section only**: without feature names that start with `%` (a feature named `%NAME`
    makes the `%TYPES` writer raise) a successful `to_json` succeeds in every mode, with the same traversal result, feature
    structures and views -/
theorem saveJson_mode_fss_aux (K : Consts) (ts : TypeSystem) (hnp : NoPercentNames ts) (cass : List Cas) (ci : Nat)
    (hp : Heap) (m m' : Mode) (doc : JDoc) (st : Traverse.St) (h : saveJson K ts cass ci hp m = .ok (doc, st)) :
    ∃ doc', saveJson K ts cass ci hp m' = .ok (doc', st) ∧ doc'.fss = doc.fss ∧ doc'.views = doc.views := by
  obtain ⟨doc0, h0, hf0, hv0⟩ := saveJson_to_none_aux K ts cass ci hp m doc st h
  rw [← hf0, ← hv0]
  clear h hf0 hv0
  unfold saveJson at h0 ⊢
  cases hc : cass[ci]? with
  | none => rw [hc] at h0; cases h0
  | some c =>
    rw [hc] at h0
    simp only [bind, Except.bind, pure, Except.pure] at h0 ⊢
    split at h0
    · cases h0
    · rename_i sofaFss hsf
      cases hst : Traverse.findAllFs K ts { includeInlinable := true } hp c.nextXid (Traverse.defaultSeeds c) with
      | error err => rw [hst] at h0; cases h0
      | ok st' =>
        rw [hst] at h0
        simp only at h0 ⊢
        cases hr : renderAll K ts cass st'.heap (Xmi.sortById st'.allFs) with
        | error err => rw [hr] at h0; cases h0
        | ok fsElems =>
          rw [hr] at h0
          simp only [renderTypes] at h0 ⊢
          cases h0
          cases m' with
          | none => exact ⟨_, rfl, rfl, rfl⟩
          | full =>
            simp only
            rw [renderTypeDecls_of_noPct K ts hnp _ (fun t ht => by
              have := (List.mem_filter.mp ht).1
              rw [mem_sortByName] at this
              unfold getTypes at this
              simp only [Bool.false_eq_true, if_false] at this
              exact (List.mem_filter.mp this).1)]
            exact ⟨_, rfl, rfl, rfl⟩
          | minimal =>
            simp only
            rw [renderTypeDecls_of_noPct K ts hnp _ (fun t ht => by
              have := (List.mem_filter.mp ht).1
              rw [mem_sortByName] at this
              exact mem_types_of_filterMap_find this)]
            exact ⟨_, rfl, rfl, rfl⟩

/-! ### the reader: where the type system comes from -/

/-- loading with `merge_typesystem=True` is loading with the merged type system -/
theorem loadJson_merge_eq (K : Consts) (tsArg ts' : TypeSystem) (tsIdx ci : Nat) (lenient : Bool) (hp : Heap) (doc : JDoc)
    (h : loadTs K tsArg true doc = .ok ts') :
    loadJson K tsArg tsIdx ci lenient true hp doc = loadJson K ts' tsIdx ci lenient false hp doc := by
  unfold loadJson
  rw [h]
  simp only [loadTs, Bool.false_eq_true, if_false]

/-- without merging, the reader does not look at the `%TYPES` section -/
theorem loadJson_doc_congr (K : Consts) (ts : TypeSystem) (tsIdx ci : Nat) (lenient : Bool) (hp : Heap) (doc doc' : JDoc)
    (h1 : doc'.fss = doc.fss) (h2 : doc'.views = doc.views) :
    loadJson K ts tsIdx ci lenient false hp doc' = loadJson K ts tsIdx ci lenient false hp doc := by
  unfold loadJson loadTs
  simp only [Bool.false_eq_true, if_false]
  rw [h1, h2]

theorem loadJson_ts {K : Consts} {ts : TypeSystem} {tsIdx ci : Nat} {lenient : Bool} {hp : Heap} {doc : JDoc} {ld : Loaded}
    (h : loadJson K ts tsIdx ci lenient false hp doc = .ok ld) : ld.ts = ts := by
  unfold loadJson loadTs at h
  simp only [Bool.false_eq_true, if_false] at h
  repeat' split at h
  all_goals first
    | (cases h; rfl)
    | cases h

/-! ### contents up to slot order -/

theorem dvalOf_sim {hp hp' : Heap} (h : HeapSim hp hp') (v : Val) : dvalOf hp' v = dvalOf hp v := by
  cases v <;> simp only [dvalOf]
  rw [h.xidOf]

theorem featContent_sim {hp hp' : Heap} (h : HeapSim hp hp') (a : Nat) (n : String) :
    featContent hp' a n = featContent hp a n := by
  unfold featContent Xmi.slot
  rw [h.slot, dvalOf_sim h]

theorem viewContent_sim {hp hp' : Heap} (h : HeapSim hp hp') (nv : String × View) :
    viewContent hp' nv = viewContent hp nv := by
  unfold viewContent
  have : (fun e : Index.Entry => xidOf hp' e.oid) = (fun e => xidOf hp e.oid) := by
    funext e; exact h.xidOf e.oid
  rw [this]

theorem elemVals_sim {hp hp' : Heap} (h : HeapSim hp hp') (v : Val) : elemVals hp' v = elemVals hp v := by
  cases v <;> simp only [elemVals]
  rename_i l
  apply List.map_congr_left
  intro r _
  cases r with
  | none => rfl
  | some b => simp only [h.xidOf]

theorem headVal_sim {hp hp' : Heap} (h : HeapSim hp hp') (isStr : Bool) (v : Val) :
    headVal hp' isStr v = headVal hp isStr v := by
  cases v <;> simp only [headVal]
  rw [h.xidOf]

theorem listVals_sim {hp hp' : Heap} (h : HeapSim hp hp') (isStr : Bool) :
    ∀ (fuel : Nat) (v : Val), listVals hp' isStr fuel v = listVals hp isStr fuel v := by
  intro fuel
  induction fuel with
  | zero => intro v; rfl
  | succ f ih =>
    intro v
    cases v with
    | ref a =>
      simp only [listVals, Xmi.slot]
      rw [h.slot a "head", h.slot a "tail"]
      cases Traverse.slot hp a "head" with
      | none => rfl
      | some hd => dsimp only; rw [headVal_sim h, ih]
    | _ => rfl

theorem cvalOf_sim {hp hp' : Heap} (h : HeapSim hp hp') (v : Val) : cvalOf hp' v = cvalOf hp v := by
  cases v <;> simp only [cvalOf, elemVals_sim h]
  rw [h.xidOf]

theorem featContentC_sim (K : Consts) {hp hp' : Heap} (h : HeapSim hp hp') (a : Nat) (f : Feature) :
    featContentC K hp' a f = featContentC K hp a f := by
  unfold featContentC Xmi.slot
  dsimp only
  rw [h.slot a f.name]
  split
  · cases hv : (Traverse.slot hp a f.name).getD .none with
    | ref c =>
      dsimp only
      rw [h.slot c "elements", elemVals_sim h, listVals_sim h, h.1]
    | _ => dsimp only; rw [cvalOf_sim h]
  · rw [cvalOf_sim h]

/-- the conclusion of the round-trip theorems is invariant under `LoadSim` -/
theorem roundtrip_transfer {β : Type} (cont : Heap → Nat → Feature → β)
    (hcont : ∀ hp hp', HeapSim hp hp' → ∀ a f, cont hp' a f = cont hp a f)
    (ts : TypeSystem) (c : Cas) (st : St) (ld ld' : Loaded) (fss : List (Int × Val))
    (hcas : ld'.cas = ld.cas) (hh : HeapSim ld.heap ld'.heap)
    (H : (∀ q ∈ st.allFs, ∃ (a' : Nat) (o o' : Obj), lookup fss q.1 = some (.ref a') ∧
          st.heap[q.2]? = some o ∧ ld.heap[a']? = some o' ∧ o'.ty = o.ty ∧ o'.xid = some q.1 ∧
          ∀ t : TypeRec, find? ts o.ty = some t → ∀ f ∈ allFeatures t, cont ld.heap a' f = cont st.heap q.2 f) ∧
      (∀ p ∈ fss, (∃ q ∈ st.allFs, q.1 = p.1) ∨ (∃ nv ∈ c.views, nv.2.sofa.xid = p.1)) ∧
      ld.cas.views.map (viewContent ld.heap) = c.views.map (viewContent st.heap) ∧
      (∀ q ∈ st.allFs, q.1 < ld.cas.nextXid) ∧
      (∀ nv ∈ c.views, nv.2.sofa.xid < ld.cas.nextXid ∧ nv.2.sofa.sofaNum < ld.cas.nextSofaNum)) :
    (∀ q ∈ st.allFs, ∃ (a' : Nat) (o o' : Obj), lookup fss q.1 = some (.ref a') ∧
          st.heap[q.2]? = some o ∧ ld'.heap[a']? = some o' ∧ o'.ty = o.ty ∧ o'.xid = some q.1 ∧
          ∀ t : TypeRec, find? ts o.ty = some t → ∀ f ∈ allFeatures t, cont ld'.heap a' f = cont st.heap q.2 f) ∧
      (∀ p ∈ fss, (∃ q ∈ st.allFs, q.1 = p.1) ∨ (∃ nv ∈ c.views, nv.2.sofa.xid = p.1)) ∧
      ld'.cas.views.map (viewContent ld'.heap) = c.views.map (viewContent st.heap) ∧
      (∀ q ∈ st.allFs, q.1 < ld'.cas.nextXid) ∧
      (∀ nv ∈ c.views, nv.2.sofa.xid < ld'.cas.nextXid ∧ nv.2.sofa.sofaNum < ld'.cas.nextSofaNum) := by
  obtain ⟨H1, H2, H3, H4, H5⟩ := H
  refine ⟨?_, H2, ?_, by rw [hcas]; exact H4, by rw [hcas]; exact H5⟩
  · intro q hq
    obtain ⟨a', o, o', h1, h2, h3, h4, h5, h6⟩ := H1 q hq
    rcases hh.get a' with ⟨g1, _⟩ | ⟨x, x', g1, g2, gx⟩
    · rw [g1] at h3; cases h3
    · rw [g1] at h3; cases h3
      refine ⟨a', o, x', h1, h2, g2, by rw [gx.1]; exact h4, by rw [gx.2.2.1]; exact h5, ?_⟩
      intro t ht f hf
      rw [hcont _ _ hh]
      exact h6 t ht f hf
  · rw [hcas, ← H3]
    apply List.map_congr_left
    intro nv _
    exact viewContent_sim hh nv

/-! ### the rebuilt type system is consistent -/

/-- `merge_same_of` (C13) with the invariant `Consistent` of the merged type system kept -/
theorem merge_same_of_cons (o : TypeSystem) (ho : Hist o) (inputs : List TypeSystem)
    (hin : ∀ a ∈ inputs, a = o ∨ a = Gen.builtinTS) (hmem : o ∈ inputs) :
    ∃ m, merge Gen.consts Gen.builtinTS inputs = .ok m ∧ SameTs o m ∧ Consistent m := by
  have hhist : ∀ a ∈ inputs, Hist a ∧ Grow Gen.consts a o := by
    intro a ha
    rcases hin a ha with rfl | rfl
    · exact ⟨ho, Grow.refl _ _⟩
    · exact ⟨hist_builtin, ho.grow⟩
  have hok : ∀ (l : List TypeSystem), (∀ a ∈ l, Hist a ∧ Grow Gen.consts a o) →
      (∀ d ∈ l.flatMap (declsOf Gen.consts), DeclOk Gen.consts o d) ∧
      ReadyList Gen.consts [] (l.flatMap (declsOf Gen.consts)) := by
    intro l
    induction l with
    | nil => intro _; exact ⟨fun d hd => (by cases hd), trivial⟩
    | cons a l ih =>
      intro hl
      obtain ⟨ha, hga⟩ := hl a List.mem_cons_self
      obtain ⟨i1, i2⟩ := ih (fun b hb => hl b (List.mem_cons_of_mem _ hb))
      simp only [List.flatMap_cons]
      refine ⟨?_, ReadyList.append _ _ _ _ (declsOf_ready ha []) i2⟩
      intro d hd
      rcases List.mem_append.mp hd with hd | hd
      · exact declsOf_ok ha hga d hd
      · exact i1 d hd
  obtain ⟨hd, hr⟩ := hok inputs hhist
  obtain ⟨m, hm, hcm, hfm, hs, hg, hcv⟩ :=
    mergeDecls_step Gen.consts o ho.feat Gen.builtinTS _ (init_inv ho) hd hr
  refine ⟨m, hm, same_of o m ho hcm hfm hs hg ?_, hcm⟩
  intro t ht hp
  have hmem' : mkDecl t ∈ inputs.flatMap (declsOf Gen.consts) :=
    List.mem_flatMap.mpr ⟨o, hmem, declsOf_mem ht hp⟩
  exact hcv (mkDecl t) hmem'

/-- `json_full_ts_same` with the two registries' invariants -/
theorem json_full_ts_same_cons (ops : List TsOp)
    (h : UserOnly Gen.consts ops ∧ ∀ op ∈ ops, match op with
      | .createFeature dom _ _ _ _ _ => dom ≠ DOCUMENT_ANNOTATION
      | .createType _ _ _ => True)
    (hw : Writable Gen.consts (ops.foldl (applyOp Gen.consts) Gen.builtinTS))
    (hpc : NoPercentNames (ops.foldl (applyOp Gen.consts) Gen.builtinTS))
    (cass : List Cas) (ci : Nat) (hp : Heap) (doc : JDoc) (st : Traverse.St)
    (hsave : saveJson Gen.consts (ops.foldl (applyOp Gen.consts) Gen.builtinTS) cass ci hp .full = .ok (doc, st)) :
    ∃ ts', loadTs Gen.consts Gen.builtinTS true doc = .ok ts' ∧
      SameTs (ops.foldl (applyOp Gen.consts) Gen.builtinTS) ts' ∧
      Consistent (ops.foldl (applyOp Gen.consts) Gen.builtinTS) ∧ Consistent ts' := by
  have ho := hist_history ops _ hist_builtin h.1
  have ho2 := hist2_history ops _ hist_builtin hist2_builtin h.1 h.2
  obtain ⟨decls, hdecls, htypes⟩ := saveJson_full_types _ _ _ _ _ _ _ hsave
  rw [renderTypeDecls_noPct _ _ (fun t ht => hpc t ((mem_fullRecs _ _ _).mp ht).1)] at hdecls
  cases hdecls
  obtain ⟨emb, hload, hemb, hsame⟩ := loadEmbedded_same ho ho2 hw hpc
  obtain ⟨m, hm, hsame2, hcm⟩ := merge_same_of_cons emb hemb [Gen.builtinTS, emb] (by simp) (by simp)
  refine ⟨m, ?_, sameTs_trans hsame hsame2, ho.cons, hcm⟩
  unfold loadTs
  simp only [htypes, hload, if_true]
  exact hm

/-! ### lemma 1 in the `SameTs` form -/

theorem loadJson_congr_sameTs_aux (K : Consts) (ts ts' : TypeSystem) (tsIdx ci : Nat) (lenient : Bool) (hp : Heap)
    (doc : JDoc) (hs : SameTs ts ts') (hc : Consistent ts) (hc' : Consistent ts') :
    LoadSim (loadJson K ts tsIdx ci lenient false hp doc) (loadJson K ts' tsIdx ci lenient false hp doc) :=
  loadJson_congr_aux K ts ts' tsIdx ci lenient hp doc (fun _ _ => typeAgree_of_sameTs hs hc hc' _)


/-! ### the composition -/

/-- the composition step, for any embedded type system (FULL or MINIMAL): if the type system the reader builds from the
    `%TYPES` section agrees with the original on the type names of the document, loading without a type system
    yields what loading the NONE document with the original type system yields (up to slot order) -/
theorem emb_load_of_none_load (K : Consts) (ts ts' : TypeSystem) (tsArg : TypeSystem)
    (tsIdx ci' : Nat) (lenient : Bool) (hp : Heap) (doc doc0 : JDoc) (ld0 : Loaded)
    (hlts : loadTs K tsArg true doc = .ok ts')
    (hag : ∀ j ∈ doc.fss, TypeAgree ts ts' (fsTypeName j))
    (h1 : doc0.fss = doc.fss) (h2 : doc0.views = doc.views)
    (hload0 : loadJson K ts tsIdx ci' lenient false hp doc0 = .ok ld0) :
    ∃ ld : Loaded, loadJson K tsArg tsIdx ci' lenient true hp doc = .ok ld ∧
      ld.ts = ts' ∧ ld.cas = ld0.cas ∧ HeapSim ld0.heap ld.heap := by
  rw [loadJson_merge_eq _ _ ts' _ _ _ _ _ hlts]
  have hsim := loadJson_congr_aux K ts ts' tsIdx ci' lenient hp doc hag
  rw [← loadJson_doc_congr K _ tsIdx ci' lenient hp doc doc0 h1 h2, hload0] at hsim
  cases hl : loadJson K ts' tsIdx ci' lenient false hp doc with
  | error e => rw [hl] at hsim; exact hsim.elim
  | ok ld =>
    rw [hl] at hsim
    exact ⟨ld, rfl, loadJson_ts hl, hsim.1, hsim.2⟩

/-- … for the FULL type system of an API-built, writable type system -/
theorem full_load_of_none_load (ops : List TsOp) (ts : TypeSystem)
    (hts : ts = ops.foldl (applyOp Gen.consts) Gen.builtinTS)
    (hu : UserOnly Gen.consts ops ∧ ∀ op ∈ ops, match op with
      | .createFeature dom _ _ _ _ _ => dom ≠ DOCUMENT_ANNOTATION
      | .createType _ _ _ => True)
    (hw : Writable Gen.consts ts) (hpc : NoPercentNames ts)
    (cass : List Cas) (ci : Nat) (hp : Heap) (tsIdx ci' : Nat) (doc doc0 : JDoc) (st : St) (ld0 : Loaded)
    (hsave : saveJson Gen.consts ts cass ci hp .full = .ok (doc, st))
    (h1 : doc0.fss = doc.fss) (h2 : doc0.views = doc.views)
    (hload0 : loadJson Gen.consts ts tsIdx ci' false false st.heap doc0 = .ok ld0) :
    ∃ ld : Loaded, loadJson Gen.consts Gen.builtinTS tsIdx ci' false true st.heap doc = .ok ld ∧
      SameTs ts ld.ts ∧ ld.cas = ld0.cas ∧ HeapSim ld0.heap ld.heap := by
  subst hts
  obtain ⟨ts', hlts, hsame, hcons, hcons'⟩ := json_full_ts_same_cons ops hu hw hpc cass ci hp doc st hsave
  obtain ⟨ld, hl, hlt, hc, hh⟩ := emb_load_of_none_load Gen.consts _ ts' Gen.builtinTS tsIdx ci' false st.heap doc doc0 ld0
    hlts (fun _ _ => typeAgree_of_sameTs hsame hcons hcons' _) h1 h2 hload0
  exact ⟨ld, hl, by rw [hlt]; exact hsame, hc, hh⟩

/-- **JSON round trip with the embedded FULL type system, flat fragment** -/
theorem json_roundtrip_full_flat_aux (ops : List TsOp) (ts : TypeSystem)
    (hts : ts = ops.foldl (applyOp Gen.consts) Gen.builtinTS)
    (hu : UserOnly Gen.consts ops ∧ ∀ op ∈ ops, match op with
      | .createFeature dom _ _ _ _ _ => dom ≠ DOCUMENT_ANNOTATION
      | .createType _ _ _ => True)
    (hw : Writable Gen.consts ts) (hpc : NoPercentNames ts)
    (cass : List Cas) (ci : Nat) (c : Cas) (hp : Heap) (tsIdx ci' : Nat) (doc : JDoc) (st : St)
    (hc : cass[ci]? = some c) (hwf : RTWf c hp)
    (hsave : saveJson Gen.consts ts cass ci hp .full = .ok (doc, st))
    (hflat : ∀ q ∈ st.allFs, FlatFs Gen.consts ts c ci st.heap q.2)
    (hjson : ∀ q ∈ st.allFs, JsonFs ts st.heap q.2)
    (hids : ∀ nv ∈ c.views, ∀ e ∈ Index.all nv.2.idx, (xidOf hp e.oid).isSome = true)
    (hdis : ∀ q ∈ st.allFs, ∀ nv ∈ c.views, q.1 ≠ nv.2.sofa.xid)
    (hmem : ∀ nv ∈ c.views, ∀ e ∈ Index.all nv.2.idx, Xmi.slot st.heap e.oid "sofa" ≠ some .none)
    (hmok : MembersOk c st.heap) :
    ∃ (ld : Loaded) (fss : List (Int × Val)),
      loadJson Gen.consts Gen.builtinTS tsIdx ci' false true st.heap doc = .ok ld ∧ SameTs ts ld.ts ∧
      (∀ q ∈ st.allFs, ∃ (a' : Nat) (o o' : Obj), lookup fss q.1 = some (.ref a') ∧
          st.heap[q.2]? = some o ∧ ld.heap[a']? = some o' ∧ o'.ty = o.ty ∧ o'.xid = some q.1 ∧
          ∀ t : TypeRec, find? ts o.ty = some t → ∀ f ∈ allFeatures t,
            featContent ld.heap a' f.name = featContent st.heap q.2 f.name) ∧
      (∀ p ∈ fss, (∃ q ∈ st.allFs, q.1 = p.1) ∨ (∃ nv ∈ c.views, nv.2.sofa.xid = p.1)) ∧
      ld.cas.views.map (viewContent ld.heap) = c.views.map (viewContent st.heap) ∧
      (∀ q ∈ st.allFs, q.1 < ld.cas.nextXid) ∧
      (∀ nv ∈ c.views, nv.2.sofa.xid < ld.cas.nextXid ∧ nv.2.sofa.sofaNum < ld.cas.nextSofaNum) := by
  obtain ⟨doc0, hsave0, h1, h2⟩ := saveJson_to_none_aux Gen.consts ts cass ci hp .full doc st hsave
  obtain ⟨ld0, fss, hload0, _, H⟩ :=
    json_roundtrip_flat_aux Gen.consts ts cass ci c hp tsIdx ci' doc0 st hc hwf hsave0 hflat hjson hids hdis hmem hmok
  obtain ⟨ld, hload, hsame, hcas, hheap⟩ :=
    full_load_of_none_load ops ts hts hu hw hpc cass ci hp tsIdx ci' doc doc0 st ld0 hsave h1 h2 hload0
  exact ⟨ld, fss, hload, hsame,
    roundtrip_transfer (fun hp a f => featContent hp a f.name) (fun _ _ h a f => featContent_sim h a f.name)
      ts c st ld0 ld fss hcas hheap H⟩

/-- **JSON round trip with the embedded FULL type system, collections included** -/
theorem json_roundtrip_full_coll_aux (ops : List TsOp) (ts : TypeSystem)
    (hts : ts = ops.foldl (applyOp Gen.consts) Gen.builtinTS)
    (hu : UserOnly Gen.consts ops ∧ ∀ op ∈ ops, match op with
      | .createFeature dom _ _ _ _ _ => dom ≠ DOCUMENT_ANNOTATION
      | .createType _ _ _ => True)
    (hw : Writable Gen.consts ts) (hpc : NoPercentNames ts)
    (cass : List Cas) (ci : Nat) (c : Cas) (hp : Heap) (tsIdx ci' : Nat) (doc : JDoc) (st : St)
    (hc : cass[ci]? = some c) (hwf : RTWf c hp)
    (hsave : saveJson Gen.consts ts cass ci hp .full = .ok (doc, st))
    (hcoll : ∀ q ∈ st.allFs, JCollFs Gen.consts ts c ci st.heap q.2)
    (hids : ∀ nv ∈ c.views, ∀ e ∈ Index.all nv.2.idx, (xidOf hp e.oid).isSome = true)
    (hdis : ∀ q ∈ st.allFs, ∀ nv ∈ c.views, q.1 ≠ nv.2.sofa.xid)
    (hmem : ∀ nv ∈ c.views, ∀ e ∈ Index.all nv.2.idx, Xmi.slot st.heap e.oid "sofa" ≠ some .none)
    (hmok : MembersOk c st.heap) :
    ∃ (ld : Loaded) (fss : List (Int × Val)),
      loadJson Gen.consts Gen.builtinTS tsIdx ci' false true st.heap doc = .ok ld ∧ SameTs ts ld.ts ∧
      (∀ q ∈ st.allFs, ∃ (a' : Nat) (o o' : Obj), lookup fss q.1 = some (.ref a') ∧
          st.heap[q.2]? = some o ∧ ld.heap[a']? = some o' ∧ o'.ty = o.ty ∧ o'.xid = some q.1 ∧
          ∀ t : TypeRec, find? ts o.ty = some t → ∀ f ∈ allFeatures t,
            featContentC Gen.consts ld.heap a' f = featContentC Gen.consts st.heap q.2 f) ∧
      (∀ p ∈ fss, (∃ q ∈ st.allFs, q.1 = p.1) ∨ (∃ nv ∈ c.views, nv.2.sofa.xid = p.1)) ∧
      ld.cas.views.map (viewContent ld.heap) = c.views.map (viewContent st.heap) ∧
      (∀ q ∈ st.allFs, q.1 < ld.cas.nextXid) ∧
      (∀ nv ∈ c.views, nv.2.sofa.xid < ld.cas.nextXid ∧ nv.2.sofa.sofaNum < ld.cas.nextSofaNum) := by
  obtain ⟨doc0, hsave0, h1, h2⟩ := saveJson_to_none_aux Gen.consts ts cass ci hp .full doc st hsave
  obtain ⟨ld0, fss, hload0, _, H⟩ :=
    json_roundtrip_coll_aux Gen.consts ts cass ci c hp tsIdx ci' doc0 st hc hwf hsave0 hcoll hids hdis hmem hmok
  obtain ⟨ld, hload, hsame, hcas, hheap⟩ :=
    full_load_of_none_load ops ts hts hu hw hpc cass ci hp tsIdx ci' doc doc0 st ld0 hsave h1 h2 hload0
  exact ⟨ld, fss, hload, hsame,
    roundtrip_transfer (fun hp a f => featContentC Gen.consts hp a f) (fun _ _ h a f => featContentC_sim Gen.consts h a f)
      ts c st ld0 ld fss hcas hheap H⟩


/-- **the composition step as a round-trip theorem** (flat fragment, any mode, any supplied type system `tsArg`): the
    embedded type system is sufficient as soon as the type system rebuilt from it agrees with the original on the
    type names of the document (`TypeAgree`: same name, same feature names, annotation or not) -/
theorem json_roundtrip_embedded_flat_of_agree_aux (K : Consts) (ts tsArg ts' : TypeSystem) (mode : Mode)
    (cass : List Cas) (ci : Nat) (c : Cas) (hp : Heap) (tsIdx ci' : Nat) (doc : JDoc) (st : St)
    (hc : cass[ci]? = some c) (hwf : RTWf c hp)
    (hsave : saveJson K ts cass ci hp mode = .ok (doc, st))
    (hlts : loadTs K tsArg true doc = .ok ts')
    (hag : ∀ j ∈ doc.fss, TypeAgree ts ts' (fsTypeName j))
    (hflat : ∀ q ∈ st.allFs, FlatFs K ts c ci st.heap q.2)
    (hjson : ∀ q ∈ st.allFs, JsonFs ts st.heap q.2)
    (hids : ∀ nv ∈ c.views, ∀ e ∈ Index.all nv.2.idx, (xidOf hp e.oid).isSome = true)
    (hdis : ∀ q ∈ st.allFs, ∀ nv ∈ c.views, q.1 ≠ nv.2.sofa.xid)
    (hmem : ∀ nv ∈ c.views, ∀ e ∈ Index.all nv.2.idx, Xmi.slot st.heap e.oid "sofa" ≠ some .none)
    (hmok : MembersOk c st.heap) :
    ∃ (ld : Loaded) (fss : List (Int × Val)),
      loadJson K tsArg tsIdx ci' false true st.heap doc = .ok ld ∧ ld.ts = ts' ∧
      (∀ q ∈ st.allFs, ∃ (a' : Nat) (o o' : Obj), lookup fss q.1 = some (.ref a') ∧
          st.heap[q.2]? = some o ∧ ld.heap[a']? = some o' ∧ o'.ty = o.ty ∧ o'.xid = some q.1 ∧
          ∀ t : TypeRec, find? ts o.ty = some t → ∀ f ∈ allFeatures t,
            featContent ld.heap a' f.name = featContent st.heap q.2 f.name) ∧
      (∀ p ∈ fss, (∃ q ∈ st.allFs, q.1 = p.1) ∨ (∃ nv ∈ c.views, nv.2.sofa.xid = p.1)) ∧
      ld.cas.views.map (viewContent ld.heap) = c.views.map (viewContent st.heap) ∧
      (∀ q ∈ st.allFs, q.1 < ld.cas.nextXid) ∧
      (∀ nv ∈ c.views, nv.2.sofa.xid < ld.cas.nextXid ∧ nv.2.sofa.sofaNum < ld.cas.nextSofaNum) := by
  obtain ⟨doc0, hsave0, h1, h2⟩ := saveJson_to_none_aux K ts cass ci hp mode doc st hsave
  obtain ⟨ld0, fss, hload0, _, H⟩ :=
    json_roundtrip_flat_aux K ts cass ci c hp tsIdx ci' doc0 st hc hwf hsave0 hflat hjson hids hdis hmem hmok
  obtain ⟨ld, hload, hlt, hcas, hheap⟩ :=
    emb_load_of_none_load K ts ts' tsArg tsIdx ci' false st.heap doc doc0 ld0 hlts hag h1 h2 hload0
  exact ⟨ld, fss, hload, hlt,
    roundtrip_transfer (fun hp a f => featContent hp a f.name) (fun _ _ h a f => featContent_sim h a f.name)
      ts c st ld0 ld fss hcas hheap H⟩


/-- the composition step, collections included -/
theorem json_roundtrip_embedded_coll_of_agree_aux (K : Consts) (ts tsArg ts' : TypeSystem) (mode : Mode)
    (cass : List Cas) (ci : Nat) (c : Cas) (hp : Heap) (tsIdx ci' : Nat) (doc : JDoc) (st : St)
    (hc : cass[ci]? = some c) (hwf : RTWf c hp)
    (hsave : saveJson K ts cass ci hp mode = .ok (doc, st))
    (hlts : loadTs K tsArg true doc = .ok ts')
    (hag : ∀ j ∈ doc.fss, TypeAgree ts ts' (fsTypeName j))
    (hcoll : ∀ q ∈ st.allFs, JCollFs K ts c ci st.heap q.2)
    (hids : ∀ nv ∈ c.views, ∀ e ∈ Index.all nv.2.idx, (xidOf hp e.oid).isSome = true)
    (hdis : ∀ q ∈ st.allFs, ∀ nv ∈ c.views, q.1 ≠ nv.2.sofa.xid)
    (hmem : ∀ nv ∈ c.views, ∀ e ∈ Index.all nv.2.idx, Xmi.slot st.heap e.oid "sofa" ≠ some .none)
    (hmok : MembersOk c st.heap) :
    ∃ (ld : Loaded) (fss : List (Int × Val)),
      loadJson K tsArg tsIdx ci' false true st.heap doc = .ok ld ∧ ld.ts = ts' ∧
      (∀ q ∈ st.allFs, ∃ (a' : Nat) (o o' : Obj), lookup fss q.1 = some (.ref a') ∧
          st.heap[q.2]? = some o ∧ ld.heap[a']? = some o' ∧ o'.ty = o.ty ∧ o'.xid = some q.1 ∧
          ∀ t : TypeRec, find? ts o.ty = some t → ∀ f ∈ allFeatures t,
            featContentC K ld.heap a' f = featContentC K st.heap q.2 f) ∧
      (∀ p ∈ fss, (∃ q ∈ st.allFs, q.1 = p.1) ∨ (∃ nv ∈ c.views, nv.2.sofa.xid = p.1)) ∧
      ld.cas.views.map (viewContent ld.heap) = c.views.map (viewContent st.heap) ∧
      (∀ q ∈ st.allFs, q.1 < ld.cas.nextXid) ∧
      (∀ nv ∈ c.views, nv.2.sofa.xid < ld.cas.nextXid ∧ nv.2.sofa.sofaNum < ld.cas.nextSofaNum) := by
  obtain ⟨doc0, hsave0, h1, h2⟩ := saveJson_to_none_aux K ts cass ci hp mode doc st hsave
  obtain ⟨ld0, fss, hload0, _, H⟩ :=
    json_roundtrip_coll_aux K ts cass ci c hp tsIdx ci' doc0 st hc hwf hsave0 hcoll hids hdis hmem hmok
  obtain ⟨ld, hload, hlt, hcas, hheap⟩ :=
    emb_load_of_none_load K ts ts' tsArg tsIdx ci' false st.heap doc doc0 ld0 hlts hag h1 h2 hload0
  exact ⟨ld, fss, hload, hlt,
    roundtrip_transfer (fun hp a f => featContentC K hp a f) (fun _ _ h a f => featContentC_sim K h a f)
      ts c st ld0 ld fss hcas hheap H⟩

end Cassis.Json
