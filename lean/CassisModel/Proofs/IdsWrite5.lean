/-
C09, document level (5): histories.  Along every API history from an empty CAS the generator and all sofa ids stay
positive (`Pos`); with `ids_history` (unique, bounded ids) this gives the hypotheses of `saveXmi_ids_distinct` /
`saveJson_ids_distinct` in every reachable state.
-/
import CassisModel.Proofs.IdsWrite4

namespace Cassis.Cas

/-- the generator and every sofa id are positive (so no sofa collides with the `cas:NULL` element) -/
def Pos (s : CState) : Prop := 0 < s.cas.nextXid ∧ ∀ x ∈ sofaIds s.cas, 0 < x

theorem pos_update {s s' : CState} (hp : Pos s) (hsig : sig s'.cas = sig s.cas)
    (hnx : s.cas.nextXid ≤ s'.cas.nextXid) : Pos s' := by
  refine ⟨Int.lt_of_lt_of_le hp.1 hnx, ?_⟩
  rw [sofaIds_of_sig, hsig, ← sofaIds_of_sig]
  exact hp.2

theorem add_pos {ts : TS.TypeSystem} {cas : Nat} {s : CState} {h : Handle} {addr : Nat} {keep : Bool}
    {c' : Cas} {hp' : Heap} (hp : Pos s) (hadd : add ts cas s.cas s.heap h addr keep = .ok (c', hp')) :
    Pos { s with cas := c', heap := hp' } := by
  obtain ⟨o, v, x, c1, e, _, _, hv, hx, _, rfl, rfl⟩ := add_cases hadd
  rcases hx with ⟨_, _, rfl⟩ | ⟨_, rfl, rfl⟩
  · exact pos_update hp (sig_setViewRec _ _ v _ hv rfl rfl rfl) (Int.le_refl _)
  · refine pos_update hp (sig_setViewRec _ _ v _ hv rfl rfl rfl) ?_
    show s.cas.nextXid ≤ s.cas.nextXid + 1
    omega

theorem updSofa_pos {s : CState} (hp : Pos s) {h : Handle} {f : Sofa → Sofa} {c' : Cas}
    (hf1 : ∀ x, (f x).sofaID = x.sofaID) (hf2 : ∀ x, (f x).xid = x.xid) (hf3 : ∀ x, (f x).sofaNum = x.sofaNum)
    (hu : updSofa s.cas h f = .ok c') : Pos { s with cas := c' } := by
  obtain ⟨v, hv, rfl⟩ := updSofa_ok hu
  exact pos_update hp (sig_setViewRec _ _ v _ hv (hf1 _) (hf2 _) (hf3 _)) (Int.le_refl _)

theorem step_pos (K : TS.Consts) (ts : TS.TypeSystem) (s : CState) (op : COp) (hp : Pos s) :
    Pos (cstep K ts s op) := by
  cases op with
  | createView h name =>
    simp only [cstep]
    cases hh : s.handles[h]? with
    | none => exact hp
    | some hd =>
      simp only
      cases hc : createView s.cas hd name with
      | error e => exact hp
      | ok r =>
        obtain ⟨c', h'⟩ := r
        simp only
        obtain ⟨_, rfl, rfl⟩ := createView_ok hc
        refine ⟨?_, ?_⟩
        · show 0 < s.cas.nextXid + 1
          have := hp.1
          omega
        · intro x hx
          simp only [sofaIds, List.map_append, List.map_cons, List.map_nil, newView, List.mem_append,
            List.mem_singleton] at hx
          rcases hx with hx | hx
          · exact hp.2 x hx
          · rw [hx]; exact hp.1
  | getView h name =>
    simp only [cstep]
    cases hh : s.handles[h]? with
    | none => exact hp
    | some hd =>
      simp only
      cases hc : getView s.cas hd name with
      | error e => exact hp
      | ok h' => exact hp
  | newFs ty feats =>
    simp only [cstep]
    cases ht : TS.getType ts ty with
    | error e => exact hp
    | ok t =>
      simp only
      cases hc : construct t 0 none feats with
      | error e => exact hp
      | ok o => exact hp
  | add h addr keep =>
    simp only [cstep]
    cases hh : s.handles[h]? with
    | none => exact hp
    | some hd =>
      simp only
      cases hc : add ts 0 s.cas s.heap hd addr keep with
      | error e => exact hp
      | ok r =>
        obtain ⟨c', hp'⟩ := r
        exact add_pos hp hc
  | remove h addr =>
    simp only [cstep]
    cases hh : s.handles[h]? with
    | none => exact hp
    | some hd =>
      simp only
      cases hc : remove s.cas s.heap hd addr with
      | error e => exact hp
      | ok c' =>
        obtain ⟨v, idx', hv, rfl⟩ := remove_ok hc
        exact pos_update hp (sig_setViewRec _ _ v _ hv rfl rfl rfl) (Int.le_refl _)
  | setSofaString h t =>
    simp only [cstep]
    cases hh : s.handles[h]? with
    | none => exact hp
    | some hd =>
      simp only
      cases hc : setSofaString s.cas hd t with
      | error e => exact hp
      | ok c' => refine updSofa_pos hp ?_ ?_ ?_ hc <;> intro _ <;> rfl
  | setSofaMime h t =>
    simp only [cstep]
    cases hh : s.handles[h]? with
    | none => exact hp
    | some hd =>
      simp only
      cases hc : setSofaMime s.cas hd t with
      | error e => exact hp
      | ok c' => refine updSofa_pos hp ?_ ?_ ?_ hc <;> intro _ <;> rfl
  | setSofaUri h t =>
    simp only [cstep]
    cases hh : s.handles[h]? with
    | none => exact hp
    | some hd =>
      simp only
      cases hc : setSofaUri s.cas hd t with
      | error e => exact hp
      | ok c' => refine updSofa_pos hp ?_ ?_ ?_ hc <;> intro _ <;> rfl
  | setSofaArray h t =>
    simp only [cstep]
    cases hh : s.handles[h]? with
    | none => exact hp
    | some hd =>
      simp only
      cases hc : setSofaArray s.cas hd t with
      | error e => exact hp
      | ok c' => refine updSofa_pos hp ?_ ?_ ?_ hc <;> intro _ <;> rfl
  | docAnn h =>
    simp only [cstep]
    cases hh : s.handles[h]? with
    | none => exact hp
    | some hd =>
      simp only
      cases hc : getDocumentAnnotation ts 0 0 s.cas s.heap hd with
      | error e => exact hp
      | ok r =>
        obtain ⟨c', hp', a⟩ := r
        simp only
        rcases docAnn_cases hc with ⟨e, rest, _, rfl, rfl, _⟩ | ⟨_, t, o, _, _, hadd, _⟩
        · exact hp
        · exact add_pos (s := { s with heap := s.heap ++ [o] }) hp hadd
  | assignIds h =>
    simp only [cstep]
    cases hc : Traverse.findAllFs K ts {} s.heap s.cas.nextXid (Traverse.defaultSeeds s.cas) with
    | error e => exact hp
    | ok st =>
      simp only
      exact pos_update hp rfl (Traverse.findAllFs_fut K ts {} s.heap s.cas.nextXid _ st hc).le

theorem pos_init (lenient : Bool) : Pos (init lenient) := by
  unfold Pos init
  simp only [empty_eq]
  refine ⟨by omega, ?_⟩
  intro x hx
  simp only [sofaIds, List.map_cons, List.map_nil, List.mem_singleton] at hx
  omega

theorem pos_history (K : TS.Consts) (ts : TS.TypeSystem) (lenient : Bool) (ops : List COp) :
    Pos (ops.foldl (cstep K ts) (init lenient)) := by
  suffices ∀ s, Pos s → Pos (ops.foldl (cstep K ts) s) from this _ (pos_init lenient)
  induction ops with
  | nil => intro s hs; exact hs
  | cons op ops ih => intro s hs; exact ih _ (step_pos K ts s op hs)

/-- the hypotheses of the writers' distinctness theorems, from the state invariants -/
theorem write_hyps {s : CState} (hb : Bounded s) (hu : UniqueIds s) (hp : Pos s) :
    0 < s.cas.nextXid ∧ (sofaIds s.cas).Nodup ∧ (∀ x ∈ sofaIds s.cas, 0 < x ∧ x < s.cas.nextXid) ∧
    (∀ a x, Traverse.xidOf s.heap a = some x → x ∉ sofaIds s.cas) ∧ (sofaNums s.cas).Nodup := by
  have hnd := List.nodup_append.mp hu.1
  refine ⟨hp.1, hnd.1, fun x hx => ⟨hp.2 x hx, hb.1 x hx⟩, ?_, hu.2⟩
  intro a x hxa hm
  refine hnd.2.2 x hm x ?_ rfl
  rw [mem_fsIds]
  unfold Traverse.xidOf at hxa
  cases ho : s.heap[a]? with
  | none => rw [ho] at hxa; cases hxa
  | some o => rw [ho] at hxa; exact ⟨a, o, ho, hxa⟩

end Cassis.Cas

namespace Cassis.Traverse
open Cassis.TS

/-- sofas and collected structures never share an id, under the input-level hypotheses -/
theorem collected_sofa_disjoint (K : Consts) (ts : TypeSystem) (o : Opts) (hp : Heap) (c : Cas) (seeds : List Nat)
    (st : St) (hnx : 0 < c.nextXid) (hs : (Cas.sofaIds c).Nodup) (hsb : ∀ x ∈ Cas.sofaIds c, x < c.nextXid)
    (hfs : ∀ a x, Reach K ts o hp (hp.length + 1) seeds a → xidOf hp a = some x → x ∉ Cas.sofaIds c)
    (h : findAllFs K ts o hp c.nextXid seeds = .ok st) :
    (Cas.sofaIds c ++ st.allFs.map (·.1)).Nodup := by
  rw [List.nodup_append]
  refine ⟨hs, (findAllFs_inv K ts o hp c.nextXid seeds st h).1.nodupK, ?_⟩
  intro x hx y hy e
  obtain ⟨p, hp', rfl⟩ := List.mem_map.mp hy
  obtain ⟨hr, _, _, hor⟩ := findAllFs_id_origin K ts o hp c.nextXid seeds st hnx h p.1 p.2 hp'
  rcases hor with hk | ⟨_, hge⟩
  · exact hfs p.2 p.1 hr hk (by rw [← e]; exact hx)
  · have := hsb x hx
    omega

end Cassis.Traverse

namespace Cassis.Xmi
open Cassis.TS Cassis.Lex

theorem attr_renderSofa_num (s : Sofa) : attr (renderSofa s) "sofaNum" = some (showInt s.sofaNum) := by
  simp only [attr, renderSofa, List.cons_append, alistGet?]
  rw [if_neg (by decide), if_pos trivial]

theorem sofaElems_nums (c : Cas) :
    (sofaElems c).map (fun e => attr e "sofaNum") = ((Cas.sofaNums c).map showInt).map some := by
  unfold sofaElems Cas.sofaNums
  simp only [List.map_map]
  apply List.map_congr_left
  intro p _
  exact attr_renderSofa_num _

theorem sofaElems_nums_nodup (c : Cas) (h : (Cas.sofaNums c).Nodup) :
    ((sofaElems c).map (fun e => attr e "sofaNum")).Nodup := by
  rw [sofaElems_nums, Json.nodup_map_some, nodup_map_showInt]
  exact h

theorem sofaElems_mem (K : Consts) (ts : TypeSystem) (cass : List Cas) (ci : Nat) (hp : Heap) (c : Cas)
    (doc : XDoc) (st : Traverse.St) (hc : cass[ci]? = some c) (h : saveXmi K ts cass ci hp = .ok (doc, st)) :
    ∀ e ∈ sofaElems c, e ∈ doc := by
  obtain ⟨c', fsElems, hc', _, _, rfl⟩ := saveXmi_ok_inv K ts cass ci hp doc st h
  rw [hc] at hc'
  cases hc'
  intro e he
  simp only [List.mem_append]
  exact Or.inl (Or.inr he)

end Cassis.Xmi

namespace Cassis.Json
open Cassis.TS

theorem sofaFss_mem (K : Consts) (ts : TypeSystem) (cass : List Cas) (hp : Heap) (l : List (String × View))
    (acc r : List JFs) (h : l.foldlM (sofaStep K ts cass hp) acc = .ok r) :
    (∀ e ∈ acc, e ∈ r) ∧ ∀ p ∈ l, renderSofa hp p.2.sofa ∈ r := by
  induction l generalizing acc with
  | nil =>
    simp only [List.foldlM_nil, pure, Except.pure] at h
    cases h
    exact ⟨fun _ he => he, fun _ hp' => nomatch hp'⟩
  | cons p l ih =>
    rw [List.foldlM_cons] at h
    cases hs : sofaStep K ts cass hp acc p with
    | error e => rw [hs] at h; cases h
    | ok acc' =>
      rw [hs] at h
      obtain ⟨h1, h2⟩ := ih acc' h
      have hacc : (∀ e ∈ acc, e ∈ acc') ∧ renderSofa hp p.2.sofa ∈ acc' := by
        unfold sofaStep at hs
        simp only [bind, Except.bind, pure, Except.pure] at hs
        split at hs
        · split at hs
          · cases hs
          · cases hs
            exact ⟨fun e he => by simp [he], by simp⟩
        · cases hs
          exact ⟨fun e he => by simp [he], by simp⟩
      refine ⟨fun e he => h1 e (hacc.1 e he), ?_⟩
      intro q hq
      rcases List.mem_cons.mp hq with rfl | hq
      · exact h1 _ hacc.2
      · exact h2 q hq

theorem sofaNumOf_renderSofa (hp : Heap) (s : Sofa) : sofaNumOf (renderSofa hp s) = some (JV.int s.sofaNum) := by
  simp only [sofaNumOf, renderSofa, List.cons_append, alistGet?, if_true]

theorem sofa_nums_nodup (hp : Heap) (c : Cas) (h : (Cas.sofaNums c).Nodup) :
    ((c.views.map (fun p => renderSofa hp p.2.sofa)).map sofaNumOf).Nodup := by
  have : (c.views.map (fun p => renderSofa hp p.2.sofa)).map sofaNumOf =
      ((Cas.sofaNums c).map JV.int).map some := by
    unfold Cas.sofaNums
    simp only [List.map_map]
    apply List.map_congr_left
    intro p _
    exact sofaNumOf_renderSofa _ _
  rw [this, nodup_map_some]
  exact List.Pairwise.map JV.int (fun _ _ hne he => hne (JV.int.inj he)) h

theorem sofa_mem (K : Consts) (ts : TypeSystem) (cass : List Cas) (ci : Nat) (hp : Heap) (mode : Mode) (c : Cas)
    (doc : JDoc) (st : Traverse.St) (hc : cass[ci]? = some c) (h : saveJson K ts cass ci hp mode = .ok (doc, st)) :
    ∀ p ∈ c.views, renderSofa hp p.2.sofa ∈ doc.fss := by
  obtain ⟨c', sofaFss, fsElems, hc', hsofa, _, _, hdoc⟩ := saveJson_ok_inv K ts cass ci hp mode doc st h
  rw [hc] at hc'
  cases hc'
  intro p hp'
  rw [hdoc]
  exact List.mem_append_left _ ((sofaFss_mem K ts cass hp c.views [] sofaFss hsofa).2 p hp')

end Cassis.Json

namespace Cassis.Cas

theorem ids_history_write_aux (K : TS.Consts) (ts : TS.TypeSystem) (lenient : Bool) (ops : List COp)
    (cass : List Cas) (ci : Nat) (hc : cass[ci]? = some (ops.foldl (cstep K ts) (init lenient)).cas) :
    (∀ doc st, Xmi.saveXmi K ts cass ci (ops.foldl (cstep K ts) (init lenient)).heap = .ok (doc, st) →
      (Xmi.docIds doc).Nodup ∧
      (∀ e ∈ Xmi.sofaElems (ops.foldl (cstep K ts) (init lenient)).cas, e ∈ doc) ∧
      ((Xmi.sofaElems (ops.foldl (cstep K ts) (init lenient)).cas).map (fun e => Xmi.attr e "sofaNum")).Nodup) ∧
    (∀ mode doc st, Json.saveJson K ts cass ci (ops.foldl (cstep K ts) (init lenient)).heap mode = .ok (doc, st) →
      (sofaIds (ops.foldl (cstep K ts) (init lenient)).cas ++ st.allFs.map (·.1)).Nodup ∧
      (∀ p ∈ (ops.foldl (cstep K ts) (init lenient)).cas.views,
        Json.renderSofa (ops.foldl (cstep K ts) (init lenient)).heap p.2.sofa ∈ doc.fss) ∧
      (((ops.foldl (cstep K ts) (init lenient)).cas.views.map
        (fun p => Json.renderSofa (ops.foldl (cstep K ts) (init lenient)).heap p.2.sofa)).map Json.sofaNumOf).Nodup ∧
      (Json.NoSofaArray (ops.foldl (cstep K ts) (init lenient)).cas → (Json.docIds doc).Nodup)) := by
  obtain ⟨hb, hu⟩ := ids_history_aux K ts lenient ops
  have hp := pos_history K ts lenient ops
  generalize ops.foldl (cstep K ts) (init lenient) = s at *
  obtain ⟨hnx, hs, hs0, hfs, hnum⟩ := write_hyps hb hu hp
  refine ⟨?_, ?_⟩
  · intro doc st h
    exact ⟨Xmi.saveXmi_ids_distinct_aux K ts cass ci s.heap s.cas doc st hc hnx hs hs0 (fun a x _ hx => hfs a x hx) h,
      Xmi.sofaElems_mem K ts cass ci s.heap s.cas doc st hc h, Xmi.sofaElems_nums_nodup s.cas hnum⟩
  · intro mode doc st h
    obtain ⟨c', _, _, hc', _, hst, _, _⟩ := Json.saveJson_ok_inv K ts cass ci s.heap mode doc st h
    rw [hc] at hc'
    cases hc'
    refine ⟨?_, Json.sofa_mem K ts cass ci s.heap mode s.cas doc st hc h, Json.sofa_nums_nodup s.heap s.cas hnum, ?_⟩
    · exact Traverse.collected_sofa_disjoint K ts _ s.heap s.cas _ st hnx hs (fun x hx => (hs0 x hx).2)
        (fun a x _ hx => hfs a x hx) hst
    · intro hna
      exact Json.saveJson_ids_distinct_aux K ts cass ci s.heap mode s.cas doc st hc hnx hna hs
        (fun x hx => (hs0 x hx).2) (fun a x _ hx => hfs a x hx) h

end Cassis.Cas
