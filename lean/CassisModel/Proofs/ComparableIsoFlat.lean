/-
C20 across a save/load round trip, flat fragment: the relation between the written heap and the loaded heap that the
round-trip proofs establish (`HeapRel … (E3 …)`, `Proofs/RoundTripDefs.lean`, shared by the XMI and the JSON
development) is an isomorphism in the sense of `Spec/ComparableIso.lean`.
-/
import CassisModel.Proofs.ComparableIso
import CassisModel.Proofs.RoundTripFixAux

namespace Cassis.Comparable
open Cassis.TS Cassis.Traverse Cassis.Xmi

/-- the address map of a load: the new address of the structure that carries the id of `a` -/
def phiOf (H : Heap) (na : Int → Nat) (a : Nat) : Nat :=
  match xidOf H a with
  | some x => na x
  | none => 0

/-- the loaded views answer the same lookups, with the same sofa id and text -/
def ViewsSame (c c' : Cas) : Prop :=
  ∀ vn v, Cas.getViewRec c vn = some v →
    ∃ v', Cas.getViewRec c' vn = some v' ∧ v'.sofa.sofaID = v.sofa.sofaID ∧ v'.sofa.text = v.sofa.text

theorem pair_eq_of_nodup_fst : ∀ (L : List (Int × Nat)), (L.map (·.1)).Nodup → ∀ q ∈ L, ∀ q' ∈ L, q.1 = q'.1 → q = q'
  | [], _, q, hq, _, _, _ => by cases hq
  | p :: L, hn, q, hq, q', hq', h => by
    rw [List.map_cons, List.nodup_cons] at hn
    rcases List.mem_cons.1 hq with e | hq1
    · rcases List.mem_cons.1 hq' with e' | hq1'
      · rw [e, e']
      · subst e
        exact absurd (List.mem_map.mpr ⟨q', hq1', h.symm⟩) hn.1
    · rcases List.mem_cons.1 hq' with e' | hq1'
      · subst e'
        exact absurd (List.mem_map.mpr ⟨q, hq1, h⟩) hn.1
      · exact pair_eq_of_nodup_fst L hn.2 q hq1 q' hq1' h

section
variable {K : Consts} {ts : TypeSystem} {c : Cas} {ci : Nat} {H : Heap} {L : List (Int × Nat)} {na : Int → Nat}
  {ci' : Nat} {hpL : Heap}

theorem phiOf_mem (hL : LOk K ts c ci H L) {q : Int × Nat} (hq : q ∈ L) : phiOf H na q.2 = na q.1 := by
  unfold phiOf
  rw [(hL.ids q hq).1]

/-- new addresses are pairwise different: the loaded structures carry the ids of the written ones -/
theorem na_inj (hrel : HeapRel H L na (E3 H na ci') hpL) {q q' : Int × Nat} (hq : q ∈ L) (hq' : q' ∈ L)
    (e : na q.1 = na q'.1) : q.1 = q'.1 := by
  have h := rel_xid hrel hq
  rw [e, rel_xid hrel hq'] at h
  exact (Option.some.inj h).symm

/-- indexed structures correspond, given the two directions the view relations of the round-trip proofs provide -/
theorem seed_iff_of {c' : Cas} (hL : LOk K ts c ci H L) (hrel : HeapRel H L na (E3 H na ci') hpL)
    (fwd : ∀ a ∈ defaultSeeds c', ∃ q ∈ L, a = na q.1 ∧ q.2 ∈ defaultSeeds c)
    (bwd : ∀ q ∈ L, q.2 ∈ defaultSeeds c → na q.1 ∈ defaultSeeds c') :
    ∀ q ∈ L, (q.2 ∈ defaultSeeds c ↔ na q.1 ∈ defaultSeeds c') := by
  intro q hq
  constructor
  · exact bwd q hq
  · intro h
    obtain ⟨q', hq', e, hs⟩ := fwd _ h
    have := pair_eq_of_nodup_fst L hL.nodup q hq q' hq' (na_inj hrel hq hq' e)
    rw [this]
    exact hs

/-- the slots of a loaded structure: those of the written one, sent through `exp3` -/
theorem slot_new (hrel : HeapRel H L na (E3 H na ci') hpL) {q : Int × Nat} (hq : q ∈ L) (n : String) :
    Traverse.slot hpL (na q.1) n = (Traverse.slot H q.2 n).map (exp3 H na ci') := by
  obtain ⟨o, o', ho, ho', _, _, hkeys, hslots⟩ := hrel q hq
  unfold Traverse.slot
  rw [ho, ho']
  simp only [Option.bind_some]
  cases h : alistGet? o.slots n with
  | some v => rw [hslots n v h]; rfl
  | none =>
    cases h' : alistGet? o'.slots n with
    | none => rfl
    | some w =>
      obtain ⟨v, hv⟩ := alistGet?_of_keys o.slots o'.slots n w hkeys.symm h'
      rw [h] at hv; cases hv

theorem tyOf_new (hrel : HeapRel H L na (E3 H na ci') hpL) {q : Int × Nat} (hq : q ∈ L) :
    tyOf hpL (na q.1) = tyOf H q.2 := by
  obtain ⟨o, o', ho, ho', hty, _⟩ := hrel q hq
  unfold tyOf
  rw [ho, ho']
  exact hty

/-- a slot of a flat structure belongs to a (flat) feature -/
theorem flat_slot_feat {a : Nat} (hfl : FlatFs K ts c ci H a) {o : Obj} (ho : H[a]? = some o) {n : String} {v : Val}
    (hv : alistGet? o.slots n = some v) :
    ∃ f : Feature, f.name = n ∧ FlatFeat K ts c ci H (isInstanceOf ts o.ty ANNOTATION) o f := by
  obtain ⟨o1, t, ho1, _, _, _, _, _, _, _, _, _, _, _, hslots, hfeat, _⟩ := hfl
  rw [ho] at ho1; cases ho1
  have hm : n ∈ o.slots.map (·.1) := List.mem_map.mpr ⟨(n, v), alistGet?_mem _ _ _ hv, rfl⟩
  rw [hslots, List.mem_eraseDups] at hm
  unfold ctorFields at hm
  obtain ⟨f, hf, hfn⟩ := List.mem_map.mp hm
  exact ⟨f, hfn, hfeat f hf⟩

theorem flat_not_array {a : Nat} (hfl : FlatFs K ts c ci H a) : isArrayFs K H a = false := by
  obtain ⟨o, t, ho, _, _, harr, _⟩ := hfl
  unfold isArrayFs tyOf
  rw [ho]
  exact harr

theorem sameKey_L (hL : LOk K ts c ci H L) (hrel : HeapRel H L na (E3 H na ci') hpL) {addrs : List Nat}
    (haddrs : ∀ b ∈ addrs, ∃ q ∈ L, q.2 = b) {q : Int × Nat} (hq : q ∈ L) :
    SameKey H hpL addrs (phiOf H na) q.2 (na q.1) := by
  intro b hb
  obtain ⟨q2, hq2, rfl⟩ := haddrs b hb
  rw [phiOf_mem hL hq2, (hL.ids q2 hq2).1, (hL.ids q hq).1, rel_xid hrel hq2, rel_xid hrel hq]

/-- the value of a slot of a written flat structure and the value the loader puts into the slot are related -/
theorem valRel_exp3 (hL : LOk K ts c ci H L) (hrel : HeapRel H L na (E3 H na ci') hpL) {addrs : List Nat}
    (haddrs : ∀ b ∈ addrs, ∃ q ∈ L, q.2 = b) {q : Int × Nat} (hq : q ∈ L) {o : Obj} (ho : H[q.2]? = some o)
    {n : String} {v : Val} (hv : alistGet? o.slots n = some v) (d : Nat) :
    ValRel K H hpL (SameKey H hpL addrs (phiOf H na)) (d + 1) v (exp3 H na ci' v) := by
  obtain ⟨f, hfn, hf⟩ := flat_slot_feat (hL.flat q hq) ho hv
  obtain ⟨_, _, _, _, _, _, _, _, _, _, _, v0, hv0, hcase⟩ := hf
  rw [hfn, hv] at hv0; cases hv0
  rcases hcase with ⟨_, hs⟩ | ⟨_, _, hs⟩ | ⟨_, _, _, _, _, _, _, hs⟩
  · rcases hs with ⟨vn, rfl, _⟩ | ⟨rfl, _⟩
    · exact Or.inl ⟨.none, rfl, rfl⟩
    · exact Or.inl ⟨.null, rfl, rfl⟩
  · rcases hs with rfl | ⟨_, i, rfl⟩ | ⟨_, s, rfl⟩ | ⟨_, b, rfl⟩ | ⟨_, t, rfl⟩
    · exact Or.inl ⟨_, rfl, rfl⟩
    · exact Or.inl ⟨_, rfl, rfl⟩
    · exact Or.inl ⟨_, rfl, rfl⟩
    · exact Or.inl ⟨_, rfl, rfl⟩
    · exact Or.inl ⟨_, rfl, rfl⟩
  · rcases hs with rfl | ⟨b, rfl, _, _⟩
    · exact Or.inl ⟨_, rfl, rfl⟩
    · obtain ⟨x, hx, hxL⟩ := hL.closed q hq o ho n b hv
      right; left
      refine ⟨b, na x, rfl, ?_, flat_not_array (hL.flat _ hxL), ?_, sameKey_L hL hrel haddrs hxL⟩
      · simp only [exp3, hx]
      · have := flat_not_array (hL.flat _ hxL)
        unfold isArrayFs at this ⊢
        rw [tyOf_new hrel hxL]
        exact this

/-- the `sofa` slot of a written flat structure -/
theorem flat_sofa_slot (hL : LOk K ts c ci H L) {q : Int × Nat} (hq : q ∈ L) {o : Obj} (ho : H[q.2]? = some o)
    {v : Val} (hv : alistGet? o.slots "sofa" = some v) :
    (∃ vn, v = .sofa ci vn ∧ (Cas.getViewRec c vn).isSome = true) ∨ v = .none := by
  obtain ⟨f, hfn, hf⟩ := flat_slot_feat (hL.flat q hq) ho hv
  obtain ⟨_, _, _, _, _, _, _, _, _, _, _, v0, hv0, hcase⟩ := hf
  rw [hfn, hv] at hv0; cases hv0
  rcases hcase with ⟨_, hs⟩ | ⟨hne, _⟩ | ⟨hne, _⟩
  · rcases hs with ⟨vn, rfl, h⟩ | ⟨rfl, _⟩
    · exact Or.inl ⟨vn, rfl, h⟩
    · exact Or.inr rfl
  · exact absurd hfn hne
  · exact absurd hfn hne

theorem viewTag_new {cass cass' : List Cas} {c' : Cas} (hc : cass[ci]? = some c) (hc' : cass'[ci']? = some c')
    (hL : LOk K ts c ci H L) (hrel : HeapRel H L na (E3 H na ci') hpL) (hviews : ViewsSame c c')
    {q : Int × Nat} (hq : q ∈ L) : viewTag cass' hpL (na q.1) = viewTag cass H q.2 := by
  obtain ⟨o, o', ho, ho', _⟩ := hrel q hq
  unfold viewTag
  rw [slot_new hrel hq "sofa"]
  cases hs : Traverse.slot H q.2 "sofa" with
  | none => rfl
  | some v =>
    have hv : alistGet? o.slots "sofa" = some v := by
      unfold Traverse.slot at hs; rw [ho] at hs; exact hs
    rcases flat_sofa_slot hL hq ho hv with ⟨vn, rfl, hsome⟩ | rfl
    · cases hg : Cas.getViewRec c vn with
      | none => rw [hg] at hsome; cases hsome
      | some w =>
        obtain ⟨w', hw', hid, _⟩ := hviews vn w hg
        simp only [Option.map_some, exp3, hc, hc', hg, hw', hid]
    · rfl

theorem isAnnot_slots_x {hp : Heap} {a : Nat} {o : Obj} (ho : hp[a]? = some o) (h : isAnnot hp a = true) :
    ∃ b e : Int, alistGet? o.slots "begin" = some (.int b) ∧ alistGet? o.slots "end" = some (.int e) := by
  unfold isAnnot Traverse.slot at h
  rw [ho] at h
  simp only [Option.bind_some] at h
  cases h1 : alistGet? o.slots "begin" with
  | none => rw [h1] at h; cases h
  | some v1 =>
    cases h2 : alistGet? o.slots "end" with
    | none => rw [h1, h2] at h; cases v1 <;> cases h
    | some v2 =>
      rw [h1, h2] at h
      cases v1 <;> cases v2 <;> first | exact ⟨_, _, rfl, rfl⟩ | cases h

theorem coveredText_new {cass cass' : List Cas} {c' : Cas} (hc : cass[ci]? = some c) (hc' : cass'[ci']? = some c')
    (hL : LOk K ts c ci H L) (hrel : HeapRel H L na (E3 H na ci') hpL) (hviews : ViewsSame c c')
    {q : Int × Nat} (hq : q ∈ L) (hann : isAnnot H q.2 = true) :
    Cas.coveredText cass' hpL (na q.1) = Cas.coveredText cass H q.2 := by
  obtain ⟨o, o', ho, ho', _, _, hkeys, hslots⟩ := hrel q hq
  obtain ⟨b, e, hb, he⟩ := isAnnot_slots_x ho hann
  have hb' : alistGet? o'.slots "begin" = some (.int b) := hslots _ _ hb
  have he' : alistGet? o'.slots "end" = some (.int e) := hslots _ _ he
  unfold Cas.coveredText
  simp only [ho, ho', hb, he, hb', he', bind, Except.bind, pure, Except.pure]
  cases hs : alistGet? o.slots "sofa" with
  | none =>
    have hs' : alistGet? o'.slots "sofa" = none := by
      cases h' : alistGet? o'.slots "sofa" with
      | none => rfl
      | some w =>
        obtain ⟨v, hv⟩ := alistGet?_of_keys o.slots o'.slots "sofa" w hkeys.symm h'
        rw [hs] at hv; cases hv
    rw [hs']
  | some v =>
    have hs' : alistGet? o'.slots "sofa" = some (exp3 H na ci' v) := hslots _ _ hs
    rw [hs']
    rcases flat_sofa_slot hL hq ho hs with ⟨vn, rfl, hsome⟩ | rfl
    · cases hg : Cas.getViewRec c vn with
      | none => rw [hg] at hsome; cases hsome
      | some w =>
        obtain ⟨w', hw', _, htext⟩ := hviews vn w hg
        simp only [exp3, hc, hc', hg, hw', htext]
    · rfl

/-- **the round-trip relation is an isomorphism** -/
theorem iso_of_heapRel {cass cass' : List Cas} {c' : Cas} (hc : cass[ci]? = some c) (hc' : cass'[ci']? = some c')
    (hL : LOk K ts c ci H L) (hrel : HeapRel H L na (E3 H na ci') hpL)
    (hviews : ViewsSame c c')
    (hseed : ∀ q ∈ L, (q.2 ∈ defaultSeeds c ↔ na q.1 ∈ defaultSeeds c'))
    (addrs addrs' : List Nat) (hperm : addrs.Perm (L.map (·.2))) (hperm' : addrs'.Perm (L.map (fun q => na q.1))) :
    Iso K cass cass' H hpL (defaultSeeds c) (defaultSeeds c') addrs addrs' (phiOf H na) := by
  have haddrs : ∀ b ∈ addrs, ∃ q ∈ L, q.2 = b := by
    intro b hb
    obtain ⟨q, hq, rfl⟩ := List.mem_map.mp (hperm.mem_iff.mp hb)
    exact ⟨q, hq, rfl⟩
  have hmapφ : (L.map (·.2)).map (phiOf H na) = L.map (fun q => na q.1) := by
    rw [List.map_map]
    apply List.map_congr_left
    intro q hq
    exact phiOf_mem hL hq
  have hnd : (L.map (fun q => na q.1)).Nodup := by
    have h1 : L.Nodup := nodup_of_nodup_map (·.1) L hL.nodup
    unfold List.Nodup at h1 ⊢
    rw [List.pairwise_map]
    refine h1.imp_of_mem ?_
    intro q q' hq hq' hne e
    exact hne (pair_eq_of_nodup_fst L hL.nodup q hq q' hq' (na_inj hrel hq hq' e))
  refine ⟨?_, ?_, ?_, ?_, ?_, ?_, ?_, ?_, ?_⟩
  · exact ((hperm.map _).trans (by rw [hmapφ])).trans hperm'.symm
  · exact hperm'.nodup_iff.mpr hnd
  · intro a ha
    obtain ⟨q, hq, rfl⟩ := haddrs a ha
    rw [phiOf_mem hL hq]
    exact hseed q hq
  · intro a ha
    obtain ⟨q, hq, rfl⟩ := haddrs a ha
    rw [phiOf_mem hL hq]
    exact tyOf_new hrel hq
  · intro a ha
    obtain ⟨q, hq, rfl⟩ := haddrs a ha
    rw [phiOf_mem hL hq]
    exact sameKey_L hL hrel haddrs hq
  · intro a ha
    obtain ⟨q, hq, rfl⟩ := haddrs a ha
    rw [phiOf_mem hL hq]
    exact viewTag_new hc hc' hL hrel hviews hq
  · intro a ha hann
    obtain ⟨q, hq, rfl⟩ := haddrs a ha
    rw [phiOf_mem hL hq]
    exact coveredText_new hc hc' hL hrel hviews hq hann
  · intro a ha n _
    obtain ⟨q, hq, rfl⟩ := haddrs a ha
    rw [phiOf_mem hL hq, slot_new hrel hq n]
    obtain ⟨o, o', ho, _⟩ := hrel q hq
    cases hs : Traverse.slot H q.2 n with
    | none => exact ⟨0, ⟨_, rfl, rfl⟩⟩
    | some v =>
      have hv : alistGet? o.slots n = some v := by
        unfold Traverse.slot at hs; rw [ho] at hs; exact hs
      exact ⟨1, valRel_exp3 hL hrel haddrs hq ho hv 0⟩
  · intro a ha harr
    obtain ⟨q, hq, rfl⟩ := haddrs a ha
    rw [flat_not_array (hL.flat q hq)] at harr
    cases harr

end

end Cassis.Comparable
