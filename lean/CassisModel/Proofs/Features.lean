/-
Helper lemmas for `Properties/C11.lean`: the feature bookkeeping invariant `FeatInv` holds for the
built-in tables, is preserved by `createType` / `addFeature` / `createFeature`, and its consequences.
-/
import CassisModel.Proofs.TypeSystem
import CassisModel.Spec.Features
import CassisModel.Model.Heap

namespace Cassis.TS

/-! ### `featureEq` is an equivalence -/

theorem featureEq_iff (f g : Feature) : featureEq f g = true ↔
    f.name = g.name ∧ f.descr = g.descr ∧ f.range = g.range ∧ f.elem.getD TOP = g.elem.getD TOP := by
  unfold featureEq
  simp only [Bool.and_eq_true, beq_iff_eq, and_assoc]

theorem featureEq_refl (f : Feature) : featureEq f f = true := by
  rw [featureEq_iff]; exact ⟨rfl, rfl, rfl, rfl⟩

theorem featureEq_symm {f g : Feature} (h : featureEq f g = true) : featureEq g f = true := by
  rw [featureEq_iff] at h ⊢
  exact ⟨h.1.symm, h.2.1.symm, h.2.2.1.symm, h.2.2.2.symm⟩

theorem featureEq_trans {f g k : Feature} (h1 : featureEq f g = true) (h2 : featureEq g k = true) :
    featureEq f k = true := by
  rw [featureEq_iff] at h1 h2 ⊢
  exact ⟨h1.1.trans h2.1, h1.2.1.trans h2.2.1, h1.2.2.1.trans h2.2.2.1, h1.2.2.2.trans h2.2.2.2⟩

theorem featureEq_name {f g : Feature} (h : featureEq f g = true) : f.name = g.name :=
  ((featureEq_iff f g).mp h).1

/-! ### name lists -/

theorem mem_fnames {l : List Feature} {n : String} : n ∈ fnames l ↔ ∃ f ∈ l, f.name = n := by
  unfold fnames; exact List.mem_map

theorem mem_fnames_of_mem {l : List Feature} {f : Feature} (h : f ∈ l) : f.name ∈ fnames l :=
  mem_fnames.mpr ⟨f, h, rfl⟩

theorem fnames_append (l1 l2 : List Feature) : fnames (l1 ++ l2) = fnames l1 ++ fnames l2 := by
  unfold fnames; exact List.map_append

theorem feat_inj_of_nodup : ∀ (l : List Feature), (fnames l).Nodup →
    ∀ x ∈ l, ∀ y ∈ l, x.name = y.name → x = y := by
  intro l
  induction l with
  | nil => intro _ x hx; cases hx
  | cons a l ih =>
    intro hn x hx y hy hxy
    simp only [fnames, List.map_cons, List.nodup_cons, List.mem_map, not_exists, not_and] at hn
    rcases List.mem_cons.mp hx with rfl | hx' <;> rcases List.mem_cons.mp hy with rfl | hy'
    · rfl
    · exact absurd hxy.symm (hn.1 y hy')
    · exact absurd hxy (hn.1 x hx')
    · exact ih hn.2 x hx' y hy' hxy

theorem fnames_nodup_snoc {l : List Feature} {f : Feature} (h : (fnames l).Nodup)
    (hf : f.name ∉ fnames l) : (fnames (l ++ [f])).Nodup := by
  rw [fnames_append]
  refine List.nodup_append.mpr ⟨h, by simp [fnames], ?_⟩
  intro a ha b hb e
  simp only [fnames, List.map_cons, List.map_nil, List.mem_singleton] at hb
  subst hb; subst e; exact hf ha

/-- lookup by name -/
theorem find_name_none {l : List Feature} {n : String} :
    l.find? (·.name == n) = none ↔ n ∉ fnames l := by
  rw [List.find?_eq_none, mem_fnames]
  constructor
  · rintro h ⟨f, hf, e⟩; exact h f hf (by simpa using e)
  · intro h f hf e; exact h ⟨f, hf, by simpa using e⟩

theorem find_name_some {l : List Feature} {n : String} {g : Feature}
    (h : l.find? (·.name == n) = some g) : g ∈ l ∧ g.name = n :=
  ⟨List.mem_of_find?_eq_some h, by simpa using List.find?_some h⟩

theorem find_name_of_mem {l : List Feature} (hn : (fnames l).Nodup) {g : Feature} (hg : g ∈ l) :
    l.find? (·.name == g.name) = some g := by
  cases h : l.find? (·.name == g.name) with
  | none => exact absurd (mem_fnames_of_mem hg) (find_name_none.mp h)
  | some g' =>
    obtain ⟨h1, h2⟩ := find_name_some h
    rw [feat_inj_of_nodup l hn g' h1 g hg h2]

/-! ### `dedupFeatures` / `allFeatures` -/

theorem dedup_sub : ∀ (l seen : List Feature) (x : Feature), x ∈ dedupFeatures l seen → x ∈ l := by
  intro l
  induction l with
  | nil => intro seen x h; simp [dedupFeatures] at h
  | cons f fs ih =>
    intro seen x h
    unfold dedupFeatures at h
    split at h
    · exact List.mem_cons_of_mem _ (ih _ x h)
    · rcases List.mem_cons.mp h with rfl | h'
      · exact List.mem_cons_self
      · exact List.mem_cons_of_mem _ (ih _ x h')

theorem dedup_cover : ∀ (l seen : List Feature) (x : Feature), x ∈ l →
    (∃ y ∈ seen, featureEq y x = true) ∨ (∃ y ∈ dedupFeatures l seen, featureEq y x = true) := by
  intro l
  induction l with
  | nil => intro seen x h; cases h
  | cons f fs ih =>
    intro seen x hx
    unfold dedupFeatures
    rcases List.mem_cons.mp hx with rfl | hx'
    · split
      · rename_i hany
        rw [List.any_eq_true] at hany
        exact Or.inl hany
      · exact Or.inr ⟨x, List.mem_cons_self, featureEq_refl x⟩
    · split
      · exact ih seen x hx'
      · rcases ih (seen ++ [f]) x hx' with ⟨y, hy, hyx⟩ | ⟨y, hy, hyx⟩
        · rcases List.mem_append.mp hy with hy' | hy'
          · exact Or.inl ⟨y, hy', hyx⟩
          · simp only [List.mem_singleton] at hy'; subst hy'
            exact Or.inr ⟨y, List.mem_cons_self, hyx⟩
        · exact Or.inr ⟨y, List.mem_cons_of_mem _ hy, hyx⟩

theorem dedup_not_seen : ∀ (l seen : List Feature) (x : Feature), x ∈ dedupFeatures l seen →
    ∀ y ∈ seen, featureEq y x = false := by
  intro l
  induction l with
  | nil => intro seen x h; simp [dedupFeatures] at h
  | cons f fs ih =>
    intro seen x h y hy
    unfold dedupFeatures at h
    split at h
    · exact ih seen x h y hy
    · rename_i hany
      rcases List.mem_cons.mp h with rfl | h'
      · cases hyx : featureEq y x with
        | false => rfl
        | true => exact absurd (List.any_eq_true.mpr ⟨y, hy, hyx⟩) hany
      · exact ih (seen ++ [f]) x h' y (List.mem_append_left _ hy)

theorem dedup_nodup : ∀ (l seen : List Feature),
    (∀ x ∈ l, ∀ y ∈ l, x.name = y.name → featureEq x y = true) →
    (fnames (dedupFeatures l seen)).Nodup := by
  intro l
  induction l with
  | nil => intro seen _; simp [dedupFeatures, fnames]
  | cons f fs ih =>
    intro seen hco
    have hco' : ∀ x ∈ fs, ∀ y ∈ fs, x.name = y.name → featureEq x y = true :=
      fun x hx y hy => hco x (List.mem_cons_of_mem _ hx) y (List.mem_cons_of_mem _ hy)
    unfold dedupFeatures
    split
    · exact ih seen hco'
    · show (fnames (f :: dedupFeatures fs (seen ++ [f]))).Nodup
      simp only [fnames, List.map_cons, List.nodup_cons]
      refine ⟨?_, ih _ hco'⟩
      intro hmem
      obtain ⟨x, hx, hxn⟩ := List.mem_map.mp hmem
      have h1 : featureEq f x = true :=
        hco f List.mem_cons_self x (List.mem_cons_of_mem _ (dedup_sub _ _ x hx)) hxn.symm
      have h2 := dedup_not_seen fs (seen ++ [f]) x hx f (by simp)
      rw [h1] at h2; cases h2

theorem allFeatures_sub {t : TypeRec} {x : Feature} (h : x ∈ allFeatures t) : x ∈ t.own ++ t.inh :=
  dedup_sub _ _ x h

theorem allFeatures_cover {t : TypeRec} {x : Feature} (h : x ∈ t.own ++ t.inh) :
    ∃ y ∈ allFeatures t, featureEq y x = true := by
  rcases dedup_cover (t.own ++ t.inh) [] x h with ⟨y, hy, _⟩ | h'
  · cases hy
  · exact h'

/-- the effective names are the own and the inherited names -/
theorem mem_fnames_allFeatures (t : TypeRec) (n : String) :
    n ∈ fnames (allFeatures t) ↔ n ∈ fnames t.own ∨ n ∈ fnames t.inh := by
  rw [← List.mem_append, ← fnames_append]
  constructor
  · intro h
    obtain ⟨x, hx, e⟩ := mem_fnames.mp h
    exact mem_fnames.mpr ⟨x, allFeatures_sub hx, e⟩
  · intro h
    obtain ⟨x, hx, e⟩ := mem_fnames.mp h
    obtain ⟨y, hy, hyx⟩ := allFeatures_cover hx
    exact mem_fnames.mpr ⟨y, hy, (featureEq_name hyx).trans e⟩

/-! ### First consequences of `FeatInv` -/

/-- same-named features among own ++ inh are identical definitions -/
theorem FeatInv.coherent {ts : TypeSystem} (hf : FeatInv ts) {t : TypeRec} (ht : t ∈ ts.types) :
    ∀ x ∈ t.own ++ t.inh, ∀ y ∈ t.own ++ t.inh, x.name = y.name → featureEq x y = true := by
  intro x hx y hy e
  rcases List.mem_append.mp hx with hx | hx <;> rcases List.mem_append.mp hy with hy | hy
  · rw [feat_inj_of_nodup _ (hf.ownNodup t ht) x hx y hy e]; exact featureEq_refl y
  · exact hf.compat t ht x hx y hy e
  · exact featureEq_symm (hf.compat t ht y hy x hx e.symm)
  · rw [feat_inj_of_nodup _ (hf.inhNodup t ht) x hx y hy e]; exact featureEq_refl y

theorem effective_names_nodup_aux (ts : TypeSystem) (hf : FeatInv ts) (t : TypeRec) (ht : t ∈ ts.types) :
    (fnames (allFeatures t)).Nodup :=
  dedup_nodup _ _ (hf.coherent ht)

/-- `inheritEq` against own ++ inh of the supertype instead of its deduplicated list -/
theorem FeatInv.inheritEq' {ts : TypeSystem} (hf : FeatInv ts) {t ps : TypeRec} {s : String}
    (ht : t ∈ ts.types) (hs : t.super = some s) (hps : find? ts s = some ps) :
    ∀ g ∈ t.inh, ∀ f ∈ ps.own ++ ps.inh, f.name = g.name → featureEq f g = true := by
  intro g hg f hfm e
  obtain ⟨y, hy, hyf⟩ := allFeatures_cover hfm
  have := hf.inheritEq t ht s ps hs hps g hg y hy ((featureEq_name hyf).trans e)
  exact featureEq_trans (featureEq_symm hyf) this

theorem FeatInv.inherit' {ts : TypeSystem} (hf : FeatInv ts) {t ps : TypeRec} {s : String}
    (ht : t ∈ ts.types) (hs : t.super = some s) (hps : find? ts s = some ps) (n : String) :
    n ∈ fnames t.inh ↔ n ∈ fnames ps.own ∨ n ∈ fnames ps.inh := by
  rw [hf.inherit t ht s ps hs hps n, mem_fnames_allFeatures]

theorem effective_names_aux (ts : TypeSystem) (hf : FeatInv ts) (t ps : TypeRec) (s : String)
    (ht : t ∈ ts.types) (hs : t.super = some s) (hps : find? ts s = some ps) (n : String) :
    n ∈ fnames (allFeatures t) ↔ n ∈ fnames t.own ∨ n ∈ fnames (allFeatures ps) := by
  rw [mem_fnames_allFeatures, hf.inherit t ht s ps hs hps n]

/-- along an ancestor chain a definition is handed down (up to `featureEq`) -/
theorem chain_down {ts : TypeSystem} (hf : FeatInv ts) {a b : String} (hab : Anc ts a b) :
    ∀ {ta tb : TypeRec}, find? ts a = some ta → find? ts b = some tb →
    ∀ g ∈ ta.own ++ ta.inh, ∃ g' ∈ tb.own ++ tb.inh, featureEq g' g = true ∧ (a ≠ b → g' ∈ tb.inh) := by
  induction hab with
  | refl _ =>
    intro ta tb hta htb g hg
    rw [hta] at htb; cases htb
    exact ⟨g, hg, featureEq_refl g, fun h => absurd rfl h⟩
  | step b s tb' hfb hs hab' ih =>
    intro ta tb hta htb g hg
    have etb : tb = tb' := by rw [hfb] at htb; exact (Option.some.inj htb).symm
    rw [etb]
    obtain ⟨ps, hps⟩ := (hasExact_iff_find ts s).mp hab'.right_reg
    obtain ⟨g1, hg1, hg1g, _⟩ := ih hta hps g hg
    have hn : g1.name ∈ fnames tb'.inh := by
      rw [hf.inherit' (find?_mem hfb) hs hps]
      rw [← List.mem_append, ← fnames_append]
      exact mem_fnames_of_mem hg1
    obtain ⟨g2, hg2, e⟩ := mem_fnames.mp hn
    have h12 : featureEq g1 g2 = true :=
      hf.inheritEq' (find?_mem hfb) hs hps g2 hg2 g1 hg1 e.symm
    exact ⟨g2, List.mem_append_right _ hg2, featureEq_trans (featureEq_symm h12) hg1g, fun _ => hg2⟩

theorem inherited_down_aux (ts : TypeSystem) (hf : FeatInv ts) (a b : String) (ta tb : TypeRec)
    (hab : Anc ts a b) (hta : find? ts a = some ta) (htb : find? ts b = some tb) (n : String)
    (hn : n ∈ fnames (allFeatures ta)) : n ∈ fnames (allFeatures tb) := by
  rw [mem_fnames_allFeatures, ← List.mem_append, ← fnames_append] at hn ⊢
  obtain ⟨g, hg, e⟩ := mem_fnames.mp hn
  obtain ⟨g', hg', hgg, _⟩ := chain_down hf hab hta htb g hg
  exact mem_fnames.mpr ⟨g', hg', (featureEq_name hgg).trans e⟩

/-! ### A Boolean checker for `FeatInv` on concrete tables -/



theorem featInvB_sound (ts : TypeSystem) (h : featInvB ts = true) : FeatInv ts := by
  unfold featInvB at h
  rw [List.all_eq_true] at h
  have h' : ∀ t ∈ ts.types,
      nodupB (fnames t.own) = true ∧ nodupB (fnames t.inh) = true ∧
      (∀ f ∈ t.own, ∀ g ∈ t.inh, f.name = g.name → featureEq f g = true) ∧
      (match t.super with
       | none => t.inh.isEmpty
       | some s => match find? ts s with
         | none => true
         | some ps =>
           (t.inh.all fun g => (fnames (allFeatures ps)).contains g.name) &&
           ((allFeatures ps).all fun f => (fnames t.inh).contains f.name) &&
           (t.inh.all fun g => (allFeatures ps).all fun f => !(f.name == g.name) || featureEq f g)) = true := by
    intro t ht
    have := h t ht
    simp only [Bool.and_eq_true] at this
    obtain ⟨⟨⟨h1, h2⟩, h3⟩, h4⟩ := this
    refine ⟨h1, h2, ?_, h4⟩
    intro f hf g hg e
    rw [List.all_eq_true] at h3
    have := h3 f hf
    rw [List.all_eq_true] at this
    have := this g hg
    simpa [e] using this
  refine ⟨fun t ht => nodupB_sound _ (h' t ht).1, fun t ht => nodupB_sound _ (h' t ht).2.1,
    fun t ht => (h' t ht).2.2.1, ?_, ?_, ?_⟩
  · intro t ht s ps hs hps n
    have := (h' t ht).2.2.2
    rw [hs] at this; simp only [hps, Bool.and_eq_true] at this
    obtain ⟨⟨h1, h2⟩, _⟩ := this
    rw [List.all_eq_true] at h1 h2
    constructor
    · intro hn
      obtain ⟨g, hg, e⟩ := mem_fnames.mp hn
      have := h1 g hg
      rw [e] at this; simpa using this
    · intro hn
      obtain ⟨f, hf, e⟩ := mem_fnames.mp hn
      have := h2 f hf
      rw [e] at this; simpa using this
  · intro t ht s ps hs hps g hg f hf e
    have := (h' t ht).2.2.2
    rw [hs] at this; simp only [hps, Bool.and_eq_true] at this
    obtain ⟨_, h3⟩ := this
    rw [List.all_eq_true] at h3
    have := h3 g hg
    rw [List.all_eq_true] at this
    have := this f hf
    simpa [e] using this
  · intro t ht hs
    have := (h' t ht).2.2.2
    rw [hs] at this
    simpa using this

theorem featInv_builtins_aux : FeatInv Gen.builtinTS ∧ FeatInv Gen.builtinTSNoDoc :=
  ⟨featInvB_sound _ (by decide +kernel), featInvB_sound _ (by decide +kernel)⟩

/-! ### `addCheck` -/

theorem addCheck_true_fresh {t : TypeRec} {f : Feature} (h : addCheck t f true = .fresh) :
    f.name ∉ fnames t.inh := by
  unfold addCheck at h
  simp only [if_true] at h
  split at h
  · split at h <;> cases h
  · rename_i hnone; exact find_name_none.mp hnone

theorem addCheck_true_of_not_mem {t : TypeRec} {f : Feature} (h : f.name ∉ fnames t.inh) :
    addCheck t f true = .fresh := by
  unfold addCheck
  simp only [if_true, find_name_none.mpr h]

theorem addCheck_true_same {t : TypeRec} {f : Feature} (h : addCheck t f true = .same) :
    ∃ g ∈ t.inh, g.name = f.name ∧ featureEq g f = true := by
  unfold addCheck at h
  simp only [if_true] at h
  split at h
  · rename_i g hg
    split at h
    · rename_i he; exact ⟨g, (find_name_some hg).1, (find_name_some hg).2, he⟩
    · cases h
  · simp at h

theorem addCheck_false_fresh {t : TypeRec} {f : Feature} (h : addCheck t f false = .fresh) :
    f.name ∉ fnames t.own ∧ f.name ∉ fnames t.inh := by
  unfold addCheck at h
  simp only [Bool.false_eq_true, if_false] at h
  split at h
  · split at h <;> cases h
  · rename_i hnone
    split at h
    · split at h <;> cases h
    · rename_i hnone2
      exact ⟨find_name_none.mp hnone, find_name_none.mp hnone2⟩

theorem addCheck_false_same {t : TypeRec} {f : Feature} (h : addCheck t f false = .same) :
    ∃ g ∈ t.own ++ t.inh, g.name = f.name ∧ featureEq g f = true := by
  unfold addCheck at h
  simp only [Bool.false_eq_true, if_false] at h
  split at h
  · rename_i g hg
    split at h
    · rename_i he
      exact ⟨g, List.mem_append_left _ (find_name_some hg).1, (find_name_some hg).2, he⟩
    · cases h
  · split at h
    · rename_i g hg
      split at h
      · rename_i he
        exact ⟨g, List.mem_append_right _ (find_name_some hg).1, (find_name_some hg).2, he⟩
      · cases h
    · cases h

/-- a same-named, differently defined feature among own ++ inh makes the check fail -/
theorem addCheck_false_conflict {ts : TypeSystem} (hf : FeatInv ts) {t : TypeRec} (ht : t ∈ ts.types)
    {f g : Feature} (hg : g ∈ t.own ++ t.inh) (hn : g.name = f.name) (hne : featureEq g f = false) :
    addCheck t f false = .conflict := by
  have key : ∀ g1 ∈ t.own ++ t.inh, g1.name = f.name → featureEq g1 f = false := by
    intro g1 hg1 e
    cases h : featureEq g1 f with
    | false => rfl
    | true =>
      have := hf.coherent ht g hg g1 hg1 (hn.trans e.symm)
      rw [featureEq_trans this h] at hne; cases hne
  unfold addCheck
  simp only [Bool.false_eq_true, if_false]
  cases h1 : t.own.find? (·.name == f.name) with
  | some g1 =>
    simp only [key g1 (List.mem_append_left _ (find_name_some h1).1) (find_name_some h1).2,
      Bool.false_eq_true, if_false]
  | none =>
    simp only
    cases h2 : t.inh.find? (·.name == f.name) with
    | some g2 =>
      simp only [key g2 (List.mem_append_right _ (find_name_some h2).1) (find_name_some h2).2,
        Bool.false_eq_true, if_false]
    | none =>
      exfalso
      rcases List.mem_append.mp hg with h | h
      · exact find_name_none.mp h1 (hn ▸ mem_fnames_of_mem h)
      · exact find_name_none.mp h2 (hn ▸ mem_fnames_of_mem h)

/-! ### `inheritAll` -/

theorem inheritAll_spec : ∀ (fs : List Feature) (t t' : TypeRec), (fnames fs).Nodup →
    (∀ n ∈ fnames fs, n ∉ fnames t.inh) → inheritAll fs t = .ok t' →
    t' = { t with inh := t.inh ++ fs } := by
  intro fs
  induction fs with
  | nil => intro t t' _ _ h; unfold inheritAll at h; cases h; simp
  | cons f fs ih =>
    intro t t' hn hd h
    have hfresh : addCheck t f true = .fresh :=
      addCheck_true_of_not_mem (hd f.name (by simp [fnames]))
    unfold inheritAll at h
    rw [hfresh] at h
    simp only at h
    simp only [fnames, List.map_cons, List.nodup_cons] at hn
    have := ih { t with inh := t.inh ++ [f] } t' hn.2 (by
      intro n hnm
      simp only [fnames_append, List.mem_append, not_or]
      refine ⟨hd n (by simp only [fnames, List.map_cons]; exact List.mem_cons_of_mem _ hnm), ?_⟩
      simp only [fnames, List.map_cons, List.map_nil, List.mem_singleton]
      intro e; subst e; exact hn.1 hnm) h
    rw [this]; simp

/-! ### `createType` -/

@[simp] theorem upd_own (sup n : String) (t : TypeRec) : (upd sup n t).own = t.own := by
  unfold upd; split <;> rfl
@[simp] theorem upd_inh (sup n : String) (t : TypeRec) : (upd sup n t).inh = t.inh := by
  unfold upd; split <;> rfl
@[simp] theorem allFeatures_upd (sup n : String) (t : TypeRec) :
    allFeatures (upd sup n t) = allFeatures t := by
  unfold allFeatures; rw [upd_own, upd_inh]

theorem createType_shape (K : Consts) (ts ts' : TypeSystem) (n s : String) (d : Option String)
    (hc : Consistent ts) (hf : FeatInv ts) (hnew : hasExact ts n = false)
    (h : createType K ts n s d = .ok ts') :
    ∃ sup, getType ts s = .ok sup ∧ sup ∈ ts.types ∧
      ts' = { types := ts.types.map (upd sup.name n) ++
                [{ name := n, super := some sup.name, descr := d, inh := allFeatures sup }],
              redeclared := ts.redeclared } := by
  obtain ⟨sup, new1, hsup, hinh, rfl⟩ := createType_ok K ts ts' n s d h
  have hsm : sup ∈ ts.types := getType_mem hsup
  have hfs : find? ts sup.name = some sup := find?_of_mem hc.nodup hsm
  have hnc : sup.children.contains n = false := by
    cases hcn : sup.children.contains n with
    | false => rfl
    | true =>
      have hm : n ∈ sup.children := by simpa using hcn
      obtain ⟨tb, htb, _⟩ := (hc.link sup.name n).mp ⟨sup, hfs, hm⟩
      rw [find?_none_of_not_has hnew] at htb; cases htb
  have hnew1 := inheritAll_spec _ _ _ (effective_names_nodup_aux ts hf sup hsm)
    (by intro m _; simp [fnames]) hinh
  simp only [List.nil_append] at hnew1
  refine ⟨sup, hsup, hsm, ?_⟩
  simp only [hnc, Bool.false_eq_true, if_false]
  have hset : setRec ts { sup with children := sup.children ++ [n] } =
      { types := ts.types.map (upd sup.name n), redeclared := ts.redeclared } := by
    unfold setRec
    congr 1
    apply List.map_congr_left
    intro x hx
    unfold upd
    simp only
    split
    · rename_i hxn
      have : x = sup := name_inj_of_nodup _ hc.nodup x hx sup hsm (by simpa using hxn)
      rw [this]
    · rfl
  rw [hset]
  have hn1 : new1.name = n := by rw [hnew1]
  have hnot : hasExact { types := ts.types.map (upd sup.name n), redeclared := ts.redeclared } new1.name = false := by
    rw [hn1]
    cases hx : hasExact { types := ts.types.map (upd sup.name n), redeclared := ts.redeclared } n with
    | false => rfl
    | true =>
      rw [hasExact_iff_mem] at hx
      simp only [List.map_map, Function.comp_def, upd_name] at hx
      rw [← hasExact_iff_mem, hnew] at hx; cases hx
  unfold putRec
  rw [hnot]
  simp only [Bool.false_eq_true, if_false]
  rw [hnew1]

theorem featInv_extend (ts ts' : TypeSystem) (n : String) (sup new : TypeRec)
    (hc : Consistent ts) (hf : FeatInv ts) (hnew : hasExact ts n = false)
    (hsm : sup ∈ ts.types) (hn1 : new.name = n) (hs1 : new.super = some sup.name)
    (ho : new.own = []) (hi : new.inh = allFeatures sup)
    (hts' : ts'.types = ts.types.map (upd sup.name n) ++ [new]) : FeatInv ts' := by
  have hfind : ∀ x, find? ts' x = if x = n then some new else (find? ts x).map (upd sup.name n) := by
    obtain ⟨types', red⟩ := ts'
    simp only at hts'; subst hts'
    exact find_create ts red n sup.name new hn1 hnew
  have hfs : find? ts sup.name = some sup := find?_of_mem hc.nodup hsm
  have hsn : sup.name ≠ n := by
    intro e; rw [e] at hfs; rw [find?_none_of_not_has hnew] at hfs; cases hfs
  have hmem : ∀ t' ∈ ts'.types, (∃ t0 ∈ ts.types, t' = upd sup.name n t0) ∨ t' = new := by
    intro t' ht'
    rw [hts'] at ht'
    rcases List.mem_append.mp ht' with h | h
    · obtain ⟨t0, ht0, e⟩ := List.mem_map.mp h
      exact Or.inl ⟨t0, ht0, e.symm⟩
    · exact Or.inr (by simpa using h)
  -- the supertype of an old record is an old record
  have hsup_old : ∀ t0 ∈ ts.types, ∀ s0 ps', t0.super = some s0 → find? ts' s0 = some ps' →
      ∃ ps, find? ts s0 = some ps ∧ ps' = upd sup.name n ps := by
    intro t0 ht0 s0 ps' hs0 hps'
    have hreg := hc.superReg t0 ht0 s0 hs0
    have hne : s0 ≠ n := by intro e; rw [e, hnew] at hreg; cases hreg
    rw [hfind, if_neg hne] at hps'
    cases hq : find? ts s0 with
    | none => rw [hq] at hps'; cases hps'
    | some ps => rw [hq] at hps'; exact ⟨ps, rfl, (Option.some.inj hps').symm⟩
  have hsup_new : ∀ ps', find? ts' sup.name = some ps' → ps' = upd sup.name n sup := by
    intro ps' hps'
    rw [hfind, if_neg hsn, hfs] at hps'
    exact (Option.some.inj hps').symm
  refine ⟨?_, ?_, ?_, ?_, ?_, ?_⟩
  · intro t' ht'
    rcases hmem t' ht' with ⟨t0, ht0, rfl⟩ | rfl
    · rw [upd_own]; exact hf.ownNodup t0 ht0
    · rw [ho]; simp [fnames]
  · intro t' ht'
    rcases hmem t' ht' with ⟨t0, ht0, rfl⟩ | rfl
    · rw [upd_inh]; exact hf.inhNodup t0 ht0
    · rw [hi]; exact effective_names_nodup_aux ts hf sup hsm
  · intro t' ht'
    rcases hmem t' ht' with ⟨t0, ht0, rfl⟩ | rfl
    · rw [upd_own, upd_inh]; exact hf.compat t0 ht0
    · rw [ho]; intro f hfm; cases hfm
  · intro t' ht' s0 ps' hs0 hps' m
    rcases hmem t' ht' with ⟨t0, ht0, rfl⟩ | rfl
    · rw [upd_super] at hs0
      obtain ⟨ps, hps, rfl⟩ := hsup_old t0 ht0 s0 ps' hs0 hps'
      rw [upd_inh, allFeatures_upd]
      exact hf.inherit t0 ht0 s0 ps hs0 hps m
    · rw [hs1] at hs0
      simp only [Option.some.injEq] at hs0
      subst hs0
      rw [hsup_new ps' hps', allFeatures_upd, hi]
  · intro t' ht' s0 ps' hs0 hps' g hg f hfm e
    rcases hmem t' ht' with ⟨t0, ht0, rfl⟩ | rfl
    · rw [upd_super] at hs0
      obtain ⟨ps, hps, rfl⟩ := hsup_old t0 ht0 s0 ps' hs0 hps'
      rw [upd_inh] at hg
      rw [allFeatures_upd] at hfm
      exact hf.inheritEq t0 ht0 s0 ps hs0 hps g hg f hfm e
    · rw [hs1] at hs0
      simp only [Option.some.injEq] at hs0
      subst hs0
      rw [hsup_new ps' hps', allFeatures_upd] at hfm
      rw [hi] at hg
      rw [feat_inj_of_nodup _ (effective_names_nodup_aux ts hf sup hsm) f hfm g hg e]
      exact featureEq_refl g
  · intro t' ht' hs0
    rcases hmem t' ht' with ⟨t0, ht0, rfl⟩ | rfl
    · rw [upd_super] at hs0; rw [upd_inh]; exact hf.rootInh t0 ht0 hs0
    · rw [hs1] at hs0; cases hs0

theorem featInv_createType_aux (K : Consts) (ts ts' : TypeSystem) (n s : String) (d : Option String)
    (hc : Consistent ts) (hf : FeatInv ts) (hnew : hasExact ts n = false)
    (h : createType K ts n s d = .ok ts') : FeatInv ts' := by
  obtain ⟨sup, _, hsm, rfl⟩ := createType_shape K ts ts' n s d hc hf hnew h
  exact featInv_extend ts _ n sup _ hc hf hnew hsm rfl rfl rfl rfl rfl

theorem future_descendants_inherit_aux (K : Consts) (ts ts' : TypeSystem) (n s : String) (d : Option String)
    (hc : Consistent ts) (hf : FeatInv ts) (hnew : hasExact ts n = false)
    (h : createType K ts n s d = .ok ts') (sup new : TypeRec)
    (hsup : getType ts s = .ok sup) (hnw : find? ts' n = some new) :
    ∀ m, m ∈ fnames (allFeatures new) ↔ m ∈ fnames (allFeatures sup) := by
  obtain ⟨sup', hsup', _, rfl⟩ := createType_shape K ts ts' n s d hc hf hnew h
  rw [hsup] at hsup'
  have e : sup = sup' := by injection hsup'
  subst e
  rw [find_create ts ts.redeclared n sup.name _ rfl hnew, if_pos rfl] at hnw
  have e2 := (Option.some.inj hnw).symm
  subst e2
  intro m
  rw [mem_fnames_allFeatures]
  simp [fnames]

/-! ### `find?` after `setRec`; acyclicity -/

theorem find?_setRec_ne (ts : TypeSystem) (r : TypeRec) {x : String} (hx : x ≠ r.name) :
    find? (setRec ts r) x = find? ts x := by
  unfold find? setRec
  simp only
  induction ts.types with
  | nil => rfl
  | cons t l ih =>
    simp only [List.map_cons, List.find?_cons]
    by_cases htn : t.name = r.name
    · have h1 : (t.name == r.name) = true := by simpa using htn
      have h2 : (r.name == x) = false := by simpa using fun e => hx e.symm
      have h3 : (t.name == x) = false := by rw [htn]; exact h2
      simp only [h1, if_true, h2, h3]
      exact ih
    · have h1 : (t.name == r.name) = false := by simpa using htn
      simp only [h1, Bool.false_eq_true, if_false]
      split
      · rfl
      · exact ih

theorem find_map_set_eq (r : TypeRec) : ∀ (l : List TypeRec) (t : TypeRec),
    l.find? (·.name == r.name) = some t →
    (l.map (fun t => if t.name == r.name then r else t)).find? (·.name == r.name) = some r := by
  intro l
  induction l with
  | nil => intro t h; simp at h
  | cons t0 l ih =>
    intro t h
    simp only [List.map_cons, List.find?_cons] at h ⊢
    by_cases htn : t0.name = r.name
    · have h1 : (t0.name == r.name) = true := by simpa using htn
      simp only [h1, if_true, beq_self_eq_true]
    · have h1 : (t0.name == r.name) = false := by simpa using htn
      simp only [h1, Bool.false_eq_true, if_false] at h ⊢
      exact ih t h

theorem find?_setRec_eq (ts : TypeSystem) (r t : TypeRec) {x : String} (hx : r.name = x)
    (h : find? ts x = some t) : find? (setRec ts r) x = some r := by
  subst hx
  exact find_map_set_eq r ts.types t h

theorem not_anc_of_super {ts : TypeSystem} (hc : Consistent ts) {b s : String} {tb : TypeRec}
    (hf : find? ts b = some tb) (hs : tb.super = some s) : ¬ Anc ts b s := by
  intro h
  obtain ⟨i, hi, e⟩ := find?_idx hf
  have hib : (ts.types[i]).name = b := by rw [e]; exact find?_name hf
  obtain ⟨j, hj, hjl, hjn⟩ := hc.topo i hi s (by rw [e]; exact hs)
  have := h.idx_le hc i j hi hjl hib hjn
  omega

/-! ### What `pushInherited` does to a record -/

/-- one record before and after: untouched, or `f` appended to the inherited features (only if the
    name was not inherited yet, and only below one of the types in `S`) -/
def PStep (ts0 : TypeSystem) (f : Feature) (S : List String) (x : String) (t t' : TypeRec) : Prop :=
  t' = t ∨ (t' = { t with inh := t.inh ++ [f] } ∧ f.name ∉ fnames t.inh ∧ ∃ c ∈ S, Anc ts0 c x)

theorem PStep.mono {ts0 : TypeSystem} {f : Feature} {S S' : List String} {x : String} {t t' : TypeRec}
    (h : PStep ts0 f S x t t') (hS : ∀ c ∈ S, Anc ts0 c x → ∃ c' ∈ S', Anc ts0 c' x) :
    PStep ts0 f S' x t t' := by
  rcases h with h | ⟨h1, h2, c, hc, hcx⟩
  · exact Or.inl h
  · exact Or.inr ⟨h1, h2, hS c hc hcx⟩

theorem PStep.comp {ts0 : TypeSystem} {f : Feature} {S : List String} {x : String} {t t1 t2 : TypeRec}
    (h1 : PStep ts0 f S x t t1) (h2 : PStep ts0 f S x t1 t2) : PStep ts0 f S x t t2 := by
  rcases h1 with rfl | ⟨e1, hn1, hS1⟩
  · exact h2
  · rcases h2 with rfl | ⟨e2, hn2, _⟩
    · exact Or.inr ⟨e1, hn1, hS1⟩
    · exfalso
      apply hn2
      rw [e1]
      simp [fnames]

theorem PStep.inh_mem {ts0 : TypeSystem} {f : Feature} {S : List String} {x : String} {t t' : TypeRec}
    (h : PStep ts0 f S x t t') {n : String} (hn : n ∈ fnames t.inh) : n ∈ fnames t'.inh := by
  rcases h with rfl | ⟨e, _, _⟩
  · exact hn
  · rw [e]; simp only [fnames_append, List.mem_append]; exact Or.inl hn

theorem push_spec (ts0 : TypeSystem) (hc0 : Consistent ts0) (hf0 : FeatInv ts0) (f : Feature)
    (fuel : Nat) (ts : TypeSystem) (cs : List String) :
    ∀ ts' a, skel ts = skel ts0 →
      (∀ c ∈ cs, ∃ tc, find? ts0 c = some tc ∧ tc.super = some a) → cs.Nodup →
      (∀ c ∈ cs, ∀ x, Anc ts0 c x → find? ts x = find? ts0 x) →
      pushInherited f fuel ts cs = .ok ts' →
      (∀ x t, find? ts x = some t → ∃ t', find? ts' x = some t' ∧ PStep ts0 f cs x t t') ∧
      (∀ c ∈ cs, ∀ x, Anc ts0 c x → ∀ t', find? ts' x = some t' → f.name ∈ fnames t'.inh) := by
  fun_induction pushInherited f fuel ts cs with
  | case1 => intro ts' a _ _ _ _ h; cases h
  | case2 =>
    intro ts' a _ _ _ _ h; cases h
    exact ⟨fun x t hx => ⟨t, hx, Or.inl rfl⟩, fun c hc => by cases hc⟩
  | case3 fuel ts c cs hf ih =>
    intro ts' a _ hsib _ hunt h
    obtain ⟨tc, htc, _⟩ := hsib c List.mem_cons_self
    have := hunt c List.mem_cons_self c (Anc.refl c ((hasExact_iff_find ts0 c).mpr ⟨tc, htc⟩))
    rw [hf, htc] at this; cases this
  | case4 => intro ts' a _ _ _ _ h; cases h
  | case5 fuel ts c cs t hf hchk ih =>
    intro ts' a hsk hsib hnd hunt h
    obtain ⟨tc, htc, hsc⟩ := hsib c List.mem_cons_self
    have hregc : hasExact ts0 c = true := (hasExact_iff_find ts0 c).mpr ⟨tc, htc⟩
    have etc : tc = t := by
      have := hunt c List.mem_cons_self c (Anc.refl c hregc)
      rw [hf, htc] at this; exact (Option.some.inj this).symm
    subst etc
    obtain ⟨Pb, Pc⟩ := ih ts' a hsk (fun c' hc' => hsib c' (List.mem_cons_of_mem _ hc'))
      (List.nodup_cons.mp hnd).2 (fun c' hc' => hunt c' (List.mem_cons_of_mem _ hc')) h
    refine ⟨?_, ?_⟩
    · intro x t hx
      obtain ⟨t', ht', hst⟩ := Pb x t hx
      exact ⟨t', ht', hst.mono (fun c' hc' hcx => ⟨c', List.mem_cons_of_mem _ hc', hcx⟩)⟩
    · intro c' hc' x hcx t' ht'
      rcases List.mem_cons.mp hc' with rfl | hc'
      · obtain ⟨g, hg, hgn, hgf⟩ := addCheck_true_same hchk
        obtain ⟨tx, htx⟩ := (hasExact_iff_find ts0 x).mp hcx.right_reg
        have hxs : find? ts x = some tx := by
          rw [hunt c' List.mem_cons_self x hcx]; exact htx
        have hmem : f.name ∈ fnames tx.inh := by
          by_cases hxc : c' = x
          · subst hxc
            rw [htc] at htx; cases htx
            rw [← hgn]; exact mem_fnames_of_mem hg
          · obtain ⟨g', _, hgg, hg'⟩ := chain_down hf0 hcx htc htx g (List.mem_append_right _ hg)
            rw [← hgn, ← featureEq_name hgg]
            exact mem_fnames_of_mem (hg' hxc)
        obtain ⟨t'', ht'', hst⟩ := Pb x tx hxs
        rw [ht'] at ht''; cases ht''
        exact hst.inh_mem hmem
      · exact Pc c' hc' x hcx t' ht'
  | case6 fuel ts c cs t hf hchk ts1 ih2 ih1 =>
    intro ts' a hsk hsib hnd hunt h
    obtain ⟨tc, htc, hsc⟩ := hsib c List.mem_cons_self
    have hregc : hasExact ts0 c = true := (hasExact_iff_find ts0 c).mpr ⟨tc, htc⟩
    have etc : tc = t := by
      have := hunt c List.mem_cons_self c (Anc.refl c hregc)
      rw [hf, htc] at this; exact (Option.some.inj this).symm
    subst etc
    have hfresh := addCheck_true_fresh hchk
    have hn : (ts.types.map (·.name)).Nodup := nodup_of_skel hsk hc0.nodup
    have htn : tc.name = c := find?_name hf
    have hsk1 : skel ts1 = skel ts := by
      apply skel_setRec ts _ tc hn
      · show find? ts tc.name = some tc
        rw [htn]; exact hf
      · rfl
    have hf1ne : ∀ x, x ≠ c → find? ts1 x = find? ts x := by
      intro x hx
      apply find?_setRec_ne
      show x ≠ tc.name
      rw [htn]; exact hx
    have hf1eq : find? ts1 c = some { tc with inh := tc.inh ++ [f] } :=
      find?_setRec_eq ts { tc with inh := tc.inh ++ [f] } tc htn hf
    have hcnot : c ∉ cs := (List.nodup_cons.mp hnd).1
    cases h2 : pushInherited f fuel ts1 tc.children with
    | error e => rw [h2] at h; cases h
    | ok ts2 =>
      rw [h2] at h
      have hchild : ∀ d ∈ tc.children, ∃ td, find? ts0 d = some td ∧ td.super = some c :=
        fun d hd => (hc0.link c d).mp ⟨tc, htc, hd⟩
      obtain ⟨P1b, P1c⟩ := ih2 ts2 c (hsk1.trans hsk) hchild (hc0.childNodup tc (find?_mem htc))
        (by
          intro d hd x hdx
          obtain ⟨td, htd, hsd⟩ := hchild d hd
          have hxc : x ≠ c := by
            intro e; subst e; exact not_anc_of_super hc0 htd hsd hdx
          rw [hf1ne x hxc]
          exact hunt c List.mem_cons_self x (Anc.of_child hregc htd hsd hdx)) h2
      have hsk2 : skel ts2 = skel ts1 :=
        skel_pushInherited f fuel ts1 tc.children ts2 (nodup_of_skel hsk1 hn) h2
      obtain ⟨P2b, P2c⟩ := ih1 ts2 ts' a (hsk2.trans (hsk1.trans hsk))
        (fun c' hc' => hsib c' (List.mem_cons_of_mem _ hc')) (List.nodup_cons.mp hnd).2
        (by
          intro c2 hc2 x hx
          obtain ⟨t2, hfc2, hs2⟩ := hsib c2 (List.mem_cons_of_mem _ hc2)
          have hx0 := hunt c2 (List.mem_cons_of_mem _ hc2) x hx
          obtain ⟨tx, htx⟩ := (hasExact_iff_find ts0 x).mp hx.right_reg
          have hdis : ¬ Anc ts0 c x := by
            intro hcx
            have := children_disjoint hc0 hfc2 hs2 htc hsc hx hcx
            subst this; exact hcnot hc2
          have hxc : x ≠ c := by
            intro e; subst e; exact hdis (Anc.refl x hregc)
          have h1x : find? ts1 x = some tx := by rw [hf1ne x hxc, hx0, htx]
          obtain ⟨t', ht', hst⟩ := P1b x tx h1x
          rcases hst with rfl | ⟨_, _, d, hd, hdx⟩
          · rw [ht', htx]
          · obtain ⟨td, htd, hsd⟩ := hchild d hd
            exact absurd (Anc.of_child hregc htd hsd hdx) hdis) h
      refine ⟨?_, ?_⟩
      · intro x tx hx
        have hs0 : ∃ t1, find? ts1 x = some t1 ∧ PStep ts0 f (c :: cs) x tx t1 := by
          by_cases hxc : x = c
          · subst hxc
            rw [hf] at hx; cases hx
            exact ⟨_, hf1eq, Or.inr ⟨rfl, hfresh, x, List.mem_cons_self, Anc.refl x hregc⟩⟩
          · exact ⟨tx, by rw [hf1ne x hxc]; exact hx, Or.inl rfl⟩
        obtain ⟨t1, ht1, hst0⟩ := hs0
        obtain ⟨t2, ht2, hst1⟩ := P1b x t1 ht1
        obtain ⟨t3, ht3, hst2⟩ := P2b x t2 ht2
        refine ⟨t3, ht3, (hst0.comp (hst1.mono ?_)).comp (hst2.mono ?_)⟩
        · intro d hd hdx
          obtain ⟨td, htd, hsd⟩ := hchild d hd
          exact ⟨c, List.mem_cons_self, Anc.of_child hregc htd hsd hdx⟩
        · intro c' hc' hcx
          exact ⟨c', List.mem_cons_of_mem _ hc', hcx⟩
      · intro c' hc' x hcx t' ht'
        rcases List.mem_cons.mp hc' with rfl | hc'
        · have h2x : ∃ t2, find? ts2 x = some t2 ∧ f.name ∈ fnames t2.inh := by
            rcases hcx.down with e | ⟨d, td, htd, hsd, hdx⟩
            · subst e
              obtain ⟨t2, ht2, hst1⟩ := P1b c' _ hf1eq
              refine ⟨t2, ht2, hst1.inh_mem ?_⟩
              simp [fnames]
            · have hd : d ∈ tc.children := by
                obtain ⟨ta, hta, hm⟩ := (hc0.link c' d).mpr ⟨td, htd, hsd⟩
                rw [htc] at hta; cases hta; exact hm
              have hreg2 : hasExact ts2 x = true := by
                rw [hasExact_transfer (hsk2.trans (hsk1.trans hsk))]; exact hcx.right_reg
              obtain ⟨t2, ht2⟩ := (hasExact_iff_find ts2 x).mp hreg2
              exact ⟨t2, ht2, P1c d hd x hdx t2 ht2⟩
          obtain ⟨t2, ht2, hm2⟩ := h2x
          obtain ⟨t3, ht3, hst2⟩ := P2b x t2 ht2
          rw [ht'] at ht3; cases ht3
          exact hst2.inh_mem hm2
        · exact P2c c' hc' x hcx t' ht'

/-! ### `addFeature`: what it computes -/

theorem addFeature_cases {ts ts' : TypeSystem} {dom : String} {f : Feature}
    (h : addFeature ts dom f = .ok ts') :
    ∃ t, find? ts dom = some t ∧
      ((addCheck t f false = .same ∧ ts' = ts) ∨
       (addCheck t f false = .fresh ∧ descendantConflict ts dom f = false ∧
        pushInherited f (ts.types.length + 1) (setRec ts { t with own := t.own ++ [f] }) t.children
          = .ok ts')) := by
  unfold addFeature at h
  split at h
  · cases h
  · rename_i t hf
    refine ⟨t, hf, ?_⟩
    split at h
    · cases h
    · rename_i hchk; cases h; exact Or.inl ⟨hchk, rfl⟩
    · rename_i hchk
      split at h
      · cases h
      · rename_i hdc
        exact Or.inr ⟨hchk, by simpa using hdc, h⟩

/-- the result of a successful `addFeature` of a fresh name, record by record -/
structure AddTarget (ts0 : TypeSystem) (dom : String) (f : Feature) (ts' : TypeSystem) : Prop where
  skel : skel ts' = skel ts0
  recs : ∀ x t, find? ts0 x = some t → ∃ t', find? ts' x = some t' ∧
    (x = dom → t' = { t with own := t.own ++ [f] }) ∧
    (x ≠ dom → PStep ts0 f [dom] x t t') ∧
    (x ≠ dom → Anc ts0 dom x → f.name ∈ fnames t'.inh)

theorem addFeature_target {ts ts' : TypeSystem} {dom : String} {f : Feature} {t : TypeRec}
    (hc : Consistent ts) (hf : FeatInv ts) (ht : find? ts dom = some t)
    (h : pushInherited f (ts.types.length + 1) (setRec ts { t with own := t.own ++ [f] }) t.children
          = .ok ts') : AddTarget ts dom f ts' := by
  have htn : t.name = dom := find?_name ht
  have hreg : hasExact ts dom = true := (hasExact_iff_find ts dom).mpr ⟨t, ht⟩
  have hsk1 : skel (setRec ts { t with own := t.own ++ [f] }) = skel ts := by
    apply skel_setRec ts _ t hc.nodup
    · show find? ts t.name = some t
      rw [htn]; exact ht
    · rfl
  have hf1ne : ∀ x, x ≠ dom → find? (setRec ts { t with own := t.own ++ [f] }) x = find? ts x := by
    intro x hx
    apply find?_setRec_ne
    show x ≠ t.name
    rw [htn]; exact hx
  have hf1eq : find? (setRec ts { t with own := t.own ++ [f] }) dom = some { t with own := t.own ++ [f] } :=
    find?_setRec_eq ts { t with own := t.own ++ [f] } t htn ht
  have hchild : ∀ d ∈ t.children, ∃ td, find? ts d = some td ∧ td.super = some dom :=
    fun d hd => (hc.link dom d).mp ⟨t, ht, hd⟩
  have hnotdom : ∀ d ∈ t.children, ¬ Anc ts d dom := by
    intro d hd hdx
    obtain ⟨td, htd, hsd⟩ := hchild d hd
    exact not_anc_of_super hc htd hsd hdx
  obtain ⟨Pb, Pc⟩ := push_spec ts hc hf f _ _ _ ts' dom hsk1 hchild (hc.childNodup t (find?_mem ht))
    (by
      intro d hd x hdx
      have hxc : x ≠ dom := by
        intro e; subst e; exact hnotdom d hd hdx
      exact hf1ne x hxc) h
  refine ⟨(skel_pushInherited f _ _ _ ts' (nodup_of_skel hsk1 hc.nodup) h).trans hsk1, ?_⟩
  intro x tx hx
  by_cases hxd : x = dom
  · subst hxd
    rw [ht] at hx; cases hx
    obtain ⟨t', ht', hst⟩ := Pb x _ hf1eq
    refine ⟨t', ht', ?_, fun h => absurd rfl h, fun h => absurd rfl h⟩
    intro _
    rcases hst with e | ⟨_, _, d, hd, hdx⟩
    · exact e
    · exact absurd hdx (hnotdom d hd)
  · obtain ⟨t', ht', hst⟩ := Pb x tx (by rw [hf1ne x hxd]; exact hx)
    refine ⟨t', ht', fun h => absurd h hxd, fun _ => hst.mono ?_, ?_⟩
    · intro d hd hdx
      obtain ⟨td, htd, hsd⟩ := hchild d hd
      exact ⟨dom, List.mem_cons_self, Anc.of_child hreg htd hsd hdx⟩
    · intro _ hax
      rcases hax.down with e | ⟨d, td, htd, hsd, hdx⟩
      · exact absurd e.symm hxd
      · have hd : d ∈ t.children := by
          obtain ⟨ta, hta, hm⟩ := (hc.link dom d).mpr ⟨td, htd, hsd⟩
          rw [ht] at hta; cases hta; exact hm
        exact Pc d hd x hdx t' ht'

theorem AddTarget.cases {ts0 ts' : TypeSystem} {dom : String} {f : Feature}
    (hT : AddTarget ts0 dom f ts') {x : String} {t t' : TypeRec}
    (hx : find? ts0 x = some t) (hx' : find? ts' x = some t') :
    (x = dom ∧ t' = { t with own := t.own ++ [f] }) ∨
    (x ≠ dom ∧ Anc ts0 dom x ∧ f.name ∉ fnames t.inh ∧ t' = { t with inh := t.inh ++ [f] }) ∨
    (x ≠ dom ∧ t' = t ∧ (Anc ts0 dom x → f.name ∈ fnames t.inh)) := by
  obtain ⟨t'', ht'', h1, h2, h3⟩ := hT.recs x t hx
  rw [hx'] at ht''; cases ht''
  by_cases hxd : x = dom
  · exact Or.inl ⟨hxd, h1 hxd⟩
  · right
    rcases h2 hxd with e | ⟨e, hn, c, hc, hcx⟩
    · right
      refine ⟨hxd, e, fun ha => ?_⟩
      have := h3 hxd ha
      rw [e] at this; exact this
    · left
      simp only [List.mem_singleton] at hc; subst hc
      exact ⟨hxd, hcx, hn, e⟩

theorem noConflict_of {ts : TypeSystem} (hc : Consistent ts) (hf : FeatInv ts) {dom : String} {f : Feature}
    (hreg : hasExact ts dom = true) (hdc : descendantConflict ts dom f = false)
    {x : String} {tx : TypeRec} {g : Feature} (hax : Anc ts dom x) (hxd : x ≠ dom)
    (htx : find? ts x = some tx) (hg : g ∈ tx.own) (hgn : g.name = f.name) : featureEq g f = true := by
  unfold descendantConflict at hdc
  have hall := List.any_eq_false.mp hdc x ((descendants_eq_closure_aux ts hc dom x hreg).mpr hax)
  have hfind : tx.own.find? (·.name == f.name) = some g := by
    rw [← hgn]; exact find_name_of_mem (hf.ownNodup tx (find?_mem htx)) hg
  have hne : (x != dom) = true := by simpa using hxd
  simp only [htx, hfind, hne, Bool.true_and] at hall
  simpa using hall

theorem featInv_of_target {ts0 ts' : TypeSystem} {dom : String} {f : Feature} {td : TypeRec}
    (hc : Consistent ts0) (hf : FeatInv ts0) (htd : find? ts0 dom = some td)
    (hfo : f.name ∉ fnames td.own) (hfi : f.name ∉ fnames td.inh)
    (hdc : descendantConflict ts0 dom f = false) (hT : AddTarget ts0 dom f ts') : FeatInv ts' := by
  have hreg : hasExact ts0 dom = true := (hasExact_iff_find ts0 dom).mpr ⟨td, htd⟩
  have hn' : (ts'.types.map (·.name)).Nodup := nodup_of_skel hT.skel hc.nodup
  -- every record of `ts'` comes from a record of `ts0`
  have hback : ∀ t' ∈ ts'.types, ∃ t, find? ts0 t'.name = some t ∧ find? ts' t'.name = some t' ∧
      t.super = t'.super := by
    intro t' ht'
    have h1 := find?_of_mem hn' ht'
    obtain ⟨t, ht, he⟩ := find?_transfer hT.skel h1
    rw [tr_eq_iff] at he
    exact ⟨t, ht, h1, he.2.1⟩
  have hback_s : ∀ s ps', find? ts' s = some ps' → ∃ ps, find? ts0 s = some ps := by
    intro s ps' h
    obtain ⟨ps, hps, _⟩ := find?_transfer hT.skel h
    exact ⟨ps, hps⟩
  have noConf := @noConflict_of ts0 hc hf dom f hreg hdc
  -- membership after the step
  have mem_own : ∀ {x t t'}, find? ts0 x = some t → find? ts' x = some t' → ∀ g ∈ t'.own,
      g ∈ t.own ∨ (x = dom ∧ g = f) := by
    intro x t t' hx hx' g hg
    rcases hT.cases hx hx' with ⟨h1, e⟩ | ⟨_, _, _, e⟩ | ⟨_, e, _⟩
    · rw [e] at hg
      rcases List.mem_append.mp hg with h | h
      · exact Or.inl h
      · exact Or.inr ⟨h1, by simpa using h⟩
    · rw [e] at hg; exact Or.inl hg
    · rw [e] at hg; exact Or.inl hg
  have mem_inh : ∀ {x t t'}, find? ts0 x = some t → find? ts' x = some t' → ∀ g ∈ t'.inh,
      g ∈ t.inh ∨ (x ≠ dom ∧ Anc ts0 dom x ∧ f.name ∉ fnames t.inh ∧ g = f) := by
    intro x t t' hx hx' g hg
    rcases hT.cases hx hx' with ⟨_, e⟩ | ⟨h1, h2, h3, e⟩ | ⟨_, e, _⟩
    · rw [e] at hg; exact Or.inl hg
    · rw [e] at hg
      rcases List.mem_append.mp hg with h | h
      · exact Or.inl h
      · exact Or.inr ⟨h1, h2, h3, by simpa using h⟩
    · rw [e] at hg; exact Or.inl hg
  have names_inh : ∀ {x t t'}, find? ts0 x = some t → find? ts' x = some t' → ∀ n,
      (n ∈ fnames t'.inh ↔ n ∈ fnames t.inh ∨ (x ≠ dom ∧ Anc ts0 dom x ∧ n = f.name)) := by
    intro x t t' hx hx' n
    rcases hT.cases hx hx' with ⟨h1, e⟩ | ⟨h1, h2, h3, e⟩ | ⟨h1, e, h3⟩
    · rw [e]
      constructor
      · intro h; exact Or.inl h
      · rintro (h | ⟨h, _⟩)
        · exact h
        · exact absurd h1 h
    · rw [e]
      simp only [fnames_append, List.mem_append]
      constructor
      · rintro (h | h)
        · exact Or.inl h
        · exact Or.inr ⟨h1, h2, by simpa [fnames] using h⟩
      · rintro (h | ⟨_, _, h⟩)
        · exact Or.inl h
        · exact Or.inr (by simp [fnames, h])
    · rw [e]
      constructor
      · intro h; exact Or.inl h
      · rintro (h | ⟨_, h, rfl⟩)
        · exact h
        · exact h3 h
  have names_eff : ∀ {x t t'}, find? ts0 x = some t → find? ts' x = some t' → ∀ n,
      ((n ∈ fnames t'.own ∨ n ∈ fnames t'.inh) ↔
        (n ∈ fnames t.own ∨ n ∈ fnames t.inh) ∨ (Anc ts0 dom x ∧ n = f.name)) := by
    intro x t t' hx hx' n
    rcases hT.cases hx hx' with ⟨h1, e⟩ | ⟨h1, h2, h3, e⟩ | ⟨h1, e, h3⟩
    · rw [e]
      simp only [fnames_append, List.mem_append]
      have hself : Anc ts0 dom x := by rw [h1]; exact Anc.refl dom hreg
      constructor
      · rintro ((h | h) | h)
        · exact Or.inl (Or.inl h)
        · exact Or.inr ⟨hself, by simpa [fnames] using h⟩
        · exact Or.inl (Or.inr h)
      · rintro ((h | h) | ⟨_, h⟩)
        · exact Or.inl (Or.inl h)
        · exact Or.inr h
        · exact Or.inl (Or.inr (by simp [fnames, h]))
    · rw [e]
      simp only [fnames_append, List.mem_append]
      constructor
      · rintro (h | h | h)
        · exact Or.inl (Or.inl h)
        · exact Or.inl (Or.inr h)
        · exact Or.inr ⟨h2, by simpa [fnames] using h⟩
      · rintro ((h | h) | ⟨_, h⟩)
        · exact Or.inl h
        · exact Or.inr (Or.inl h)
        · exact Or.inr (Or.inr (by simp [fnames, h]))
    · rw [e]
      constructor
      · intro h; exact Or.inl h
      · rintro (h | ⟨h, rfl⟩)
        · exact h
        · exact Or.inr (h3 h)
  -- being strictly below `dom` is being a child of something below-or-equal `dom`
  have below_iff : ∀ {x s t}, find? ts0 x = some t → t.super = some s →
      ((x ≠ dom ∧ Anc ts0 dom x) ↔ Anc ts0 dom s) := by
    intro x s t hx hs
    constructor
    · rintro ⟨hne, ha⟩
      rcases ha.inv hx with e | ⟨s', hs', h'⟩
      · exact absurd e.symm hne
      · rw [hs] at hs'; cases hs'; exact h'
    · intro ha
      refine ⟨?_, Anc.step dom x s t hx hs ha⟩
      intro e; subst e
      exact not_anc_of_super hc hx hs ha
  refine ⟨?_, ?_, ?_, ?_, ?_, ?_⟩
  · -- ownNodup
    intro t' ht'
    obtain ⟨t, hx, hx', _⟩ := hback t' ht'
    have hold := hf.ownNodup t (find?_mem hx)
    rcases hT.cases hx hx' with ⟨h1, e⟩ | ⟨_, _, _, e⟩ | ⟨_, e, _⟩
    · rw [e]
      rw [h1, htd] at hx; cases hx
      exact fnames_nodup_snoc hold hfo
    · rw [e]; exact hold
    · rw [e]; exact hold
  · -- inhNodup
    intro t' ht'
    obtain ⟨t, hx, hx', _⟩ := hback t' ht'
    have hold := hf.inhNodup t (find?_mem hx)
    rcases hT.cases hx hx' with ⟨_, e⟩ | ⟨_, _, h3, e⟩ | ⟨_, e, _⟩
    · rw [e]; exact hold
    · rw [e]; exact fnames_nodup_snoc hold h3
    · rw [e]; exact hold
  · -- compat
    intro t' ht' f' hf' g hg e
    obtain ⟨t, hx, hx', _⟩ := hback t' ht'
    rcases mem_own hx hx' f' hf' with hfo' | ⟨hxd, rfl⟩
    · rcases mem_inh hx hx' g hg with hgo | ⟨hxd, hax, _, rfl⟩
      · exact hf.compat t (find?_mem hx) f' hfo' g hgo e
      · exact noConf hax hxd hx hfo' e
    · rcases mem_inh hx hx' g hg with hgo | ⟨hxd', _, _, _⟩
      · exfalso
        rw [hxd, htd] at hx; cases hx
        exact hfi (e ▸ mem_fnames_of_mem hgo)
      · exact absurd hxd hxd'
  · -- inherit
    intro t' ht' s ps' hs hps' n
    obtain ⟨t, hx, hx', hsup⟩ := hback t' ht'
    obtain ⟨ps, hps⟩ := hback_s s ps' hps'
    have hs0 : t.super = some s := hsup.trans hs
    rw [mem_fnames_allFeatures, names_inh hx hx' n, names_eff hps hps' n,
      hf.inherit' (find?_mem hx) hs0 hps n]
    have hb := below_iff hx hs0
    constructor
    · rintro (h | ⟨h1, h2, h3⟩)
      · exact Or.inl h
      · exact Or.inr ⟨hb.mp ⟨h1, h2⟩, h3⟩
    · rintro (h | ⟨h1, h3⟩)
      · exact Or.inl h
      · exact Or.inr ⟨(hb.mpr h1).1, (hb.mpr h1).2, h3⟩
  · -- inheritEq
    intro t' ht' s ps' hs hps' g hg f' hf' e
    obtain ⟨t, hx, hx', hsup⟩ := hback t' ht'
    obtain ⟨ps, hps⟩ := hback_s s ps' hps'
    have hs0 : t.super = some s := hsup.trans hs
    have hb := below_iff hx hs0
    have hinh := hf.inherit' (find?_mem hx) hs0 hps
    have hieq := hf.inheritEq' (find?_mem hx) hs0 hps
    -- where `f'` comes from
    have hf'cases : f' ∈ ps.own ++ ps.inh ∨
        (f' = f ∧ Anc ts0 dom s ∧ (s = dom ∨ f.name ∉ fnames ps.inh)) := by
      rcases List.mem_append.mp (allFeatures_sub hf') with h | h
      · rcases mem_own hps hps' f' h with h | ⟨h1, h2⟩
        · exact Or.inl (List.mem_append_left _ h)
        · exact Or.inr ⟨h2, by rw [h1]; exact Anc.refl dom hreg, Or.inl h1⟩
      · rcases mem_inh hps hps' f' h with h | ⟨_, h2, h3, h4⟩
        · exact Or.inl (List.mem_append_right _ h)
        · exact Or.inr ⟨h4, h2, Or.inr h3⟩
    rcases mem_inh hx hx' g hg with hgo | ⟨hxd, hax, hnot, rfl⟩
    · rcases hf'cases with hold | ⟨rfl, has, hcase⟩
      · exact hieq g hgo f' hold e
      · have hgn : f'.name ∈ fnames t.inh := e ▸ mem_fnames_of_mem hgo
        have hown : f'.name ∈ fnames ps.own := by
          rcases (hinh _).mp hgn with h | h
          · exact h
          · rcases hcase with h1 | h1
            · rw [h1, htd] at hps; cases hps; exact absurd h hfi
            · exact absurd h h1
        have hsd : s ≠ dom := by
          intro h1; rw [h1, htd] at hps; cases hps; exact hfo hown
        obtain ⟨g0, hg0, hg0n⟩ := mem_fnames.mp hown
        have h1 : featureEq g0 f' = true := noConf has hsd hps hg0 hg0n
        have h2 : featureEq g0 g = true := hieq g hgo g0 (List.mem_append_left _ hg0) (hg0n.trans e)
        exact featureEq_trans (featureEq_symm h1) h2
    · rcases hf'cases with hold | ⟨rfl, _, _⟩
      · exfalso
        apply hnot
        rw [hinh, ← List.mem_append, ← fnames_append, ← e]
        exact mem_fnames_of_mem hold
      · exact featureEq_refl _
  · -- rootInh
    intro t' ht' hs
    obtain ⟨t, hx, hx', hsup⟩ := hback t' ht'
    have hs0 : t.super = none := hsup.trans hs
    have hold := hf.rootInh t (find?_mem hx) hs0
    rcases hT.cases hx hx' with ⟨_, e⟩ | ⟨h1, h2, _, _⟩ | ⟨_, e, _⟩
    · rw [e]; exact hold
    · exfalso
      rcases h2.inv hx with e | ⟨s', hs', _⟩
      · exact h1 e.symm
      · rw [hs0] at hs'; cases hs'
    · rw [e]; exact hold

theorem featInv_addFeature_aux (ts ts' : TypeSystem) (dom : String) (f : Feature)
    (hc : Consistent ts) (hf : FeatInv ts) (h : addFeature ts dom f = .ok ts') : FeatInv ts' := by
  obtain ⟨t, ht, ⟨_, rfl⟩ | ⟨hchk, hdc, hpush⟩⟩ := addFeature_cases h
  · exact hf
  · obtain ⟨h1, h2⟩ := addCheck_false_fresh hchk
    exact featInv_of_target hc hf ht h1 h2 hdc (addFeature_target hc hf ht hpush)

theorem featInv_createFeature_aux (ts ts' : TypeSystem) (dom name range : String)
    (elem descr : Option String) (multi : Option Bool) (hc : Consistent ts) (hf : FeatInv ts)
    (h : createFeature ts dom name range elem descr multi = .ok ts') : FeatInv ts' := by
  obtain ⟨d, f, h'⟩ := createFeature_ok ts ts' dom name range elem descr multi h
  exact featInv_addFeature_aux ts ts' d f hc hf h'

/-! ### Histories -/

theorem featInv_history_aux (K : Consts) (ops : List TsOp) :
    Consistent (ops.foldl (applyOp K) Gen.builtinTS) ∧ FeatInv (ops.foldl (applyOp K) Gen.builtinTS) := by
  have : ∀ ts, Consistent ts ∧ FeatInv ts →
      Consistent (ops.foldl (applyOp K) ts) ∧ FeatInv (ops.foldl (applyOp K) ts) := by
    induction ops with
    | nil => intro ts h; exact h
    | cons op ops ih =>
      intro ts h
      apply ih
      cases op with
      | createType n s d =>
        simp only [applyOp]
        cases hn : hasExact ts n with
        | true => simpa using h
        | false =>
          simp only [Bool.false_eq_true, if_false]
          cases hts : createType K ts n s d with
          | ok ts' =>
            exact ⟨consistent_createType_aux K ts ts' n s d h.1 hn hts,
              featInv_createType_aux K ts ts' n s d h.1 h.2 hn hts⟩
          | error e => exact h
      | createFeature dom n r e d m =>
        simp only [applyOp]
        cases hts : createFeature ts dom n r e d m with
        | ok ts' =>
          exact ⟨consistent_createFeature_aux ts ts' dom n r e d m h.1 hts,
            featInv_createFeature_aux ts ts' dom n r e d m h.1 h.2 hts⟩
        | error e => exact h
  exact this _ ⟨consistent_builtins_aux.1, featInv_builtins_aux.1⟩

/-! ### Visibility -/

theorem getFeature_isSome {t : TypeRec} {n : String}
    (h : n ∈ fnames t.own ∨ n ∈ fnames t.inh) : (getFeature t n).isSome = true := by
  unfold getFeature
  cases h1 : t.own.find? (·.name == n) with
  | some g => rfl
  | none =>
    simp only
    cases h2 : t.inh.find? (·.name == n) with
    | some g => rfl
    | none =>
      rcases h with h | h
      · exact absurd h (find_name_none.mp h1)
      · exact absurd h (find_name_none.mp h2)

theorem feature_visible_everywhere_aux (ts ts' : TypeSystem) (dom : String) (f : Feature)
    (hc : Consistent ts) (hf : FeatInv ts) (h : addFeature ts dom f = .ok ts')
    (d : String) (td : TypeRec) (hd : Anc ts' dom d) (htd : find? ts' d = some td) :
    f.name ∈ fnames (allFeatures td) ∧ f.name ∈ ctorFields td ∧ (getFeature td f.name).isSome = true := by
  have hf' : FeatInv ts' := featInv_addFeature_aux ts ts' dom f hc hf h
  obtain ⟨tdom', htdom'⟩ := (hasExact_iff_find ts' dom).mp hd.left_reg
  have hdom : f.name ∈ fnames (allFeatures tdom') := by
    rw [mem_fnames_allFeatures]
    obtain ⟨t, ht, ⟨hchk, rfl⟩ | ⟨hchk, hdc, hpush⟩⟩ := addFeature_cases h
    · rw [ht] at htdom'; cases htdom'
      obtain ⟨g, hg, hgn, _⟩ := addCheck_false_same hchk
      rw [← List.mem_append, ← fnames_append, ← hgn]
      exact mem_fnames_of_mem hg
    · obtain ⟨t', ht', h1, _, _⟩ := (addFeature_target hc hf ht hpush).recs dom t ht
      rw [htdom'] at ht'; cases ht'
      left
      rw [h1 rfl]
      simp [fnames]
  have hall := inherited_down_aux ts' hf' dom d tdom' td hd htdom' htd f.name hdom
  exact ⟨hall, hall, getFeature_isSome ((mem_fnames_allFeatures td f.name).mp hall)⟩

/-! ### Conflicts -/

theorem addFeature_conflict {ts : TypeSystem} {b : String} {tb : TypeRec} {f : Feature}
    (htb : find? ts b = some tb) (h : addCheck tb f false = .conflict) :
    addFeature ts b f = .error .valueError := by
  unfold addFeature
  simp only [htb, h]

theorem conflict_with_ancestor_aux (ts : TypeSystem) (hf : FeatInv ts) (a b : String) (ta tb : TypeRec)
    (hab : Anc ts a b) (hta : find? ts a = some ta) (htb : find? ts b = some tb)
    (g : Feature) (hg : g ∈ allFeatures ta) (f : Feature) (hn : f.name = g.name) (hne : featureEq g f = false) :
    addFeature ts b f = .error .valueError := by
  obtain ⟨g', hg', hgg, _⟩ := chain_down hf hab hta htb g (allFeatures_sub hg)
  have hne' : featureEq g' f = false := by
    cases h : featureEq g' f with
    | false => rfl
    | true => rw [featureEq_trans (featureEq_symm hgg) h] at hne; cases hne
  exact addFeature_conflict htb
    (addCheck_false_conflict hf (find?_mem htb) hg' ((featureEq_name hgg).trans hn.symm) hne')

theorem conflict_with_descendant_aux (ts : TypeSystem) (hc : Consistent ts) (hf : FeatInv ts) (a b : String)
    (ta tb : TypeRec) (hab : Anc ts a b) (hne' : a ≠ b) (hta : find? ts a = some ta) (htb : find? ts b = some tb)
    (g : Feature) (hg : g ∈ tb.own) (f : Feature) (hn : f.name = g.name) (hne : featureEq g f = false) :
    addFeature ts a f = .error .valueError := by
  cases hchk : addCheck ta f false with
  | conflict => exact addFeature_conflict hta hchk
  | same =>
    exfalso
    obtain ⟨g1, hg1, hg1n, hg1f⟩ := addCheck_false_same hchk
    obtain ⟨g', hg', hgg, _⟩ := chain_down hf hab hta htb g1 hg1
    have h1 : featureEq g g' = true :=
      hf.coherent (find?_mem htb) g (List.mem_append_left _ hg) g' hg'
        (hn.symm.trans (hg1n.symm.trans (featureEq_name hgg).symm))
    rw [featureEq_trans (featureEq_trans h1 hgg) hg1f] at hne; cases hne
  | fresh =>
    have hreg : hasExact ts a = true := (hasExact_iff_find ts a).mpr ⟨ta, hta⟩
    have hdc : descendantConflict ts a f = true := by
      unfold descendantConflict
      rw [List.any_eq_true]
      refine ⟨b, (descendants_eq_closure_aux ts hc a b hreg).mpr hab, ?_⟩
      have hfind : tb.own.find? (·.name == f.name) = some g := by
        rw [hn]; exact find_name_of_mem (hf.ownNodup tb (find?_mem htb)) hg
      have hba : (b != a) = true := by simpa using fun e => hne' e.symm
      simp only [htb, hfind, hne, hba, Bool.not_false, Bool.and_self]
    unfold addFeature
    simp only [hta, hchk, hdc, if_true]

end Cassis.TS

namespace Cassis
open Cassis.TS

/-! ### `construct` -/

theorem alistGet?_map_isSome {β} (v : String → β) (l : List String) (n : String) :
    (alistGet? (l.map (fun m => (m, v m))) n).isSome = true ↔ n ∈ l := by
  induction l with
  | nil => simp [alistGet?]
  | cons a l ih =>
    simp only [List.map_cons, alistGet?, List.mem_cons]
    by_cases h : a = n
    · simp [h]
    · simp only [h, if_false, ih]
      constructor
      · intro h'; exact Or.inr h'
      · rintro (h' | h')
        · exact absurd h'.symm h
        · exact h'

end Cassis

namespace Cassis.TS

theorem construct_ok_iff_aux (t : TypeRec) (ti : Nat) (xid : Option Int) (kw : List (String × Val)) :
    (∃ o, construct t ti xid kw = .ok o) ↔ ∀ p ∈ kw, p.1 ∈ fnames (allFeatures t) := by
  unfold construct
  simp only
  constructor
  · rintro ⟨o, ho⟩ p hp
    split at ho
    · cases ho
    · rename_i hany
      have := List.any_eq_false.mp (Bool.eq_false_iff.mpr hany) p hp
      have hm : p.1 ∈ (ctorFields t).eraseDups := by simpa using this
      exact List.mem_eraseDups.mp hm
  · intro h
    have hany : (kw.any fun p => !((ctorFields t).eraseDups.contains p.1)) = false := by
      rw [List.any_eq_false]
      intro p hp
      have : p.1 ∈ (ctorFields t).eraseDups := List.mem_eraseDups.mpr (h p hp)
      simpa using this
    rw [hany]
    exact ⟨_, rfl⟩

theorem construct_slots_aux (t : TypeRec) (ti : Nat) (xid : Option Int) (kw : List (String × Val)) (o : Obj)
    (h : construct t ti xid kw = .ok o) (n : String) :
    (alistGet? o.slots n).isSome = true ↔ n ∈ fnames (allFeatures t) := by
  unfold construct at h
  simp only at h
  split at h
  · cases h
  · cases h
    simp only
    rw [alistGet?_map_isSome (fun m => (alistGet? kw m).getD Val.none)]
    exact List.mem_eraseDups

end Cassis.TS
