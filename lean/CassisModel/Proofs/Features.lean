/-
Helper lemmas for `Properties/C11.lean`: the feature bookkeeping invariant `FeatInv` holds for the
built-in tables, is preserved by `createType` / `addFeature` / `createFeature`, and its consequences.
-/
import CassisModel.Proofs.TypeSystem
import CassisModel.Spec.Features
import CassisModel.Model.Heap

namespace Cassis.TS

/-! ### `featureEq` is an equivalence -/

theorem featureEq_iff (f g : Feature) : featureEq f g = true ↔
    f.name = g.name ∧ f.descr = g.descr ∧ f.range = g.range ∧ f.elem.getD TOP = g.elem.getD TOP := by
  unfold featureEq
  simp only [Bool.and_eq_true, beq_iff_eq, and_assoc]

theorem featureEq_refl (f : Feature) : featureEq f f = true := by
  rw [featureEq_iff]; exact ⟨rfl, rfl, rfl, rfl⟩

theorem featureEq_symm {f g : Feature} (h : featureEq f g = true) : featureEq g f = true := by
  rw [featureEq_iff] at h ⊢
  exact ⟨h.1.symm, h.2.1.symm, h.2.2.1.symm, h.2.2.2.symm⟩

theorem featureEq_trans {f g k : Feature} (h1 : featureEq f g = true) (h2 : featureEq g k = true) :
    featureEq f k = true := by
  rw [featureEq_iff] at h1 h2 ⊢
  exact ⟨h1.1.trans h2.1, h1.2.1.trans h2.2.1, h1.2.2.1.trans h2.2.2.1, h1.2.2.2.trans h2.2.2.2⟩

theorem featureEq_name {f g : Feature} (h : featureEq f g = true) : f.name = g.name :=
  ((featureEq_iff f g).mp h).1

/-! ### name lists -/

theorem mem_fnames {l : List Feature} {n : String} : n ∈ fnames l ↔ ∃ f ∈ l, f.name = n := by
  unfold fnames; exact List.mem_map

theorem mem_fnames_of_mem {l : List Feature} {f : Feature} (h : f ∈ l) : f.name ∈ fnames l :=
  mem_fnames.mpr ⟨f, h, rfl⟩

theorem fnames_append (l1 l2 : List Feature) : fnames (l1 ++ l2) = fnames l1 ++ fnames l2 := by
  unfold fnames; exact List.map_append

theorem feat_inj_of_nodup : ∀ (l : List Feature), (fnames l).Nodup →
    ∀ x ∈ l, ∀ y ∈ l, x.name = y.name → x = y := by
  intro l
  induction l with
  | nil => intro _ x hx; cases hx
  | cons a l ih =>
    intro hn x hx y hy hxy
    simp only [fnames, List.map_cons, List.nodup_cons, List.mem_map, not_exists, not_and] at hn
    rcases List.mem_cons.mp hx with rfl | hx' <;> rcases List.mem_cons.mp hy with rfl | hy'
    · rfl
    · exact absurd hxy.symm (hn.1 y hy')
    · exact absurd hxy (hn.1 x hx')
    · exact ih hn.2 x hx' y hy' hxy

theorem fnames_nodup_snoc {l : List Feature} {f : Feature} (h : (fnames l).Nodup)
    (hf : f.name ∉ fnames l) : (fnames (l ++ [f])).Nodup := by
  rw [fnames_append]
  refine List.nodup_append.mpr ⟨h, by simp [fnames], ?_⟩
  intro a ha b hb e
  simp only [fnames, List.map_cons, List.map_nil, List.mem_singleton] at hb
  subst hb; subst e; exact hf ha

/-- lookup by name -/
theorem find_name_none {l : List Feature} {n : String} :
    l.find? (·.name == n) = none ↔ n ∉ fnames l := by
  rw [List.find?_eq_none, mem_fnames]
  constructor
  · rintro h ⟨f, hf, e⟩; exact h f hf (by simpa using e)
  · intro h f hf e; exact h ⟨f, hf, by simpa using e⟩

theorem find_name_some {l : List Feature} {n : String} {g : Feature}
    (h : l.find? (·.name == n) = some g) : g ∈ l ∧ g.name = n :=
  ⟨List.mem_of_find?_eq_some h, by simpa using List.find?_some h⟩

theorem find_name_of_mem {l : List Feature} (hn : (fnames l).Nodup) {g : Feature} (hg : g ∈ l) :
    l.find? (·.name == g.name) = some g := by
  cases h : l.find? (·.name == g.name) with
  | none => exact absurd (mem_fnames_of_mem hg) (find_name_none.mp h)
  | some g' =>
    obtain ⟨h1, h2⟩ := find_name_some h
    rw [feat_inj_of_nodup l hn g' h1 g hg h2]

/-! ### `dedupFeatures` / `allFeatures` -/

theorem dedup_sub : ∀ (l seen : List Feature) (x : Feature), x ∈ dedupFeatures l seen → x ∈ l := by
  intro l
  induction l with
  | nil => intro seen x h; simp [dedupFeatures] at h
  | cons f fs ih =>
    intro seen x h
    unfold dedupFeatures at h
    split at h
    · exact List.mem_cons_of_mem _ (ih _ x h)
    · rcases List.mem_cons.mp h with rfl | h'
      · exact List.mem_cons_self
      · exact List.mem_cons_of_mem _ (ih _ x h')

theorem dedup_cover : ∀ (l seen : List Feature) (x : Feature), x ∈ l →
    (∃ y ∈ seen, featureEq y x = true) ∨ (∃ y ∈ dedupFeatures l seen, featureEq y x = true) := by
  intro l
  induction l with
  | nil => intro seen x h; cases h
  | cons f fs ih =>
    intro seen x hx
    unfold dedupFeatures
    rcases List.mem_cons.mp hx with rfl | hx'
    · split
      · rename_i hany
        rw [List.any_eq_true] at hany
        exact Or.inl hany
      · exact Or.inr ⟨x, List.mem_cons_self, featureEq_refl x⟩
    · split
      · exact ih seen x hx'
      · rcases ih (seen ++ [f]) x hx' with ⟨y, hy, hyx⟩ | ⟨y, hy, hyx⟩
        · rcases List.mem_append.mp hy with hy' | hy'
          · exact Or.inl ⟨y, hy', hyx⟩
          · simp only [List.mem_singleton] at hy'; subst hy'
            exact Or.inr ⟨y, List.mem_cons_self, hyx⟩
        · exact Or.inr ⟨y, List.mem_cons_of_mem _ hy, hyx⟩

theorem dedup_not_seen : ∀ (l seen : List Feature) (x : Feature), x ∈ dedupFeatures l seen →
    ∀ y ∈ seen, featureEq y x = false := by
  intro l
  induction l with
  | nil => intro seen x h; simp [dedupFeatures] at h
  | cons f fs ih =>
    intro seen x h y hy
    unfold dedupFeatures at h
    split at h
    · exact ih seen x h y hy
    · rename_i hany
      rcases List.mem_cons.mp h with rfl | h'
      · cases hyx : featureEq y x with
        | false => rfl
        | true => exact absurd (List.any_eq_true.mpr ⟨y, hy, hyx⟩) hany
      · exact ih (seen ++ [f]) x h' y (List.mem_append_left _ hy)

theorem dedup_nodup : ∀ (l seen : List Feature),
    (∀ x ∈ l, ∀ y ∈ l, x.name = y.name → featureEq x y = true) →
    (fnames (dedupFeatures l seen)).Nodup := by
  intro l
  induction l with
  | nil => intro seen _; simp [dedupFeatures, fnames]
  | cons f fs ih =>
    intro seen hco
    have hco' : ∀ x ∈ fs, ∀ y ∈ fs, x.name = y.name → featureEq x y = true :=
      fun x hx y hy => hco x (List.mem_cons_of_mem _ hx) y (List.mem_cons_of_mem _ hy)
    unfold dedupFeatures
    split
    · exact ih seen hco'
    · show (fnames (f :: dedupFeatures fs (seen ++ [f]))).Nodup
      simp only [fnames, List.map_cons, List.nodup_cons]
      refine ⟨?_, ih _ hco'⟩
      intro hmem
      obtain ⟨x, hx, hxn⟩ := List.mem_map.mp hmem
      have h1 : featureEq f x = true :=
        hco f List.mem_cons_self x (List.mem_cons_of_mem _ (dedup_sub _ _ x hx)) hxn.symm
      have h2 := dedup_not_seen fs (seen ++ [f]) x hx f (by simp)
      rw [h1] at h2; cases h2

theorem allFeatures_sub {t : TypeRec} {x : Feature} (h : x ∈ allFeatures t) : x ∈ t.own ++ t.inh :=
  dedup_sub _ _ x h

theorem allFeatures_cover {t : TypeRec} {x : Feature} (h : x ∈ t.own ++ t.inh) :
    ∃ y ∈ allFeatures t, featureEq y x = true := by
  rcases dedup_cover (t.own ++ t.inh) [] x h with ⟨y, hy, _⟩ | h'
  · cases hy
  · exact h'

/-- the effective names are the own and the inherited names -/
theorem mem_fnames_allFeatures (t : TypeRec) (n : String) :
    n ∈ fnames (allFeatures t) ↔ n ∈ fnames t.own ∨ n ∈ fnames t.inh := by
  rw [← List.mem_append, ← fnames_append]
  constructor
  · intro h
    obtain ⟨x, hx, e⟩ := mem_fnames.mp h
    exact mem_fnames.mpr ⟨x, allFeatures_sub hx, e⟩
  · intro h
    obtain ⟨x, hx, e⟩ := mem_fnames.mp h
    obtain ⟨y, hy, hyx⟩ := allFeatures_cover hx
    exact mem_fnames.mpr ⟨y, hy, (featureEq_name hyx).trans e⟩

/-! ### First consequences of `FeatInv` -/

/-- same-named features among own ++ inh are identical definitions -/
theorem FeatInv.coherent {ts : TypeSystem} (hf : FeatInv ts) {t : TypeRec} (ht : t ∈ ts.types) :
    ∀ x ∈ t.own ++ t.inh, ∀ y ∈ t.own ++ t.inh, x.name = y.name → featureEq x y = true := by
  intro x hx y hy e
  rcases List.mem_append.mp hx with hx | hx <;> rcases List.mem_append.mp hy with hy | hy
  · rw [feat_inj_of_nodup _ (hf.ownNodup t ht) x hx y hy e]; exact featureEq_refl y
  · exact hf.compat t ht x hx y hy e
  · exact featureEq_symm (hf.compat t ht y hy x hx e.symm)
  · rw [feat_inj_of_nodup _ (hf.inhNodup t ht) x hx y hy e]; exact featureEq_refl y

theorem effective_names_nodup_aux (ts : TypeSystem) (hf : FeatInv ts) (t : TypeRec) (ht : t ∈ ts.types) :
    (fnames (allFeatures t)).Nodup :=
  dedup_nodup _ _ (hf.coherent ht)

/-- `inheritEq` against own ++ inh of the supertype instead of its deduplicated list -/
theorem FeatInv.inheritEq' {ts : TypeSystem} (hf : FeatInv ts) {t ps : TypeRec} {s : String}
    (ht : t ∈ ts.types) (hs : t.super = some s) (hps : find? ts s = some ps) :
    ∀ g ∈ t.inh, ∀ f ∈ ps.own ++ ps.inh, f.name = g.name → featureEq f g = true := by
  intro g hg f hfm e
  obtain ⟨y, hy, hyf⟩ := allFeatures_cover hfm
  have := hf.inheritEq t ht s ps hs hps g hg y hy ((featureEq_name hyf).trans e)
  exact featureEq_trans (featureEq_symm hyf) this

theorem FeatInv.inherit' {ts : TypeSystem} (hf : FeatInv ts) {t ps : TypeRec} {s : String}
    (ht : t ∈ ts.types) (hs : t.super = some s) (hps : find? ts s = some ps) (n : String) :
    n ∈ fnames t.inh ↔ n ∈ fnames ps.own ∨ n ∈ fnames ps.inh := by
  rw [hf.inherit t ht s ps hs hps n, mem_fnames_allFeatures]

theorem effective_names_aux (ts : TypeSystem) (hf : FeatInv ts) (t ps : TypeRec) (s : String)
    (ht : t ∈ ts.types) (hs : t.super = some s) (hps : find? ts s = some ps) (n : String) :
    n ∈ fnames (allFeatures t) ↔ n ∈ fnames t.own ∨ n ∈ fnames (allFeatures ps) := by
  rw [mem_fnames_allFeatures, hf.inherit t ht s ps hs hps n]

/-- along an ancestor chain a definition is handed down (up to `featureEq`) -/
theorem chain_down {ts : TypeSystem} (hf : FeatInv ts) {a b : String} (hab : Anc ts a b) :
    ∀ {ta tb : TypeRec}, find? ts a = some ta → find? ts b = some tb →
    ∀ g ∈ ta.own ++ ta.inh, ∃ g' ∈ tb.own ++ tb.inh, featureEq g' g = true ∧ (a ≠ b → g' ∈ tb.inh) := by
  induction hab with
  | refl _ =>
    intro ta tb hta htb g hg
    rw [hta] at htb; cases htb
    exact ⟨g, hg, featureEq_refl g, fun h => absurd rfl h⟩
  | step b s tb' hfb hs hab' ih =>
    intro ta tb hta htb g hg
    have etb : tb = tb' := by rw [hfb] at htb; exact (Option.some.inj htb).symm
    rw [etb]
    obtain ⟨ps, hps⟩ := (hasExact_iff_find ts s).mp hab'.right_reg
    obtain ⟨g1, hg1, hg1g, _⟩ := ih hta hps g hg
    have hn : g1.name ∈ fnames tb'.inh := by
      rw [hf.inherit' (find?_mem hfb) hs hps]
      rw [← List.mem_append, ← fnames_append]
      exact mem_fnames_of_mem hg1
    obtain ⟨g2, hg2, e⟩ := mem_fnames.mp hn
    have h12 : featureEq g1 g2 = true :=
      hf.inheritEq' (find?_mem hfb) hs hps g2 hg2 g1 hg1 e.symm
    exact ⟨g2, List.mem_append_right _ hg2, featureEq_trans (featureEq_symm h12) hg1g, fun _ => hg2⟩

theorem inherited_down_aux (ts : TypeSystem) (hf : FeatInv ts) (a b : String) (ta tb : TypeRec)
    (hab : Anc ts a b) (hta : find? ts a = some ta) (htb : find? ts b = some tb) (n : String)
    (hn : n ∈ fnames (allFeatures ta)) : n ∈ fnames (allFeatures tb) := by
  rw [mem_fnames_allFeatures, ← List.mem_append, ← fnames_append] at hn ⊢
  obtain ⟨g, hg, e⟩ := mem_fnames.mp hn
  obtain ⟨g', hg', hgg, _⟩ := chain_down hf hab hta htb g hg
  exact mem_fnames.mpr ⟨g', hg', (featureEq_name hgg).trans e⟩

/-! ### A Boolean checker for `FeatInv` on concrete tables -/

def featInvB (ts : TypeSystem) : Bool :=
  ts.types.all fun t =>
    nodupB (fnames t.own) && nodupB (fnames t.inh) &&
    (t.own.all fun f => t.inh.all fun g => !(f.name == g.name) || featureEq f g) &&
    (match t.super with
     | none => t.inh.isEmpty
     | some s => match find? ts s with
       | none => true
       | some ps =>
         (t.inh.all fun g => (fnames (allFeatures ps)).contains g.name) &&
         ((allFeatures ps).all fun f => (fnames t.inh).contains f.name) &&
         (t.inh.all fun g => (allFeatures ps).all fun f => !(f.name == g.name) || featureEq f g))

theorem featInvB_sound (ts : TypeSystem) (h : featInvB ts = true) : FeatInv ts := by
  unfold featInvB at h
  rw [List.all_eq_true] at h
  have h' : ∀ t ∈ ts.types,
      nodupB (fnames t.own) = true ∧ nodupB (fnames t.inh) = true ∧
      (∀ f ∈ t.own, ∀ g ∈ t.inh, f.name = g.name → featureEq f g = true) ∧
      (match t.super with
       | none => t.inh.isEmpty
       | some s => match find? ts s with
         | none => true
         | some ps =>
           (t.inh.all fun g => (fnames (allFeatures ps)).contains g.name) &&
           ((allFeatures ps).all fun f => (fnames t.inh).contains f.name) &&
           (t.inh.all fun g => (allFeatures ps).all fun f => !(f.name == g.name) || featureEq f g)) = true := by
    intro t ht
    have := h t ht
    simp only [Bool.and_eq_true] at this
    obtain ⟨⟨⟨h1, h2⟩, h3⟩, h4⟩ := this
    refine ⟨h1, h2, ?_, h4⟩
    intro f hf g hg e
    rw [List.all_eq_true] at h3
    have := h3 f hf
    rw [List.all_eq_true] at this
    have := this g hg
    simpa [e] using this
  refine ⟨fun t ht => nodupB_sound _ (h' t ht).1, fun t ht => nodupB_sound _ (h' t ht).2.1,
    fun t ht => (h' t ht).2.2.1, ?_, ?_, ?_⟩
  · intro t ht s ps hs hps n
    have := (h' t ht).2.2.2
    rw [hs] at this; simp only [hps, Bool.and_eq_true] at this
    obtain ⟨⟨h1, h2⟩, _⟩ := this
    rw [List.all_eq_true] at h1 h2
    constructor
    · intro hn
      obtain ⟨g, hg, e⟩ := mem_fnames.mp hn
      have := h1 g hg
      rw [e] at this; simpa using this
    · intro hn
      obtain ⟨f, hf, e⟩ := mem_fnames.mp hn
      have := h2 f hf
      rw [e] at this; simpa using this
  · intro t ht s ps hs hps g hg f hf e
    have := (h' t ht).2.2.2
    rw [hs] at this; simp only [hps, Bool.and_eq_true] at this
    obtain ⟨_, h3⟩ := this
    rw [List.all_eq_true] at h3
    have := h3 g hg
    rw [List.all_eq_true] at this
    have := this f hf
    simpa [e] using this
  · intro t ht hs
    have := (h' t ht).2.2.2
    rw [hs] at this
    simpa using this

theorem featInv_builtins_aux : FeatInv Gen.builtinTS ∧ FeatInv Gen.builtinTSNoDoc :=
  ⟨featInvB_sound _ (by decide +kernel), featInvB_sound _ (by decide +kernel)⟩

/-! ### `addCheck` -/

theorem addCheck_true_fresh {t : TypeRec} {f : Feature} (h : addCheck t f true = .fresh) :
    f.name ∉ fnames t.inh := by
  unfold addCheck at h
  simp only [if_true] at h
  split at h
  · split at h <;> cases h
  · rename_i hnone; exact find_name_none.mp hnone

theorem addCheck_true_of_not_mem {t : TypeRec} {f : Feature} (h : f.name ∉ fnames t.inh) :
    addCheck t f true = .fresh := by
  unfold addCheck
  simp only [if_true, find_name_none.mpr h]

theorem addCheck_true_same {t : TypeRec} {f : Feature} (h : addCheck t f true = .same) :
    ∃ g ∈ t.inh, g.name = f.name ∧ featureEq g f = true := by
  unfold addCheck at h
  simp only [if_true] at h
  split at h
  · rename_i g hg
    split at h
    · rename_i he; exact ⟨g, (find_name_some hg).1, (find_name_some hg).2, he⟩
    · cases h
  · simp at h

theorem addCheck_false_fresh {t : TypeRec} {f : Feature} (h : addCheck t f false = .fresh) :
    f.name ∉ fnames t.own ∧ f.name ∉ fnames t.inh := by
  unfold addCheck at h
  simp only [Bool.false_eq_true, if_false] at h
  split at h
  · split at h <;> cases h
  · rename_i hnone
    split at h
    · split at h <;> cases h
    · rename_i hnone2
      exact ⟨find_name_none.mp hnone, find_name_none.mp hnone2⟩

theorem addCheck_false_same {t : TypeRec} {f : Feature} (h : addCheck t f false = .same) :
    ∃ g ∈ t.own ++ t.inh, g.name = f.name ∧ featureEq g f = true := by
  unfold addCheck at h
  simp only [Bool.false_eq_true, if_false] at h
  split at h
  · rename_i g hg
    split at h
    · rename_i he
      exact ⟨g, List.mem_append_left _ (find_name_some hg).1, (find_name_some hg).2, he⟩
    · cases h
  · split at h
    · rename_i g hg
      split at h
      · rename_i he
        exact ⟨g, List.mem_append_right _ (find_name_some hg).1, (find_name_some hg).2, he⟩
      · cases h
    · cases h

/-- a same-named, differently defined feature among own ++ inh makes the check fail -/
theorem addCheck_false_conflict {ts : TypeSystem} (hf : FeatInv ts) {t : TypeRec} (ht : t ∈ ts.types)
    {f g : Feature} (hg : g ∈ t.own ++ t.inh) (hn : g.name = f.name) (hne : featureEq g f = false) :
    addCheck t f false = .conflict := by
  have key : ∀ g1 ∈ t.own ++ t.inh, g1.name = f.name → featureEq g1 f = false := by
    intro g1 hg1 e
    cases h : featureEq g1 f with
    | false => rfl
    | true =>
      have := hf.coherent ht g hg g1 hg1 (hn.trans e.symm)
      rw [featureEq_trans this h] at hne; cases hne
  unfold addCheck
  simp only [Bool.false_eq_true, if_false]
  cases h1 : t.own.find? (·.name == f.name) with
  | some g1 =>
    simp only [key g1 (List.mem_append_left _ (find_name_some h1).1) (find_name_some h1).2,
      Bool.false_eq_true, if_false]
  | none =>
    simp only
    cases h2 : t.inh.find? (·.name == f.name) with
    | some g2 =>
      simp only [key g2 (List.mem_append_right _ (find_name_some h2).1) (find_name_some h2).2,
        Bool.false_eq_true, if_false]
    | none =>
      exfalso
      rcases List.mem_append.mp hg with h | h
      · exact find_name_none.mp h1 (hn ▸ mem_fnames_of_mem h)
      · exact find_name_none.mp h2 (hn ▸ mem_fnames_of_mem h)

/-! ### `inheritAll` -/

theorem inheritAll_spec : ∀ (fs : List Feature) (t t' : TypeRec), (fnames fs).Nodup →
    (∀ n ∈ fnames fs, n ∉ fnames t.inh) → inheritAll fs t = .ok t' →
    t' = { t with inh := t.inh ++ fs } := by
  intro fs
  induction fs with
  | nil => intro t t' _ _ h; unfold inheritAll at h; cases h; simp
  | cons f fs ih =>
    intro t t' hn hd h
    have hfresh : addCheck t f true = .fresh :=
      addCheck_true_of_not_mem (hd f.name (by simp [fnames]))
    unfold inheritAll at h
    rw [hfresh] at h
    simp only at h
    simp only [fnames, List.map_cons, List.nodup_cons] at hn
    have := ih { t with inh := t.inh ++ [f] } t' hn.2 (by
      intro n hnm
      simp only [fnames_append, List.mem_append, not_or]
      refine ⟨hd n (by simp only [fnames, List.map_cons]; exact List.mem_cons_of_mem _ hnm), ?_⟩
      simp only [fnames, List.map_cons, List.map_nil, List.mem_singleton]
      intro e; subst e; exact hn.1 hnm) h
    rw [this]; simp

end Cassis.TS
