/-
JSON round trip, layer 2 (continued): the object `parseFs` builds for a flat structure.
-/
import CassisModel.Proofs.RoundTripJsonParse

namespace Cassis.Json
open Cassis.TS Cassis.Traverse Cassis.Lex Cassis.Xmi Cassis.Xmi.RTB

/-- the value of the feature `f` of `o` -/
def valF (o : Obj) (f : Feature) : Val := (alistGet? o.slots f.name).getD .none

/-- the value `construct` puts into the slot -/
def baseJ (cass : List Cas) (isAnn : Bool) (o : Obj) (n : String) (v : Val) : Val :=
  match v with
  | .int i => .int (extInt cass isAnn o n i)
  | .str s => .str s
  | .bool b => .bool b
  | .float t => .float t
  | _ => .none

section
variable (cass : List Cas) (H : Heap) (isAnn : Bool) (o : Obj)

def kwA (f : Feature) : List (String × Val) := pA cass isAnn o f.name (valF o f)
def kwB (o : Obj) (f : Feature) : List (String × Val) := pB f.name (valF o f)
def tgtF (f : Feature) : Option Int := refTarget cass H (valF o f)

theorem kwA_keys (f : Feature) : ∀ p ∈ kwA cass isAnn o f, p.1 = f.name := by
  intro p hp
  unfold kwA pA at hp
  cases hv : valF o f <;> rw [hv] at hp <;> dsimp only at hp <;>
    first
    | (cases hp; done)
    | (rw [List.mem_singleton] at hp; rw [hp])
    | skip
  rename_i t
  split at hp
  · cases hp
  · rw [List.mem_singleton] at hp; rw [hp]

theorem kwB_keys (f : Feature) : ∀ p ∈ kwB o f, p.1 = f.name := by
  intro p hp
  unfold kwB pB at hp
  cases hv : valF o f <;> rw [hv] at hp <;> dsimp only at hp <;>
    first
    | (cases hp; done)
    | skip
  rename_i t
  split at hp
  · rw [List.mem_singleton] at hp; rw [hp]
  · cases hp

/-- the three parts of the members of a written structure -/
theorem feats_parts (F : List Feature) (hn : ∀ f ∈ F, NameOk f.name) :
    ((F.flatMap (jmemFS cass H isAnn o)).filter plainP).map kw = F.flatMap (kwA cass isAnn o) ∧
    (F.flatMap (jmemFS cass H isAnn o)).filter refP = F.flatMap (refMem (tgtF cass H o)) ∧
    parseNums ((F.flatMap (jmemFS cass H isAnn o)).filter numP) = .ok (F.flatMap (kwB o)) := by
  refine ⟨?_, ?_, ?_⟩
  · rw [List.filter_flatMap, List.map_flatMap]
    exact flatMap_congr' F (fun f hf => plain_piece cass H isAnn o _ (hn f hf))
  · rw [List.filter_flatMap]
    exact flatMap_congr' F (fun f hf => ref_piece cass H isAnn o _ (hn f hf))
  · rw [List.filter_flatMap]
    exact parseNums_flatMap _ _ F (fun f hf => num_piece cass H isAnn o _ (hn f hf))

/-- the keyword argument of the feature `f` -/
theorem kwargs_get (F : List Feature) (hnd : (F.map (·.name)).Nodup) (f : Feature) (hf : f ∈ F) :
    (alistGet? (F.flatMap (kwA cass isAnn o) ++ F.flatMap (kwB o)) f.name).getD .none =
      baseJ cass isAnn o f.name (valF o f) := by
  rw [aget_append, aget_flatMap_piece _ (kwA_keys cass isAnn o) F hnd f hf,
    aget_flatMap_piece _ (kwB_keys o) F hnd f hf]
  unfold kwA kwB pA pB baseJ
  cases hv : valF o f <;> dsimp only <;> try (simp [alistGet?]; done)
  rename_i t
  cases isSpecialFloat t <;> simp [alistGet?]

end

/-- the object the constructor builds from keyword arguments that are all fields -/
def consObj (t : TypeRec) (tsIdx : Nat) (x : Int) (kwargs : List (String × Val)) : Obj :=
  { ty := t.name, ts := tsIdx, xid := some x,
    slots := (ctorFields t).eraseDups.map (fun n => (n, (alistGet? kwargs n).getD .none)) }

theorem construct_flat (t : TypeRec) (tsIdx : Nat) (x : Int) (kwargs : List (String × Val))
    (hk : ∀ p ∈ kwargs, p.1 ∈ (ctorFields t).eraseDups) :
    construct t tsIdx (some x) kwargs = .ok (consObj t tsIdx x kwargs) := by
  unfold construct consObj
  have : (kwargs.any fun p => !((ctorFields t).eraseDups.contains p.1)) = false := by
    rw [List.any_eq_false]
    intro p hp
    simp [hk p hp]
  simp only [this, Bool.false_eq_true, if_false]

theorem consObj_keys (t : TypeRec) (tsIdx : Nat) (x : Int) (kwargs : List (String × Val)) :
    (consObj t tsIdx x kwargs).slots.map (·.1) = (ctorFields t).eraseDups := by
  unfold consObj
  dsimp only
  rw [List.map_map]
  exact List.map_id _

theorem consObj_get (t : TypeRec) (tsIdx : Nat) (x : Int) (kwargs : List (String × Val)) (n : String)
    (hn : n ∈ (ctorFields t).eraseDups) :
    alistGet? (consObj t tsIdx x kwargs).slots n = some ((alistGet? kwargs n).getD .none) := by
  unfold consObj
  dsimp only
  exact alistGet?_map_self _ _ _ hn

/-! ### the result for one structure -/

/-- the slot `n` (old value `v`) waits for a deferred reference -/
def Pend (H : Heap) (addr : Nat) (ds : List Deferred) (n : String) (v : Val) : Prop :=
  ∃ b y, v = .ref b ∧ xidOf H b = some y ∧
    ({ addr := addr, slot := n, target := some y, elems := none } : Deferred) ∈ ds

/-- the new object `o'` at `addr` stands for `o`: every slot holds its final value or waits for a deferred reference -/
def ObjPend (H : Heap) (na : Int → Nat) (ci' : Nat) (addr : Nat) (ds : List Deferred) (o o' : Obj) (x : Int) : Prop :=
  o'.ty = o.ty ∧ o'.xid = some x ∧ o'.slots.map (·.1) = o.slots.map (·.1) ∧
  ∀ n v, alistGet? o.slots n = some v → alistGet? o'.slots n = some (exp3 H na ci' v) ∨ Pend H addr ds n v

/-- a deferred reference of the object at `addr` that stands for `o` -/
def DefOk (H : Heap) (addr : Nat) (o : Obj) (d : Deferred) : Prop :=
  ∃ n b y, d = { addr := addr, slot := n, target := some y, elems := none } ∧
    alistGet? o.slots n = some (.ref b) ∧ xidOf H b = some y

theorem aget_mem {β} : ∀ (l : List (String × β)) (k : String) (v : β), alistGet? l k = some v → (k, v) ∈ l
  | [], _, _, h => by cases h
  | (k', v') :: l, k, v, h => by
    unfold alistGet? at h
    by_cases hk : k' = k
    · rw [if_pos hk] at h; cases h; rw [hk]; exact List.mem_cons_self
    · rw [if_neg hk] at h; exact List.mem_cons_of_mem _ (aget_mem l k v h)

theorem bare_get : ∀ (vs : List (String × View)) (n : String),
    alistGet? (bareViews vs) n = (alistGet? vs n).map (fun v => ({ sofa := v.sofa, idx := [] } : View))
  | [], _ => rfl
  | (k, v) :: vs, n => by
    unfold bareViews
    rw [List.map_cons]
    unfold alistGet?
    dsimp only
    by_cases hk : k = n
    · rw [if_pos hk, if_pos hk]; rfl
    · rw [if_neg hk, if_neg hk]; exact bare_get vs n

/-- what `parseFs` needs to know about the state of the reader and the written CAS -/
structure PCtx (cass : List Cas) (c : Cas) (ci : Nat) (H : Heap) (L : List (Int × Nat)) (na : Int → Nat) (ci' : Nat)
    (fss : List (Int × Val)) (cas' : Cas) : Prop where
  hc : cass[ci]? = some c
  closed : ClosedL H L
  fss_sofa : ∀ nv ∈ c.views, lookup fss nv.2.sofa.xid = some (.sofa ci' nv.1)
  fss_ref : ∀ q ∈ L, ∀ tv, lookup fss q.1 = some tv → tv = .ref (na q.1)
  views : cas'.views = bareViews c.views
  conv : ∀ nv ∈ c.views, ∀ t, nv.2.sofa.text = some t → nv.2.sofa.conv = some (Offsets.table t)

theorem cvI_table (t : List Nat) (i : Nat) (hi : i ≤ t.length) :
    cvI (some (Offsets.table t)) ((Offsets.pythonToExternal (some (Offsets.table t)) i : Nat) : Int) = i := by
  unfold cvI
  rw [cv_nat]
  have := Offsets.e2p_p2e_aux t i hi
  exact congrArg Int.ofNat this

theorem resolved_slot {K : Consts} {ts : TypeSystem} {cass : List Cas} {c : Cas} {ci : Nat} {H : Heap}
    {L : List (Int × Nat)} {na : Int → Nat} {ci' : Nat} {fss : List (Int × Val)} {cas' : Cas}
    (ctx : PCtx cass c ci H L na ci' fss cas') (q : Int × Nat) (hq : q ∈ L) (o : Obj) (ho : H[q.2]? = some o)
    (isAnn : Bool) (F : List Feature) (hnd : (F.map (·.name)).Nodup) (addr : Nat) (oc : Obj)
    (hoc : ∀ f ∈ F, alistGet? oc.slots f.name = some (baseJ cass isAnn o f.name (valF o f)))
    (f : Feature) (hf : f ∈ F) (v : Val) (hv : alistGet? o.slots f.name = some v)
    (hff : FlatFeat K ts c ci H isAnn o f) :
    alistGet? (resObj fss (tgtF cass H o) F oc).slots f.name = some (exp2 cass H na ci' isAnn o f.name v) ∨
      Pend H addr (resDef fss (tgtF cass H o) addr F) f.name v := by
  have hval : valF o f = v := by unfold valF; rw [hv]; rfl
  rw [resObj_at fss _ F oc hnd f hf, hoc f hf, hval]
  obtain ⟨_, _, _, _, _, _, _, _, _, _, _, v', hv', hcase⟩ := hff
  rw [hv] at hv'; cases hv'
  have htg : tgtF cass H o f = refTarget cass H v := by unfold tgtF; rw [hval]
  rcases hcase with ⟨_, hs⟩ | ⟨_, _, h3⟩ | ⟨_, _, _, _, _, _, _, hr⟩
  · rcases hs with ⟨vn, rfl, hsome⟩ | ⟨rfl, _⟩
    · obtain ⟨view, hview⟩ := Option.isSome_iff_exists.mp hsome
      have hmem : (vn, view) ∈ c.views := aget_mem _ _ _ hview
      have ht : refTarget cass H (.sofa ci vn) = some view.sofa.xid := by
        unfold refTarget
        dsimp only
        rw [ctx.hc]
        show (Cas.getViewRec c vn).map _ = _
        rw [hview]; rfl
      rw [htg, ht]
      dsimp only [Option.bind_some]
      rw [ctx.fss_sofa _ hmem]
      exact Or.inl rfl
    · rw [htg]; exact Or.inl rfl
  · rw [htg]
    rcases h3 with rfl | ⟨_, i, rfl⟩ | ⟨_, x, rfl⟩ | ⟨_, x, rfl⟩ | ⟨_, x, rfl⟩ <;> exact Or.inl rfl
  · rcases hr with rfl | ⟨b, rfl, hsome, _⟩
    · rw [htg]; exact Or.inl rfl
    · obtain ⟨y, hy⟩ := Option.isSome_iff_exists.mp hsome
      have ht : refTarget cass H (.ref b) = some y := hy
      rw [htg, ht]
      dsimp only [Option.bind_some]
      obtain ⟨y', hy', hyL⟩ := ctx.closed q hq o ho f.name b hv
      rw [hy] at hy'; cases hy'
      cases hl : lookup fss y with
      | some tv =>
        left
        dsimp only
        rw [ctx.fss_ref _ hyL tv hl]
        unfold exp2
        dsimp only
        rw [hy]
      | none =>
        right
        exact ⟨b, y, rfl, hy, resDef_mem fss _ addr F f hf y (by rw [htg, ht]) hl⟩

/-- only references to structures are ever deferred -/
theorem deferred_is_ref {K : Consts} {ts : TypeSystem} {cass : List Cas} {c : Cas} {ci : Nat} {H : Heap}
    {L : List (Int × Nat)} {na : Int → Nat} {ci' : Nat} {fss : List (Int × Val)} {cas' : Cas}
    (ctx : PCtx cass c ci H L na ci' fss cas') (o : Obj) (isAnn : Bool) (f : Feature)
    (hff : FlatFeat K ts c ci H isAnn o f) (y : Int) (ht : tgtF cass H o f = some y) (hl : lookup fss y = none) :
    ∃ b, alistGet? o.slots f.name = some (.ref b) ∧ xidOf H b = some y := by
  obtain ⟨_, _, _, _, _, _, _, _, _, _, _, v, hv, hcase⟩ := hff
  have hval : valF o f = v := by unfold valF; rw [hv]; rfl
  unfold tgtF at ht
  rw [hval] at ht
  rcases hcase with ⟨_, hs⟩ | ⟨_, _, h3⟩ | ⟨_, _, _, _, _, _, _, hr⟩
  · rcases hs with ⟨vn, rfl, hsome⟩ | ⟨rfl, _⟩
    · obtain ⟨view, hview⟩ := Option.isSome_iff_exists.mp hsome
      have hmem : (vn, view) ∈ c.views := aget_mem _ _ _ hview
      have ht' : refTarget cass H (.sofa ci vn) = some view.sofa.xid := by
        unfold refTarget
        dsimp only
        rw [ctx.hc]
        show (Cas.getViewRec c vn).map _ = _
        rw [hview]; rfl
      rw [ht'] at ht
      cases ht
      rw [ctx.fss_sofa _ hmem] at hl
      cases hl
    · cases ht
  · rcases h3 with rfl | ⟨_, i, rfl⟩ | ⟨_, x, rfl⟩ | ⟨_, x, rfl⟩ | ⟨_, x, rfl⟩ <;> cases ht
  · rcases hr with rfl | ⟨b, rfl, _, _⟩
    · cases ht
    · exact ⟨b, hv, ht⟩

end Cassis.Json
