/-
Helper lemmas for `Properties/C19.lean`: `typecheckFs` / `typecheckCas` compute exactly the offending
elements of the FSArray-valued features.
-/
import CassisModel.Spec.Typecheck
import CassisModel.Proofs.TypeSystem

namespace Cassis.Traverse
open Cassis.TS

/-! ### basics -/

theorem getType_of_find {ts : TypeSystem} {n : String} {t : TypeRec} (h : find? ts n = some t) :
    getType ts n = .ok t := by
  unfold getType; rw [h]

theorem offending_nil (ts : TypeSystem) (hp : Heap) (elemTy : String) :
    offending ts hp elemTy [] = [] := rfl

theorem offending_none (ts : TypeSystem) (hp : Heap) (elemTy : String) (l : List (Option Nat)) :
    offending ts hp elemTy (none :: l) = offending ts hp elemTy l := by
  simp only [offending, List.filterMap_cons]

theorem offending_some (ts : TypeSystem) (hp : Heap) (elemTy : String) (l : List (Option Nat))
    (ea : Nat) (eo : Obj) (he : hp[ea]? = some eo) :
    offending ts hp elemTy (some ea :: l) =
      if subsumes ts elemTy eo.ty then offending ts hp elemTy l else ea :: offending ts hp elemTy l := by
  simp only [offending, List.filterMap_cons, he]
  cases subsumes ts elemTy eo.ty <;> simp

/-! ### the inner loop -/

theorem elemErrors_eq (ts : TypeSystem) (hp : Heap) (elemTy : String) (owner : Option Int) :
    ∀ l : List (Option Nat),
      (∀ ea, some ea ∈ l → ∃ eo et, hp[ea]? = some eo ∧ find? ts eo.ty = some et) →
      elemErrors ts hp elemTy owner l = .ok ((offending ts hp elemTy l).map (fun _ => owner)) := by
  intro l
  induction l with
  | nil => intro _; rfl
  | cons r rest ih =>
    intro h
    have ih' := ih (fun ea hm => h ea (List.mem_cons_of_mem _ hm))
    cases r with
    | none =>
      rw [offending_none]
      simp only [elemErrors]
      exact ih'
    | some ea =>
      obtain ⟨eo, et, he, hf⟩ := h ea List.mem_cons_self
      rw [offending_some ts hp elemTy rest ea eo he]
      simp only [elemErrors, he, getType_of_find hf, ih', find?_name hf]
      cases subsumes ts elemTy eo.ty <;> simp

/-! ### the outer loop -/

theorem featErrors_eq (ts : TypeSystem) (hp : Heap) (a : Nat) (owner : Option Int) :
    ∀ fs : List Feature,
      (∀ f ∈ fs, (f.range == FS_ARRAY) = true →
        (slot hp a f.name = some .none ∨ ∃ arr, slot hp a f.name = some (.ref arr)) ∧
        ∀ ea, some ea ∈ elementsOf hp a f → ∃ eo et, hp[ea]? = some eo ∧ find? ts eo.ty = some et) →
      featErrors ts hp a owner fs =
        .ok ((fs.filter (fun f => f.range == FS_ARRAY)).flatMap
          (fun f => (offending ts hp (f.elem.getD TOP) (elementsOf hp a f)).map (fun _ => owner))) := by
  intro fs
  induction fs with
  | nil => intro _; rfl
  | cons f fs ih =>
    intro h
    have ih' := ih (fun g hg => h g (List.mem_cons_of_mem _ hg))
    cases hr : (f.range == FS_ARRAY) with
    | false =>
      rw [List.filter_cons_of_neg (by simp [hr])]
      simp only [featErrors, hr]
      exact ih'
    | true =>
      rw [List.filter_cons_of_pos (by simp [hr]), List.flatMap_cons]
      obtain ⟨hs, he⟩ := h f List.mem_cons_self hr
      rcases hs with hs | ⟨arr, hs⟩
      · have hel : elementsOf hp a f = [] := by simp [elementsOf, hs]
        rw [hel, offending_nil, List.map_nil, List.nil_append]
        simp only [featErrors, hr, hs]
        exact ih'
      · match hl : slot hp arr "elements" with
        | some (.refs l) =>
          have hel : elementsOf hp a f = l := by simp [elementsOf, hs, hl]
          rw [hel] at he ⊢
          have h1 := elemErrors_eq ts hp (f.elem.getD TOP) owner l he
          simp only [featErrors, hr, hs, hl, h1, ih']
          simp
        | none | some .none | some (.int _) | some (.str _) | some (.bool _) | some (.float _)
        | some (.ref _) | some (.sofa _ _) | some (.ints _) | some (.floats _) | some (.bools _)
        | some (.strs _) | some (.attr _) =>
          have hel : elementsOf hp a f = [] := by simp [elementsOf, hs, hl]
          rw [hel, offending_nil, List.map_nil, List.nil_append]
          simp only [featErrors, hr, hs, hl]
          exact ih'

/-! ### one structure, the whole CAS -/

theorem typecheckFs_eq (ts : TypeSystem) (hp : Heap) (a : Nat) (ob : Obj) (t : TypeRec)
    (hw : WfArrays ts hp a) (ho : hp[a]? = some ob) (ht : getType ts ob.ty = .ok t) :
    typecheckFs ts hp a = .ok (expectedErrors ts hp a ob t) := by
  obtain ⟨ob', t', ho', ht', hf⟩ := hw.obj
  have e1 : ob' = ob := by rw [ho] at ho'; exact (Option.some.inj ho').symm
  subst e1
  have e2 : t' = t := by rw [ht] at ht'; exact (Except.ok.inj ht').symm
  subst e2
  simp only [typecheckFs, ho, ht, expectedErrors, fsArrayFeatures]
  apply featErrors_eq
  intro f hm hr
  exact hf f (by simp only [fsArrayFeatures, List.mem_filter]; exact ⟨hm, hr⟩)

theorem typecheckFs_exact_aux (ts : TypeSystem) (hp : Heap) (a : Nat) (errs : List (Option Int))
    (hw : WfArrays ts hp a) (h : typecheckFs ts hp a = .ok errs) :
    ∃ ob t, hp[a]? = some ob ∧ getType ts ob.ty = .ok t ∧ errs = expectedErrors ts hp a ob t := by
  obtain ⟨ob, t, ho, ht, _⟩ := hw.obj
  refine ⟨ob, t, ho, ht, ?_⟩
  rw [typecheckFs_eq ts hp a ob t hw ho ht] at h
  exact (Except.ok.inj h).symm

theorem typecheckFs_total_aux (ts : TypeSystem) (hp : Heap) (a : Nat) (hw : WfArrays ts hp a) :
    ∃ errs, typecheckFs ts hp a = .ok errs := by
  obtain ⟨ob, t, ho, ht, _⟩ := hw.obj
  exact ⟨_, typecheckFs_eq ts hp a ob t hw ho ht⟩

theorem typecheckFs_nil_iff_aux (ts : TypeSystem) (hp : Heap) (a : Nat) (errs : List (Option Int))
    (hw : WfArrays ts hp a) (h : typecheckFs ts hp a = .ok errs) :
    errs = [] ↔ ∀ ob t, hp[a]? = some ob → getType ts ob.ty = .ok t →
      ∀ f ∈ fsArrayFeatures t, offending ts hp (f.elem.getD TOP) (elementsOf hp a f) = [] := by
  constructor
  · intro hn ob t ho ht f hf
    rw [typecheckFs_eq ts hp a ob t hw ho ht] at h
    have := (Except.ok.inj h)
    rw [hn, expectedErrors, List.flatMap_eq_nil_iff] at this
    exact List.map_eq_nil_iff.mp (this f hf)
  · intro hall
    obtain ⟨ob, t, ho, ht, _⟩ := hw.obj
    rw [typecheckFs_eq ts hp a ob t hw ho ht] at h
    rw [← Except.ok.inj h, expectedErrors, List.flatMap_eq_nil_iff]
    intro f hf
    rw [hall ob t ho ht f hf]; rfl

theorem typecheckFs_count_aux (ts : TypeSystem) (hp : Heap) (a : Nat) (errs : List (Option Int)) (ob : Obj) (t : TypeRec)
    (hw : WfArrays ts hp a) (h : typecheckFs ts hp a = .ok errs) (ho : hp[a]? = some ob) (ht : getType ts ob.ty = .ok t) :
    (∀ e ∈ errs, e = ob.xid) ∧
    errs.length = ((fsArrayFeatures t).map (fun f => (offending ts hp (f.elem.getD TOP) (elementsOf hp a f)).length)).sum := by
  rw [typecheckFs_eq ts hp a ob t hw ho ht] at h
  rw [← Except.ok.inj h, expectedErrors]
  constructor
  · intro e he
    obtain ⟨f, _, hm⟩ := List.mem_flatMap.mp he
    obtain ⟨_, _, rfl⟩ := List.mem_map.mp hm
    rfl
  · rw [List.length_flatMap]
    simp only [List.length_map]

theorem offending_iff_not_anc_aux (ts : TypeSystem) (hc : Consistent ts) (hp : Heap) (elemTy : String)
    (l : List (Option Nat)) (ea : Nat) (eo : Obj) (he : hp[ea]? = some eo)
    (h1 : hasExact ts elemTy = true) (h2 : hasExact ts eo.ty = true) :
    ea ∈ offending ts hp elemTy l ↔ (some ea ∈ l ∧ ¬ Anc ts elemTy eo.ty) := by
  rw [← subsumes_iff_ancestor_aux ts hc elemTy eo.ty h1 h2]
  induction l with
  | nil => simp [offending_nil]
  | cons r rest ih =>
    cases r with
    | none => rw [offending_none, ih]; simp
    | some eb =>
      by_cases hab : eb = ea
      · subst hab
        rw [offending_some ts hp elemTy rest eb eo he]
        cases hs : subsumes ts elemTy eo.ty
        · simp
        · simp only [if_true]; rw [ih]; simp [hs]
      · have hne : ¬ ea = eb := fun h => hab h.symm
        cases hb : hp[eb]? with
        | none =>
          have : offending ts hp elemTy (some eb :: rest) = offending ts hp elemTy rest := by
            simp [offending, hb]
          rw [this, ih]
          simp [hne]
        | some eo' =>
          rw [offending_some ts hp elemTy rest eb eo' hb]
          split
          · rw [ih]; simp [hne]
          · rw [List.mem_cons, ih]; simp [hne]

theorem typecheckAll_ok (ts : TypeSystem) (hp : Heap) : ∀ (as : List Nat) (errs : List (Option Int)),
    typecheckAll ts hp as = .ok errs →
    ∃ per : List (List (Option Int)), per.length = as.length ∧ errs = per.flatten ∧
      ∀ i (hi : i < as.length) (hj : i < per.length), typecheckFs ts hp as[i] = .ok per[i] := by
  intro as
  induction as with
  | nil =>
    intro errs h
    refine ⟨[], rfl, ?_, ?_⟩
    · simp only [typecheckAll] at h; exact (Except.ok.inj h).symm
    · intro i hi; exact absurd hi (Nat.not_lt_zero _)
  | cons a rest ih =>
    intro errs h
    simp only [typecheckAll] at h
    cases h1 : typecheckFs ts hp a with
    | error e => rw [h1] at h; cases h
    | ok r1 =>
      rw [h1] at h
      cases h2 : typecheckAll ts hp rest with
      | error e => rw [h2] at h; cases h
      | ok r2 =>
        rw [h2] at h
        obtain ⟨per, hl, hfl, hall⟩ := ih r2 h2
        refine ⟨r1 :: per, by simp [hl], ?_, ?_⟩
        · rw [List.flatten_cons, ← hfl]; exact (Except.ok.inj h).symm
        · intro i hi hj
          cases i with
          | zero => exact h1
          | succ j =>
            simp only [List.getElem_cons_succ]
            exact hall j (by simpa using hi) (by simpa using hj)

theorem typecheckAll_total (ts : TypeSystem) (hp : Heap) : ∀ (as : List Nat),
    (∀ a ∈ as, ∃ r, typecheckFs ts hp a = .ok r) → ∃ errs, typecheckAll ts hp as = .ok errs := by
  intro as
  induction as with
  | nil => intro _; exact ⟨[], rfl⟩
  | cons a rest ih =>
    intro h
    obtain ⟨r1, h1⟩ := h a List.mem_cons_self
    obtain ⟨r2, h2⟩ := ih (fun b hb => h b (List.mem_cons_of_mem _ hb))
    exact ⟨r1 ++ r2, by simp only [typecheckAll, h1, h2]⟩

theorem typecheckCas_exact_aux (K : Consts) (ts : TypeSystem) (c : Cas) (hp : Heap) (s : St)
    (errs : List (Option Int)) (h : typecheckCas K ts c hp = .ok (s, errs)) :
    findAllFs K ts {} hp c.nextXid (defaultSeeds c) = .ok s ∧
    ∃ per : List (List (Option Int)),
      per.length = s.allFs.length ∧ errs = per.flatten ∧
      ∀ i (hi : i < s.allFs.length) (hj : i < per.length), typecheckFs ts s.heap (s.allFs[i]).2 = .ok per[i] := by
  unfold typecheckCas at h
  cases h1 : findAllFs K ts {} hp c.nextXid (defaultSeeds c) with
  | error e => rw [h1] at h; cases h
  | ok s' =>
    rw [h1] at h
    simp only at h
    cases h2 : typecheckAll ts s'.heap (s'.allFs.map (·.2)) with
    | error e => rw [h2] at h; cases h
    | ok errs' =>
      rw [h2] at h
      simp only at h
      have hh := Except.ok.inj h
      have hs : s' = s := congrArg Prod.fst hh
      have he : errs' = errs := congrArg Prod.snd hh
      subst hs; subst he
      refine ⟨rfl, ?_⟩
      obtain ⟨per, hl, hfl, hall⟩ := typecheckAll_ok ts s'.heap _ _ h2
      rw [List.length_map] at hl
      refine ⟨per, hl, hfl, ?_⟩
      intro i hi hj
      have := hall i (by rw [List.length_map]; exact hi) hj
      rw [List.getElem_map] at this
      exact this

theorem typecheckCas_total_aux (K : Consts) (ts : TypeSystem) (c : Cas) (hp : Heap) (s : St)
    (hf : findAllFs K ts {} hp c.nextXid (defaultSeeds c) = .ok s)
    (hw : ∀ p ∈ s.allFs, WfArrays ts s.heap p.2) :
    ∃ errs, typecheckCas K ts c hp = .ok (s, errs) := by
  obtain ⟨errs, he⟩ := typecheckAll_total ts s.heap (s.allFs.map (·.2)) (by
    intro a ha
    obtain ⟨p, hp', rfl⟩ := List.mem_map.mp ha
    exact typecheckFs_total_aux ts s.heap p.2 (hw p hp'))
  exact ⟨errs, by simp only [typecheckCas, hf, he]⟩

end Cassis.Traverse
