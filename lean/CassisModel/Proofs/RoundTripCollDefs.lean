/-
Shared definitions of the proof of the XMI round trip with collections (`Properties/C01RoundTripColl.lean`).
They extend `Proofs/RoundTripDefs.lean` (notation `H`, `L`, `na`, `E1/E2/E3` as there).

New objects the reader creates for *inlined* collections (array objects, list nodes) carry no id (`xid = none`); they are
appended to the heap during the first pass (child elements) or the second pass (attributes) and never change afterwards
(`Frz`).  `ArrAt` / `ListAt` describe them.  Per collected structure the relation between the old object and the new
one is `Obj1` after the first pass and `Obj2` after the second; `E2c`/`E3c` are the expectation *functions* of the
second and third phase once the addresses of the inlined collections are known (`ia`).
-/
import CassisModel.Spec.RoundTripCollFrag
import CassisModel.Proofs.RoundTripDefs

namespace Cassis.Xmi
open Cassis.TS Cassis.Traverse Cassis.Lex

/-! ### values -/

/-- a raw element list (the `elements` slot of an array object) -/
def isListV : Val → Bool
  | .refs _ | .ints _ | .floats _ | .bools _ | .strs _ => true
  | _ => false

/-- is slot `n` of `o` the slot of an inlined collection feature? -/
def inlineSlot (K : Consts) (ts : TypeSystem) (o : Obj) (n : String) : Bool :=
  match find? ts o.ty with
  | some t =>
    match (allFeatures t).find? (fun f => f.name == n) with
    | some f => isInline K f
    | none => false
  | none => false

/-- the token the writer emits for a reference to the structure at `b` -/
def idTok (H : Heap) (b : Nat) : String :=
  match xidOf H b with
  | some x => showInt x
  | none => "None"

/-- the head the reader stores for a head of a string list written as a child element -/
def strHead : Val → Val
  | .str s => if s == "" then .none else .str s
  | v => v

/-- the new head for an old head (references resolved to new addresses) -/
def headExp (H : Heap) (na : Int → Nat) : Val → Val
  | .ref b => match xidOf H b with | some x => .ref (na x) | none => .none
  | v => strHead v

/-- the new `elements` for old `elements` -/
def elemsExp (H : Heap) (na : Int → Nat) : Val → Val
  | .refs l => .refs (l.map (fun r => r.bind (fun b => (xidOf H b).map na)))
  | .ints l => if l.isEmpty then .refs [] else .ints l
  | .bools l => if l.isEmpty then .refs [] else .bools l
  | .floats l => if l.isEmpty then .refs [] else .floats l
  | .strs l => if l.isEmpty then .refs [] else .strs (l.map normTxt)
  | _ => .none

/-! ### the heap: objects without id never change -/

/-- `hp'` is a later heap: not shorter, and every object without id is still there, unchanged -/
def Frz (hp hp' : Heap) : Prop :=
  hp.length ≤ hp'.length ∧ ∀ (a : Nat) (o : Obj), hp[a]? = some o → o.xid = none → hp'[a]? = some o

theorem Frz.refl (hp : Heap) : Frz hp hp := ⟨Nat.le_refl _, fun _ _ h _ => h⟩

theorem Frz.trans {h1 h2 h3 : Heap} (a : Frz h1 h2) (b : Frz h2 h3) : Frz h1 h3 :=
  ⟨Nat.le_trans a.1 b.1, fun i o h hx => b.2 i o (a.2 i o h hx) hx⟩

theorem Frz.append (hp t : Heap) : Frz hp (hp ++ t) :=
  ⟨by rw [List.length_append]; omega, fun a o h _ => by
    rw [List.getElem?_append_left (List.getElem?_eq_some_iff.mp h).1]; exact h⟩

/-- replacing an object that carries an id -/
theorem Frz.set {hp : Heap} {a : Nat} {o o' : Obj} (h : hp[a]? = some o) (hx : o.xid ≠ none) : Frz hp (hp.set a o') := by
  refine ⟨by rw [List.length_set]; exact Nat.le_refl _, fun b ob hb hbx => ?_⟩
  by_cases e : a = b
  · subst e; rw [h] at hb; cases hb; exact absurd hbx hx
  · rw [List.getElem?_set_ne e]; exact hb

/-- an array object the reader made: no id, `elements = ev` -/
def ArrAt (hp : Heap) (addr : Nat) (ev : Val) : Prop :=
  ∃ ob : Obj, hp[addr]? = some ob ∧ ob.xid = none ∧ alistGet? ob.slots "elements" = some ev

/-- a list the reader made: nodes without id, heads `vs`, ending in a node without `head` -/
inductive ListAt (hp : Heap) : Nat → List Val → Prop
  | nil {a : Nat} {o : Obj} : hp[a]? = some o → o.xid = none → alistGet? o.slots "head" = none → ListAt hp a []
  | cons {a : Nat} {o : Obj} {hd : Val} {a' : Nat} {rest : List Val} : hp[a]? = some o → o.xid = none →
      alistGet? o.slots "head" = some hd → alistGet? o.slots "tail" = some (.ref a') → ListAt hp a' rest →
      ListAt hp a (hd :: rest)

theorem ArrAt.frz {hp hp' : Heap} {addr : Nat} {ev : Val} (h : ArrAt hp addr ev) (f : Frz hp hp') : ArrAt hp' addr ev := by
  obtain ⟨ob, h1, h2, h3⟩ := h
  exact ⟨ob, f.2 _ _ h1 h2, h2, h3⟩

theorem ListAt.frz {hp hp' : Heap} (f : Frz hp hp') : ∀ {a : Nat} {vs : List Val}, ListAt hp a vs → ListAt hp' a vs := by
  intro a vs h
  induction h with
  | nil h1 h2 h3 => exact .nil (f.2 _ _ h1 h2) h2 h3
  | cons h1 h2 h3 h4 _ ih => exact .cons (f.2 _ _ h1 h2) h2 h3 h4 ih

/-! ### expectation functions with collections -/

/-- slot value after `postAll`; `ia x n` is the address of the collection inlined in slot `n` of the structure with id `x` -/
def E2c (K : Consts) (ts : TypeSystem) (cass : List Cas) (H : Heap) (na : Int → Nat) (ia : Int → String → Nat) (ci' : Nat)
    (o : Obj) (n : String) (v : Val) : Val :=
  match v with
  | .ref _ => if inlineSlot K ts o n then .ref (ia (o.xid.getD 0) n) else E2 ts cass H na ci' o n v
  | .refs _ | .ints _ | .floats _ | .bools _ | .strs _ => elemsExp H na v
  | _ => E2 ts cass H na ci' o n v

/-- slot value after `buildCas` -/
def E3c (K : Consts) (ts : TypeSystem) (H : Heap) (na : Int → Nat) (ia : Int → String → Nat) (ci' : Nat)
    (o : Obj) (n : String) (v : Val) : Val :=
  match v with
  | .ref _ => if inlineSlot K ts o n then .ref (ia (o.xid.getD 0) n) else exp3 H na ci' v
  | .refs _ | .ints _ | .floats _ | .bools _ | .strs _ => elemsExp H na v
  | _ => exp3 H na ci' v

/-! ### after the first pass -/

/-- the value the first pass leaves in the slot of an inlined collection feature of range `r` whose old value is the
    collection at `c` (attribute strings; for child elements the address of the collection built at once) -/
def Inl1R (H hpX : Heap) (r : String) (c : Nat) (w : Val) : Prop :=
  (PrimArrTy r ∧ ∃ (ev : Val) (s : String), slot H c "elements" = some ev ∧ showPrimArray r ev = .ok s ∧ w = .str s)
  ∨ (r = STRING_ARRAY ∧ ∃ ev : Val, slot H c "elements" = some ev ∧
      (((ev = .refs [] ∨ ev = .strs []) ∧ w = .str "") ∨
       ∃ (l : List (Option String)) (addr : Nat), ev = .strs l ∧ l ≠ [] ∧ w = .ref addr ∧
         ArrAt hpX addr (.strs (l.map normTxt))))
  ∨ (r = FS_ARRAY ∧ ∃ l : List Nat, slot H c "elements" = some (.refs (l.map some)) ∧
      w = .str (joinSp (l.map (idTok H))))
  ∨ ((r = INTEGER_LIST ∨ r = FLOAT_LIST) ∧ ∃ (hs : List Val) (toks : List String),
      collectList H (H.length + 1) (.ref c) = .ok hs ∧ hs.mapM showPrim = .ok toks ∧ w = .str (joinSp toks))
  ∨ (r = STRING_LIST ∧ ∃ (hs : List Val) (addr : Nat), collectList H (H.length + 1) (.ref c) = .ok hs ∧ hs ≠ [] ∧
      w = .ref addr ∧ ListAt hpX addr (hs.map strHead) ∧ hs.length < hpX.length)
  ∨ (r = FS_LIST ∧ ∃ bs : List Nat, collectList H (H.length + 1) (.ref c) = .ok (bs.map Val.ref) ∧
      w = .str (joinSp (bs.map (idTok H))))

def Inl1 (ts : TypeSystem) (H hpX : Heap) (o : Obj) (n : String) (c : Nat) (w : Val) : Prop :=
  ∃ (t : TypeRec) (f : Feature), find? ts o.ty = some t ∧ f ∈ allFeatures t ∧ f.name = n ∧ Inl1R H hpX f.range c w

/-- the value the first pass leaves in the `elements` slot of an array object of type `ty` -/
def Elems1 (H : Heap) (ty : String) (v w : Val) : Prop :=
  (ty = FS_ARRAY ∧ ∃ l : List Nat, v = .refs (l.map some) ∧ w = .str (joinSp (l.map (idTok H))))
  ∨ (ty = STRING_ARRAY ∧ (((v = .refs [] ∨ v = .strs []) ∧ w = .none) ∨
      ∃ l : List (Option String), v = .strs l ∧ l ≠ [] ∧ w = .strs (l.map normTxt)))
  ∨ (PrimArrTy ty ∧ ∃ s : String, showPrimArray ty v = .ok s ∧ w = .str s)

/-- slot `n` of the new object holds `w` after the first pass when the old object `o` holds `v` -/
def Slot1 (K : Consts) (ts : TypeSystem) (cass : List Cas) (H hpX : Heap) (o : Obj) (n : String) (v w : Val) : Prop :=
  (∀ c, v = .ref c → inlineSlot K ts o n = true → Inl1 ts H hpX o n c w) ∧
  (isListV v = true → Elems1 H o.ty v w) ∧
  ((∀ c, v = .ref c → inlineSlot K ts o n = false) → isListV v = false → w = E1 ts cass H o n v)

def Obj1 (K : Consts) (ts : TypeSystem) (cass : List Cas) (H hpX : Heap) (o o1 : Obj) (x : Int) : Prop :=
  o1.ty = o.ty ∧ o1.xid = some x ∧ o1.slots.map (·.1) = o.slots.map (·.1) ∧
  ∀ (n : String) (v : Val), alistGet? o.slots n = some v →
    ∃ w, alistGet? o1.slots n = some w ∧ Slot1 K ts cass H hpX o n v w

/-! ### after the second pass -/

/-- the collection inlined in slot `n` of `o` (old address `c`) stands at `addr` -/
def InlAt (K : Consts) (ts : TypeSystem) (H : Heap) (na : Int → Nat) (hpX : Heap) (o : Obj) (n : String) (c addr : Nat) :
    Prop :=
  ∃ (t : TypeRec) (f : Feature), find? ts o.ty = some t ∧ f ∈ allFeatures t ∧ f.name = n ∧
    ((isArray K f.range = true ∧ ∃ ev : Val, slot H c "elements" = some ev ∧ ArrAt hpX addr (elemsExp H na ev)) ∨
     (isArray K f.range = false ∧ ∃ hs : List Val, collectList H (H.length + 1) (.ref c) = .ok hs ∧
        ListAt hpX addr (hs.map (headExp H na)) ∧ hs.length < hpX.length))

def Slot2 (K : Consts) (ts : TypeSystem) (cass : List Cas) (H : Heap) (na : Int → Nat) (ci' : Nat) (hpX : Heap)
    (o : Obj) (n : String) (v w : Val) : Prop :=
  (∀ c, v = .ref c → inlineSlot K ts o n = true → ∃ addr : Nat, w = .ref addr ∧ InlAt K ts H na hpX o n c addr) ∧
  (isListV v = true → w = elemsExp H na v) ∧
  ((∀ c, v = .ref c → inlineSlot K ts o n = false) → isListV v = false → w = E2 ts cass H na ci' o n v)

def Obj2 (K : Consts) (ts : TypeSystem) (cass : List Cas) (H : Heap) (na : Int → Nat) (ci' : Nat) (hpX : Heap)
    (o o2 : Obj) (x : Int) : Prop :=
  o2.ty = o.ty ∧ o2.xid = some x ∧ o2.slots.map (·.1) = o.slots.map (·.1) ∧
  ∀ (n : String) (v : Val), alistGet? o.slots n = some v →
    ∃ w, alistGet? o2.slots n = some w ∧ Slot2 K ts cass H na ci' hpX o n v w

/-- the inlined collections of all collected structures stand where `ia` says -/
def CollsAt (K : Consts) (ts : TypeSystem) (H : Heap) (L : List (Int × Nat)) (na : Int → Nat) (ia : Int → String → Nat)
    (hpX : Heap) : Prop :=
  ∀ q ∈ L, ∀ (o : Obj), H[q.2]? = some o → ∀ (n : String) (c : Nat), alistGet? o.slots n = some (.ref c) →
    inlineSlot K ts o n = true → InlAt K ts H na hpX o n c (ia q.1 n)

/-- what one step of the second pass on the object at `a` does to the rest of the heap: other old objects stay, new
    objects carry no id -/
def Ext (hpX hpY : Heap) (a : Nat) : Prop :=
  hpX.length ≤ hpY.length ∧ (∀ b, b < hpX.length → b ≠ a → hpY[b]? = hpX[b]?) ∧
  (∀ (b : Nat) (ob : Obj), hpX.length ≤ b → hpY[b]? = some ob → ob.xid = none)

/-! ### the collected structures -/

/-- `b` is a structure the one at `a` refers to: through a reference slot, as an element of an inlined FSArray, as a
    head of an inlined FSList, or as an element of the FSArray object at `a` itself -/
def Target (K : Consts) (ts : TypeSystem) (H : Heap) (a b : Nat) : Prop :=
  ∃ (o : Obj) (t : TypeRec), H[a]? = some o ∧ find? ts o.ty = some t ∧
    ( (∃ f ∈ allFeatures t, isInline K f = false ∧ alistGet? o.slots f.name = some (.ref b))
    ∨ (∃ f ∈ allFeatures t, isInline K f = true ∧ f.range = FS_ARRAY ∧ ∃ (c : Nat) (l : List (Option Nat)),
        alistGet? o.slots f.name = some (.ref c) ∧ slot H c "elements" = some (.refs l) ∧ some b ∈ l)
    ∨ (∃ f ∈ allFeatures t, isInline K f = true ∧ f.range = FS_LIST ∧ ∃ (c : Nat) (hs : List Val),
        alistGet? o.slots f.name = some (.ref c) ∧ collectList H (H.length + 1) (.ref c) = .ok hs ∧ Val.ref b ∈ hs)
    ∨ (o.ty = FS_ARRAY ∧ ∃ l : List (Option Nat), alistGet? o.slots "elements" = some (.refs l) ∧ some b ∈ l) )

/-- what the proof needs to know about the collected structures (cf. `LOk`) -/
structure LOkC (K : Consts) (ts : TypeSystem) (c : Cas) (ci : Nat) (H : Heap) (L : List (Int × Nat)) : Prop where
  coll : ∀ q ∈ L, CollFs K ts c ci H q.2
  ids : ∀ q ∈ L, xidOf H q.2 = some q.1 ∧ q.1 ≠ 0
  nodup : (L.map (·.1)).Nodup
  /-- closure under references, inlined FSArrays and FSLists looked through -/
  closed : ∀ q ∈ L, ∀ b : Nat, Target K ts H q.2 b → ∃ x : Int, xidOf H b = some x ∧ (x, b) ∈ L
  /-- every indexed structure is collected -/
  members : ∀ nv ∈ c.views, ∀ e ∈ Index.all nv.2.idx, ∃ x : Int, (x, e.oid) ∈ L

/-- the part of `LOkC` the third pass needs -/
structure LOkW (ts : TypeSystem) (c : Cas) (ci : Nat) (H : Heap) (L : List (Int × Nat)) : Prop where
  ids : ∀ q ∈ L, xidOf H q.2 = some q.1 ∧ q.1 ≠ 0
  nodup : (L.map (·.1)).Nodup
  members : ∀ nv ∈ c.views, ∀ e ∈ Index.all nv.2.idx, ∃ x : Int, (x, e.oid) ∈ L
  /-- the type of a collected structure is registered -/
  reg : ∀ q ∈ L, ∀ o : Obj, H[q.2]? = some o → ∃ t : TypeRec, find? ts o.ty = some t
  /-- its `sofa` slot holds a sofa of the CAS or `None` -/
  sofa_shape : ∀ q ∈ L, ∀ o : Obj, H[q.2]? = some o → ∀ v : Val, alistGet? o.slots "sofa" = some v →
    v = .none ∨ ∃ vn, v = .sofa ci vn
  /-- an annotation has integer offsets inside the text of its sofa -/
  ann : ∀ q ∈ L, ∀ o : Obj, H[q.2]? = some o → isInstanceOf ts o.ty ANNOTATION = true →
    ∃ (vn : String) (v : View) (text : List Nat) (b e : Nat),
      alistGet? o.slots "sofa" = some (.sofa ci vn) ∧ Cas.getViewRec c vn = some v ∧ v.sofa.text = some text ∧
      alistGet? o.slots "begin" = some (.int b) ∧ alistGet? o.slots "end" = some (.int e) ∧
      b ≤ text.length ∧ e ≤ text.length

/-- the state of the reader after the first pass, without the heap relation (cf. `P1Spec`) -/
structure P1W (c : Cas) (H : Heap) (L : List (Int × Nat)) (na : Int → Nat) (p : Pass1) : Prop where
  fss : p.fss = (0, H.length) :: L.map (fun q => (q.1, na q.1))
  sofas : p.sofas = c.views.map (fun nv => (nv.2.sofa.xid, psofaOf nv))
  views : p.views = c.views.map (fun nv => (nv.2.sofa.xid, pviewOf H nv))
  lenient : p.lenientIds = []
  null : ∃ o0 : Obj, p.heap[H.length]? = some o0 ∧ o0.ty = NULL_T ∧ o0.xid = some 0 ∧ o0.slots = []

/-- every collected structure has its counterpart at its new address, related by `R` -/
def HeapRelP (H : Heap) (L : List (Int × Nat)) (na : Int → Nat) (R : Obj → Obj → Int → Prop) (hpX : Heap) : Prop :=
  ∀ q ∈ L, ∃ (o o' : Obj), H[q.2]? = some o ∧ hpX[na q.1]? = some o' ∧ R o o' q.1

end Cassis.Xmi
