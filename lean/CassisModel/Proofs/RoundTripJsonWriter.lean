/-
JSON round trip, layer 0: the writer on flat structures.
-/
import CassisModel.Proofs.RoundTripJsonDefs

namespace Cassis.Json
open Cassis.TS Cassis.Traverse Cassis.Lex Cassis.Xmi

/-- the members the writer emits for the value `v` of the feature named `n` of `o` -/
def jmem (cass : List Cas) (H : Heap) (isAnn : Bool) (o : Obj) (n : String) (v : Val) : List (String × JV) :=
  match v with
  | .sofa ci vn =>
    match (cass[ci]?).bind (fun c => Cas.getViewRec c vn) with
    | some view => [("@" ++ n, .int view.sofa.xid)]
    | none => []
  | .int i => [(n, .int (extInt cass isAnn o n i))]
  | .str s => [(n, .str s)]
  | .bool b => [(n, .bool b)]
  | .float t => if isSpecialFloat t then [("#" ++ n, .str t)] else [(n, .flt t)]
  | .ref b =>
    match xidOf H b with
    | some x => [("@" ++ n, .int x)]
    | none => []
  | _ => []

/-- the members written for the feature `f`: under the name the writer uses (`xmlName`: a reserved feature `self_` /
    `type_` is written as `self` / `type`) -/
def jmemF (cass : List Cas) (H : Heap) (isAnn : Bool) (o : Obj) (f : Feature) : List (String × JV) :=
  jmem cass H isAnn o (xmlName f) ((alistGet? o.slots f.name).getD .none)

/-- the same members under the stored name: what the reader makes of them (`RoundTripJsonRen.lean`) -/
def jmemFS (cass : List Cas) (H : Heap) (isAnn : Bool) (o : Obj) (f : Feature) : List (String × JV) :=
  jmem cass H isAnn o f.name ((alistGet? o.slots f.name).getD .none)

/-- whether an offset is mapped does not depend on which of the two names is asked -/
theorem extInt_xmlName (cass : List Cas) (isAnn : Bool) (o : Obj) (f : Feature) (h : ResOk f) (i : Int) :
    extInt cass isAnn o (xmlName f) i = extInt cass isAnn o f.name i := by
  unfold extInt
  rw [xmlName_begin f h, xmlName_end f h]

/-- the range of a `sofa` feature that holds a sofa is a structure type (follows from a successful save) -/
def SofaRangeOk (K : Consts) (ts : TypeSystem) (o : Obj) (f : Feature) : Prop :=
  f.name = "sofa" → (alistGet? o.slots f.name).getD .none ≠ .none →
    f.range ≠ "uima.cas.Double" ∧ f.range ≠ "uima.cas.Float" ∧ isPrimitive K ts f.range = false

/-- the writer decides by the declaring type whether an offset is mapped; this agrees with the type of the structure -/
def DomOk (isAnn : Bool) (f : Feature) : Prop :=
  (f.name = "begin" ∨ f.name = "end") → (f.domain == ANNOTATION) = isAnn

/-- first stage of `renderFeature`: offsets of annotations are mapped -/
def stage1 (cass : List Cas) (hp : Heap) (a : Nat) (f : Feature) (name : String) (v : Val) : Except Err Val :=
  if f.domain == ANNOTATION && (name == "begin" || name == "end") then
    match Xmi.slot hp a "sofa" with
    | some (.sofa ci vn) =>
      match (cass[ci]?).bind (fun c => Cas.getViewRec c vn) with
      | some view =>
        match v with
        | .int i => pure (Val.int (if i < 0 then i else (Offsets.pythonToExternal view.sofa.conv i.toNat : Nat)))
        | other => pure other
      | none => throw .attributeError
    | _ => throw .attributeError
  else pure v

/-- second stage: the member -/
def stage2 (K : Consts) (ts : TypeSystem) (cass : List Cas) (hp : Heap) (f : Feature) (name : String) (v : Val) :
    Except Err (List (String × JV)) :=
  if f.range == "uima.cas.Double" || f.range == "uima.cas.Float" then
    match v with
    | .float t => if isSpecialFloat t then pure [("#" ++ name, .str t)] else pure [(name, .flt t)]
    | .int i => pure [(name, .int i)]
    | _ => throw .typeError
  else if isPrimitive K ts f.range then do
    let jv ← primJV v
    pure [(name, jv)]
  else
    match v with
    | .ref t => pure [("@" ++ name, match idOf hp t with | some i => .int i | none => .null)]
    | .sofa ci vn =>
      match (cass[ci]?).bind (fun c => Cas.getViewRec c vn) with
      | some view => pure [("@" ++ name, .int view.sofa.xid)]
      | none => throw .attributeError
    | _ => throw .attributeError

theorem renderFeature_eq (K : Consts) (ts : TypeSystem) (cass : List Cas) (hp : Heap) (a : Nat) (f : Feature) :
    renderFeature K ts cass hp a f =
      if f.name == "xmiID" || f.name == "type" then .ok []
      else
        let name := if f.reserved then String.ofList f.name.toList.dropLast else f.name
        let v := (Xmi.slot hp a f.name).getD .none
        if v == .none then .ok []
        else (stage1 cass hp a f name v).bind (stage2 K ts cass hp f name) := by
  unfold renderFeature stage1
  by_cases h1 : (f.name == "xmiID" || f.name == "type") = true
  · rw [if_pos h1, if_pos h1]; rfl
  · rw [if_neg h1, if_neg h1]
    dsimp only
    generalize (if f.reserved = true then String.ofList f.name.toList.dropLast else f.name) = name
    generalize (Xmi.slot hp a f.name).getD Val.none = v
    by_cases h2 : (v == Val.none) = true
    · rw [if_pos h2, if_pos h2]; rfl
    · rw [if_neg h2, if_neg h2]
      by_cases h3 : (f.domain == ANNOTATION && (name == "begin" || name == "end")) = true
      · rw [if_pos h3, if_pos h3]
        cases Xmi.slot hp a "sofa" with
        | none => rfl
        | some w =>
          cases w <;> try rfl
          rename_i ci vn
          dsimp only
          cases (cass[ci]?.bind fun c => c.getViewRec vn) with
          | none => rfl
          | some view => cases v <;> rfl
      · rw [if_neg h3, if_neg h3]; rfl

theorem renderFeature_flatJ (K : Consts) (ts : TypeSystem) (cass : List Cas) (c : Cas) (ci : Nat) (H : Heap) (a : Nat)
    (isAnn : Bool) (o : Obj) (f : Feature) (hc : cass[ci]? = some c) (ho : H[a]? = some o)
    (hf : FlatFeat K ts c ci H isAnn o f) (hdom : DomOk isAnn f) (hsr : SofaRangeOk K ts o f)
    (hann : isAnn = true → ∃ vn view, alistGet? o.slots "sofa" = some (.sofa ci vn) ∧ Cas.getViewRec c vn = some view) :
    renderFeature K ts cass H a f = .ok (jmemF cass H isAnn o f) := by
  have hs : ∀ n, Xmi.slot H a n = alistGet? o.slots n := by
    intro n; unfold Xmi.slot Traverse.slot; rw [ho]; rfl
  obtain ⟨hres, hn1, hn2, _, _, _, _, _, _, _, _, v, hv, hcase⟩ := hf
  have hcond : (f.domain == ANNOTATION && (f.name == "begin" || f.name == "end")) = (isAnn && (f.name == "begin" || f.name == "end")) := by
    by_cases hbe : f.name = "begin" ∨ f.name = "end"
    · rw [hdom hbe]
    · have : (f.name == "begin" || f.name == "end") = false := by
        simpa using hbe
      rw [this]; simp
  unfold jmemF
  rw [hv, Option.getD_some]
  rw [renderFeature_eq]
  have hx : (f.name == "xmiID" || f.name == "type") = false := by simp [hn1, hn2]
  rw [hx]
  simp only [Bool.false_eq_true, if_false, hs, hv, Option.getD_some, xmlName_def]
  -- first stage
  have hst1 : ∀ (w : Val), (∀ i, w ≠ .int i) → stage1 cass H a f (xmlName f) w = .ok w := by
    intro w hw
    unfold stage1
    rw [xmlName_begin f hres, xmlName_end f hres, hcond]
    by_cases hA : (isAnn && (f.name == "begin" || f.name == "end")) = true
    · have hia : isAnn = true := by
        rw [Bool.and_eq_true] at hA; exact hA.1
      obtain ⟨vn, view, h1, h2⟩ := hann hia
      rw [if_pos hA, hs, h1]
      dsimp only
      rw [hc]
      show (match Cas.getViewRec c vn with | some view => _ | none => _) = _
      rw [h2]
      dsimp only
      cases w <;> first | rfl | exact absurd rfl (hw _)
    · rw [if_neg hA]; rfl
  have hst1i : ∀ (i : Int), stage1 cass H a f (xmlName f) (.int i) = .ok (.int (extInt cass isAnn o (xmlName f) i)) := by
    intro i
    unfold stage1 extInt
    rw [xmlName_begin f hres, xmlName_end f hres, hcond]
    by_cases hA : (isAnn && (f.name == "begin" || f.name == "end")) = true
    · have hia : isAnn = true := by
        rw [Bool.and_eq_true] at hA; exact hA.1
      obtain ⟨vn, view, h1, h2⟩ := hann hia
      rw [if_pos hA, if_pos hA, hs, h1]
      dsimp only
      rw [hc]
      have e : ((some c).bind fun c => Cas.getViewRec c vn) = some view := h2
      rw [e]
      rfl
    · rw [if_neg hA, if_neg hA]; rfl
  rcases hcase with ⟨hn, hsofa⟩ | ⟨hn, hprim, h3⟩ | ⟨hn, hprim, _, _, hnb, hnd, hnf, hval⟩
  · rcases hsofa with ⟨vn, rfl, hview⟩ | ⟨rfl, _⟩
    · obtain ⟨r1, r2, r3⟩ := hsr hn (by rw [hv]; simp)
      have hne : ¬ ((Val.sofa ci vn == Val.none) = true) := by simp
      rw [if_neg hne, hst1 _ (by intro i h; cases h)]
      show stage2 K ts cass H f (xmlName f) (Val.sofa ci vn) = _
      unfold stage2 jmem
      have e1 : (f.range == "uima.cas.Double" || f.range == "uima.cas.Float") = false := by simp [r1, r2]
      rw [e1, r3]
      simp only [Bool.false_eq_true, if_false]
      rw [hc]
      obtain ⟨view, hview'⟩ := Option.isSome_iff_exists.mp hview
      have e : ((some c).bind fun c => Cas.getViewRec c vn) = some view := hview'
      rw [e]
      rfl
    · rfl
  · rcases h3 with rfl | ⟨hr, i, rfl⟩ | ⟨hr, x, rfl⟩ | ⟨hr, x, rfl⟩ | ⟨hr, t, rfl⟩
    · rfl
    · have hb : f.range ≠ "uima.cas.Double" ∧ f.range ≠ "uima.cas.Float" := by
        unfold isIntRange at hr
        simp only [Bool.or_eq_true, beq_iff_eq] at hr
        rcases hr with ((h | h) | h) | h <;> rw [h] <;> decide
      have hne : ¬ ((Val.int i == Val.none) = true) := by simp
      rw [if_neg hne, hst1i]
      show stage2 K ts cass H f (xmlName f) (Val.int _) = _
      unfold stage2 jmem
      have e1 : (f.range == "uima.cas.Double" || f.range == "uima.cas.Float") = false := by simp [hb.1, hb.2]
      rw [e1, hprim]
      rfl
    · have hne : ¬ ((Val.str x == Val.none) = true) := by simp
      rw [if_neg hne, hst1 _ (by intro i h; cases h)]
      show stage2 K ts cass H f (xmlName f) (Val.str x) = _
      unfold stage2 jmem
      have e1 : (f.range == "uima.cas.Double" || f.range == "uima.cas.Float") = false := by rw [hr]; decide
      rw [e1, hprim]
      rfl
    · have hne : ¬ ((Val.bool x == Val.none) = true) := by simp
      rw [if_neg hne, hst1 _ (by intro i h; cases h)]
      show stage2 K ts cass H f (xmlName f) (Val.bool x) = _
      unfold stage2 jmem
      have e1 : (f.range == "uima.cas.Double" || f.range == "uima.cas.Float") = false := by rw [hr]; decide
      rw [e1, hprim]
      rfl
    · have hne : ¬ ((Val.float t == Val.none) = true) := by simp
      rw [if_neg hne, hst1 _ (by intro i h; cases h)]
      show stage2 K ts cass H f (xmlName f) (Val.float t) = _
      unfold stage2 jmem
      have e1 : (f.range == "uima.cas.Double" || f.range == "uima.cas.Float") = true := by
        rcases hr with h | h <;> rw [h] <;> decide
      rw [e1]
      simp only [if_true]
      split <;> rfl
  · rcases hval with rfl | ⟨b, rfl, hsome, _⟩
    · rfl
    · have hne : ¬ ((Val.ref b == Val.none) = true) := by simp
      rw [if_neg hne, hst1 _ (by intro i h; cases h)]
      show stage2 K ts cass H f (xmlName f) (Val.ref b) = _
      unfold stage2 jmem
      have e1 : (f.range == "uima.cas.Double" || f.range == "uima.cas.Float") = false := by simp [hnd, hnf]
      rw [e1, hprim]
      obtain ⟨x, hx⟩ := Option.isSome_iff_exists.mp hsome
      have hx' : idOf H b = some x := hx
      simp only [Bool.false_eq_true, if_false, hx, hx']
      rfl

theorem renderFeatures_flatJ (K : Consts) (ts : TypeSystem) (cass : List Cas) (H : Heap) (a : Nat) (g : Feature → List (String × JV)) :
    ∀ (fs : List Feature), (∀ f ∈ fs, renderFeature K ts cass H a f = .ok (g f)) →
      renderFeatures K ts cass H a fs = .ok (fs.flatMap g)
  | [], _ => rfl
  | f :: fs, h => by
    unfold renderFeatures
    rw [h f List.mem_cons_self, renderFeatures_flatJ K ts cass H a g fs (fun f' hf' => h f' (List.mem_cons_of_mem _ hf'))]
    rfl

theorem renderFeatures_ok_each (K : Consts) (ts : TypeSystem) (cass : List Cas) (H : Heap) (a : Nat) :
    ∀ (fs : List Feature) (r : List (String × JV)), renderFeatures K ts cass H a fs = .ok r →
      ∀ f ∈ fs, ∃ r', renderFeature K ts cass H a f = .ok r'
  | [], _, _, f, hf => by cases hf
  | f0 :: fs, r, h, f, hf => by
    unfold renderFeatures at h
    simp only [bind, Except.bind] at h
    cases h1 : renderFeature K ts cass H a f0 with
    | error e => rw [h1] at h; cases h
    | ok r1 =>
      rw [h1] at h
      dsimp only at h
      cases h2 : renderFeatures K ts cass H a fs with
      | error e => rw [h2] at h; cases h
      | ok r2 =>
        rcases List.mem_cons.mp hf with rfl | hf'
        · exact ⟨r1, h1⟩
        · exact renderFeatures_ok_each K ts cass H a fs r2 h2 f hf'

/-- a `sofa` feature that holds a sofa and was written has a structure range -/
theorem sofaRange_of_ok (K : Consts) (ts : TypeSystem) (cass : List Cas) (H : Heap) (a : Nat) (o : Obj) (f : Feature)
    (ho : H[a]? = some o) (hres : ResOk f) (ci : Nat) (vn : String)
    (hv : alistGet? o.slots f.name = some (.sofa ci vn)) (hn : f.name = "sofa")
    (r : List (String × JV)) (h : renderFeature K ts cass H a f = .ok r) :
    f.range ≠ "uima.cas.Double" ∧ f.range ≠ "uima.cas.Float" ∧ isPrimitive K ts f.range = false := by
  have hs : ∀ n, Xmi.slot H a n = alistGet? o.slots n := by
    intro n; unfold Xmi.slot Traverse.slot; rw [ho]; rfl
  rw [renderFeature_eq] at h
  have hx : (f.name == "xmiID" || f.name == "type") = false := by rw [hn]; decide
  rw [hx] at h
  simp only [Bool.false_eq_true, if_false, hs, hv, Option.getD_some, xmlName_def] at h
  have hne : ¬ ((Val.sofa ci vn == Val.none) = true) := by simp
  rw [if_neg hne] at h
  have hst : stage1 cass H a f (xmlName f) (.sofa ci vn) = .ok (.sofa ci vn) := by
    unfold stage1
    rw [xmlName_begin f hres, xmlName_end f hres]
    have : (f.domain == ANNOTATION && (f.name == "begin" || f.name == "end")) = false := by
      rw [hn]
      have : (("sofa" : String) == "begin" || ("sofa" : String) == "end") = false := by decide
      rw [this]; simp
    rw [this]; rfl
  rw [hst] at h
  change stage2 K ts cass H f (xmlName f) (Val.sofa ci vn) = _ at h
  unfold stage2 at h
  by_cases e1 : (f.range == "uima.cas.Double" || f.range == "uima.cas.Float") = true
  · rw [if_pos e1] at h; cases h
  · rw [if_neg e1] at h
    by_cases e2 : isPrimitive K ts f.range = true
    · rw [if_pos e2] at h; cases h
    · simp only [Bool.or_eq_true, beq_iff_eq, not_or] at e1
      exact ⟨e1.1, e1.2, by simpa using e2⟩

/-- the element written for a flat structure -/
def flatJFs (ts : TypeSystem) (cass : List Cas) (H : Heap) (x : Int) (o : Obj) (t : TypeRec) : JFs :=
  { id := some x, ty := o.ty, elements := none,
    feats := (allFeatures t).flatMap (jmemF cass H (isInstanceOf ts o.ty ANNOTATION) o) }

/-- the same element with the members under the stored names -/
def flatJFsS (ts : TypeSystem) (cass : List Cas) (H : Heap) (x : Int) (o : Obj) (t : TypeRec) : JFs :=
  { id := some x, ty := o.ty, elements := none,
    feats := (allFeatures t).flatMap (jmemFS cass H (isInstanceOf ts o.ty ANNOTATION) o) }

/-- the annotation clause of `FlatFs`, as the writer needs it -/
theorem flat_ann_sofa {K : Consts} {ts : TypeSystem} {c : Cas} {ci : Nat} {H : Heap} {a : Nat} {o : Obj}
    (hfl : FlatFs K ts c ci H a) (ho : H[a]? = some o) :
    isInstanceOf ts o.ty ANNOTATION = true →
      ∃ vn view, alistGet? o.slots "sofa" = some (.sofa ci vn) ∧ Cas.getViewRec c vn = some view := by
  intro hA
  obtain ⟨o', t, ho', _, _, _, _, _, _, _, _, _, _, _, _, _, hann⟩ := hfl
  rw [ho] at ho'; cases ho'
  obtain ⟨vn, v, _, _, _, h1, h2, _⟩ := hann hA
  exact ⟨vn, v, h1, h2⟩

theorem renderFs_flatJ (K : Consts) (ts : TypeSystem) (cass : List Cas) (c : Cas) (ci : Nat) (H : Heap) (a : Nat) (x : Int)
    (o : Obj) (t : TypeRec) (hc : cass[ci]? = some c) (hfl : FlatFs K ts c ci H a) (ho : H[a]? = some o)
    (ht : find? ts o.ty = some t) (hx : xidOf H a = some x)
    (hdom : ∀ f ∈ allFeatures t, DomOk (isInstanceOf ts o.ty ANNOTATION) f)
    (hsr : ∀ f ∈ allFeatures t, SofaRangeOk K ts o f) :
    renderFs K ts cass H a = .ok (flatJFs ts cass H x o t) := by
  have hann := flat_ann_sofa hfl ho
  obtain ⟨o', t', ho', ht', _, _, _, _, hpa, hfa, _, _, _, _, _, hfeat, _⟩ := hfl
  rw [ho] at ho'; cases ho'
  rw [ht] at ht'; cases ht'
  have hxid : o.xid = some x := by
    unfold xidOf at hx; rw [ho] at hx; exact hx
  unfold renderFs
  simp only [bind, Except.bind, pure, Except.pure]
  rw [ho]
  dsimp only
  have hfa' : (o.ty == FS_ARRAY) = false := by simp [hfa]
  rw [hpa, hfa']
  simp only [Bool.or_self, Bool.false_eq_true, if_false]
  rw [getType_of_find ht]
  dsimp only
  rw [renderFeatures_flatJ K ts cass H a (jmemF cass H (isInstanceOf ts o.ty ANNOTATION) o) (allFeatures t)
    (fun f hf => renderFeature_flatJ K ts cass c ci H a _ o f hc ho (hfeat f hf) (hdom f hf) (hsr f hf) hann)]
  dsimp only
  rw [hxid]
  rfl

theorem renderAll_ok_each (K : Consts) (ts : TypeSystem) (cass : List Cas) (H : Heap) :
    ∀ (L : List (Int × Nat)) (es : List JFs), renderAll K ts cass H L = .ok es →
      ∀ q ∈ L, ∃ e, renderFs K ts cass H q.2 = .ok e
  | [], _, _, q, hq => by cases hq
  | q0 :: L, es, h, q, hq => by
    unfold renderAll at h
    simp only [bind, Except.bind] at h
    cases h1 : renderFs K ts cass H q0.2 with
    | error e => rw [h1] at h; cases h
    | ok r1 =>
      rw [h1] at h
      dsimp only at h
      cases h2 : renderAll K ts cass H L with
      | error e => rw [h2] at h; cases h
      | ok r2 =>
        rcases List.mem_cons.mp hq with rfl | hq'
        · exact ⟨r1, h1⟩
        · exact renderAll_ok_each K ts cass H L r2 h2 q hq'

theorem sofaRange_of_renderFs (K : Consts) (ts : TypeSystem) (cass : List Cas) (c : Cas) (ci : Nat) (H : Heap) (a : Nat)
    (o : Obj) (t : TypeRec) (hfl : FlatFs K ts c ci H a) (ho : H[a]? = some o) (ht : find? ts o.ty = some t)
    (e : JFs) (h : renderFs K ts cass H a = .ok e) : ∀ f ∈ allFeatures t, SofaRangeOk K ts o f := by
  obtain ⟨o', t', ho', ht', _, _, _, _, hpa, hfa, _, _, _, _, _, hfeat, _⟩ := hfl
  rw [ho] at ho'; cases ho'
  rw [ht] at ht'; cases ht'
  unfold renderFs at h
  simp only [bind, Except.bind, pure, Except.pure] at h
  rw [ho] at h
  dsimp only at h
  have hfa' : (o.ty == FS_ARRAY) = false := by simp [hfa]
  rw [hpa, hfa'] at h
  simp only [Bool.or_self, Bool.false_eq_true, if_false] at h
  rw [getType_of_find ht] at h
  dsimp only at h
  cases hr : renderFeatures K ts cass H a (allFeatures t) with
  | error err => rw [hr] at h; cases h
  | ok r =>
    intro f hf hn hne
    obtain ⟨r', hr'⟩ := renderFeatures_ok_each K ts cass H a _ r hr f hf
    obtain ⟨hres, _, _, _, _, _, _, _, _, _, _, v, hv, hcase⟩ := hfeat f hf
    rw [hv, Option.getD_some] at hne
    rcases hcase with ⟨_, hsofa⟩ | ⟨hn', _⟩ | ⟨hn', _⟩
    · rcases hsofa with ⟨vn, rfl, _⟩ | ⟨rfl, _⟩
      · exact sofaRange_of_ok K ts cass H a o f ho hres ci vn hv hn r' hr'
      · exact absurd rfl hne
    · exact absurd hn hn'
    · exact absurd hn hn'

/-- the element of the document that stands for the collected structure `q` -/
def elemOf (ts : TypeSystem) (cass : List Cas) (H : Heap) (q : Int × Nat) : JFs :=
  match H[q.2]? with
  | some o =>
    match find? ts o.ty with
    | some t => flatJFs ts cass H q.1 o t
    | none => default
  | none => default

theorem renderAll_eq_map (K : Consts) (ts : TypeSystem) (cass : List Cas) (H : Heap) :
    ∀ (L : List (Int × Nat)), (∀ q ∈ L, renderFs K ts cass H q.2 = .ok (elemOf ts cass H q)) →
      renderAll K ts cass H L = .ok (L.map (elemOf ts cass H))
  | [], _ => rfl
  | q :: L, h => by
    unfold renderAll
    rw [h q List.mem_cons_self, renderAll_eq_map K ts cass H L (fun q' hq' => h q' (List.mem_cons_of_mem _ hq'))]
    rfl

end Cassis.Json
