/-
Round trip with collections, layer IL, part B: the slot facts (`Slot1` in, `Slot2` out), `postFeature` evaluated on a
list feature, and the common conclusions.
-/
import CassisModel.Proofs.RoundTripCollPostListA

namespace Cassis.Xmi.CIL
open Cassis.TS Cassis.Traverse Cassis.Lex Cassis.Xmi

/-! ### slots -/

theorem inlineSlot_true {K : Consts} {ts : TypeSystem} {o : Obj} {t : TypeRec} {f : Feature}
    (ht : find? ts o.ty = some t) (hf : f ∈ allFeatures t) (hnd : (ctorFields t).Nodup) (hi : isInline K f = true) :
    inlineSlot K ts o f.name = true := by
  unfold inlineSlot
  simp only [ht, find_name_nodup (allFeatures t) f hf hnd, hi]

theorem isInline_list {K : Consts} {f : Feature} (hm : f.multi.getD false = false) (hl : isList K f.range = true) :
    isInline K f = true := by
  unfold isInline
  simp only [hm, hl, Bool.not_false, Bool.or_true, Bool.and_self]

theorem inl1R_of_slot1 {K : Consts} {ts : TypeSystem} {cass : List Cas} {H hpX : Heap} {o : Obj} {t : TypeRec}
    {f : Feature} {c : Nat} {w : Val}
    (ht : find? ts o.ty = some t) (hf : f ∈ allFeatures t) (hnd : (ctorFields t).Nodup) (hi : isInline K f = true)
    (h : Slot1 K ts cass H hpX o f.name (.ref c) w) : Inl1R H hpX f.range c w := by
  obtain ⟨t', f', h1, h2, h3, h4⟩ := h.1 c rfl (inlineSlot_true ht hf hnd hi)
  rw [ht] at h1
  cases h1
  have := mem_name_unique (allFeatures t) f f' hf h2 h3 hnd
  subst this
  exact h4

theorem slot1_none {K : Consts} {ts : TypeSystem} {cass : List Cas} {H hpX : Heap} {o : Obj} {n : String} {w : Val}
    (h : Slot1 K ts cass H hpX o n .none w) : w = .none := by
  have := h.2.2 (fun c hc => by cases hc) rfl
  rw [this]
  rfl

theorem slot2_none (K : Consts) (ts : TypeSystem) (cass : List Cas) (H : Heap) (na : Int → Nat) (ci' : Nat)
    (hpY : Heap) (o : Obj) (n : String) : Slot2 K ts cass H na ci' hpY o n .none .none :=
  ⟨fun c hc => (by cases hc), fun h => (by cases h), fun _ _ => rfl⟩

theorem slot2_ref (K : Consts) (ts : TypeSystem) (cass : List Cas) (H : Heap) (na : Int → Nat) (ci' : Nat)
    (hpY : Heap) (o : Obj) (t : TypeRec) (f : Feature) (c addr : Nat) (hs : List Val)
    (ht : find? ts o.ty = some t) (hf : f ∈ allFeatures t) (hnd : (ctorFields t).Nodup) (hi : isInline K f = true)
    (harr : isArray K f.range = false) (hc : collectList H (H.length + 1) (.ref c) = .ok hs)
    (hl : ListAt hpY addr (hs.map (headExp H na))) (hlen : hs.length < hpY.length) :
    Slot2 K ts cass H na ci' hpY o f.name (.ref c) (.ref addr) := by
  refine ⟨fun c' hc' _ => ?_, fun h => (by cases h), fun h _ => ?_⟩
  · cases hc'
    exact ⟨addr, rfl, t, f, ht, hf, rfl, .inr ⟨harr, hs, hc, hl, hlen⟩⟩
  · have := h c rfl
    rw [inlineSlot_true ht hf hnd hi] at this
    cases this

/-- after the builder: set the slot, and the list is still there -/
theorem finish_build {hpX : Heap} {a' : Nat} {o' : Obj} {n : String} {w : Val} (nodes : List Obj) (l : Nat)
    (vals : List Val) (k : Nat)
    (ho' : hpX[a']? = some o') (hx : o'.xid ≠ none) (hw : alistGet? o'.slots n = some w)
    (hn : ∀ ob ∈ nodes, ob.xid = none) (hlen : nodes.length = k + 1) (hl : ListAt (hpX ++ nodes) l vals) :
    ∃ hpY, Heap.setSlot (hpX ++ nodes) a' n (.ref l) = .ok hpY ∧ StepX hpX hpY a' n (.ref l) ∧
      ListAt hpY l vals ∧ k < hpY.length := by
  have ho2 : (hpX ++ nodes)[a']? = some o' := by
    rw [List.getElem?_append_left (List.getElem?_eq_some_iff.mp ho').1]; exact ho'
  obtain ⟨hpY, h1, h2⟩ := setSlot_step (.ref l) ho2 hw
  refine ⟨hpY, h1, ⟨nodes, hn, h2⟩, ?_, ?_⟩
  · have hfrz : Frz (hpX ++ nodes) hpY := by
      unfold Heap.setSlot at h1
      simp only [ho2, hw] at h1
      cases h1
      exact Frz.set ho2 hx
    exact ListAt.frz hfrz hl
  · rw [h2.1, List.length_append, hlen]; omega

/-! ### `postFeature` on a list feature -/

theorem postFeature_primList_str (K : Consts) (ts : TypeSystem) (tsIdx ci' : Nat) (sofas : List (Int × PSofa))
    (fss : List (Int × Nat)) (hpX : Heap) (a : Nat) (ty : String) (f : Feature) (o1 : Obj) (s : String)
    (hp' : Heap) (l : Nat)
    (hname : f.name ≠ "sofa") (hprim : isPrimitive K ts f.range = false)
    (hty : isPrimitiveArray K ty = false) (hr1 : isPrimitiveArray K f.range = false)
    (hr2 : isPrimitiveList K f.range = true) (hm : f.multi.getD false = false)
    (h1 : hpX[a]? = some o1) (h2 : alistGet? o1.slots f.name = some (.str s))
    (hb : buildPrimList hpX tsIdx f.range ((splitWs s).map some) = .ok (hp', l)) :
    postFeature K ts tsIdx ci' sofas fss hpX a ty false f = Heap.setSlot hp' a f.name (.ref l) := by
  unfold postFeature
  simp only [rtp_slot h1 h2]
  simp only [beq_eq_false_iff_ne.2 hname, Bool.false_eq_true, if_false, hprim, hty, hr1, hr2, hm, Bool.false_and,
    Bool.not_false, Bool.and_self, if_true, hb]
  rfl

theorem postFeature_primList_ref (K : Consts) (ts : TypeSystem) (tsIdx ci' : Nat) (sofas : List (Int × PSofa))
    (fss : List (Int × Nat)) (hpX : Heap) (a : Nat) (ty : String) (f : Feature) (o1 : Obj) (addr : Nat)
    (hname : f.name ≠ "sofa") (hprim : isPrimitive K ts f.range = false)
    (hty : isPrimitiveArray K ty = false) (hr1 : isPrimitiveArray K f.range = false)
    (hr2 : isPrimitiveList K f.range = true) (hm : f.multi.getD false = false)
    (h1 : hpX[a]? = some o1) (h2 : alistGet? o1.slots f.name = some (.ref addr)) :
    postFeature K ts tsIdx ci' sofas fss hpX a ty false f = .ok hpX := by
  unfold postFeature
  simp only [rtp_slot h1 h2]
  simp only [beq_eq_false_iff_ne.2 hname, Bool.false_eq_true, if_false, hprim, hty, hr1, hr2, hm, Bool.false_and,
    Bool.not_false, Bool.and_self, if_true]
  rfl

theorem postFeature_primList_none (K : Consts) (ts : TypeSystem) (tsIdx ci' : Nat) (sofas : List (Int × PSofa))
    (fss : List (Int × Nat)) (hpX : Heap) (a : Nat) (ty : String) (f : Feature) (o1 : Obj)
    (hname : f.name ≠ "sofa") (hprim : isPrimitive K ts f.range = false)
    (hty : isPrimitiveArray K ty = false) (hr1 : isPrimitiveArray K f.range = false)
    (hr2 : isPrimitiveList K f.range = true) (hm : f.multi.getD false = false)
    (h1 : hpX[a]? = some o1) (h2 : alistGet? o1.slots f.name = some .none) :
    postFeature K ts tsIdx ci' sofas fss hpX a ty false f = .ok hpX := by
  unfold postFeature
  simp only [rtp_slot h1 h2]
  simp only [beq_eq_false_iff_ne.2 hname, Bool.false_eq_true, if_false, hprim, hty, hr1, hr2, hm, Bool.false_and,
    Bool.not_false, Bool.and_self, if_true]
  rfl

theorem postFeature_fsList_str (K : Consts) (ts : TypeSystem) (tsIdx ci' : Nat) (sofas : List (Int × PSofa))
    (fss : List (Int × Nat)) (hpX : Heap) (a : Nat) (ty : String) (f : Feature) (o1 : Obj) (s : String)
    (targets : List Nat)
    (hname : f.name ≠ "sofa") (hprim : isPrimitive K ts f.range = false)
    (hty : isPrimitiveArray K ty = false) (hr1 : isPrimitiveArray K f.range = false)
    (hr2 : isPrimitiveList K f.range = false) (hty2 : ty ≠ FS_ARRAY) (hr : f.range = FS_LIST)
    (hm : f.multi.getD false = false)
    (h1 : hpX[a]? = some o1) (h2 : alistGet? o1.slots f.name = some (.str s))
    (hres : resolveIds fss (splitWs s) = .ok targets) :
    postFeature K ts tsIdx ci' sofas fss hpX a ty false f =
      Heap.setSlot (buildFsList hpX tsIdx targets).1 a f.name (.ref (buildFsList hpX tsIdx targets).2) := by
  have hne : (FS_LIST == FS_ARRAY) = false := by decide
  rw [hr] at hprim hr1 hr2
  unfold postFeature
  simp only [rtp_slot h1 h2]
  simp only [beq_eq_false_iff_ne.2 hname, Bool.false_eq_true, if_false, hprim, hty, hr1, hr2, hm, Bool.false_and,
    beq_eq_false_iff_ne.2 hty2, hr, hne, Bool.or_self, Bool.not_false, Bool.and_self, Bool.and_true, beq_self_eq_true, if_true, hres]
  rfl

/-! ### the three conclusions -/

theorem conclude_none (K : Consts) (ts : TypeSystem) (cass : List Cas) (H : Heap) (na : Int → Nat)
    (tsIdx ci' : Nat) (sofas : List (Int × PSofa)) (fss : List (Int × Nat)) (hpX : Heap) (a' : Nat) (o o' : Obj)
    (f : Feature) (ho' : hpX[a']? = some o') (hw : alistGet? o'.slots f.name = some .none)
    (hpf : postFeature K ts tsIdx ci' sofas fss hpX a' o.ty false f = .ok hpX) :
    ∃ (hpY : Heap) (w' : Val), postFeature K ts tsIdx ci' sofas fss hpX a' o.ty false f = .ok hpY ∧
      StepX hpX hpY a' f.name w' ∧ Slot2 K ts cass H na ci' hpY o f.name .none w' :=
  ⟨hpX, .none, hpf, ⟨[], fun _ h => (by cases h), by rw [List.append_nil]; exact Step.same ho' hw⟩,
    slot2_none K ts cass H na ci' hpX o f.name⟩

theorem conclude_same (K : Consts) (ts : TypeSystem) (cass : List Cas) (H : Heap) (na : Int → Nat)
    (tsIdx ci' : Nat) (sofas : List (Int × PSofa)) (fss : List (Int × Nat)) (hpX : Heap) (a' : Nat) (o o' : Obj)
    (t : TypeRec) (f : Feature) (c addr : Nat) (hs : List Val)
    (ht : find? ts o.ty = some t) (hf : f ∈ allFeatures t) (hnd : (ctorFields t).Nodup) (hi : isInline K f = true)
    (harr : isArray K f.range = false) (hc : collectList H (H.length + 1) (.ref c) = .ok hs)
    (ho' : hpX[a']? = some o') (hw : alistGet? o'.slots f.name = some (.ref addr))
    (hl : ListAt hpX addr (hs.map (headExp H na))) (hlen : hs.length < hpX.length)
    (hpf : postFeature K ts tsIdx ci' sofas fss hpX a' o.ty false f = .ok hpX) :
    ∃ (hpY : Heap) (w' : Val), postFeature K ts tsIdx ci' sofas fss hpX a' o.ty false f = .ok hpY ∧
      StepX hpX hpY a' f.name w' ∧ Slot2 K ts cass H na ci' hpY o f.name (.ref c) w' :=
  ⟨hpX, .ref addr, hpf, ⟨[], fun _ h => (by cases h), by rw [List.append_nil]; exact Step.same ho' hw⟩,
    slot2_ref K ts cass H na ci' hpX o t f c addr hs ht hf hnd hi harr hc hl hlen⟩

theorem conclude_build (K : Consts) (ts : TypeSystem) (cass : List Cas) (H : Heap) (na : Int → Nat)
    (tsIdx ci' : Nat) (sofas : List (Int × PSofa)) (fss : List (Int × Nat)) (hpX : Heap) (a' : Nat) (o o' : Obj)
    (t : TypeRec) (f : Feature) (c : Nat) (hs : List Val) (w : Val) (nodes : List Obj) (l : Nat)
    (ht : find? ts o.ty = some t) (hf : f ∈ allFeatures t) (hnd : (ctorFields t).Nodup) (hi : isInline K f = true)
    (harr : isArray K f.range = false) (hc : collectList H (H.length + 1) (.ref c) = .ok hs)
    (ho' : hpX[a']? = some o') (hx : o'.xid ≠ none) (hw : alistGet? o'.slots f.name = some w)
    (hn : ∀ ob ∈ nodes, ob.xid = none) (hlen : nodes.length = hs.length + 1)
    (hl : ListAt (hpX ++ nodes) l (hs.map (headExp H na)))
    (hpf : postFeature K ts tsIdx ci' sofas fss hpX a' o.ty false f = Heap.setSlot (hpX ++ nodes) a' f.name (.ref l)) :
    ∃ (hpY : Heap) (w' : Val), postFeature K ts tsIdx ci' sofas fss hpX a' o.ty false f = .ok hpY ∧
      StepX hpX hpY a' f.name w' ∧ Slot2 K ts cass H na ci' hpY o f.name (.ref c) w' := by
  obtain ⟨hpY, h1, h2, h3, h4⟩ := finish_build nodes l _ hs.length ho' hx hw hn hlen hl
  exact ⟨hpY, .ref l, hpf.trans h1, h2, slot2_ref K ts cass H na ci' hpY o t f c l hs ht hf hnd hi harr hc h3 h4⟩

end Cassis.Xmi.CIL
