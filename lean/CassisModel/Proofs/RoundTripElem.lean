/-
Round trip, layers 0 and 1 for one flat structure: the element the writer produces, and the object the first pass
of the reader builds from it.
-/
import CassisModel.Proofs.RoundTripWriter
import CassisModel.Proofs.RoundTripReader1

namespace Cassis.Xmi
open Cassis.TS Cassis.Traverse Cassis.Lex

/-- the value the reader stores for one flat feature -/
theorem flat_slot_val (K : Consts) (ts : TypeSystem) (cass : List Cas) (c : Cas) (ci : Nat) (H : Heap) (isAnn : Bool)
    (o : Obj) (f : Feature) (A : List (String × String)) (v : Val) (hc : cass[ci]? = some c)
    (hf : FlatFeat K ts c ci H isAnn o f) (hv : alistGet? o.slots f.name = some v)
    (hA : alistGet? A f.name = flatTok cass H isAnn o f.name v) :
    (alistGet? (mergedOf A) f.name).getD .none = exp1 cass H isAnn o f.name v := by
  obtain ⟨v', hv', hcase⟩ := hf.2.2.2.2.2.2.2.2.2.2.2
  rw [hv] at hv'
  cases hv'
  have hnotsofa : f.name ≠ "sofa" → (∀ ci vn, v ≠ .sofa ci vn) →
      (alistGet? (mergedOf A) f.name).getD .none = exp1 cass H isAnn o f.name v := by
    intro hn hvs
    rw [mergedOf_get_ne A f.name hn, hA]
    exact exp1_of_flatTok cass H isAnn o f.name v hvs
  rcases hcase with ⟨hn, hsofa⟩ | ⟨hn, hp, hprim⟩ | ⟨hn, hp, _, _, hb1, hb2, hb3, href⟩
  · rw [hn] at hA ⊢
    rcases hsofa with ⟨vn, rfl, hsome⟩ | ⟨h, _⟩
    · cases hg : Cas.getViewRec c vn with
      | none => rw [hg] at hsome; cases hsome
      | some view =>
        have hview : (cass[ci]?).bind (fun c => Cas.getViewRec c vn) = some view := by
          rw [hc]; exact hg
        have hA' : alistGet? A "sofa" = some (showInt view.sofa.xid) := by
          rw [hA]; unfold flatTok; simp only [hview, Option.map_some]
        rw [mergedOf_get_sofa A _ _ hA' (parseInt_showInt_aux _)]
        unfold exp1
        simp only [hview, Option.getD_some]
    · subst h
      have hA' : alistGet? A "sofa" = none := by rw [hA]; rfl
      rw [mergedOf_get_sofa_none A hA']
      rfl
  · apply hnotsofa hn
    rcases hprim with h | ⟨_, i, h⟩ | ⟨_, s, h⟩ | ⟨_, b, h⟩ | ⟨_, t, h⟩ <;> subst h <;> intro _ _ hh <;> cases hh
  · apply hnotsofa hn
    rcases href with h | ⟨b, h, _⟩ <;> subst h <;> intro _ _ hh <;> cases hh

/-- the `sofa` attribute of a flat structure is an integer literal -/
theorem flat_sofa_attr (K : Consts) (ts : TypeSystem) (cass : List Cas) (c : Cas) (ci : Nat) (H : Heap) (isAnn : Bool)
    (o : Obj) (fs : List Feature) (hc : cass[ci]? = some c) (hn : (fs.map (·.name)).Nodup)
    (hf : ∀ f ∈ fs, FlatFeat K ts c ci H isAnn o f) (s : String)
    (h : alistGet? (flatAttrs cass H isAnn o fs) "sofa" = some s) : (parseInt s).isSome = true := by
  by_cases hm : "sofa" ∈ fs.map (·.name)
  · obtain ⟨f, hfm, hfn⟩ := List.mem_map.mp hm
    have hg := flatAttrs_get cass H isAnn o fs hn f hfm
    have hff := hf f hfm
    obtain ⟨v, hv, hcase⟩ := hff.2.2.2.2.2.2.2.2.2.2.2
    rw [hv, Option.getD_some, hfn, h] at hg
    rcases hcase with ⟨_, hsofa⟩ | ⟨hne, _⟩ | ⟨hne, _⟩
    · rcases hsofa with ⟨vn, rfl, hsome⟩ | ⟨rfl, _⟩
      · cases hg' : Cas.getViewRec c vn with
        | none => rw [hg'] at hsome; cases hsome
        | some view =>
          have hview : (cass[ci]?).bind (fun c => Cas.getViewRec c vn) = some view := by
            rw [hc]; exact hg'
          unfold flatTok at hg
          simp only [hview, Option.map_some, Option.some.injEq] at hg
          rw [hg, parseInt_showInt_aux]; rfl
      · cases hg
    · exact absurd hfn hne
    · exact absurd hfn hne
  · rw [flatAttrs_get_not_mem cass H isAnn o fs "sofa" hm] at h
    cases h

theorem flat_elem (K : Consts) (ts : TypeSystem) (cass : List Cas) (c : Cas) (ci : Nat) (H : Heap) (tsIdx : Nat) (a : Nat)
    (x : Int) (hc : cass[ci]? = some c) (hflat : FlatFs K ts c ci H a) (hid : xidOf H a = some x) :
    ∃ (o o1 : Obj) (e : XElem), H[a]? = some o ∧ renderFs K ts cass H a = .ok e ∧ e.ty ≠ SOFA ∧ e.ty ≠ VIEW_T ∧
      (∀ hpCur, parseFsElem K ts tsIdx hpCur e = .ok (hpCur ++ [o1], x, hpCur.length)) ∧
      ObjRel (E1 ts cass H o) o o1 x := by
  obtain ⟨o, t, ho, ht, htn, _, _, _, hpa, hfa, _, hns, hnv, hnd, hslots, hfeat, hann⟩ := hflat
  have hox : o.xid = some x := by
    unfold xidOf at hid; rw [ho] at hid; exact hid
  have hAnn : AnnSofa cass (isInstanceOf ts o.ty ANNOTATION) o := by
    intro h
    obtain ⟨vn, v, _, _, _, hs, hv, _⟩ := hann h
    exact ⟨ci, vn, v, hs, by rw [hc]; exact hv⟩
  have hgt : getTypeExact ts o.ty = .ok t := by unfold getTypeExact; rw [ht]
  refine ⟨o, objOf t tsIdx x (flatAttrs cass H (isInstanceOf ts o.ty ANNOTATION) o (allFeatures t)),
    flatElem ts cass H x o t, ho, ?_, hns, hnv, ?_, ?_⟩
  · exact renderFs_flat K ts cass c ci H a x o t hc ho ht hox hpa hfa hfeat hAnn
  · intro hpCur
    have hren := flatAttrsW_ren cass H (isInstanceOf ts o.ty ANNOTATION) o (allFeatures t)
      (fun f hf => ⟨(hfeat f hf).1, (hfeat f hf).2.2.2.1, (hfeat f hf).2.2.1⟩)
    rw [← hren]
    apply parseFsElem_flat K ts tsIdx hpCur (flatElem ts cass H x o t) t x _ hgt rfl rfl
    · intro p hp
      obtain ⟨f, hf, hpf⟩ := flatAttrsW_keys _ _ _ _ _ p hp
      have hff := hfeat f hf
      rw [hpf, renRes_xmlName f hff.1 hff.2.2.2.1 hff.2.2.1]
      refine ⟨?_, List.mem_map_of_mem hf⟩
      intro he
      exact hff.2.2.2.2.1 ((xmlName_eq_iff f hff.1 ID (by decide) (by decide) (by decide) (by decide)).mp he)
    · intro s hs
      rw [← alistGet?_mapKey renRes "sofa" renRes_sofa, hren] at hs
      exact flat_sofa_attr K ts cass c ci H _ o (allFeatures t) hc hnd hfeat s hs
  · refine ⟨htn, rfl, ?_, ?_⟩
    · unfold objOf
      dsimp only
      rw [List.map_map, hslots]
      exact List.map_id _
    · intro n v hv
      have hmem : n ∈ ctorFields t := by
        have : n ∈ o.slots.map (·.1) := (Cassis.Cas.alistGet?_isSome_iff o.slots n).mp (by rw [hv]; rfl)
        rw [hslots, List.mem_eraseDups] at this
        exact this
      obtain ⟨f, hf, hfn⟩ := List.mem_map.mp hmem
      subst hfn
      unfold objOf
      dsimp only
      rw [alistGet?_map_self _ _ _ (List.mem_eraseDups.mpr hmem)]
      congr 1
      apply flat_slot_val K ts cass c ci H _ o f _ v hc (hfeat f hf) hv
      rw [flatAttrs_get cass H _ o (allFeatures t) hnd f hf, hv]
      rfl

end Cassis.Xmi
