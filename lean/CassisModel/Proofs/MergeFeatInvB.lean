/-
Helper lemmas for `Properties/C13FeatInv.lean`, part B: the weakened feature invariant `WInv ts r L` — `FeatInv`
everywhere except that the inherited features of the one type `r` are (by name and definition) those of the list `L`
instead of the effective features of its supertype — and what one `pushInherited f _ ts [r]` does to it: it becomes
`WInv ts' r (L ++ [f])`, provided no type of the subtree of `r` owns a different definition of `f.name` (`subtreeClash`)
and `f` agrees with `L`.  (`featInv_of_target` of `Proofs/Features.lean`, redone for a push that starts at `r` itself.)
-/
import CassisModel.Proofs.MergeFeatInvA

namespace Cassis.TS

structure WInv (ts : TypeSystem) (r : String) (L : List Feature) : Prop where
  ownNodup : ∀ t ∈ ts.types, (fnames t.own).Nodup
  inhNodup : ∀ t ∈ ts.types, (fnames t.inh).Nodup
  compat : ∀ t ∈ ts.types, ∀ f ∈ t.own, ∀ g ∈ t.inh, f.name = g.name → featureEq f g = true
  inherit : ∀ t ∈ ts.types, t.name ≠ r → ∀ s ps, t.super = some s → find? ts s = some ps →
      ∀ n, n ∈ fnames t.inh ↔ n ∈ fnames (allFeatures ps)
  inheritEq : ∀ t ∈ ts.types, t.name ≠ r → ∀ s ps, t.super = some s → find? ts s = some ps →
      ∀ g ∈ t.inh, ∀ f ∈ allFeatures ps, f.name = g.name → featureEq f g = true
  rootInh : ∀ t ∈ ts.types, t.super = none → t.inh = []
  top : ∀ t, find? ts r = some t → ∀ n, n ∈ fnames t.inh ↔ n ∈ fnames L
  topEq : ∀ t, find? ts r = some t → ∀ g ∈ t.inh, ∀ f ∈ L, f.name = g.name → featureEq f g = true

theorem WInv.inheritEq' {ts : TypeSystem} {r : String} {L : List Feature} (hf : WInv ts r L) {t ps : TypeRec}
    {s : String} (ht : t ∈ ts.types) (hr : t.name ≠ r) (hs : t.super = some s) (hps : find? ts s = some ps) :
    ∀ g ∈ t.inh, ∀ f ∈ ps.own ++ ps.inh, f.name = g.name → featureEq f g = true := by
  intro g hg f hfm e
  obtain ⟨y, hy, hyf⟩ := allFeatures_cover hfm
  have := hf.inheritEq t ht hr s ps hs hps g hg y hy ((featureEq_name hyf).trans e)
  exact featureEq_trans (featureEq_symm hyf) this

theorem WInv.inherit' {ts : TypeSystem} {r : String} {L : List Feature} (hf : WInv ts r L) {t ps : TypeRec}
    {s : String} (ht : t ∈ ts.types) (hr : t.name ≠ r) (hs : t.super = some s) (hps : find? ts s = some ps)
    (n : String) : n ∈ fnames t.inh ↔ n ∈ fnames ps.own ∨ n ∈ fnames ps.inh := by
  rw [hf.inherit t ht hr s ps hs hps n, mem_fnames_allFeatures]

/-- below `r` the invariant is intact, so inherited names are handed down -/
theorem WInv.downOK {ts : TypeSystem} {r : String} {L : List Feature} (hc : Consistent ts) (hf : WInv ts r L)
    {y : String} (hry : Anc ts r y) : DownOK ts y := by
  intro x hyx
  induction hyx with
  | refl _ =>
    intro ty tx hty htx n hn
    rw [hty] at htx; cases htx; exact hn
  | step x s tx hfx hs hys ih =>
    intro ty tx2 hty htx n hn
    have e : tx2 = tx := by rw [hfx] at htx; exact (Option.some.inj htx).symm
    rw [e]
    by_cases hxy : x = y
    · subst hxy; rw [hty] at hfx; cases hfx; exact hn
    · have hxr : tx.name ≠ r := by
        rw [find?_name hfx]
        intro e; subst e
        exact hxy (anc_antisymm hc hry (Anc.step y x s tx hfx hs hys))
      obtain ⟨ps, hps⟩ := (hasExact_iff_find ts s).mp hys.right_reg
      rw [hf.inherit' (find?_mem hfx) hxr hs hps]
      exact Or.inr (ih ty ps hty hps n hn)

/-- the result of a successful `pushInherited f _ ts0 [r]`, record by record -/
structure PushTarget (ts0 : TypeSystem) (r : String) (f : Feature) (ts' : TypeSystem) : Prop where
  skel : skel ts' = skel ts0
  recs : ∀ x t, find? ts0 x = some t → ∃ t', find? ts' x = some t' ∧ PStep ts0 f [r] x t t' ∧
    (Anc ts0 r x → f.name ∈ fnames t'.inh)

theorem pushTarget_of_push {ts ts' : TypeSystem} {r a : String} {f : Feature} {tr : TypeRec} (fuel : Nat)
    (hc : Consistent ts) (htr : find? ts r = some tr) (hsr : tr.super = some a)
    (hdown : ∀ y, Anc ts r y → DownOK ts y)
    (h : pushInherited f fuel ts [r] = .ok ts') : PushTarget ts r f ts' := by
  obtain ⟨Pb, Pc⟩ := push_specW ts hc f fuel ts [r] ts' a rfl
    (by intro c hc'; simp only [List.mem_singleton] at hc'; subst hc'; exact ⟨tr, htr, hsr⟩)
    (by simp) (fun _ _ _ _ => rfl)
    (by intro c hc' y hy; simp only [List.mem_singleton] at hc'; subst hc'; exact hdown y hy) h
  refine ⟨skel_pushInherited f fuel ts [r] ts' hc.nodup h, ?_⟩
  intro x t hx
  obtain ⟨t', ht', hst⟩ := Pb x t hx
  exact ⟨t', ht', hst, fun hax => Pc r List.mem_cons_self x hax t' ht'⟩

theorem PushTarget.cases {ts0 ts' : TypeSystem} {r : String} {f : Feature}
    (hT : PushTarget ts0 r f ts') {x : String} {t t' : TypeRec}
    (hx : find? ts0 x = some t) (hx' : find? ts' x = some t') :
    (Anc ts0 r x ∧ f.name ∉ fnames t.inh ∧ t' = { t with inh := t.inh ++ [f] }) ∨
    (t' = t ∧ (Anc ts0 r x → f.name ∈ fnames t.inh)) := by
  obtain ⟨t'', ht'', h2, h3⟩ := hT.recs x t hx
  rw [hx'] at ht''; cases ht''
  rcases h2 with e | ⟨e, hn, c, hc, hcx⟩
  · right
    refine ⟨e, fun ha => ?_⟩
    have := h3 ha
    rw [e] at this; exact this
  · left
    simp only [List.mem_singleton] at hc; subst hc
    exact ⟨hcx, hn, e⟩

theorem noClash_of {ts : TypeSystem} (hc : Consistent ts) (hown : ∀ t ∈ ts.types, (fnames t.own).Nodup)
    {r : String} {f : Feature} (hreg : hasExact ts r = true) (hdc : subtreeClash ts r f = false)
    {x : String} {tx : TypeRec} {g : Feature} (hax : Anc ts r x)
    (htx : find? ts x = some tx) (hg : g ∈ tx.own) (hgn : g.name = f.name) : featureEq g f = true := by
  unfold subtreeClash at hdc
  have hall := List.any_eq_false.mp hdc x ((descendants_eq_closure_aux ts hc r x hreg).mpr hax)
  have hfind : tx.own.find? (·.name == f.name) = some g := by
    rw [← hgn]; exact find_name_of_mem (hown tx (find?_mem htx)) hg
  simp only [htx, hfind] at hall
  simpa using hall

end Cassis.TS
