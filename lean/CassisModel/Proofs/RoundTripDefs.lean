/-
Shared definitions of the proof of the XMI round trip on the flat fragment (`Properties/C01RoundTrip.lean`).

Notation used throughout the `RoundTrip*` files:
* `H`  — the heap that is written (`st.heap`, after id assignment), `n0 = H.length`;
* `L`  — the collected structures `(id, address in H)` in document order (`sortById st.allFs`);
* `na` — the new address of the structure with a given id (`lookupFs p.fss id = .ok (na id)`);
* `E o n v` — the value expected in slot `n` of the *new* object that stands for the old object `o`, when the old
  slot value is `v`; there is one such function per phase of the reader (`exp1` after `pass1`, `exp2` after
  `postAll`, `exp3` after `buildCas`).
-/
import CassisModel.Spec.RoundTrip
import CassisModel.Spec.XmiDoc
import CassisModel.Proofs.ResName

namespace Cassis.Xmi
open Cassis.TS Cassis.Traverse Cassis.Lex

/-- the offset the writer puts into the document for the integer `i` held by slot `n` of `o` -/
def extInt (cass : List Cas) (isAnn : Bool) (o : Obj) (n : String) (i : Int) : Int :=
  if isAnn && (n == "begin" || n == "end") then
    match alistGet? o.slots "sofa" with
    | some (.sofa ci vn) =>
      match (cass[ci]?).bind (fun c => Cas.getViewRec c vn) with
      | some view => if i < 0 then i else (Offsets.pythonToExternal view.sofa.conv i.toNat : Nat)
      | none => i
    | _ => i
  else i

/-- the attribute value written for the slot value `v` of slot `n` (`none`: no attribute) -/
def flatTok (cass : List Cas) (H : Heap) (isAnn : Bool) (o : Obj) (n : String) (v : Val) : Option String :=
  match v with
  | .none => none
  | .sofa ci vn => ((cass[ci]?).bind (fun c => Cas.getViewRec c vn)).map (fun view => showInt view.sofa.xid)
  | .int i => some (showInt (extInt cass isAnn o n i))
  | .str s => some s
  | .bool b => some (showBool b)
  | .float t => some t
  | .ref b => (xidOf H b).map showInt
  | _ => none

def flatAttrs (cass : List Cas) (H : Heap) (isAnn : Bool) (o : Obj) : List Feature → List (String × String)
  | [] => []
  | f :: fs =>
    (match flatTok cass H isAnn o f.name ((alistGet? o.slots f.name).getD .none) with
     | some s => [(f.name, s)]
     | none => []) ++ flatAttrs cass H isAnn o fs

/-- the attributes as written: under the name the writer uses (`xmlName`: a reserved feature `self_` / `type_` is
    written as `self` / `type`).  `flatAttrs` above is the same list under the stored names — what the reader makes of
    it by renaming (`flatAttrsW_ren`). -/
def flatAttrsW (cass : List Cas) (H : Heap) (isAnn : Bool) (o : Obj) : List Feature → List (String × String)
  | [] => []
  | f :: fs =>
    (match flatTok cass H isAnn o f.name ((alistGet? o.slots f.name).getD .none) with
     | some s => [(xmlName f, s)]
     | none => []) ++ flatAttrsW cass H isAnn o fs

theorem flatAttrsW_ren (cass : List Cas) (H : Heap) (isAnn : Bool) (o : Obj) :
    ∀ (fs : List Feature), (∀ f ∈ fs, ResOk f ∧ f.name ≠ "self" ∧ f.name ≠ "type") →
      (flatAttrsW cass H isAnn o fs).map (fun p => (renRes p.1, p.2)) = flatAttrs cass H isAnn o fs
  | [], _ => rfl
  | f :: fs, h => by
    obtain ⟨h1, h2, h3⟩ := h f List.mem_cons_self
    unfold flatAttrsW flatAttrs
    rw [List.map_append, flatAttrsW_ren cass H isAnn o fs (fun g hg => h g (List.mem_cons_of_mem _ hg))]
    congr 1
    cases flatTok cass H isAnn o f.name ((alistGet? o.slots f.name).getD .none) with
    | none => rfl
    | some s =>
      show [(renRes (xmlName f), s)] = [(f.name, s)]
      rw [renRes_xmlName f h1 h2 h3]

/-- the element written for the flat structure `o` of type `t` carrying the id `x` -/
def flatElem (ts : TypeSystem) (cass : List Cas) (H : Heap) (x : Int) (o : Obj) (t : TypeRec) : XElem :=
  { ty := o.ty,
    attrs := (ID, showInt x) :: flatAttrsW cass H (isInstanceOf ts o.ty ANNOTATION) o (allFeatures t),
    kids := [] }

/-- slot value after `pass1`: the attribute string (the `sofa` attribute as an integer) -/
def exp1 (cass : List Cas) (H : Heap) (isAnn : Bool) (o : Obj) (n : String) (v : Val) : Val :=
  match v with
  | .none => .none
  | .sofa ci vn =>
    match (cass[ci]?).bind (fun c => Cas.getViewRec c vn) with
    | some view => .int view.sofa.xid
    | none => .none
  | .int i => .str (showInt (extInt cass isAnn o n i))
  | .str s => .str s
  | .bool b => .str (showBool b)
  | .float t => .str t
  | .ref b => match xidOf H b with | some x => .str (showInt x) | none => .none
  | _ => .none

/-- slot value after `postAll`: typed again, references resolved to new addresses, offsets still external -/
def exp2 (cass : List Cas) (H : Heap) (na : Int → Nat) (ci' : Nat) (isAnn : Bool) (o : Obj) (n : String) (v : Val) : Val :=
  match v with
  | .none => .none
  | .sofa _ vn => .sofa ci' vn
  | .int i => .int (extInt cass isAnn o n i)
  | .str s => .str s
  | .bool b => .bool b
  | .float t => .float t
  | .ref b => match xidOf H b with | some x => .ref (na x) | none => .none
  | _ => .none

/-- slot value after `buildCas`: offsets internal again -/
def exp3 (H : Heap) (na : Int → Nat) (ci' : Nat) (v : Val) : Val :=
  match v with
  | .none => .none
  | .sofa _ vn => .sofa ci' vn
  | .int i => .int i
  | .str s => .str s
  | .bool b => .bool b
  | .float t => .float t
  | .ref b => match xidOf H b with | some x => .ref (na x) | none => .none
  | _ => .none

/-- the per-object expectation functions of the three phases -/
def E1 (ts : TypeSystem) (cass : List Cas) (H : Heap) (o : Obj) : String → Val → Val :=
  exp1 cass H (isInstanceOf ts o.ty ANNOTATION) o
def E2 (ts : TypeSystem) (cass : List Cas) (H : Heap) (na : Int → Nat) (ci' : Nat) (o : Obj) : String → Val → Val :=
  exp2 cass H na ci' (isInstanceOf ts o.ty ANNOTATION) o
def E3 (H : Heap) (na : Int → Nat) (ci' : Nat) (_o : Obj) : String → Val → Val :=
  fun _ v => exp3 H na ci' v

/-- the new object `o'` stands for the old object `o` with id `x`: same type, id `x`, same slot names, and every
    slot holds the expected value -/
def ObjRel (E : String → Val → Val) (o o' : Obj) (x : Int) : Prop :=
  o'.ty = o.ty ∧ o'.xid = some x ∧ o'.slots.map (·.1) = o.slots.map (·.1) ∧
  ∀ (n : String) (v : Val), alistGet? o.slots n = some v → alistGet? o'.slots n = some (E n v)

/-- every collected structure has its counterpart at its new address -/
def HeapRel (H : Heap) (L : List (Int × Nat)) (na : Int → Nat) (E : Obj → String → Val → Val) (hpX : Heap) : Prop :=
  ∀ q ∈ L, ∃ (o o' : Obj), H[q.2]? = some o ∧ hpX[na q.1]? = some o' ∧ ObjRel (E o) o o' q.1

/-- new addresses are pairwise distinct and lie behind the old heap and the `cas:NULL` object (at `n0`) -/
structure NaOk (n0 : Nat) (L : List (Int × Nat)) (na : Int → Nat) : Prop where
  inj : ∀ q ∈ L, ∀ q' ∈ L, na q.1 = na q'.1 → q.1 = q'.1
  gt : ∀ q ∈ L, n0 < na q.1

def psofaOf (nv : String × View) : PSofa :=
  { xid := nv.2.sofa.xid, num := nv.2.sofa.sofaNum, sofaID := nv.2.sofa.sofaID, mime := nv.2.sofa.mime,
    text := nv.2.sofa.text.map docText }

def pviewOf (H : Heap) (nv : String × View) : PView :=
  { sofa := nv.2.sofa.xid, members := sortInts ((Index.all nv.2.idx).filterMap (fun e => xidOf H e.oid)) }

/-- the state of the reader after the first pass over the written document -/
structure P1Spec (ts : TypeSystem) (cass : List Cas) (c : Cas) (H : Heap) (L : List (Int × Nat)) (na : Int → Nat)
    (p : Pass1) : Prop where
  fss : p.fss = (0, H.length) :: L.map (fun q => (q.1, na q.1))
  sofas : p.sofas = c.views.map (fun nv => (nv.2.sofa.xid, psofaOf nv))
  views : p.views = c.views.map (fun nv => (nv.2.sofa.xid, pviewOf H nv))
  lenient : p.lenientIds = []
  len : p.heap.length = H.length + 1 + L.length
  null : ∃ o0 : Obj, p.heap[H.length]? = some o0 ∧ o0.ty = NULL_T ∧ o0.xid = some 0 ∧ o0.slots = []
  rel : HeapRel H L na (E1 ts cass H) p.heap

/-- closure of the collected structures under references (from `findAllFs_closed`) -/
def ClosedL (H : Heap) (L : List (Int × Nat)) : Prop :=
  ∀ q ∈ L, ∀ (o : Obj), H[q.2]? = some o → ∀ (n : String) (b : Nat), alistGet? o.slots n = some (.ref b) →
    ∃ x : Int, xidOf H b = some x ∧ (x, b) ∈ L

/-- what the proof needs to know about the collected structures -/
structure LOk (K : Consts) (ts : TypeSystem) (c : Cas) (ci : Nat) (H : Heap) (L : List (Int × Nat)) : Prop where
  flat : ∀ q ∈ L, FlatFs K ts c ci H q.2
  ids : ∀ q ∈ L, xidOf H q.2 = some q.1 ∧ q.1 ≠ 0
  nodup : (L.map (·.1)).Nodup
  closed : ClosedL H L
  /-- every indexed structure is collected -/
  members : ∀ nv ∈ c.views, ∀ e ∈ Index.all nv.2.idx, ∃ x : Int, (x, e.oid) ∈ L

/-- a loaded view against the view that was written: same key, same sofa data; the converter is the one the reader
    builds from the document text; the index holds exactly the members, at their new addresses -/
def ViewRel (H : Heap) (na : Int → Nat) (nv nv' : String × View) : Prop :=
  nv'.1 = nv.1 ∧ nv'.2.sofa.sofaID = nv.2.sofa.sofaID ∧ nv'.2.sofa.xid = nv.2.sofa.xid ∧
  nv'.2.sofa.sofaNum = nv.2.sofa.sofaNum ∧ nv'.2.sofa.text = nv.2.sofa.text ∧ nv'.2.sofa.mime = nv.2.sofa.mime ∧
  nv'.2.sofa.conv = convOfText (nv.2.sofa.text.map docText) ∧
  ((Index.all nv'.2.idx).map (·.oid)).Perm ((pviewOf H nv).members.map na)

/-- the loaded CAS has the written views, in the same order -/
def ViewsRelL (H : Heap) (na : Int → Nat) : List (String × View) → List (String × View) → Prop
  | [], [] => True
  | nv :: r, nv' :: r' => ViewRel H na nv nv' ∧ ViewsRelL H na r r'
  | _, _ => False

def ViewsRel (H : Heap) (na : Int → Nat) (c c' : Cas) : Prop := ViewsRelL H na c.views c'.views

end Cassis.Xmi
