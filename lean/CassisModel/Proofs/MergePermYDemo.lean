/-
Non-vacuity of `merge_perm_subtree_compete` (`Properties/C13PermSub.lean`): a Boolean test of its hypotheses, proved
sound, evaluated by the kernel on `demoSub` (`Proofs/MergeFeatInvDemo.lean`: `x.X`, with children `x.Y`, `x.Z` and
grandchild `x.W`, is declared below `uima.tcas.Annotation` and below `x.M2`); the witness of finding M6 violates
`StableCompete` and is order dependent; `LeafCompete` implies `StableCompete`.
-/
import CassisModel.Proofs.MergePermYMain
import CassisModel.Proofs.MergePermXDemo
import CassisModel.Proofs.MergeFeatInvDemo

namespace Cassis.TS

theorem competingB_iff (decls : List Decl) (n : String) : competingB decls n = true ↔ Competing decls n := by
  unfold competingB Competing
  simp only [List.any_eq_true, Bool.and_eq_true, beq_iff_eq, bne_iff_ne, ne_eq]
  constructor
  · rintro ⟨d, hd, d', hd', ⟨h1, h2⟩, h3⟩
    exact ⟨d, hd, d', hd', h1, h2, h3⟩
  · rintro ⟨d, hd, d', hd', h1, h2, h3⟩
    exact ⟨d, hd, d', hd', ⟨h1, h2⟩, h3⟩

/-- `StableCompete` from a certificate: a list `S` of names that contains every competing supertype, is closed under
    declared supertypes, and contains no name with competing supertypes -/
def stableCertB (decls : List Decl) (S : List String) : Bool :=
  decls.all (fun d => !(competingB decls d.name) || S.contains d.super) &&
  decls.all (fun e => !(S.contains e.name) || S.contains e.super) &&
  S.all (fun a => !(competingB decls a))

theorem stableCertB_sound (decls : List Decl) (S : List String) (h : stableCertB decls S = true) :
    StableCompete decls := by
  unfold stableCertB at h
  simp only [Bool.and_eq_true, List.all_eq_true, Bool.or_eq_true, Bool.not_eq_true', List.contains_eq_mem,
    decide_eq_true_eq] at h
  obtain ⟨⟨h1, h2⟩, h3⟩ := h
  intro d hd hE a ha hEa
  have hds : d.super ∈ S := by
    rcases h1 d hd with h | h
    · rw [(competingB_iff decls d.name).mpr hE] at h; cases h
    · exact h
  have hcl : ∀ e ∈ decls, e.name ∈ S → e.super ∈ S := by
    intro e he hm
    rcases h2 e he with h | h
    · exact absurd hm (by simpa using h)
    · exact h
  have haS : a ∈ S := declAnc_closed hcl ha hds
  have := h3 a haS
  rw [(competingB_iff decls a).mpr hEa] at this
  cases this

/-- Boolean test of the hypotheses of `merge_perm_subtree_compete`, for a given rank function and certificate -/
def subHypsB (K : Consts) (rank : String → Nat) (S : List String) (decls : List Decl) : Bool :=
  decls.all (fun d => K.predefined.contains d.super || (decls.map (·.name)).contains d.super) &&
  decls.all (fun d => K.predefined.contains d.super || decide (rank d.super < rank d.name)) &&
  decls.all (fun d => !(K.predefined.contains d.name) && decide ('.' ∈ d.name.toList)) &&
  decls.all (fun d => d.name != DOCUMENT_ANNOTATION || d.super == ANNOTATION) &&
  decls.all (fun d => !(competingB decls d.name) || !(K.finalTypes.contains d.super)) &&
  stableCertB decls S

theorem subHypsB_sound (K : Consts) (rank : String → Nat) (S : List String) (decls : List Decl)
    (h : subHypsB K rank S decls = true) :
    ClosedDecls K decls ∧ UserDecls K decls ∧ BaseAgree decls ∧ StableCompete decls ∧ CompeteNonFinal K decls := by
  unfold subHypsB at h
  simp only [Bool.and_eq_true, List.all_eq_true] at h
  obtain ⟨⟨⟨⟨⟨h1, h2⟩, h3⟩, h4⟩, h5⟩, h6⟩ := h
  refine ⟨⟨?_, rank, ?_⟩, ?_, ?_, stableCertB_sound decls S h6, ?_⟩
  · intro d hd
    have := h1 d hd
    simp only [Bool.or_eq_true, List.contains_eq_mem, decide_eq_true_eq] at this
    rcases this with h | h
    · exact Or.inl (by simpa using h)
    · exact Or.inr h
  · intro d hd hp
    have := h2 d hd
    rw [hp] at this
    simpa using this
  · intro d hd
    have := h3 d hd
    simp only [Bool.not_eq_true', decide_eq_true_eq] at this
    refine ⟨this.1, ?_⟩
    simpa [String.contains] using this.2
  · intro d hd hn
    have := h4 d hd
    simp only [Bool.or_eq_true, bne_iff_ne, ne_eq, beq_iff_eq] at this
    rcases this with h | h
    · exact absurd hn h
    · exact h
  · intro d hd hE
    have := h5 d hd
    rw [(competingB_iff decls d.name).mpr hE] at this
    simpa using this

def demoSubRank (n : String) : Nat :=
  if n == "x.M1" then 1 else if n == "x.M2" then 2 else if n == "x.X" then 3 else if n == "x.Y" then 4
  else if n == "x.Z" then 4 else if n == "x.W" then 5 else 0

def demoSubCert : List String := [ANNOTATION, "x.M2", "x.M1"]

theorem demoSub_hyps : subHypsB Gen.consts demoSubRank demoSubCert demoSub = true := by decide +kernel
theorem demoSubClash_hyps : subHypsB Gen.consts demoSubRank demoSubCert demoSubClash = true := by decide +kernel

/-- `x.X` does have competing supertypes and declared subtypes: `LeafCompete` fails on `demoSub` -/
theorem demoSub_not_leaf : ¬ LeafCompete demoSub := by
  intro h
  have hE : Competing demoSub "x.X" :=
    ⟨{ name := "x.X", super := ANNOTATION, own := [demoFeat "x" "uima.cas.Integer"] }, by simp [demoSub],
     { name := "x.X", super := "x.M2", own := [demoFeat "x2" "uima.cas.Integer"] }, by simp [demoSub],
     rfl, rfl, by decide⟩
  exact h "x.X" hE { name := "x.Z", super := "x.X", own := [demoFeat "z" "uima.cas.Integer"] } (by simp [demoSub]) rfl

/-- the hypotheses hold on `demoSub`, both orders succeed — hence, by the theorem, with the same hierarchy -/
theorem demoSub_sameHier : ∃ ts ts', mergeDecls Gen.consts Gen.builtinTS demoSub = .ok ts ∧
    mergeDecls Gen.consts Gen.builtinTS demoSub.reverse = .ok ts' ∧ SameHier ts ts' := by
  obtain ⟨hc, hu, hb, hst, hnf⟩ := subHypsB_sound _ _ _ _ demoSub_hyps
  have key := merge_perm_subtree_compete_aux demoSub demoSub.reverse (List.reverse_perm demoSub).symm hc hu hb hst hnf
  have e1 : (mergeDecls Gen.consts Gen.builtinTS demoSub).toOption.isSome = true := by
    rw [mergeDecls_eq_S]; decide +kernel
  have e2 := demoSub_reverse_ok
  cases h : mergeDecls Gen.consts Gen.builtinTS demoSub with
  | error e => rw [h] at e1; cases e1
  | ok ts =>
    cases h' : mergeDecls Gen.consts Gen.builtinTS demoSub.reverse with
    | error e => rw [h'] at e2; cases e2
    | ok ts' =>
      rw [h, h'] at key
      exact ⟨ts, ts', rfl, rfl, key⟩

/-- the witness of finding M6: `x.A` is declared below `x.B` and below `uima.tcas.Annotation`; `x.C`, the declared
    supertype of `x.B`, is declared below `uima.cas.TOP` and below `uima.tcas.Annotation` -/
def demoM6a : List Decl := [{ name := "x.C", super := TOP }, { name := "x.B", super := "x.C" }, { name := "x.A", super := "x.B" }]
def demoM6b : List Decl := [{ name := "x.A", super := ANNOTATION }, { name := "x.C", super := ANNOTATION },
  { name := "x.B", super := "x.C" }]

/-- … is order dependent … -/
theorem demoM6_order_dependent :
    (mergeDecls Gen.consts Gen.builtinTS (demoM6a ++ demoM6b)).toOption.isSome = false ∧
    (mergeDecls Gen.consts Gen.builtinTS (demoM6b ++ demoM6a)).toOption.isSome = true := by
  rw [mergeDecls_eq_S, mergeDecls_eq_S]; decide +kernel

/-- … and violates `StableCompete`: the declared ancestor `x.C` of the competing supertype `x.B` of `x.A` competes -/
theorem demoM6_not_stable : ¬ StableCompete (demoM6a ++ demoM6b) := by
  intro h
  have hA : Competing (demoM6a ++ demoM6b) "x.A" :=
    ⟨{ name := "x.A", super := "x.B" }, by simp [demoM6a, demoM6b], { name := "x.A", super := ANNOTATION },
      by simp [demoM6a, demoM6b], rfl, rfl, by decide⟩
  have hC : Competing (demoM6a ++ demoM6b) "x.C" :=
    ⟨{ name := "x.C", super := TOP }, by simp [demoM6a, demoM6b], { name := "x.C", super := ANNOTATION },
      by simp [demoM6a, demoM6b], rfl, rfl, by decide⟩
  have hanc : DeclAnc (demoM6a ++ demoM6b) "x.C" "x.B" :=
    DeclAnc.step "x.C" { name := "x.B", super := "x.C" } (by simp [demoM6a, demoM6b]) (DeclAnc.refl _)
  exact h { name := "x.A", super := "x.B" } (by simp [demoM6a, demoM6b]) hA "x.C" hanc hC

/-- the new condition is weaker than the leaf condition of `merge_perm_leaf_compete` -/
theorem leafCompete_stable {decls : List Decl} (h : LeafCompete decls) : StableCompete decls := by
  intro d hd _ a ha hEa
  have key : ∀ {a b : String}, DeclAnc decls a b → (∃ e ∈ decls, e.super = b) → ∃ e ∈ decls, e.super = a := by
    intro a b hab
    induction hab with
    | refl => exact fun h => h
    | step d' hd' _ ih => exact fun _ => ih ⟨d', hd', rfl⟩
  obtain ⟨e, he, hes⟩ := key ha ⟨d, hd, rfl⟩
  exact h a hEa e he hes

end Cassis.TS
