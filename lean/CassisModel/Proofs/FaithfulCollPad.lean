/-
Faithfulness of the XMI writer on the whole format: the fragment `CollFs`, the closure `LOkC` and the relation `Obj1` of
the first pass survive the padding of the written heap by blank objects (`Proofs/FaithfulPad.lean`).
-/
import CassisModel.Proofs.FaithfulPad
import CassisModel.Proofs.RoundTripCollAsm

namespace Cassis.Xmi
open Cassis.TS Cassis.Traverse Cassis.Lex

namespace Pad

variable {K : Consts} {ts : TypeSystem} {c : Cas} {ci : Nat} {H : Heap}

theorem refOk_pad (H : Heap) (n : Nat) (b : Nat) : RefOk (H ++ pad n) b = RefOk H b := by
  unfold RefOk
  rw [xidOf_pad]

theorem fsElems_pad (H : Heap) (n : Nat) (ev : Val) : FsElems (H ++ pad n) ev = FsElems H ev := by
  unfold FsElems
  simp only [refOk_pad]

theorem sharedFeat_pad (n : Nat) {o : Obj} {f : Feature} (h : SharedFeat K ts H o f) :
    SharedFeat K ts (H ++ pad n) o f := by
  unfold SharedFeat at h ⊢
  simp only [refOk_pad]
  exact h

theorem inlArr_pad (n : Nat) {P P' : Val → Prop} {v : Val} (h : InlArr H P v) (hP : ∀ ev, P ev → P' ev) :
    InlArr (H ++ pad n) P' v := by
  rcases h with h | ⟨arr, ev, h1, h2, h3⟩
  · exact .inl h
  · exact .inr ⟨arr, ev, h1, by rw [slot_pad]; exact h2, hP ev h3⟩

theorem inlList_pad (n : Nat) {P P' : List Val → Prop} {v : Val} (h : InlList H P v) (hP : ∀ hs, P hs → P' hs) :
    InlList (H ++ pad n) P' v := by
  rcases h with h | ⟨a, hs, h1, h2, h3⟩
  · exact .inl h
  · exact .inr ⟨a, hs, h1, collectList_padded n h2, hP hs h3⟩

theorem inlineFeat_pad (n : Nat) {o : Obj} {f : Feature} (h : InlineFeat K ts H o f) :
    InlineFeat K ts (H ++ pad n) o f := by
  obtain ⟨hm, v, hv, hk⟩ := h
  refine ⟨hm, v, hv, ?_⟩
  rcases hk with ⟨h1, h2, h3⟩ | ⟨h1, h2, h3⟩ | ⟨h1, h2, h3⟩ | ⟨h1, h2, h3⟩ | ⟨h1, h2, h3⟩ | ⟨h1, h2, h3⟩ | ⟨h1, h2, h3⟩
  · exact .inl ⟨h1, h2, inlArr_pad n h3 (fun _ h => h)⟩
  · exact .inr (.inl ⟨h1, h2, inlArr_pad n h3 (fun _ h => h)⟩)
  · exact .inr (.inr (.inl ⟨h1, h2, inlArr_pad n h3 (fun ev h => by rw [fsElems_pad]; exact h)⟩))
  · exact .inr (.inr (.inr (.inl ⟨h1, h2, inlList_pad n h3 (fun _ h => h)⟩)))
  · exact .inr (.inr (.inr (.inr (.inl ⟨h1, h2, inlList_pad n h3 (fun _ h => h)⟩))))
  · exact .inr (.inr (.inr (.inr (.inr (.inl ⟨h1, h2, inlList_pad n h3 (fun _ h => h)⟩)))))
  · refine .inr (.inr (.inr (.inr (.inr (.inr ⟨h1, h2, inlList_pad n h3 (fun hs h hd hhd => ?_)⟩)))))
    obtain ⟨b, hb, hr⟩ := h hd hhd
    exact ⟨b, hb, by rw [refOk_pad]; exact hr⟩

theorem collFeat_pad (n : Nat) {isAnn : Bool} {o : Obj} {f : Feature} (h : CollFeat K ts c ci H isAnn o f) :
    CollFeat K ts c ci (H ++ pad n) isAnn o f := by
  rcases h with h | ⟨h1, h2 | h2⟩
  · exact .inl (Faithful.flatFeat_append (pad n) h)
  · exact .inr ⟨h1, .inl (sharedFeat_pad n h2)⟩
  · exact .inr ⟨h1, .inr (inlineFeat_pad n h2)⟩

theorem genFs_pad (n : Nat) {a : Nat} (h : GenFs K ts c ci H a) : GenFs K ts c ci (H ++ pad n) a := by
  obtain ⟨o, t, ho, h2, h3, h4, h5, h6, h7, h8, h9, h10, h11, h12, h13, hfeat, hann⟩ := h
  exact ⟨o, t, get_some n ho, h2, h3, h4, h5, h6, h7, h8, h9, h10, h11, h12, h13,
    fun f hf => collFeat_pad n (hfeat f hf), hann⟩

theorem arrFs_pad (n : Nat) {a : Nat} (h : ArrFs K ts H a) : ArrFs K ts (H ++ pad n) a := by
  obtain ⟨o, t, f, ev, ho, h2, h3, h4, h5, h6, h7, h8, h9, h10, hk⟩ := h
  refine ⟨o, t, f, ev, get_some n ho, h2, h3, h4, h5, h6, h7, h8, h9, h10, ?_⟩
  rw [fsElems_pad]
  exact hk

theorem collFs_pad (n : Nat) {a : Nat} (h : CollFs K ts c ci H a) : CollFs K ts c ci (H ++ pad n) a := by
  rcases h with h | h
  · exact .inl (genFs_pad n h)
  · exact .inr (arrFs_pad n h)

/-! ### where a list is unrolled, the spine ends -/

theorem primArrTy_fsList : ¬ PrimArrTy FS_LIST := by
  unfold PrimArrTy IntArrTy FloatArrTy FS_LIST
  decide

/-- an inlined collection feature of a structure of the fragment that holds a reference is an array feature, or a list
    feature whose spine ends -/
theorem collFs_spine {a : Nat} {o : Obj} {t : TypeRec} {f : Feature} (h : CollFs K ts c ci H a)
    (ho : H[a]? = some o) (ht : find? ts o.ty = some t) (hf : f ∈ allFeatures t) (hi : isInline K f = true)
    (cc : Nat) (hv : alistGet? o.slots f.name = some (.ref cc)) :
    (isArray K f.range = true ∧ (PrimArrTy f.range ∨ f.range = STRING_ARRAY ∨ f.range = FS_ARRAY)) ∨
    ∃ hs, collectList H (H.length + 1) (.ref cc) = .ok hs := by
  rcases h with hgen | harr
  · obtain ⟨o2, t2, ho2, ht2, _, _, _, _, _, _, _, _, _, _, _, hfeat, _⟩ := hgen
    rw [ho] at ho2; cases ho2
    rw [ht] at ht2; cases ht2
    rcases hfeat f hf with hflat | ⟨_, hsh | hin⟩
    · obtain ⟨_, _, _, _, _, _, _, _, _, _, _, v, hv', hcase⟩ := hflat
      rw [hv] at hv'; cases hv'
      rcases hcase with ⟨_, hs⟩ | ⟨_, _, h3⟩ | ⟨_, _, hna, hnl, _⟩
      · rcases hs with ⟨vn, e, _⟩ | ⟨e, _⟩ <;> cases e
      · rcases h3 with e | ⟨_, i, e⟩ | ⟨_, s, e⟩ | ⟨_, b', e⟩ | ⟨_, t', e⟩ <;> cases e
      · exfalso
        unfold isInline at hi
        rw [hna, hnl] at hi
        simp at hi
    · exfalso
      obtain ⟨hm, _⟩ := hsh
      unfold isInline at hi
      rw [hm] at hi
      simp at hi
    · obtain ⟨_, v, hv', hkind⟩ := hin
      rw [hv] at hv'; cases hv'
      have fromList : ∀ P : List Val → Prop, InlList H P (.ref cc) →
          ∃ hs, collectList H (H.length + 1) (.ref cc) = .ok hs := by
        intro P hil
        rcases hil with e | ⟨a', hs, _, hcol, _⟩
        · cases e
        · exact ⟨hs, hcol⟩
      rcases hkind with ⟨hr, rk, _⟩ | ⟨hr, rk, _⟩ | ⟨hr, rk, _⟩ | ⟨_, _, hil⟩ | ⟨_, _, hil⟩ | ⟨_, _, hil⟩ | ⟨_, _, hil⟩
      · exact .inl ⟨rk.arr, .inl hr⟩
      · exact .inl ⟨rk.arr, .inr (.inl hr)⟩
      · exact .inl ⟨rk.arr, .inr (.inr hr)⟩
      · exact .inr (fromList _ hil)
      · exact .inr (fromList _ hil)
      · exact .inr (fromList _ hil)
      · exact .inr (fromList _ hil)
  · exfalso
    obtain ⟨o2, t2, f2, ev, ho2, ht2, _, _, hfs, _, hfr, _⟩ := harr
    rw [ho] at ho2; cases ho2
    rw [ht] at ht2; cases ht2
    rw [hfs] at hf
    have : f = f2 := by simpa using hf
    subst this
    unfold isInline at hi
    rw [hfr, CF.isArray_top, CF.isList_top] at hi
    simp at hi

/-- the deep content of a feature of a structure of the fragment does not change -/
theorem featContentC_collFs (n : Nat) {a : Nat} {o : Obj} {t : TypeRec} {f : Feature} (h : CollFs K ts c ci H a)
    (ho : H[a]? = some o) (ht : find? ts o.ty = some t) (hf : f ∈ allFeatures t) :
    featContentC K (H ++ pad n) a f = featContentC K H a f := by
  apply featContentC_pad
  intro hi ha cc hv
  rw [CF.slot_of f.name ho] at hv
  rcases collFs_spine h ho ht hf hi cc hv with ⟨ha', _⟩ | hs
  · rw [ha] at ha'; cases ha'
  · exact hs

/-! ### the closure -/

theorem target_unpad (n : Nat) {a b : Nat} (hcoll : CollFs K ts c ci H a) (h : Target K ts (H ++ pad n) a b) :
    Target K ts H a b := by
  obtain ⟨o, t, ho, ht, hk⟩ := h
  have ho0 : H[a]? = some o := by
    rcases hcoll with ⟨o2, _, ho2, _⟩ | ⟨o2, _, _, _, ho2, _⟩ <;>
      (have := get_eq n ho2 ho; subst this; exact ho2)
  refine ⟨o, t, ho0, ht, ?_⟩
  rcases hk with h1 | ⟨f, hf, hi, hr, cc, l, hv, hsl, hm⟩ | ⟨f, hf, hi, hr, cc, hs, hv, hcol, hm⟩ | h4
  · exact .inl h1
  · exact .inr (.inl ⟨f, hf, hi, hr, cc, l, hv, by rw [slot_pad] at hsl; exact hsl, hm⟩)
  · refine .inr (.inr (.inl ⟨f, hf, hi, hr, cc, hs, hv, ?_, hm⟩))
    rcases collFs_spine hcoll ho0 ht hf hi cc hv with ⟨_, hp | hp | hp⟩ | ⟨hs0, hcol0⟩
    · rw [hr] at hp; exact absurd hp primArrTy_fsList
    · rw [hr] at hp; exact absurd hp (by decide)
    · rw [hr] at hp; exact absurd hp (by decide)
    · have := collectList_unpad n hcol0 hcol
      subst this
      exact hcol0
  · exact .inr (.inr (.inr h4))

theorem lokC_pad (n : Nat) {L : List (Int × Nat)} (hL : LOkC K ts c ci H L) : LOkC K ts c ci (H ++ pad n) L := by
  refine ⟨fun q hq => collFs_pad n (hL.coll q hq), fun q hq => ?_, hL.nodup, fun q hq b hb => ?_, hL.members⟩
  · rw [xidOf_pad]; exact hL.ids q hq
  · rw [xidOf_pad]
    exact hL.closed q hq b (target_unpad n (hL.coll q hq) hb)

/-! ### the relation of the first pass -/

theorem idTok_pad (H : Heap) (n : Nat) : idTok (H ++ pad n) = idTok H := by
  funext b
  unfold idTok
  rw [xidOf_pad]

theorem exp1_pad (cass : List Cas) (H : Heap) (n : Nat) (isAnn : Bool) (o : Obj) (k : String) (v : Val) :
    exp1 cass (H ++ pad n) isAnn o k v = exp1 cass H isAnn o k v := by
  cases v <;> simp only [exp1, xidOf_pad]

theorem inl1R_pad (n : Nat) {hpX : Heap} {r : String} {cc : Nat} {w : Val} (h : Inl1R H hpX r cc w) :
    Inl1R (H ++ pad n) hpX r cc w := by
  unfold Inl1R at h ⊢
  simp only [slot_pad, idTok_pad]
  rcases h with h | h | h | ⟨h1, hs, toks, h2, h3⟩ | ⟨h1, hs, addr, h2, h3⟩ | ⟨h1, bs, h2, h3⟩
  · exact .inl h
  · exact .inr (.inl h)
  · exact .inr (.inr (.inl h))
  · exact .inr (.inr (.inr (.inl ⟨h1, hs, toks, collectList_padded n h2, h3⟩)))
  · exact .inr (.inr (.inr (.inr (.inl ⟨h1, hs, addr, collectList_padded n h2, h3⟩))))
  · exact .inr (.inr (.inr (.inr (.inr ⟨h1, bs, collectList_padded n h2, h3⟩))))

theorem slot1_pad (n : Nat) {cass : List Cas} {hpX : Heap} {o : Obj} {k : String} {v w : Val}
    (h : Slot1 K ts cass H hpX o k v w) : Slot1 K ts cass (H ++ pad n) hpX o k v w := by
  obtain ⟨h1, h2, h3⟩ := h
  refine ⟨fun cc hc hi => ?_, fun hl => ?_, fun ha hb => ?_⟩
  · obtain ⟨t, f, g1, g2, g3, g4⟩ := h1 cc hc hi
    exact ⟨t, f, g1, g2, g3, inl1R_pad n g4⟩
  · have := h2 hl
    unfold Elems1 at this ⊢
    rw [idTok_pad]
    exact this
  · rw [h3 ha hb]
    unfold E1
    rw [exp1_pad]

theorem obj1_pad (n : Nat) {cass : List Cas} {hpX : Heap} {o o1 : Obj} {x : Int}
    (h : Obj1 K ts cass H hpX o o1 x) : Obj1 K ts cass (H ++ pad n) hpX o o1 x := by
  obtain ⟨h1, h2, h3, h4⟩ := h
  refine ⟨h1, h2, h3, fun k v hv => ?_⟩
  obtain ⟨w, hw, hs⟩ := h4 k v hv
  exact ⟨w, hw, slot1_pad n hs⟩

open CAS in
theorem elemC_pad (n : Nat) {cass : List Cas} {tsIdx : Nat} {q : Int × Nat} {e : XElem}
    (h : ElemC K ts cass H tsIdx q e) : ElemC K ts cass (H ++ pad n) tsIdx q e := by
  obtain ⟨h1, h2, o, ho, h3⟩ := h
  refine ⟨h1, h2, o, get_some n ho, fun hpCur => ?_⟩
  obtain ⟨ext, o1, g1, g2, g3⟩ := h3 hpCur
  exact ⟨ext, o1, g1, g2, obj1_pad n g3⟩

open CAS in
theorem pair_pad (n : Nat) {cass : List Cas} {tsIdx : Nat} : ∀ {L : List (Int × Nat)} {es : List XElem},
    Pair (ElemC K ts cass H tsIdx) L es → Pair (ElemC K ts cass (H ++ pad n) tsIdx) L es
  | [], [], _ => trivial
  | _ :: _, _ :: _, h => ⟨elemC_pad n h.1, pair_pad n h.2⟩
  | [], _ :: _, h => by cases h
  | _ :: _, [], h => by cases h

end Pad

end Cassis.Xmi
