/-
Round trip with collections, layer T: what the traversal of the writer guarantees about the collected structures
(`LOkC`): the collected set is closed under `Target` (references, elements of inlined FSArrays, heads of inlined
FSLists, elements of FSArray objects).
-/
import CassisModel.Proofs.RoundTripCollDefs
import CassisModel.Proofs.RoundTripGlue

namespace Cassis.Xmi.CT
open Cassis.TS Cassis.Traverse Cassis.Lex Cassis.Xmi

/-! ### the pushes against an empty visited map -/

theorem mem_refsToPush_nil (H : Heap) {l : List (Option Nat)} {b : Nat} (h : some b ∈ l) : b ∈ refsToPush H [] l := by
  unfold refsToPush
  refine List.mem_filterMap.mpr ⟨some b, h, ?_⟩
  simp only [seenId_nil]
  rfl

/-- `walkList` and `collectList` run along the same spine -/
theorem walkList_collect (H : Heap) : ∀ (fuel : Nat) (v : Val) (hs : List Val), collectList H fuel v = .ok hs →
    ∃ (ps : List Nat) (n : Nat), walkList H [] fuel v = some (ps, n) ∧ ∀ b, Val.ref b ∈ hs → b ∈ ps := by
  intro fuel
  induction fuel with
  | zero => intro v hs h; unfold collectList at h; cases h
  | succ f ih =>
    intro v hs h
    cases v with
    | ref a =>
      unfold collectList at h
      unfold walkList
      simp only [Xmi.slot] at h
      cases hh : Traverse.slot H a "head" with
      | none =>
        rw [hh] at h
        simp only at h
        cases h
        exact ⟨[], 0, rfl, fun b hb => by cases hb⟩
      | some hd =>
        rw [hh] at h
        simp only [bind, Except.bind, pure, Except.pure] at h
        cases hr : collectList H f ((Traverse.slot H a "tail").getD .none) with
        | error e => rw [hr] at h; cases h
        | ok rest =>
          rw [hr] at h
          simp only at h
          cases h
          obtain ⟨ps, n, hw, hm⟩ := ih _ _ hr
          simp only [hw]
          refine ⟨_, _, rfl, ?_⟩
          intro b hb
          rcases List.mem_cons.mp hb with hb | hb
          · subst hb
            simp only [seenId_nil]
            exact List.mem_append_left _ (List.mem_singleton.mpr rfl)
          · exact List.mem_append_right _ (hm b hb)
    | _ =>
      unfold collectList at h
      cases h
      exact ⟨[], 0, by unfold walkList; rfl, fun b hb => by cases hb⟩

/-! ### one feature: normal forms of `featureSuccs` -/

theorem beq_false_of_ne {a b : String} (h : a ≠ b) : (a == b) = false := by
  cases hh : (a == b)
  · rfl
  · exact absurd (eq_of_beq hh) h

theorem featureSuccs_none {K : Consts} {ts : TypeSystem} {H : Heap} {a : Nat} {f : Feature} (fuel : Nat)
    (hn : f.name ≠ "sofa") (hs : Traverse.slot H a f.name = some .none) :
    featureSuccs K ts {} H [] fuel a f = .ok ([], 0) := by
  unfold featureSuccs
  rw [beq_false_of_ne hn]
  cases hp : isPrimitive K ts f.range
  · simp only [hs, Bool.false_eq_true, if_false]
  · simp only [if_true, Bool.false_eq_true, if_false]

theorem featureSuccs_shared {K : Consts} {ts : TypeSystem} {H : Heap} {a : Nat} {f : Feature} {b : Nat} (fuel : Nat)
    (hn : f.name ≠ "sofa") (hp : isPrimitive K ts f.range = false) (hs : Traverse.slot H a f.name = some (.ref b))
    (hm : f.multi = some true) :
    featureSuccs K ts {} H [] fuel a f = .ok ([b], 0) := by
  unfold featureSuccs
  rw [beq_false_of_ne hn]
  simp [hp, hs, hm, seenId_nil]

theorem featureSuccs_inl_other {K : Consts} {ts : TypeSystem} {H : Heap} {a : Nat} {f : Feature} {c : Nat} (fuel : Nat)
    (hn : f.name ≠ "sofa") (hp : isPrimitive K ts f.range = false) (hs : Traverse.slot H a f.name = some (.ref c))
    (hm : f.multi.getD false = false) (hal : (isArray K f.range || isList K f.range) = true)
    (h1 : f.range ≠ FS_ARRAY) (h2 : f.range ≠ FS_LIST) :
    featureSuccs K ts {} H [] fuel a f = .ok ([], 0) := by
  unfold featureSuccs
  rw [beq_false_of_ne hn]
  simp [hp, hs, hm, hal, beq_false_of_ne h1, beq_false_of_ne h2]

theorem featureSuccs_inl_arr {K : Consts} {ts : TypeSystem} {H : Heap} {a : Nat} {f : Feature} {c : Nat}
    {l : List (Option Nat)} (fuel : Nat)
    (hn : f.name ≠ "sofa") (hp : isPrimitive K ts f.range = false) (hs : Traverse.slot H a f.name = some (.ref c))
    (hm : f.multi.getD false = false) (hal : (isArray K f.range || isList K f.range) = true)
    (h1 : f.range = FS_ARRAY) (he : Traverse.slot H c "elements" = some (.refs l)) :
    featureSuccs K ts {} H [] fuel a f = .ok (refsToPush H [] l, 0) := by
  unfold featureSuccs
  rw [beq_false_of_ne hn]
  rw [h1] at hp hal
  simp [hp, hs, hm, hal, h1, he]

theorem featureSuccs_inl_list {K : Consts} {ts : TypeSystem} {H : Heap} {a : Nat} {f : Feature} {c : Nat}
    {r : List Nat × Nat} (fuel : Nat)
    (hn : f.name ≠ "sofa") (hp : isPrimitive K ts f.range = false) (hs : Traverse.slot H a f.name = some (.ref c))
    (hm : f.multi.getD false = false) (hal : (isArray K f.range || isList K f.range) = true)
    (h1 : f.range = FS_LIST) (hw : walkList H [] fuel (.ref c) = some r) :
    featureSuccs K ts {} H [] fuel a f = .ok r := by
  unfold featureSuccs
  rw [beq_false_of_ne hn]
  have h3 : (FS_LIST == FS_ARRAY) = false := by decide
  rw [h1] at hp hal
  simp [hp, hs, hm, hal, h1, hw, h3]

/-! ### one feature of a general structure -/

/-- the part of `Target` that speaks about feature `f` -/
def FT (K : Consts) (H : Heap) (o : Obj) (f : Feature) (b : Nat) : Prop :=
  (isInline K f = false ∧ alistGet? o.slots f.name = some (.ref b))
  ∨ (isInline K f = true ∧ f.range = FS_ARRAY ∧ ∃ (c : Nat) (l : List (Option Nat)),
      alistGet? o.slots f.name = some (.ref c) ∧ Traverse.slot H c "elements" = some (.refs l) ∧ some b ∈ l)
  ∨ (isInline K f = true ∧ f.range = FS_LIST ∧ ∃ (c : Nat) (hs : List Val),
      alistGet? o.slots f.name = some (.ref c) ∧ collectList H (H.length + 1) (.ref c) = .ok hs ∧ Val.ref b ∈ hs)

theorem isInline_shared {K : Consts} {f : Feature} (hm : f.multi = some true) : isInline K f = false := by
  unfold isInline; rw [hm]; rfl

theorem isInline_inl {K : Consts} {f : Feature} (hm : f.multi.getD false = false)
    (hal : (isArray K f.range || isList K f.range) = true) : isInline K f = true := by
  unfold isInline; rw [hm, hal]; rfl

theorem primArr_ne {r : String} (h : PrimArrTy r) : r ≠ FS_ARRAY ∧ r ≠ FS_LIST := by
  rcases h with (h | h | h) | h | h | (h | h) <;> subst h <;> exact ⟨by decide, by decide⟩

theorem slot_of {H : Heap} {a : Nat} {o : Obj} {n : String} {v : Val} (ho : H[a]? = some o)
    (hv : alistGet? o.slots n = some v) : Traverse.slot H a n = some v := by
  unfold Traverse.slot; rw [ho]; exact hv

/-- an inlined collection that holds no structures -/
theorem feat_inl_other {K : Consts} {ts : TypeSystem} {H : Heap} {a : Nat} {o : Obj} {f : Feature} {v : Val}
    (fuel : Nat) (ho : H[a]? = some o)
    (hn : f.name ≠ "sofa") (hp : isPrimitive K ts f.range = false) (hv : alistGet? o.slots f.name = some v)
    (hm : f.multi.getD false = false) (hal : (isArray K f.range || isList K f.range) = true)
    (h1 : f.range ≠ FS_ARRAY) (h2 : f.range ≠ FS_LIST) (hvv : v = .none ∨ ∃ c, v = .ref c) :
    ∃ (ps : List Nat) (n : Nat), featureSuccs K ts {} H [] fuel a f = .ok (ps, n) ∧ ∀ b, FT K H o f b → b ∈ ps := by
  have hinl := isInline_inl (K := K) hm hal
  refine ⟨[], 0, ?_, ?_⟩
  · rcases hvv with rfl | ⟨c, rfl⟩
    · exact featureSuccs_none fuel hn (slot_of ho hv)
    · exact featureSuccs_inl_other fuel hn hp (slot_of ho hv) hm hal h1 h2
  · intro b hb
    rcases hb with ⟨hi, _⟩ | ⟨_, hr, _⟩ | ⟨_, hr, _⟩
    · rw [hinl] at hi; cases hi
    · exact absurd hr h1
    · exact absurd hr h2

/-- an inlined FSArray -/
theorem feat_inl_fsarr {K : Consts} {ts : TypeSystem} {H : Heap} {a : Nat} {o : Obj} {f : Feature} {v : Val}
    (fuel : Nat) (ho : H[a]? = some o)
    (hn : f.name ≠ "sofa") (hp : isPrimitive K ts f.range = false) (hv : alistGet? o.slots f.name = some v)
    (hm : f.multi.getD false = false) (hal : (isArray K f.range || isList K f.range) = true)
    (h1 : f.range = FS_ARRAY) (hvv : InlArr H (FsElems H) v) :
    ∃ (ps : List Nat) (n : Nat), featureSuccs K ts {} H [] fuel a f = .ok (ps, n) ∧ ∀ b, FT K H o f b → b ∈ ps := by
  have hinl := isInline_inl (K := K) hm hal
  have hne : FS_ARRAY ≠ FS_LIST := by decide
  rcases hvv with rfl | ⟨arr, ev, rfl, he, l, rfl, _⟩
  · refine ⟨[], 0, featureSuccs_none fuel hn (slot_of ho hv), ?_⟩
    intro b hb
    rcases hb with ⟨hi, _⟩ | ⟨_, _, c, l, hc, _⟩ | ⟨_, hr, _⟩
    · rw [hinl] at hi; cases hi
    · rw [hv] at hc; cases hc
    · rw [h1] at hr; exact absurd hr hne
  · refine ⟨_, 0, featureSuccs_inl_arr fuel hn hp (slot_of ho hv) hm hal h1 he, ?_⟩
    intro b hb
    rcases hb with ⟨hi, _⟩ | ⟨_, _, c, l', hc, hl', hb⟩ | ⟨_, hr, _⟩
    · rw [hinl] at hi; cases hi
    · rw [hv] at hc; cases hc
      have he' : Traverse.slot H arr "elements" = some (.refs (l.map some)) := he
      rw [he'] at hl'; cases hl'
      exact mem_refsToPush_nil H hb
    · rw [h1] at hr; exact absurd hr hne

/-- an inlined FSList -/
theorem feat_inl_fslist {K : Consts} {ts : TypeSystem} {H : Heap} {a : Nat} {o : Obj} {f : Feature} {v : Val}
    {P : List Val → Prop} (ho : H[a]? = some o)
    (hn : f.name ≠ "sofa") (hp : isPrimitive K ts f.range = false) (hv : alistGet? o.slots f.name = some v)
    (hm : f.multi.getD false = false) (hal : (isArray K f.range || isList K f.range) = true)
    (h1 : f.range = FS_LIST) (hvv : InlList H P v) :
    ∃ (ps : List Nat) (n : Nat), featureSuccs K ts {} H [] (H.length + 1) a f = .ok (ps, n) ∧
      ∀ b, FT K H o f b → b ∈ ps := by
  have hinl := isInline_inl (K := K) hm hal
  have hne : FS_LIST ≠ FS_ARRAY := by decide
  rcases hvv with rfl | ⟨c, hs, rfl, hcl, _⟩
  · refine ⟨[], 0, featureSuccs_none _ hn (slot_of ho hv), ?_⟩
    intro b hb
    rcases hb with ⟨hi, _⟩ | ⟨_, hr, _⟩ | ⟨_, _, c, l, hc, _⟩
    · rw [hinl] at hi; cases hi
    · rw [h1] at hr; exact absurd hr hne
    · rw [hv] at hc; cases hc
  · obtain ⟨ps, n, hw, hmem⟩ := walkList_collect H _ _ _ hcl
    refine ⟨ps, n, featureSuccs_inl_list _ hn hp (slot_of ho hv) hm hal h1 hw, ?_⟩
    intro b hb
    rcases hb with ⟨hi, _⟩ | ⟨_, hr, _⟩ | ⟨_, _, c', hs', hc, hcl', hb⟩
    · rw [hinl] at hi; cases hi
    · rw [h1] at hr; exact absurd hr hne
    · rw [hv] at hc; cases hc
      rw [hcl] at hcl'; cases hcl'
      exact hmem b hb

theorem inlArr_shape {H : Heap} {P : Val → Prop} {v : Val} (h : InlArr H P v) : v = .none ∨ ∃ c, v = .ref c := by
  rcases h with h | ⟨c, _, h, _⟩
  · exact Or.inl h
  · exact Or.inr ⟨c, h⟩

theorem inlList_shape {H : Heap} {P : List Val → Prop} {v : Val} (h : InlList H P v) : v = .none ∨ ∃ c, v = .ref c := by
  rcases h with h | ⟨c, _, h, _⟩
  · exact Or.inl h
  · exact Or.inr ⟨c, h⟩

theorem or_true_left {x y : Bool} (h : x = true) : (x || y) = true := by rw [h]; rfl
theorem or_true_right {x y : Bool} (h : y = true) : (x || y) = true := by rw [h]; exact Bool.or_true x

/-- what a feature of a general structure contributes -/
theorem featureSuccs_coll {K : Consts} {ts : TypeSystem} {c : Cas} {ci : Nat} {H : Heap} {a : Nat} {o : Obj}
    {isAnn : Bool} {f : Feature} (ho : H[a]? = some o) (hf : CollFeat K ts c ci H isAnn o f) :
    ∃ (ps : List Nat) (n : Nat), featureSuccs K ts {} H [] (H.length + 1) a f = .ok (ps, n) ∧
      ∀ b, FT K H o f b → b ∈ ps := by
  rcases hf with hflat | ⟨hname, hsh | hinl⟩
  · obtain ⟨ps, hps, hm⟩ := featureSuccs_flat (H.length + 1) ho hflat
    obtain ⟨_, _, _, _, _, _, _, hr1, hr2, _⟩ := hflat
    refine ⟨ps, 0, hps, ?_⟩
    intro b hb
    rcases hb with ⟨_, hb⟩ | ⟨_, hr, _⟩ | ⟨_, hr, _⟩
    · exact hm b hb
    · exact absurd hr hr1
    · exact absurd hr hr2
  · obtain ⟨_, _, _, _, _, hn⟩ := hname
    obtain ⟨hm, _, hp, _, _, _, v, hv, hval⟩ := hsh
    have hni := isInline_shared (K := K) hm
    rcases hval with rfl | ⟨b, rfl, _⟩
    · refine ⟨[], 0, featureSuccs_none _ hn (slot_of ho hv), ?_⟩
      intro b hb
      rcases hb with ⟨_, hb⟩ | ⟨hi, _⟩ | ⟨hi, _⟩
      · rw [hv] at hb; cases hb
      · rw [hni] at hi; cases hi
      · rw [hni] at hi; cases hi
    · refine ⟨[b], 0, featureSuccs_shared _ hn hp (slot_of ho hv) hm, ?_⟩
      intro b' hb
      rcases hb with ⟨_, hb⟩ | ⟨hi, _⟩ | ⟨hi, _⟩
      · rw [hv] at hb; cases hb; exact List.mem_singleton.mpr rfl
      · rw [hni] at hi; cases hi
      · rw [hni] at hi; cases hi
  · obtain ⟨_, _, _, _, _, hn⟩ := hname
    obtain ⟨hm, v, hv, hcase⟩ := hinl
    rcases hcase with ⟨hr, rk, hvv⟩ | ⟨hr, rk, hvv⟩ | ⟨hr, rk, hvv⟩ | ⟨hr, rk, hvv⟩ | ⟨hr, rk, hvv⟩ | ⟨hr, rk, hvv⟩ |
      ⟨hr, rk, hvv⟩
    · exact feat_inl_other _ ho hn rk.prim hv hm (or_true_left rk.arr) (primArr_ne hr).1 (primArr_ne hr).2
        (inlArr_shape hvv)
    · exact feat_inl_other _ ho hn rk.prim hv hm (or_true_left rk.arr) (by rw [hr]; decide) (by rw [hr]; decide)
        (inlArr_shape hvv)
    · exact feat_inl_fsarr _ ho hn rk.prim hv hm (or_true_left rk.arr) hr hvv
    · exact feat_inl_other _ ho hn rk.prim hv hm (or_true_right rk.list) (by rw [hr]; decide) (by rw [hr]; decide)
        (inlList_shape hvv)
    · exact feat_inl_other _ ho hn rk.prim hv hm (or_true_right rk.list) (by rw [hr]; decide) (by rw [hr]; decide)
        (inlList_shape hvv)
    · exact feat_inl_other _ ho hn rk.prim hv hm (or_true_right rk.list) (by rw [hr]; decide) (by rw [hr]; decide)
        (inlList_shape hvv)
    · exact feat_inl_fslist ho hn rk.prim hv hm (or_true_right rk.list) hr hvv

theorem featuresSuccs_coll {K : Consts} {ts : TypeSystem} {c : Cas} {ci : Nat} {H : Heap} {a : Nat} {o : Obj}
    {isAnn : Bool} (ho : H[a]? = some o) :
    ∀ (fs : List Feature), (∀ f ∈ fs, CollFeat K ts c ci H isAnn o f) →
    ∃ (ps : List Nat) (n : Nat), featuresSuccs K ts {} H [] (H.length + 1) a fs = .ok (ps, n) ∧
      ∀ f ∈ fs, ∀ b, FT K H o f b → b ∈ ps := by
  intro fs
  induction fs with
  | nil => intro _; exact ⟨[], 0, rfl, fun f hf => by cases hf⟩
  | cons f fs ih =>
    intro hall
    obtain ⟨p1, n1, h1, m1⟩ := featureSuccs_coll ho (hall f List.mem_cons_self)
    obtain ⟨p2, n2, h2, m2⟩ := ih (fun g hg => hall g (List.mem_cons_of_mem _ hg))
    refine ⟨p1 ++ p2, n1 + n2, ?_, ?_⟩
    · unfold featuresSuccs
      simp only [h1, h2, bind, Except.bind, pure, Except.pure]
    · intro g hg b hb
      rcases List.mem_cons.mp hg with rfl | hg
      · exact List.mem_append_left _ (m1 b hb)
      · exact List.mem_append_right _ (m2 g hg b hb)

/-! ### one structure -/

theorem nodeSuccs_gen {K : Consts} {ts : TypeSystem} {c : Cas} {ci : Nat} {H : Heap} {a : Nat}
    (hg : GenFs K ts c ci H a) :
    ∃ (o : Obj) (t : TypeRec) (ps : List Nat) (n : Nat), H[a]? = some o ∧ find? ts o.ty = some t ∧
      nodeSuccs K ts {} H [] (H.length + 1) a t = .ok (ps, n) ∧ ∀ b, Target K ts H a b → b ∈ ps := by
  obtain ⟨o, t, ho, ht, _, _, _, hsup, _, hnfa, _, _, _, _, _, hfeat, _⟩ := hg
  obtain ⟨ps, n, hps, hm⟩ := featuresSuccs_coll ho (allFeatures t) hfeat
  refine ⟨o, t, ps, n, ho, ht, ?_, ?_⟩
  · unfold nodeSuccs
    have : (t.super == some ARRAY_BASE) = false := by
      cases hh : (t.super == some ARRAY_BASE)
      · rfl
      · exact absurd (eq_of_beq hh) hsup
    rw [this]
    exact hps
  · intro b hb
    obtain ⟨o', t', ho', ht', hcase⟩ := hb
    rw [ho] at ho'; cases ho'
    rw [ht] at ht'; cases ht'
    rcases hcase with ⟨f, hf, h1, h2⟩ | ⟨f, hf, h1, h2, c', l, h3, h4, h5⟩ | ⟨f, hf, h1, h2, c', hs, h3, h4, h5⟩ |
      ⟨hty, _⟩
    · exact hm f hf b (Or.inl ⟨h1, h2⟩)
    · exact hm f hf b (Or.inr (Or.inl ⟨h1, h2, c', l, h3, h4, h5⟩))
    · exact hm f hf b (Or.inr (Or.inr ⟨h1, h2, c', hs, h3, h4, h5⟩))
    · exact absurd hty hnfa

theorem nodeSuccs_arr {K : Consts} {ts : TypeSystem} {H : Heap} {a : Nat} (fuel : Nat)
    (hg : ArrFs K ts H a) :
    ∃ (o : Obj) (t : TypeRec) (ps : List Nat) (n : Nat), H[a]? = some o ∧ find? ts o.ty = some t ∧
      nodeSuccs K ts {} H [] fuel a t = .ok (ps, n) ∧ ∀ b, Target K ts H a b → b ∈ ps := by
  obtain ⟨o, t, f, ev, ho, ht, htn, hsup, hall, hfn, hfr, _, hsl, _, hcase⟩ := hg
  have hsupb : (t.super == some ARRAY_BASE) = true := by rw [hsup]; exact beq_self_eq_true _
  have hel : alistGet? o.slots "elements" = some ev := by
    rw [hsl]; unfold alistGet?; rw [if_pos rfl]
  have hslot : Traverse.slot H a "elements" = some ev := slot_of ho hel
  -- the value of `elements` is never a reference
  have hnoref : ∀ b, ev ≠ .ref b := by
    intro b hb
    subst hb
    rcases hcase with ⟨_, _, _, h | ⟨l, h, _⟩⟩ | ⟨_, _, h | ⟨l, h⟩⟩ | ⟨hpa, _, _, h | h⟩
    · cases h
    · cases h
    · cases h
    · cases h
    · cases h
    · rcases h with h | ⟨_, l, h⟩ | ⟨_, l, h, _⟩ | ⟨_, l, h⟩ | ⟨_, l, h, _⟩ <;> cases h
  -- the targets: elements of an FSArray
  have htarget : ∀ b, Target K ts H a b → o.ty = FS_ARRAY ∧ ∃ l, ev = .refs l ∧ some b ∈ l := by
    intro b hb
    obtain ⟨o', t', ho', ht', hc⟩ := hb
    rw [ho] at ho'; cases ho'
    rw [ht] at ht'; cases ht'
    rcases hc with ⟨g, hgm, _, h2⟩ | ⟨g, hgm, _, h2, _⟩ | ⟨g, hgm, _, h2, _⟩ | ⟨hty, l, h3, h4⟩
    · rw [hall] at hgm
      rw [List.mem_singleton.mp hgm, hfn, hel] at h2
      cases h2
      exact absurd rfl (hnoref b)
    · rw [hall] at hgm
      rw [List.mem_singleton.mp hgm, hfr] at h2
      exact absurd h2 (by decide)
    · rw [hall] at hgm
      rw [List.mem_singleton.mp hgm, hfr] at h2
      exact absurd h2 (by decide)
    · rw [hel] at h3; cases h3
      exact ⟨hty, l, rfl, h4⟩
  by_cases hfa : o.ty = FS_ARRAY
  · have hnb : (t.name == FS_ARRAY) = true := by rw [htn, hfa]; exact beq_self_eq_true _
    cases ev with
    | refs l =>
      refine ⟨o, t, refsToPush H [] l, 0, ho, ht, ?_, ?_⟩
      · unfold nodeSuccs
        simp only [hsupb, hnb, hslot, if_true]
      · intro b hb
        obtain ⟨_, l', hl', hb'⟩ := htarget b hb
        cases hl'
        exact mem_refsToPush_nil H hb'
    | _ =>
      refine ⟨o, t, [], 0, ho, ht, ?_, ?_⟩
      · unfold nodeSuccs
        simp only [hsupb, hnb, hslot, if_true]
      · intro b hb
        obtain ⟨_, l', hl', _⟩ := htarget b hb
        cases hl'
  · have hnb : (t.name == FS_ARRAY) = false := by rw [htn]; exact beq_false_of_ne hfa
    refine ⟨o, t, [], 0, ho, ht, ?_, ?_⟩
    · unfold nodeSuccs
      simp only [hsupb, hnb, if_true, Bool.false_eq_true, if_false]
    · intro b hb
      exact absurd (htarget b hb).1 hfa

theorem nodeSuccs_coll {K : Consts} {ts : TypeSystem} {c : Cas} {ci : Nat} {H : Heap} {a : Nat}
    (hc : CollFs K ts c ci H a) :
    ∃ (o : Obj) (t : TypeRec) (ps : List Nat) (n : Nat), H[a]? = some o ∧ find? ts o.ty = some t ∧
      nodeSuccs K ts {} H [] (H.length + 1) a t = .ok (ps, n) ∧ ∀ b, Target K ts H a b → b ∈ ps := by
  rcases hc with hg | ha
  · exact nodeSuccs_gen hg
  · exact nodeSuccs_arr _ ha

end Cassis.Xmi.CT

namespace Cassis.Xmi
open Cassis.TS Cassis.Traverse Cassis.Lex

/-- what the traversal guarantees about the written structures (with collections) -/
theorem lokC_of_save {K : Consts} {ts : TypeSystem} {cass : List Cas} {ci : Nat} {c : Cas} {hp : Heap}
    {doc : XDoc} {st : St} (hc : cass[ci]? = some c) (hwf : RTWf c hp)
    (hsave : saveXmi K ts cass ci hp = .ok (doc, st))
    (hcoll : ∀ q ∈ st.allFs, CollFs K ts c ci st.heap q.2) :
    LOkC K ts c ci st.heap (sortById st.allFs) := by
  have hfa := saveXmi_findAllFs hc hsave
  have hpos := hwf.next_pos
  have hlen : st.heap.length = hp.length := (findAllFs_heap_frame_aux K ts {} hp c.nextXid _ st hfa).1
  have hids : ∀ q ∈ sortById st.allFs, xidOf st.heap q.2 = some q.1 ∧ q.1 ≠ 0 := fun q hq =>
    findAllFs_ids_aux K ts {} hp c.nextXid _ st hpos hfa q.1 q.2 (mem_sortById.mp hq)
  refine ⟨fun q hq => hcoll q (mem_sortById.mp hq), hids, ?_, ?_, ?_⟩
  · exact ((sortById_perm_aux st.allFs).map (·.1)).nodup_iff.mpr
      (findAllFs_nodup_aux K ts {} hp c.nextXid _ st hfa).1
  · intro q hq b hb
    obtain ⟨o, t, ps, n, ho, ht, hnode, hm⟩ := CT.nodeSuccs_coll (hcoll q (mem_sortById.mp hq))
    rw [hlen] at hnode
    have hbps : b ∈ ps := hm b hb
    have hsucc : b ∈ succsOf K ts {} st.heap (hp.length + 1) q.2 := by
      rw [succsOf_eq K ts {} ho (getType_of_find ht) hnode]; exact hbps
    have hnz : xidOf st.heap b ≠ some 0 := by
      intro h0
      have := st_ids_pos hwf hfa b 0 h0
      omega
    have hbm := findAllFs_closed_aux K ts {} hp c.nextXid _ st hpos hfa q.1 q.2 b
      (mem_sortById.mp hq) hsucc hnz
    obtain ⟨p, hp1, hp2⟩ := List.mem_map.mp hbm
    obtain ⟨x, b'⟩ := p
    simp only at hp2
    subst hp2
    exact ⟨x, (hids (x, b') (mem_sortById.mpr hp1)).1, mem_sortById.mpr hp1⟩
  · intro nv hnv e he
    have hseed : e.oid ∈ defaultSeeds c := by
      unfold defaultSeeds
      exact List.mem_flatMap.mpr ⟨nv, hnv, List.mem_map.mpr ⟨e, he, rfl⟩⟩
    have hnz : xidOf st.heap e.oid ≠ some 0 := by
      intro h0
      have := st_ids_pos hwf hfa e.oid 0 h0
      omega
    have hbm := findAllFs_complete_aux K ts {} hp c.nextXid _ st hpos hfa e.oid (.seed _ hseed) hnz
    obtain ⟨p, hp1, hp2⟩ := List.mem_map.mp hbm
    obtain ⟨x, b'⟩ := p
    simp only at hp2
    subst hp2
    exact ⟨x, mem_sortById.mpr hp1⟩

end Cassis.Xmi
