/-
C12 round trip, layer 4: running the two loops of the loader under the simulation invariant.

`o` is the type system that is to be reproduced.  As long as every declaration is one that `o` makes too, creating
the types in a dependency-first order and then adding the features never fails, and the type system built so far
stays a part of `o` (`Sub o ·`, from the merge development) with the invariants `Consistent`, `FeatInv`, `InhSub`.
-/
import CassisModel.Proofs.TsXmlRoundTripTrim

namespace Cassis.TsXml
open Cassis.TS

/-- what the loader maintains -/
structure LInv (o m : TypeSystem) : Prop where
  cons : Consistent m
  feat : FeatInv m
  inhSub : InhSub m
  sub : Sub o m

/-! ### the type loop -/

theorem createTypes_ok (K : Consts) (o : TypeSystem) (hfo : FeatInv o) (E : Descriptor)
    (hE : ∀ n t, E.find? (fun u => u.name == n) = some t → K.predefined.contains n = false →
      ∃ tn, find? o n = some tn ∧ tn.super = some t.super ∧ tn.descr = t.descr ∧
        K.finalTypes.contains t.super = false) :
    ∀ (ns : List String) (m : TypeSystem), ns.Nodup → LInv o m →
      (∀ n ∈ ns, K.predefined.contains n = false →
        hasExact m n = false ∧ ∃ t, E.find? (fun u => u.name == n) = some t) →
      (∀ pre n post, ns = pre ++ n :: post → K.predefined.contains n = false →
        ∀ t, E.find? (fun u => u.name == n) = some t → hasExact m t.super = true ∨ t.super ∈ pre) →
      (∀ p ∈ ns, K.predefined.contains p = true → hasExact m p = true) →
      ∃ m' created, createTypes K E ns m = .ok (m', created) ∧ LInv o m' ∧ Grow K m m' := by
  intro ns
  induction ns with
  | nil =>
    intro m _ hi _ _ _
    exact ⟨m, [], rfl, hi, Grow.refl K m⟩
  | cons n ns ih =>
    intro m hnd hi hnew hsup hpre
    obtain ⟨hnns, hnd'⟩ := List.nodup_cons.mp hnd
    cases hp : K.predefined.contains n with
    | true =>
      obtain ⟨m', created, h, hi', hg⟩ := ih m hnd' hi
        (fun x hx => hnew x (List.mem_cons_of_mem _ hx))
        (by
          intro pre x post e hpx t ht
          rcases hsup (n :: pre) x post (by rw [e]; rfl) hpx t ht with h1 | h1
          · exact Or.inl h1
          · rcases List.mem_cons.mp h1 with e1 | h1
            · left; rw [e1]; exact hpre n List.mem_cons_self hp
            · exact Or.inr h1)
        (fun x hx => hpre x (List.mem_cons_of_mem _ hx))
      refine ⟨m', created, ?_, hi', hg⟩
      unfold createTypes
      rw [if_pos hp]
      exact h
    | false =>
      obtain ⟨hnewn, t, ht⟩ := hnew n List.mem_cons_self hp
      have htn : t.name = n := (dfind_some ht).2
      obtain ⟨tn, hftn, htns, htnd, hnf⟩ := hE n t ht hp
      have hsreg : hasExact m t.super = true := by
        rcases hsup [] n ns rfl hp t ht with h1 | h1
        · exact h1
        · cases h1
      obtain ⟨sup, hsupf⟩ := (hasExact_iff_find m t.super).mp hsreg
      obtain ⟨m1, h1, hc1, hf1, hs1, hg1, hreg1⟩ :=
        Cassis.TS.createType_step K o hfo m n t.super tn sup hi.cons hi.feat hi.sub hnewn hsupf hnf hftn htns
      rw [htnd] at h1
      have hi1 : LInv o m1 :=
        ⟨hc1, hf1, inhSub_createType K m m1 n t.super t.descr hi.cons hi.feat hnewn h1 hi.inhSub, hs1⟩
      obtain ⟨_, _, _, _, hback⟩ :=
        Cassis.TsXml.createType_step K m m1 n t.super t.descr ⟨hi.cons, hi.feat⟩ hp h1
      obtain ⟨m', created, h2, hi', hg2⟩ := ih m1 hnd' hi1
        (by
          intro x hx hpx
          obtain ⟨hx1, hx2⟩ := hnew x (List.mem_cons_of_mem _ hx) hpx
          refine ⟨?_, hx2⟩
          cases hq : hasExact m1 x with
          | false => rfl
          | true =>
            obtain ⟨tx, htx⟩ := (hasExact_iff_find m1 x).mp hq
            rcases hback x tx htx with e | ⟨t0, ht0⟩
            · subst e; exact absurd hx hnns
            · have : hasExact m x = true := (hasExact_iff_find m x).mpr ⟨t0, ht0⟩
              rw [hx1] at this; cases this)
        (by
          intro pre x post e hpx u hu
          rcases hsup (n :: pre) x post (by rw [e]; rfl) hpx u hu with h3 | h3
          · exact Or.inl (hg1.reg _ h3)
          · rcases List.mem_cons.mp h3 with e1 | h3
            · left; rw [e1]; exact hreg1
            · exact Or.inr h3)
        (fun x hx hpx => hg1.reg x (hpre x (List.mem_cons_of_mem _ hx) hpx))
      refine ⟨m', n :: created, ?_, hi', hg1.trans hg2⟩
      unfold createTypes
      rw [if_neg (by rw [hp]; simp), ht]
      simp only [htn, h1, h2]

/-! ### the feature loop -/

theorem featWFB_mkFeat (dom : String) (f : FDesc) : featWFB (mkFeat dom f) = true := by
  unfold featWFB mkFeat storedName isReservedName
  simp only []
  by_cases h1 : f.name = "self"
  · rw [h1]; decide
  · by_cases h2 : f.name = "type"
    · rw [h2]; decide
    · simp [h1, h2]

theorem addFeats_ok (K : Consts) (o : TypeSystem) (hfo : FeatInv o) (tn : String)
    (hp : K.predefined.contains tn = false) :
    ∀ (fs : List FDesc) (m : TypeSystem), LInv o m → hasExact m tn = true →
      (∀ f ∈ fs, hasExact m f.range = true ∧ (∀ e, f.elem = some e → hasExact m e = true) ∧
        CovIn o tn (mkFeat tn f)) →
      ∃ m', addFeats m tn fs = .ok m' ∧ LInv o m' ∧ skel m' = skel m ∧ Grow K m m' := by
  intro fs
  induction fs with
  | nil => intro m hi _ _; exact ⟨m, rfl, hi, rfl, Grow.refl K m⟩
  | cons f fs ih =>
    intro m hi hreg hfs
    obtain ⟨hfr, hfe, hcov⟩ := hfs f List.mem_cons_self
    obtain ⟨m1, h1, hs1⟩ := addFeature_sub o hfo m tn (mkFeat tn f) hi.cons hi.sub hreg hcov
    have hsk1 := skel_addFeature m m1 tn _ hi.cons.nodup h1
    have hi1 : LInv o m1 :=
      ⟨consistent_addFeature_aux m m1 tn _ hi.cons h1, featInv_addFeature_aux m m1 tn _ hi.cons hi.feat h1,
        inhSub_addFeature m m1 tn _ hi.cons hi.feat h1 hi.inhSub, hs1⟩
    have hg1 : Grow K m m1 := addFeature_grow K hi.cons hi.feat hp h1
    obtain ⟨m', h2, hi', hsk', hg2⟩ := ih m1 hi1 (hasExact_of_skel hsk1 hreg) (by
      intro g hg
      obtain ⟨a, b, c⟩ := hfs g (List.mem_cons_of_mem _ hg)
      exact ⟨hasExact_of_skel hsk1 a, fun e he => hasExact_of_skel hsk1 (b e he), c⟩)
    refine ⟨m', ?_, hi', hsk'.trans hsk1, hg1.trans hg2⟩
    unfold addFeats
    rw [createFeature_exact m tn f hreg hfr hfe, h1]
    exact h2

theorem addAllFeats_ok (K : Consts) (o : TypeSystem) (hfo : FeatInv o) (E : Descriptor) :
    ∀ (cs : List String) (m : TypeSystem), LInv o m →
      (∀ n ∈ cs, K.predefined.contains n = false) →
      (∀ n ∈ cs, ∀ t, E.find? (fun u => u.name == n) = some t → hasExact m n = true ∧
        ∀ f ∈ t.feats, hasExact m f.range = true ∧ (∀ e, f.elem = some e → hasExact m e = true) ∧
          CovIn o n (mkFeat n f)) →
      ∃ m', addAllFeats E cs m = .ok m' ∧ LInv o m' ∧ skel m' = skel m ∧ Grow K m m' := by
  intro cs
  induction cs with
  | nil => intro m hi _ _; exact ⟨m, rfl, hi, rfl, Grow.refl K m⟩
  | cons n cs ih =>
    intro m hi hp hd
    cases hfd : E.find? (fun u => u.name == n) with
    | none =>
      obtain ⟨m', h, hi', hsk, hg⟩ := ih m hi (fun x hx => hp x (List.mem_cons_of_mem _ hx))
        (fun x hx => hd x (List.mem_cons_of_mem _ hx))
      refine ⟨m', ?_, hi', hsk, hg⟩
      unfold addAllFeats
      rw [hfd]
      exact h
    | some t =>
      have htn : t.name = n := (dfind_some hfd).2
      obtain ⟨hreg, hfs⟩ := hd n List.mem_cons_self t hfd
      obtain ⟨m1, h1, hi1, hsk1, hg1⟩ := addFeats_ok K o hfo n (hp n List.mem_cons_self) t.feats m hi hreg hfs
      obtain ⟨m', h2, hi', hsk', hg2⟩ := ih m1 hi1 (fun x hx => hp x (List.mem_cons_of_mem _ hx)) (by
        intro x hx u hu
        obtain ⟨a, b⟩ := hd x (List.mem_cons_of_mem _ hx) u hu
        refine ⟨hasExact_of_skel hsk1 a, ?_⟩
        intro f hf
        obtain ⟨b1, b2, b3⟩ := b f hf
        exact ⟨hasExact_of_skel hsk1 b1, fun e he => hasExact_of_skel hsk1 (b2 e he), b3⟩)
      refine ⟨m', ?_, hi', hsk'.trans hsk1, hg1.trans hg2⟩
      unfold addAllFeats
      rw [hfd]
      simp only [htn, h1]
      exact h2

end Cassis.TsXml
