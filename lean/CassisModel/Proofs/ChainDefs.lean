/-
Shared definitions of the composition of the two round trips (`Properties/C16Chain.lean`).

Both loaders produce a CAS that stands in the same relation to the CAS that was written: `HeapRel … E3` for the
structures and a view relation (`ViewsRel` for the XMI reader, `ViewsRelJ` for the JSON reader).  `VRL` is the common
part of the two view relations; `LdCtx` bundles what is known about a loaded CAS.  Everything the *other* format's
round trip needs of the loaded CAS is derived from `LdCtx` (files `ChainTrav`, `ChainLoaded`).

Two facts make the public theorems inapplicable to a loaded CAS, although their conclusions hold:
* `RTWf.ids_below` / `RTWf.ids_pos` speak about the whole heap; the loaders extend the heap of the CAS that was written,
  so structures that are not part of the loaded CAS (unreachable ones with larger ids, the `cas:NULL` object with id 0
  of the XMI reader) are in the same heap.  The internal lemmas only use these two fields to establish `LOk`, which is
  proved directly for the loaded CAS; they are applied with the well-formedness of the views stated against the empty
  heap (`RTWf c []`).
* `RTWf.conv`: the XMI reader installs no converter for the empty text (`convOfText`), the setter installs the table of
  the empty text.  Both agree on every offset inside the text; the JSON half is run on the normalised CAS (`normCas`),
  which is written as the same document.
-/
import CassisModel.Proofs.RoundTrip
import CassisModel.Proofs.RoundTripJson
import CassisModel.Proofs.RoundTripJsonFix

namespace Cassis.Chain
open Cassis.TS Cassis.Traverse Cassis.Xmi Cassis.Json

/-- the common part of `ViewRel` and `ViewRelJ` -/
def VR (H : Heap) (na : Int → Nat) (nv nv' : String × View) : Prop :=
  nv'.1 = nv.1 ∧ nv'.2.sofa.sofaID = nv.2.sofa.sofaID ∧ nv'.2.sofa.xid = nv.2.sofa.xid ∧
  nv'.2.sofa.sofaNum = nv.2.sofa.sofaNum ∧ nv'.2.sofa.text = nv.2.sofa.text ∧ nv'.2.sofa.mime = nv.2.sofa.mime ∧
  ((Index.all nv'.2.idx).map (·.oid)).Perm ((pviewOf H nv).members.map na)

def VRL (H : Heap) (na : Int → Nat) : List (String × View) → List (String × View) → Prop
  | [], [] => True
  | nv :: r, nv' :: r' => VR H na nv nv' ∧ VRL H na r r'
  | _, _ => False

theorem VRL.of_xmi {H : Heap} {na : Int → Nat} : ∀ {l l' : List (String × View)}, ViewsRelL H na l l' → VRL H na l l'
  | [], [], _ => trivial
  | [], _ :: _, h => h.elim
  | _ :: _, [], h => h.elim
  | _ :: _, _ :: _, ⟨⟨h1, h2, h3, h4, h5, h6, _, h8⟩, hr⟩ => ⟨⟨h1, h2, h3, h4, h5, h6, h8⟩, VRL.of_xmi hr⟩

theorem VRL.of_json {H : Heap} {na : Int → Nat} : ∀ {l l' : List (String × View)}, ViewsRelJ H na l l' → VRL H na l l'
  | [], [], _ => trivial
  | [], _ :: _, h => h.elim
  | _ :: _, [], h => h.elim
  | _ :: _, _ :: _, ⟨⟨h1, h2, h3⟩, hr⟩ =>
    ⟨⟨h1, by rw [h2], by rw [h2], by rw [h2], by rw [h2], by rw [h2], h3⟩, VRL.of_json hr⟩

theorem VRL.fwd {H : Heap} {na : Int → Nat} : ∀ {l l' : List (String × View)}, VRL H na l l' →
    ∀ nv ∈ l, ∃ nv' ∈ l', VR H na nv nv'
  | [], [], _, _, h => by cases h
  | [], _ :: _, h, _, _ => h.elim
  | _ :: _, [], h, _, _ => h.elim
  | v :: r, v' :: r', ⟨h1, h2⟩, nv, hnv => by
    rcases List.mem_cons.mp hnv with rfl | hnv
    · exact ⟨v', List.mem_cons_self, h1⟩
    · obtain ⟨nv', hnv', hr⟩ := VRL.fwd h2 nv hnv
      exact ⟨nv', List.mem_cons_of_mem _ hnv', hr⟩

theorem VRL.bwd {H : Heap} {na : Int → Nat} : ∀ {l l' : List (String × View)}, VRL H na l l' →
    ∀ nv' ∈ l', ∃ nv ∈ l, VR H na nv nv'
  | [], [], _, _, h => by cases h
  | [], _ :: _, h, _, _ => h.elim
  | _ :: _, [], h, _, _ => h.elim
  | v :: r, v' :: r', ⟨h1, h2⟩, nv', hnv' => by
    rcases List.mem_cons.mp hnv' with rfl | hnv'
    · exact ⟨v, List.mem_cons_self, h1⟩
    · obtain ⟨nv, hnv, hr⟩ := VRL.bwd h2 nv' hnv'
      exact ⟨nv, List.mem_cons_of_mem _ hnv, hr⟩

/-- pointwise equal projections give equal lists -/
theorem VRL.map_eq {H : Heap} {na : Int → Nat} {β : Type} (f g : String × View → β) :
    ∀ {l l' : List (String × View)}, VRL H na l l' → (∀ nv nv', VR H na nv nv' → g nv' = f nv) → l'.map g = l.map f
  | [], [], _, _ => rfl
  | [], _ :: _, h, _ => h.elim
  | _ :: _, [], h, _ => h.elim
  | v :: r, v' :: r', ⟨h1, h2⟩, hfg => by
    rw [List.map_cons, List.map_cons, hfg v v' h1, VRL.map_eq f g h2 hfg]

/-- a loaded CAS `c'` (index `ci'`, heap `H'`) against the CAS `c` (index `ci`, heap `H`) that was written; `L` are the
    written structures, `na` their new addresses -/
structure LdCtx (K : Consts) (ts : TypeSystem) (c : Cas) (ci : Nat) (H : Heap) (L : List (Int × Nat)) (na : Int → Nat)
    (c' : Cas) (ci' : Nat) (H' : Heap) : Prop where
  lok : LOk K ts c ci H L
  rel : HeapRel H L na (E3 H na ci') H'
  views : VRL H na c.views c'.views
  flat' : ∀ q ∈ L, FlatFs K ts c' ci' H' (na q.1)

/-- the written structures at their new addresses -/
def newL (na : Int → Nat) (L : List (Int × Nat)) : List (Int × Nat) := L.map (fun q => (q.1, na q.1))

/-- the loaded CAS with the converter the sofa setter would have built -/
def normView (v : View) : View := { v with sofa := { v.sofa with conv := Offsets.createMapping none v.sofa.text } }
def normCas (c : Cas) : Cas := { c with views := c.views.map (fun nv => (nv.1, normView nv.2)) }

end Cassis.Chain
