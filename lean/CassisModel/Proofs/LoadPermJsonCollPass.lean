/-
Entry-order independence of the JSON reader, collections included: moving the hypotheses of the layers of
`json_roundtrip_coll` to the CAS with reordered views and a permutation of the collected structures, and the structure
pass (`fsPass`) when the id map holds the sofa entries in another order than the views (`fsPass_collJ_aux` of
`RoundTripJsonCollPass.lean` with `sofaEntries ci' c.views` replaced by a permutation of it).
-/
import CassisModel.Proofs.LoadPermJsonPass
import CassisModel.Proofs.RoundTripJsonColl

namespace Cassis.Json.LPJ
open Cassis.TS Cassis.Traverse Cassis.Lex Cassis.Xmi Cassis.Xmi.RTB

/-! ### reordered views, permuted structures -/

theorem jcollFs_congr {K : Consts} {ts : TypeSystem} {c c' : Cas} {ci : Nat} {H : Heap} {a : Nat}
    (hg : ∀ vn, Cas.getViewRec c' vn = Cas.getViewRec c vn) (h : JCollFs K ts c ci H a) : JCollFs K ts c' ci H a := by
  unfold JCollFs JGenFs JFeatOk at *
  simp only [hg]
  exact h

theorem lokJ_withViews {K : Consts} {ts : TypeSystem} {c : Cas} {ci : Nat} {H : Heap} {L L' : List (Int × Nat)}
    {vs : List (String × View)} (hL : LOkJ K ts c ci H L) (hvs : vs.Perm c.views) (hn : (c.views.map (·.1)).Nodup)
    (hL' : L'.Perm L) : LOkJ K ts (withViews c vs) ci H L' where
  coll := fun q hq => jcollFs_congr (getViewRec_withViews hvs hn) (hL.coll q (hL'.mem_iff.mp hq))
  ids := fun q hq => hL.ids q (hL'.mem_iff.mp hq)
  nodup := (hL'.map (·.1)).nodup_iff.mpr hL.nodup
  closed := by
    intro q hq o ho n b hb
    obtain ⟨x, hx, hm⟩ := hL.closed q (hL'.mem_iff.mp hq) o ho n b hb
    exact ⟨x, hx, hL'.mem_iff.mpr hm⟩
  closedE := by
    intro q hq o ho l hl b hb
    obtain ⟨x, hx, hm⟩ := hL.closedE q (hL'.mem_iff.mp hq) o ho l hl b hb
    exact ⟨x, hx, hL'.mem_iff.mpr hm⟩
  members := by
    intro nv hnv e he
    obtain ⟨x, hx⟩ := hL.members nv (hvs.mem_iff.mp hnv) e he
    exact ⟨x, hL'.mem_iff.mpr hx⟩

theorem elemOfJ_congr {cass cass' : List Cas} (hv : SameViewsJ cass cass') (K : Consts) (ts : TypeSystem) (H : Heap)
    (q : Int × Nat) : elemOfJ K ts cass' H q = elemOfJ K ts cass H q := by
  unfold SameViewsJ at hv
  unfold elemOfJ flatJFs jmemF jmem extInt
  simp only [hv]

/-! ### the structure pass -/

section
variable {K : Consts} {ts : TypeSystem} {cass : List Cas} {c : Cas} {ci : Nat} {hp H : Heap} {L : List (Int × Nat)}

theorem pctxPJ (g : GCtxJ K ts cass c ci hp H L) (ci' : Nat) (cas1 : Cas) (hv : cas1.views = bareViews c.views)
    (F0 : List (Int × Val)) (hF0 : F0.Perm (sofaEntries ci' c.views)) (L1 : List (Int × Nat)) :
    PCtx cass c ci H L (naOf H L) ci' (F0 ++ fsEntries (naOf H L) L1) cas1 where
  hc := g.hc
  closed := g.lok.closed
  fss_sofa := by
    intro nv hnv
    rw [lookup_append, F0_lookup g.wf.sofa_ids_nodup hF0]
    have : lookup (sofaEntries ci' c.views) nv.2.sofa.xid = some (.sofa ci' nv.1) := by
      apply lookup_of_mem_nodup
      · rw [sofaEntries_keys]; exact g.wf.sofa_ids_nodup
      · unfold sofaEntries
        exact List.mem_map.mpr ⟨nv, hnv, rfl⟩
    rw [this]
  fss_ref := by
    intro q hq tv h
    rw [lookup_append, F0_lookup g.wf.sofa_ids_nodup hF0] at h
    have : lookup (sofaEntries ci' c.views) q.1 = none := by
      apply lookup_none_of_not_mem
      rw [sofaEntries_keys]
      intro hin
      obtain ⟨nv, hnv, e⟩ := List.mem_map.mp hin
      exact g.dis q hq nv hnv e.symm
    rw [this] at h
    exact fsEntries_val _ _ _ _ (lookup_mem _ _ _ h)
  views := hv
  conv := g.wf.conv

/-- the state of the second pass after the structures `L1`, the sofa entries being `F0` (cf. `FInvJ`) -/
structure FInvJP (F0 : List (Int × Val)) (H : Heap) (L : List (Int × Nat)) (ci' : Nat) (cas1 : Cas) (m0 m1 : Int)
    (L1 : List (Int × Nat)) (s : RState) : Prop where
  cas : s.cas = cas1
  num : s.maxNum = m0
  len : s.heap.length = H.length + L1.length
  fss : s.fss = F0 ++ fsEntries (naOf H L) L1
  maxId : m1 ≤ s.maxId ∧ ∀ q ∈ L1, q.1 ≤ s.maxId
  rel : ∀ q ∈ L1, ∃ o o', H[q.2]? = some o ∧ s.heap[naOf H L q.1]? = some o' ∧
    ObjPendJ H (naOf H L) ci' (naOf H L q.1) s.deferred o o' q.1
  defs : ∀ d ∈ s.deferred, ∃ q ∈ L1, ∃ o, H[q.2]? = some o ∧ DefOkJ H (naOf H L q.1) o d

/-- one step of the second pass (cf. `parseFs_collJ`) -/
theorem parseFs_collJP (g : GCtxJ K ts cass c ci hp H L)
    (tsIdx ci' : Nat) (cas1 : Cas) (hv : cas1.views = bareViews c.views)
    (F0 : List (Int × Val)) (hF0 : F0.Perm (sofaEntries ci' c.views)) (L1 : List (Int × Nat)) (s : RState)
    (hfss : s.fss = F0 ++ fsEntries (naOf H L) L1) (hcas : s.cas = cas1)
    (q : Int × Nat) (hq : q ∈ L) :
    ∃ (o o' : Obj) (ds : List Deferred), H[q.2]? = some o ∧ (elemOfJ K ts cass H q).ty ≠ SOFA ∧
      parseFs K ts tsIdx s (elemOfJ K ts cass H q) =
        .ok { s with heap := s.heap ++ [o'], fss := setFs s.fss q.1 (.ref s.heap.length),
                     deferred := s.deferred ++ ds, maxId := max s.maxId q.1 } ∧
      ObjPendJ H (naOf H L) ci' s.heap.length ds o o' q.1 ∧ (∀ d ∈ ds, DefOkJ H s.heap.length o d) := by
  obtain ⟨hga, hjson⟩ := g.lok.coll q hq
  rcases hga with hgen | harr
  · have hgen' := hgen
    obtain ⟨o, t, ho, ht, _, _, _, _, hprim, hfa, _, hns, _, _, hkeys, hfeat, _⟩ := hgen'
    have he := elemOfJ_gen (K := K) (cass := cass) q o t ho ht hprim hfa
    obtain ⟨o', ds, hparse, hpend, hdef⟩ :=
      parseGen_collJ K ts cass c ci H L (naOf H L) ci' _ cas1 tsIdx (pctxPJ g ci' cas1 hv F0 hF0 L1) s hfss hcas
        q hq o t ho ht hgen hjson
    refine ⟨o, o', ds, ho, ?_, ?_, ?_, ?_⟩
    · rw [he]; exact hns
    · rw [he]; exact hparse
    · exact ObjPendJ.of_plain hpend (fun n v hv => jgen_plain hkeys hfeat hv)
    · exact fun d hd => Or.inl (hdef d hd)
  · have harr' := harr
    obtain ⟨o, t, f, ev, ho, _, _, _, _, _, _, _, _, hns, hty⟩ := harr'
    have he := elemOfJ_arr (K := K) (ts := ts) (cass := cass) q o ho (by
      rcases hty with ⟨h, _⟩ | ⟨_, h, _⟩
      · exact Or.inl h
      · exact Or.inr h)
    obtain ⟨o', ds, hparse, hpend, hdef⟩ := parseArr_collJ K ts H (naOf H L) ci' tsIdx s q.1 q.2 o ho harr hjson
    refine ⟨o, o', ds, ho, ?_, ?_, hpend, hdef⟩
    · rw [he]; exact hns
    · rw [he]; exact hparse

theorem fsPass_collJP (g : GCtxJ K ts cass c ci hp H L)
    (tsIdx ci' : Nat) (cas1 : Cas) (hv : cas1.views = bareViews c.views)
    (F0 : List (Int × Val)) (hF0 : F0.Perm (sofaEntries ci' c.views)) (m0 m1 : Int) :
    ∀ (L2 L1 : List (Int × Nat)) (s : RState), L = L1 ++ L2 → FInvJP F0 H L ci' cas1 m0 m1 L1 s →
      ∃ s', fsPass K ts tsIdx (L2.map (elemOfJ K ts cass H)) s = .ok s' ∧ FInvJP F0 H L ci' cas1 m0 m1 L s'
  | [], L1, s, hL, inv => by
    rw [List.append_nil] at hL
    subst hL
    exact ⟨s, rfl, inv⟩
  | q :: L2, L1, s, hL, inv => by
    have hq : q ∈ L := by rw [hL]; exact List.mem_append_right _ List.mem_cons_self
    obtain ⟨o, o', ds, ho, hns, hparse, hpend, hdef⟩ :=
      parseFs_collJP g tsIdx ci' cas1 hv F0 hF0 L1 s inv.fss inv.cas q hq
    have hnd : ((L1 ++ q :: L2).map (·.1)).Nodup := by rw [← hL]; exact g.lok.nodup
    have hq1 : q.1 ∉ L1.map (·.1) := by
      rw [List.map_append, List.map_cons] at hnd
      intro hin
      exact (List.nodup_append.mp hnd).2.2 _ hin _ List.mem_cons_self rfl
    have hna : naOf H L q.1 = s.heap.length := by
      unfold naOf
      rw [inv.len, hL, posOf_append_self q L2 L1 hq1]
    have hfsnew : setFs s.fss q.1 (.ref s.heap.length) = F0 ++ fsEntries (naOf H L) (L1 ++ [q]) := by
      rw [setFs_new]
      · rw [inv.fss, List.append_assoc]
        congr 1
        unfold fsEntries
        rw [List.map_append, List.map_cons, List.map_nil, hna]
      · rw [inv.fss, List.map_append, fsEntries_keys]
        intro hin
        rcases List.mem_append.mp hin with hin | hin
        · have hin' := (F0_keys hF0).mem_iff.mp hin
          obtain ⟨nv, hnv, e⟩ := List.mem_map.mp hin'
          exact g.dis q hq nv hnv e.symm
        · exact hq1 hin
    have inv' : FInvJP F0 H L ci' cas1 m0 m1 (L1 ++ [q])
        { s with heap := s.heap ++ [o'], fss := setFs s.fss q.1 (.ref s.heap.length),
                 deferred := s.deferred ++ ds, maxId := max s.maxId q.1 } := by
      refine ⟨inv.cas, inv.num, ?_, hfsnew, ⟨?_, ?_⟩, ?_, ?_⟩
      · show (s.heap ++ [o']).length = _
        rw [List.length_append, List.length_append, inv.len]
        simp only [List.length_cons, List.length_nil]
        omega
      · show m1 ≤ max s.maxId q.1
        have := inv.maxId.1
        omega
      · intro q' hq'
        show q'.1 ≤ max s.maxId q.1
        rcases List.mem_append.mp hq' with h | h
        · have := inv.maxId.2 q' h
          omega
        · rw [List.mem_singleton] at h
          subst h
          omega
      · intro q' hq'
        rcases List.mem_append.mp hq' with h | h
        · obtain ⟨o1, o1', h1, h2, h3⟩ := inv.rel q' h
          refine ⟨o1, o1', h1, ?_, h3.mono (fun d hd => List.mem_append_left _ hd)⟩
          show (s.heap ++ [o'])[naOf H L q'.1]? = some o1'
          have hlt : naOf H L q'.1 < s.heap.length := (List.getElem?_eq_some_iff.mp h2).1
          rw [List.getElem?_append_left hlt]
          exact h2
        · rw [List.mem_singleton] at h
          subst h
          refine ⟨o, o', ho, ?_, ?_⟩
          · show (s.heap ++ [o'])[naOf H L q'.1]? = some o'
            rw [hna]; exact get_last _ _
          · rw [hna]
            exact hpend.mono (fun d hd => List.mem_append_right _ hd)
      · intro d hd
        rcases List.mem_append.mp hd with h | h
        · obtain ⟨q', hq', o1, h1, h2⟩ := inv.defs d h
          exact ⟨q', List.mem_append_left _ hq', o1, h1, h2⟩
        · exact ⟨q, List.mem_append_right _ List.mem_cons_self, o, ho, by rw [hna]; exact hdef d h⟩
    obtain ⟨s', hs', inv''⟩ := fsPass_collJP g tsIdx ci' cas1 hv F0 hF0 m0 m1 L2 (L1 ++ [q]) _
      (by rw [hL, List.append_assoc]; rfl) inv'
    refine ⟨s', ?_, inv''⟩
    rw [List.map_cons]
    unfold fsPass
    have hty : ((elemOfJ K ts cass H q).ty != SOFA) = true := by simpa using hns
    rw [hty]
    simp only [if_true]
    rw [hparse]
    dsimp only
    exact hs'

/-- after the pass every written id is mapped to the new address of its structure -/
theorem FInvJP.lookup_fs (g : GCtxJ K ts cass c ci hp H L) {ci' : Nat} {F0 : List (Int × Val)}
    (hF0 : F0.Perm (sofaEntries ci' c.views)) {cas1 : Cas} {m0 m1 : Int} {s : RState}
    (inv : FInvJP F0 H L ci' cas1 m0 m1 L s) :
    ∀ q ∈ L, lookup s.fss q.1 = some (.ref (naOf H L q.1)) := by
  intro q hq
  rw [inv.fss, lookup_append, F0_lookup g.wf.sofa_ids_nodup hF0]
  have : lookup (sofaEntries ci' c.views) q.1 = none := by
    apply lookup_none_of_not_mem
    rw [sofaEntries_keys]
    intro hin
    obtain ⟨nv, hnv, e⟩ := List.mem_map.mp hin
    exact g.dis q hq nv hnv e.symm
  rw [this]
  apply lookup_of_mem_nodup
  · rw [fsEntries_keys]; exact g.lok.nodup
  · unfold fsEntries
    exact List.mem_map.mpr ⟨q, hq, rfl⟩

end

end Cassis.Json.LPJ
