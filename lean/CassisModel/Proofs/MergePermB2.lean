/-
Helper lemmas for `Properties/C13Perm.lean`, part B2: the replay of a declaration that moves a leaf `d.name` (one of
the names in `X`) from its present supertype `c` down to the declared one, which lies between `c` and the place `o`
gives to `d.name` — the re-parenting branch, applied to a leaf.
-/
import CassisModel.Proofs.MergePermB

namespace Cassis.TS

variable {X : String → Prop}

theorem stepP_reparent (K : Consts) (o : TypeSystem) (hfo : FeatInv o) (s : MState) (d : Decl)
    (hc : Consistent s.ts) (hf : FeatInv s.ts) (hs : SubP o X s.ts) (hX : X d.name)
    (t : TypeRec) (he : find? s.ts d.name = some t) (c : String) (hts : t.super = some c)
    (hleaf : t.children = []) (r2 : hasExact s.ts d.super = true)
    (hmax : Anc s.ts c d.super) (hne : d.super ≠ c)
    (tn : TypeRec) (htn : find? o d.name = some tn) (hanc : Anc o d.super d.name) (hxn : d.super ≠ d.name)
    (hcov : ∀ f ∈ d.own, ∃ g ∈ eff tn, featureEq g f = true) (hu : K.predefined.contains d.name = false) :
    ∃ s', processDecl K s d = .ok s' ∧ Consistent s'.ts ∧ FeatInv s'.ts ∧ SubP o X s'.ts ∧
      (∀ y, hasExact s.ts y = true → hasExact s'.ts y = true) ∧
      (∀ y, hasExact s'.ts y = true → hasExact s.ts y = true) ∧
      s'.merged = (if s.merged.contains d.name then s.merged else s.merged ++ [d.name]) ∧
      (∃ t', find? s'.ts d.name = some t' ∧ t'.super = some d.super ∧ t'.children = []) ∧
      (∀ y ty, find? s.ts y = some ty → y ≠ d.super →
        ∃ ty', find? s'.ts y = some ty' ∧ (ty.children = [] → ty'.children = []) ∧
          (y ≠ d.name → ty'.super = ty.super)) := by
  obtain ⟨ns, hns⟩ := (hasExact_iff_find _ _).mp r2
  have hregn : hasExact s.ts d.name = true := (hasExact_iff_find _ _).mpr ⟨t, he⟩
  have hregc : hasExact s.ts c = true := hc.superReg t (find?_mem he) c hts
  have hcn : d.name ≠ c := by
    intro e
    exact not_anc_of_super hc he hts (by rw [← e]; exact Anc.refl _ hregn)
  have sub1 : subsumes s.ts c d.super = true :=
    (subsumes_iff_ancestor_aux s.ts hc _ _ hregc r2).mpr hmax
  have hnanc : ¬ Anc s.ts d.name d.super := by
    intro h
    rcases h.down with e | ⟨k, tk, hfk, hsk, _⟩
    · exact hxn e.symm
    · obtain ⟨ta, hta, hm⟩ := (hc.link d.name k).mpr ⟨tk, hfk, hsk⟩
      rw [he] at hta; cases hta
      rw [hleaf] at hm; cases hm
  have hnot : subsumes s.ts d.name d.super = false := by
    cases hsb : subsumes s.ts d.name d.super with
    | false => rfl
    | true => exact absurd ((subsumes_iff_ancestor_aux s.ts hc _ _ hregn r2).mp hsb) hnanc
  -- everything involved is covered, in `o`, by `d.name`
  have hcovx : ∀ f ∈ eff ns, CovIn o d.name f := by
    intro f hfm
    obtain ⟨xo, hxo, hrx⟩ := hs d.super ns hns
    obtain ⟨g0, hg0, hgg⟩ := hrx.feats f hfm
    exact covIn_anc hfo ⟨xo, hxo, g0, hg0, hgg⟩ hanc
  have hcovt : ∀ f ∈ eff t, CovIn o d.name f := by
    intro f hfm
    obtain ⟨to, hto, hr⟩ := hs d.name t he
    obtain ⟨g0, hg0, hgg⟩ := hr.feats f hfm
    exact ⟨to, hto, g0, hg0, hgg⟩
  have hcovall : ∀ g ∈ t.own ++ t.inh ++ allFeatures ns, CovIn o d.name g := by
    intro g hg
    rcases List.mem_append.mp hg with hg | hg
    · exact hcovt g hg
    · exact hcovx g (allFeatures_sub hg)
  have hag : ∀ f ∈ allFeatures ns, ∀ g ∈ t.own ++ t.inh ++ allFeatures ns, g.name = f.name →
      featureEq g f = true := by
    intro f hfm g hg hn
    obtain ⟨tc, htc, f0, hf0, hff⟩ := hcovx f (allFeatures_sub hfm)
    obtain ⟨tc', htc', g0, hg0, hgg⟩ := hcovall g hg
    rw [htn] at htc htc'
    cases htc; cases htc'
    exact cov_agree hfo htn hg0 hf0 hgg hff hn
  obtain ⟨ts0, h0⟩ := reparent_leaf_ok s.ts d.name c d.super t ns hc.nodup he hleaf hns hnot hag
  obtain ⟨t', ht', hs', hkids', hown', hoth, hmono, hsrc, _, _, _⟩ :=
    reparent_leaf s.ts ts0 d.name c d.super t ns hc.nodup he hleaf hns h0
  have hc0 : Consistent ts0 :=
    consistent_reparent s.ts ts0 d.name c d.super t hc he (by rw [hts]; rfl) hne h0
  have hf0 : FeatInv ts0 :=
    featInv_reparent_leaf s.ts ts0 d.name c d.super t ns hc hf hc0 he hleaf hts hns hmax hxn h0
  have hchild0 : ∀ y r0, find? s.ts y = some r0 → y ≠ d.name → y ≠ d.super → r0.children = [] →
      (relinkRec d.name c d.super r0).children = [] := by
    intro y r0 hr0 _ hyx hk
    apply List.eq_nil_iff_forall_not_mem.mpr
    intro b hb
    rcases (relinkRec_children d.name c d.super r0 b hcn (fun e => hxn e.symm) (fun e => hne e.symm)).mp hb with
      ⟨h1, _⟩ | ⟨h1, _⟩
    · rw [hk] at h1; cases h1
    · rw [find?_name hr0] at h1; exact hyx h1
  have hs0 : SubP o X ts0 := by
    intro y r hr
    by_cases hy : y = d.name
    · subst hy
      rw [ht'] at hr
      cases hr
      refine ⟨tn, htn, fun h => absurd hX h, ?_, ?_, ?_⟩
      · intro s' hs''
        rw [hs'] at hs''
        cases hs''
        exact hanc
      · intro f hfm
        have : CovIn o d.name f := by
          rcases List.mem_append.mp hfm with hfm | hfm
          · rw [hown'] at hfm
            exact hcovt f (List.mem_append_left _ hfm)
          · rcases hsrc f hfm with hfm | hfm
            · exact hcovt f (List.mem_append_right _ hfm)
            · exact hcovx f (allFeatures_sub hfm)
        obtain ⟨tc, htc, g, hg, hgf⟩ := this
        rw [htn] at htc; cases htc
        exact ⟨g, hg, hgf⟩
      · intro k hcm
        rw [hkids'] at hcm; cases hcm
    · rw [hoth y hy] at hr
      cases hf0' : find? s.ts y with
      | none => rw [hf0'] at hr; cases hr
      | some r0 =>
        rw [hf0'] at hr
        simp only [Option.map_some, Option.some.injEq] at hr
        subst hr
        obtain ⟨to, hto, hr0⟩ := hs y r0 hf0'
        have hr0n : r0.name ≠ d.name := by rw [find?_name hf0']; exact hy
        have hsup0 : (relinkRec d.name c d.super r0).super = r0.super := by
          rw [relinkRec_super, if_neg hr0n]
        refine ⟨to, hto, ?_, ?_, ?_, ?_⟩
        · rw [hsup0]; exact hr0.super
        · rw [hsup0]; exact hr0.superW
        · intro f hfm
          simp only [eff, relinkRec_own, relinkRec_inh] at hfm
          exact hr0.feats f hfm
        · intro k hcm
          rcases (relinkRec_children d.name c d.super r0 k hcn (fun e => hxn e.symm)
            (fun e => hne e.symm)).mp hcm with ⟨h1, _⟩ | ⟨h1, h2⟩
          · exact hr0.kids k h1
          · rw [h2, ← find?_name hf0', h1]; exact hanc
  have hreg0 : ∀ y, hasExact s.ts y = true → hasExact ts0 y = true := by
    intro y hy
    by_cases hyd : y = d.name
    · rw [hyd]; exact (hasExact_iff_find _ _).mpr ⟨t', ht'⟩
    · obtain ⟨r0, hr0⟩ := (hasExact_iff_find _ _).mp hy
      exact (hasExact_iff_find _ _).mpr ⟨_, by rw [hoth y hyd, hr0]; rfl⟩
  -- the declared features
  have hcovIn : ∀ f ∈ d.own, CovIn o d.name f := fun f hfm => ⟨tn, htn, hcov f hfm⟩
  have hreg0d : hasExact ts0 d.name = true := (hasExact_iff_find _ _).mpr ⟨t', ht'⟩
  obtain ⟨ts2, h2, hc2, hf2, hs2, hg2, _⟩ :=
    addOwnFeatures_stepP K o hfo d.name hu d.own ts0 hc0 hf0 hs0 hreg0d hcovIn
  have hsk2 := skel_addOwnFeatures d.name d.own ts0 ts2 hc0.nodup h2
  have hkeep : ∀ y r1, find? ts0 y = some r1 → ∃ r2, find? ts2 y = some r2 ∧ r2.super = r1.super ∧
      r2.children = r1.children := by
    intro y r1 hr1
    obtain ⟨r2, hr2, he2⟩ := find?_transfer hsk2.symm hr1
    rw [tr_eq_iff] at he2
    exact ⟨r2, hr2, he2.2.1, he2.2.2⟩
  obtain ⟨t2, ht2, hsup2, hkids2⟩ := hkeep d.name t' ht'
  refine ⟨{ ts := ts2, merged := if s.merged.contains d.name then s.merged else s.merged ++ [d.name] },
    ?_, hc2, hf2, hs2, fun y hy => hg2.reg y (hreg0 y hy), ?_, rfl,
    ⟨t2, ht2, by rw [hsup2, hs'], by rw [hkids2, hkids']⟩, ?_⟩
  · rw [processDecl_reparent K s d t c he hts hne hregc r2 sub1, h0]
    simp only
    rw [h2]
  · intro y hy
    have hy0 : hasExact ts0 y = true := by rw [← (addOwn_frame ts0 ts2 d.name d.own hc0 h2).1 y]; exact hy
    by_cases hyd : y = d.name
    · rw [hyd]; exact hregn
    · obtain ⟨r1, hr1⟩ := (hasExact_iff_find _ _).mp hy0
      rw [hoth y hyd] at hr1
      cases hfy : find? s.ts y with
      | none => rw [hfy] at hr1; cases hr1
      | some r0 => exact (hasExact_iff_find _ _).mpr ⟨r0, hfy⟩
  · intro y ty hy hyx
    by_cases hyn : y = d.name
    · subst hyn
      rw [he] at hy; cases hy
      exact ⟨t2, ht2, fun _ => by rw [hkids2, hkids'], fun h => absurd rfl h⟩
    · have h1 : find? ts0 y = some (relinkRec d.name c d.super ty) := by rw [hoth y hyn, hy]; rfl
      obtain ⟨r2, hr2, hs2', hk2⟩ := hkeep y _ h1
      refine ⟨r2, hr2, ?_, ?_⟩
      · intro hk
        rw [hk2]; exact hchild0 y ty hy hyn hyx hk
      · intro _
        rw [hs2', relinkRec_super, if_neg (by rw [find?_name hy]; exact hyn)]

end Cassis.TS
