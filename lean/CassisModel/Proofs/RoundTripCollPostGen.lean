/-
Round trip with collections, layer GM: the second pass of the reader (`postFeatures`) on a general structure
(`GenFs`), given the second pass on one inlined collection feature (`PostInlineStmt`).
-/
import CassisModel.Proofs.RoundTripCollStmts
import CassisModel.Proofs.RoundTripCollFrz

namespace Cassis.Xmi.CGM
open Cassis.TS Cassis.Traverse Cassis.Lex Cassis.Xmi

/-! ### features by name -/

theorem find_by_name (fs : List Feature) (f : Feature) (hnd : (fs.map (·.name)).Nodup) (hf : f ∈ fs) :
    fs.find? (fun g => g.name == f.name) = some f := by
  induction fs with
  | nil => cases hf
  | cons g fs ih =>
    rw [List.map_cons, List.nodup_cons] at hnd
    rw [List.find?_cons]
    rcases List.mem_cons.1 hf with rfl | hm
    · simp
    · have hne : g.name ≠ f.name := by
        intro he
        exact hnd.1 (List.mem_map.2 ⟨f, hm, he.symm⟩)
      have : (g.name == f.name) = false := by simpa using hne
      rw [this]
      exact ih hnd.2 hm

theorem inlineSlot_feat (K : Consts) (ts : TypeSystem) (o : Obj) (t : TypeRec) (f : Feature)
    (hfind : find? ts o.ty = some t) (hnd : (ctorFields t).Nodup) (hf : f ∈ allFeatures t) :
    inlineSlot K ts o f.name = isInline K f := by
  unfold inlineSlot
  rw [hfind]
  simp only
  rw [find_by_name (allFeatures t) f hnd hf]

/-! ### steps -/

theorem stepX_of_step {hpX hpY : Heap} {a : Nat} {n : String} {w : Val} (h : Step hpX hpY a n w) :
    StepX hpX hpY a n w :=
  ⟨[], fun _ h => (by cases h), by rw [List.append_nil]; exact h⟩

theorem getElem?_lt {hp : Heap} {a : Nat} {o : Obj} (h : hp[a]? = some o) : a < hp.length :=
  (List.getElem?_eq_some_iff.mp h).1

theorem stepX_frz {hpX hpY : Heap} {a : Nat} {n : String} {w : Val} {o' : Obj} (h : StepX hpX hpY a n w)
    (h1 : hpX[a]? = some o') (hx : o'.xid ≠ none) : Frz hpX hpY := by
  obtain ⟨t, _, hlen, hframe, _⟩ := h
  refine ⟨by rw [hlen, List.length_append]; omega, fun b ob hb hbx => ?_⟩
  have hne : b ≠ a := by
    intro e; subst e; rw [h1] at hb; cases hb; exact hx hbx
  rw [hframe b hne, List.getElem?_append_left (getElem?_lt hb)]
  exact hb

theorem stepX_ext {hpX hpY : Heap} {a : Nat} {n : String} {w : Val} (h : StepX hpX hpY a n w)
    (ha : a < hpX.length) : Ext hpX hpY a := by
  obtain ⟨t, ht, hlen, hframe, _⟩ := h
  refine ⟨by rw [hlen, List.length_append]; omega, fun b hb hne => ?_, fun b ob hb hob => ?_⟩
  · rw [hframe b hne, List.getElem?_append_left hb]
  · have hne : b ≠ a := by omega
    rw [hframe b hne, List.getElem?_append_right hb] at hob
    exact ht ob (List.mem_of_getElem? hob)

theorem ext_refl (hp : Heap) (a : Nat) : Ext hp hp a :=
  ⟨Nat.le_refl _, fun _ _ _ => rfl, fun b ob hb hob => by
    rw [List.getElem?_eq_none hb] at hob; cases hob⟩

theorem ext_trans {h1 h2 h3 : Heap} {a : Nat} (e1 : Ext h1 h2 a) (e2 : Ext h2 h3 a) (ha : a < h1.length) :
    Ext h1 h3 a := by
  refine ⟨Nat.le_trans e1.1 e2.1, fun b hb hne => ?_, fun b ob hb hob => ?_⟩
  · rw [e2.2.1 b (Nat.lt_of_lt_of_le hb e1.1) hne, e1.2.1 b hb hne]
  · rcases Nat.lt_or_ge b h2.length with hlt | hge
    · have hne : b ≠ a := by omega
      rw [e2.2.1 b hlt hne] at hob
      exact e1.2.2 b ob hb hob
    · exact e2.2.2 b ob hge hob

/-! ### slots that are not inlined collections -/

theorem slot2_plain (K : Consts) (ts : TypeSystem) (cass : List Cas) (H : Heap) (na : Int → Nat) (ci' : Nat)
    (hpY : Heap) (o : Obj) (n : String) (v : Val)
    (hni : ∀ c, v = .ref c → inlineSlot K ts o n = false) (hnl : isListV v = false) :
    Slot2 K ts cass H na ci' hpY o n v (E2 ts cass H na ci' o n v) := by
  refine ⟨fun c hc hi => ?_, fun hl => ?_, fun _ _ => rfl⟩
  · rw [hni c hc] at hi; cases hi
  · rw [hnl] at hl; cases hl

/-- the value of a flat feature is no raw list, and a reference only if the feature is not inline -/
theorem flat_plain (K : Consts) (ts : TypeSystem) (c : Cas) (ci : Nat) (H : Heap) (isAnn : Bool) (o : Obj)
    (f : Feature) (hflat : FlatFeat K ts c ci H isAnn o f) (v : Val) (hv : alistGet? o.slots f.name = some v) :
    (∀ b, v = .ref b → isInline K f = false) ∧ isListV v = false := by
  obtain ⟨_, _, _, _, _, _, _, _, _, _, _, v', hv', hcases⟩ := hflat
  rw [hv] at hv'; cases hv'
  rcases hcases with ⟨_, hs⟩ | ⟨_, _, hp⟩ | ⟨_, _, ha, hl, _, _, _, hr⟩
  · rcases hs with ⟨vn, rfl, _⟩ | ⟨rfl, _⟩
    · exact ⟨fun b hb => (by cases hb), rfl⟩
    · exact ⟨fun b hb => (by cases hb), rfl⟩
  · rcases hp with rfl | ⟨_, i, rfl⟩ | ⟨_, s, rfl⟩ | ⟨_, b, rfl⟩ | ⟨_, t, rfl⟩ <;>
      exact ⟨fun b hb => (by cases hb), rfl⟩
  · have hin : isInline K f = false := by simp [isInline, ha, hl]
    rcases hr with rfl | ⟨b, rfl, _, _⟩
    · exact ⟨fun _ _ => hin, rfl⟩
    · exact ⟨fun _ _ => hin, rfl⟩

/-! ### one flat feature (`postFeature_flat` with the hypothesis on references restricted to the feature) -/

theorem postFeature_flat' (K : Consts) (ts : TypeSystem) (cass : List Cas) (ci : Nat) (c : Cas) (H : Heap)
    (na : Int → Nat) (tsIdx ci' : Nat) (sofas : List (Int × PSofa)) (fss : List (Int × Nat))
    (hc : cass[ci]? = some c) (hnames : ∀ nv ∈ c.views, nv.2.sofa.sofaID = nv.1)
    (hnd : (c.views.map (·.2.sofa.xid)).Nodup)
    (hsofas : sofas = c.views.map (fun nv => (nv.2.sofa.xid, psofaOf nv)))
    (isAnn : Bool) (o : Obj) (f : Feature)
    (href : ∀ (b : Nat), alistGet? o.slots f.name = some (.ref b) → Resolves H fss na b)
    (hty1 : isPrimitiveArray K o.ty = false) (hty2 : o.ty ≠ FS_ARRAY)
    (hflat : FlatFeat K ts c ci H isAnn o f)
    (hpX : Heap) (a' : Nat) (o' : Obj) (h1 : hpX[a']? = some o')
    (hE1 : ∀ v, alistGet? o.slots f.name = some v → alistGet? o'.slots f.name = some (exp1 cass H isAnn o f.name v)) :
    ∃ hpY v, postFeature K ts tsIdx ci' sofas fss hpX a' o.ty false f = .ok hpY ∧
      alistGet? o.slots f.name = some v ∧ Step hpX hpY a' f.name (exp2 cass H na ci' isAnn o f.name v) := by
  obtain ⟨_, _, _, _, _, hr1, hr2, hr3, hr4, _, _, v, hv, hcases⟩ := hflat
  have hw := hE1 v hv
  rcases hcases with ⟨hname, hs⟩ | ⟨hname, hprim, hp⟩ | ⟨hname, hprim, _, _, _, _, _, hr⟩
  · -- the sofa
    rcases hs with ⟨vn, rfl, hsome⟩ | ⟨rfl, _⟩
    · obtain ⟨view, hview⟩ := Option.isSome_iff_exists.1 hsome
      have he1 : exp1 cass H isAnn o f.name (.sofa ci vn) = .int view.sofa.xid := by
        simp [exp1, hc, hview]
      rw [he1] at hw
      have hmem : (vn, view) ∈ c.views := rtp_alistGet?_mem _ _ _ hview
      have hfind := rtp_find_sofa c.views (vn, view) hmem hnd
      rw [← hsofas] at hfind
      have hpf := postFeature_sofa_int K ts tsIdx ci' sofas fss hpX a' o.ty false f o' _ _ hname h1 hw hfind
      obtain ⟨hpY, hset, hstep⟩ := setSlot_step (.sofa ci' vn) h1 hw
      refine ⟨hpY, _, ?_, hv, hstep⟩
      rw [hpf]
      have : (psofaOf (vn, view)).sofaID = vn := hnames _ hmem
      simp only [this]
      rw [← hname]; exact hset
    · have he1 : exp1 cass H isAnn o f.name .none = .none := rfl
      rw [he1] at hw
      exact ⟨hpX, _, postFeature_sofa_none K ts tsIdx ci' sofas fss hpX a' o.ty false f o' hname h1 hw, hv,
        Step.same h1 hw⟩
  · -- primitives
    have key : ∀ w w', exp1 cass H isAnn o f.name v = w → exp2 cass H na ci' isAnn o f.name v = w' →
        parsePrimValue ts (ts.types.length + 1) f.range w = .ok w' →
        ∃ hpY v, postFeature K ts tsIdx ci' sofas fss hpX a' o.ty false f = .ok hpY ∧
          alistGet? o.slots f.name = some v ∧ Step hpX hpY a' f.name (exp2 cass H na ci' isAnn o f.name v) := by
      intro w w' hw1 hw2 hparse
      rw [hw1] at hw
      have hpf := postFeature_prim K ts tsIdx ci' sofas fss hpX a' o.ty f o' w w' hname hprim h1 hw hparse
      obtain ⟨hpY, hset, hstep⟩ := setSlot_step w' h1 hw
      exact ⟨hpY, v, by rw [hpf]; exact hset, hv, by rw [hw2]; exact hstep⟩
    rcases hp with rfl | ⟨hint, i, rfl⟩ | ⟨hrange, s, rfl⟩ | ⟨hrange, b, rfl⟩ | ⟨hrange, t, rfl⟩
    · exact key .none .none rfl rfl (rtp_parse_none _ _ _)
    · exact key _ _ rfl rfl (primValue_roundtrip_int_aux ts _ f.range (rtp_intRange hint) _)
    · exact key _ _ rfl rfl (by rw [hrange]; exact rtp_parse_str _ _ _)
    · exact key _ _ rfl rfl (by rw [hrange]; exact primValue_roundtrip_bool_aux _ _ _)
    · exact key _ _ rfl rfl (rtp_parse_float _ _ _ _ hrange)
  · -- references
    rcases hr with rfl | ⟨b, rfl, _, _⟩
    · have he1 : exp1 cass H isAnn o f.name .none = .none := rfl
      rw [he1] at hw
      exact ⟨hpX, _, postFeature_ref_none K ts tsIdx ci' sofas fss hpX a' o.ty f o' hname hprim hty1 hr1 hr2 h1 hw,
        hv, Step.same h1 hw⟩
    · obtain ⟨x, hx, hlook⟩ := href _ hv
      have he1 : exp1 cass H isAnn o f.name (.ref b) = .str (showInt x) := by simp [exp1, hx]
      have he2 : exp2 cass H na ci' isAnn o f.name (.ref b) = .ref (na x) := by simp [exp2, hx]
      rw [he1] at hw
      have hpf := postFeature_ref_str K ts tsIdx ci' sofas fss hpX a' o.ty f o' _ x _ hname hprim hty1 hr1 hr2 hty2
        hr3 hr4 h1 hw (parseIntE_showInt x) hlook
      obtain ⟨hpY, hset, hstep⟩ := setSlot_step (.ref (na x)) h1 hw
      exact ⟨hpY, _, by rw [hpf]; exact hset, hv, by rw [he2]; exact hstep⟩

/-! ### one shared collection feature -/

theorem postFeature_shared_none (K : Consts) (ts : TypeSystem) (tsIdx ci' : Nat) (sofas : List (Int × PSofa))
    (fss : List (Int × Nat)) (hpX : Heap) (a : Nat) (ty : String) (f : Feature) (o1 : Obj)
    (hname : f.name ≠ "sofa") (hprim : isPrimitive K ts f.range = false)
    (hty : isPrimitiveArray K ty = false) (hm : f.multi = some true)
    (h1 : hpX[a]? = some o1) (h2 : alistGet? o1.slots f.name = some .none) :
    postFeature K ts tsIdx ci' sofas fss hpX a ty false f = .ok hpX := by
  unfold postFeature
  simp only [rtp_slot h1 h2]
  simp only [beq_eq_false_iff_ne.2 hname, Bool.false_eq_true, if_false, hprim, hty, hm, Option.getD_some,
    Bool.not_true, Bool.and_false, Bool.false_and]
  rfl

theorem postFeature_shared_str (K : Consts) (ts : TypeSystem) (tsIdx ci' : Nat) (sofas : List (Int × PSofa))
    (fss : List (Int × Nat)) (hpX : Heap) (a : Nat) (ty : String) (f : Feature) (o1 : Obj) (s : String) (x : Int)
    (t : Nat)
    (hname : f.name ≠ "sofa") (hprim : isPrimitive K ts f.range = false)
    (hty : isPrimitiveArray K ty = false) (hm : f.multi = some true) (hty2 : ty ≠ FS_ARRAY)
    (h1 : hpX[a]? = some o1) (h2 : alistGet? o1.slots f.name = some (.str s))
    (hparse : parseIntE s = .ok x) (hlook : lookupFs fss x = .ok t) :
    postFeature K ts tsIdx ci' sofas fss hpX a ty false f = Heap.setSlot hpX a f.name (.ref t) := by
  unfold postFeature
  simp only [rtp_slot h1 h2]
  simp only [beq_eq_false_iff_ne.2 hname, Bool.false_eq_true, if_false, hprim, hty, hm, Option.getD_some,
    Bool.not_true, Bool.and_false, Bool.false_and, beq_eq_false_iff_ne.2 hty2, Bool.or_self, hparse]
  show (lookupFs fss x >>= fun t => Heap.setSlot hpX a f.name (.ref t)) = _
  rw [hlook]
  rfl

/-! ### one feature of a general structure -/

theorem collFeat_slot (K : Consts) (ts : TypeSystem) (c : Cas) (ci : Nat) (H : Heap) (isAnn : Bool) (o : Obj)
    (f : Feature) (h : CollFeat K ts c ci H isAnn o f) : ∃ v, alistGet? o.slots f.name = some v := by
  rcases h with h | ⟨_, h | h⟩
  · obtain ⟨_, _, _, _, _, _, _, _, _, _, _, v, hv, _⟩ := h
    exact ⟨v, hv⟩
  · obtain ⟨_, _, _, _, _, _, v, hv, _⟩ := h
    exact ⟨v, hv⟩
  · obtain ⟨_, v, hv, _⟩ := h
    exact ⟨v, hv⟩

theorem gen_feature (K : Consts) (ts : TypeSystem) (cass : List Cas) (ci : Nat) (c : Cas) (H : Heap)
    (na : Int → Nat) (tsIdx ci' : Nat) (sofas : List (Int × PSofa)) (fss : List (Int × Nat))
    (hc : cass[ci]? = some c) (hnames : ∀ nv ∈ c.views, nv.2.sofa.sofaID = nv.1)
    (hnd : (c.views.map (·.2.sofa.xid)).Nodup)
    (hsofas : sofas = c.views.map (fun nv => (nv.2.sofa.xid, psofaOf nv)))
    (hI : PostInlineStmt K ts cass H na tsIdx ci' sofas fss (fun _ => True))
    (a : Nat) (o : Obj) (t : TypeRec) (ho : H[a]? = some o) (hfind : find? ts o.ty = some t)
    (hnodup : (ctorFields t).Nodup)
    (hty1 : isPrimitiveArray K o.ty = false) (hty2 : o.ty ≠ FS_ARRAY)
    (hres : ∀ b, Target K ts H a b → Resolves H fss na b)
    (f : Feature) (hf : f ∈ allFeatures t)
    (hcf : CollFeat K ts c ci H (isInstanceOf ts o.ty ANNOTATION) o f)
    (hpX : Heap) (a' : Nat) (o' : Obj) (h1 : hpX[a']? = some o') (hx : o'.xid ≠ none)
    (v w : Val) (hv : alistGet? o.slots f.name = some v) (hw : alistGet? o'.slots f.name = some w)
    (hs1 : Slot1 K ts cass H hpX o f.name v w) :
    ∃ (hpY : Heap) (w' : Val), postFeature K ts tsIdx ci' sofas fss hpX a' o.ty false f = .ok hpY ∧
      StepX hpX hpY a' f.name w' ∧ Slot2 K ts cass H na ci' hpY o f.name v w' := by
  have hinl := inlineSlot_feat K ts o t f hfind hnodup hf
  have href : isInline K f = false → ∀ b, alistGet? o.slots f.name = some (.ref b) → Resolves H fss na b :=
    fun hin b hb => hres b ⟨o, t, ho, hfind, .inl ⟨f, hf, hin, hb⟩⟩
  rcases hcf with hflat | ⟨hnok, hsh | hin⟩
  · -- flat
    obtain ⟨hni, hnl⟩ := flat_plain K ts c ci H _ o f hflat v hv
    have hni' : ∀ b, v = .ref b → inlineSlot K ts o f.name = false := fun b hb => by rw [hinl]; exact hni b hb
    have hwE : w = E1 ts cass H o f.name v := hs1.2.2 hni' hnl
    obtain ⟨hpY, v', hpf, hv', hstep⟩ := postFeature_flat' K ts cass ci c H na tsIdx ci' sofas fss hc hnames hnd hsofas
      (isInstanceOf ts o.ty ANNOTATION) o f (fun b hb => href (hni b (by rw [hv] at hb; cases hb; rfl)) b hb)
      hty1 hty2 hflat hpX a' o' h1
      (fun v2 hv2 => by rw [hv] at hv2; cases hv2; rw [hw, hwE]; rfl)
    rw [hv] at hv'; cases hv'
    exact ⟨hpY, _, hpf, stepX_of_step hstep, slot2_plain K ts cass H na ci' hpY o f.name v hni' hnl⟩
  · -- shared
    obtain ⟨hm, _, hprim, _, _, _, v', hv', hval⟩ := hsh
    rw [hv] at hv'; cases hv'
    have hname : f.name ≠ "sofa" := hnok.2.2.2.2.2
    have hin : isInline K f = false := by simp [isInline, hm]
    have hni' : ∀ b, v = .ref b → inlineSlot K ts o f.name = false := fun b _ => by rw [hinl]; exact hin
    have hnl : isListV v = false := by
      rcases hval with rfl | ⟨b, rfl, _⟩ <;> rfl
    have hwE : w = E1 ts cass H o f.name v := hs1.2.2 hni' hnl
    have hs2 := slot2_plain K ts cass H na ci' hpX o f.name v hni' hnl
    rcases hval with rfl | ⟨b, rfl, _⟩
    · have hw0 : alistGet? o'.slots f.name = some .none := by rw [hw, hwE]; rfl
      refine ⟨hpX, _, postFeature_shared_none K ts tsIdx ci' sofas fss hpX a' o.ty f o' hname hprim hty1 hm h1 hw0,
        stepX_of_step (Step.same h1 hw0), ?_⟩
      exact hs2
    · obtain ⟨x, hxid, hlook⟩ := href hin b hv
      have he1 : E1 ts cass H o f.name (.ref b) = .str (showInt x) := by simp [E1, exp1, hxid]
      have he2 : E2 ts cass H na ci' o f.name (.ref b) = .ref (na x) := by simp [E2, exp2, hxid]
      have hw0 : alistGet? o'.slots f.name = some (.str (showInt x)) := by rw [hw, hwE, he1]
      have hpf := postFeature_shared_str K ts tsIdx ci' sofas fss hpX a' o.ty f o' _ x _ hname hprim hty1 hm hty2 h1
        hw0 (parseIntE_showInt x) hlook
      obtain ⟨hpY, hset, hstep⟩ := setSlot_step (.ref (na x)) h1 hw0
      refine ⟨hpY, _, by rw [hpf]; exact hset, stepX_of_step hstep, ?_⟩
      rw [← he2]
      exact slot2_plain K ts cass H na ci' hpY o f.name _ hni' hnl
  · -- inline
    exact hI a o t f ho hfind hf hnodup hnok hin trivial hty1 hty2 hres hpX a' o' h1 hx v w hv hw hs1

/-! ### all features of a general structure -/

theorem gen_features (K : Consts) (ts : TypeSystem) (cass : List Cas) (ci : Nat) (c : Cas) (H : Heap)
    (na : Int → Nat) (tsIdx ci' : Nat) (sofas : List (Int × PSofa)) (fss : List (Int × Nat))
    (hc : cass[ci]? = some c) (hnames : ∀ nv ∈ c.views, nv.2.sofa.sofaID = nv.1)
    (hnd : (c.views.map (·.2.sofa.xid)).Nodup)
    (hsofas : sofas = c.views.map (fun nv => (nv.2.sofa.xid, psofaOf nv)))
    (hI : PostInlineStmt K ts cass H na tsIdx ci' sofas fss (fun _ => True))
    (a : Nat) (o : Obj) (t : TypeRec) (ho : H[a]? = some o) (hfind : find? ts o.ty = some t)
    (hnodup : (ctorFields t).Nodup)
    (hty1 : isPrimitiveArray K o.ty = false) (hty2 : o.ty ≠ FS_ARRAY)
    (hres : ∀ b, Target K ts H a b → Resolves H fss na b)
    (hcf : ∀ f ∈ allFeatures t, CollFeat K ts c ci H (isInstanceOf ts o.ty ANNOTATION) o f)
    (x : Int) (a' : Nat) :
    ∀ (fs : List Feature), (fs.map (·.name)).Nodup → (∀ f ∈ fs, f ∈ allFeatures t) →
    ∀ (hpX : Heap) (o' : Obj), hpX[a']? = some o' → o'.ty = o.ty → o'.xid = some x →
      o'.slots.map (·.1) = o.slots.map (·.1) →
      (∀ (n : String) (v : Val), alistGet? o.slots n = some v → ∃ w, alistGet? o'.slots n = some w ∧
        (n ∈ fs.map (·.name) → Slot1 K ts cass H hpX o n v w) ∧
        (n ∉ fs.map (·.name) → Slot2 K ts cass H na ci' hpX o n v w)) →
    ∃ hpY, postFeatures K ts tsIdx ci' sofas fss a' o.ty false fs hpX = .ok hpY ∧ Ext hpX hpY a' ∧
      ∃ o'' : Obj, hpY[a']? = some o'' ∧ Obj2 K ts cass H na ci' hpY o o'' x := by
  intro fs
  induction fs with
  | nil =>
    intro _ _ hpX o' h1 hty hxid hkeys hslots
    refine ⟨hpX, rfl, ext_refl _ _, o', h1, hty, hxid, hkeys, ?_⟩
    intro n v hv
    obtain ⟨w, hw, _, h2⟩ := hslots n v hv
    exact ⟨w, hw, h2 (by simp)⟩
  | cons f fs ih =>
    intro hnd' hsub hpX o' h1 hty hxid hkeys hslots
    rw [List.map_cons, List.nodup_cons] at hnd'
    have hf : f ∈ allFeatures t := hsub f List.mem_cons_self
    have hxn : o'.xid ≠ none := by rw [hxid]; exact fun h => by cases h
    have halt : a' < hpX.length := getElem?_lt h1
    obtain ⟨v, hv⟩ := collFeat_slot K ts c ci H _ o f (hcf f hf)
    obtain ⟨w, hw, hs1, _⟩ := hslots f.name v hv
    obtain ⟨hp1, w', hpf, hstepx, hs2⟩ := gen_feature K ts cass ci c H na tsIdx ci' sofas fss hc hnames hnd hsofas hI
      a o t ho hfind hnodup hty1 hty2 hres f hf (hcf f hf) hpX a' o' h1 hxn v w hv hw (hs1 (by simp))
    have hfrz : Frz hpX hp1 := stepX_frz hstepx h1 hxn
    have hext : Ext hpX hp1 a' := stepX_ext hstepx halt
    obtain ⟨t0, _, hlen, hframe, o1, o2, ho1, ho2, hty', hxid', hkeys', hget, hother⟩ := hstepx
    rw [List.getElem?_append_left halt, h1] at ho1; cases ho1
    obtain ⟨hpY, hpfs, hextY, hres'⟩ := ih hnd'.2 (fun g hg => hsub g (List.mem_cons_of_mem _ hg)) hp1 o2 ho2
      (hty'.trans hty) (hxid'.trans hxid) (hkeys'.trans hkeys) (by
        intro n u hu
        by_cases hn : n = f.name
        · subst hn
          rw [hv] at hu; cases hu
          exact ⟨w', hget, fun hm => absurd hm hnd'.1, fun _ => hs2⟩
        · obtain ⟨w2, hw2, g1, g2⟩ := hslots n u hu
          refine ⟨w2, by rw [hother n hn]; exact hw2, fun hm => ?_, fun hm => ?_⟩
          · exact (g1 (by rw [List.map_cons]; exact List.mem_cons_of_mem _ hm)).frz hfrz
          · refine (g2 ?_).frz hfrz
            rw [List.map_cons]
            intro hm'
            rcases List.mem_cons.1 hm' with e | e
            · exact hn e
            · exact hm e)
    refine ⟨hpY, ?_, ext_trans hext hextY halt, hres'⟩
    show (postFeature K ts tsIdx ci' sofas fss hpX a' o.ty false f >>= fun hp' =>
      postFeatures K ts tsIdx ci' sofas fss a' o.ty false fs hp') = _
    rw [hpf]
    exact hpfs

end Cassis.Xmi.CGM

namespace Cassis.Xmi
open Cassis.TS Cassis.Traverse Cassis.Lex

/-- second pass on a general structure, given the second pass on one inlined collection feature -/
theorem gen_post (K : Consts) (ts : TypeSystem) (cass : List Cas) (ci : Nat) (c : Cas) (hp H : Heap)
    (L : List (Int × Nat)) (na : Int → Nat) (tsIdx ci' : Nat) (sofas : List (Int × PSofa)) (fss : List (Int × Nat))
    (hc : cass[ci]? = some c) (hwf : RTWf c hp) (hL : LOkC K ts c ci H L)
    (hsofas : sofas = c.views.map (fun nv => (nv.2.sofa.xid, psofaOf nv)))
    (hfss : fss = (0, H.length) :: L.map (fun q => (q.1, na q.1)))
    (hI : PostInlineStmt K ts cass H na tsIdx ci' sofas fss (fun _ => True)) :
    Post2Stmt K ts cass H L na tsIdx ci' sofas fss (GenFs K ts c ci H) := by
  intro q hq hgen hpX o o1 ho ho1 hrel
  obtain ⟨o_, t, ho_, hfind, _, _, _, _, hty1, hty2, hsa, _, _, hnodup, hkeysT, hcf, _⟩ := hgen
  rw [ho] at ho_; cases ho_
  obtain ⟨hty, hxid, hkeys, hslots⟩ := hrel
  have hres : ∀ b, Target K ts H q.2 b → Resolves H fss na b := by
    intro b hb
    obtain ⟨x, hx, hxL⟩ := hL.closed q hq b hb
    refine ⟨x, hx, ?_⟩
    rw [hfss]
    exact lookupFs_fss _ _ _ _ (hL.ids _ hxL).2 ⟨(x, b), hxL, rfl⟩
  obtain ⟨hpY, hpf, hext, o2, ho2, hrel2⟩ :=
    CGM.gen_features K ts cass ci c H na tsIdx ci' sofas fss hc hwf.names hwf.sofa_ids_nodup hsofas hI
      q.2 o t ho hfind hnodup hty1 hty2 hres hcf q.1 (na q.1) (allFeatures t) hnodup (fun _ h => h) hpX o1 ho1 hty hxid
      hkeys (by
        intro n v hv
        have hmem : n ∈ (allFeatures t).map (·.name) := by
          have h1 := rtp_alistGet?_key _ _ _ hv
          rw [hkeysT] at h1
          exact List.mem_eraseDups.1 h1
        obtain ⟨w, hw, hs⟩ := hslots n v hv
        exact ⟨w, hw, fun _ => hs, fun hn => absurd hmem hn⟩)
  refine ⟨t, hpY, ?_, ?_, hext, o2, ho2, hrel2⟩
  · rw [hty]; exact rtp_getType hfind
  · rw [hty, hsa]; exact hpf

end Cassis.Xmi
