/-
C16 with collections, the CAS loaded from XMI, part H: the remaining hypotheses of the JSON round trip for the loaded CAS
(members carry a sofa and ids, `MembersOk`, ids apart from the sofa ids, the range of `sofa` features), and the transfer
of the deep content `featContentC` from the loaded heap to the heap after the second traversal (which assigned ids to the
inlined collection objects only).
-/
import CassisModel.Proofs.ChainCollLoadedG
import CassisModel.Proofs.RoundTripCollBuildD

namespace Cassis.ChainC
open Cassis.TS Cassis.Traverse Cassis.Xmi Cassis.Lex Cassis.Json

section
variable {K : Consts} {ts : TypeSystem} {c : Cas} {ci : Nat} {H : Heap} {L : List (Int × Nat)} {ci' : Nat}
  {na : Int → Nat} {ia : Int → String → Nat} {ld : Xmi.Loaded}

/-- an entry of a loaded view is the counterpart of a written member of the written view -/
theorem XLd.entry_of (x : XLd K ts c ci H L ci' na ia ld) {nv nv' : String × View} (hnv : nv ∈ c.views)
    (hr : ViewRel H na nv nv') {e' : Index.Entry} (he' : e' ∈ Index.all nv'.2.idx) :
    ∃ e ∈ Index.all nv.2.idx, ∃ i : Int, (i, e.oid) ∈ L ∧ e'.oid = na i := by
  have hperm := hr.2.2.2.2.2.2.2
  have := hperm.mem_iff.mp (List.mem_map.mpr ⟨e', he', rfl⟩)
  obtain ⟨m, hm, hme⟩ := List.mem_map.mp this
  obtain ⟨e0, he0, hx0⟩ := mem_members.mp hm
  obtain ⟨y, hy⟩ := x.lok.members nv hnv e0 he0
  have := (x.lok.ids _ hy).1
  rw [show ((y, e0.oid) : Int × Nat).2 = e0.oid from rfl, hx0] at this
  cases this
  exact ⟨e0, he0, _, hy, hme.symm⟩

theorem XLd.entry (x : XLd K ts c ci H L ci' na ia ld) {nv' : String × View} (hnv' : nv' ∈ ld.cas.views)
    {e' : Index.Entry} (he' : e' ∈ Index.all nv'.2.idx) :
    ∃ nv ∈ c.views, ViewRel H na nv nv' ∧ ∃ e ∈ Index.all nv.2.idx, ∃ i : Int, (i, e.oid) ∈ L ∧ e'.oid = na i := by
  obtain ⟨nv, hnv, hr⟩ := viewsRelL_bwd H na _ _ x.views nv' hnv'
  exact ⟨nv, hnv, hr, x.entry_of hnv hr he'⟩

theorem XLd.slot_map (x : XLd K ts c ci H L ci' na ia ld) {q : Int × Nat} (hq : q ∈ L) {o o' : Obj}
    (ho : H[q.2]? = some o) (ho' : ld.heap[na q.1]? = some o') (n : String) :
    alistGet? o'.slots n = (alistGet? o.slots n).map (E3c K ts H na ia ci' o n) := by
  obtain ⟨o1, o1', h1, h1', _, _, hkeys, hslots⟩ := x.rel q hq
  rw [ho] at h1; cases h1
  rw [ho'] at h1'; cases h1'
  cases hv : alistGet? o.slots n with
  | some v => rw [hslots n v hv]; rfl
  | none =>
    cases hv' : alistGet? o'.slots n with
    | none => rfl
    | some w =>
      obtain ⟨v, hv2⟩ := alistGet?_of_keys o.slots o'.slots n w hkeys.symm hv'
      rw [hv] at hv2; cases hv2

/-- the members of the loaded views carry their sofa -/
theorem XLd.mem_sofa (x : XLd K ts c ci H L ci' na ia ld)
    (h : ∀ nv ∈ c.views, ∀ e ∈ Index.all nv.2.idx, Xmi.slot H e.oid "sofa" ≠ some .none) :
    ∀ nv ∈ ld.cas.views, ∀ e ∈ Index.all nv.2.idx, Xmi.slot ld.heap e.oid "sofa" ≠ some .none := by
  intro nv' hnv' e' he'
  obtain ⟨nv, hnv, _, e, he, i, hi, hei⟩ := x.entry hnv' he'
  obtain ⟨o, o', ho, ho', _⟩ := x.rel _ hi
  have h0 := h nv hnv e he
  rw [hei, slotOf "sofa" ho', x.slot_map hi ho ho' "sofa"]
  rw [slotOf "sofa" ho] at h0
  cases hv : alistGet? o.slots "sofa" with
  | none => simp
  | some v =>
    rw [hv] at h0
    rcases (lokW_of_lokC x.lok).sofa_shape _ hi o ho v hv with rfl | ⟨vn, rfl⟩
    · exact absurd rfl h0
    · simp [E3c, exp3]

theorem XLd.membersOk (x : XLd K ts c ci H L ci' na ia ld) (h : MembersOk c H) : MembersOk ld.cas ld.heap := by
  intro nv' hnv'
  obtain ⟨nv, hnv, hr⟩ := viewsRelL_bwd H na _ _ x.views nv' hnv'
  have key : ∀ e' ∈ Index.all nv'.2.idx, ∃ e ∈ Index.all nv.2.idx, ∃ (o o' : Obj) (k : Index.Entry),
      H[e.oid]? = some o ∧ Cas.entryOf o e.oid = .ok k ∧ ld.heap[e'.oid]? = some o' ∧ o'.ty = o.ty ∧
      Cas.entryOf o' e'.oid = .ok { k with oid := e'.oid } := by
    intro e' he'
    obtain ⟨e, he, i, hi, hei⟩ := x.entry_of hnv hr he'
    obtain ⟨o, o', ho, ho', hor⟩ := x.rel _ hi
    obtain ⟨o1, k, ho1, hk⟩ := (h nv hnv).1 e he
    rw [show H[((i, e.oid) : Int × Nat).2]? = H[e.oid]? from rfl] at ho
    rw [ho] at ho1; cases ho1
    refine ⟨e, he, o, o', k, ho, hk, by rw [hei]; exact ho', hor.1, ?_⟩
    exact RTCB.entryOf_rel K ts H na ia ci' (x.slot_map hi ho ho' "begin") (x.slot_map hi ho ho' "end") hk
  refine ⟨?_, ?_⟩
  · intro e' he'
    obtain ⟨_, _, _, o', k, _, _, ho', _, hk'⟩ := key e' he'
    exact ⟨o', _, ho', hk'⟩
  · intro e1' he1' e2' he2' o1' o2' k1' k2' ho1' ho2' hty hk1' hk2'
    obtain ⟨e1, he1, o1, o1'', k1, ho1, hk1, ho1'', hty1, hk1''⟩ := key e1' he1'
    obtain ⟨e2, he2, o2, o2'', k2, ho2, hk2, ho2'', hty2, hk2''⟩ := key e2' he2'
    rw [ho1'] at ho1''; cases ho1''
    rw [ho2'] at ho2''; cases ho2''
    rw [hk1'] at hk1''; cases hk1''
    rw [hk2'] at hk2''; cases hk2''
    exact (h nv hnv).2 e1 he1 e2 he2 o1 o2 k1 k2 ho1 ho2 (by rw [← hty1, ← hty2]; exact hty) hk1 hk2

end

end Cassis.ChainC
