/-
JSON round trip, layers 2 and 3: the second pass (`fsPass`) over the written document and the deferred references
(`fixUps`).
-/
import CassisModel.Proofs.RoundTripJsonParse3

namespace Cassis.Json
open Cassis.TS Cassis.Traverse Cassis.Lex Cassis.Xmi Cassis.Xmi.RTB

/-! ### the id map -/

theorem lookup_nil (i : Int) : lookup [] i = none := rfl

theorem lookup_cons (k : Int) (w : Val) (l : List (Int × Val)) (i : Int) :
    lookup ((k, w) :: l) i = if k = i then some w else lookup l i := by
  unfold lookup
  rw [List.find?_cons]
  by_cases h : k = i
  · simp [h]
  · have : (k == i) = false := by simpa using h
    simp [this, h]

theorem lookup_append (A B : List (Int × Val)) (i : Int) :
    lookup (A ++ B) i = match lookup A i with | some v => some v | none => lookup B i := by
  induction A with
  | nil => rfl
  | cons p A ih =>
    obtain ⟨k, w⟩ := p
    rw [List.cons_append, lookup_cons, lookup_cons]
    by_cases h : k = i
    · rw [if_pos h, if_pos h]
    · rw [if_neg h, if_neg h]; exact ih

theorem lookup_none_of_not_mem (l : List (Int × Val)) (i : Int) (h : i ∉ l.map (·.1)) : lookup l i = none := by
  induction l with
  | nil => rfl
  | cons p l ih =>
    obtain ⟨k, w⟩ := p
    simp only [List.map_cons, List.mem_cons, not_or] at h
    rw [lookup_cons, if_neg (fun e => h.1 e.symm)]
    exact ih h.2

theorem lookup_mem (l : List (Int × Val)) (i : Int) (v : Val) (h : lookup l i = some v) : (i, v) ∈ l := by
  induction l with
  | nil => cases h
  | cons p l ih =>
    obtain ⟨k, w⟩ := p
    rw [lookup_cons] at h
    by_cases e : k = i
    · rw [if_pos e] at h; cases h; rw [e]; exact List.mem_cons_self
    · rw [if_neg e] at h; exact List.mem_cons_of_mem _ (ih h)

theorem lookup_of_mem_nodup (l : List (Int × Val)) (hnd : (l.map (·.1)).Nodup) (i : Int) (v : Val) (h : (i, v) ∈ l) :
    lookup l i = some v := by
  induction l with
  | nil => cases h
  | cons p l ih =>
    obtain ⟨k, w⟩ := p
    rw [List.map_cons, List.nodup_cons] at hnd
    rw [lookup_cons]
    rcases List.mem_cons.mp h with e | h'
    · cases e; rw [if_pos rfl]
    · have : k ≠ i := by
        intro e; apply hnd.1; rw [e]; exact List.mem_map_of_mem (f := (·.1)) h'
      rw [if_neg this]; exact ih hnd.2 h'

/-- the entries of the structures that are already parsed -/
def fsEntries (na : Int → Nat) (L1 : List (Int × Nat)) : List (Int × Val) := L1.map (fun q => (q.1, Val.ref (na q.1)))

theorem fsEntries_keys (na : Int → Nat) (L1 : List (Int × Nat)) : (fsEntries na L1).map (·.1) = L1.map (·.1) := by
  unfold fsEntries; rw [List.map_map]; rfl

theorem fsEntries_val (na : Int → Nat) (L1 : List (Int × Nat)) (i : Int) (v : Val) (h : (i, v) ∈ fsEntries na L1) :
    v = .ref (na i) := by
  unfold fsEntries at h
  obtain ⟨q, _, e⟩ := List.mem_map.mp h
  cases e; rfl

/-! ### positions -/

theorem posOf_append_self (q : Int × Nat) (L2 : List (Int × Nat)) : ∀ (L1 : List (Int × Nat)), q.1 ∉ L1.map (·.1) →
    posOf q.1 (L1 ++ q :: L2) = L1.length
  | [], _ => by simp [posOf]
  | p :: L1, h => by
    simp only [List.map_cons, List.mem_cons, not_or] at h
    rw [List.cons_append]
    unfold posOf
    rw [if_neg (fun e => h.1 e.symm), posOf_append_self q L2 L1 h.2]
    rfl

theorem posOf_lt : ∀ (L : List (Int × Nat)) (x : Int), x ∈ L.map (·.1) → posOf x L < L.length
  | [], _, h => by cases h
  | p :: L, x, h => by
    unfold posOf
    by_cases e : p.1 = x
    · rw [if_pos e]; simp
    · rw [if_neg e]
      simp only [List.map_cons, List.mem_cons] at h
      have := posOf_lt L x (h.resolve_left (fun e' => e e'.symm))
      simp only [List.length_cons]
      omega

theorem naOf_inj (H : Heap) (L : List (Int × Nat)) : ∀ q ∈ L, ∀ q' ∈ L, naOf H L q.1 = naOf H L q'.1 → q.1 = q'.1 := by
  intro q hq q' hq' h
  unfold naOf at h
  exact posOf_inj L q.1 q'.1 (List.mem_map_of_mem hq) (List.mem_map_of_mem hq') (by omega)

/-! ### the state of the second pass -/

theorem ObjPend.mono {H : Heap} {na : Int → Nat} {ci' addr : Nat} {ds ds' : List Deferred} {o o' : Obj} {x : Int}
    (h : ObjPend H na ci' addr ds o o' x) (hs : ∀ d ∈ ds, d ∈ ds') : ObjPend H na ci' addr ds' o o' x := by
  obtain ⟨h1, h2, h3, h4⟩ := h
  refine ⟨h1, h2, h3, fun n v hv => ?_⟩
  rcases h4 n v hv with h | ⟨b, y, e1, e2, e3⟩
  · exact Or.inl h
  · exact Or.inr ⟨b, y, e1, e2, hs _ e3⟩

/-- what is fixed during the second pass -/
structure GCtx (K : Consts) (ts : TypeSystem) (cass : List Cas) (c : Cas) (ci : Nat) (hp H : Heap)
    (L : List (Int × Nat)) : Prop where
  hc : cass[ci]? = some c
  wf : RTWf c hp
  lok : LOk K ts c ci H L
  dis : ∀ q ∈ L, ∀ nv ∈ c.views, q.1 ≠ nv.2.sofa.xid
  json : ∀ q ∈ L, JsonFs ts H q.2

section
variable {K : Consts} {ts : TypeSystem} {cass : List Cas} {c : Cas} {ci : Nat} {hp H : Heap} {L : List (Int × Nat)}

theorem GCtx.pctx (g : GCtx K ts cass c ci hp H L) (ci' : Nat) (cas1 : Cas) (hv : cas1.views = bareViews c.views)
    (L1 : List (Int × Nat)) :
    PCtx cass c ci H L (naOf H L) ci' (sofaEntries ci' c.views ++ fsEntries (naOf H L) L1) cas1 where
  hc := g.hc
  closed := g.lok.closed
  fss_sofa := by
    intro nv hnv
    rw [lookup_append]
    have : lookup (sofaEntries ci' c.views) nv.2.sofa.xid = some (.sofa ci' nv.1) := by
      apply lookup_of_mem_nodup
      · rw [sofaEntries_keys]; exact g.wf.sofa_ids_nodup
      · unfold sofaEntries
        exact List.mem_map.mpr ⟨nv, hnv, rfl⟩
    rw [this]
  fss_ref := by
    intro q hq tv h
    rw [lookup_append] at h
    have : lookup (sofaEntries ci' c.views) q.1 = none := by
      apply lookup_none_of_not_mem
      rw [sofaEntries_keys]
      intro hin
      obtain ⟨nv, hnv, e⟩ := List.mem_map.mp hin
      exact g.dis q hq nv hnv e.symm
    rw [this] at h
    exact fsEntries_val _ _ _ _ (lookup_mem _ _ _ h)
  views := hv
  conv := g.wf.conv

/-- the state of the second pass after the structures `L1` -/
structure FInv (c : Cas) (H : Heap) (L : List (Int × Nat)) (ci' : Nat) (cas1 : Cas) (m0 m1 : Int)
    (L1 : List (Int × Nat)) (s : RState) : Prop where
  cas : s.cas = cas1
  num : s.maxNum = m0
  len : s.heap.length = H.length + L1.length
  fss : s.fss = sofaEntries ci' c.views ++ fsEntries (naOf H L) L1
  maxId : m1 ≤ s.maxId ∧ ∀ q ∈ L1, q.1 ≤ s.maxId
  rel : ∀ q ∈ L1, ∃ o o', H[q.2]? = some o ∧ s.heap[naOf H L q.1]? = some o' ∧
    ObjPend H (naOf H L) ci' (naOf H L q.1) s.deferred o o' q.1
  defs : ∀ d ∈ s.deferred, ∃ q ∈ L1, ∃ o, H[q.2]? = some o ∧ DefOk H (naOf H L q.1) o d

theorem elemOf_flat (g : GCtx K ts cass c ci hp H L) (q : Int × Nat) (hq : q ∈ L) :
    ∃ o t, H[q.2]? = some o ∧ find? ts o.ty = some t ∧ elemOf ts cass H q = flatJFs ts cass H q.1 o t ∧ o.ty ≠ SOFA := by
  obtain ⟨o, t, ho, ht, _, _, _, _, _, _, _, hns, _⟩ := g.lok.flat q hq
  refine ⟨o, t, ho, ht, ?_, hns⟩
  unfold elemOf
  rw [ho]
  dsimp only
  rw [ht]

theorem fsPass_flat (g : GCtx K ts cass c ci hp H L) (tsIdx ci' : Nat) (cas1 : Cas)
    (hv : cas1.views = bareViews c.views) (m0 m1 : Int) :
    ∀ (L2 L1 : List (Int × Nat)) (s : RState), L = L1 ++ L2 → FInv c H L ci' cas1 m0 m1 L1 s →
      ∃ s', fsPass K ts tsIdx (L2.map (elemOf ts cass H)) s = .ok s' ∧ FInv c H L ci' cas1 m0 m1 L s'
  | [], L1, s, hL, inv => by
    rw [List.append_nil] at hL
    subst hL
    exact ⟨s, rfl, inv⟩
  | q :: L2, L1, s, hL, inv => by
    have hq : q ∈ L := by rw [hL]; exact List.mem_append_right _ List.mem_cons_self
    obtain ⟨o, t, ho, ht, he, hns⟩ := elemOf_flat g q hq
    have hnd : ((L1 ++ q :: L2).map (·.1)).Nodup := by rw [← hL]; exact g.lok.nodup
    have hq1 : q.1 ∉ L1.map (·.1) := by
      rw [List.map_append, List.map_cons] at hnd
      intro hin
      exact (List.nodup_append.mp hnd).2.2 _ hin _ List.mem_cons_self rfl
    have hna : naOf H L q.1 = s.heap.length := by
      unfold naOf
      rw [inv.len, hL, posOf_append_self q L2 L1 hq1]
    obtain ⟨o', ds, hparse, hpend, hdef⟩ :=
      parseFs_flat tsIdx (g.pctx ci' cas1 hv L1) s inv.fss inv.cas q hq o t ho ht (g.lok.flat q hq) (g.json q hq)
    have hfsnew : setFs s.fss q.1 (.ref s.heap.length) = sofaEntries ci' c.views ++ fsEntries (naOf H L) (L1 ++ [q]) := by
      rw [setFs_new]
      · rw [inv.fss, List.append_assoc]
        congr 1
        unfold fsEntries
        rw [List.map_append, List.map_cons, List.map_nil, hna]
      · rw [inv.fss, List.map_append, sofaEntries_keys, fsEntries_keys]
        intro hin
        rcases List.mem_append.mp hin with hin | hin
        · obtain ⟨nv, hnv, e⟩ := List.mem_map.mp hin
          exact g.dis q hq nv hnv e.symm
        · exact hq1 hin
    have inv' : FInv c H L ci' cas1 m0 m1 (L1 ++ [q])
        { s with heap := s.heap ++ [o'], fss := setFs s.fss q.1 (.ref s.heap.length),
                 deferred := s.deferred ++ ds, maxId := max s.maxId q.1 } := by
      refine ⟨inv.cas, inv.num, ?_, hfsnew, ⟨?_, ?_⟩, ?_, ?_⟩
      · show (s.heap ++ [o']).length = _
        rw [List.length_append, List.length_append, inv.len]
        simp only [List.length_cons, List.length_nil]
        omega
      · show m1 ≤ max s.maxId q.1
        have := inv.maxId.1
        omega
      · intro q' hq'
        show q'.1 ≤ max s.maxId q.1
        rcases List.mem_append.mp hq' with h | h
        · have := inv.maxId.2 q' h
          omega
        · rw [List.mem_singleton] at h
          subst h
          omega
      · intro q' hq'
        rcases List.mem_append.mp hq' with h | h
        · obtain ⟨o1, o1', h1, h2, h3⟩ := inv.rel q' h
          refine ⟨o1, o1', h1, ?_, h3.mono (fun d hd => List.mem_append_left _ hd)⟩
          show (s.heap ++ [o'])[naOf H L q'.1]? = some o1'
          have hlt : naOf H L q'.1 < s.heap.length := (List.getElem?_eq_some_iff.mp h2).1
          rw [List.getElem?_append_left hlt]
          exact h2
        · rw [List.mem_singleton] at h
          subst h
          refine ⟨o, o', ho, ?_, ?_⟩
          · show (s.heap ++ [o'])[naOf H L q'.1]? = some o'
            rw [hna]; exact get_last _ _
          · rw [hna]
            exact hpend.mono (fun d hd => List.mem_append_right _ hd)
      · intro d hd
        rcases List.mem_append.mp hd with h | h
        · obtain ⟨q', hq', o1, h1, h2⟩ := inv.defs d h
          exact ⟨q', List.mem_append_left _ hq', o1, h1, h2⟩
        · exact ⟨q, List.mem_append_right _ List.mem_cons_self, o, ho, by rw [hna]; exact hdef d h⟩
    obtain ⟨s', hs', inv''⟩ := fsPass_flat g tsIdx ci' cas1 hv m0 m1 L2 (L1 ++ [q]) _
      (by rw [hL, List.append_assoc]; rfl) inv'
    refine ⟨s', ?_, inv''⟩
    rw [List.map_cons]
    unfold fsPass
    have hty : ((elemOf ts cass H q).ty != SOFA) = true := by
      rw [he]
      show (o.ty != SOFA) = true
      simpa using hns
    rw [hty]
    simp only [if_true]
    rw [he, hparse]
    dsimp only
    exact hs'

theorem fsPass_skip_sofas (tsIdx : Nat) (r : List JFs) (s : RState) :
    ∀ (l : List JFs), (∀ e ∈ l, e.ty = SOFA) → fsPass K ts tsIdx (l ++ r) s = fsPass K ts tsIdx r s
  | [], _ => rfl
  | e :: l, h => by
    rw [List.cons_append]
    conv => lhs; unfold fsPass
    have : (e.ty != SOFA) = false := by rw [h e List.mem_cons_self]; simp
    rw [this]
    simp only [Bool.false_eq_true, if_false]
    exact fsPass_skip_sofas tsIdx r s l (fun e' he' => h e' (List.mem_cons_of_mem _ he'))

/-! ### deferred references -/

/-- every structure has its counterpart, whose slots are final or wait for one of the deferred references `ds` -/
def PRel (H : Heap) (L : List (Int × Nat)) (ci' : Nat) (heap : Heap) (ds : List Deferred) : Prop :=
  ∀ q ∈ L, ∃ o o', H[q.2]? = some o ∧ heap[naOf H L q.1]? = some o' ∧
    ObjPend H (naOf H L) ci' (naOf H L q.1) ds o o' q.1

def DefC (H : Heap) (L : List (Int × Nat)) (d : Deferred) : Prop :=
  ∃ q ∈ L, ∃ o, H[q.2]? = some o ∧ DefOk H (naOf H L q.1) o d

theorem fixUps_flat (g : GCtx K ts cass c ci hp H L) (ci' : Nat) (fssF : List (Int × Val))
    (hfss : ∀ q ∈ L, lookup fssF q.1 = some (.ref (naOf H L q.1))) :
    ∀ (ds : List Deferred) (heap : Heap), (∀ d ∈ ds, DefC H L d) → PRel H L ci' heap ds →
      ∃ heap', fixUps fssF ds heap = .ok heap' ∧ HeapRel H L (naOf H L) (E3 H (naOf H L) ci') heap'
  | [], heap, _, hrel => by
    refine ⟨heap, rfl, ?_⟩
    intro q hq
    obtain ⟨o, o', ho, ho', h1, h2, h3, h4⟩ := hrel q hq
    refine ⟨o, o', ho, ho', h1, h2, h3, ?_⟩
    intro n v hv
    rcases h4 n v hv with h | ⟨_, _, _, _, hm⟩
    · exact h
    · cases hm
  | d :: ds, heap, hdc, hrel => by
    obtain ⟨q, hq, o, ho, n, b, y, hd, hsl, hy⟩ := hdc d List.mem_cons_self
    obtain ⟨o_, o', ho_, ho', hty, hxid, hkeys, hslots⟩ := hrel q hq
    rw [ho] at ho_; cases ho_
    obtain ⟨y', hy', hyL⟩ := g.lok.closed q hq o ho n b hsl
    rw [hy] at hy'; cases hy'
    have hval : (d.target.bind (lookup fssF)).getD .none = .ref (naOf H L y) := by
      rw [hd]
      dsimp only [Option.bind_some]
      rw [hfss _ hyL]; rfl
    have hn' : ∃ w, alistGet? o'.slots n = some w := by
      apply Option.isSome_iff_exists.mp
      rw [aget_isSome_iff, hkeys, ← aget_isSome_iff, hsl]; rfl
    obtain ⟨w, hw⟩ := hn'
    have hstep : Heap.setSlot heap d.addr d.slot (.ref (naOf H L y)) =
        .ok (heap.set (naOf H L q.1) (setObj o' n (.ref (naOf H L y)))) := by
      rw [hd]
      exact setSlot_existing _ ho' hw
    have hrel' : PRel H L ci' (heap.set (naOf H L q.1) (setObj o' n (.ref (naOf H L y)))) ds := by
      intro q2 hq2
      by_cases hsame : naOf H L q2.1 = naOf H L q.1
      · have hid := naOf_inj H L q2 hq2 q hq hsame
        have hq2' : q2 = q := by
          obtain ⟨x2, a2⟩ := q2
          obtain ⟨x, a⟩ := q
          simp only at hid
          subst hid
          rw [addr_unique g.lok.nodup hq2 hq]
        subst hq2'
        refine ⟨o, setObj o' n (.ref (naOf H L y)), ho, set_get_self ho', hty, hxid, ?_, ?_⟩
        · rw [setObj_keys _ _ _ ((aget_isSome_iff _ _).mp (by rw [hw]; rfl)), hkeys]
        · intro n2 v2 hv2
          show alistGet? (alistSet o'.slots n _) n2 = _ ∨ _
          by_cases hn2 : n2 = n
          · subst hn2
            left
            rw [alistGet?_set_same]
            rw [hsl] at hv2
            cases hv2
            unfold exp3
            dsimp only
            rw [hy]
          · rw [alistGet?_set_other _ _ _ _ hn2]
            rcases hslots n2 v2 hv2 with h | ⟨b2, y2, e1, e2, hm⟩
            · exact Or.inl h
            · right
              refine ⟨b2, y2, e1, e2, ?_⟩
              rcases List.mem_cons.mp hm with e | hm'
              · rw [hd] at e
                have : n2 = n := by injection e
                exact absurd this hn2
              · exact hm'
      · obtain ⟨o2, o2', h1, h2, t1, t2, t3, t4⟩ := hrel q2 hq2
        refine ⟨o2, o2', h1, ?_, t1, t2, t3, ?_⟩
        · rw [set_get_ne (Ne.symm hsame)]; exact h2
        · intro n2 v2 hv2
          rcases t4 n2 v2 hv2 with h | ⟨b2, y2, e1, e2, hm⟩
          · exact Or.inl h
          · right
            refine ⟨b2, y2, e1, e2, ?_⟩
            rcases List.mem_cons.mp hm with e | hm'
            · rw [hd] at e
              have : naOf H L q2.1 = naOf H L q.1 := by injection e
              exact absurd this hsame
            · exact hm'
    obtain ⟨heap', hfix, hfin⟩ := fixUps_flat g ci' fssF hfss ds _
      (fun d' hd' => hdc d' (List.mem_cons_of_mem _ hd')) hrel'
    refine ⟨heap', ?_, hfin⟩
    unfold fixUps
    have he : d.elems = none := by rw [hd]
    rw [he]
    dsimp only
    rw [hval, hstep]
    exact hfix

end

end Cassis.Json
