/-
Non-vacuity of `Properties/C16ChainEmbedded.lean`: the tests `chainCollAppliesB` / `chainJXAppliesB`
(`Spec/ChainCollCheck.lean`) answer `true` on the instance `EmbDemo` with collections (`Proofs/RoundTripJsonEmbDemo.lean`:
an API-built type system with the chain `x.A > x.B > x.C`, features declared bottom-up, an inlined IntegerArray and a
shared FSArray feature; text `a😀b`, two `x.C` that refer to each other, an indexed `x.B`), hence every hypothesis of the
chain theorems about the CAS holds there; the hypotheses about the type system (`UserOnly`, `Writable`,
`NoPercentNames`) are those of `EmbDemo`.  The kernel evaluates the whole tests.
-/
import CassisModel.Proofs.ChainCollCheck
import CassisModel.Proofs.RoundTripJsonEmbDemo
import CassisModel.Proofs.EmbeddedTsRefute
import CassisModel.Spec.ChainEmb
import CassisModel.Spec.ChainEmbCheck

namespace Cassis.Json.EmbDemo
open Cassis Cassis.TS Cassis.Xmi Cassis.Traverse

/-- the test of `chain_xmi_json_coll` applies to the instance -/
theorem chainXJ_applies : chainCollAppliesB Gen.consts embTsC [cas] 0 hpC = true := by decide +kernel

/-- the test of `chain_json_xmi_coll` applies to the instance -/
theorem chainJX_applies : chainJXAppliesB Gen.consts embTsC [cas] 0 hpC = true := by decide +kernel

/-- equally named own features of the instance's type system (built-in types included) agree on the flags -/
theorem flagCoherent : Cassis.ChainE.FlagCoherent Gen.consts embTsC := by decide +kernel

end Cassis.Json.EmbDemo


/-! ### the hypothesis `MultiResAgree` on the instance

The type system rebuilt from the `%TYPES` section of the FULL document of the instance agrees with the original on
`multipleReferencesAllowed` and the reserved flag of every effective feature — evaluated by the kernel (as in
`Proofs/EmbeddedTsRefute.lean`: `toposort` by rewriting with `toposort_go_step1`, the merge and `create_feature` through
their structurally recursive copies `mergeDeclsG pushS` / `createFeatureS`). -/

deriving instance DecidableEq for Cassis.Json.JFeat
deriving instance DecidableEq for Cassis.Json.JType

namespace Cassis.Json.EmbDemo
open Cassis Cassis.TS Cassis.Xmi Cassis.Traverse Cassis.ChainE

/-- the `%TYPES` section of the FULL document of the instance -/
def embTypes : List JType :=
  [ { name := "x.A", super := "uima.tcas.Annotation",
      feats := [ { name := "fa", range := "x.C" }, { name := "self", range := "uima.cas.Boolean" },
                 { name := "ia", range := "uima.cas.Integer[]" } ] },
    { name := "x.B", super := "x.A", descr := some "middle",
      feats := [ { name := "fb", range := "uima.cas.String", descr := some "a string" },
                 { name := "fsa", range := "x.C[]", multi := some true } ] },
    { name := "x.C", super := "x.B", feats := [ { name := "fc", range := "uima.cas.Integer" } ] } ]

theorem embTypes_eq : (fullRecs Gen.consts embTsC).map (renderTypeDecl0 Gen.consts) = embTypes := by decide +kernel

theorem embTypes_toposort : toposort embTypes = .ok ["uima.tcas.Annotation", "x.A", "x.B", "x.C"] := by
  unfold toposort
  simp only []
  rw [toposort_go_step1 _ _ 4 _ _ "uima.tcas.Annotation" (by decide) (by decide) (by decide)]
  rw [toposort_go_step1 _ _ 3 _ _ "x.A" (by decide) (by decide) (by decide)]
  rw [toposort_go_step1 _ _ 2 _ _ "x.B" (by decide) (by decide) (by decide)]
  rw [toposort_go_step1 _ _ 1 _ _ "x.C" (by decide) (by decide) (by decide)]
  rfl

/-- `featStep` / `featsStep` (`Proofs/EmbeddedTsC.lean`) with the structurally recursive `createFeatureS` -/
def featStepS (K : Consts) (dom : String) (ts : TypeSystem) (jf : JFeat) : Except Err TypeSystem :=
  let isArr := jf.range.endsWith "[]"
  let elemT := if isArr then some (String.ofList (jf.range.toList.dropLast.dropLast)) else jf.elem
  let rangeT := if isArr then arrayTypeNameFor ((elemT.getD "")) else jf.range
  let elemT := if isArr && isPrimitiveArray K rangeT then none else elemT
  createFeatureS ts dom jf.name rangeT elemT jf.descr jf.multi

def featsStepS (K : Consts) (ts : TypeSystem) (jt : JType) : Except Err TypeSystem := do
  let t ← getType ts jt.name
  jt.feats.foldlM (featStepS K t.name) ts

theorem featsStep_eq_S (K : Consts) : featsStep K = featsStepS K := by
  funext ts jt
  unfold featsStep featsStepS
  have : ∀ dom, featStep K dom = featStepS K dom := by
    intro dom
    funext ts jf
    unfold featStep featStepS
    simp only [createFeature_eq_S]
  simp only [this]

/-- the check, as a function of the embedded type system the reader arrives at -/
def hmrCheck (emb? : Except Err TypeSystem) : Bool :=
  match emb? with
  | .error _ => true
  | .ok emb =>
    match mergeDeclsG pushS Gen.consts Gen.builtinTS ([Gen.builtinTS, emb].flatMap (declsOf Gen.consts)) with
    | .error _ => true
    | .ok ts' => decide (MultiResAgree Gen.consts embTsC ts')

/-- the embedded type system, as the kernel evaluates it -/
def embOf : Except Err TypeSystem := do
  let order ← (Except.ok ["uima.tcas.Annotation", "x.A", "x.B", "x.C"] : Except Err (List String))
  let ts1 ← order.foldlM (typeStep Gen.consts embTypes) Gen.builtinTS
  embTypes.foldlM (featsStepS Gen.consts) ts1

theorem embOf_check : hmrCheck embOf = true := by decide +kernel

theorem embTypes_noPct : ∀ jt ∈ embTypes, ∀ jf ∈ jt.feats, jf.name.startsWith "%" = false := by
  rw [← embTypes_eq]
  exact renderTypeDecl0_noPct _ _ (fun t ht => noPct_coll t ((mem_fullRecs _ _ _).mp ht).1)

theorem hmrCheck_ok (emb ts' : TypeSystem)
    (h : mergeDeclsG pushS Gen.consts Gen.builtinTS ([Gen.builtinTS, emb].flatMap (declsOf Gen.consts)) = .ok ts')
    (hk : hmrCheck (.ok emb) = true) : MultiResAgree Gen.consts embTsC ts' := by
  have e : hmrCheck (.ok emb) = decide (MultiResAgree Gen.consts embTsC ts') := by
    show (match mergeDeclsG pushS Gen.consts Gen.builtinTS ([Gen.builtinTS, emb].flatMap (declsOf Gen.consts)) with
      | .error _ => true
      | .ok ts' => decide (MultiResAgree Gen.consts embTsC ts')) = _
    rw [h]
  rw [e] at hk
  exact of_decide_eq_true hk

/-- whatever the reader builds from the `%TYPES` section of the instance agrees with the original
    (no `simp` on the evaluated check: its simprocs would try to evaluate the closed type system) -/
theorem embTypes_hmr (doc : JDoc) (hdoc : doc.types = some embTypes) (ts' : TypeSystem)
    (h : loadTs Gen.consts Gen.builtinTS true doc = .ok ts') : MultiResAgree Gen.consts embTsC ts' := by
  unfold loadTs at h
  simp only [hdoc, if_true] at h
  cases hemb : loadEmbeddedTs Gen.consts embTypes with
  | error e => rw [hemb] at h; cases h
  | ok emb =>
    rw [hemb] at h
    simp only [merge, mergeDecls_eq_S] at h
    rw [loadEmbeddedTs_eq _ _ (by decide) embTypes_noPct] at hemb
    rw [embTypes_toposort, featsStep_eq_S] at hemb
    have key := embOf_check
    unfold embOf at key
    rw [hemb] at key
    exact hmrCheck_ok emb ts' h key

/-- **non-vacuity of `chain_json_xmi_full_coll_partial`**: every type system the reader builds from the `%TYPES` section
    of the FULL document of the instance satisfies `MultiResAgree` -/
theorem full_hmr (doc : JDoc) (st : Traverse.St) (hs : saveJson Gen.consts embTsC [cas] 0 hpC .full = .ok (doc, st)) :
    ∀ ts', loadTs Gen.consts Gen.builtinTS true doc = .ok ts' → MultiResAgree Gen.consts embTsC ts' := by
  obtain ⟨decls, hdecls, htypes⟩ := saveJson_full_types _ _ _ _ _ _ _ hs
  rw [renderTypeDecls_noPct _ _ (fun t ht => noPct_coll t ((mem_fullRecs _ _ _).mp ht).1)] at hdecls
  -- (`cases hdecls` would make the unifier evaluate the closed `%TYPES` section)
  have hd := Except.ok.inj hdecls
  rw [← hd, embTypes_eq] at htypes
  exact fun ts' h => embTypes_hmr doc htypes ts' h

end Cassis.Json.EmbDemo

/-! ### the counterexample `RedefDemo` (`Spec/ChainEmbCheck.lean`): its history satisfies `UserOnlyNoDoc`, the type system
is `Writable` and has no feature name starting with `%`, and the test of `chain_json_xmi_coll` applies (kernel) -/

namespace Cassis.Json.RedefDemo
open Cassis Cassis.TS Cassis.Xmi Cassis.Traverse

/-- the type system as the kernel evaluates it -/
def tsS : TypeSystem := ops.foldl (applyOpS Gen.consts) Gen.builtinTS

theorem ts_eq : ts = tsS := by unfold ts tsS; rw [applyOp_eq_S]

theorem userOnly : UserOnly Gen.consts ops := by
  have hA : Gen.consts.predefined.contains "x.A" = false ∧ "x.A".contains '.' = true :=
    ⟨by decide, contains_dot _ (by decide)⟩
  have hB : Gen.consts.predefined.contains "x.B" = false ∧ "x.B".contains '.' = true :=
    ⟨by decide, contains_dot _ (by decide)⟩
  exact ⟨hB.1, hB.2, hA.1, hA.2, trivial⟩

theorem noDoc : ∀ op ∈ ops, match op with
    | .createFeature dom _ _ _ _ _ => dom ≠ DOCUMENT_ANNOTATION
    | .createType _ _ _ => True := by
  intro op hop
  simp only [ops, List.mem_cons, List.not_mem_nil, or_false] at hop
  rcases hop with rfl | rfl | rfl | rfl
  all_goals first
    | trivial
    | decide

theorem writable : Writable Gen.consts tsS := by decide +kernel
theorem noPct : NoPercentNames tsS := by decide +kernel

/-- every hypothesis of `chain_json_xmi_coll` about the CAS holds on the counterexample -/
theorem chainJX_applies : chainJXAppliesB Gen.consts tsS [cas] 0 hp = true := by decide +kernel

/-- … but NOT `FlagCoherent`: `x.B.f` (`multipleReferencesAllowed = true`) and `x.A.f` (absent) have an array range -/
theorem not_flagCoherent : ¬ Cassis.ChainE.FlagCoherent Gen.consts tsS := by decide +kernel

/-- the effective feature `f` of `x.B` in the original: the definition on `x.B`, `multipleReferencesAllowed = true` -/
theorem f_original : fOfB tsS = some ("x.B", some true) := by decide +kernel

end Cassis.Json.RedefDemo
