/-
Helper lemmas for `Properties/C13Perm.lean`, part C: what a *successful* run of the merge loop leaves behind when every
name is declared with one supertype throughout (`OneSuper`): the tree and feature invariants, and for every declaration
`d` a record named `d.name` with supertype `d.super` (not final) whose effective features cover `d.own`.
The document annotation type, registered from the start below `uima.tcas.Annotation`, is moved by its first declaration
below the declared supertype if that is a subtype of `uima.tcas.Annotation`, and stays if it is a supertype of it.
-/
import CassisModel.Spec.MergePerm
import CassisModel.Proofs.MergeSelf
import CassisModel.Proofs.MergePermR2
import CassisModel.Proofs.MergePermT

namespace Cassis.TS

/-- `d.own` is covered (up to `Feature.__eq__`) by the effective features of the record named `d.name` -/
def CovD (ts : TypeSystem) (d : Decl) : Prop :=
  ∃ t', find? ts d.name = some t' ∧ ∀ f ∈ d.own, ∃ g ∈ eff t', featureEq g f = true

/-- record by record, `ts'` extends `ts`; only the document annotation type may change its supertype -/
def GrowW (ts ts' : TypeSystem) : Prop :=
  ∀ x t, find? ts x = some t → ∃ t', find? ts' x = some t' ∧
    (x ≠ DOCUMENT_ANNOTATION → t'.super = t.super) ∧ (∀ g ∈ eff t, g ∈ eff t')

theorem GrowW.refl (ts : TypeSystem) : GrowW ts ts := fun _ t hx => ⟨t, hx, fun _ => rfl, fun _ h => h⟩

theorem GrowW.trans {a b c : TypeSystem} (h1 : GrowW a b) (h2 : GrowW b c) : GrowW a c := by
  intro x t hx
  obtain ⟨t1, ht1, s1, e1⟩ := h1 x t hx
  obtain ⟨t2, ht2, s2, e2⟩ := h2 x t1 ht1
  exact ⟨t2, ht2, fun h => (s2 h).trans (s1 h), fun g hg => e2 g (e1 g hg)⟩

theorem GrowW.of_grow {K : Consts} {a b : TypeSystem} (h : Grow K a b) : GrowW a b := by
  intro x t hx
  obtain ⟨t', ht', hs, _, ho, hi, _⟩ := h x t hx
  refine ⟨t', ht', fun _ => hs, ?_⟩
  intro g hg
  rcases List.mem_append.mp hg with hg | hg
  · exact List.mem_append_left _ (ho g hg)
  · exact List.mem_append_right _ (hi g hg)

theorem GrowW.reg {a b : TypeSystem} (h : GrowW a b) (x : String) (hx : hasExact a x = true) :
    hasExact b x = true := by
  obtain ⟨t, ht⟩ := (hasExact_iff_find a x).mp hx
  obtain ⟨t', ht', _⟩ := h x t ht
  exact (hasExact_iff_find b x).mpr ⟨t', ht'⟩

theorem CovD.grow {a b : TypeSystem} {d : Decl} (h : CovD a d) (hg : GrowW a b) : CovD b d := by
  obtain ⟨t, ht, hcov⟩ := h
  obtain ⟨t', ht', _, hsub⟩ := hg d.name t ht
  refine ⟨t', ht', ?_⟩
  intro f hf
  obtain ⟨g, hg, hgf⟩ := hcov f hf
  exact ⟨g, hsub g hg, hgf⟩

/-- ancestor chains that avoid the document annotation type survive -/
theorem anc_growW {ts ts' : TypeSystem} (hg : GrowW ts ts') {a b : String} (h : Anc ts a b) :
    ¬ Anc ts DOCUMENT_ANNOTATION b → Anc ts' a b := by
  induction h with
  | refl ha => intro _; exact Anc.refl _ (hg.reg _ ha)
  | step b s tb hfb hsb hab ih =>
    intro hn
    obtain ⟨t', ht', hs', _⟩ := hg b tb hfb
    have hbd : b ≠ DOCUMENT_ANNOTATION := by
      intro e
      apply hn
      rw [← e]
      exact Anc.refl b ((hasExact_iff_find ts b).mpr ⟨tb, hfb⟩)
    refine Anc.step a b s t' ht' (by rw [hs' hbd]; exact hsb) (ih ?_)
    exact fun h' => hn (Anc.step _ b s tb hfb hsb h')

theorem anc_grow {K : Consts} {ts ts' : TypeSystem} (hg : Grow K ts ts') {a b : String} (h : Anc ts a b) :
    Anc ts' a b := by
  induction h with
  | refl ha => exact Anc.refl _ (hg.reg _ ha)
  | step b s tb hfb hsb hab ih =>
    obtain ⟨t', ht', hs', _⟩ := hg b tb hfb
    exact Anc.step a b s t' ht' (by rw [hs']; exact hsb) ih

/-- where the document annotation type sits once it has been merged, against a declaration of it -/
def DAok (ts : TypeSystem) (t : TypeRec) (d : Decl) : Prop :=
  (t.super = some d.super ∧ Anc ts ANNOTATION d.super) ∨ (t.super = some ANNOTATION ∧ Anc ts d.super ANNOTATION)

/-- the invariant of a run over declarations among `decls` -/
structure RInv (K : Consts) (decls : List Decl) (s : MState) : Prop where
  cons : Consistent s.ts
  feat : FeatInv s.ts
  pre : ∀ p, K.predefined.contains p = true → hasExact s.ts p = true
  mer : ∀ x ∈ s.merged, hasExact s.ts x = true
  sup : ∀ d ∈ decls, d.name ≠ DOCUMENT_ANNOTATION → ∀ t, find? s.ts d.name = some t →
    t.super = some d.super ∧ K.finalTypes.contains d.super = false
  da : ∃ t, find? s.ts DOCUMENT_ANNOTATION = some t ∧
    ((DOCUMENT_ANNOTATION ∉ s.merged ∧ t.super = some ANNOTATION ∧ t.children = []) ∨
     (∀ d ∈ decls, d.name = DOCUMENT_ANNOTATION → DAok s.ts t d))
  daAnc : Anc s.ts ANNOTATION DOCUMENT_ANNOTATION

theorem addOwnFeatures_run (K : Consts) (n : String) (hn : K.predefined.contains n = false) :
    ∀ (fs : List Feature) (ts ts' : TypeSystem), Consistent ts → FeatInv ts → hasExact ts n = true →
      addOwnFeatures ts n fs = .ok ts' →
      Consistent ts' ∧ FeatInv ts' ∧ Grow K ts ts' ∧
        ∃ t', find? ts' n = some t' ∧ ∀ f ∈ fs, ∃ g ∈ eff t', featureEq g f = true := by
  intro fs
  induction fs with
  | nil =>
    intro ts ts' hc hf hreg h
    simp only [addOwnFeatures] at h
    cases h
    obtain ⟨t, ht⟩ := (hasExact_iff_find ts n).mp hreg
    exact ⟨hc, hf, Grow.refl K ts, t, ht, fun f hf => by cases hf⟩
  | cons f fs ih =>
    intro ts ts' hc hf hreg h
    simp only [addOwnFeatures] at h
    cases h1 : addFeature ts n { f with domain := n } with
    | error e => rw [h1] at h; cases h
    | ok ts1 =>
      rw [h1] at h
      simp only at h
      have hc1 := consistent_addFeature_aux ts ts1 n _ hc h1
      have hf1 := featInv_addFeature_aux ts ts1 n _ hc hf h1
      have hg1 : Grow K ts ts1 := addFeature_grow K hc hf hn h1
      obtain ⟨t1, ht1, g, hg, hgf⟩ := addFeature_covers hc hf h1
      obtain ⟨hc2, hf2, hg2, t', ht', hall⟩ := ih ts1 ts' hc1 hf1 (hg1.reg n hreg) h
      refine ⟨hc2, hf2, hg1.trans hg2, t', ht', ?_⟩
      intro x hx
      rcases List.mem_cons.mp hx with rfl | hx
      · obtain ⟨t'', ht'', hsub⟩ := grow_cov hg2 ht1
        rw [ht'] at ht''; cases ht''
        exact ⟨g, hsub g hg, hgf⟩
      · exact hall x hx

theorem createType_run (K : Consts) (ts ts' : TypeSystem) (n s : String) (dsc : Option String) (sup : TypeRec)
    (hc : Consistent ts) (hf : FeatInv ts) (hnew : hasExact ts n = false) (hsup : find? ts s = some sup)
    (h : createType K ts n s dsc = .ok ts') :
    Consistent ts' ∧ FeatInv ts' ∧ Grow K ts ts' ∧ K.finalTypes.contains s = false ∧
      (∃ t, find? ts' n = some t ∧ t.super = some s) ∧
      (∀ x, x ≠ n → ∀ t', find? ts' x = some t' → ∃ t, find? ts x = some t ∧ t'.super = t.super) := by
  refine ⟨consistent_createType_aux K ts ts' n s _ hc hnew h, featInv_createType_aux K ts ts' n s _ hc hf hnew h,
    createType_grow K ts ts' n s dsc hc hf hnew h, ?_⟩
  obtain ⟨sup1, hsup1, hnf⟩ := createType_nonfinal K ts ts' n s dsc h
  rw [getType_of_find hsup] at hsup1
  have e1 : sup = sup1 := by injection hsup1
  subst e1
  obtain ⟨sup', hsup', _, rfl⟩ := createType_shape K ts ts' n s _ hc hf hnew h
  rw [getType_of_find hsup] at hsup'
  have e : sup = sup' := by injection hsup'
  subst e
  have hsn : sup.name = s := find?_name hsup
  have hfind := find_create ts ts.redeclared n sup.name
    { name := n, super := some sup.name, descr := dsc, inh := allFeatures sup } rfl hnew
  refine ⟨by rw [← hsn]; exact hnf, ⟨_, by rw [hfind, if_pos rfl], by rw [hsn]⟩, ?_⟩
  intro x hx t' ht'
  rw [hfind, if_neg hx] at ht'
  cases hfx : find? ts x with
  | none => rw [hfx] at ht'; cases ht'
  | some t0 =>
    rw [hfx] at ht'
    simp only [Option.map_some, Option.some.injEq] at ht'
    subst ht'
    exact ⟨t0, rfl, upd_super _ _ _⟩


end Cassis.TS
