/-
Non-vacuity of `json_roundtrip_flat` (`Properties/C02RoundTrip.lean`): the instance of `RoundTripDemo.lean` (the
built-in type system plus the annotation type `x.Tok`, a CAS over the text `a😀b`, two `x.Tok` structures that refer to
each other, one of them indexed) satisfies every hypothesis of the theorem (`demo_hypsJ`).
-/
import CassisModel.Spec.RoundTripJson
import CassisModel.Proofs.RoundTripDemo

namespace Cassis.Json.Demo
open Cassis Cassis.TS Cassis.Xmi Cassis.Traverse Cassis.Xmi.Demo

theorem save_litJ : (saveJson K demoTS' [casL] 0 hpL .none).toOption.map (fun r => (r.2.heap, r.2.allFs)) =
    some (hpS, [(2,0),(3,1)]) := by
  decide +kernel

/-- Boolean checker for `JsonFs` -/
def jsonFsB (ts : TypeSystem) (hp : Heap) (a : Nat) : Bool :=
  match hp[a]? with
  | none => true
  | some o =>
    match find? ts o.ty with
    | none => true
    | some t =>
      !(o.ty.endsWith "[]") &&
      (allFeatures t).all (fun f =>
        !(f.name.startsWith "@") && !(f.name.startsWith "#") && !(f.name.startsWith "%") &&
        (if f.name = "begin" ∨ f.name = "end" then (f.domain == ANNOTATION) == isInstanceOf ts o.ty ANNOTATION else true))

theorem jsonFsB_sound (ts : TypeSystem) (hp : Heap) (a : Nat) (h : jsonFsB ts hp a = true) : JsonFs ts hp a := by
  intro o t ho ht
  unfold jsonFsB at h
  rw [ho] at h
  dsimp only at h
  rw [ht] at h
  dsimp only at h
  rw [Bool.and_eq_true, List.all_eq_true] at h
  refine ⟨by simpa using h.1, ?_⟩
  intro f hf
  have := h.2 f hf
  simp only [Bool.and_eq_true, Bool.not_eq_true'] at this
  obtain ⟨⟨⟨h1, h2⟩, h3⟩, h4⟩ := this
  refine ⟨h1, h2, h3, ?_⟩
  intro hbe
  rw [if_pos hbe] at h4
  exact eq_of_beq h4

theorem json0 : jsonFsB demoTS' hpS 0 = true := by decide +kernel
theorem json1 : jsonFsB demoTS' hpS 1 = true := by decide +kernel

theorem member_ids : ∀ nv ∈ casL.views, ∀ e ∈ Index.all nv.2.idx, (xidOf hpL e.oid).isSome = true := by
  decide +kernel

/-- **non-vacuity**: every hypothesis of `json_roundtrip_flat` holds for `K := Gen.consts`, `ts := demoTS`,
    `cass := [demo.1]`, `ci := 0`, `c := demo.1`, `hp := demo.2` and the `(doc, st)` that `saveJson` returns -/
theorem demo_hypsJ : ∃ (doc : JDoc) (st : Traverse.St),
    saveJson K demoTS [demo.1] 0 demo.2 .none = .ok (doc, st) ∧
    [demo.1][0]? = some demo.1 ∧ RTWf demo.1 demo.2 ∧
    (∀ q ∈ st.allFs, FlatFs K demoTS demo.1 0 st.heap q.2) ∧
    (∀ q ∈ st.allFs, JsonFs demoTS st.heap q.2) ∧
    (∀ nv ∈ demo.1.views, ∀ e ∈ Index.all nv.2.idx, (xidOf demo.2 e.oid).isSome = true) ∧
    (∀ q ∈ st.allFs, ∀ nv ∈ demo.1.views, q.1 ≠ nv.2.sofa.xid) ∧
    (∀ nv ∈ demo.1.views, ∀ e ∈ Index.all nv.2.idx, Xmi.slot st.heap e.oid "sofa" ≠ some .none) ∧
    MembersOk demo.1 st.heap := by
  rw [demo_eq, demo'_lit, demoTS_eq]
  cases h : saveJson K demoTS' [casL] 0 hpL .none with
  | error e =>
    have hs := save_litJ
    rw [h] at hs
    simp [Except.toOption] at hs
  | ok r =>
    have hs := save_litJ
    rw [h] at hs
    simp only [Except.toOption, Option.map_some, Option.some.injEq, Prod.mk.injEq] at hs
    obtain ⟨hheap, hall⟩ := hs
    refine ⟨r.1, r.2, rfl, rfl, rtwf, ?_, ?_, member_ids, ?_, ?_, ?_⟩
    · rw [hheap, hall]
      intro q hq
      simp only [List.mem_cons, List.not_mem_nil, or_false] at hq
      rcases hq with rfl | rfl
      · exact flatFsB_sound _ _ _ _ _ _ flat0
      · exact flatFsB_sound _ _ _ _ _ _ flat1
    · rw [hheap, hall]
      intro q hq
      simp only [List.mem_cons, List.not_mem_nil, or_false] at hq
      rcases hq with rfl | rfl
      · exact jsonFsB_sound _ _ _ json0
      · exact jsonFsB_sound _ _ _ json1
    · rw [hall]; exact disjoint_ids
    · rw [hheap]; exact members_sofa
    · rw [hheap]; exact membersOk

end Cassis.Json.Demo
