/-
C16 with an embedded type system that is only a part of the original, part 5: **`chain_json_xmi_minimal_coll`** — JSON
written with mode MINIMAL → CAS loaded with no type system supplied (the type system `ts'` rebuilt from the `%TYPES`
section is the closure part of the original, merged into a fresh type system) → XMI written and read under `ts'` → CAS.
Composition of `chain_json_xmi_part_core` (`Proofs/ChainEmb2Jx.lean`) and `json_minimal_ts_part`
(`Proofs/ChainEmb2Min.lean`).
-/
import CassisModel.Proofs.ChainEmb2Min

namespace Cassis.ChainE
open Cassis.TS Cassis.Json

/-- **the type system rebuilt from a MINIMAL document agrees with the original on `multipleReferencesAllowed` and the
    reserved flag**, for `FlagCoherent` type systems (the counterpart of `json_full_ts_multi`) -/
theorem json_minimal_ts_multi (ops : List TsOp)
    (hu : UserOnly Gen.consts ops ∧ ∀ op ∈ ops, match op with
      | .createFeature dom _ _ _ _ _ => dom ≠ DOCUMENT_ANNOTATION
      | .createType _ _ _ => True)
    (hw : Writable Gen.consts (ops.foldl (applyOp Gen.consts) Gen.builtinTS))
    (hpc : NoPercentNames (ops.foldl (applyOp Gen.consts) Gen.builtinTS))
    (hfc : FlagCoherent Gen.consts (ops.foldl (applyOp Gen.consts) Gen.builtinTS))
    (cass : List Cas) (ci : Nat) (c : Cas) (hp : Heap) (doc : JDoc) (st : Traverse.St)
    (hc : cass[ci]? = some c) (harr : ∀ nv ∈ c.views, nv.2.sofa.arr = .none)
    (hsave : saveJson Gen.consts (ops.foldl (applyOp Gen.consts) Gen.builtinTS) cass ci hp .minimal = .ok (doc, st))
    (hreg : ∀ q ∈ st.allFs, ∀ ob : Obj, st.heap[q.2]? = some ob →
      (find? (ops.foldl (applyOp Gen.consts) Gen.builtinTS) ob.ty).isSome = true ∧ ob.ty.endsWith "[]" = false)
    (ts' : TypeSystem) (hl : loadTs Gen.consts Gen.builtinTS true doc = .ok ts') :
    MultiResAgree Gen.consts (ops.foldl (applyOp Gen.consts) Gen.builtinTS) ts' := by
  obtain ⟨m, _, hlm, _, _, _, _, _, _, hmr⟩ := json_minimal_ts_part ops hu hw hpc cass ci c hp doc st hc harr hsave hreg
  rw [hl] at hlm
  cases hlm
  exact hmr hfc

end Cassis.ChainE

namespace Cassis
open Cassis.TS Cassis.Traverse Cassis.Xmi Cassis.Chain Cassis.ChainC Cassis.ChainE

/-- the chain for MINIMAL documents of API-built, writable type systems; `MultiResAgree` a hypothesis -/
theorem chain_json_xmi_minimal_coll_partial_aux (ops : List TsOp) (ts : TypeSystem)
    (hts : ts = ops.foldl (applyOp Gen.consts) Gen.builtinTS)
    (hu : UserOnly Gen.consts ops ∧ ∀ op ∈ ops, match op with
      | .createFeature dom _ _ _ _ _ => dom ≠ DOCUMENT_ANNOTATION
      | .createType _ _ _ => True)
    (hw : Json.Writable Gen.consts ts) (hpc : Json.NoPercentNames ts)
    (cass : List Cas) (ci : Nat) (c : Cas) (hp : Heap) (tsIdx : Nat) (docj : Json.JDoc) (st stx : St)
    (hc : cass[ci]? = some c) (hwf : RTWf c hp) (hnull : NullOk ts)
    (hsave : Json.saveJson Gen.consts ts cass ci hp .minimal = .ok (docj, st))
    (hcoll : ∀ q ∈ st.allFs, CollFs Gen.consts ts c ci st.heap q.2)
    (hjson : ∀ q ∈ st.allFs, Json.JsonFs ts st.heap q.2)
    (harr : ∀ q ∈ st.allFs, Json.ArrElemsSome st.heap q.2)
    (hids : ∀ nv ∈ c.views, ∀ e ∈ Index.all nv.2.idx, (xidOf hp e.oid).isSome = true)
    (hdis : ∀ q ∈ st.allFs, ∀ nv ∈ c.views, q.1 ≠ nv.2.sofa.xid)
    (hmem : ∀ nv ∈ c.views, ∀ e ∈ Index.all nv.2.idx, Xmi.slot st.heap e.oid "sofa" ≠ some .none)
    (hmok : MembersOk c st.heap)
    (hx : findAllFs Gen.consts ts {} st.heap c.nextXid (defaultSeeds c) = .ok stx)
    (hmr : ∀ ts', Json.loadTs Gen.consts Gen.builtinTS true docj = .ok ts' → MultiResAgree Gen.consts ts ts') :
    ∃ (ld1 : Json.Loaded) (docx : XDoc) (st2 : St) (p2 : Pass1) (ld2 : Xmi.Loaded),
      Json.loadJson Gen.consts Gen.builtinTS tsIdx cass.length false true st.heap docj = .ok ld1 ∧
      (∀ j ∈ docj.fss, Json.TypeAgree ts ld1.ts (Json.fsTypeName j)) ∧
      saveXmi Gen.consts ld1.ts (cass ++ [ld1.cas]) cass.length ld1.heap = .ok (docx, st2) ∧
      pass1 Gen.consts ld1.ts tsIdx false docx { heap := st2.heap } = .ok p2 ∧
      loadXmi Gen.consts ld1.ts tsIdx (cass.length + 1) false st2.heap docx = .ok ld2 ∧
      ld2.cas.views.map (viewContent ld2.heap) = c.views.map (viewContent st.heap) ∧
      (∀ q ∈ stx.allFs, ∃ (a2 : Nat) (o o2 : Obj), lookupFs p2.fss q.1 = .ok a2 ∧
          st.heap[q.2]? = some o ∧ ld2.heap[a2]? = some o2 ∧ o2.ty = o.ty ∧ o2.xid = some q.1 ∧
          ∀ t : TypeRec, find? ts o.ty = some t → ∀ f ∈ allFeatures t,
            featContentC Gen.consts ld2.heap a2 f = featContentC Gen.consts st.heap q.2 f) := by
  subst hts
  have hreg : ∀ q ∈ st.allFs, ∀ ob : Obj, st.heap[q.2]? = some ob →
      (find? (ops.foldl (applyOp Gen.consts) Gen.builtinTS) ob.ty).isSome = true ∧ ob.ty.endsWith "[]" = false := by
    intro q hq ob hob
    have hj := hjson q hq
    rcases hcoll q hq with ⟨o, t, ho, ht, _⟩ | ⟨o, t, f, ev, ho, ht, _⟩
    · rw [hob] at ho; cases ho
      exact ⟨by rw [ht]; rfl, (hj ob t hob ht).1⟩
    · rw [hob] at ho; cases ho
      exact ⟨by rw [ht]; rfl, (hj ob t hob ht).1⟩
  obtain ⟨ts', N, hlts, hcons, hcons', hag, hpart, hN, hnN, _⟩ :=
    json_minimal_ts_part ops hu hw hpc cass ci c hp docj st hc (fun nv hnv => (hwf.text_sofa nv hnv).1) hsave hreg
  -- `cas:NULL` has no features in the rebuilt type system either
  have hnull' : NullOk ts' := by
    obtain ⟨t0, ht0, hf0⟩ := hnull
    obtain ⟨t, tm, h1, h2, _, hp4, _⟩ := hpart _ hnN
    rw [ht0] at h1; cases h1
    refine ⟨tm, h2, ?_⟩
    have := hp4.length_eq
    rw [hf0] at this
    simp only [List.map_nil, List.length_nil, List.length_map] at this
    exact List.eq_nil_of_length_eq_zero this
  obtain ⟨ld1, docx, st2, p2, ld2, h1, h2, h3, h4, h5, h6, h7⟩ :=
    chain_json_xmi_part_core Gen.consts N _ ts' Gen.builtinTS .minimal cass ci c hp tsIdx docj st stx hc hwf hnull hsave
      hlts hag hpart hN hnull' hcons hcons' (hmr ts' hlts) hcoll hjson harr hids hdis hmem hmok hx
  rw [← h2] at h3 h4 h5 hag
  exact ⟨ld1, docx, st2, p2, ld2, h1, hag, h3, h4, h5, h6, h7⟩

/-- **JSON (MINIMAL) → CAS without a type system → XMI under the rebuilt type system → CAS**, for API-built, writable,
    `FlagCoherent` type systems -/
theorem chain_json_xmi_minimal_coll_aux (ops : List TsOp) (ts : TypeSystem)
    (hts : ts = ops.foldl (applyOp Gen.consts) Gen.builtinTS)
    (hu : UserOnly Gen.consts ops ∧ ∀ op ∈ ops, match op with
      | .createFeature dom _ _ _ _ _ => dom ≠ DOCUMENT_ANNOTATION
      | .createType _ _ _ => True)
    (hw : Json.Writable Gen.consts ts) (hpc : Json.NoPercentNames ts) (hfc : FlagCoherent Gen.consts ts)
    (cass : List Cas) (ci : Nat) (c : Cas) (hp : Heap) (tsIdx : Nat) (docj : Json.JDoc) (st stx : St)
    (hc : cass[ci]? = some c) (hwf : RTWf c hp) (hnull : NullOk ts)
    (hsave : Json.saveJson Gen.consts ts cass ci hp .minimal = .ok (docj, st))
    (hcoll : ∀ q ∈ st.allFs, CollFs Gen.consts ts c ci st.heap q.2)
    (hjson : ∀ q ∈ st.allFs, Json.JsonFs ts st.heap q.2)
    (harr : ∀ q ∈ st.allFs, Json.ArrElemsSome st.heap q.2)
    (hids : ∀ nv ∈ c.views, ∀ e ∈ Index.all nv.2.idx, (xidOf hp e.oid).isSome = true)
    (hdis : ∀ q ∈ st.allFs, ∀ nv ∈ c.views, q.1 ≠ nv.2.sofa.xid)
    (hmem : ∀ nv ∈ c.views, ∀ e ∈ Index.all nv.2.idx, Xmi.slot st.heap e.oid "sofa" ≠ some .none)
    (hmok : MembersOk c st.heap)
    (hx : findAllFs Gen.consts ts {} st.heap c.nextXid (defaultSeeds c) = .ok stx) :
    ∃ (ld1 : Json.Loaded) (docx : XDoc) (st2 : St) (p2 : Pass1) (ld2 : Xmi.Loaded),
      Json.loadJson Gen.consts Gen.builtinTS tsIdx cass.length false true st.heap docj = .ok ld1 ∧
      (∀ j ∈ docj.fss, Json.TypeAgree ts ld1.ts (Json.fsTypeName j)) ∧
      saveXmi Gen.consts ld1.ts (cass ++ [ld1.cas]) cass.length ld1.heap = .ok (docx, st2) ∧
      pass1 Gen.consts ld1.ts tsIdx false docx { heap := st2.heap } = .ok p2 ∧
      loadXmi Gen.consts ld1.ts tsIdx (cass.length + 1) false st2.heap docx = .ok ld2 ∧
      ld2.cas.views.map (viewContent ld2.heap) = c.views.map (viewContent st.heap) ∧
      (∀ q ∈ stx.allFs, ∃ (a2 : Nat) (o o2 : Obj), lookupFs p2.fss q.1 = .ok a2 ∧
          st.heap[q.2]? = some o ∧ ld2.heap[a2]? = some o2 ∧ o2.ty = o.ty ∧ o2.xid = some q.1 ∧
          ∀ t : TypeRec, find? ts o.ty = some t → ∀ f ∈ allFeatures t,
            featContentC Gen.consts ld2.heap a2 f = featContentC Gen.consts st.heap q.2 f) := by
  apply chain_json_xmi_minimal_coll_partial_aux ops ts hts hu hw hpc cass ci c hp tsIdx docj st stx hc hwf hnull hsave
    hcoll hjson harr hids hdis hmem hmok hx
  intro ts' hl
  subst hts
  have hreg : ∀ q ∈ st.allFs, ∀ ob : Obj, st.heap[q.2]? = some ob →
      (find? (ops.foldl (applyOp Gen.consts) Gen.builtinTS) ob.ty).isSome = true ∧ ob.ty.endsWith "[]" = false := by
    intro q hq ob hob
    have hj := hjson q hq
    rcases hcoll q hq with ⟨o, t, ho, ht, _⟩ | ⟨o, t, f, ev, ho, ht, _⟩
    · rw [hob] at ho; cases ho
      exact ⟨by rw [ht]; rfl, (hj ob t hob ht).1⟩
    · rw [hob] at ho; cases ho
      exact ⟨by rw [ht]; rfl, (hj ob t hob ht).1⟩
  exact json_minimal_ts_multi ops hu hw hpc hfc cass ci c hp docj st hc (fun nv hnv => (hwf.text_sofa nv hnv).1) hsave
    hreg ts' hl

end Cassis
