/-
Non-vacuity of `json_full_ts_same` (`Properties/C02EmbeddedTs.lean`): a history with a chain, a type without namespace,
a user subtype of `uima.cas.String`, a subtype of DocumentAnnotation, a feature redefined identically on a subtype, a
reserved feature name, array ranges with and without element type, `multipleReferencesAllowed`, a list with element
type.  The hypotheses are evaluated by the kernel; `create_feature` is evaluated through its structurally recursive
copy `createFeatureS` (the kernel does not unfold the well-founded recursion of `pushInherited`).
-/
import CassisModel.Proofs.EmbeddedTs

namespace Cassis.Json
open Cassis.TS

def applyOpS (K : Consts) (ts : TypeSystem) : TsOp → TypeSystem
  | .createType n s d =>
    if hasExact ts n then ts
    else match createType K ts n s d with
      | .ok ts' => ts'
      | .error _ => ts
  | .createFeature dom n r e d m =>
    match createFeatureS ts dom n r e d m with
    | .ok ts' => ts'
    | .error _ => ts

theorem applyOp_eq_S (K : Consts) : applyOp K = applyOpS K := by
  funext ts op
  cases op with
  | createType n s d => rfl
  | createFeature dom n r e d m =>
    simp only [applyOp, applyOpS, createFeature_eq_S]
    rfl

def demoOps : List TsOp :=
  [ .createType "x.A" "uima.tcas.Annotation" none,
    .createType "x.B" "x.A" (some "a subtype"),
    .createType "Plain" "uima.cas.TOP" none,
    .createType "x.S" "uima.cas.String" none,
    .createType "x.D" "uima.tcas.DocumentAnnotation" none,
    .createFeature "x.B" "f" "uima.cas.Integer" none none none,
    .createFeature "x.A" "f" "uima.cas.Integer" none none none,
    .createFeature "x.A" "self" "x.S" none (some "reserved name") none,
    .createFeature "x.A" "arr" "uima.cas.FSArray" (some "x.B") none (some true),
    .createFeature "x.A" "top" "uima.cas.FSArray" none none none,
    .createFeature "x.B" "ints" "uima.cas.IntegerArray" none none (some false),
    .createFeature "x.B" "lst" "uima.cas.FSList" (some "Plain") none none,
    .createFeature "x.D" "g" "Plain" none none none ]

theorem contains_dot (s : String) (h : '.' ∈ s.toList) : s.contains '.' = true := by
  rw [String.contains_eq_contains_toSlice, String.Slice.contains_char_eq]
  simpa using h

theorem demo_userOnly : UserOnly Gen.consts demoOps := by
  have hA : Gen.consts.predefined.contains "x.A" = false ∧ "x.A".contains '.' = true :=
    ⟨by decide, contains_dot _ (by decide)⟩
  have hB : Gen.consts.predefined.contains "x.B" = false ∧ "x.B".contains '.' = true :=
    ⟨by decide, contains_dot _ (by decide)⟩
  have hD : Gen.consts.predefined.contains "x.D" = false ∧ "x.D".contains '.' = true :=
    ⟨by decide, contains_dot _ (by decide)⟩
  exact ⟨hB.1, hB.2, hA.1, hA.2, hA.1, hA.2, hA.1, hA.2, hA.1, hA.2, hB.1, hB.2, hB.1, hB.2, hD.1, hD.2, trivial⟩

theorem demo_noDoc : ∀ op ∈ demoOps, match op with
    | .createFeature dom _ _ _ _ _ => dom ≠ DOCUMENT_ANNOTATION
    | .createType _ _ _ => True := by
  intro op hop
  simp only [demoOps, List.mem_cons, List.not_mem_nil, or_false] at hop
  rcases hop with rfl | rfl | rfl | rfl | rfl | rfl | rfl | rfl | rfl | rfl | rfl | rfl | rfl
  all_goals first
    | trivial
    | decide

/-- the demo type system, as the kernel evaluates it -/
def demoTs : TypeSystem := demoOps.foldl (applyOpS Gen.consts) Gen.builtinTS

theorem demo_eq : demoOps.foldl (applyOp Gen.consts) Gen.builtinTS = demoTs := by
  unfold demoTs; rw [applyOp_eq_S]

theorem demo_writable : Writable Gen.consts demoTs := by decide +kernel

/-- the features arrived: `f` is both an own and an inherited feature of `x.B` -/
example : ((find? demoTs "x.B").map (fun t => (t.own.map (·.name), t.inh.map (·.name)))) =
    some (["f", "ints", "lst"], ["begin", "end", "sofa", "f", "self_", "arr", "top"]) := by decide +kernel

theorem demo_noPct : NoPercentNames demoTs := by decide +kernel

theorem demo_save : ∃ doc st, saveJson Gen.consts demoTs [Cas.empty] 0 [] .full = .ok (doc, st) := by
  have h : (match saveJson Gen.consts demoTs [Cas.empty] 0 [] .full with
    | .ok _ => true | .error _ => false) = true := by decide +kernel
  cases hs : saveJson Gen.consts demoTs [Cas.empty] 0 [] .full with
  | error e => rw [hs] at h; cases h
  | ok p => exact ⟨p.1, p.2, rfl⟩

/-- … hence the conclusion of `json_full_ts_same` holds on the demo: the document can be loaded without a type system
    and the loaded type system declares the same as the original -/
theorem demo_full_ts_same : ∃ doc st ts', saveJson Gen.consts demoTs [Cas.empty] 0 [] .full = .ok (doc, st) ∧
    loadTs Gen.consts Gen.builtinTS true doc = .ok ts' ∧ SameTs demoTs ts' := by
  obtain ⟨doc, st, hs⟩ := demo_save
  have hw := demo_writable
  have hpc := demo_noPct
  rw [← demo_eq] at hs hw hpc ⊢
  obtain ⟨ts', hl, hsame⟩ := json_full_ts_same_aux demoOps ⟨demo_userOnly, demo_noDoc⟩ hw hpc _ _ _ doc st hs
  exact ⟨doc, st, ts', hs, hl, hsame⟩

/-- `Writable` is not constantly true: an empty description is not writable -/
example : ¬ Writable Gen.consts
    ([TsOp.createType "x.A" "uima.cas.TOP" (some "")].foldl (applyOpS Gen.consts) Gen.builtinTS) := by
  decide +kernel

end Cassis.Json
