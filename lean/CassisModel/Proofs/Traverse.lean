/-
Proofs about the worklist traversal `findAllFs` (`Model/Traverse.lean`): linear iteration bound,
termination on finite list spines, uniqueness of the collected entries, heap frame (C15).

Structure (same as the validated spike `Work.lean`): a potential invariant
`pushes + pending(unvisited) ≤ Σ outdeg` together with `pops + |open| = seeds + pushes`.
-/
import CassisModel.Spec.Traverse

namespace Cassis.Traverse
open Cassis.TS

/-! ### heap shape: the traversal only ever assigns missing ids -/

/-- `hp'` has the objects of `hp`, possibly with ids assigned where `hp` had none -/
def SameShape (hp hp' : Heap) : Prop :=
  hp'.length = hp.length ∧
  ∀ (a : Nat) (ob : Obj), hp[a]? = some ob → ∃ ob' : Obj, hp'[a]? = some ob' ∧ ob'.ty = ob.ty ∧ ob'.slots = ob.slots ∧
    (ob.xid ≠ none → ob'.xid = ob.xid)

theorem SameShape.refl (hp : Heap) : SameShape hp hp :=
  ⟨rfl, fun _ ob h => ⟨ob, h, rfl, rfl, fun _ => rfl⟩⟩

theorem SameShape.trans {h1 h2 h3 : Heap} (a12 : SameShape h1 h2) (a23 : SameShape h2 h3) :
    SameShape h1 h3 := by
  refine ⟨a23.1.trans a12.1, ?_⟩
  intro a ob h
  obtain ⟨ob2, e2, t2, s2, x2⟩ := a12.2 a ob h
  obtain ⟨ob3, e3, t3, s3, x3⟩ := a23.2 a ob2 e2
  refine ⟨ob3, e3, t3.trans t2, s3.trans s2, ?_⟩
  intro hx
  have := x2 hx
  rw [x3 (by rw [this]; exact hx), this]

theorem SameShape.set {hp : Heap} {a : Nat} {ob : Obj} (h : hp[a]? = some ob) (hx : ob.xid = none) (x : Int) :
    SameShape hp (hp.set a { ob with xid := some x }) := by
  refine ⟨List.length_set, ?_⟩
  intro b ob' hb
  by_cases hab : a = b
  · subst hab
    have hlt : a < hp.length := by
      obtain ⟨hlt, _⟩ := List.getElem?_eq_some_iff.mp h
      exact hlt
    rw [h] at hb
    cases hb
    refine ⟨_, List.getElem?_set_self hlt, rfl, rfl, ?_⟩
    intro hne; exact absurd hx hne
  · refine ⟨ob', ?_, rfl, rfl, fun _ => rfl⟩
    rw [List.getElem?_set_ne hab]; exact hb

theorem SameShape.get_back {hp hp' : Heap} (sh : SameShape hp hp') {a : Nat} {ob' : Obj}
    (h : hp'[a]? = some ob') : ∃ ob, hp[a]? = some ob ∧ ob'.ty = ob.ty ∧ ob'.slots = ob.slots := by
  have hlt : a < hp'.length := by
    obtain ⟨hlt, _⟩ := List.getElem?_eq_some_iff.mp h
    exact hlt
  have hlt0 : a < hp.length := by rw [← sh.1]; exact hlt
  have h0 : hp[a]? = some hp[a] := List.getElem?_eq_getElem hlt0
  obtain ⟨ob2, e2, t2, s2, _⟩ := sh.2 a _ h0
  rw [h] at e2
  cases e2
  exact ⟨_, h0, t2, s2⟩

theorem SameShape.slot {hp hp' : Heap} (sh : SameShape hp hp') (a : Nat) (n : String) :
    slot hp' a n = slot hp a n := by
  unfold Traverse.slot
  cases h : hp[a]? with
  | none =>
    have : hp'[a]? = none := by
      apply List.getElem?_eq_none
      rw [sh.1]
      exact List.getElem?_eq_none_iff.mp h
    rw [this]
  | some ob =>
    obtain ⟨ob', e, _, s, _⟩ := sh.2 a ob h
    rw [e]
    simp only [Option.bind_some, s]

theorem SameShape.xidOf {hp hp' : Heap} (sh : SameShape hp hp') {a : Nat} {x : Int}
    (h : xidOf hp a = some x) : xidOf hp' a = some x := by
  unfold Traverse.xidOf at *
  cases h0 : hp[a]? with
  | none => rw [h0] at h; cases h
  | some ob =>
    rw [h0] at h
    simp only [Option.bind_some] at h
    obtain ⟨ob', e, _, _, hx⟩ := sh.2 a ob h0
    rw [e]
    simp only [Option.bind_some]
    rw [hx (by rw [h]; exact fun e => nomatch e), h]

/-! ### characterisation of one successful iteration -/

/-- the id assignment of `step`: the popped object `ob` at `a` ends with id `x` in heap `hp'` -/
def HeapStep (s : St) (a : Nat) (ob : Obj) (x : Int) (hp' : Heap) : Prop :=
  (ob.xid = some x ∧ hp' = s.heap) ∨
  (ob.xid = none ∧ x = s.nextXid ∧ hp' = s.heap.set a { ob with xid := some s.nextXid })

theorem HeapStep.shape {s : St} {a : Nat} {ob : Obj} {x : Int} {hp' : Heap}
    (hs : HeapStep s a ob x hp') (h : s.heap[a]? = some ob) :
    SameShape s.heap hp' ∧ xidOf hp' a = some x := by
  rcases hs with ⟨hx, rfl⟩ | ⟨hx, rfl, rfl⟩
  · refine ⟨SameShape.refl _, ?_⟩
    unfold xidOf; rw [h]; exact hx
  · refine ⟨SameShape.set h hx _, ?_⟩
    have hlt : a < s.heap.length := by
      obtain ⟨hlt, _⟩ := List.getElem?_eq_some_iff.mp h
      exact hlt
    unfold xidOf
    rw [List.getElem?_set_self hlt]
    rfl

theorem step_cases (K : Consts) (ts : TypeSystem) (o : Opts) (lf : Nat) (s : St) (a : Nat)
    (rest : List Nat) (s' : St) (h : step K ts o lf s a rest = .ok s') :
    ∃ ob x, s.heap[a]? = some ob ∧ HeapStep s a ob x s'.heap ∧ s'.pops = s.pops + 1 ∧
      ((s'.allFs = s.allFs ∧ s'.openl = rest ∧ s'.pushes = s.pushes ∧
          (x = 0 ∨ ∃ y, (y, a) ∈ s.allFs ∧ y = x)) ∨
       (∃ t ps n, s.allFs.find? (fun p => p.1 == x) = none ∧ getType ts ob.ty = .ok t ∧
          nodeSuccs K ts o s'.heap s'.allFs lf a t = .ok (ps, n) ∧
          s'.allFs = s.allFs ++ [(x, a)] ∧ s'.openl = rest ++ ps ∧
          s'.pushes = s.pushes + ps.length)) := by
  unfold step at h
  simp only [bind, Except.bind, pure, Except.pure, throw, throwThe, MonadExceptOf.throw] at h
  split at h
  case h_2 => cases h
  rename_i ob hob
  refine ⟨ob, ?_⟩
  split at h
  · rename_i h0
    cases h
    refine ⟨0, hob, Or.inl ⟨by simpa using h0, rfl⟩, rfl, Or.inl ⟨rfl, rfl, rfl, Or.inl rfl⟩⟩
  · split at h
    · rename_i x hx
      refine ⟨x, hob, ?_⟩
      split at h
      · rename_i y b hf
        split at h
        · rename_i hb
          cases h
          have hb' : b = a := by simpa using hb
          subst hb'
          have hm := List.mem_of_find?_eq_some hf
          have hy := List.find?_some hf
          have hy' : y = x := by simpa using hy
          exact ⟨Or.inl ⟨hx, rfl⟩, rfl, Or.inl ⟨rfl, rfl, rfl, Or.inr ⟨y, hm, hy'⟩⟩⟩
        · cases h
      · rename_i hf
        split at h
        · cases h
        · rename_i t ht
          split at h
          · cases h
          · rename_i r hr
            cases h
            obtain ⟨ps, n⟩ := r
            exact ⟨Or.inl ⟨hx, rfl⟩, rfl, Or.inr ⟨t, ps, n, hf, ht, hr, rfl, rfl, rfl⟩⟩
    · rename_i hx
      refine ⟨s.nextXid, hob, ?_⟩
      split at h
      case isFalse => cases h
      split at h
      · rename_i y b hf
        split at h
        · rename_i hb
          cases h
          have hb' : b = a := by simpa using hb
          subst hb'
          have hm := List.mem_of_find?_eq_some hf
          have hy := List.find?_some hf
          have hy' : y = s.nextXid := by simpa using hy
          exact ⟨Or.inr ⟨hx, rfl, rfl⟩, rfl, Or.inl ⟨rfl, rfl, rfl, Or.inr ⟨y, hm, hy'⟩⟩⟩
        · cases h
      · rename_i hf
        split at h
        · cases h
        · rename_i t ht
          split at h
          · cases h
          · rename_i r hr
            cases h
            obtain ⟨ps, n⟩ := r
            exact ⟨Or.inr ⟨hx, rfl, rfl⟩, rfl, Or.inr ⟨t, ps, n, hf, ht, hr, rfl, rfl, rfl⟩⟩

/-! ### successors are monotone in the visited map and independent of assigned ids -/

theorem seenId_nil (x : Option Int) (a : Nat) : seenId [] x a = false := by
  cases x <;> rfl

/-- "at most as many pushes as against an empty visited map" (errors coincide, only `ok` matters) -/
def LeR : Except Err (List Nat × Nat) → Except Err (List Nat × Nat) → Prop
  | .ok r, .ok r0 => r.1.length ≤ r0.1.length
  | .ok _, .error _ => False
  | .error _, _ => True

theorem refsToPush_le (hp hp0 : Heap) (allFs : List (Int × Nat)) (l : List (Option Nat)) :
    (refsToPush hp allFs l).length ≤ (refsToPush hp0 [] l).length := by
  induction l with
  | nil => exact Nat.le_refl _
  | cons r l ih =>
    unfold refsToPush at *
    cases r with
    | none => simpa only [List.filterMap_cons_none] using ih
    | some a =>
      simp only [List.filterMap_cons, seenId_nil, Bool.false_eq_true, if_false] at ih ⊢
      split
      · simp only [List.length_cons]; omega
      · simp only [List.length_cons]; omega

/-- the same for the list walk; `none` (fuel exhausted) does not depend on the visited map -/
def LeW : Option (List Nat × Nat) → Option (List Nat × Nat) → Prop
  | some r, some r0 => r.1.length ≤ r0.1.length
  | none, none => True
  | _, _ => False

theorem walkList_le (hp hp0 : Heap) (hslot : ∀ a n, slot hp a n = slot hp0 a n)
    (allFs : List (Int × Nat)) (f : Nat) (v : Val) :
    LeW (walkList hp allFs f v) (walkList hp0 [] f v) := by
  induction f generalizing v with
  | zero => unfold walkList; exact True.intro
  | succ f ih =>
    cases v with
    | ref a =>
      unfold walkList
      rw [hslot a "head", hslot a "tail"]
      cases hh : slot hp0 a "head" with
      | none => exact Nat.le_refl _
      | some hd =>
        have := ih ((slot hp0 a "tail").getD .none)
        simp only
        cases h1 : walkList hp allFs f ((slot hp0 a "tail").getD .none) with
        | none =>
          cases h2 : walkList hp0 [] f ((slot hp0 a "tail").getD .none) with
          | none => exact True.intro
          | some r0 => rw [h1, h2] at this; exact this.elim
        | some r =>
          cases h2 : walkList hp0 [] f ((slot hp0 a "tail").getD .none) with
          | none => rw [h1, h2] at this; exact this.elim
          | some r0 =>
            rw [h1, h2] at this
            obtain ⟨ps, n⟩ := r
            obtain ⟨ps0, n0⟩ := r0
            simp only [LeW] at this ⊢
            cases hd <;> simp only [seenId_nil, Bool.false_eq_true, if_false, List.nil_append,
              List.length_append, List.length_cons, List.length_nil] <;> try omega
            split <;> simp only [List.length_cons, List.length_nil] <;> omega
    | _ => unfold walkList; exact Nat.le_refl _

theorem LeR.nil : LeR (.ok ([], 0)) (.ok ([], 0)) := Nat.le_refl _

theorem walk_some_some {hp hp0 : Heap} (hslot : ∀ a n, slot hp a n = slot hp0 a n)
    {allFs : List (Int × Nat)} {f : Nat} {v : Val} {r r0 : List Nat × Nat}
    (h1 : walkList hp allFs f v = some r) (h2 : walkList hp0 [] f v = some r0) :
    LeR (.ok r) (.ok r0) := by
  have := walkList_le hp hp0 hslot allFs f v
  rw [h1, h2] at this; exact this

theorem walk_some_none {hp hp0 : Heap} (hslot : ∀ a n, slot hp a n = slot hp0 a n)
    {allFs : List (Int × Nat)} {f : Nat} {v : Val} {r : List Nat × Nat}
    (h1 : walkList hp allFs f v = some r) (h2 : walkList hp0 [] f v = none) : False := by
  have := walkList_le hp hp0 hslot allFs f v
  rw [h1, h2] at this; exact this

theorem featureSuccs_le (K : Consts) (ts : TypeSystem) (o : Opts) (hp hp0 : Heap)
    (hslot : ∀ a n, slot hp a n = slot hp0 a n) (allFs : List (Int × Nat)) (lf a : Nat) (f : Feature) :
    LeR (featureSuccs K ts o hp allFs lf a f) (featureSuccs K ts o hp0 [] lf a f) := by
  unfold featureSuccs
  simp only [hslot, seenId_nil]
  repeat' split
  all_goals first
    | exact LeR.nil
    | exact True.intro
    | exact refsToPush_le _ _ _ _
    | exact walk_some_some hslot (by assumption) (by assumption)
    | exact (walk_some_none hslot (by assumption) (by assumption)).elim
    | exact Nat.zero_le _
    | exact Nat.le_refl _
    | contradiction

theorem LeR.bind {r1 r1' r2 r2' : Except Err (List Nat × Nat)} (h1 : LeR r1 r1') (h2 : LeR r2 r2') :
    LeR (do let (p1, n1) ← r1; let (p2, n2) ← r2; pure (p1 ++ p2, n1 + n2))
        (do let (p1, n1) ← r1'; let (p2, n2) ← r2'; pure (p1 ++ p2, n1 + n2)) := by
  cases r1 with
  | error e => exact True.intro
  | ok a =>
    cases r1' with
    | error e => exact h1.elim
    | ok a' =>
      cases r2 with
      | error e => exact True.intro
      | ok b =>
        cases r2' with
        | error e => exact h2.elim
        | ok b' =>
          obtain ⟨p1, n1⟩ := a
          obtain ⟨p1', n1'⟩ := a'
          obtain ⟨p2, n2⟩ := b
          obtain ⟨p2', n2'⟩ := b'
          simp only [LeR] at h1 h2
          show (p1 ++ p2).length ≤ (p1' ++ p2').length
          simp only [List.length_append]
          omega

theorem featuresSuccs_le (K : Consts) (ts : TypeSystem) (o : Opts) (hp hp0 : Heap)
    (hslot : ∀ a n, slot hp a n = slot hp0 a n) (allFs : List (Int × Nat)) (lf a : Nat) (fs : List Feature) :
    LeR (featuresSuccs K ts o hp allFs lf a fs) (featuresSuccs K ts o hp0 [] lf a fs) := by
  induction fs with
  | nil => exact LeR.nil
  | cons f fs ih =>
    unfold featuresSuccs
    exact LeR.bind (featureSuccs_le K ts o hp hp0 hslot allFs lf a f) ih

theorem nodeSuccs_le (K : Consts) (ts : TypeSystem) (o : Opts) (hp hp0 : Heap)
    (hslot : ∀ a n, slot hp a n = slot hp0 a n) (allFs : List (Int × Nat)) (lf a : Nat) (t : TypeRec) :
    LeR (nodeSuccs K ts o hp allFs lf a t) (nodeSuccs K ts o hp0 [] lf a t) := by
  unfold nodeSuccs
  simp only [hslot]
  repeat' split
  all_goals first
    | exact LeR.nil
    | exact refsToPush_le _ _ _ _
    | exact featuresSuccs_le K ts o hp hp0 hslot allFs lf a _

/-- what a visited node pushes is bounded by its out-degree in the original heap -/
theorem push_le_outdeg (K : Consts) (ts : TypeSystem) (o : Opts) {hp0 hp : Heap} (sh : SameShape hp0 hp)
    {allFs : List (Int × Nat)} {lf a : Nat} {ob0 : Obj} {t : TypeRec} {ps : List Nat} {n : Nat}
    (h0 : hp0[a]? = some ob0) (ht : getType ts ob0.ty = .ok t)
    (hn : nodeSuccs K ts o hp allFs lf a t = .ok (ps, n)) :
    ps.length ≤ outdeg K ts o hp0 lf a := by
  have := nodeSuccs_le K ts o hp hp0 (fun a n => sh.slot a n) allFs lf a t
  rw [hn] at this
  unfold outdeg
  rw [h0]
  simp only [ht]
  cases h : nodeSuccs K ts o hp0 [] lf a t with
  | error e => rw [h] at this; exact this.elim
  | ok r => rw [h] at this; exact this

/-! ### the potential -/

/-- out-degrees of the in-range addresses not yet visited -/
def pending (od : Nat → Nat) (n : Nat) (vis : List Nat) : Nat :=
  (((List.range n).filter (fun a => !(vis.contains a))).map od).sum

theorem pending_nil (od : Nat → Nat) (n : Nat) : pending od n [] = ((List.range n).map od).sum := by
  unfold pending
  have : (List.range n).filter (fun a => !(([] : List Nat).contains a)) = List.range n := by
    apply List.filter_eq_self.mpr
    intro a _
    rfl
  rw [this]

theorem pending_visit (od : Nat → Nat) (n : Nat) (vis : List Nat) (a : Nat) (ha : a ∉ vis)
    (h0 : ¬ a < n → od a = 0) : pending od n (vis ++ [a]) + od a ≤ pending od n vis := by
  unfold pending
  by_cases hlt : a < n
  · clear h0
    induction n with
    | zero => omega
    | succ n ih =>
      rw [List.range_succ]
      simp only [List.filter_append, List.map_append, List.sum_append]
      by_cases han : a = n
      · subst han
        have h1 : (!(vis.contains a)) = true := by simpa using ha
        have h2 : (!((vis ++ [a]).contains a)) = false := by simp
        have hrest : ((List.range a).filter (fun x => !((vis ++ [a]).contains x))) =
                     ((List.range a).filter (fun x => !(vis.contains x))) := by
          apply List.filter_congr
          intro x hx
          have : x ≠ a := by have := List.mem_range.mp hx; omega
          simp [this]
        rw [hrest]
        simp only [List.filter_cons, List.filter_nil, h1, h2]
        simp
      · have hlt' : a < n := by omega
        have := ih hlt'
        have hn : (!((vis ++ [a]).contains n)) = (!(vis.contains n)) := by
          have : n ≠ a := fun h => han h.symm
          simp [this]
        by_cases hv : (!(vis.contains n)) = true
        · simp only [List.filter_cons, List.filter_nil, hn, hv, if_true, List.map_cons, List.map_nil,
            List.sum_cons, List.sum_nil]
          omega
        · have hv' : (!(vis.contains n)) = false := by simpa using hv
          simp only [List.filter_cons, List.filter_nil, hn, hv', Bool.false_eq_true, if_false,
            List.map_nil, List.sum_nil]
          omega
  · have : ((List.range n).filter (fun x => !((vis ++ [a]).contains x))) =
           ((List.range n).filter (fun x => !(vis.contains x))) := by
      apply List.filter_congr
      intro x hx
      have : x ≠ a := by have := List.mem_range.mp hx; omega
      simp [this]
    rw [this, h0 hlt]; omega

theorem outdeg_oob (K : Consts) (ts : TypeSystem) (o : Opts) (hp : Heap) (lf a : Nat)
    (h : ¬ a < hp.length) : outdeg K ts o hp lf a = 0 := by
  unfold outdeg
  rw [List.getElem?_eq_none (by omega)]

/-! ### the invariant -/

structure Inv (K : Consts) (ts : TypeSystem) (o : Opts) (hp0 : Heap) (lf seeds : Nat) (s : St) : Prop where
  shape : SameShape hp0 s.heap
  link : ∀ x b, (x, b) ∈ s.allFs → xidOf s.heap b = some x
  nodupK : (s.allFs.map (·.1)).Nodup
  nodupA : (s.allFs.map (·.2)).Nodup
  count : s.pops + s.openl.length = seeds + s.pushes
  pot : s.pushes + pending (outdeg K ts o hp0 lf) hp0.length (s.allFs.map (·.2)) ≤ totalOut K ts o hp0 lf

theorem inv_init (K : Consts) (ts : TypeSystem) (o : Opts) (hp : Heap) (lf : Nat) (nx : Int) (seeds : List Nat) :
    Inv K ts o hp lf seeds.length { heap := hp, nextXid := nx, openl := seeds } := by
  refine ⟨SameShape.refl _, ?_, List.nodup_nil, List.nodup_nil, ?_, ?_⟩
  · intro x b h; cases h
  · show 0 + seeds.length = seeds.length + 0
    omega
  · show 0 + pending (outdeg K ts o hp lf) hp.length [] ≤ totalOut K ts o hp lf
    rw [pending_nil]; unfold totalOut; omega

theorem inv_step (K : Consts) (ts : TypeSystem) (o : Opts) (hp0 : Heap) (lf seeds : Nat) (s : St) (a : Nat)
    (rest : List Nat) (s' : St) (ho : s.openl = a :: rest) (inv : Inv K ts o hp0 lf seeds s)
    (h : step K ts o lf s a rest = .ok s') : Inv K ts o hp0 lf seeds s' ∧ s'.pops = s.pops + 1 := by
  obtain ⟨ob, x, hob, hstep, hpops, hcase⟩ := step_cases K ts o lf s a rest s' h
  obtain ⟨sh', hxid⟩ := hstep.shape hob
  have hcount := inv.count
  rw [ho, List.length_cons] at hcount
  refine ⟨?_, hpops⟩
  rcases hcase with ⟨hall, hopen, hpush, _⟩ | ⟨t, ps, n, hfind, ht, hn, hall, hopen, hpush⟩
  · refine ⟨inv.shape.trans sh', ?_, ?_, ?_, ?_, ?_⟩
    · intro y b hm; rw [hall] at hm; exact sh'.xidOf (inv.link y b hm)
    · rw [hall]; exact inv.nodupK
    · rw [hall]; exact inv.nodupA
    · rw [hopen, hpush, hpops]; omega
    · rw [hall, hpush]; exact inv.pot
  · have hfind' := List.find?_eq_none.mp hfind
    have hxk : x ∉ s.allFs.map (·.1) := by
      intro hm
      obtain ⟨p, hp, hpx⟩ := List.mem_map.mp hm
      exact hfind' p hp (by simp only [hpx, beq_self_eq_true])
    have hxa : a ∉ s.allFs.map (·.2) := by
      intro hm
      obtain ⟨p, hp, hpa⟩ := List.mem_map.mp hm
      obtain ⟨y, b⟩ := p
      simp only at hpa
      subst hpa
      have hl := inv.link y b hp
      unfold xidOf at hl
      rw [hob] at hl
      simp only [Option.bind_some] at hl
      rcases hstep with ⟨hx, _⟩ | ⟨hx, _, _⟩
      · rw [hl] at hx
        cases hx
        exact hfind' _ hp (by simp only [beq_self_eq_true])
      · rw [hl] at hx; cases hx
    obtain ⟨ob0, h0, hty, _⟩ := inv.shape.get_back hob
    have sh0 := inv.shape.trans sh'
    have hle := push_le_outdeg K ts o sh0 h0 (by rw [← hty]; exact ht) hn
    have hpv := pending_visit (outdeg K ts o hp0 lf) hp0.length (s.allFs.map (·.2)) a hxa
      (outdeg_oob K ts o hp0 lf a)
    refine ⟨sh0, ?_, ?_, ?_, ?_, ?_⟩
    · intro y b hm
      rw [hall] at hm
      rcases List.mem_append.mp hm with hm | hm
      · exact sh'.xidOf (inv.link y b hm)
      · simp only [List.mem_singleton, Prod.mk.injEq] at hm
        rw [hm.1, hm.2]; exact hxid
    · rw [hall, List.map_append, List.nodup_append]
      refine ⟨inv.nodupK, List.pairwise_singleton _ _, ?_⟩
      intro y hy z hz
      simp only [List.map_cons, List.map_nil, List.mem_singleton] at hz
      subst hz
      intro e; subst e; exact hxk hy
    · rw [hall, List.map_append, List.nodup_append]
      refine ⟨inv.nodupA, List.pairwise_singleton _ _, ?_⟩
      intro y hy z hz
      simp only [List.map_cons, List.map_nil, List.mem_singleton] at hz
      subst hz
      intro e; subst e; exact hxa hy
    · rw [hopen, hpush, hpops, List.length_append]; omega
    · have hp := inv.pot
      rw [hall, hpush, List.map_append]
      simp only [List.map_cons, List.map_nil]
      omega

/-! ### the only source of `outOfFuel` inside an iteration is a cyclic list spine -/

theorem getType_noFuel (ts : TypeSystem) (n : String) : getType ts n ≠ .error .outOfFuel := by
  unfold getType
  repeat' split
  all_goals (intro h; cases h)

theorem walkList_none_spine (hp hp0 : Heap) (hslot : ∀ a n, slot hp a n = slot hp0 a n)
    (allFs : List (Int × Nat)) (f : Nat) (v : Val) (h : walkList hp allFs f v = none) :
    spineLen hp0 f v = none := by
  induction f generalizing v with
  | zero => unfold spineLen; rfl
  | succ f ih =>
    cases v with
    | ref a =>
      unfold walkList at h
      unfold spineLen
      rw [hslot a "head", hslot a "tail"] at h
      cases hh : slot hp0 a "head" with
      | none => rw [hh] at h; cases h
      | some hd =>
        rw [hh] at h
        simp only at h ⊢
        cases hw : walkList hp allFs f ((slot hp0 a "tail").getD .none) with
        | none => rw [ih _ hw]
        | some r => rw [hw] at h; cases h
    | _ => unfold walkList at h; cases h

theorem featureSuccs_noFuel (K : Consts) (ts : TypeSystem) (o : Opts) (hp : Heap) (allFs : List (Int × Nat))
    (lf a : Nat) (f : Feature) (hw : ∀ v, walkList hp allFs lf v ≠ none) :
    featureSuccs K ts o hp allFs lf a f ≠ .error .outOfFuel := by
  unfold featureSuccs
  repeat' split
  all_goals (intro h; first | (cases h; done) | exact hw _ (by assumption))

theorem featuresSuccs_noFuel (K : Consts) (ts : TypeSystem) (o : Opts) (hp : Heap) (allFs : List (Int × Nat))
    (lf a : Nat) (fs : List Feature) (hw : ∀ v, walkList hp allFs lf v ≠ none) :
    featuresSuccs K ts o hp allFs lf a fs ≠ .error .outOfFuel := by
  induction fs with
  | nil => unfold featuresSuccs; intro h; cases h
  | cons f fs ih =>
    unfold featuresSuccs
    have h1 := featureSuccs_noFuel K ts o hp allFs lf a f hw
    cases r1 : featureSuccs K ts o hp allFs lf a f with
    | error e =>
      rw [r1] at h1
      intro h; cases h; exact h1 rfl
    | ok p1 =>
      cases r2 : featuresSuccs K ts o hp allFs lf a fs with
      | error e =>
        rw [r2] at ih
        intro h; cases h; exact ih rfl
      | ok p2 => intro h; cases h

theorem nodeSuccs_noFuel (K : Consts) (ts : TypeSystem) (o : Opts) (hp : Heap) (allFs : List (Int × Nat))
    (lf a : Nat) (t : TypeRec) (hw : ∀ v, walkList hp allFs lf v ≠ none) :
    nodeSuccs K ts o hp allFs lf a t ≠ .error .outOfFuel := by
  unfold nodeSuccs
  repeat' split
  all_goals first
    | exact featuresSuccs_noFuel K ts o hp allFs lf a _ hw
    | (intro h; cases h)

theorem slot_set_xid {hp : Heap} {a : Nat} {ob : Obj} (h : hp[a]? = some ob) (y : Option Int) (b : Nat)
    (n : String) : slot (hp.set a { ob with xid := y }) b n = slot hp b n := by
  unfold slot
  by_cases hab : a = b
  · subst hab
    have hlt : a < hp.length := by
      obtain ⟨hlt, _⟩ := List.getElem?_eq_some_iff.mp h
      exact hlt
    rw [List.getElem?_set_self hlt, h]
    rfl
  · rw [List.getElem?_set_ne hab]

theorem step_noFuel (K : Consts) (ts : TypeSystem) (o : Opts) (hp0 : Heap) (s : St) (a : Nat)
    (rest : List Nat) (sh : SameShape hp0 s.heap) (hfin : FiniteSpines hp0) :
    step K ts o (hp0.length + 1) s a rest ≠ .error .outOfFuel := by
  have hw : ∀ hp, (∀ a n, slot hp a n = slot hp0 a n) →
      ∀ allFs v, walkList hp allFs (hp0.length + 1) v ≠ none := by
    intro hp shp allFs v h
    exact hfin v (walkList_none_spine hp hp0 shp allFs _ v h)
  have sh0 : ∀ a n, slot s.heap a n = slot hp0 a n := fun a n => sh.slot a n
  intro h
  unfold step at h
  simp only [bind, Except.bind, pure, Except.pure, throw, throwThe, MonadExceptOf.throw] at h
  split at h
  case h_2 => cases h
  rename_i ob hob
  have sh1 : ∀ b n, slot (s.heap.set a { ob with xid := some s.nextXid }) b n = slot hp0 b n :=
    fun b n => (slot_set_xid hob _ b n).trans (sh0 b n)
  repeat' split at h
  all_goals first
    | (cases h; done)
    | (cases h; exact getType_noFuel _ _ (by assumption))
    | (cases h; exact nodeSuccs_noFuel K ts o _ _ _ _ _ (hw _ sh0 _) (by assumption))
    | (cases h; exact nodeSuccs_noFuel K ts o _ _ _ _ _ (hw _ sh1 _) (by assumption))

/-! ### the loop -/

theorem run_ok (K : Consts) (ts : TypeSystem) (o : Opts) (hp0 : Heap) (lf seeds : Nat) (f : Nat) (s s' : St)
    (inv : Inv K ts o hp0 lf seeds s) (h : run K ts o lf f s = .ok s') :
    Inv K ts o hp0 lf seeds s' ∧ s'.openl = [] := by
  induction f generalizing s with
  | zero =>
    unfold run at h
    split at h
    · rename_i he
      cases h
      exact ⟨inv, List.isEmpty_iff.mp he⟩
    · cases h
  | succ f ih =>
    unfold run at h
    split at h
    · rename_i ho
      cases h
      exact ⟨inv, ho⟩
    · rename_i a rest ho
      cases hs : step K ts o lf s a rest with
      | error e => rw [hs] at h; cases h
      | ok s1 =>
        rw [hs] at h
        exact ih s1 (inv_step K ts o hp0 lf seeds s a rest s1 ho inv hs).1 h

theorem run_noFuel (K : Consts) (ts : TypeSystem) (o : Opts) (hp0 : Heap) (seeds : Nat) (f : Nat) (s : St)
    (hfin : FiniteSpines hp0) (inv : Inv K ts o hp0 (hp0.length + 1) seeds s)
    (hf : seeds + totalOut K ts o hp0 (hp0.length + 1) ≤ f + s.pops) :
    run K ts o (hp0.length + 1) f s ≠ .error .outOfFuel := by
  induction f generalizing s with
  | zero =>
    unfold run
    have h1 := inv.count
    have h2 := inv.pot
    have : s.openl.length = 0 := by omega
    have : s.openl = [] := List.eq_nil_of_length_eq_zero this
    rw [this]
    intro h; cases h
  | succ f ih =>
    unfold run
    split
    · intro h; cases h
    · rename_i a rest ho
      cases hs : step K ts o (hp0.length + 1) s a rest with
      | error e =>
        intro h
        cases h
        exact step_noFuel K ts o hp0 s a rest inv.shape hfin hs
      | ok s1 =>
        obtain ⟨inv1, hp1⟩ := inv_step K ts o hp0 _ seeds s a rest s1 ho inv hs
        exact ih s1 inv1 (by rw [hp1]; omega)

/-! ### the four statements of C15 -/

theorem findAllFs_inv (K : Consts) (ts : TypeSystem) (o : Opts) (hp : Heap) (nx : Int)
    (seeds : List Nat) (s' : St) (h : findAllFs K ts o hp nx seeds = .ok s') :
    Inv K ts o hp (hp.length + 1) seeds.length s' ∧ s'.openl = [] :=
  run_ok K ts o hp _ _ _ _ s' (inv_init K ts o hp _ nx seeds) h

theorem findAllFs_steps_bound_aux (K : Consts) (ts : TypeSystem) (o : Opts) (hp : Heap) (nx : Int)
    (seeds : List Nat) (s' : St) (h : findAllFs K ts o hp nx seeds = .ok s') :
    s'.pops ≤ seeds.length + totalOut K ts o hp (hp.length + 1) ∧
    s'.pushes ≤ totalOut K ts o hp (hp.length + 1) ∧
    s'.pops = seeds.length + s'.pushes ∧
    s'.openl = [] := by
  obtain ⟨inv, ho⟩ := findAllFs_inv K ts o hp nx seeds s' h
  have h1 := inv.count
  have h2 := inv.pot
  rw [ho, List.length_nil] at h1
  refine ⟨by omega, by omega, by omega, ho⟩

theorem findAllFs_terminates_aux (K : Consts) (ts : TypeSystem) (o : Opts) (hp : Heap) (nx : Int)
    (seeds : List Nat) (hfin : FiniteSpines hp) :
    findAllFs K ts o hp nx seeds ≠ .error .outOfFuel :=
  run_noFuel K ts o hp seeds.length _ _ hfin (inv_init K ts o hp _ nx seeds) (Nat.le_refl _)

theorem findAllFs_nodup_aux (K : Consts) (ts : TypeSystem) (o : Opts) (hp : Heap) (nx : Int)
    (seeds : List Nat) (s' : St) (h : findAllFs K ts o hp nx seeds = .ok s') :
    (s'.allFs.map (·.1)).Nodup ∧ (s'.allFs.map (·.2)).Nodup :=
  let inv := (findAllFs_inv K ts o hp nx seeds s' h).1
  ⟨inv.nodupK, inv.nodupA⟩

theorem findAllFs_heap_frame_aux (K : Consts) (ts : TypeSystem) (o : Opts) (hp : Heap) (nx : Int)
    (seeds : List Nat) (s' : St) (h : findAllFs K ts o hp nx seeds = .ok s') :
    s'.heap.length = hp.length ∧
    ∀ (a : Nat) (ob : Obj), hp[a]? = some ob → ∃ ob' : Obj, s'.heap[a]? = some ob' ∧ ob'.ty = ob.ty ∧
      ob'.slots = ob.slots ∧ (ob.xid ≠ none → ob'.xid = ob.xid) :=
  (findAllFs_inv K ts o hp nx seeds s' h).1.shape

/-! ### kernel evaluation of concrete instances

`createFeature` pushes a new feature down the `_children` links with `pushInherited`, which is defined
by well-founded recursion and therefore does not reduce in the kernel.  On a childless domain type the
push-down is the identity; `createFeatureLeaf` is `createFeature` without it, and evaluates by `decide`. -/

theorem pushInherited_nil (f : Feature) (n : Nat) (ts : TypeSystem) :
    pushInherited f (n + 1) ts [] = .ok ts := by
  rw [pushInherited]
  intro h; cases h

theorem addFeature_leaf {ts : TypeSystem} {d : String} {f : Feature} {t : TypeRec}
    (hf : find? ts d = some t) (hch : t.children = []) :
    addFeature ts d f =
      (match addCheck t f false with
       | .conflict => .error .valueError
       | .same => .ok ts
       | .fresh =>
         if descendantConflict ts d f then .error .valueError
         else .ok (setRec ts { t with own := t.own ++ [f] })) := by
  unfold addFeature
  rw [hf]
  obtain ⟨tn, tsup, tdescr, tch, town, tinh⟩ := t
  simp only at hch
  subst hch
  simp only [pushInherited_nil]
  cases addCheck { name := tn, super := tsup, descr := tdescr, own := town, inh := tinh } f false <;> rfl

/-- `createFeature` (without element type, description, multiple-references flag) on a childless
    domain type: no push-down to descendants -/
def createFeatureLeaf (ts : TypeSystem) (domain name range : String) : R TypeSystem := do
  let reserved := name == "self" || name == "type"
  let name' := if reserved then name ++ "_" else name
  let d ← getType ts domain
  let r ← getType ts range
  let f : Feature := { name := name', domain := d.name, range := r.name, elem := none, descr := none,
                       multi := none, reserved := reserved }
  match find? ts d.name with
  | none => .error .typeNotFound
  | some t =>
    match addCheck t f false with
    | .conflict => .error .valueError
    | .same => .ok ts
    | .fresh =>
      if descendantConflict ts d.name f then .error .valueError
      else .ok (setRec ts { t with own := t.own ++ [f] })

/-- decidable side condition: the domain type has no children -/
def leafDomain (ts : TypeSystem) (domain : String) : Bool :=
  match getType ts domain with
  | .error _ => true
  | .ok d =>
    match find? ts d.name with
    | none => true
    | some t => t.children.isEmpty

theorem createFeature_eq_leaf (ts : TypeSystem) (domain name range : String)
    (h : leafDomain ts domain = true) :
    createFeature ts domain name range = createFeatureLeaf ts domain name range := by
  unfold createFeature createFeatureLeaf
  cases hd : getType ts domain with
  | error e => rfl
  | ok d =>
    cases hr : getType ts range with
    | error e => rfl
    | ok r =>
      simp only [bind, Except.bind, pure, Except.pure]
      cases hf : find? ts d.name with
      | none => unfold addFeature; rw [hf]
      | some t =>
        unfold leafDomain at h
        rw [hd] at h
        simp only [hf] at h
        rw [addFeature_leaf hf (List.isEmpty_iff.mp h)]

theorem ok_eq_getD {α} [Inhabited α] {r : R α} {a : α} (h : r = .ok a) : a = r.toOption.getD default := by
  rw [h]; rfl

theorem bind_congr_ok {α β} (r : R α) (f g : α → R β) (h : ∀ a, r = .ok a → f a = g a) :
    (r >>= f) = (r >>= g) := by
  cases r with
  | error e => rfl
  | ok a => exact h a rfl

/-- a new type with two features (the shape of the test type systems of the properties): the
    kernel-evaluable construction gives the same type system -/
theorem createType_createFeature2_leaf (K : Consts) (ts0 : TypeSystem) (n sup d1 f1 r1 d2 f2 r2 : String)
    (h1 : leafDomain ((createType K ts0 n sup none).toOption.getD default) d1 = true)
    (h2 : leafDomain ((createFeatureLeaf ((createType K ts0 n sup none).toOption.getD default)
            d1 f1 r1).toOption.getD default) d2 = true) :
    (do let ts ← createType K ts0 n sup none
        let ts ← createFeature ts d1 f1 r1
        createFeature ts d2 f2 r2) =
    (do let ts ← createType K ts0 n sup none
        let ts ← createFeatureLeaf ts d1 f1 r1
        createFeatureLeaf ts d2 f2 r2) := by
  refine bind_congr_ok _ _ _ (fun ts1 e1 => ?_)
  rw [ok_eq_getD e1]
  rw [createFeature_eq_leaf _ _ _ _ h1]
  refine bind_congr_ok _ _ _ (fun ts2 e2 => ?_)
  rw [ok_eq_getD e2]
  exact createFeature_eq_leaf _ _ _ _ h2

end Cassis.Traverse
