/-
Soundness of the Boolean test `renderCollAppliesB` (`Spec/ComparableIsoCollCheck.lean`) for the hypotheses of
`render_xmi_roundtrip_coll`.
-/
import CassisModel.Spec.ComparableIsoCollCheck
import CassisModel.Proofs.RoundTripCollCheck

namespace Cassis.Comparable
open Cassis.TS Cassis.Traverse Cassis.Xmi

theorem noEmptyAt_sound {H : Heap} {a : Nat} (h : noEmptyAt H a = true) {ev : Val}
    (hev : Traverse.slot H a "elements" = some ev) : NoEmptyStr ev := by
  unfold noEmptyAt at h
  rw [hev] at h
  exact of_decide_eq_true h

theorem inlOkB_sound {K : Consts} {ts : TypeSystem} {H : Heap} {addrs : List Nat} {a : Nat}
    (h : inlOkB K ts H addrs a = true) : InlOk K ts H addrs a := by
  unfold inlOkB at h
  rw [Bool.and_eq_true] at h
  obtain ⟨h1, h2⟩ := h
  have hfeat : ∀ (o : Obj) (t : TypeRec) (f : Feature) (cc : Nat), H[a]? = some o → find? ts o.ty = some t →
      f ∈ allFeatures t → Xmi.isInline K f = true → alistGet? o.slots f.name = some (.ref cc) →
      (if isArray K f.range then isArrayFs K H cc && noEmptyAt H cc
        else !(isArrayFs K H cc) && addrs.all (fun b => decide (xidOf H b ≠ xidOf H cc))) = true := by
    intro o t f cc ho ht hf hi hv
    rw [ho] at h2
    simp only [ht] at h2
    have := List.all_eq_true.mp h2 f hf
    simp only [hi, Bool.not_true, Bool.false_or, hv] at this
    exact this
  refine ⟨fun ev hev => noEmptyAt_sound h1 hev, ?_, ?_⟩
  · intro o t f cc ho ht hf hi harr hv
    have := hfeat o t f cc ho ht hf hi hv
    rw [if_pos harr, Bool.and_eq_true] at this
    exact ⟨this.1, fun ev hev => noEmptyAt_sound this.2 hev⟩
  · intro o t f cc ho ht hf hi harr hv
    have := hfeat o t f cc ho ht hf hi hv
    rw [if_neg (by rw [harr]; exact Bool.false_ne_true), Bool.and_eq_true] at this
    refine ⟨by simpa using this.1, fun b hb => ?_⟩
    exact of_decide_eq_true (List.all_eq_true.mp this.2 b hb)

theorem nodeTysNotArrB_sound {K : Consts} (h : nodeTysNotArrB K = true) : NodeTysNotArr K := by
  intro n hn
  have := List.all_eq_true.mp h n hn
  simpa using this

theorem distinctB_sound {hp : Heap} {addrs : List Nat} (h : distinctB hp addrs = true) : Distinct hp addrs := by
  intro a ha b hb hne hty
  have := List.all_eq_true.mp (List.all_eq_true.mp h a ha) b hb
  simp only [Bool.or_eq_true, beq_iff_eq, bne_iff_ne, ne_eq, Bool.and_eq_true] at this
  rcases this with (h1 | h1) | ⟨⟨h1, h2⟩, h3⟩
  · exact absurd h1 hne
  · exact absurd hty h1
  · exact ⟨h1, h2, h3⟩

/-- whenever the test says so, every hypothesis of `render_xmi_roundtrip_coll` holds -/
theorem renderCollAppliesB_hyps (K : Consts) (ts : TypeSystem) (cass : List Cas) (ci : Nat) (hp : Heap)
    (h : renderCollAppliesB K ts cass ci hp = true) :
    ∃ (c : Cas) (doc : XDoc) (st : Traverse.St), cass[ci]? = some c ∧ saveXmi K ts cass ci hp = .ok (doc, st) ∧
      RTWf c hp ∧ NullOk ts ∧ (∀ q ∈ st.allFs, CollFs K ts c ci st.heap q.2) ∧
      (∀ nv ∈ c.views, ∀ e ∈ Index.all nv.2.idx, Xmi.slot st.heap e.oid "sofa" ≠ some .none) ∧
      MembersOk c st.heap ∧
      Distinct st.heap (st.allFs.map (·.2)) ∧ NodeTysNotArr K ∧
      (∀ q ∈ st.allFs, InlOk K ts st.heap (st.allFs.map (·.2)) q.2) := by
  unfold renderCollAppliesB at h
  rw [Bool.and_eq_true] at h
  obtain ⟨h1, h2⟩ := h
  obtain ⟨c, doc, st, hc, hs, hwf, hn, hf, _, hm, hmo⟩ := collAppliesB_hyps K ts cass ci hp h1
  unfold renderCollExtraB at h2
  rw [hs] at h2
  simp only [Bool.and_eq_true] at h2
  obtain ⟨⟨h3, h4⟩, h5⟩ := h2
  exact ⟨c, doc, st, hc, hs, hwf, hn, hf, hm, hmo, distinctB_sound h3, nodeTysNotArrB_sound h4,
    fun q hq => inlOkB_sound (List.all_eq_true.mp h5 q hq)⟩

end Cassis.Comparable
