/-
String facts behind the sensitivity half of C20: offsets can be read back from an anchor, the disambiguation
counter `(n)` can be split off an anchor whose text does not end in `)`.
-/
import CassisModel.Spec.ComparableSens
import CassisModel.Proofs.Lex

namespace Cassis.Comparable
open Cassis.TS Cassis.Traverse Cassis.Lex

/-- `anchor` with the counter appended the way `_generate_anchors` does -/
def withCount (s : String) (n : Nat) : String :=
  if n != 0 then s ++ "(" ++ Lex.showInt n ++ ")" else s

def IsDig (c : Char) : Prop := ∃ d, d < 10 ∧ c = digitChar d

theorem digitChar_ne_of (c0 : Char) (h0 : ∀ d, d < 10 → digitChar d ≠ c0) : ¬ IsDig c0 := by
  rintro ⟨d, hd, e⟩
  exact h0 d hd e.symm

theorem not_isDig_minus : ¬ IsDig '-' := digitChar_ne_of _ (by decide)
theorem not_isDig_rbrack : ¬ IsDig ']' := digitChar_ne_of _ (by decide)
theorem not_isDig_lparen : ¬ IsDig '(' := digitChar_ne_of _ (by decide)

/-- a run of digits ends at the first non-digit -/
theorem digit_run_split (c0 : Char) (h0 : ¬ IsDig c0) (u v r r' : List Char)
    (hu : ∀ c ∈ u, IsDig c) (hv : ∀ c ∈ v, IsDig c) (h : u ++ c0 :: r = v ++ c0 :: r') : u = v ∧ r = r' := by
  induction u generalizing v with
  | nil =>
    cases v with
    | nil => simpa using h
    | cons b v' =>
      simp only [List.nil_append, List.cons_append, List.cons.injEq] at h
      exact absurd (h.1 ▸ hv b List.mem_cons_self) h0
  | cons a u' ih =>
    cases v with
    | nil =>
      simp only [List.nil_append, List.cons_append, List.cons.injEq] at h
      exact absurd (h.1 ▸ hu a List.mem_cons_self) h0
    | cons b v' =>
      simp only [List.cons_append, List.cons.injEq] at h
      obtain ⟨hab, ht⟩ := h
      obtain ⟨h1, h2⟩ := ih v' (fun c hc => hu c (List.mem_cons_of_mem _ hc))
        (fun c hc => hv c (List.mem_cons_of_mem _ hc)) ht
      exact ⟨by rw [hab, h1], h2⟩

theorem showNatL_isDig (n : Nat) : ∀ c ∈ showNatL n, IsDig c := fun c hc => showNatL_mem n c hc

theorem showIntL_injective {i j : Int} (h : showIntL i = showIntL j) : i = j := by
  have := parseIntL_showIntL i
  rw [h, parseIntL_showIntL] at this
  exact (Option.some.inj this).symm

/-- `str(i)` followed by a non-digit other than `-` can be read back -/
theorem showIntL_split (c0 : Char) (h0 : ¬ IsDig c0) (i j : Int) (r r' : List Char)
    (h : showIntL i ++ c0 :: r = showIntL j ++ c0 :: r') : i = j ∧ r = r' := by
  have key : showIntL i = showIntL j ∧ r = r' := by
    cases i with
    | ofNat n =>
      cases j with
      | ofNat m => exact digit_run_split c0 h0 _ _ r r' (showNatL_isDig n) (showNatL_isDig m) h
      | negSucc m =>
        exfalso
        change showNatL n ++ c0 :: r = '-' :: showNatL (m + 1) ++ c0 :: r' at h
        cases hn : showNatL n with
        | nil => exact showNatL_ne_nil n hn
        | cons a as =>
          rw [hn] at h
          simp only [List.cons_append, List.cons.injEq] at h
          have : IsDig a := showNatL_isDig n a (by rw [hn]; exact List.mem_cons_self)
          rw [h.1] at this
          exact not_isDig_minus this
    | negSucc n =>
      cases j with
      | ofNat m =>
        exfalso
        change '-' :: showNatL (n + 1) ++ c0 :: r = showNatL m ++ c0 :: r' at h
        cases hn : showNatL m with
        | nil => exact showNatL_ne_nil m hn
        | cons a as =>
          rw [hn] at h
          simp only [List.cons_append, List.cons.injEq] at h
          have : IsDig a := showNatL_isDig m a (by rw [hn]; exact List.mem_cons_self)
          rw [← h.1] at this
          exact not_isDig_minus this
      | negSucc m =>
        change '-' :: showNatL (n + 1) ++ c0 :: r = '-' :: showNatL (m + 1) ++ c0 :: r' at h
        simp only [List.cons_append, List.cons.injEq, true_and] at h
        obtain ⟨h1, h2⟩ := digit_run_split c0 h0 _ _ r r' (showNatL_isDig _) (showNatL_isDig _) h
        exact ⟨by change '-' :: showNatL (n + 1) = '-' :: showNatL (m + 1); rw [h1], h2⟩
  exact ⟨showIntL_injective key.1, key.2⟩

/-- the offsets can be read back from `[b-e]…` -/
theorem offsets_split (b e b' e' : Int) (r r' : List Char)
    (h : '[' :: (showIntL b ++ '-' :: (showIntL e ++ ']' :: r)) = '[' :: (showIntL b' ++ '-' :: (showIntL e' ++ ']' :: r'))) :
    b = b' ∧ e = e' := by
  simp only [List.cons.injEq, true_and] at h
  -- the first run: an optional sign, digits, then `-`
  have h1 : b = b' ∧ showIntL e ++ ']' :: r = showIntL e' ++ ']' :: r' := by
    -- `-` is not a digit, but it may be the sign: treat the sign by cases
    cases b with
    | ofNat n =>
      cases b' with
      | ofNat m =>
        obtain ⟨h1, h2⟩ := digit_run_split '-' not_isDig_minus _ _ _ _ (showNatL_isDig n) (showNatL_isDig m) h
        exact ⟨by rw [showIntL_injective (i := Int.ofNat n) (j := Int.ofNat m) h1], h2⟩
      | negSucc m =>
        exfalso
        change showNatL n ++ _ = '-' :: showNatL (m + 1) ++ _ at h
        cases hn : showNatL n with
        | nil => exact showNatL_ne_nil n hn
        | cons a as =>
          rw [hn] at h
          simp only [List.cons_append, List.cons.injEq] at h
          have : IsDig a := showNatL_isDig n a (by rw [hn]; exact List.mem_cons_self)
          rw [h.1] at this
          exact not_isDig_minus this
    | negSucc n =>
      cases b' with
      | ofNat m =>
        exfalso
        change '-' :: showNatL (n + 1) ++ _ = showNatL m ++ _ at h
        cases hn : showNatL m with
        | nil => exact showNatL_ne_nil m hn
        | cons a as =>
          rw [hn] at h
          simp only [List.cons_append, List.cons.injEq] at h
          have : IsDig a := showNatL_isDig m a (by rw [hn]; exact List.mem_cons_self)
          rw [← h.1] at this
          exact not_isDig_minus this
      | negSucc m =>
        change '-' :: showNatL (n + 1) ++ _ = '-' :: showNatL (m + 1) ++ _ at h
        simp only [List.cons_append, List.cons.injEq, true_and] at h
        obtain ⟨h1, h2⟩ := digit_run_split '-' not_isDig_minus _ _ _ _ (showNatL_isDig _) (showNatL_isDig _) h
        refine ⟨?_, h2⟩
        apply showIntL_injective
        change '-' :: showNatL (n + 1) = '-' :: showNatL (m + 1)
        rw [h1]
  exact ⟨h1.1, (showIntL_split ']' not_isDig_rbrack e e' r r' h1.2).1⟩

/-! ### the counter -/

/-- the characters the counter adds -/
def cntL (n : Nat) : List Char := if n != 0 then '(' :: (showNatL n ++ [')']) else []

theorem withCount_toList (s : String) (n : Nat) : (withCount s n).toList = s.toList ++ cntL n := by
  unfold withCount cntL
  split
  · simp only [String.toList_append, List.append_assoc]
    change s.toList ++ (['('] ++ ((String.ofList (showNatL n)).toList ++ [')'])) = _
    rw [String.toList_ofList]
    rfl
  · simp

theorem cntL_cases (n : Nat) : cntL n = [] ∨ ∃ r, cntL n = '(' :: r := by
  unfold cntL
  split
  · exact Or.inr ⟨_, rfl⟩
  · exact Or.inl rfl

theorem cntL_getLast (n : Nat) (h : n ≠ 0) (l : List Char) : (l ++ cntL n).getLast? = some ')' := by
  unfold cntL
  simp only [bne_iff_ne, ne_eq, h, not_false_eq_true, if_true]
  rw [show l ++ '(' :: (showNatL n ++ [')']) = (l ++ '(' :: showNatL n) ++ [')'] by simp]
  exact List.getLast?_concat

/-- text and counter can be recovered from text ++ `(n)` -/
theorem cnt_split (s s' : List Char) (n m : Nat) (hn : n ≠ 0) (hm : m ≠ 0)
    (h : s ++ cntL n = s' ++ cntL m) : s = s' ∧ n = m := by
  unfold cntL at h
  simp only [bne_iff_ne, ne_eq, hn, hm, not_false_eq_true, if_true] at h
  have h2 := congrArg List.reverse h
  simp only [List.reverse_append, List.reverse_cons, List.reverse_nil, List.nil_append, List.append_assoc,
    List.cons_append, List.cons.injEq, true_and] at h2
  -- `(showNatL n).reverse ++ '(' :: s.reverse`
  have h3 : (showNatL n).reverse ++ '(' :: s.reverse = (showNatL m).reverse ++ '(' :: s'.reverse := by
    simpa using h2
  obtain ⟨h4, h5⟩ := digit_run_split '(' not_isDig_lparen _ _ _ _
    (fun c hc => showNatL_isDig n c (List.mem_reverse.1 hc))
    (fun c hc => showNatL_isDig m c (List.mem_reverse.1 hc)) h3
  refine ⟨List.reverse_inj.1 h5, ?_⟩
  have h6 : showNatL n = showNatL m := List.reverse_inj.1 h4
  have := parseNatL_showNatL n
  rw [h6, parseNatL_showNatL] at this
  exact (Option.some.inj this).symm

theorem withCount_inj_right (s : String) (n m : Nat) (h : withCount s n = withCount s m) : n = m := by
  have h1 := congrArg String.toList h
  rw [withCount_toList, withCount_toList] at h1
  by_cases hn : n = 0
  · by_cases hm : m = 0
    · omega
    · exfalso
      have := congrArg List.length h1
      unfold cntL at this
      simp [hn, hm] at this
  · by_cases hm : m = 0
    · exfalso
      have := congrArg List.length h1
      unfold cntL at this
      simp [hn, hm] at this
    · exact (cnt_split _ _ n m hn hm h1).2

/-- two anchor texts that do not end in `)` stay different whatever counters are appended -/
theorem withCount_inj (s s' : String) (n m : Nat) (hs : NoParenEnd s) (hs' : NoParenEnd s')
    (h : withCount s n = withCount s' m) : s = s' ∧ n = m := by
  have h1 := congrArg String.toList h
  rw [withCount_toList, withCount_toList] at h1
  by_cases hn : n = 0
  · by_cases hm : m = 0
    · subst hn; subst hm
      simp only [cntL, bne_self_eq_false, Bool.false_eq_true, if_false, List.append_nil] at h1
      exact ⟨String.toList_inj.1 h1, rfl⟩
    · exfalso
      subst hn
      have h2 := cntL_getLast m hm s'.toList
      rw [← h1] at h2
      simp only [cntL, bne_self_eq_false, Bool.false_eq_true, if_false, List.append_nil] at h2
      exact hs h2
  · by_cases hm : m = 0
    · exfalso
      subst hm
      have h2 := cntL_getLast n hn s.toList
      rw [h1] at h2
      simp only [cntL, bne_self_eq_false, Bool.false_eq_true, if_false, List.append_nil] at h2
      exact hs' h2
    · obtain ⟨h2, h3⟩ := cnt_split _ _ n m hn hm h1
      exact ⟨String.toList_inj.1 h2, h3⟩

end Cassis.Comparable
