/-
Round trip with collections, layer 3 (`buildCas`), part C: the context of the proof, lookups, the conversion of one
annotation (copy of `RoundTripBuildC.lean`; `LOkW`/`P1W` instead of `LOk`/`P1Spec`).
-/
import CassisModel.Proofs.RoundTripCollBuildB
import CassisModel.Proofs.RoundTripBuildC
import CassisModel.Proofs.XmiLoad2

namespace Cassis.Xmi.RTCB
open Cassis.TS Cassis.Traverse Cassis.Lex Cassis.Xmi Cassis.Xmi.RTB

/-- the hypotheses of `buildCas_coll` -/
structure Ctx (K : Consts) (ts : TypeSystem) (cass : List Cas) (ci : Nat) (c : Cas) (hp H : Heap)
    (L : List (Int × Nat)) (na : Int → Nat) (p : Pass1) : Prop where
  hc : cass[ci]? = some c
  wf : RTWf c hp
  lok : LOkW ts c ci H L
  nok : NaOk H.length L na
  p1 : P1W c H L na p
  hmem : ∀ nv ∈ c.views, ∀ e ∈ Index.all nv.2.idx, slot H e.oid "sofa" ≠ some .none
  mok : MembersOk c H

section
variable {K : Consts} {ts : TypeSystem} {cass : List Cas} {ci : Nat} {c : Cas} {hp H : Heap}
  {L : List (Int × Nat)} {na : Int → Nat} {p : Pass1}

/-! ### lookups -/

theorem Ctx.id_ne_zero (ctx : Ctx K ts cass ci c hp H L na p) {m : Int} {am : Nat} (h : (m, am) ∈ L) : m ≠ 0 :=
  (ctx.lok.ids _ h).2

theorem Ctx.lookup (ctx : Ctx K ts cass ci c hp H L na p) {m : Int} {am : Nat} (h : (m, am) ∈ L) :
    lookupFs p.fss m = .ok (na m) := by
  unfold lookupFs
  rw [ctx.p1.fss, List.find?_cons]
  have h0 : ((0 : Int) == m) = false := by
    have := ctx.id_ne_zero h
    simpa using fun e : (0 : Int) = m => this e.symm
  simp only [h0]
  have := find?_map_key (fun q : Int × Nat => q.1) (fun q => na q.1) L (m, am) h ctx.lok.nodup
  simp only at this
  rw [this]

theorem Ctx.zero_not_id (ctx : Ctx K ts cass ci c hp H L na p) : (0 : Int) ∉ L.map (·.1) := by
  intro h
  obtain ⟨q, hq, e⟩ := List.mem_map.mp h
  exact (ctx.lok.ids q hq).2 e

theorem Ctx.find_sofa (ctx : Ctx K ts cass ci c hp H L na p) {vn : String} {v : View}
    (h : Cas.getViewRec c vn = some v) :
    p.sofas.find? (fun q => q.2.sofaID == vn) = some (v.sofa.xid, psofaOf (vn, v)) := by
  rw [ctx.p1.sofas]
  exact RTB.find_sofa c.views ctx.wf.names vn v h

theorem Ctx.members_of (ctx : Ctx K ts cass ci c hp H L na p) {nv : String × View} (hnv : nv ∈ c.views) :
    membersOf p.views (psofaOf nv) = (pviewOf H nv).members := by
  unfold membersOf
  rw [ctx.p1.views]
  have := find?_map_key (fun nv : String × View => nv.2.sofa.xid) (fun nv => pviewOf H nv) c.views nv hnv
    ctx.wf.sofa_ids_nodup
  show (match (c.views.map _).find? (fun q : Int × PView => q.1 == nv.2.sofa.xid) with | some q => q.2.members | none => _) = _
  rw [this]

/-- a member id of a view is the id of a collected structure that the old index holds -/
theorem Ctx.member (ctx : Ctx K ts cass ci c hp H L na p) {nv : String × View} (hnv : nv ∈ c.views) {m : Int}
    (hm : m ∈ (pviewOf H nv).members) : ∃ e ∈ Index.all nv.2.idx, (m, e.oid) ∈ L := by
  unfold pviewOf at hm
  simp only at hm
  rw [mem_sortInts, List.mem_filterMap] at hm
  obtain ⟨e, he, hx⟩ := hm
  obtain ⟨x, hx'⟩ := ctx.lok.members nv hnv e he
  have := (ctx.lok.ids _ hx').1
  simp only at this
  rw [this] at hx
  cases hx
  exact ⟨e, he, hx'⟩

/-! ### old objects -/

/-- the `sofa` slot of a collected structure holds a sofa of the CAS or `None` -/
theorem Ctx.sofa_shape (ctx : Ctx K ts cass ci c hp H L na p) {m : Int} {am : Nat} (h : (m, am) ∈ L) {o : Obj}
    (ho : H[am]? = some o) {v : Val} (hv : alistGet? o.slots "sofa" = some v) :
    v = .none ∨ ∃ vn, v = .sofa ci vn := by
  exact ctx.lok.sofa_shape _ h o ho v hv

theorem Ctx.contains (ctx : Ctx K ts cass ci c hp H L na p) {m : Int} {am : Nat} (h : (m, am) ∈ L) {o : Obj}
    (ho : H[am]? = some o) : containsType ts o.ty = true := by
  obtain ⟨t, hf⟩ := ctx.lok.reg _ h o ho
  exact containsType_of_find hf

end

/-! ### converting one annotation -/

section
variable {K : Consts} {ts : TypeSystem} {cass : List Cas} {ci : Nat} {c : Cas} {hp H : Heap}
  {L : List (Int × Nat)} {na : Int → Nat} {p : Pass1} {ia : Int → String → Nat} {ci' : Nat}

theorem Ctx.convert_ann (ctx : Ctx K ts cass ci c hp H L na p) {m : Int} {am : Nat} (hq : (m, am) ∈ L) {o o' : Obj}
    {hpX : Heap} (ho : H[am]? = some o) (ho' : hpX[na m]? = some o') {C Kp : Prop}
    (hok : ObjOk K ts cass H na ia ci' C Kp o o' m) (hC : ¬ C) (hann : isInstanceOf ts o.ty ANNOTATION = true) :
    ∃ (vn : String) (v : View) (text : List Nat) (o1 : Obj),
      alistGet? o.slots "sofa" = some (.sofa ci vn) ∧ Cas.getViewRec c vn = some v ∧ v.sofa.text = some text ∧
      convertOffsets (convOfText (some (docText text))) hpX (na m) = .ok (hpX.set (na m) o1) ∧
      ∀ C' : Prop, C' → ObjOk K ts cass H na ia ci' C' Kp o o1 m := by
  obtain ⟨vn, v, text, b, e, hs, hv, ht, hb, he, hbl, hel⟩ := ctx.lok.ann _ hq o ho hann
  have hvm : (vn, v) ∈ c.views := Cas.alistGet?_some_mem hv
  have hconv : v.sofa.conv = some (Offsets.table text) := ctx.wf.conv _ hvm text ht
  have hsc : ∀ cp ∈ text, Offsets.IsScalar cp := ctx.wf.scalar _ hvm text ht
  -- the new slots
  obtain ⟨wb, hwb, hsb⟩ := hok.2.2.2 "begin" _ hb
  obtain ⟨we, hwe, hse⟩ := hok.2.2.2 "end" _ he
  unfold SlotOk at hsb hse
  rw [if_neg (by decide)] at hsb hse
  have eb := hsb.2 hC
  have ee := hse.2 hC
  change wb = E2 ts cass H na ci' o "begin" (.int b) at eb
  change we = E2 ts cass H na ci' o "end" (.int e) at ee
  unfold E2 exp2 at eb ee
  rw [hann] at eb ee
  simp only at eb ee
  rw [extInt_ann cass ctx.hc hs hv "begin" (Or.inl rfl) b, hconv] at eb
  rw [extInt_ann cass ctx.hc hs hv "end" (Or.inr rfl) e, hconv] at ee
  subst eb ee
  refine ⟨vn, v, text, _, hs, hv, ht, convertOffsets_eq _ ho' hwb hwe, ?_⟩
  intro C' hC'
  rw [cvI_restores text hsc b hbl, cvI_restores text hsc e hel]
  exact hok.convert hC hC' hb he

end

end Cassis.Xmi.RTCB
